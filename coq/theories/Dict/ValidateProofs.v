(* C15 lemmas: the validator model against the specification of Dict/ValidateSpec.v. *)
From Coq Require Import ZArith List Bool Lia.
From QF Require Import Base.Res Base.Bytes Codec.FixInt Dict.Xml Dict.Build Dict.Validate Dict.ValidateSpec.
Import ListNotations.
Open Scope Z_scope.

Lemma v_zmem_In : forall x l, v_zmem x l = true <-> In x l.
Proof.
  intros x l. induction l as [|y l IH]; cbn.
  - split; [discriminate | tauto].
  - destruct (y =? x) eqn:E.
    + apply Z.eqb_eq in E. split; auto.
    + rewrite IH. apply Z.eqb_neq in E. split; auto. intros [H|H]; auto. contradiction.
Qed.

Lemma v_header_not_trailer : forall t, v_is_header t = true -> v_is_trailer t = false.
Proof.
  intros t H. unfold v_is_header in H. apply v_zmem_In in H.
  unfold v_header_tags in H. cbn in H.
  repeat (destruct H as [H|H]; [subst t; reflexivity|]). contradiction.
Qed.

Lemma v_match_nil {A} (l : list A) : match l with [] => true | _ :: _ => false end = true -> l = [].
Proof. destruct l; [reflexivity|discriminate]. Qed.

Section Proofs.
  Variable rd_bool rd_timestamp rd_float : bytes -> bool.
  Notation VAL := (v_validate rd_bool rd_timestamp rd_float).
  Notation value_okb := (c15_value_okb rd_bool rd_timestamp rd_float).
  Notation conformsb := (c15_conformsb rd_bool rd_timestamp rd_float).

  (* ---- the pipeline, once for both validators ---- *)
  Definition v_pipeline (tdd add : dict) (s : v_settings) (mt : bytes) (m : v_msg) : v_result :=
    v_then (v_then (v_validate_msg_type add mt) (v_validate_required tdd add mt m))
    (v_then (v_validate_field_content m (vs_check_fields_have_values s) (vs_check_fields_out_of_order s))
       (if vs_reject_invalid_message s then
          v_then (v_validate_fields_loop rd_bool rd_timestamp rd_float tdd add s (vm_fields m))
                 (v_validate_walk tdd add s mt m)
        else Ok None)).

  (* which dictionaries NewValidator(settings, app, transport) uses for a message of type mt:
     tdd for header and trailer, add for the body *)
  Inductive c15_config : option dict -> option dict -> bytes -> dict -> dict -> Prop :=
  | cfg_fix : forall d mt, c15_config (Some d) None mt d d
  | cfg_fixt_admin : forall app t mt, v_is_admin_message_type mt = true -> c15_config app (Some t) mt t t
  | cfg_fixt_app : forall a t mt, v_is_admin_message_type mt = false -> c15_config (Some a) (Some t) mt t a.

  Lemma v_validate_pipeline : forall app tr mt tdd add s m,
    c15_config app tr mt tdd add -> vm_msg_type m = Some mt ->
    VAL s app tr m = v_pipeline tdd add s mt m.
  Proof.
    intros app tr mt tdd add s m C Hmt. unfold v_validate. rewrite Hmt.
    destruct C as [d mt | app t mt Ha | a t mt Ha].
    - reflexivity.
    - rewrite Ha. reflexivity.
    - rewrite Ha. reflexivity.
  Qed.

  (* ---- rule 1: MsgType ---- *)
  Lemma v_msg_type_unknown : forall d mt, dict_bget mt (dd_messages d) = None ->
    v_validate_msg_type d mt = Ok (Some v_invalid_message_type).
  Proof. intros d mt H. unfold v_validate_msg_type. rewrite H. reflexivity. Qed.

  Lemma v_msg_type_known : forall d mt md, dict_bget mt (dd_messages d) = Some md ->
    v_validate_msg_type d mt = Ok None.
  Proof. intros d mt md H. unfold v_validate_msg_type. rewrite H. reflexivity. Qed.

  (* ---- rule 2: required fields ---- *)
  Lemma v_required_map_ok : forall req has, c15_subset req has = true ->
    v_validate_required_field_map req has = Ok None.
  Proof.
    induction req as [|t req IH]; intros has H; cbn in *; auto.
    apply andb_true_iff in H. destruct H as [H1 H2]. rewrite H1. auto.
  Qed.

  Lemma v_required_map_missing : forall req has t,
    In t req -> v_zmem t has = false -> (forall x, In x req -> x <> t -> v_zmem x has = true) ->
    v_validate_required_field_map req has = Ok (Some (v_required_tag_missing t)).
  Proof.
    induction req as [|x req IH]; intros has t Hin Hm Hall; [contradiction|]. cbn.
    destruct (Z.eq_dec x t) as [->|Hne].
    - rewrite Hm. reflexivity.
    - rewrite (Hall x (or_introl eq_refl) Hne). apply IH; auto.
      + destruct Hin as [Hin|Hin]; [contradiction|exact Hin].
      + intros y Hy. apply Hall. right. exact Hy.
  Qed.

  (* ---- rule 3: field content ---- *)
  Definition v_nonempty_if (cv : bool) (l : list v_tv) : Prop := cv = true -> forallb c15_nonempty l = true.

  Lemma v_nonempty_if_cons : forall cv f l, v_nonempty_if cv (f :: l) ->
    (cv && match snd f with [] => true | _ => false end = false) /\ v_nonempty_if cv l.
  Proof.
    intros cv f l H. destruct cv; [|split; [reflexivity|intro; discriminate]].
    specialize (H eq_refl). cbn in H. apply andb_true_iff in H. destruct H as [H1 H2].
    split; [|intro; exact H2]. unfold c15_nonempty in H1. destruct (snd f); [discriminate|reflexivity].
  Qed.

  (* state (in_header, in_trailer) = (false, true): only trailer fields may follow *)
  Lemma v_content_trailer : forall l cv co, v_nonempty_if cv l ->
    (co = true -> c15_skip v_is_trailer l = []) ->
    v_field_content_loop l cv co false true = Ok None.
  Proof.
    induction l as [|[t v] l IH]; intros cv co Hv Ho; cbn [v_field_content_loop]; auto.
    destruct (v_nonempty_if_cons _ _ _ Hv) as [Hv1 Hv2]. cbn [snd] in Hv1. rewrite Hv1.
    cbn [andb negb].
    destruct (v_is_header t) eqn:Eh; cbn [andb].
    - destruct co; cbn [andb].
      + specialize (Ho eq_refl). cbn [c15_skip fst negb andb] in Ho. rewrite (v_header_not_trailer t Eh) in Ho. discriminate.
      + rewrite (v_header_not_trailer t Eh). cbn. apply IH; auto. intro; discriminate.
    - destruct (v_is_trailer t) eqn:Et.
      + apply IH; auto. intro Hc. specialize (Ho Hc). cbn [c15_skip fst negb andb] in Ho. rewrite Et in Ho. exact Ho.
      + cbn [negb andb]. destruct co; cbn [andb].
        * specialize (Ho eq_refl). cbn [c15_skip fst negb andb] in Ho. rewrite Et in Ho. discriminate.
        * apply IH; auto. intro; discriminate.
  Qed.

  (* state (false, false): body fields, then trailer fields *)
  Lemma v_content_body : forall l cv co, v_nonempty_if cv l ->
    (co = true -> c15_skip v_is_trailer (c15_skip c15_is_body l) = []) ->
    v_field_content_loop l cv co false false = Ok None.
  Proof.
    induction l as [|[t v] l IH]; intros cv co Hv Ho; cbn [v_field_content_loop]; auto.
    destruct (v_nonempty_if_cons _ _ _ Hv) as [Hv1 Hv2]. cbn [snd] in Hv1. rewrite Hv1.
    cbn [andb negb].
    destruct (v_is_header t) eqn:Eh; cbn [andb].
    - destruct co; cbn [andb].
      + specialize (Ho eq_refl). cbn [c15_skip fst negb andb] in Ho. unfold c15_is_body in Ho. rewrite Eh in Ho. cbn [c15_skip fst negb andb] in Ho.
        rewrite (v_header_not_trailer t Eh) in Ho. discriminate.
      + rewrite (v_header_not_trailer t Eh). apply IH; auto. intro; discriminate.
    - destruct (v_is_trailer t) eqn:Et.
      + apply v_content_trailer; auto. intro Hc. specialize (Ho Hc). cbn [c15_skip fst negb andb] in Ho. unfold c15_is_body in Ho.
        rewrite Eh, Et in Ho. cbn [c15_skip fst negb andb] in Ho. rewrite Et in Ho. exact Ho.
      + apply IH; auto. intro Hc. specialize (Ho Hc). cbn [c15_skip fst negb andb] in Ho. unfold c15_is_body in Ho.
        rewrite Eh, Et in Ho. cbn [c15_skip fst negb andb] in Ho. exact Ho.
  Qed.

  Lemma v_skip_trailer_body : forall l, c15_skip v_is_trailer l = [] ->
    c15_skip v_is_trailer (c15_skip c15_is_body l) = [].
  Proof.
    intros [|[t v] l] H; [reflexivity|]. cbn [c15_skip fst] in *.
    destruct (v_is_trailer t) eqn:Et; [|discriminate].
    unfold c15_is_body. rewrite Et. rewrite andb_false_r. cbn [c15_skip fst]. rewrite Et. exact H.
  Qed.

  (* initial state (true, false) *)
  Lemma v_content_header : forall l cv co, v_nonempty_if cv l ->
    (co = true -> c15_orderedb l = true) ->
    v_field_content_loop l cv co true false = Ok None.
  Proof.
    induction l as [|[t v] l IH]; intros cv co Hv Ho; cbn [v_field_content_loop]; auto.
    destruct (v_nonempty_if_cons _ _ _ Hv) as [Hv1 Hv2]. cbn [snd] in Hv1. rewrite Hv1.
    cbn [andb negb].
    destruct (v_is_header t) eqn:Eh; cbn [andb negb].
    - apply IH; auto. intro Hc. specialize (Ho Hc). unfold c15_orderedb in *. cbn [c15_skip fst negb andb] in Ho. rewrite Eh in Ho. exact Ho.
    - assert (Hrest : co = true -> c15_skip v_is_trailer (c15_skip c15_is_body ((t, v) :: l)) = []).
      { intro Hc. specialize (Ho Hc). unfold c15_orderedb in Ho. cbn [c15_skip fst] in Ho. rewrite Eh in Ho.
        cbv iota in Ho. apply v_match_nil. exact Ho. }
      (* the first non-header field is passed over without looking at it *)
      destruct (v_is_trailer t) eqn:Et.
      + apply v_content_body; auto. intro Hc. specialize (Hrest Hc). cbn [c15_skip fst negb andb] in Hrest.
        unfold c15_is_body in Hrest. rewrite Eh, Et in Hrest. cbn [c15_skip fst negb andb] in Hrest. rewrite Et in Hrest.
        apply v_skip_trailer_body. exact Hrest.
      + apply v_content_body; auto. intro Hc. specialize (Hrest Hc). cbn [c15_skip fst negb andb] in Hrest. unfold c15_is_body in Hrest.
        rewrite Eh, Et in Hrest. cbn [c15_skip fst negb andb] in Hrest. exact Hrest.
  Qed.

  Lemma v_field_content_ok : forall m cv co,
    (negb cv || forallb c15_nonempty (vm_fields m)) = true ->
    (negb co || c15_orderedb (vm_fields m)) = true ->
    v_validate_field_content m cv co = Ok None.
  Proof.
    intros m cv co Hv Ho. unfold v_validate_field_content.
    destruct (negb cv && negb co); [reflexivity|].
    apply v_content_header.
    - intro Hc. subst cv. exact Hv.
    - intro Hc. subst co. exact Ho.
  Qed.

  (* ---- rule 4: every field ---- *)
  Lemma c15_tolerated_check : forall s t, v_check_field_not_defined s t = c15_tolerated s t.
  Proof.
    intros s t. unfold v_check_field_not_defined, c15_tolerated.
    destruct (t <? USER_DEFINED_TAG_MIN); [apply negb_involutive|reflexivity].
  Qed.

  Lemma v_field_ok : forall d s f, value_okb s d f = true ->
    v_validate_field rd_bool rd_timestamp rd_float d s f = Ok None.
  Proof.
    intros d s [t value] H. unfold c15_value_okb in H. cbn [fst snd] in H.
    apply andb_true_iff in H. destruct H as [Hne H]. unfold c15_nonempty in Hne. cbn [snd] in Hne.
    unfold v_validate_field. destruct value as [|b value]; [discriminate|].
    destruct (dict_zget t (dd_field_type_by_tag d)) as [ft|].
    - apply andb_true_iff in H. destruct H as [He Hk].
      destruct (dft_enums ft) as [|e es].
      + destruct (dict_bget (dft_type ft) v_type_table) as [k|]; [|discriminate]. rewrite Hk. reflexivity.
      + rewrite He. cbn [negb]. destruct (dict_bget (dft_type ft) v_type_table) as [k|]; [|discriminate].
        rewrite Hk. reflexivity.
    - rewrite c15_tolerated_check. rewrite H. reflexivity.
  Qed.

  Lemma v_fields_ok : forall tdd add s l,
    forallb (fun f => value_okb s (c15_dict_of tdd add (fst f)) f) l = true ->
    v_validate_fields_loop rd_bool rd_timestamp rd_float tdd add s l = Ok None.
  Proof.
    induction l as [|f l IH]; intro H; cbn [v_validate_fields_loop]; auto.
    cbn in H. apply andb_true_iff in H. destruct H as [H1 H2].
    unfold c15_dict_of in H1.
    destruct (v_is_header (fst f)); [rewrite (v_field_ok _ _ _ H1); cbn; auto|].
    destruct (v_is_trailer (fst f)); rewrite (v_field_ok _ _ _ H1); cbn; auto.
  Qed.

  (* ---- rule 5: the walk, for messages without repeating groups ---- *)
  Definition c15_plain_field (tdd : dict) (md : dict_message_def) (f : v_tv) : bool :=
    match c15_def_of tdd md (fst f) with
    | Some sd => match dict_zget (fst f) (dmd_fields sd) with
                 | Some fd => negb (dfd_is_group fd)
                 | None => true
                 end
    | None => true
    end.

  Lemma c15_member_plain : forall fd stack, dfd_is_group fd = false -> c15_member fd stack = Some (tl stack).
  Proof. intros [ft r fs] stack H. unfold dfd_is_group in H. cbn in H. destruct fs; [reflexivity|discriminate]. Qed.

  Lemma v_walk_plain : forall tdd add s mt md fuel fuel' l seen,
    dict_bget mt (dd_messages add) = Some md ->
    forallb (c15_plain_field tdd md) l = true ->
    c15_items fuel' s tdd md l seen = true ->
    (length l < fuel)%nat ->
    v_walk_loop fuel tdd add s mt l seen = Ok None.
  Proof.
    intros tdd add s mt md. induction fuel as [|fuel IH]; intros fuel' l seen Hmd Hp Hi Hf; [lia|].
    destruct l as [|[t v] rest]; [reflexivity|].
    destruct fuel' as [|fuel']; [discriminate|].
    cbn [v_walk_loop]. cbn [c15_items] in Hi.
    destruct (v_zmem t seen); [discriminate|].
    cbn in Hp. apply andb_true_iff in Hp. destruct Hp as [Hp1 Hp2]. unfold c15_plain_field in Hp1. cbn [fst] in Hp1.
    unfold c15_def_of in *. rewrite Hmd.
    destruct (if v_is_header t then dd_header tdd else if v_is_trailer t then dd_trailer tdd else Some md) as [sd|];
      [|discriminate].
    destruct (dict_zget t (dmd_fields sd)) as [fd|].
    - apply negb_true_iff in Hp1. rewrite (c15_member_plain fd _ Hp1) in Hi. cbn [tl] in Hi.
      apply andb_true_iff in Hi. destruct Hi as [_ Hi].
      unfold v_visit_field. rewrite Hp1. cbn [bind].
      eapply IH; eauto. cbn in Hf. lia.
    - apply andb_true_iff in Hi. destruct Hi as [Ht Hi].
      rewrite c15_tolerated_check. rewrite Ht. cbn [negb].
      eapply IH; eauto. cbn in Hf. lia.
  Qed.

  Lemma v_walk_fuel_enough : forall tdd add mt m, (length (vm_fields m) < v_walk_fuel tdd add mt m)%nat.
  Proof. intros. unfold v_walk_fuel. nia. Qed.

  (* ---- acceptance ---- *)
  Definition c15_no_groups (tdd add : dict) (m : v_msg) : Prop := c15_no_groupsb tdd add m = true.

  Theorem v_accepts_no_groups : forall app tr s m mt tdd add,
    vm_msg_type m = Some mt -> c15_config app tr mt tdd add ->
    conformsb s tdd add m = true -> c15_no_groups tdd add m ->
    VAL s app tr m = Ok None.
  Proof.
    intros app tr s m mt tdd add Hmt C Hc Hng.
    rewrite (v_validate_pipeline _ _ _ _ _ s m C Hmt).
    unfold c15_conformsb in Hc. rewrite Hmt in Hc.
    destruct (dict_bget mt (dd_messages add)) as [md|] eqn:Emd; [|discriminate].
    destruct (dd_header tdd) as [h|] eqn:Eh; [|discriminate].
    destruct (dd_trailer tdd) as [t|] eqn:Et; [|discriminate].
    repeat rewrite andb_true_iff in Hc. destruct Hc as [[[[[R1 R2] R3] Cv] Co] Cr].
    unfold v_pipeline.
    rewrite (v_msg_type_known _ _ _ Emd). cbn [v_then].
    unfold v_validate_required. rewrite Eh, Emd, Et.
    rewrite (v_required_map_ok _ _ R1). cbn [v_then].
    rewrite (v_required_map_ok _ _ R2). cbn [v_then].
    rewrite (v_required_map_ok _ _ R3). cbn [v_then].
    rewrite (v_field_content_ok m _ _ Cv Co). cbn [v_then].
    destruct (vs_reject_invalid_message s); [|reflexivity].
    cbn [negb orb] in Cr. apply andb_true_iff in Cr. destruct Cr as [Cf Ci].
    rewrite (v_fields_ok _ _ _ _ Cf). cbn [v_then].
    unfold v_validate_walk.
    eapply v_walk_plain; eauto.
    - unfold c15_no_groups, c15_no_groupsb in Hng. rewrite Hmt, Emd in Hng. exact Hng.
    - apply v_walk_fuel_enough.
  Qed.

  (* ---- defects: the first failing rule names the defect ---- *)

  (* unknown MsgType *)
  Theorem v_defect_msgtype : forall app tr s m mt tdd add,
    vm_msg_type m = Some mt -> c15_config app tr mt tdd add ->
    dict_bget mt (dd_messages add) = None ->
    VAL s app tr m = Ok (Some (RR_INVALID_MSG_TYPE, None)).
  Proof.
    intros app tr s m mt tdd add Hmt C Hn. rewrite (v_validate_pipeline _ _ _ _ _ s m C Hmt).
    unfold v_pipeline. rewrite (v_msg_type_unknown _ _ Hn). reflexivity.
  Qed.

  (* MsgType itself missing *)
  Theorem v_defect_no_msgtype : forall app tr s m, vm_msg_type m = None ->
    VAL s app tr m = Ok (Some (RR_REQUIRED_TAG_MISSING, Some 35)).
  Proof. intros app tr s m H. unfold v_validate. rewrite H. reflexivity. Qed.

  (* exactly one required tag of a section missing *)
  Definition c15_one_missing (req has : list Z) (t : Z) : Prop :=
    In t req /\ v_zmem t has = false /\ forall x, In x req -> x <> t -> v_zmem x has = true.

  Theorem v_defect_missing_header : forall app tr s m mt tdd add md h t,
    vm_msg_type m = Some mt -> c15_config app tr mt tdd add ->
    dict_bget mt (dd_messages add) = Some md -> dd_header tdd = Some h ->
    c15_one_missing (dmd_required_tags h) (vm_header_tags m) t ->
    VAL s app tr m = Ok (Some (RR_REQUIRED_TAG_MISSING, Some t)).
  Proof.
    intros app tr s m mt tdd add md h t Hmt C Hmd Hh [H1 [H2 H3]].
    rewrite (v_validate_pipeline _ _ _ _ _ s m C Hmt). unfold v_pipeline.
    rewrite (v_msg_type_known _ _ _ Hmd). cbn [v_then]. unfold v_validate_required. rewrite Hh.
    rewrite (v_required_map_missing _ _ _ H1 H2 H3). reflexivity.
  Qed.

  Theorem v_defect_missing_body : forall app tr s m mt tdd add md h t,
    vm_msg_type m = Some mt -> c15_config app tr mt tdd add ->
    dict_bget mt (dd_messages add) = Some md -> dd_header tdd = Some h ->
    c15_subset (dmd_required_tags h) (vm_header_tags m) = true ->
    c15_one_missing (dmd_required_tags md) (vm_body_tags m) t ->
    VAL s app tr m = Ok (Some (RR_REQUIRED_TAG_MISSING, Some t)).
  Proof.
    intros app tr s m mt tdd add md h t Hmt C Hmd Hh Hs [H1 [H2 H3]].
    rewrite (v_validate_pipeline _ _ _ _ _ s m C Hmt). unfold v_pipeline.
    rewrite (v_msg_type_known _ _ _ Hmd). cbn [v_then]. unfold v_validate_required. rewrite Hh, Hmd.
    rewrite (v_required_map_ok _ _ Hs). cbn [v_then].
    rewrite (v_required_map_missing _ _ _ H1 H2 H3). reflexivity.
  Qed.

  Theorem v_defect_missing_trailer : forall app tr s m mt tdd add md h tl t,
    vm_msg_type m = Some mt -> c15_config app tr mt tdd add ->
    dict_bget mt (dd_messages add) = Some md -> dd_header tdd = Some h -> dd_trailer tdd = Some tl ->
    c15_subset (dmd_required_tags h) (vm_header_tags m) = true ->
    c15_subset (dmd_required_tags md) (vm_body_tags m) = true ->
    c15_one_missing (dmd_required_tags tl) (vm_trailer_tags m) t ->
    VAL s app tr m = Ok (Some (RR_REQUIRED_TAG_MISSING, Some t)).
  Proof.
    intros app tr s m mt tdd add md h tl t Hmt C Hmd Hh Ht Hs1 Hs2 [H1 [H2 H3]].
    rewrite (v_validate_pipeline _ _ _ _ _ s m C Hmt). unfold v_pipeline.
    rewrite (v_msg_type_known _ _ _ Hmd). cbn [v_then]. unfold v_validate_required. rewrite Hh, Hmd, Ht.
    rewrite (v_required_map_ok _ _ Hs1). cbn [v_then].
    rewrite (v_required_map_ok _ _ Hs2). cbn [v_then].
    rewrite (v_required_map_missing _ _ _ H1 H2 H3). reflexivity.
  Qed.

  (* rules 1 and 2 pass *)
  Definition c15_required_ok (tdd add : dict) (mt : bytes) (m : v_msg) : Prop :=
    exists md h tl, dict_bget mt (dd_messages add) = Some md /\ dd_header tdd = Some h /\ dd_trailer tdd = Some tl /\
      c15_subset (dmd_required_tags h) (vm_header_tags m) = true /\
      c15_subset (dmd_required_tags md) (vm_body_tags m) = true /\
      c15_subset (dmd_required_tags tl) (vm_trailer_tags m) = true.

  Lemma v_pipeline_after_required : forall tdd add s mt m, c15_required_ok tdd add mt m ->
    v_pipeline tdd add s mt m =
    v_then (v_validate_field_content m (vs_check_fields_have_values s) (vs_check_fields_out_of_order s))
       (if vs_reject_invalid_message s then
          v_then (v_validate_fields_loop rd_bool rd_timestamp rd_float tdd add s (vm_fields m))
                 (v_validate_walk tdd add s mt m)
        else Ok None).
  Proof.
    intros tdd add s mt m [md [h [tl [Hmd [Hh [Ht [R1 [R2 R3]]]]]]]]. unfold v_pipeline.
    rewrite (v_msg_type_known _ _ _ Hmd). cbn [v_then]. unfold v_validate_required. rewrite Hh, Hmd, Ht.
    rewrite (v_required_map_ok _ _ R1). cbn [v_then].
    rewrite (v_required_map_ok _ _ R2). cbn [v_then].
    rewrite (v_required_map_ok _ _ R3). reflexivity.
  Qed.

  (* the section automaton of validateFieldContent: None = out of order *)
  Definition v_content_step (t : Z) (co ih it : bool) : option (bool * bool) :=
    if ih && v_is_header t then Some (ih, it)
    else if ih && negb (v_is_header t) then Some (false, it)
    else if negb ih && v_is_header t && co then None
    else if v_is_trailer t then Some (ih, true)
    else if it && negb (v_is_trailer t) && co then None
    else Some (ih, it).

  Lemma v_content_loop_cons : forall t v rest cv co ih it,
    v_field_content_loop ((t, v) :: rest) cv co ih it =
    if cv && match v with [] => true | _ => false end then Ok (Some (v_tag_specified_without_a_value t))
    else match v_content_step t co ih it with
         | None => Ok (Some (v_tag_specified_out_of_required_order t))
         | Some st => v_field_content_loop rest cv co (fst st) (snd st)
         end.
  Proof.
    intros. cbn [v_field_content_loop]. unfold v_content_step.
    destruct (cv && match v with [] => true | _ => false end); [reflexivity|].
    destruct (ih && v_is_header t); [reflexivity|].
    destruct (ih && negb (v_is_header t)); [reflexivity|].
    destruct (negb ih && v_is_header t && co); [reflexivity|].
    destruct (v_is_trailer t); [reflexivity|].
    destruct (it && negb false && co); reflexivity.
  Qed.

  Fixpoint v_content_run (l : list v_tv) (co ih it : bool) : option (bool * bool) :=
    match l with
    | [] => Some (ih, it)
    | (t, _) :: r => match v_content_step t co ih it with
                     | None => None
                     | Some st => v_content_run r co (fst st) (snd st)
                     end
    end.

  Lemma v_content_loop_app : forall pre rest cv co ih it st,
    v_content_run pre co ih it = Some st -> v_nonempty_if cv pre ->
    v_field_content_loop (pre ++ rest) cv co ih it = v_field_content_loop rest cv co (fst st) (snd st).
  Proof.
    induction pre as [|[t v] pre IH]; intros rest cv co ih it st Hr Hv.
    - cbn in Hr. injection Hr as <-. reflexivity.
    - cbn [app]. rewrite v_content_loop_cons. destruct (v_nonempty_if_cons _ _ _ Hv) as [Hv1 Hv2].
      cbn [snd] in Hv1. rewrite Hv1. cbn [v_content_run] in Hr.
      destruct (v_content_step t co ih it) as [st1|]; [|discriminate]. apply IH; auto.
  Qed.

  Lemma v_content_loop_run : forall l cv co ih it,
    v_field_content_loop l cv co ih it = Ok None -> exists st, v_content_run l co ih it = Some st.
  Proof.
    induction l as [|[t v] l IH]; intros cv co ih it H; [cbn; eauto|].
    rewrite v_content_loop_cons in H. cbn [v_content_run].
    destruct (cv && match v with [] => true | _ => false end); [discriminate|].
    destruct (v_content_step t co ih it) as [st1|]; [|discriminate]. eapply IH; eauto.
  Qed.

  Lemma v_ordered_run : forall l co, (co = true -> c15_orderedb l = true) ->
    exists st, v_content_run l co true false = Some st.
  Proof.
    intros l co H. apply (v_content_loop_run l false co).
    apply v_content_header; auto. intro; discriminate.
  Qed.

  (* once the header is left it stays left *)
  Lemma v_content_run_left : forall l co it st, v_content_run l co false it = Some st -> fst st = false.
  Proof.
    induction l as [|[t v] l IH]; intros co it st H; cbn [v_content_run] in H.
    - injection H as <-. reflexivity.
    - unfold v_content_step in H. cbn [andb negb] in H.
      destruct (v_is_header t && co); [discriminate|].
      destruct (v_is_trailer t); [eapply IH; eauto|].
      destruct (it && negb false && co); [discriminate|]. eapply IH; eauto.
  Qed.

  Lemma v_content_run_nonheader : forall l co it st,
    v_content_run l co true it = Some st -> existsb (fun f => negb (v_is_header (fst f))) l = true -> fst st = false.
  Proof.
    induction l as [|[t v] l IH]; intros co it st H Hx; [discriminate|].
    cbn [v_content_run] in H. cbn [existsb fst] in Hx. unfold v_content_step in H. cbn [andb negb] in H.
    destruct (v_is_header t) eqn:Eh; cbn [negb orb fst snd] in *.
    - eapply IH; eauto.
    - eapply v_content_run_left; eauto.
  Qed.

  (* empty value, CheckFieldsHaveValues on: the first empty field is named *)
  Theorem v_defect_empty_checked : forall app tr s m mt tdd add pre post t,
    vm_msg_type m = Some mt -> c15_config app tr mt tdd add -> c15_required_ok tdd add mt m ->
    vs_check_fields_have_values s = true ->
    vm_fields m = pre ++ (t, []) :: post ->
    forallb c15_nonempty pre = true ->
    (vs_check_fields_out_of_order s = true -> c15_orderedb pre = true) ->
    VAL s app tr m = Ok (Some (RR_TAG_SPECIFIED_WITHOUT_A_VALUE, Some t)).
  Proof.
    intros app tr s m mt tdd add pre post t Hmt C Hreq Hcv Hf Hne Ho.
    rewrite (v_validate_pipeline _ _ _ _ _ s m C Hmt). rewrite (v_pipeline_after_required _ _ _ _ _ Hreq).
    unfold v_validate_field_content. rewrite Hcv. cbn [negb andb]. rewrite Hf.
    destruct (v_ordered_run pre _ Ho) as [st Hst].
    rewrite (v_content_loop_app pre _ true _ true false st Hst); [|intro; exact Hne].
    rewrite v_content_loop_cons. reflexivity.
  Qed.

  (* header field after the header section has been left, CheckFieldsOutOfOrder on *)
  Theorem v_defect_header_late : forall app tr s m mt tdd add pre post t v,
    vm_msg_type m = Some mt -> c15_config app tr mt tdd add -> c15_required_ok tdd add mt m ->
    vs_check_fields_out_of_order s = true ->
    vm_fields m = pre ++ (t, v) :: post ->
    v_is_header t = true ->
    existsb (fun f => negb (v_is_header (fst f))) pre = true ->
    c15_orderedb pre = true ->
    (vs_check_fields_have_values s = true -> forallb c15_nonempty (pre ++ [(t, v)]) = true) ->
    VAL s app tr m = Ok (Some (RR_TAG_SPECIFIED_OUT_OF_REQUIRED_ORDER, Some t)).
  Proof.
    intros app tr s m mt tdd add pre post t v Hmt C Hreq Hco Hf Hh Hx Ho Hne.
    rewrite (v_validate_pipeline _ _ _ _ _ s m C Hmt). rewrite (v_pipeline_after_required _ _ _ _ _ Hreq).
    unfold v_validate_field_content. rewrite Hco. rewrite andb_false_r. rewrite Hf.
    destruct (v_ordered_run pre true (fun _ => Ho)) as [st Hst].
    assert (Hpre : v_nonempty_if (vs_check_fields_have_values s) pre).
    { intro Hc. specialize (Hne Hc). rewrite forallb_app in Hne. apply andb_true_iff in Hne. apply Hne. }
    rewrite (v_content_loop_app pre _ _ _ true false st Hst Hpre).
    rewrite v_content_loop_cons.
    assert (Hv : vs_check_fields_have_values s && match v with [] => true | _ => false end = false).
    { destruct (vs_check_fields_have_values s); [|reflexivity]. specialize (Hne eq_refl).
      rewrite forallb_app in Hne. apply andb_true_iff in Hne. destruct Hne as [_ Hne]. cbn in Hne.
      unfold c15_nonempty in Hne. cbn in Hne. destruct v; [discriminate|reflexivity]. }
    rewrite Hv. rewrite (v_content_run_nonheader pre true false st Hst Hx).
    unfold v_content_step. rewrite Hh. cbn. reflexivity.
  Qed.

  (* rules 1 to 3 pass and rule 4 is on *)
  Definition c15_content_ok (s : v_settings) (m : v_msg) : Prop :=
    (negb (vs_check_fields_have_values s) || forallb c15_nonempty (vm_fields m)) = true /\
    (negb (vs_check_fields_out_of_order s) || c15_orderedb (vm_fields m)) = true.

  Lemma v_pipeline_after_content : forall tdd add s mt m,
    c15_required_ok tdd add mt m -> c15_content_ok s m -> vs_reject_invalid_message s = true ->
    v_pipeline tdd add s mt m =
    v_then (v_validate_fields_loop rd_bool rd_timestamp rd_float tdd add s (vm_fields m))
           (v_validate_walk tdd add s mt m).
  Proof.
    intros tdd add s mt m Hreq [Cv Co] Hri. rewrite (v_pipeline_after_required _ _ _ _ _ Hreq).
    rewrite (v_field_content_ok m _ _ Cv Co). cbn [v_then]. rewrite Hri. reflexivity.
  Qed.

  Lemma v_fields_loop_app : forall tdd add s pre f post,
    forallb (fun f => value_okb s (c15_dict_of tdd add (fst f)) f) pre = true ->
    v_validate_fields_loop rd_bool rd_timestamp rd_float tdd add s (pre ++ f :: post) =
    v_then (v_validate_field rd_bool rd_timestamp rd_float (c15_dict_of tdd add (fst f)) s f)
           (v_validate_fields_loop rd_bool rd_timestamp rd_float tdd add s post).
  Proof.
    induction pre as [|g pre IH]; intros f post H.
    - cbn [app v_validate_fields_loop]. unfold c15_dict_of.
      destruct (v_is_header (fst f)); [reflexivity|]. destruct (v_is_trailer (fst f)); reflexivity.
    - cbn in H. apply andb_true_iff in H. destruct H as [H1 H2]. cbn [app v_validate_fields_loop].
      unfold c15_dict_of in H1.
      assert (G : (if v_is_header (fst g) then v_validate_field rd_bool rd_timestamp rd_float tdd s g
                   else if v_is_trailer (fst g) then v_validate_field rd_bool rd_timestamp rd_float tdd s g
                   else v_validate_field rd_bool rd_timestamp rd_float add s g) = Ok None).
      { destruct (v_is_header (fst g)); [apply v_field_ok; exact H1|].
        destruct (v_is_trailer (fst g)); apply v_field_ok; exact H1. }
      rewrite G. cbn [v_then]. apply IH. exact H2.
  Qed.

  (* a defective field, all fields before it being fine: rule 4 names it *)
  Theorem v_defect_field : forall app tr s m mt tdd add pre post f rej,
    vm_msg_type m = Some mt -> c15_config app tr mt tdd add ->
    c15_required_ok tdd add mt m -> c15_content_ok s m -> vs_reject_invalid_message s = true ->
    vm_fields m = pre ++ f :: post ->
    forallb (fun g => value_okb s (c15_dict_of tdd add (fst g)) g) pre = true ->
    v_validate_field rd_bool rd_timestamp rd_float (c15_dict_of tdd add (fst f)) s f = Ok (Some rej) ->
    VAL s app tr m = Ok (Some rej).
  Proof.
    intros app tr s m mt tdd add pre post f rej Hmt C Hreq Hc Hri Hf Hpre Hd.
    rewrite (v_validate_pipeline _ _ _ _ _ s m C Hmt).
    rewrite (v_pipeline_after_content _ _ _ _ _ Hreq Hc Hri). rewrite Hf.
    rewrite (v_fields_loop_app _ _ _ _ _ _ Hpre). rewrite Hd. reflexivity.
  Qed.

  (* the field-level defects, by kind *)
  Lemma v_field_empty : forall d s t,
    v_validate_field rd_bool rd_timestamp rd_float d s (t, []) = Ok (Some (RR_TAG_SPECIFIED_WITHOUT_A_VALUE, Some t)).
  Proof. reflexivity. Qed.

  Lemma v_field_invalid_tag : forall d s t v, v <> [] ->
    dict_zget t (dd_field_type_by_tag d) = None -> c15_tolerated s t = false ->
    v_validate_field rd_bool rd_timestamp rd_float d s (t, v) = Ok (Some (RR_INVALID_TAG_NUMBER, Some t)).
  Proof.
    intros d s t v Hv Hn Ht. unfold v_validate_field. destruct v as [|b v]; [congruence|].
    rewrite Hn. rewrite c15_tolerated_check. rewrite Ht. reflexivity.
  Qed.

  Lemma v_field_enum : forall d s t v ft, v <> [] ->
    dict_zget t (dd_field_type_by_tag d) = Some ft -> dft_enums ft <> [] -> dict_bmem v (dft_enums ft) = false ->
    v_validate_field rd_bool rd_timestamp rd_float d s (t, v) = Ok (Some (RR_VALUE_IS_INCORRECT, Some t)).
  Proof.
    intros d s t v ft Hv Hft He Hm. unfold v_validate_field. destruct v as [|b v]; [congruence|].
    rewrite Hft. destruct (dft_enums ft) as [|e es]; [congruence|]. rewrite Hm. reflexivity.
  Qed.

  Lemma v_field_illtyped : forall d s t v ft k, v <> [] ->
    dict_zget t (dd_field_type_by_tag d) = Some ft ->
    (dft_enums ft = [] \/ dict_bmem v (dft_enums ft) = true) ->
    dict_bget (dft_type ft) v_type_table = Some k -> v_read_ok rd_bool rd_timestamp rd_float k v = false ->
    v_validate_field rd_bool rd_timestamp rd_float d s (t, v) = Ok (Some (RR_INCORRECT_DATA_FORMAT_FOR_VALUE, Some t)).
  Proof.
    intros d s t v ft k Hv Hft He Hk Hr. unfold v_validate_field. destruct v as [|b v]; [congruence|].
    rewrite Hft.
    assert (G : match dft_enums ft with [] => false | _ :: _ => negb (dict_bmem (b :: v) (dft_enums ft)) end = false).
    { destruct He as [He|He]; [rewrite He; reflexivity|]. rewrite He. destruct (dft_enums ft); reflexivity. }
    rewrite G. rewrite Hk, Hr. reflexivity.
  Qed.

  (* ---- the walk over a prefix of plain, distinct, defined-or-tolerated top-level fields ---- *)
  Definition c15_top_ok (s : v_settings) (tdd : dict) (md : dict_message_def) (f : v_tv) : bool :=
    match c15_def_of tdd md (fst f) with
    | Some sd => match dict_zget (fst f) (dmd_fields sd) with
                 | Some fd => negb (dfd_is_group fd)
                 | None => c15_tolerated s (fst f)
                 end
    | None => false
    end.

  Lemma v_walk_app_plain : forall tdd add s mt md pre rest fuel seen,
    dict_bget mt (dd_messages add) = Some md ->
    forallb (c15_top_ok s tdd md) pre = true ->
    NoDup (map fst pre) -> (forall t, In t (map fst pre) -> v_zmem t seen = false) ->
    v_walk_loop (length pre + fuel) tdd add s mt (pre ++ rest) seen =
    v_walk_loop fuel tdd add s mt rest (rev (map fst pre) ++ seen).
  Proof.
    intros tdd add s mt md. induction pre as [|[t v] pre IH]; intros rest fuel seen Hmd Hp Hnd Hs; [reflexivity|].
    cbn [length plus app v_walk_loop]. cbn in Hp. apply andb_true_iff in Hp. destruct Hp as [Hp1 Hp2].
    rewrite (Hs t (or_introl eq_refl)).
    unfold c15_top_ok, c15_def_of in Hp1. cbn [fst] in Hp1. rewrite Hmd.
    inversion Hnd as [|x l Hni Hnd']; subst.
    assert (Hs' : forall t0, In t0 (map fst pre) -> v_zmem t0 (t :: seen) = false).
    { intros t0 Ht0. cbn. destruct (t =? t0) eqn:E; [apply Z.eqb_eq in E; subst; contradiction|]. apply Hs. right. exact Ht0. }
    destruct (if v_is_header t then dd_header tdd else if v_is_trailer t then dd_trailer tdd else Some md) as [sd|];
      [|discriminate].
    destruct (dict_zget t (dmd_fields sd)) as [fd|].
    - apply negb_true_iff in Hp1. unfold v_visit_field. rewrite Hp1. cbn [bind].
      rewrite (IH rest fuel (t :: seen) Hmd Hp2 Hnd' Hs'). cbn [map rev]. rewrite <- app_assoc. reflexivity.
    - rewrite c15_tolerated_check. rewrite Hp1. cbn [negb].
      rewrite (IH rest fuel (t :: seen) Hmd Hp2 Hnd' Hs'). cbn [map rev]. rewrite <- app_assoc. reflexivity.
  Qed.

  (* rules 1 to 4 pass: the walk decides *)
  Lemma v_pipeline_walk : forall tdd add s mt m,
    c15_required_ok tdd add mt m -> c15_content_ok s m -> vs_reject_invalid_message s = true ->
    forallb (fun g => value_okb s (c15_dict_of tdd add (fst g)) g) (vm_fields m) = true ->
    v_pipeline tdd add s mt m = v_validate_walk tdd add s mt m.
  Proof.
    intros tdd add s mt m Hreq Hc Hri Hf. rewrite (v_pipeline_after_content _ _ _ _ _ Hreq Hc Hri).
    rewrite (v_fields_ok _ _ _ _ Hf). reflexivity.
  Qed.

  Lemma v_walk_fuel_split : forall tdd add mt m pre rest, vm_fields m = pre ++ rest ->
    exists k, v_walk_fuel tdd add mt m = (length pre + S k)%nat.
  Proof.
    intros tdd add mt m pre rest H. unfold v_walk_fuel. rewrite H. rewrite app_length.
    exists ((length pre + length rest + 2) *
            (v_msg_def_size (dd_header tdd) + v_msg_def_size (dd_trailer tdd) +
             v_msg_def_size (dict_bget mt (dd_messages add)) + 2) - length pre - 1)%nat. nia.
  Qed.

  (* a tag for the second time at the top level *)
  Theorem v_defect_duplicate : forall app tr s m mt tdd add md pre post t v,
    vm_msg_type m = Some mt -> c15_config app tr mt tdd add ->
    c15_required_ok tdd add mt m -> c15_content_ok s m -> vs_reject_invalid_message s = true ->
    forallb (fun g => value_okb s (c15_dict_of tdd add (fst g)) g) (vm_fields m) = true ->
    dict_bget mt (dd_messages add) = Some md ->
    vm_fields m = pre ++ (t, v) :: post ->
    forallb (c15_top_ok s tdd md) pre = true -> NoDup (map fst pre) ->
    In t (map fst pre) ->
    VAL s app tr m = Ok (Some (RR_TAG_APPEARS_MORE_THAN_ONCE, Some t)).
  Proof.
    intros app tr s m mt tdd add md pre post t v Hmt C Hreq Hc Hri Hfs Hmd Hf Hp Hnd Hin.
    rewrite (v_validate_pipeline _ _ _ _ _ s m C Hmt). rewrite (v_pipeline_walk _ _ _ _ _ Hreq Hc Hri Hfs).
    unfold v_validate_walk. destruct (v_walk_fuel_split tdd add mt m pre _ Hf) as [k Hk]. rewrite Hk, Hf.
    rewrite (v_walk_app_plain tdd add s mt md pre _ (S k) [] Hmd Hp Hnd); [|intros; reflexivity].
    cbn [v_walk_loop]. rewrite app_nil_r.
    assert (G : v_zmem t (rev (map fst pre)) = true) by (apply v_zmem_In; rewrite <- in_rev; exact Hin).
    rewrite G. reflexivity.
  Qed.

  (* a field that is not defined for the message type (and not tolerated by the settings) *)
  Theorem v_defect_undefined : forall app tr s m mt tdd add md sd pre post t v,
    vm_msg_type m = Some mt -> c15_config app tr mt tdd add ->
    c15_required_ok tdd add mt m -> c15_content_ok s m -> vs_reject_invalid_message s = true ->
    forallb (fun g => value_okb s (c15_dict_of tdd add (fst g)) g) (vm_fields m) = true ->
    dict_bget mt (dd_messages add) = Some md ->
    vm_fields m = pre ++ (t, v) :: post ->
    forallb (c15_top_ok s tdd md) pre = true -> NoDup (map fst pre) ->
    ~ In t (map fst pre) ->
    c15_def_of tdd md t = Some sd -> dict_zget t (dmd_fields sd) = None -> c15_tolerated s t = false ->
    VAL s app tr m = Ok (Some (RR_TAG_NOT_DEFINED_FOR_THIS_MESSAGE_TYPE, Some t)).
  Proof.
    intros app tr s m mt tdd add md sd pre post t v Hmt C Hreq Hc Hri Hfs Hmd Hf Hp Hnd Hni Hsd Hz Ht.
    rewrite (v_validate_pipeline _ _ _ _ _ s m C Hmt). rewrite (v_pipeline_walk _ _ _ _ _ Hreq Hc Hri Hfs).
    unfold v_validate_walk. destruct (v_walk_fuel_split tdd add mt m pre _ Hf) as [k Hk]. rewrite Hk, Hf.
    rewrite (v_walk_app_plain tdd add s mt md pre _ (S k) [] Hmd Hp Hnd); [|intros; reflexivity].
    cbn [v_walk_loop]. rewrite app_nil_r.
    assert (G : v_zmem t (rev (map fst pre)) = false).
    { destruct (v_zmem t (rev (map fst pre))) eqn:E; [|reflexivity]. apply v_zmem_In in E. rewrite <- in_rev in E. contradiction. }
    rewrite G. unfold c15_def_of in Hsd. rewrite Hmd. rewrite Hsd. rewrite Hz.
    rewrite c15_tolerated_check. rewrite Ht. reflexivity.
  Qed.
End Proofs.
