(* Fingerprint of a specification document: position-weighted sums (Fletcher style, orders 1 to 3, no
   modulus: additions only, so that the kernel evaluates it quickly) over its length-prefixed serialisation.
   Shipped.v evaluates it on the generated terms inside Coq; the correspondence driver evaluates the same
   (extracted) function on the document that encoding/xml delivered to the real loader.  Equal fingerprints
   tie the translator's output to what the loader reads.  Not used by any theorem. *)
From Coq Require Import ZArith List.
From QF Require Import Base.Bytes Dict.Xml.
Import ListNotations.
Open Scope Z_scope.

Record dict_fp_t : Type := FP { fp_a : Z; fp_b : Z; fp_c : Z }.
Definition dict_fp_step (h : dict_fp_t) (x : Z) : dict_fp_t :=
  let a := fp_a h + x + 1 in
  let b := fp_b h + a in
  FP a b (fp_c h + b).
Definition dict_fp_bytes (h : dict_fp_t) (b : bytes) : dict_fp_t := fold_left dict_fp_step b (dict_fp_step h (len b)).
Definition dict_fp_list {A} (f : dict_fp_t -> A -> dict_fp_t) (h : dict_fp_t) (l : list A) : dict_fp_t :=
  fold_left f l (dict_fp_step h (Z.of_nat (length l))).

Fixpoint dict_fp_member (h : dict_fp_t) (m : xmember) : dict_fp_t :=
  match m with
  | XM el n r ms =>
      fold_left dict_fp_member ms
        (dict_fp_step (dict_fp_bytes (dict_fp_bytes (dict_fp_bytes h el) n) r) (Z.of_nat (length ms)))
  end.

Definition dict_fp_component (h : dict_fp_t) (c : xcomponent) : dict_fp_t :=
  dict_fp_list dict_fp_member (dict_fp_bytes (dict_fp_bytes h (xc_name c)) (xc_msgtype c)) (xc_members c).

Definition dict_fp_opt_component (h : dict_fp_t) (o : option xcomponent) : dict_fp_t :=
  match o with
  | None => dict_fp_step h 0
  | Some c => dict_fp_component (dict_fp_step h 1) c
  end.

Definition dict_fp_field (h : dict_fp_t) (f : xfield) : dict_fp_t :=
  dict_fp_list dict_fp_bytes
    (dict_fp_bytes (dict_fp_bytes (dict_fp_step h (xf_number f)) (xf_name f)) (xf_type f)) (xf_values f).

Definition dict_fp (d : xdoc) : list Z :=
  let h := dict_fp_bytes (dict_fp_bytes (dict_fp_bytes (FP 7 0 0) (xd_type d)) (xd_major d)) (xd_minor d) in
  let h := dict_fp_step h (xd_servicepack d) in
  let h := dict_fp_opt_component (dict_fp_opt_component h (xd_header d)) (xd_trailer d) in
  let h := dict_fp_list dict_fp_component h (xd_messages d) in
  let h := dict_fp_list dict_fp_component h (xd_components d) in
  let h := dict_fp_list dict_fp_field h (xd_fields d) in
  [fp_a h; fp_b h; fp_c h].
