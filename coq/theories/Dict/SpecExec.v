(* Executable counterparts of Dict/Spec.v (fuel = number of components + 1 for the walk through component
   references) and the boolean comparison of a loaded dictionary with the walk.  Used (extracted) as the
   C19 spec predicate on what the real loader built, and (vm_compute) for the shipped documents.
   SpecProofs.v: each function is sound for the relation it decides. *)
From Coq Require Import ZArith List Bool String.
From QF Require Import Base.Res Base.Bytes Dict.Xml Dict.Build Dict.Spec.
Import ListNotations.
Open Scope Z_scope.

Definition sp_concat_map {A C : Type} (f : A -> option (list C)) : list A -> option (list C) :=
  fix loop (l : list A) : option (list C) :=
    match l with
    | [] => Some []
    | a :: r => match f a, loop r with
                | Some x, Some y => Some (x ++ y)
                | _, _ => None
                end
    end.

Section SpLevel.
  Variable doc : xdoc.
  Variable comp_expand : bytes -> option (list sp_tree).
  Variable comp_required : bytes -> option (list Z).
  Variable comp_wf : bytes -> bool.

  Fixpoint sp_member_expand_f (m : xmember) : option (list sp_tree) :=
    match m with
    | XM el n r ms =>
        if dict_beq el el_component then comp_expand n else
        match sp_find_field doc n with
        | None => None
        | Some f =>
            if dict_beq el el_group then
              match sp_concat_map sp_member_expand_f ms with
              | Some ks => Some [SPT (xf_number f) (dict_beq r xY) ks]
              | None => None
              end
            else Some [SPT (xf_number f) (dict_beq r xY) []]
        end
    end.

  Definition sp_member_required_f (m : xmember) : option (list Z) :=
    if xm_is_component m then
      (if xm_is_required m then comp_required (xm_name m) else Some [])
    else if xm_is_required m then
      match sp_find_field doc (xm_name m) with
      | Some f => Some [xf_number f]
      | None => None
      end
    else Some [].

  (* all component references below m (through groups) satisfy comp_wf *)
  Fixpoint sp_member_refs_f (m : xmember) : bool :=
    match m with
    | XM el n r ms =>
        if dict_beq el el_component then comp_wf n
        else if dict_beq el el_group then forallb sp_member_refs_f ms
        else true
    end.
End SpLevel.

Fixpoint sp_comp_expand_f (fuel : nat) (doc : xdoc) (n : bytes) : option (list sp_tree) :=
  match fuel with
  | O => None
  | S f => match sp_find_component doc n with
           | None => None
           | Some c => sp_concat_map (sp_member_expand_f doc (sp_comp_expand_f f doc)) (xc_members c)
           end
  end.
Definition sp_expand_f (fuel : nat) (doc : xdoc) (ms : list xmember) : option (list sp_tree) :=
  sp_concat_map (sp_member_expand_f doc (sp_comp_expand_f fuel doc)) ms.

Fixpoint sp_comp_required_f (fuel : nat) (doc : xdoc) (n : bytes) : option (list Z) :=
  match fuel with
  | O => None
  | S f => match sp_find_component doc n with
           | None => None
           | Some c => sp_concat_map (sp_member_required_f doc (sp_comp_required_f f doc)) (xc_members c)
           end
  end.
Definition sp_required_f (fuel : nat) (doc : xdoc) (ms : list xmember) : option (list Z) :=
  sp_concat_map (sp_member_required_f doc (sp_comp_required_f fuel doc)) ms.

Fixpoint sp_comp_wf_f (fuel : nat) (doc : xdoc) (n : bytes) : bool :=
  match fuel with
  | O => false
  | S f => match sp_find_component doc n with
           | None => true
           | Some c => forallb (sp_member_refs_f (sp_comp_wf_f f doc)) (xc_members c)
           end
  end.
Definition sp_acyclicb (doc : xdoc) : bool :=
  forallb (fun c => sp_comp_wf_f (dict_fuel doc) doc (xc_name c)) (xd_components doc).

(* NoDup, decided *)
Fixpoint sp_nodup_bytesb (l : list bytes) : bool :=
  match l with [] => true | x :: r => if dict_bmem x r then false else sp_nodup_bytesb r end.
Fixpoint sp_zmem (x : Z) (l : list Z) : bool :=
  match l with [] => false | y :: r => if y =? x then true else sp_zmem x r end.
Fixpoint sp_nodup_zb (l : list Z) : bool :=
  match l with [] => true | x :: r => if sp_zmem x r then false else sp_nodup_zb r end.
Definition sp_uniqueb (doc : xdoc) : bool :=
  sp_nodup_bytesb (map xf_name (xd_fields doc)) && sp_nodup_zb (map xf_number (xd_fields doc)) &&
  sp_nodup_bytesb (map xc_name (xd_components doc)) && sp_nodup_bytesb (map xc_msgtype (xd_messages doc)).

Definition sp_header_okb (doc : xdoc) : bool :=
  (dict_beq (xd_type doc) dict_FIX || dict_beq (xd_type doc) dict_FIXT) &&
  match dict_atoi (xd_major doc) with Some _ => true | None => false end &&
  match dict_atoi (xd_minor doc) with Some _ => true | None => false end.

(* ---- comparing a loaded dictionary with the walk ---- *)
Definition sp_zsubset (a b : list Z) : bool := forallb (fun x => sp_zmem x b) a.
Definition sp_zset_eqb (a b : list Z) : bool := sp_zsubset a b && sp_zsubset b a.

Fixpoint sp_tree_eqb (a b : sp_tree) : bool :=
  match a, b with
  | SPT g1 r1 k1, SPT g2 r2 k2 =>
      if g1 =? g2 then
        if Bool.eqb r1 r2 then
          (fix go (x : list sp_tree) (y : list sp_tree) : bool :=
             match x, y with
             | [], [] => true
             | p :: x', q :: y' => if sp_tree_eqb p q then go x' y' else false
             | _, _ => false
             end) k1 k2
        else false
      else false
  end.

(* result codes of the comparison: 0 = agrees *)
Definition C19_OK : Z := 0.
Definition C19_REACH : Z := 1.        (* Fields / Tags differ from the reachable fields *)
Definition C19_REQUIRED : Z := 2.     (* RequiredTags differ *)
Definition C19_GROUP : Z := 3.        (* a group's members / order / required flags differ *)
Definition C19_TYPES : Z := 4.        (* type or enumeration of a field differs from its declaration *)
Definition C19_MESSAGES : Z := 5.     (* a message (header, trailer) is missing or extra *)
Definition C19_UNDEFINED : Z := 6.    (* the walk itself is undefined: dangling or cyclic document *)

Definition c19_check_message (fuel : nat) (doc : xdoc) (xm : xcomponent) (md : dict_message_def) : Z :=
  match sp_expand_f fuel doc (xc_members xm), sp_required_f fuel doc (xc_members xm) with
  | Some ts, Some rq =>
      if negb (sp_zset_eqb (map fst (dmd_fields md)) (map sp_tag ts)) then C19_REACH
      else if negb (sp_zset_eqb (dmd_tags md) (flat_map sp_all_tags ts)) then C19_REACH
      else if negb (sp_zset_eqb (dmd_required_tags md) rq) then C19_REQUIRED
      else if negb (forallb (fun tf => if dfd_tag (snd tf) =? fst tf
                                       then existsb (sp_tree_eqb (dict_shape (snd tf))) ts else false) (dmd_fields md))
           then C19_GROUP
      else C19_OK
  | _, _ => C19_UNDEFINED
  end.

Definition c19_check_opt_message (fuel : nat) (doc : xdoc) (ox : option xcomponent) (om : option dict_message_def) : Z :=
  match ox, om with
  | None, None => C19_OK
  | Some xm, Some md => c19_check_message fuel doc xm md
  | _, _ => C19_MESSAGES
  end.

Fixpoint c19_first_failure (l : list Z) : Z :=
  match l with [] => C19_OK | x :: r => if x =? 0 then c19_first_failure r else x end.

Definition sp_bsubset (a b : list bytes) : bool := forallb (fun x => dict_bmem x b) a.
Definition sp_field_type_okb (f : xfield) (ft : dict_field_type) : bool :=
  if dft_tag ft =? xf_number f then
    if dict_beq (dft_name ft) (xf_name f) then
      if dict_beq (dft_type ft) (xf_type f) then
        if sp_bsubset (dft_enums ft) (xf_values f) then sp_bsubset (xf_values f) (dft_enums ft) else false
      else false
    else false
  else false.

Definition c19_check_types (doc : xdoc) (d : dict) : Z :=
  if forallb (fun f => match dict_zget (xf_number f) (dd_field_type_by_tag d) with
                       | Some ft => sp_field_type_okb f ft
                       | None => false
                       end) (xd_fields doc)
     && forallb (fun tf => existsb (fun f => if xf_number f =? fst tf then sp_field_type_okb f (snd tf) else false)
                                   (xd_fields doc)) (dd_field_type_by_tag d)
  then C19_OK else C19_TYPES.

Definition c19_check (doc : xdoc) (d : dict) : Z :=
  let fuel := dict_fuel doc in
  c19_first_failure
    (map (fun xm => match dict_bget (xc_msgtype xm) (dd_messages d) with
                    | Some md => c19_check_message fuel doc xm md
                    | None => C19_MESSAGES
                    end) (xd_messages doc)
     ++ [ if forallb (fun e => existsb (fun xm => dict_beq (xc_msgtype xm) (fst e)) (xd_messages doc)) (dd_messages d)
          then C19_OK else C19_MESSAGES;
          c19_check_opt_message fuel doc (xd_header doc) (dd_header d);
          c19_check_opt_message fuel doc (xd_trailer doc) (dd_trailer d);
          c19_check_types doc d ]).

(* the whole C19 statement about one loader outcome, as a code (0 = property holds on this document):
   10 valid document refused, 11 dangling reference accepted, 12 cyclic document accepted, 13 crash / hang *)
Definition c19_verdict (doc : xdoc) (r : res dict) : Z :=
  if negb (sp_uniqueb doc) then C19_OK else
  match r with
  | Ok d => if negb (sp_closedb doc) then 11 else if negb (sp_acyclicb doc) then 12 else c19_check doc d
  | Err _ => if sp_header_okb doc && sp_closedb doc && sp_acyclicb doc then 10 else C19_OK
  | _ => 13
  end.
