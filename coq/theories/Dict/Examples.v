(* Small documents showing that the hypotheses of the C19 theorems are satisfiable and their negations too. *)
From Coq Require Import ZArith List Bool String.
From QF Require Import Base.Res Base.Bytes Dict.Xml Dict.Build Dict.Spec Dict.SpecExec Dict.SpecProofs
  Dict.BuildLemmas Dict.BuildTotal Dict.BuildSound Dict.BuildComplete.
Import ListNotations.
Open Scope Z_scope.

(* message M = [optional C1; required F4], C1 = [required F1; required C2], C2 = [required F2; group F3 [required F4; optional C3]], C3 = [F1] *)
Definition dict_ex_fields : list xfield :=
  [XF 1 (B "F1") (B "STRING") []; XF 2 (B "F2") (B "INT") []; XF 3 (B "F3") (B "NUMINGROUP") [];
   XF 4 (B "F4") (B "CHAR") [B "A"; B "B"]]%string.
Definition dict_ex_doc : xdoc :=
  XD (B "FIX") (B "4") (B "2") 0
     (Some (XC [] [] [xF (B "F1") xY]))
     (Some (XC [] [] [xF (B "F2") xN]))
     [XC (B "M") (B "D") [xC (B "C1") xN; xF (B "F4") xY]]
     [XC (B "C1") [] [xF (B "F1") xY; xC (B "C2") xY];
      XC (B "C2") [] [xF (B "F2") xY; xG (B "F3") xN [xF (B "F4") xY; xC (B "C3") xN]];
      XC (B "C3") [] [xF (B "F1") xN]]
     dict_ex_fields.

Lemma dict_ex_hypotheses :
  uniquely_named dict_ex_doc /\ sp_header_ok dict_ex_doc /\ acyclic dict_ex_doc /\ closed dict_ex_doc.
Proof.
  split; [apply sp_uniqueb_sound; vm_compute; reflexivity|].
  split; [apply sp_header_okb_sound; vm_compute; reflexivity|].
  split; [apply sp_acyclicb_sound; vm_compute; reflexivity|].
  vm_compute. reflexivity.
Qed.

(* the loaded message: fields 1 2 3 4 at top level, tags 1 2 3 4 (4 also inside the group), only 4 required
   because C1 is optional; group 3 has members 4 then 1 *)
Lemma dict_ex_loaded :
  match dict_build dict_ex_doc with
  | Ok d => match dict_bget (B "D") (dd_messages d) with
            | Some md => map fst (dmd_fields md) = [4; 3; 2; 1] /\ dmd_required_tags md = [4] /\
                         option_map dict_shape (dict_zget 3 (dmd_fields md)) =
                           Some (SPT 3 false [SPT 4 true []; SPT 1 false []])
            | None => False
            end
  | _ => False
  end.
Proof. vm_compute. repeat split; reflexivity. Qed.

(* a dangling reference *)
Definition dict_ex_dangling : xdoc :=
  XD (B "FIX") (B "4") (B "2") 0 None None [XC (B "M") (B "D") [xF (B "Nowhere") xY]] [] dict_ex_fields.
Lemma dict_ex_dangling_hyp : uniquely_named dict_ex_dangling /\ ~ closed dict_ex_dangling.
Proof.
  split; [apply sp_uniqueb_sound; vm_compute; reflexivity|].
  unfold closed. vm_compute. discriminate.
Qed.

(* a component that contains itself inside a group *)
Definition dict_ex_cyclic : xdoc :=
  XD (B "FIX") (B "4") (B "2") 0 None None []
     [XC (B "C1") [] [xG (B "F3") xN [xF (B "F4") xY; xC (B "C1") xN]]] dict_ex_fields.
Lemma dict_ex_cyclic_hyp : uniquely_named dict_ex_cyclic /\ ~ acyclic dict_ex_cyclic.
Proof.
  split; [apply sp_uniqueb_sound; vm_compute; reflexivity|].
  intro H.
  assert (Hwf : sp_comp_wf dict_ex_cyclic (B "C1")).
  { apply (H (XC (B "C1") [] [xG (B "F3") xN [xF (B "F4") xY; xC (B "C1") xN]])). left. reflexivity. }
  apply (sp_wf_no_cycle _ _ Hwf (B "C1")); [apply rch_refl|].
  exists (XC (B "C1") [] [xG (B "F3") xN [xF (B "F4") xY; xC (B "C1") xN]]). split; [reflexivity|].
  eapply spc_group; [left; reflexivity|reflexivity|reflexivity|].
  cbn [xm_members xG]. apply (spc_here _ (xC (B "C1") xN)); [right; left; reflexivity|reflexivity].
Qed.
