(* The builder model never panics and never runs out of fuel, for ANY document: nested buildComponentType
   calls carry pairwise distinct component names (the `building` check), so their depth is at most the
   number of components. *)
From Coq Require Import ZArith List Bool Lia.
From QF Require Import Base.Res Base.Bytes Dict.Xml Dict.Build Dict.Spec Dict.SpecExec Dict.SpecProofs Dict.BuildLemmas.
Import ListNotations.
Open Scope Z_scope.

Lemma dict_hoare_total {S C} (I : S -> Prop) (Q : C -> Prop) (r : res (S * C)) :
  dict_hoare I Q True False r -> total_res r.
Proof. destruct r; cbn; intro H; try contradiction; split; discriminate. Qed.

Lemma total_res_hoare {S C} (r : res (S * C)) :
  total_res r -> dict_hoare (fun _ => True) (fun _ => True) True False r.
Proof. destruct r; cbn; intros [H1 H2]; auto; congruence. Qed.

Section Total.
  Variable doc : xdoc.
  Let bn := snd (dict_build_field_types doc).
  Let cmap := dict_component_by_name doc.
  Let names := map xc_name (xd_components doc).
  Let TT := fun _ : dict_state => True.

  Definition dict_tot_inv (fuel : nat) (building : list bytes) : Prop :=
    NoDup building /\ incl building names /\ (length names + 1 <= length building + fuel)%nat.

  Lemma dict_fob_total : forall bct,
    (forall st xc, In (xc_name xc) names ->
       dict_hoare TT (fun _ : dict_component_type => True) True False (bct st xc)) ->
    forall st m, dict_hoare TT (fun _ : dict_component_type => True) True False (dict_find_or_build_with cmap bct st m).
  Proof.
    intros bct Hb st m. unfold dict_find_or_build_with.
    destruct (dict_bget (xm_name m) st) as [c|]; [cbn; unfold TT; auto|].
    destruct (dict_bget (xm_name m) cmap) as [xc|] eqn:Ex; [|cbn; auto].
    apply dict_component_by_name_In in Ex. destruct Ex as [Hin Hn].
    eapply dict_hoare_bind; [apply Hb; unfold names; apply in_map; exact Hin|].
    intros sc _ _. cbn. unfold TT. auto.
  Qed.

  Lemma dict_level_total : forall fob,
    (forall st m, dict_hoare TT (fun _ : dict_component_type => True) True False (fob st m)) ->
    forall ms st, dict_hoare TT (fun _ : list dict_part => True) True False
                    (dict_st_map (dict_build_part bn fob) st ms).
  Proof.
    intros fob Hf ms st.
    eapply dict_hoare_weaken.
    - apply (dict_build_parts_hoare bn fob TT (fun _ => True) (fun _ _ => True) (fun _ _ => True) True False);
        try (intros; constructor); try (unfold TT; constructor).
      + intros st0 m _ _ _. apply Hf.
      + intros el n r ms0 _ _ _. apply Forall_forall. intros; constructor.
      + apply Forall_forall. intros; constructor.
    - intros; constructor.
  Qed.

  Lemma dict_field_def_total : forall fob,
    (forall st m, dict_hoare TT (fun _ : dict_component_type => True) True False (fob st m)) ->
    forall m st, xm_is_component m = false ->
      dict_hoare TT (fun _ : dict_field_def => True) True False (dict_build_field_def bn fob st m).
  Proof.
    intros fob Hf m st Hc.
    assert (H1 : forall st0 m0, TT st0 -> True -> xm_is_component m0 = true ->
                 dict_hoare TT (fun _ : dict_component_type => True) True False (fob st0 m0))
      by (intros; apply Hf).
    assert (H2 : forall (el n r : bytes) (ms : list xmember), True -> dict_beq el el_component = false ->
                 dict_beq el el_group = true -> Forall (fun _ : xmember => True) ms)
      by (intros; apply Forall_forall; intros; constructor).
    apply (dict_build_field_def_hoare bn fob TT (fun _ => True) (fun _ _ => True) (fun _ _ => True) True False
             H1 H2); try (intros; constructor); auto.
  Qed.

  Lemma dict_bct_total : forall fuel building st xc,
    dict_tot_inv fuel building -> In (xc_name xc) names ->
    dict_hoare TT (fun _ : dict_component_type => True) True False
      (dict_build_component_type bn cmap fuel building st xc).
  Proof.
    induction fuel as [|f IH]; intros building st xc [Hnd [Hincl Hlen]] Hin.
    - cbn. pose proof (NoDup_incl_length Hnd Hincl). lia.
    - cbn [dict_build_component_type].
      destruct (dict_bmem (xc_name xc) building) eqn:Em; [cbn; auto|].
      apply dict_bmem_false in Em.
      eapply dict_hoare_bind.
      + apply dict_level_total. apply dict_fob_total. intros st0 xc0 Hin0. apply IH; auto.
        split; [constructor; auto|]. split.
        * intros x [Hx|Hx]; subst; auto.
        * cbn [length]. lia.
      + intros sp _ _. cbn. unfold TT. auto.
  Qed.

  Lemma dict_tot_inv_top : dict_tot_inv (dict_fuel doc) [].
  Proof.
    split; [constructor|]. split; [intros x []|].
    unfold dict_fuel, names. rewrite map_length. cbn. lia.
  Qed.

  Lemma dict_build_components_total : forall cs st, incl cs (xd_components doc) ->
    total_res (dict_build_components bn cmap (dict_fuel doc) cs st).
  Proof.
    induction cs as [|c cs IH]; intros st Hi; cbn [dict_build_components].
    - apply total_ok.
    - assert (Hcs : incl cs (xd_components doc)) by (intros x Hx; apply Hi; right; exact Hx).
      destruct (dict_bget (xc_name c) st); [apply IH; auto|].
      apply total_bind.
      + eapply dict_hoare_total. apply dict_bct_total; [apply dict_tot_inv_top|].
        unfold names. apply in_map. apply Hi. left. reflexivity.
      + intros a _. apply IH; auto.
  Qed.

  Lemma dict_build_message_def_total : forall st xm,
    total_res (dict_build_message_def bn cmap (dict_fuel doc) st xm).
  Proof.
    intros st xm. unfold dict_build_message_def. apply total_bind; [|intros; apply total_ok].
    eapply dict_hoare_total.
    apply (dict_st_map_hoare _ TT (fun _ _ => True) True False); [|unfold TT; constructor].
    apply Forall_forall. intros m _ s _. unfold dict_build_message_part.
    destruct (xm_is_component m) eqn:Ec.
    - destruct (dict_bget (xm_name m) s); cbn; unfold TT; auto.
    - eapply dict_hoare_bind.
      + apply dict_field_def_total; auto. intros st0 m0. unfold dict_find_or_build_component_type.
        apply dict_fob_total. intros st1 xc Hin. apply dict_bct_total; auto. apply dict_tot_inv_top.
      + intros sf _ _. cbn. unfold TT. auto.
  Qed.

  Lemma dict_build_message_defs_total : forall ms st acc,
    total_res (dict_build_message_defs bn cmap (dict_fuel doc) ms st acc).
  Proof.
    induction ms as [|m ms IH]; intros st acc; cbn [dict_build_message_defs].
    - apply total_ok.
    - apply total_bind; [apply dict_build_message_def_total|]. intros; apply IH.
  Qed.

  Lemma dict_build_opt_message_def_total : forall st o,
    total_res (dict_build_opt_message_def bn cmap (dict_fuel doc) st o).
  Proof.
    intros st [xm|]; cbn [dict_build_opt_message_def]; [|apply total_ok].
    apply total_bind; [apply dict_build_message_def_total|]. intros; apply total_ok.
  Qed.
End Total.

Theorem dict_build_total : forall doc, total_res (dict_build doc).
Proof.
  intro doc. unfold dict_build.
  destruct (negb _); [apply total_err|].
  destruct (dict_atoi (xd_major doc)); [|apply total_err].
  destruct (dict_atoi (xd_minor doc)); [|apply total_err].
  cbv zeta.
  apply total_bind; [apply dict_build_components_total; apply incl_refl|]. intros st1 _.
  apply total_bind; [apply dict_build_message_defs_total|]. intros sm _.
  apply total_bind; [apply dict_build_opt_message_def_total|]. intros sh _.
  apply total_bind; [apply dict_build_opt_message_def_total|]. intros stl _.
  apply total_ok.
Qed.
