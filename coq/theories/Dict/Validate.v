(* Executable model of validation.go, rule by rule in pipeline order (DESIGN 4.2, C15).

   Input: the parsed message as the validator reads it -- which tags Header / Body / Trailer FieldMap.Has,
   Header.GetString(35), and Message.fields (tag, value) in wire order -- so that the model does not depend on
   a model of the parser.  Output: nil | (RejectReason, RefTagID), inside `res` because the Go code can panic
   (nil Header/Trailer MessageDef, a field type outside the switch of validateField: nil prototype).
   The readers of the value types other than int are parameters (instantiated with the Types area's models in
   ValidateInst.v). *)
From Coq Require Import ZArith List Bool.
From QF Require Import Base.Res Base.Bytes Codec.FixInt Dict.Xml Dict.Build.
Import ListNotations.
Open Scope Z_scope.

Record v_settings : Type := VS {
  vs_check_fields_out_of_order : bool;
  vs_reject_invalid_message : bool;
  vs_allow_unknown_message_fields : bool;
  vs_check_user_defined_fields : bool;
  vs_check_fields_have_values : bool }.

Definition v_tv : Type := (Z * bytes)%type.     (* TagValue: tag, value *)

Record v_msg : Type := VM {
  vm_header_tags : list Z;       (* tags t with msg.Header.Has(t) *)
  vm_body_tags : list Z;
  vm_trailer_tags : list Z;
  vm_msg_type : option bytes;    (* Header.GetString(35); None = not present *)
  vm_fields : list v_tv }.       (* msg.fields *)

(* MessageRejectError: RejectReason, RefTagID *)
Definition v_reject : Type := (Z * option Z)%type.

(* errors.go *)
Definition RR_INVALID_TAG_NUMBER : Z := 0.
Definition RR_REQUIRED_TAG_MISSING : Z := 1.
Definition RR_TAG_NOT_DEFINED_FOR_THIS_MESSAGE_TYPE : Z := 2.
Definition RR_TAG_SPECIFIED_WITHOUT_A_VALUE : Z := 4.
Definition RR_VALUE_IS_INCORRECT : Z := 5.
Definition RR_INCORRECT_DATA_FORMAT_FOR_VALUE : Z := 6.
Definition RR_INVALID_MSG_TYPE : Z := 11.
Definition RR_TAG_APPEARS_MORE_THAN_ONCE : Z := 13.
Definition RR_TAG_SPECIFIED_OUT_OF_REQUIRED_ORDER : Z := 14.
Definition RR_INCORRECT_NUM_IN_GROUP_COUNT : Z := 16.

Definition v_invalid_tag_number (t : Z) : v_reject := (RR_INVALID_TAG_NUMBER, Some t).
Definition v_required_tag_missing (t : Z) : v_reject := (RR_REQUIRED_TAG_MISSING, Some t).
Definition v_tag_not_defined_for_this_message_type (t : Z) : v_reject := (RR_TAG_NOT_DEFINED_FOR_THIS_MESSAGE_TYPE, Some t).
Definition v_tag_specified_without_a_value (t : Z) : v_reject := (RR_TAG_SPECIFIED_WITHOUT_A_VALUE, Some t).
Definition v_value_is_incorrect (t : Z) : v_reject := (RR_VALUE_IS_INCORRECT, Some t).
Definition v_incorrect_data_format_for_value (t : Z) : v_reject := (RR_INCORRECT_DATA_FORMAT_FOR_VALUE, Some t).
Definition v_invalid_message_type : v_reject := (RR_INVALID_MSG_TYPE, None).
Definition v_tag_appears_more_than_once (t : Z) : v_reject := (RR_TAG_APPEARS_MORE_THAN_ONCE, Some t).
Definition v_tag_specified_out_of_required_order (t : Z) : v_reject := (RR_TAG_SPECIFIED_OUT_OF_REQUIRED_ORDER, Some t).
Definition v_incorrect_num_in_group_count (t : Z) : v_reject := (RR_INCORRECT_NUM_IN_GROUP_COUNT, Some t).

(* tag.go *)
Definition v_header_tags : list Z :=
  [8; 9; 35; 49; 56; 115; 128; 90; 34; 50; 142; 57; 143; 116; 144; 129; 145; 43; 97; 52; 122; 212; 213; 347; 369;
   370; 1128; 1129; 627; 1156; 91; 628; 629; 630].
Definition v_trailer_tags : list Z := [93; 89; 10].
Fixpoint v_zmem (x : Z) (l : list Z) : bool :=
  match l with [] => false | y :: r => if y =? x then true else v_zmem x r end.
Definition v_is_header (t : Z) : bool := v_zmem t v_header_tags.
Definition v_is_trailer (t : Z) : bool := v_zmem t v_trailer_tags.

(* msg_type.go isAdminMessageType: "0" "A" "1" "2" "3" "4" "5" *)
Definition v_is_admin_message_type (m : bytes) : bool :=
  match m with
  | [c] => (c =? 48) || (c =? 65) || (c =? 49) || (c =? 50) || (c =? 51) || (c =? 52) || (c =? 53)
  | _ => false
  end.

Definition USER_DEFINED_TAG_MIN : Z := 5000.

(* a rule returns nil (None) or a reject; the pipeline stops at the first reject *)
Definition v_result : Type := res (option v_reject).
Definition v_then (r : v_result) (k : v_result) : v_result :=
  match r with
  | Ok None => k
  | other => other
  end.

(* the reader chosen by the type switch of validateField *)
Inductive v_kind : Type := VKString | VKBool | VKInt | VKTimestamp | VKFloat.

(* literal type names of the switch, as byte lists *)
Definition v_type_table : list (bytes * v_kind) :=
  [ ([77;85;76;84;73;80;76;69;83;84;82;73;78;71;86;65;76;85;69], VKString);   (* MULTIPLESTRINGVALUE *)
    ([77;85;76;84;73;80;76;69;86;65;76;85;69;83;84;82;73;78;71], VKString);   (* MULTIPLEVALUESTRING *)
    ([77;85;76;84;73;80;76;69;67;72;65;82;86;65;76;85;69], VKString);         (* MULTIPLECHARVALUE *)
    ([67;72;65;82], VKString);                                               (* CHAR *)
    ([67;85;82;82;69;78;67;89], VKString);                                   (* CURRENCY *)
    ([68;65;84;65], VKString);                                               (* DATA *)
    ([77;79;78;84;72;89;69;65;82], VKString);                                (* MONTHYEAR *)
    ([76;79;67;65;76;77;75;84;68;65;84;69], VKString);                       (* LOCALMKTDATE *)
    ([68;65;84;69], VKString);                                               (* DATE *)
    ([69;88;67;72;65;78;71;69], VKString);                                   (* EXCHANGE *)
    ([76;65;78;71;85;65;71;69], VKString);                                   (* LANGUAGE *)
    ([88;77;76;68;65;84;65], VKString);                                      (* XMLDATA *)
    ([67;79;85;78;84;82;89], VKString);                                      (* COUNTRY *)
    ([85;84;67;84;73;77;69;79;78;76;89], VKString);                          (* UTCTIMEONLY *)
    ([85;84;67;68;65;84;69;79;78;76;89], VKString);                          (* UTCDATEONLY *)
    ([85;84;67;68;65;84;69], VKString);                                      (* UTCDATE *)
    ([84;90;84;73;77;69;79;78;76;89], VKString);                             (* TZTIMEONLY *)
    ([84;90;84;73;77;69;83;84;65;77;80], VKString);                          (* TZTIMESTAMP *)
    ([83;84;82;73;78;71], VKString);                                         (* STRING *)
    ([66;79;79;76;69;65;78], VKBool);                                        (* BOOLEAN *)
    ([76;69;78;71;84;72], VKInt);                                            (* LENGTH *)
    ([68;65;89;79;70;77;79;78;84;72], VKInt);                                (* DAYOFMONTH *)
    ([78;85;77;73;78;71;82;79;85;80], VKInt);                                (* NUMINGROUP *)
    ([83;69;81;78;85;77], VKInt);                                            (* SEQNUM *)
    ([73;78;84], VKInt);                                                     (* INT *)
    ([85;84;67;84;73;77;69;83;84;65;77;80], VKTimestamp);                    (* UTCTIMESTAMP *)
    ([84;73;77;69], VKTimestamp);                                            (* TIME *)
    ([81;84;89], VKFloat);                                                   (* QTY *)
    ([81;85;65;78;84;73;84;89], VKFloat);                                    (* QUANTITY *)
    ([65;77;84], VKFloat);                                                   (* AMT *)
    ([80;82;73;67;69], VKFloat);                                             (* PRICE *)
    ([80;82;73;67;69;79;70;70;83;69;84], VKFloat);                           (* PRICEOFFSET *)
    ([80;69;82;67;69;78;84;65;71;69], VKFloat);                              (* PERCENTAGE *)
    ([70;76;79;65;84], VKFloat) ].                                           (* FLOAT *)

Section Validate.
  (* FIXBoolean / FIXUTCTimestamp / FIXFloat .Read returns nil *)
  Variable rd_bool : bytes -> bool.
  Variable rd_timestamp : bytes -> bool.
  Variable rd_float : bytes -> bool.

  Definition v_read_ok (k : v_kind) (value : bytes) : bool :=
    match k with
    | VKString => true                       (* FIXString.Read never fails *)
    | VKBool => rd_bool value
    | VKInt => is_ok (fix_int_read value)
    | VKTimestamp => rd_timestamp value
    | VKFloat => rd_float value
    end.

  (* validateMsgType *)
  Definition v_validate_msg_type (d : dict) (msg_type : bytes) : v_result :=
    match dict_bget msg_type (dd_messages d) with
    | None => Ok (Some v_invalid_message_type)
    | Some _ => Ok None
    end.

  (* validateRequiredFieldMap.  Go ranges over a map: with several required tags missing the one reported is
     unspecified; the model reports the first in the stored order (the correspondence stream only has messages
     with at most one missing). *)
  Fixpoint v_validate_required_field_map (required_tags : list Z) (has : list Z) : v_result :=
    match required_tags with
    | [] => Ok None
    | t :: r => if v_zmem t has then v_validate_required_field_map r has else Ok (Some (v_required_tag_missing t))
    end.

  (* validateRequired; a nil Header / Trailer *MessageDef is dereferenced: panic *)
  Definition v_validate_required (transport_dd app_dd : dict) (msg_type : bytes) (m : v_msg) : v_result :=
    match dd_header transport_dd with
    | None => Panic
    | Some h =>
        v_then (v_validate_required_field_map (dmd_required_tags h) (vm_header_tags m))
        (match dict_bget msg_type (dd_messages app_dd) with
         | None => Panic
         | Some md =>
             v_then (v_validate_required_field_map (dmd_required_tags md) (vm_body_tags m))
             (match dd_trailer transport_dd with
              | None => Panic
              | Some t => v_validate_required_field_map (dmd_required_tags t) (vm_trailer_tags m)
              end)
         end)
    end.

  (* validateFieldContent *)
  Fixpoint v_field_content_loop (fields : list v_tv) (check_values check_order in_header in_trailer : bool) : v_result :=
    match fields with
    | [] => Ok None
    | (t, value) :: rest =>
        if check_values && match value with [] => true | _ => false end
        then Ok (Some (v_tag_specified_without_a_value t))
        else if in_header && v_is_header t then v_field_content_loop rest check_values check_order in_header in_trailer
        else if in_header && negb (v_is_header t) then v_field_content_loop rest check_values check_order false in_trailer
        else if negb in_header && v_is_header t && check_order then Ok (Some (v_tag_specified_out_of_required_order t))
        else if v_is_trailer t then v_field_content_loop rest check_values check_order in_header true
        else if in_trailer && negb (v_is_trailer t) && check_order then Ok (Some (v_tag_specified_out_of_required_order t))
        else v_field_content_loop rest check_values check_order in_header in_trailer
    end.
  Definition v_validate_field_content (m : v_msg) (check_values check_order : bool) : v_result :=
    if negb check_values && negb check_order then Ok None
    else v_field_content_loop (vm_fields m) check_values check_order true false.

  (* checkFieldNotDefined *)
  Definition v_check_field_not_defined (s : v_settings) (t : Z) : bool :=
    let fail := if t <? USER_DEFINED_TAG_MIN then negb (vs_allow_unknown_message_fields s)
                else vs_check_user_defined_fields s in
    negb fail.

  (* validateField *)
  Definition v_validate_field (d : dict) (s : v_settings) (f : v_tv) : v_result :=
    let (t, value) := f in
    match value with
    | [] => Ok (Some (v_tag_specified_without_a_value t))
    | _ =>
        match dict_zget t (dd_field_type_by_tag d) with
        | None => if negb (v_check_field_not_defined s t) then Ok (Some (v_invalid_tag_number t)) else Ok None
        | Some ft =>
            if match dft_enums ft with [] => false | _ => negb (dict_bmem value (dft_enums ft)) end
            then Ok (Some (v_value_is_incorrect t))
            else match dict_bget (dft_type ft) v_type_table with
                 | None => Panic       (* prototype stays nil: prototype.Read panics *)
                 | Some k => if v_read_ok k value then Ok None
                             else Ok (Some (v_incorrect_data_format_for_value t))
                 end
        end
    end.

  (* validateFields *)
  Fixpoint v_validate_fields_loop (transport_dd app_dd : dict) (s : v_settings) (fields : list v_tv) : v_result :=
    match fields with
    | [] => Ok None
    | f :: rest =>
        v_then (if v_is_header (fst f) then v_validate_field transport_dd s f
                else if v_is_trailer (fst f) then v_validate_field transport_dd s f
                else v_validate_field app_dd s f)
               (v_validate_fields_loop transport_dd app_dd s rest)
    end.

  (* validateVisitField / validateVisitGroupField: Ok (inl reject) | Ok (inr remaining fields) *)
  Definition v_visit : Type := res (v_reject + list v_tv).

  Fixpoint v_group_loop (fuel : nat) (fd : dict_field_def) (stack : list v_tv)
      (child_defs : list dict_field_def) (count : Z) : res (v_reject + (list v_tv * Z)) :=
    match fuel with
    | O => OutOfFuel
    | S f =>
        match stack with
        | [] => Ok (inr (stack, count))
        | (t, _) :: _ =>
            match dfd_fields fd with
            | [] => Panic                                     (* fieldDef.Fields[0] *)
            | first :: _ =>
                (* start of repeating group: the previous entry ends here, none of its remaining members may be required *)
                match (if t =? dfd_tag first then find dfd_required child_defs else None) with
                | Some missing => Ok (inl (v_required_tag_missing (dfd_tag missing)))
                | None =>
                let cds := if t =? dfd_tag first then dfd_fields fd else child_defs in
                let cnt := if t =? dfd_tag first then count + 1 else count in
                match cds with
                | [] => Ok (inr (stack, cnt))                 (* group complete *)
                | cd :: cds' =>
                    if t =? dfd_tag cd then
                      let* r := (if dfd_is_group cd then v_visit_group_field f cd stack
                                 else Ok (inr (tl stack))) in
                      match r with
                      | inl e => Ok (inl e)
                      | inr stack' => v_group_loop f fd stack' cds' cnt
                      end
                    else if dfd_required cd then Ok (inl (v_required_tag_missing (dfd_tag cd)))
                    else v_group_loop f fd stack cds' cnt
                end
                end
            end
        end
    end
  with v_visit_group_field (fuel : nat) (fd : dict_field_def) (stack : list v_tv) : v_visit :=
    match fuel with
    | O => OutOfFuel
    | S f =>
        match stack with
        | [] => Panic                                         (* fieldStack[0] *)
        | (num_tag, value) :: rest =>
            match fix_int_read value with
            | Ok num_in_group =>
                let* r := v_group_loop f fd rest [] 0 in
                match r with
                | inl e => Ok (inl e)
                | inr (stack', count) =>
                    if count =? num_in_group then Ok (inr stack')
                    else Ok (inl (v_incorrect_num_in_group_count num_tag))
                end
            | Err _ => Ok (inl (v_incorrect_data_format_for_value num_tag))
            | Panic => Panic
            | OutOfFuel => OutOfFuel
            end
        end
    end.

  Definition v_visit_field (fuel : nat) (fd : dict_field_def) (fields : list v_tv) : v_visit :=
    if dfd_is_group fd then v_visit_group_field fuel fd fields
    else match fields with
         | [] => Panic                                        (* fields[1:] *)
         | _ :: rest => Ok (inr rest)
         end.

  (* validateWalk *)
  Fixpoint v_walk_loop (fuel : nat) (transport_dd app_dd : dict) (s : v_settings) (msg_type : bytes)
      (remaining : list v_tv) (iterated : list Z) : v_result :=
    match fuel with
    | O => OutOfFuel
    | S f =>
        match remaining with
        | [] => Ok None
        | (t, _) :: rest =>
            let message_def :=
              if v_is_header t then dd_header transport_dd
              else if v_is_trailer t then dd_trailer transport_dd
              else dict_bget msg_type (dd_messages app_dd) in
            if v_zmem t iterated then Ok (Some (v_tag_appears_more_than_once t)) else
            match message_def with
            | None => Panic                                   (* messageDef.Fields on a nil *MessageDef *)
            | Some md =>
                match dict_zget t (dmd_fields md) with
                | None =>
                    if negb (v_check_field_not_defined s t)
                    then Ok (Some (v_tag_not_defined_for_this_message_type t))
                    else v_walk_loop f transport_dd app_dd s msg_type rest (t :: iterated)
                | Some fd =>
                    let* r := v_visit_field f fd remaining in
                    match r with
                    | inl e => Ok (Some e)
                    | inr remaining' => v_walk_loop f transport_dd app_dd s msg_type remaining' (t :: iterated)
                    end
                end
            end
        end
    end.

  (* fuel for the walk: every loop iteration consumes a field or passes over one member definition *)
  Fixpoint v_def_size (fd : dict_field_def) : nat :=
    match fd with DFD _ _ fs => S (fold_right (fun c n => (v_def_size c + n)%nat) O fs) end.
  Definition v_msg_def_size (o : option dict_message_def) : nat :=
    match o with
    | Some md => fold_right (fun tf n => (v_def_size (snd tf) + n)%nat) O (dmd_fields md)
    | None => O
    end.
  Definition v_walk_fuel (transport_dd app_dd : dict) (msg_type : bytes) (m : v_msg) : nat :=
    ((length (vm_fields m) + 2) *
     (v_msg_def_size (dd_header transport_dd) + v_msg_def_size (dd_trailer transport_dd) +
      v_msg_def_size (dict_bget msg_type (dd_messages app_dd)) + 2))%nat.

  Definition v_validate_walk (transport_dd app_dd : dict) (s : v_settings) (msg_type : bytes) (m : v_msg) : v_result :=
    v_walk_loop (v_walk_fuel transport_dd app_dd msg_type m) transport_dd app_dd s msg_type (vm_fields m) [].

  (* validateFIX *)
  Definition v_validate_fix (d : option dict) (s : v_settings) (msg_type : bytes) (m : v_msg) : v_result :=
    v_then (match d with
            | Some dd => v_then (v_validate_msg_type dd msg_type) (v_validate_required dd dd msg_type m)
            | None => Ok None
            end)
    (v_then (v_validate_field_content m (vs_check_fields_have_values s) (vs_check_fields_out_of_order s))
     (match d with
      | Some dd =>
          if vs_reject_invalid_message s then
            v_then (v_validate_fields_loop dd dd s (vm_fields m)) (v_validate_walk dd dd s msg_type m)
          else Ok None
      | None => Ok None
      end)).

  (* validateFIXT *)
  Definition v_validate_fixt (transport_dd app_dd : option dict) (s : v_settings) (msg_type : bytes) (m : v_msg) : v_result :=
    v_then (match app_dd, transport_dd with
            | Some a, Some t => v_then (v_validate_msg_type a msg_type) (v_validate_required t a msg_type m)
            | _, _ => Ok None
            end)
    (v_then (v_validate_field_content m (vs_check_fields_have_values s) (vs_check_fields_out_of_order s))
     (match app_dd, transport_dd with
      | Some a, Some t =>
          if vs_reject_invalid_message s then
            v_then (v_validate_fields_loop t a s (vm_fields m)) (v_validate_walk t a s msg_type m)
          else Ok None
      | _, _ => Ok None
      end)).

  (* NewValidator(settings, appDD, transportDD).Validate(msg) *)
  Definition v_validate (s : v_settings) (app_dd transport_dd : option dict) (m : v_msg) : v_result :=
    match vm_msg_type m with
    | None => Ok (Some (v_required_tag_missing 35))
    | Some msg_type =>
        match transport_dd with
        | None => v_validate_fix app_dd s msg_type m                       (* fixValidator *)
        | Some _ =>                                                        (* fixtValidator *)
            if v_is_admin_message_type msg_type then v_validate_fix transport_dd s msg_type m
            else v_validate_fixt transport_dd app_dd s msg_type m
        end
    end.
End Validate.
