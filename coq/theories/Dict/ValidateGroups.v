(* C15: the delimiter-driven walk of validateVisitGroupField accepts every group instance that the count-driven
   specification ([c15_member] of ValidateSpec.v) accepts, for dictionaries whose groups list each member once. *)
From Coq Require Import ZArith List Bool Lia.
From QF Require Import Base.Res Base.Bytes Codec.FixInt Dict.Xml Dict.Build Dict.Validate Dict.ValidateSpec Dict.SpecProofs Dict.BuildSound.
Import ListNotations.
Open Scope Z_scope.

(* the two loops inside c15_member, named *)
Definition c15_members_of (rec : dict_field_def -> list v_tv -> option (list v_tv))
  : list dict_field_def -> list v_tv -> option (list v_tv) :=
  fix members (ms : list dict_field_def) (st1 : list v_tv) {struct ms} : option (list v_tv) :=
    match ms with
    | [] => Some st1
    | m :: ms' =>
        match st1 with
        | (t1, _) :: _ =>
            if t1 =? dfd_tag m then
              match rec m st1 with
              | Some st2 => members ms' st2
              | None => None
              end
            else if dfd_required m then None else members ms' st1
        | [] => if dfd_required m then None else members ms' st1
        end
    end.

Definition c15_entries_of (members : list v_tv -> option (list v_tv)) (ftag : Z)
  : nat -> list v_tv -> option (list v_tv) :=
  fix entries (k : nat) (st : list v_tv) {struct k} : option (list v_tv) :=
    match k with
    | O => match st with
           | (t, _) :: _ => if t =? ftag then None else Some st
           | [] => Some st
           end
    | S k' =>
        match st with
        | (t, _) :: _ =>
            if t =? ftag then
              match members st with
              | Some st' => entries k' st'
              | None => None
              end
            else None
        | [] => None
        end
    end.

Lemma c15_member_group_unfold : forall ft r first fs tv rest,
  c15_member (DFD ft r (first :: fs)) (tv :: rest) =
  match fix_int_read (snd tv) with
  | Ok n => if n <? 0 then None
            else c15_entries_of (c15_members_of c15_member (first :: fs)) (dfd_tag first) (Z.to_nat n) rest
  | _ => None
  end.
Proof. intros ft r first fs [t v] rest. reflexivity. Qed.

Lemma c15_member_plain_unfold : forall ft r stack, c15_member (DFD ft r []) stack = Some (tl stack).
Proof. reflexivity. Qed.

Lemma c15_member_group_nil : forall ft r first fs, c15_member (DFD ft r (first :: fs)) [] = None.
Proof. reflexivity. Qed.
