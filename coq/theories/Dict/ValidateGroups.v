(* C15: the delimiter-driven walk of validateVisitGroupField accepts every group instance that the count-driven
   specification ([c15_member] of ValidateSpec.v) accepts, for dictionaries whose groups list each member once. *)
From Coq Require Import ZArith List Bool Lia.
From QF Require Import Base.Res Base.Bytes Codec.FixInt Dict.Xml Dict.Build Dict.Spec Dict.SpecExec Dict.Validate Dict.ValidateSpec Dict.SpecProofs Dict.BuildSound.
Import ListNotations.
Open Scope Z_scope.

(* the two loops inside c15_member, named *)
Definition c15_members_of (rec : dict_field_def -> list v_tv -> option (list v_tv))
  : list dict_field_def -> list v_tv -> option (list v_tv) :=
  fix members (ms : list dict_field_def) (st1 : list v_tv) {struct ms} : option (list v_tv) :=
    match ms with
    | [] => Some st1
    | m :: ms' =>
        match st1 with
        | (t1, _) :: _ =>
            if t1 =? dfd_tag m then
              match rec m st1 with
              | Some st2 => members ms' st2
              | None => None
              end
            else if dfd_required m then None else members ms' st1
        | [] => if dfd_required m then None else members ms' st1
        end
    end.

Definition c15_entries_of (members : list v_tv -> option (list v_tv)) (ftag : Z)
  : nat -> list v_tv -> option (list v_tv) :=
  fix entries (k : nat) (st : list v_tv) {struct k} : option (list v_tv) :=
    match k with
    | O => match st with
           | (t, _) :: _ => if t =? ftag then None else Some st
           | [] => Some st
           end
    | S k' =>
        match st with
        | (t, _) :: _ =>
            if t =? ftag then
              match members st with
              | Some st' => entries k' st'
              | None => None
              end
            else None
        | [] => None
        end
    end.

Lemma c15_member_group_unfold : forall ft r first fs tv rest,
  c15_member (DFD ft r (first :: fs)) (tv :: rest) =
  match fix_int_read (snd tv) with
  | Ok n => if n <? 0 then None
            else c15_entries_of (c15_members_of c15_member (first :: fs)) (dfd_tag first) (Z.to_nat n) rest
  | _ => None
  end.
Proof. intros ft r first fs [t v] rest. reflexivity. Qed.

Lemma c15_member_plain_unfold : forall ft r stack, c15_member (DFD ft r []) stack = Some (tl stack).
Proof. reflexivity. Qed.

Lemma c15_member_group_nil : forall ft r first fs, c15_member (DFD ft r (first :: fs)) [] = None.
Proof. reflexivity. Qed.

(* ---- well-formed definitions: the members of a group have pairwise different tags (recursively) ---- *)
Fixpoint dfd_wfb (fd : dict_field_def) : bool :=
  match fd with DFD _ _ fs => sp_nodup_zb (map dfd_tag fs) && forallb dfd_wfb fs end.
Fixpoint dfd_width_okb (w : nat) (fd : dict_field_def) : bool :=
  match fd with DFD _ _ fs => (length fs <=? w)%nat && forallb (dfd_width_okb w) fs end.

Lemma dfd_wfb_inv : forall ft r fs, dfd_wfb (DFD ft r fs) = true ->
  NoDup (map dfd_tag fs) /\ forall m, In m fs -> dfd_wfb m = true.
Proof.
  intros ft r fs H. cbn in H. apply andb_true_iff in H. destruct H as [H1 H2].
  split; [apply sp_nodup_zb_sound; exact H1|]. rewrite forallb_forall in H2. exact H2.
Qed.
Lemma dfd_width_okb_inv : forall w ft r fs, dfd_width_okb w (DFD ft r fs) = true ->
  (length fs <= w)%nat /\ forall m, In m fs -> dfd_width_okb w m = true.
Proof.
  intros w ft r fs H. cbn in H. apply andb_true_iff in H. destruct H as [H1 H2].
  split; [apply Nat.leb_le; exact H1|]. rewrite forallb_forall in H2. exact H2.
Qed.

(* destruct the scrutinee of the match at the head of hypothesis H (taken from H itself: v_tv and Z * bytes are
   convertible but not syntactically equal) *)
Ltac dmatch H x E :=
  match type of H with
  | match ?X with _ => _ end = _ => destruct X as [x|] eqn:E
  end.

(* ---- the specification loops never lengthen the stack ---- *)
Lemma c15_members_length : forall rec ms,
  (forall m st r, In m ms -> rec m st = Some r -> (length r <= length st)%nat) ->
  forall st r, c15_members_of rec ms st = Some r -> (length r <= length st)%nat.
Proof.
  intros rec. induction ms as [|m ms IH]; intros Hrec st r H; cbn in H.
  - injection H as <-. lia.
  - assert (Hrec' : forall m0 st0 r0, In m0 ms -> rec m0 st0 = Some r0 -> (length r0 <= length st0)%nat)
      by (intros; eapply Hrec; [right; eassumption|eassumption]).
    destruct st as [|[t1 v1] st'].
    + destruct (dfd_required m); [discriminate|]. eapply IH; eauto.
    + destruct (t1 =? dfd_tag m).
      * dmatch H st2 E; [|discriminate].
        pose proof (Hrec m _ _ (or_introl eq_refl) E). pose proof (IH Hrec' _ _ H). lia.
      * cbv iota in H. destruct (dfd_required m); [discriminate|]. eapply IH; eauto.
Qed.

Lemma c15_entries_length : forall mem ftag,
  (forall st r, mem st = Some r -> (length r <= length st)%nat) ->
  forall k st r, c15_entries_of mem ftag k st = Some r -> (length r <= length st)%nat.
Proof.
  intros mem ftag Hm. induction k as [|k IH]; intros st r H; cbn in H.
  - destruct st as [|[t v] st']; [injection H as <-; lia|].
    destruct (t =? ftag); [discriminate|]. injection H as <-. lia.
  - destruct st as [|[t v] st']; [discriminate|].
    destruct (t =? ftag); [|discriminate].
    dmatch H st2 E; [|discriminate].
    pose proof (Hm _ _ E). pose proof (IH _ _ H). lia.
Qed.

Lemma c15_member_length : forall fd st r, c15_member fd st = Some r ->
  (length r <= length st)%nat /\ (st <> [] -> (length r < length st)%nat).
Proof.
  intro fd. induction fd as [ft rq fs IH] using dict_field_def_ind'. intros st r H.
  destruct fs as [|first fs'].
  - rewrite c15_member_plain_unfold in H. injection H as <-. destruct st; cbn; split; try lia; congruence.
  - destruct st as [|tv rest]; [rewrite c15_member_group_nil in H; discriminate|].
    rewrite c15_member_group_unfold in H.
    destruct (fix_int_read (snd tv)) as [n| | |]; try discriminate.
    destruct (n <? 0); [discriminate|].
    assert (L : (length r <= length rest)%nat).
    { eapply c15_entries_length; [|exact H]. intros st0 r0 H0.
      eapply c15_members_length; [|exact H0]. intros m st1 r1 Hin H1.
      rewrite Forall_forall in IH. apply (IH m Hin st1 r1 H1). }
    cbn [length]. split; intros; lia.
Qed.

(* ---- simulation ---- *)
Lemma c15_members_skip_all : forall rec cds t v st r,
  (forall m, In m cds -> dfd_tag m <> t) ->
  c15_members_of rec cds ((t, v) :: st) = Some r ->
  r = (t, v) :: st /\ find dfd_required cds = None.
Proof.
  intros rec. induction cds as [|m cds IH]; intros t v st r Hne H; cbn in H.
  - injection H as <-. auto.
  - assert (E : t =? dfd_tag m = false).
    { apply Z.eqb_neq. intro Hc. apply (Hne m (or_introl eq_refl)). auto. }
    rewrite E in H. cbn [find]. destruct (dfd_required m); [discriminate|].
    apply IH; auto. intros m0 Hm0. apply Hne. right. exact Hm0.
Qed.

Lemma res_bind_ok {A C} (x : res A) (k : A -> res C) (a : A) (r : res C) :
  x = Ok a -> k a = r -> bind x k = r.
Proof. intros -> <-. reflexivity. Qed.

Lemma v_fuel_mono : forall a b c : nat, (a < S b -> a * c + c <= S b * c)%nat.
Proof.
  intros a b c H. replace (a * c + c)%nat with (S a * c)%nat by (cbn; lia). apply Nat.mul_le_mono_r. lia.
Qed.

Section Sim.
  Variable w : nat.      (* bound on the number of members of any group *)

  (* what the specification still has to do from a state of the Go loop: finish the members of the current entry,
     then k more entries *)
  Definition c15_spec_cont (g : dict_field_def) (first : dict_field_def) (cds : list dict_field_def)
      (st : list v_tv) (k : nat) : option (list v_tv) :=
    match c15_members_of c15_member cds st with
    | Some st2 => c15_entries_of (c15_members_of c15_member (dfd_fields g)) (dfd_tag first) k st2
    | None => None
    end.

  Ltac fuel_tac :=
    unfold v_tv, bytes in *; cbn [length] in *;
    try match goal with
        | H : (length ?a < S (length ?b))%nat |- _ => pose proof (v_fuel_mono _ _ (w + 2)%nat H)
        end;
    lia.

  Lemma v_group_loop_sim : forall g ft rq first fs,
    g = DFD ft rq (first :: fs) ->
    NoDup (map dfd_tag (first :: fs)) -> (length (first :: fs) <= w)%nat ->
    (forall m, In m (first :: fs) -> dfd_is_group m = true ->
       forall fuel st rest, c15_member m st = Some rest -> (length st * (w + 2) < fuel)%nat ->
       v_visit_group_field fuel m st = Ok (inr rest)) ->
    forall fuel st cds cnt k rest,
      incl cds (first :: fs) -> ~ In (dfd_tag first) (map dfd_tag cds) ->
      c15_spec_cont g first cds st k = Some rest ->
      (length st * (w + 2) + length cds + 1 < fuel)%nat ->
      v_group_loop fuel g st cds cnt = Ok (inr (rest, cnt + Z.of_nat k)).
  Proof.
    intros g ft rq first fs Hg Hnd Hw Hnest.
    induction fuel as [|f IH]; intros st cds cnt k rest Hincl Hnf Hs Hfuel; [lia|].
    cbn [v_group_loop]. destruct st as [|[t v] st'].
    - (* stack exhausted *)
      unfold c15_spec_cont in Hs.
      dmatch Hs st2 Em; [|discriminate].
      pose proof (c15_members_length c15_member cds
                    (fun m st r _ H => proj1 (c15_member_length m st r H)) _ _ Em) as L.
      destruct st2; [|cbn in L; lia].
      destruct k; cbn in Hs; [|discriminate]. injection Hs as <-.
      rewrite Z.add_0_r. reflexivity.
    - subst g. cbn [dfd_fields].
      destruct (t =? dfd_tag first) eqn:Et.
      + (* the delimiter: a new entry begins *)
        apply Z.eqb_eq in Et. subst t.
        unfold c15_spec_cont in Hs. cbn [dfd_fields] in Hs.
        dmatch Hs st2 Em; [|discriminate].
        destruct (c15_members_skip_all c15_member cds (dfd_tag first) v st' st2) as [-> Hfind]; auto.
        { intros m Hm Hc. apply Hnf. rewrite <- Hc. apply in_map. exact Hm. }
        rewrite Hfind.
        destruct k as [|k]; cbn [c15_entries_of] in Hs; rewrite Z.eqb_refl in Hs; [discriminate|].
        change (c15_members_of c15_member (first :: fs) ((dfd_tag first, v) :: st')) with
          (if dfd_tag first =? dfd_tag first
           then match c15_member first ((dfd_tag first, v) :: st') with
                | Some st2 => c15_members_of c15_member fs st2
                | None => None
                end
           else if dfd_required first then None
                else c15_members_of c15_member fs ((dfd_tag first, v) :: st')) in Hs.
        rewrite Z.eqb_refl in Hs. rewrite Z.eqb_refl.
        match type of Hs with context [c15_member first ?S] =>
          destruct (c15_member first S) as [st1|] eqn:E1 end; [|discriminate].
        assert (L1 : (length st1 < length ((dfd_tag first, v) :: st'))%nat)
          by (apply (c15_member_length first _ _ E1); discriminate).
        apply (res_bind_ok _ _ (inr st1)).
        { destruct (dfd_is_group first) eqn:Eg.
          - apply Hnest; auto; [left; reflexivity|]. fuel_tac.
          - destruct first as [ft1 r1 fs1]. unfold dfd_is_group in Eg. cbn in Eg. destruct fs1; [|discriminate].
            rewrite c15_member_plain_unfold in E1. injection E1 as <-. reflexivity. }
        cbv beta iota.
        replace (cnt + Z.of_nat (S k)) with ((cnt + 1) + Z.of_nat k) by lia.
        apply IH.
        * intros x Hx. right. exact Hx.
        * inversion Hnd; assumption.
        * unfold c15_spec_cont. cbn [dfd_fields]. exact Hs.
        * fuel_tac.
      + (* not the delimiter *)
        apply Z.eqb_neq in Et.
        destruct cds as [|cd cds'].
        * (* group complete *)
          unfold c15_spec_cont in Hs. cbn [c15_members_of] in Hs.
          destruct k; cbn [c15_entries_of] in Hs.
          -- destruct (t =? dfd_tag first) eqn:E; [apply Z.eqb_eq in E; contradiction|].
             injection Hs as <-. rewrite Z.add_0_r. reflexivity.
          -- destruct (t =? dfd_tag first) eqn:E; [apply Z.eqb_eq in E; contradiction|discriminate].
        * unfold c15_spec_cont in Hs. cbn [c15_members_of] in Hs.
          assert (Hincl' : incl cds' (first :: fs)) by (intros x Hx; apply Hincl; right; exact Hx).
          assert (Hnf' : ~ In (dfd_tag first) (map dfd_tag cds')) by (intro Hc; apply Hnf; right; exact Hc).
          destruct (t =? dfd_tag cd) eqn:Ec.
          -- try rewrite Ec in Hs.
             match type of Hs with context [c15_member cd ?S] =>
               destruct (c15_member cd S) as [st1|] eqn:E1 end; [|discriminate].
             assert (L1 : (length st1 < length ((t, v) :: st'))%nat)
               by (apply (c15_member_length cd _ _ E1); discriminate).
             apply (res_bind_ok _ _ (inr st1)).
             { destruct (dfd_is_group cd) eqn:Eg.
               - apply Hnest; auto; [apply Hincl; left; reflexivity|]. fuel_tac.
               - destruct cd as [ft1 r1 fs1]. unfold dfd_is_group in Eg. cbn in Eg. destruct fs1; [|discriminate].
                 rewrite c15_member_plain_unfold in E1. injection E1 as <-. reflexivity. }
             cbv beta iota. apply IH; auto; try (unfold c15_spec_cont; exact Hs); fuel_tac.
          -- try rewrite Ec in Hs. destruct (dfd_required cd) eqn:Er; try rewrite Er in Hs; [discriminate|].
             apply IH; auto; try (unfold c15_spec_cont; exact Hs); fuel_tac.
  Qed.

  (* validateVisitGroupField accepts what the specification accepts *)
  Lemma v_visit_group_field_sim : forall g, dfd_wfb g = true -> dfd_width_okb w g = true ->
    dfd_is_group g = true ->
    forall fuel st rest, c15_member g st = Some rest -> (length st * (w + 2) < fuel)%nat ->
    v_visit_group_field fuel g st = Ok (inr rest).
  Proof.
    intro g. induction g as [ft rq fs IHn] using dict_field_def_ind'. intros Hwf Hwd Hg fuel st rest Hs Hfuel.
    destruct fs as [|first fs']; [discriminate|].
    destruct (dfd_wfb_inv _ _ _ Hwf) as [Hnd Hwf'].
    destruct (dfd_width_okb_inv _ _ _ _ Hwd) as [Hlen Hwd'].
    destruct st as [|[num_tag value] rest0]; [rewrite c15_member_group_nil in Hs; discriminate|].
    rewrite c15_member_group_unfold in Hs. cbn [snd] in Hs.
    destruct fuel as [|f]; [lia|]. cbn [v_visit_group_field].
    destruct (fix_int_read value) as [n| | |]; try discriminate.
    destruct (n <? 0) eqn:En; [discriminate|]. apply Z.ltb_ge in En.
    assert (Hloop : v_group_loop f (DFD ft rq (first :: fs')) rest0 [] 0 = Ok (inr (rest, 0 + Z.of_nat (Z.to_nat n)))).
    { eapply (v_group_loop_sim (DFD ft rq (first :: fs')) ft rq first fs' eq_refl Hnd Hlen).
      - intros m Hm Hmg fuel0 st0 rest1 H0 Hf0. rewrite Forall_forall in IHn. apply IHn; auto.
      - intros x [].
      - intros [].
      - unfold c15_spec_cont. cbn [c15_members_of dfd_fields]. exact Hs.
      - fuel_tac. }
    rewrite Hloop. cbn [bind]. rewrite Z2Nat.id by lia. rewrite Z.add_0_l. rewrite Z.eqb_refl. reflexivity.
  Qed.
End Sim.

(* ---- the width bound comes from the size of the definitions ---- *)
Lemma dfd_width_okb_mono : forall fd w w', (w <= w')%nat -> dfd_width_okb w fd = true -> dfd_width_okb w' fd = true.
Proof.
  intro fd. induction fd as [ft r fs IH] using dict_field_def_ind'. intros w w' Hle H.
  cbn in *. apply andb_true_iff in H. destruct H as [H1 H2]. apply andb_true_iff. split.
  - apply Nat.leb_le. apply Nat.leb_le in H1. lia.
  - rewrite forallb_forall in *. rewrite Forall_forall in IH. intros m Hm. eapply IH; eauto.
Qed.

Lemma v_def_size_pos : forall fd, (1 <= v_def_size fd)%nat.
Proof. intros [ft r fs]. cbn. lia. Qed.

Lemma v_def_size_sum : forall fs,
  (length fs <= fold_right (fun c n => (v_def_size c + n)%nat) O fs)%nat /\
  forall m, In m fs -> (v_def_size m <= fold_right (fun c n => (v_def_size c + n)%nat) O fs)%nat.
Proof.
  induction fs as [|a fs [IH1 IH2]]; cbn [fold_right length].
  - split; [lia|intros m []].
  - pose proof (v_def_size_pos a). split; [lia|]. intros m [->|Hm]; [lia|]. specialize (IH2 m Hm). lia.
Qed.

Lemma dfd_width_size : forall fd, dfd_width_okb (v_def_size fd) fd = true.
Proof.
  intro fd. induction fd as [ft r fs IH] using dict_field_def_ind'.
  destruct (v_def_size_sum fs) as [S1 S2].
  cbn [dfd_width_okb v_def_size]. apply andb_true_iff. split.
  - apply Nat.leb_le. lia.
  - rewrite forallb_forall. rewrite Forall_forall in IH. intros m Hm.
    eapply dfd_width_okb_mono; [|apply IH; exact Hm]. specialize (S2 m Hm). lia.
Qed.

Lemma v_msg_def_size_in : forall sd t fd, In (t, fd) (dmd_fields sd) -> (v_def_size fd <= v_msg_def_size (Some sd))%nat.
Proof.
  intros sd t fd. unfold v_msg_def_size. induction (dmd_fields sd) as [|[t' fd'] l IH]; intro H; [contradiction|].
  cbn [fold_right snd]. destruct H as [H|H]; [injection H as <- <-; lia|]. specialize (IH H). lia.
Qed.

(* ---- the whole walk ---- *)
Definition c15_def_wfb (o : option dict_message_def) : bool :=
  match o with
  | Some sd => forallb (fun tf => dfd_wfb (snd tf)) (dmd_fields sd)
  | None => true
  end.
(* every group of header, trailer and message lists each member once *)
Definition c15_wf_defsb (tdd : dict) (md : dict_message_def) : bool :=
  c15_def_wfb (dd_header tdd) && c15_def_wfb (dd_trailer tdd) && c15_def_wfb (Some md).

Lemma v_walk_sim : forall tdd add s mt md w,
  dict_bget mt (dd_messages add) = Some md ->
  c15_wf_defsb tdd md = true ->
  (v_msg_def_size (dd_header tdd) <= w)%nat -> (v_msg_def_size (dd_trailer tdd) <= w)%nat ->
  (v_msg_def_size (Some md) <= w)%nat ->
  forall fuel fuel' l seen,
    c15_items fuel' s tdd md l seen = true ->
    (length l * (w + 2) + 1 < fuel)%nat ->
    v_walk_loop fuel tdd add s mt l seen = Ok None.
Proof.
  intros tdd add s mt md w Hmd Hwf Wh Wt Wm.
  induction fuel as [|fuel IH]; intros fuel' l seen Hi Hf; [lia|].
  destruct l as [|[t v] rest]; [reflexivity|].
  destruct fuel' as [|fuel']; [discriminate|].
  cbn [v_walk_loop]. cbn [c15_items] in Hi.
  destruct (v_zmem t seen); [discriminate|].
  unfold c15_def_of in Hi. rewrite Hmd.
  assert (Hsd : forall sd, (if v_is_header t then dd_header tdd else if v_is_trailer t then dd_trailer tdd else Some md) = Some sd ->
                forall fd, In (t, fd) (dmd_fields sd) ->
                dfd_wfb fd = true /\ (v_def_size fd <= w)%nat).
  { intros sd Hsd fd Hin. unfold c15_wf_defsb in Hwf. repeat rewrite andb_true_iff in Hwf. destruct Hwf as [[W1 W2] W3].
    pose proof (v_msg_def_size_in sd t fd Hin) as Hsz.
    destruct (v_is_header t).
    - rewrite Hsd in W1, Wh. cbn in W1. rewrite forallb_forall in W1. split; [apply (W1 _ Hin)|lia].
    - destruct (v_is_trailer t).
      + rewrite Hsd in W2, Wt. cbn in W2. rewrite forallb_forall in W2. split; [apply (W2 _ Hin)|lia].
      + injection Hsd as <-. cbn in W3. rewrite forallb_forall in W3. split; [apply (W3 _ Hin)|lia]. }
  destruct (if v_is_header t then dd_header tdd else if v_is_trailer t then dd_trailer tdd else Some md) as [sd|];
    [|discriminate].
  destruct (dict_zget t (dmd_fields sd)) as [fd|] eqn:Ez.
  - match type of Hi with context [c15_member fd ?S] => destruct (c15_member fd S) as [rest'|] eqn:Em end; [|discriminate].
    apply andb_true_iff in Hi. destruct Hi as [Hlen Hi]. apply Nat.ltb_lt in Hlen.
    destruct (Hsd sd eq_refl fd (dict_zget_In _ _ _ _ Ez)) as [Hwfd Hszd].
    apply (res_bind_ok _ _ (inr rest')).
    + unfold v_visit_field. destruct (dfd_is_group fd) eqn:Eg.
      * apply (v_visit_group_field_sim w); auto.
        -- eapply dfd_width_okb_mono; [exact Hszd|apply dfd_width_size].
        -- unfold v_tv, bytes in *. cbn [length] in *. lia.
      * destruct fd as [ft1 r1 fs1]. unfold dfd_is_group in Eg. cbn in Eg. destruct fs1; [|discriminate].
        rewrite c15_member_plain_unfold in Em. injection Em as <-. reflexivity.
    + cbv beta iota. eapply IH; eauto.
      unfold v_tv, bytes in *. cbn [length] in *.
      pose proof (v_fuel_mono _ _ (w + 2)%nat Hlen). lia.
  - apply andb_true_iff in Hi. destruct Hi as [Ht Hi].
    assert (G : v_check_field_not_defined s t = c15_tolerated s t).
    { unfold v_check_field_not_defined, c15_tolerated.
      destruct (t <? USER_DEFINED_TAG_MIN); [apply negb_involutive|reflexivity]. }
    rewrite G, Ht. cbn [negb]. eapply IH; eauto.
    unfold v_tv, bytes in *. cbn [length] in *. lia.
Qed.
