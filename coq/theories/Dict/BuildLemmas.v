(* Generic reasoning about the builder model: Hoare-style triples for the state-threading loops of
   Dict/Build.v, one level of the recursion through the component table (Section Level), and the
   characterisation of NewMessageDef.  Instantiated three times in BuildProofs.v. *)
From Coq Require Import ZArith List Bool Lia.
From QF Require Import Base.Res Base.Bytes Dict.Xml Dict.Build Dict.Spec Dict.SpecExec Dict.SpecProofs.
Import ListNotations.
Open Scope Z_scope.

(* outcome r: a result satisfies I (state) and Q (value); an error is allowed iff EE; a crash/hang iff EF *)
Definition dict_hoare {S C : Type} (I : S -> Prop) (Q : C -> Prop) (EE EF : Prop) (r : res (S * C)) : Prop :=
  match r with
  | Ok sc => I (fst sc) /\ Q (snd sc)
  | Err _ => EE
  | _ => EF
  end.

Lemma dict_hoare_bind {S C S' C' : Type} (I : S -> Prop) (Q : C -> Prop) (I' : S' -> Prop) (Q' : C' -> Prop)
    (EE EF : Prop) (r : res (S * C)) (k : S * C -> res (S' * C')) :
  dict_hoare I Q EE EF r ->
  (forall sc, I (fst sc) -> Q (snd sc) -> dict_hoare I' Q' EE EF (k sc)) ->
  dict_hoare I' Q' EE EF (bind r k).
Proof.
  intros Hr Hk. destruct r as [sc|e| |]; cbn in *; auto. destruct Hr. auto.
Qed.

Lemma dict_hoare_weaken {S C : Type} (I : S -> Prop) (Q Q' : C -> Prop) (EE EF : Prop) (r : res (S * C)) :
  dict_hoare I Q EE EF r -> (forall c, Q c -> Q' c) -> dict_hoare I Q' EE EF r.
Proof. intros Hr HQ. destruct r as [sc|e| |]; cbn in *; auto. destruct Hr. auto. Qed.

Lemma dict_st_map_hoare {S A C : Type} (f : S -> A -> res (S * C)) (I : S -> Prop) (R : A -> C -> Prop)
    (EE EF : Prop) : forall l,
  Forall (fun a => forall s, I s -> dict_hoare I (R a) EE EF (f s a)) l ->
  forall s, I s -> dict_hoare I (Forall2 R l) EE EF (dict_st_map f s l).
Proof.
  induction l as [|a l IH]; intros HF s Hs; cbn.
  - split; auto.
  - inversion HF as [|a' l' Ha Hl]; subst.
    eapply dict_hoare_bind; [apply Ha; exact Hs|].
    intros sb Hs1 Hb. eapply dict_hoare_bind; [apply IH; auto|].
    intros sbs Hs2 Hbs. cbn. split; auto.
Qed.

Section Level.
  Variable by_name : list (bytes * dict_field_type).
  Variable fob : dict_state -> xmember -> res (dict_state * dict_component_type).
  Variable I : dict_state -> Prop.
  Variable Pre : xmember -> Prop.
  Variable Qc : xmember -> dict_component_type -> Prop.
  Variable Qf : xmember -> dict_field_def -> Prop.
  Variables EE EF : Prop.

  Definition dict_Qp (m : xmember) (p : dict_part) : Prop :=
    match p with
    | DPField f => xm_is_component m = false /\ Qf m f
    | DPComp c r => xm_is_component m = true /\ r = xm_is_required m /\ Qc m c
    end.

  Hypothesis Hfob : forall st m, I st -> Pre m -> xm_is_component m = true ->
    dict_hoare I (Qc m) EE EF (fob st m).
  Hypothesis Hkids : forall el n r ms, Pre (XM el n r ms) -> dict_beq el el_component = false ->
    dict_beq el el_group = true -> Forall Pre ms.
  Hypothesis Hunknown : forall el n r ms, Pre (XM el n r ms) -> dict_beq el el_component = false ->
    dict_bget n by_name = None -> EE.
  Hypothesis Hfield : forall el n r ms ft, Pre (XM el n r ms) -> dict_beq el el_component = false ->
    dict_bget n by_name = Some ft -> dict_beq el el_group = false ->
    Qf (XM el n r ms) (dict_new_field_def ft (dict_beq r xY)).
  Hypothesis Hgroup : forall el n r ms ft parts, Pre (XM el n r ms) -> dict_beq el el_component = false ->
    dict_bget n by_name = Some ft -> dict_beq el el_group = true ->
    Forall2 dict_Qp ms parts ->
    Qf (XM el n r ms) (dict_new_group_field_def ft (dict_beq r xY) parts).

  Lemma dict_build_field_def_unfold : forall st el n r ms,
    dict_build_field_def by_name fob st (XM el n r ms) =
    match dict_bget n by_name with
    | None => Err DERR_UNKNOWN_FIELD
    | Some ft =>
        if dict_beq el el_group then
          let* sp := dict_st_map (dict_build_part by_name fob) st ms in
          Ok (fst sp, dict_new_group_field_def ft (dict_beq r xY) (snd sp))
        else Ok (st, dict_new_field_def ft (dict_beq r xY))
    end.
  Proof. reflexivity. Qed.

  Lemma dict_build_field_def_hoare : forall m, Pre m -> xm_is_component m = false ->
    forall st, I st -> dict_hoare I (Qf m) EE EF (dict_build_field_def by_name fob st m).
  Proof.
    intro m. induction m as [el n r ms IH] using xmember_ind'. intros HP Hc st Hst.
    rewrite dict_build_field_def_unfold. rewrite xm_is_component_el in Hc.
    destruct (dict_bget n by_name) as [ft|] eqn:Eft.
    2:{ cbn. eapply Hunknown; eauto. }
    destruct (dict_beq el el_group) eqn:Eg.
    2:{ cbn. split; [exact Hst | eapply Hfield; eauto]. }
    pose proof (Hkids _ _ _ _ HP Hc Eg) as HK.
    eapply dict_hoare_bind.
    - apply (dict_st_map_hoare (dict_build_part by_name fob) I dict_Qp EE EF); [|exact Hst].
      clear Hst st. rewrite Forall_forall in *. intros k Hk st Hst.
      unfold dict_build_part. destruct (xm_is_component k) eqn:Ek.
      + eapply dict_hoare_bind; [apply Hfob; auto|].
        intros sc Hs Hq. cbn. split; [exact Hs|]. split; [exact Ek|]. split; [reflexivity|exact Hq].
      + eapply dict_hoare_bind; [apply IH; auto|].
        intros sf Hs Hq. cbn. split; [exact Hs|]. split; [exact Ek|exact Hq].
    - intros sp Hs Hq. cbn. split; [exact Hs|]. eapply Hgroup; eauto.
  Qed.

  Lemma dict_build_part_hoare : forall m, Pre m ->
    forall st, I st -> dict_hoare I (dict_Qp m) EE EF (dict_build_part by_name fob st m).
  Proof.
    intros m HP st Hst. unfold dict_build_part. destruct (xm_is_component m) eqn:Ek.
    - eapply dict_hoare_bind; [apply Hfob; auto|].
      intros sc Hs Hq. cbn. split; [exact Hs|]. split; [exact Ek|]. split; [reflexivity|exact Hq].
    - eapply dict_hoare_bind; [apply dict_build_field_def_hoare; auto|].
      intros sf Hs Hq. cbn. split; [exact Hs|]. split; [exact Ek|exact Hq].
  Qed.

  Lemma dict_build_parts_hoare : forall ms, Forall Pre ms ->
    forall st, I st -> dict_hoare I (Forall2 dict_Qp ms) EE EF (dict_st_map (dict_build_part by_name fob) st ms).
  Proof.
    intros ms HP st Hst. apply dict_st_map_hoare; auto.
    rewrite Forall_forall in *. intros m Hm s Hs. apply dict_build_part_hoare; auto.
  Qed.
End Level.

(* ---- maps built by folds ---- *)
Lemma dict_bget_some_key : forall A k (m : list (bytes * A)) v, dict_bget k m = Some v -> In (k, v) m.
Proof.
  intros A k m v H. apply dict_bget_In in H. destruct H as [k' [Hi He]]. subst. exact Hi.
Qed.

Lemma dict_component_by_name_In : forall doc n xc,
  dict_bget n (dict_component_by_name doc) = Some xc -> In xc (xd_components doc) /\ xc_name xc = n.
Proof.
  intros doc n xc H. apply dict_bget_some_key in H. unfold dict_component_by_name in H.
  assert (G : forall l acc, In (n, xc) (fold_left (fun m c => (xc_name c, c) :: m) l acc) ->
              In (n, xc) acc \/ (In xc l /\ xc_name xc = n)).
  { induction l as [|c l IH]; intros acc Hi; cbn in Hi; auto.
    destruct (IH _ Hi) as [Ha|[Ha Hb]].
    - destruct Ha as [Ha|Ha]; auto. injection Ha as <- <-. right. split; cbn; auto.
    - right. split; cbn; auto. }
  destruct (G _ _ H) as [[]|G']; auto.
Qed.
