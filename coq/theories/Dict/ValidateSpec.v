(* C15 specification: what it means for a parsed message to conform to the configured dictionaries under the
   validator settings, written from the property text (not from validation.go): known type, required fields
   present, values non-empty / well-formed for the declared type / within the declared enumeration, only fields
   defined for the type (or tolerated by the settings), each group = count followed by that many entries, each
   entry starting with the delimiter and listing members in declaration order with required members present
   (nested recursively), header before body before trailer, no tag twice on a level.
   Boolean (executable: it is also the spec predicate of the `validate` stream). *)
From Coq Require Import ZArith List Bool.
From QF Require Import Base.Res Base.Bytes Codec.FixInt Dict.Xml Dict.Build Dict.Validate.
Import ListNotations.
Open Scope Z_scope.

Section Spec.
  Variable rd_bool rd_timestamp rd_float : bytes -> bool.

  (* the dictionary a field is checked against, and the definition (header / trailer / message) it belongs to *)
  Definition c15_dict_of (tdd add : dict) (t : Z) : dict :=
    if v_is_header t then tdd else if v_is_trailer t then tdd else add.
  Definition c15_def_of (tdd : dict) (md : dict_message_def) (t : Z) : option dict_message_def :=
    if v_is_header t then dd_header tdd else if v_is_trailer t then dd_trailer tdd else Some md.

  (* a tag the dictionary does not know is tolerated: AllowUnknownMessageFields below 5000, not CheckUserDefinedFields from 5000 *)
  Definition c15_tolerated (s : v_settings) (t : Z) : bool :=
    if t <? USER_DEFINED_TAG_MIN then vs_allow_unknown_message_fields s else negb (vs_check_user_defined_fields s).

  Definition c15_nonempty (f : v_tv) : bool := match snd f with [] => false | _ => true end.

  (* value: non-empty, within the enumeration if one is declared, well-formed for the declared type *)
  Definition c15_value_okb (s : v_settings) (d : dict) (f : v_tv) : bool :=
    c15_nonempty f &&
    match dict_zget (fst f) (dd_field_type_by_tag d) with
    | None => c15_tolerated s (fst f)
    | Some ft =>
        match dft_enums ft with [] => true | es => dict_bmem (snd f) es end &&
        match dict_bget (dft_type ft) v_type_table with
        | Some k => v_read_ok rd_bool rd_timestamp rd_float k (snd f)
        | None => false
        end
    end.

  (* header fields, then body fields, then trailer fields *)
  Fixpoint c15_skip (p : Z -> bool) (l : list v_tv) : list v_tv :=
    match l with
    | f :: r => if p (fst f) then c15_skip p r else l
    | [] => []
    end.
  Definition c15_is_body (t : Z) : bool := negb (v_is_header t) && negb (v_is_trailer t).
  Definition c15_orderedb (fields : list v_tv) : bool :=
    match c15_skip v_is_trailer (c15_skip c15_is_body (c15_skip v_is_header fields)) with
    | [] => true
    | _ => false
    end.

  Definition c15_subset (a b : list Z) : bool := forallb (fun t => v_zmem t b) a.

  (* one occurrence of the field defined by md at the head of the stack (its tag has been matched);
     for a group: the count, then exactly that many entries *)
  Fixpoint c15_member (md : dict_field_def) (stack : list v_tv) {struct md} : option (list v_tv) :=
    match md with
    | DFD _ _ fs =>
        match fs with
        | [] => Some (tl stack)
        | first :: _ =>
            match stack with
            | [] => None
            | (_, value) :: rest =>
                match fix_int_read value with
                | Ok n =>
                    if n <? 0 then None else
                    (fix entries (k : nat) (st : list v_tv) {struct k} : option (list v_tv) :=
                       match k with
                       | O => match st with
                              | (t, _) :: _ => if t =? dfd_tag first then None else Some st   (* one entry too many *)
                              | [] => Some st
                              end
                       | S k' =>
                           match st with
                           | (t, _) :: _ =>
                               if t =? dfd_tag first then
                                 match (fix members (ms : list dict_field_def) (st1 : list v_tv) {struct ms} : option (list v_tv) :=
                                          match ms with
                                          | [] => Some st1
                                          | m :: ms' =>
                                              match st1 with
                                              | (t1, _) :: _ =>
                                                  if t1 =? dfd_tag m then
                                                    match c15_member m st1 with
                                                    | Some st2 => members ms' st2
                                                    | None => None
                                                    end
                                                  else if dfd_required m then None else members ms' st1
                                              | [] => if dfd_required m then None else members ms' st1
                                              end
                                          end) fs st with
                                 | Some st' => entries k' st'
                                 | None => None
                                 end
                               else None                       (* an entry starts with the delimiter *)
                           | [] => None
                           end
                       end) (Z.to_nat n) rest
                | _ => None
                end
            end
        end
    end.

  (* the sequence of top-level fields: each defined for its section (or tolerated), none twice *)
  Fixpoint c15_items (fuel : nat) (s : v_settings) (tdd : dict) (md : dict_message_def)
      (fields : list v_tv) (seen : list Z) : bool :=
    match fuel with
    | O => false
    | S f =>
        match fields with
        | [] => true
        | (t, _) :: rest =>
            if v_zmem t seen then false else
            match c15_def_of tdd md t with
            | None => false
            | Some sd =>
                match dict_zget t (dmd_fields sd) with
                | None => c15_tolerated s t && c15_items f s tdd md rest (t :: seen)
                | Some fd =>
                    match c15_member fd fields with
                    | Some rest' => (length rest' <? length fields)%nat && c15_items f s tdd md rest' (t :: seen)
                    | None => false
                    end
                end
            end
        end
    end.

  (* conforms: tdd = dictionary of header and trailer, add = dictionary of the body *)
  Definition c15_conformsb (s : v_settings) (tdd add : dict) (m : v_msg) : bool :=
    match vm_msg_type m with
    | None => false
    | Some mt =>
        match dict_bget mt (dd_messages add), dd_header tdd, dd_trailer tdd with
        | Some md, Some h, Some t =>
            c15_subset (dmd_required_tags h) (vm_header_tags m) &&
            c15_subset (dmd_required_tags md) (vm_body_tags m) &&
            c15_subset (dmd_required_tags t) (vm_trailer_tags m) &&
            (negb (vs_check_fields_have_values s) || forallb c15_nonempty (vm_fields m)) &&
            (negb (vs_check_fields_out_of_order s) || c15_orderedb (vm_fields m)) &&
            (negb (vs_reject_invalid_message s) ||
             (forallb (fun f => c15_value_okb s (c15_dict_of tdd add (fst f)) f) (vm_fields m) &&
              c15_items (S (length (vm_fields m))) s tdd md (vm_fields m) []))
        | _, _, _ => false
        end
    end.

  (* no repeating group instance in the message: every wire field that is defined is a plain field *)
  Definition c15_no_groupsb (tdd add : dict) (m : v_msg) : bool :=
    match vm_msg_type m with
    | None => true
    | Some mt =>
        match dict_bget mt (dd_messages add) with
        | None => true
        | Some md =>
            forallb (fun f => match c15_def_of tdd md (fst f) with
                              | Some sd => match dict_zget (fst f) (dmd_fields sd) with
                                           | Some fd => negb (dfd_is_group fd)
                                           | None => true
                                           end
                              | None => true
                              end) (vm_fields m)
        end
    end.
End Spec.

(* ---- "names the defect": the reject reason and reference tag that identify a single defect of kind k at tag t,
        when the rule for that kind is switched on by the settings ---- *)
Definition K_MSGTYPE : Z := 1.        (* unknown MsgType *)
Definition K_MISSING : Z := 2.        (* required header / body / trailer field missing *)
Definition K_UNDEFINED : Z := 3.      (* a field of the dictionary that is not defined for this message type *)
Definition K_INVALIDTAG : Z := 4.     (* a tag number the dictionary does not know *)
Definition K_EMPTY : Z := 5.          (* empty value *)
Definition K_ENUM : Z := 6.           (* value outside the enumeration *)
Definition K_ILLTYPED : Z := 7.       (* ill-typed value *)
Definition K_DUPLICATE : Z := 8.      (* tag twice at the top level *)
Definition K_ORDER : Z := 9.          (* header / body / trailer out of section order *)

Definition c15_rule_on (k : Z) (s : v_settings) : bool :=
  if (k =? K_MSGTYPE) || (k =? K_MISSING) then true
  else if k =? K_EMPTY then vs_check_fields_have_values s || vs_reject_invalid_message s
  else if k =? K_ORDER then vs_check_fields_out_of_order s
  else vs_reject_invalid_message s.

Definition c15_expected_reason (k : Z) : Z :=
  if k =? K_MSGTYPE then RR_INVALID_MSG_TYPE
  else if k =? K_MISSING then RR_REQUIRED_TAG_MISSING
  else if k =? K_UNDEFINED then RR_TAG_NOT_DEFINED_FOR_THIS_MESSAGE_TYPE
  else if k =? K_INVALIDTAG then RR_INVALID_TAG_NUMBER
  else if k =? K_EMPTY then RR_TAG_SPECIFIED_WITHOUT_A_VALUE
  else if k =? K_ENUM then RR_VALUE_IS_INCORRECT
  else if k =? K_ILLTYPED then RR_INCORRECT_DATA_FORMAT_FOR_VALUE
  else if k =? K_DUPLICATE then RR_TAG_APPEARS_MORE_THAN_ONCE
  else RR_TAG_SPECIFIED_OUT_OF_REQUIRED_ORDER.

(* the reference tag is the defective tag; for an unknown MsgType there is none; for a section-order defect it is
   the first header (trailer) tag found out of place, which need not be the field that was moved *)
Definition c15_named_okb (k t : Z) (rej : v_reject) : bool :=
  (fst rej =? c15_expected_reason k) &&
  (if k =? K_MSGTYPE then match snd rej with None => true | Some _ => false end
   else if k =? K_ORDER then match snd rej with Some _ => true | None => false end
   else match snd rej with Some t' => t' =? t | None => false end).
