(* The hypothesis of c15_accepts on the shipped dictionaries: every group of every message, header and trailer
   lists each member tag once (kernel computation over the generated terms, through the model's dict_build). *)
From Coq Require Import ZArith List Bool.
From QF Require Import Base.Res Base.Bytes Dict.Xml Dict.Build Dict.Validate Dict.ValidateSpec Dict.ValidateGroups Gen.Dicts.Index.
Import ListNotations.

Definition c15_dict_wfb (d : dict) : bool :=
  c15_def_wfb (dd_header d) && c15_def_wfb (dd_trailer d) &&
  forallb (fun km => c15_def_wfb (Some (snd km))) (dd_messages d).

Definition c15_doc_wfb (doc : xdoc) : bool :=
  match dict_build doc with Ok d => c15_dict_wfb d | _ => false end.

Lemma c15_shipped_wf_compute : forallb (fun nd => c15_doc_wfb (snd nd)) gen_dicts_shipped = true.
Proof. vm_compute. reflexivity. Qed.

(* with any shipped dictionary for header/trailer and any shipped dictionary for the body *)
Lemma c15_dict_wfb_defs : forall tdd add mt md, c15_dict_wfb tdd = true -> c15_dict_wfb add = true ->
  dict_bget mt (dd_messages add) = Some md -> c15_wf_defsb tdd md = true.
Proof.
  intros tdd add mt md Ht Ha Hg. unfold c15_dict_wfb in *. repeat rewrite andb_true_iff in *.
  destruct Ht as [[T1 T2] _]. destruct Ha as [_ A3]. unfold c15_wf_defsb. rewrite T1, T2. cbn [andb].
  rewrite forallb_forall in A3.
  assert (G : forall A k (m : list (bytes * A)) v, dict_bget k m = Some v -> exists k', In (k', v) m).
  { intros A k m v. induction m as [|[k' v'] m IH]; cbn; intro H; [discriminate|].
    destruct (dict_beq k' k); [injection H as <-; eauto|]. destruct (IH H) as [k2 Hk]. eauto. }
  destruct (G _ _ _ _ Hg) as [k' Hin]. apply (A3 _ Hin).
Qed.

Lemma c15_shipped_wf : forall nd d, In nd gen_dicts_shipped -> dict_build (snd nd) = Ok d -> c15_dict_wfb d = true.
Proof.
  intros nd d Hin Hb. pose proof c15_shipped_wf_compute as H. rewrite forallb_forall in H.
  specialize (H nd Hin). unfold c15_doc_wfb in H. rewrite Hb in H. exact H.
Qed.
