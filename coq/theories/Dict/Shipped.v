(* The shipped specifications (generated terms): their fingerprints, computed by the kernel. *)
From Coq Require Import ZArith List.
From QF Require Import Base.Bytes Dict.Xml Dict.Fp Gen.Dicts.Index.
Import ListNotations.
Open Scope Z_scope.

Definition dict_shipped_fp : list (bytes * list Z) :=
  Eval vm_compute in map (fun nd => (fst nd, dict_fp (snd nd))) gen_dicts_shipped.
