(* C15: a message that conforms is accepted (all messages, repeating groups included). *)
From Coq Require Import ZArith List Bool Lia.
From QF Require Import Base.Res Base.Bytes Codec.FixInt Dict.Xml Dict.Build Dict.Validate Dict.ValidateSpec
  Dict.ValidateProofs Dict.ValidateGroups.
Import ListNotations.
Open Scope Z_scope.

Section Accepts.
  Variable rd_bool rd_timestamp rd_float : bytes -> bool.

  Theorem v_accepts : forall app tr s m mt tdd add md,
    vm_msg_type m = Some mt -> c15_config app tr mt tdd add ->
    dict_bget mt (dd_messages add) = Some md -> c15_wf_defsb tdd md = true ->
    c15_conformsb rd_bool rd_timestamp rd_float s tdd add m = true ->
    v_validate rd_bool rd_timestamp rd_float s app tr m = Ok None.
  Proof.
    intros app tr s m mt tdd add md Hmt C Emd Hwf Hc.
    rewrite (v_validate_pipeline rd_bool rd_timestamp rd_float _ _ _ _ _ s m C Hmt).
    unfold c15_conformsb in Hc. rewrite Hmt, Emd in Hc.
    destruct (dd_header tdd) as [h|] eqn:Eh; [|discriminate].
    destruct (dd_trailer tdd) as [t|] eqn:Et; [|discriminate].
    repeat rewrite andb_true_iff in Hc. destruct Hc as [[[[[R1 R2] R3] Cv] Co] Cr].
    unfold v_pipeline.
    rewrite (v_msg_type_known _ _ _ Emd). cbn [v_then].
    unfold v_validate_required. rewrite Eh, Emd, Et.
    rewrite (v_required_map_ok _ _ R1). cbn [v_then].
    rewrite (v_required_map_ok _ _ R2). cbn [v_then].
    rewrite (v_required_map_ok _ _ R3). cbn [v_then].
    rewrite (v_field_content_ok m _ _ Cv Co). cbn [v_then].
    destruct (vs_reject_invalid_message s); [|reflexivity].
    cbn [negb orb] in Cr. apply andb_true_iff in Cr. destruct Cr as [Cf Ci].
    rewrite (v_fields_ok rd_bool rd_timestamp rd_float _ _ _ _ Cf). cbn [v_then].
    unfold v_validate_walk.
    eapply (v_walk_sim tdd add s mt md
              (v_msg_def_size (dd_header tdd) + v_msg_def_size (dd_trailer tdd) + v_msg_def_size (Some md))%nat);
      eauto; try lia.
    unfold v_walk_fuel. rewrite Emd. nia.
  Qed.
End Accepts.
