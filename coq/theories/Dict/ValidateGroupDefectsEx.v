(* C15, repeating groups: the group defect theorems instantiated with the value readers of the Types area, and a
   small dictionary with a nested group on which every one of them (and the acceptance theorem) is applied --
   the hypotheses are satisfiable, the verdicts are obtained through the theorems. *)
From Coq Require Import ZArith List Bool String.
From QF Require Import Base.Res Base.Bytes Codec.FixInt Dict.Xml Dict.Build Dict.Validate Dict.ValidateSpec Dict.ValidateInst
  Dict.ValidateProofs Dict.ValidateGroups Dict.ValidateAccepts Dict.ValidateExamples Dict.ValidateGroupDefects.
Import ListNotations.
Open Scope Z_scope.
Open Scope string_scope.

(* c15_walk_at with the readers of the Types area: rules 1-4 pass and the walk stands at `stack` *)
Definition c15_at : v_settings -> option dict -> option dict -> v_msg -> bytes -> dict -> dict ->
    dict_message_def -> list v_tv -> list Z -> Prop :=
  c15_walk_at v_rd_bool v_rd_timestamp v_rd_float.

(* message Y = required group NoG(100) with members A(101, required, delimiter) B(102, optional) C(103, required)
   and the optional nested group NoH(110) with members H1(111, required, delimiter) H2(112, optional) H3(113, required);
   then the optional plain field D(104, INT) *)
Definition v_exn_doc : xdoc :=
  XD (B "FIX") (B "4") (B "2") 0
     (Some (XC [] [] [xF (B "BeginString") xY; xF (B "BodyLength") xY; xF (B "MsgType") xY]))
     (Some (XC [] [] [xF (B "CheckSum") xY]))
     [XC (B "Y") (B "Y")
         [xG (B "NoG") xY [xF (B "A") xY; xF (B "B") xN; xF (B "C") xY;
                           xG (B "NoH") xN [xF (B "H1") xY; xF (B "H2") xN; xF (B "H3") xY]];
          xF (B "D") xN]]
     []
     [XF 8 (B "BeginString") (B "STRING") []; XF 9 (B "BodyLength") (B "LENGTH") []; XF 35 (B "MsgType") (B "STRING") [];
      XF 10 (B "CheckSum") (B "STRING") []; XF 100 (B "NoG") (B "NUMINGROUP") []; XF 101 (B "A") (B "STRING") [];
      XF 102 (B "B") (B "STRING") []; XF 103 (B "C") (B "STRING") []; XF 104 (B "D") (B "INT") [];
      XF 110 (B "NoH") (B "NUMINGROUP") []; XF 111 (B "H1") (B "STRING") []; XF 112 (B "H2") (B "STRING") [];
      XF 113 (B "H3") (B "STRING") []].

Definition v_exn_dict : dict :=
  match dict_build v_exn_doc with Ok d => d | _ => DD [] 0 0 0 [] [] [] [] None None end.
Definition v_exn_md : dict_message_def :=
  match dict_bget (B "Y") (dd_messages v_exn_dict) with Some md => md | None => DMD [] [] [] [] [] end.
Definition v_exn_nog : dict_field_def :=
  match dict_zget 100 (dmd_fields v_exn_md) with Some g => g | None => DFD (DFT [] 0 [] []) false [] end.
Definition v_exn_mem (i : nat) : dict_field_def := nth i (dfd_fields v_exn_nog) v_exn_nog.
Definition v_exn_noh : dict_field_def := v_exn_mem 3.
Definition v_exn_hmem (i : nat) : dict_field_def := nth i (dfd_fields v_exn_noh) v_exn_noh.

Definition v_exn_msg (body : list v_tv) : v_msg :=
  VM [8; 9; 35] [100] [10] (Some (B "Y"))
     (([(8, B "FIX.4.2"); (9, B "5"); (35, B "Y")] ++ body) ++ [(10, B "000")])%list.

(* two entries, the first with all members and a nested group of two entries *)
Definition v_exn_ok : v_msg :=
  v_exn_msg [(100, B "2");
             (101, B "a"); (102, B "b"); (103, B "c");
               (110, B "2"); (111, B "x"); (112, B "y"); (113, B "w"); (111, B "z"); (113, B "u");
             (101, B "d"); (103, B "e");
             (104, B "12")].
(* three entries, C missing from the second *)
Definition v_exn_missing_mid : v_msg :=
  v_exn_msg [(100, B "3"); (101, B "a"); (103, B "c"); (101, B "b"); (101, B "d"); (103, B "e")].
(* ... from the first, from the last (followed by the plain field D) *)
Definition v_exn_missing_first : v_msg :=
  v_exn_msg [(100, B "2"); (101, B "a"); (102, B "b"); (101, B "d"); (103, B "e")].
Definition v_exn_missing_last : v_msg :=
  v_exn_msg [(100, B "2"); (101, B "a"); (103, B "c"); (101, B "d"); (104, B "12")].
(* NumInGroup 3, two entries *)
Definition v_exn_count : v_msg :=
  v_exn_msg [(100, B "3"); (101, B "a"); (103, B "c"); (101, B "d"); (103, B "e"); (104, B "12")].
(* the second entry does not begin with the delimiter *)
Definition v_exn_no_delim : v_msg :=
  v_exn_msg [(100, B "2"); (101, B "a"); (103, B "c"); (102, B "b"); (103, B "e")].
(* the nested group before the required member C *)
Definition v_exn_out_of_order : v_msg :=
  v_exn_msg [(100, B "1"); (101, B "a"); (110, B "1"); (111, B "x"); (113, B "w"); (103, B "c")].
(* the optional member B behind C in the last entry *)
Definition v_exn_displaced : v_msg :=
  v_exn_msg [(100, B "1"); (101, B "a"); (103, B "c"); (102, B "b")].
(* H3 missing from the second entry of the nested group, in the second entry of the outer group *)
Definition v_exn_nested_missing : v_msg :=
  v_exn_msg [(100, B "2"); (101, B "a"); (103, B "c");
             (101, B "d"); (103, B "e"); (110, B "2"); (111, B "x"); (113, B "w"); (111, B "z"); (104, B "12")].

Lemma v_exn_md_eq : dict_bget (B "Y") (dd_messages v_exn_dict) = Some v_exn_md.
Proof. vm_compute. reflexivity. Qed.
Lemma v_exn_wf : c15_wf_defsb v_exn_dict v_exn_md = true.
Proof. vm_compute. reflexivity. Qed.

(* acceptance of the nested instance, through the acceptance theorem *)
Lemma v_exn_accepts_hyp :
  c15_config (Some v_exn_dict) None (B "Y") v_exn_dict v_exn_dict /\
  dict_bget (B "Y") (dd_messages v_exn_dict) = Some v_exn_md /\ c15_wf_defsb v_exn_dict v_exn_md = true /\
  c15_conforms v_ex_settings v_exn_dict v_exn_dict v_exn_ok = true.
Proof. split; [constructor|]. split; [exact v_exn_md_eq|]. split; [exact v_exn_wf|]. vm_compute. reflexivity. Qed.

Lemma v_exn_accepted : validate v_ex_settings (Some v_exn_dict) None v_exn_ok = Ok None.
Proof.
  destruct v_exn_accepts_hyp as [C [Hmd [Hwf Hc]]].
  eapply (v_accepts v_rd_bool v_rd_timestamp v_rd_float); [reflexivity|exact C|exact Hmd|exact Hwf|exact Hc].
Qed.

(* the walk passes over the three header fields and stands at the group *)
Ltac exn_at k :=
  unfold c15_at, c15_walk_at;
  split; [reflexivity|]; split; [constructor|];
  split; [exists v_exn_md; eexists; eexists;
          (split; [|split; [|split; [|split; [|split]]]]); vm_compute; reflexivity|];
  split; [split; vm_compute; reflexivity|];
  split; [reflexivity|]; split; [vm_compute; reflexivity|];
  split; [exact v_exn_md_eq|]; split; [exact v_exn_wf|];
  exists k; vm_compute; reflexivity.

Ltac exn_side := first [ vm_compute; reflexivity | vm_compute; discriminate | vm_compute; tauto ].

Lemma v_exn_missing_mid_rejected :
  validate v_ex_settings (Some v_exn_dict) None v_exn_missing_mid = Ok (Some (RR_REQUIRED_TAG_MISSING, Some 103)).
Proof.
  change 103 with (dfd_tag (v_exn_mem 2)).
  eapply (v_defect_group_member_missing v_rd_bool v_rd_timestamp v_rd_float)
    with (mt := B "Y") (md := v_exn_md) (seen := [35; 9; 8]) (g := v_exn_nog) (first := v_exn_mem 0)
         (fs := [v_exn_mem 1; v_exn_mem 2; v_exn_mem 3]) (j := 1%nat) (ms1 := [v_exn_mem 0; v_exn_mem 1]) (ms2 := [v_exn_mem 3]);
    [exn_at 3%nat | exn_side ..].
Qed.

Lemma v_exn_missing_first_rejected :
  validate v_ex_settings (Some v_exn_dict) None v_exn_missing_first = Ok (Some (RR_REQUIRED_TAG_MISSING, Some 103)).
Proof.
  change 103 with (dfd_tag (v_exn_mem 2)).
  eapply (v_defect_group_member_missing v_rd_bool v_rd_timestamp v_rd_float)
    with (mt := B "Y") (md := v_exn_md) (seen := [35; 9; 8]) (g := v_exn_nog) (first := v_exn_mem 0)
         (fs := [v_exn_mem 1; v_exn_mem 2; v_exn_mem 3]) (j := 0%nat) (ms1 := [v_exn_mem 0; v_exn_mem 1]) (ms2 := [v_exn_mem 3]);
    [exn_at 3%nat | exn_side ..].
Qed.

Lemma v_exn_missing_last_rejected :
  validate v_ex_settings (Some v_exn_dict) None v_exn_missing_last = Ok (Some (RR_REQUIRED_TAG_MISSING, Some 103)).
Proof.
  change 103 with (dfd_tag (v_exn_mem 2)).
  eapply (v_defect_group_member_missing v_rd_bool v_rd_timestamp v_rd_float)
    with (mt := B "Y") (md := v_exn_md) (seen := [35; 9; 8]) (g := v_exn_nog) (first := v_exn_mem 0)
         (fs := [v_exn_mem 1; v_exn_mem 2; v_exn_mem 3]) (j := 1%nat) (ms1 := [v_exn_mem 0; v_exn_mem 1]) (ms2 := [v_exn_mem 3]);
    [exn_at 3%nat | exn_side ..].
Qed.

Lemma v_exn_count_rejected :
  validate v_ex_settings (Some v_exn_dict) None v_exn_count = Ok (Some (RR_INCORRECT_NUM_IN_GROUP_COUNT, Some 100)).
Proof.
  eapply (v_defect_group_count v_rd_bool v_rd_timestamp v_rd_float)
    with (mt := B "Y") (md := v_exn_md) (seen := [35; 9; 8]) (g := v_exn_nog) (first := v_exn_mem 0)
         (fs := [v_exn_mem 1; v_exn_mem 2; v_exn_mem 3]) (k := 2%nat) (n := 3);
    [exn_at 3%nat | exn_side ..].
Qed.

Lemma v_exn_no_delim_rejected :
  validate v_ex_settings (Some v_exn_dict) None v_exn_no_delim = Ok (Some (RR_INCORRECT_NUM_IN_GROUP_COUNT, Some 100)).
Proof.
  eapply (v_defect_group_no_delimiter v_rd_bool v_rd_timestamp v_rd_float)
    with (mt := B "Y") (md := v_exn_md) (seen := [35; 9; 8]) (g := v_exn_nog) (first := v_exn_mem 0)
         (fs := [v_exn_mem 1; v_exn_mem 2; v_exn_mem 3]) (k := 1%nat) (n := 2);
    [exn_at 3%nat | exn_side ..].
Qed.

Lemma v_exn_out_of_order_rejected :
  validate v_ex_settings (Some v_exn_dict) None v_exn_out_of_order = Ok (Some (RR_REQUIRED_TAG_MISSING, Some 103)).
Proof.
  change 103 with (dfd_tag (v_exn_mem 2)).
  eapply (v_defect_group_member_out_of_order v_rd_bool v_rd_timestamp v_rd_float)
    with (mt := B "Y") (md := v_exn_md) (seen := [35; 9; 8]) (g := v_exn_nog) (first := v_exn_mem 0)
         (fs := [v_exn_mem 1; v_exn_mem 2; v_exn_mem 3]) (j := 0%nat) (ms1 := [v_exn_mem 0; v_exn_mem 1]) (ms2 := [v_exn_mem 3]);
    [exn_at 3%nat | exn_side ..].
Qed.

Lemma v_exn_displaced_rejected :
  validate v_ex_settings (Some v_exn_dict) None v_exn_displaced = Ok (Some (RR_TAG_NOT_DEFINED_FOR_THIS_MESSAGE_TYPE, Some 102)).
Proof.
  eapply (v_defect_undefined_at v_rd_bool v_rd_timestamp v_rd_float)
    with (mt := B "Y") (md := v_exn_md) (seen := [100; 35; 9; 8]) (sd := v_exn_md);
    [exn_at 4%nat | exn_side ..].
Qed.

Lemma v_exn_nested_defect :
  c15_group_defect v_exn_nog
    [(100, B "2"); (101, B "a"); (103, B "c");
     (101, B "d"); (103, B "e"); (110, B "2"); (111, B "x"); (113, B "w"); (111, B "z"); (104, B "12"); (10, B "000")]
    (RR_REQUIRED_TAG_MISSING, Some 113).
Proof.
  eapply gd_nested with (first := v_exn_mem 0) (fs := [v_exn_mem 1; v_exn_mem 2; v_exn_mem 3]) (j := 1%nat)
                        (ms1 := [v_exn_mem 0; v_exn_mem 1; v_exn_mem 2]) (mem := v_exn_noh) (ms2 := []) (n := 2);
    [exn_side | exn_side | exn_side | exn_side | exn_side |].
  change (RR_REQUIRED_TAG_MISSING, Some 113) with (v_required_tag_missing (dfd_tag (v_exn_hmem 2))).
  change (dfd_tag v_exn_noh) with 110.
  eapply gd_member_missing with (first := v_exn_hmem 0) (fs := [v_exn_hmem 1; v_exn_hmem 2]) (j := 1%nat)
                                (ms1 := [v_exn_hmem 0; v_exn_hmem 1]) (ms2 := []) (n := 2);
    exn_side.
Qed.

Lemma v_exn_nested_missing_rejected :
  validate v_ex_settings (Some v_exn_dict) None v_exn_nested_missing = Ok (Some (RR_REQUIRED_TAG_MISSING, Some 113)).
Proof.
  eapply (v_defect_group v_rd_bool v_rd_timestamp v_rd_float)
    with (mt := B "Y") (md := v_exn_md) (seen := [35; 9; 8]) (g := v_exn_nog) (sd := v_exn_md);
    [exn_at 3%nat | exn_side | exn_side | exn_side | exact v_exn_nested_defect].
Qed.

(* all of it in one statement (for Props/C15.v) *)
Lemma v_exn_instances :
  validate v_ex_settings (Some v_exn_dict) None v_exn_ok = Ok None /\
  validate v_ex_settings (Some v_exn_dict) None v_exn_missing_first = Ok (Some (RR_REQUIRED_TAG_MISSING, Some 103)) /\
  validate v_ex_settings (Some v_exn_dict) None v_exn_missing_mid = Ok (Some (RR_REQUIRED_TAG_MISSING, Some 103)) /\
  validate v_ex_settings (Some v_exn_dict) None v_exn_missing_last = Ok (Some (RR_REQUIRED_TAG_MISSING, Some 103)) /\
  validate v_ex_settings (Some v_exn_dict) None v_exn_count = Ok (Some (RR_INCORRECT_NUM_IN_GROUP_COUNT, Some 100)) /\
  validate v_ex_settings (Some v_exn_dict) None v_exn_no_delim = Ok (Some (RR_INCORRECT_NUM_IN_GROUP_COUNT, Some 100)) /\
  validate v_ex_settings (Some v_exn_dict) None v_exn_out_of_order = Ok (Some (RR_REQUIRED_TAG_MISSING, Some 103)) /\
  validate v_ex_settings (Some v_exn_dict) None v_exn_displaced = Ok (Some (RR_TAG_NOT_DEFINED_FOR_THIS_MESSAGE_TYPE, Some 102)) /\
  validate v_ex_settings (Some v_exn_dict) None v_exn_nested_missing = Ok (Some (RR_REQUIRED_TAG_MISSING, Some 113)).
Proof.
  split; [|split; [|split; [|split; [|split; [|split; [|split; [|split]]]]]]].
  - exact v_exn_accepted.
  - exact v_exn_missing_first_rejected.
  - exact v_exn_missing_mid_rejected.
  - exact v_exn_missing_last_rejected.
  - exact v_exn_count_rejected.
  - exact v_exn_no_delim_rejected.
  - exact v_exn_out_of_order_rejected.
  - exact v_exn_displaced_rejected.
  - exact v_exn_nested_missing_rejected.
Qed.

(* the hypotheses themselves, on the instances: (a) C missing from the second of three entries *)
Lemma v_exn_missing_mid_hyp :
  let rest := [(101, B "a"); (103, B "c"); (101, B "b"); (101, B "d"); (103, B "e"); (10, B "000")]%list in
  let fs := [v_exn_mem 1; v_exn_mem 2; v_exn_mem 3]%list in
  c15_at v_ex_settings (Some v_exn_dict) None v_exn_missing_mid (B "Y") v_exn_dict v_exn_dict v_exn_md
         ((100, B "3") :: rest) [35; 9; 8] /\
  v_zmem 100 [35; 9; 8] = false /\
  c15_def_of v_exn_dict v_exn_md 100 = Some v_exn_md /\ dict_zget 100 (dmd_fields v_exn_md) = Some v_exn_nog /\
  dfd_fields v_exn_nog = v_exn_mem 0 :: fs /\
  fix_int_read (B "3") = Ok 3 /\
  c15_entries_pre (c15_members_of c15_member (v_exn_mem 0 :: fs)) (dfd_tag (v_exn_mem 0)) 1 rest =
    Some ((dfd_tag (v_exn_mem 0), B "b") :: [(101, B "d"); (103, B "e"); (10, B "000")]) /\
  v_exn_mem 0 :: fs = ([v_exn_mem 0; v_exn_mem 1] ++ v_exn_mem 2 :: [v_exn_mem 3])%list /\
  c15_members_of c15_member [v_exn_mem 0; v_exn_mem 1]
    ((dfd_tag (v_exn_mem 0), B "b") :: [(101, B "d"); (103, B "e"); (10, B "000")]) =
    Some ((101, B "d") :: [(103, B "e"); (10, B "000")]) /\
  dfd_required (v_exn_mem 2) = true /\ 101 <> dfd_tag (v_exn_mem 2) /\ dfd_tag (v_exn_mem 2) = 103.
Proof.
  cbv zeta.
  split; [exn_at 3%nat|].
  split; [exn_side|]. split; [exn_side|]. split; [exn_side|]. split; [exn_side|]. split; [exn_side|].
  split; [exn_side|]. split; [exn_side|]. split; [exn_side|]. split; [exn_side|]. split; exn_side.
Qed.

(* (b) NumInGroup 3, two entries present *)
Lemma v_exn_count_hyp :
  let rest := [(101, B "a"); (103, B "c"); (101, B "d"); (103, B "e"); (104, B "12"); (10, B "000")]%list in
  let fs := [v_exn_mem 1; v_exn_mem 2; v_exn_mem 3]%list in
  c15_at v_ex_settings (Some v_exn_dict) None v_exn_count (B "Y") v_exn_dict v_exn_dict v_exn_md
         ((100, B "3") :: rest) [35; 9; 8] /\
  v_zmem 100 [35; 9; 8] = false /\
  c15_def_of v_exn_dict v_exn_md 100 = Some v_exn_md /\ dict_zget 100 (dmd_fields v_exn_md) = Some v_exn_nog /\
  dfd_fields v_exn_nog = v_exn_mem 0 :: fs /\
  fix_int_read (B "3") = Ok 3 /\
  c15_entries_of (c15_members_of c15_member (v_exn_mem 0 :: fs)) (dfd_tag (v_exn_mem 0)) 2 rest =
    Some [(104, B "12"); (10, B "000")] /\
  3 <> Z.of_nat 2.
Proof.
  cbv zeta.
  split; [exn_at 3%nat|].
  split; [exn_side|]. split; [exn_side|]. split; [exn_side|]. split; [exn_side|]. split; [exn_side|].
  split; exn_side.
Qed.

(* why (a) asks for a field after the incomplete entry: when the field stack is exhausted inside an entry the loop of
   validateVisitGroupField just ends, and with a matching count the instance is passed although C(103) is missing.
   (In a message this needs the group to be the very end of Message.fields, i.e. no CheckSum after it.) *)
Lemma v_exn_exhausted_stack_passes :
  c15_member v_exn_nog [(100, B "1"); (101, B "a")] = None /\
  v_visit_group_field 20 v_exn_nog [(100, B "1"); (101, B "a")] = Ok (inr []).
Proof. split; vm_compute; reflexivity. Qed.
