(* Completeness of the builder model: a uniquely named, closed, acyclic document with a valid header is
   built (no error), and conversely a successful build implies closed and acyclic.  With BuildTotal and
   BuildSound this gives the C19 theorems. *)
From Coq Require Import ZArith List Bool Lia.
From QF Require Import Base.Res Base.Bytes Dict.Xml Dict.Build Dict.Spec Dict.SpecExec Dict.SpecProofs
  Dict.BuildLemmas Dict.BuildTotal Dict.BuildSound.
Import ListNotations.
Open Scope Z_scope.

(* ---- component references ---- *)
Lemma sp_comp_ref_cons_inv : forall m ms n, sp_comp_ref (m :: ms) n ->
  (xm_is_component m = true /\ n = xm_name m) \/
  (xm_is_component m = false /\ xm_is_group m = true /\ sp_comp_ref (xm_members m) n) \/
  sp_comp_ref ms n.
Proof.
  intros m ms n H. inversion H as [ms' m' Hin Hc | ms' m' n' Hin Hc Hg Hr]; subst.
  - destruct Hin as [->|Hin]; [left; auto|]. right. right. apply spc_here; auto.
  - destruct Hin as [->|Hin]; [right; left; auto|]. right. right. eapply spc_group; eauto.
Qed.

Lemma sp_comp_ref_incl : forall ms ms' n, incl ms ms' -> sp_comp_ref ms n -> sp_comp_ref ms' n.
Proof.
  intros ms ms' n Hi H. inversion H as [x m Hin Hc | x m n' Hin Hc Hg Hr]; subst.
  - apply spc_here; auto.
  - eapply spc_group; eauto.
Qed.

(* ---- a derivation of the expansion shows closedness and well-foundedness ---- *)
Lemma sp_expand_closed : forall doc ms ts, sp_expand doc ms ts -> forallb (sp_member_closedb doc) ms = true.
Proof.
  intros doc ms ts H.
  induction H as [| m f ms ts Hc Hg Hf Hr IH | m f ks ms ts Hc Hg Hf Hk IHk Hr IH | m c cs ms ts Hc Hf Hk IHk Hr IH];
    cbn [forallb]; auto; rewrite IH; rewrite andb_true_r; destruct m as [el n r kids];
    rewrite xm_is_component_el in Hc; unfold xm_is_group in *; cbn [xm_el xm_name xm_members] in *;
    cbn [sp_member_closedb]; rewrite Hc.
  - rewrite Hf, Hg. reflexivity.
  - rewrite Hf, Hg. cbn. exact IHk.
  - rewrite Hf. reflexivity.
Qed.

Lemma sp_expand_wf : forall doc ms ts, sp_expand doc ms ts -> forall n, sp_comp_ref ms n -> sp_comp_wf doc n.
Proof.
  intros doc ms ts H.
  induction H as [| m f ms ts Hc Hg Hf Hr IH | m f ks ms ts Hc Hg Hf Hk IHk Hr IH | m c cs ms ts Hc Hf Hk IHk Hr IH];
    intros n R.
  - inversion R as [x m Hin _ | x m n' Hin _ _ _]; contradiction.
  - apply sp_comp_ref_cons_inv in R. destruct R as [[R _]|[[_ [R _]]|R]]; try congruence. auto.
  - apply sp_comp_ref_cons_inv in R. destruct R as [[R _]|[[_ [_ R]]|R]]; try congruence; auto.
  - apply sp_comp_ref_cons_inv in R. destruct R as [[_ ->]|[[R _]|R]]; try congruence; auto.
    constructor. intros c' n' Hf' R'. rewrite Hf in Hf'. injection Hf' as <-. auto.
Qed.

Lemma c19_message_ok_closed : forall doc xm md, c19_message_ok doc xm md ->
  forallb (sp_member_closedb doc) (xc_members xm) = true.
Proof. intros doc xm md [ts [rq [H _]]]. eapply sp_expand_closed; eauto. Qed.

Theorem dict_build_ok_closed_acyclic : forall doc d, uniquely_named doc -> dict_build doc = Ok d ->
  closed doc /\ acyclic doc.
Proof.
  intros doc d UN H. destruct (dict_build_sound doc d UN H) as [[HM [_ [HH [HT _]]]] [HC _]].
  split.
  - unfold closed, sp_closedb. apply forallb_forall. intros c Hc. unfold sp_all_parts in Hc.
    repeat rewrite in_app_iff in Hc. destruct Hc as [Hc|[Hc|[Hc|Hc]]].
    + destruct (HC c Hc) as [ts Hts]. eapply sp_expand_closed; eauto.
    + destruct (HM c Hc) as [md [_ Hok]]. eapply c19_message_ok_closed; eauto.
    + destruct (xd_header doc) as [xm|]; [|contradiction]. destruct Hc as [<-|[]].
      destruct (dd_header d) as [md|]; [|contradiction]. eapply c19_message_ok_closed; eauto.
    + destruct (xd_trailer doc) as [xm|]; [|contradiction]. destruct Hc as [<-|[]].
      destruct (dd_trailer d) as [md|]; [|contradiction]. eapply c19_message_ok_closed; eauto.
  - intros c Hc. constructor. intros c' n' Hf R.
    rewrite (dict_comp_find_self doc UN c Hc) in Hf. injection Hf as <-.
    destruct (HC c Hc) as [ts Hts]. eapply sp_expand_wf; eauto.
Qed.

(* ---- progress ---- *)
Definition sp_refers (doc : xdoc) (a b : bytes) : Prop :=
  exists c, sp_find_component doc a = Some c /\ sp_comp_ref (xc_members c) b.

Inductive sp_reaches (doc : xdoc) : bytes -> bytes -> Prop :=
| rch_refl : forall a, sp_reaches doc a a
| rch_step : forall a b c, sp_refers doc a b -> sp_reaches doc b c -> sp_reaches doc a c.

Lemma sp_reaches_snoc : forall doc a b c, sp_reaches doc a b -> sp_refers doc b c -> sp_reaches doc a c.
Proof.
  intros doc a b c H. induction H as [a|a x b Hax Hxb IH]; intro Hbc.
  - eapply rch_step; eauto. apply rch_refl.
  - eapply rch_step; eauto.
Qed.

Lemma sp_reaches_inv : forall doc a b, sp_reaches doc a b ->
  a = b \/ exists x, sp_refers doc a x /\ sp_reaches doc x b.
Proof. intros doc a b H. destruct H as [a|a x b Hax Hxb]; [left; reflexivity|right; eauto]. Qed.

Lemma sp_wf_no_cycle : forall doc a, sp_comp_wf doc a -> forall b, sp_reaches doc a b -> sp_refers doc b a -> False.
Proof.
  intros doc a H. induction H as [a Hwf IH]. intros b Hr Hb.
  apply sp_reaches_inv in Hr. destruct Hr as [<-|[x [Hax Hxb]]].
  - destruct Hb as [c [Hc Href]]. apply (IH c a Hc Href a); [apply rch_refl|exists c; auto].
  - destruct Hax as [c [Hc Href]]. apply (IH c x Hc Href a).
    + eapply sp_reaches_snoc; eauto.
    + exists c. auto.
Qed.

Lemma dict_bget_in_some : forall A (m : list (bytes * A)) k v, In (k, v) m -> dict_bget k m <> None.
Proof.
  intros A m k v. induction m as [|[k' v'] m IH]; cbn; intro H; [contradiction|].
  destruct (dict_beq k' k) eqn:E; [discriminate|].
  destruct H as [H|H]; [injection H as -> ->; rewrite dict_beq_refl in E; discriminate|auto].
Qed.

Section Progress.
  Variable doc : xdoc.
  Hypothesis UN : uniquely_named doc.
  Hypothesis CL : closed doc.
  Let bn := snd (dict_build_field_types doc).
  Let cmap := dict_component_by_name doc.

  (* the component named n may be entered below the components in `building` *)
  Definition dict_pc (building : list bytes) (n : bytes) : Prop :=
    sp_comp_wf doc n /\ forall b, In b building -> ~ sp_reaches doc n b.
  Definition dict_ppre (building : list bytes) (m : xmember) : Prop :=
    sp_member_closedb doc m = true /\ forall n, sp_comp_ref [m] n -> dict_pc building n.

  Lemma dict_part_closed : forall c, In c (sp_all_parts doc) -> forall m, In m (xc_members c) ->
    sp_member_closedb doc m = true.
  Proof.
    intros c Hc m Hm. unfold closed, sp_closedb in CL. rewrite forallb_forall in CL.
    specialize (CL c Hc). rewrite forallb_forall in CL. auto.
  Qed.

  Section PLevel.
    Variable st1 : dict_state.
    Variable building : list bytes.
    Variable fob : dict_state -> xmember -> res (dict_state * dict_component_type).
    Let PI := fun st : dict_state => incl st1 st.
    Hypothesis Hfob : forall st m, PI st -> dict_ppre building m -> xm_is_component m = true ->
      dict_hoare PI (fun _ : dict_component_type => True) False True (fob st m).

    Let Hkids : forall (el n r : bytes) (ms : list xmember), dict_ppre building (XM el n r ms) ->
      dict_beq el el_component = false -> dict_beq el el_group = true -> Forall (dict_ppre building) ms.
    Proof.
      intros el n r ms [Hcl Href] Hc Hg. apply Forall_forall. intros k Hk. split.
      - cbn [sp_member_closedb] in Hcl. rewrite Hc, Hg in Hcl. apply andb_true_iff in Hcl.
        destruct Hcl as [_ Hcl]. rewrite forallb_forall in Hcl. auto.
      - intros n' R. apply Href. eapply spc_group; [left; reflexivity| | |].
        + rewrite xm_is_component_el. exact Hc.
        + unfold xm_is_group. cbn. exact Hg.
        + cbn [xm_members]. eapply sp_comp_ref_incl; [|exact R]. intros x [<-|[]]. exact Hk.
    Qed.

    Let Hunknown : forall (el n r : bytes) (ms : list xmember), dict_ppre building (XM el n r ms) ->
      dict_beq el el_component = false -> dict_bget n bn = None -> False.
    Proof.
      intros el n r ms [Hcl _] Hc Hb. cbn [sp_member_closedb] in Hcl. rewrite Hc in Hcl.
      destruct (sp_find_field doc n) as [f|] eqn:Ef; [|discriminate].
      exact (dict_find_bn doc UN n f Ef Hb).
    Qed.

    Lemma dict_parts_progress : forall ms st, Forall (dict_ppre building) ms -> PI st ->
      dict_hoare PI (fun _ : list dict_part => True) False True (dict_st_map (dict_build_part bn fob) st ms).
    Proof.
      intros ms st HP Hst. eapply dict_hoare_weaken.
      - apply (dict_build_parts_hoare bn fob PI (dict_ppre building) (fun _ _ => True) (fun _ _ => True) False True
                 Hfob Hkids Hunknown); auto.
      - auto.
    Qed.

    Lemma dict_field_def_progress : forall m st, dict_ppre building m -> xm_is_component m = false -> PI st ->
      dict_hoare PI (fun _ : dict_field_def => True) False True (dict_build_field_def bn fob st m).
    Proof.
      intros m st HP Hc Hst.
      apply (dict_build_field_def_hoare bn fob PI (dict_ppre building) (fun _ _ => True) (fun _ _ => True) False True
               Hfob Hkids Hunknown); auto.
    Qed.
  End PLevel.

  Lemma dict_fob_progress : forall st1 building bct,
    (forall st xc, incl st1 st -> In xc (xd_components doc) -> dict_pc building (xc_name xc) ->
       dict_hoare (fun st' => incl st1 st') (fun _ : dict_component_type => True) False True (bct st xc)) ->
    forall st m, incl st1 st -> dict_ppre building m -> xm_is_component m = true ->
      dict_hoare (fun st' => incl st1 st') (fun _ : dict_component_type => True) False True
        (dict_find_or_build_with cmap bct st m).
  Proof.
    intros st1 building bct Hb st m Hst [Hcl Href] Hc. unfold dict_find_or_build_with.
    destruct (dict_bget (xm_name m) st) as [c|]; [cbn; auto|].
    destruct m as [el n r ms]. rewrite xm_is_component_el in Hc. cbn [sp_member_closedb] in Hcl.
    rewrite Hc in Hcl. cbn [xm_name] in *.
    destruct (sp_find_component doc n) as [xc|] eqn:Ef; [|discriminate].
    unfold cmap. rewrite (dict_find_cmap doc UN n xc Ef). fold cmap.
    pose proof (dict_find_some _ _ _ _ Ef) as [Hin Hn]. apply dict_beq_true in Hn.
    eapply dict_hoare_bind.
    - apply Hb; auto. rewrite Hn. apply Href. apply (spc_here [XM el n r ms] (XM el n r ms)); [left; reflexivity|].
      rewrite xm_is_component_el. exact Hc.
    - intros sc Hs _. cbn. split; auto. intros x Hx. right. apply Hs. exact Hx.
  Qed.

  Lemma dict_bct_progress : forall fuel building st1 st xc,
    incl st1 st -> In xc (xd_components doc) -> dict_pc building (xc_name xc) ->
    dict_hoare (fun st' => incl st1 st') (fun _ : dict_component_type => True) False True
      (dict_build_component_type bn cmap fuel building st xc).
  Proof.
    induction fuel as [|f IH]; intros building st1 st xc Hst Hin [Hwf Hnr]; [cbn; auto|].
    cbn [dict_build_component_type].
    destruct (dict_bmem (xc_name xc) building) eqn:Em.
    { apply dict_bmem_In in Em. exfalso. apply (Hnr _ Em). apply rch_refl. }
    pose proof (dict_comp_find_self doc UN xc Hin) as Hself.
    eapply dict_hoare_bind.
    - apply (dict_parts_progress st1 (xc_name xc :: building)); [| |exact Hst].
      + apply dict_fob_progress. intros st2 xc2 Hst2 Hin2 Hpc2. apply IH; auto.
      + apply Forall_forall. intros m Hm. split.
        * apply (dict_part_closed xc); auto. unfold sp_all_parts. apply in_or_app. left. exact Hin.
        * intros n R.
          assert (Rxc : sp_comp_ref (xc_members xc) n).
          { eapply sp_comp_ref_incl; [|exact R]. intros x [<-|[]]. exact Hm. }
          assert (Hrf : sp_refers doc (xc_name xc) n) by (exists xc; auto).
          assert (Hwn : sp_comp_wf doc n).
          { inversion Hwf as [a Ha]; subst. eapply Ha; eauto. }
          split; auto. intros b [<-|Hb] Hr.
          -- exact (sp_wf_no_cycle doc n Hwn _ Hr Hrf).
          -- apply (Hnr b Hb). eapply rch_step; eauto.
    - intros sp Hs _. cbn. auto.
  Qed.

  Hypothesis AC : acyclic doc.

  Lemma dict_pc_top : forall c, In c (xd_components doc) -> dict_pc [] (xc_name c).
  Proof. intros c Hc. split; [apply AC; exact Hc|]. intros b []. Qed.

  Lemma dict_build_components_progress : forall fuel cs st, incl cs (xd_components doc) ->
    forall e, dict_build_components bn cmap fuel cs st <> Err e.
  Proof.
    intros fuel. induction cs as [|c cs IH]; intros st Hi e; cbn [dict_build_components]; [discriminate|].
    assert (Hcs : incl cs (xd_components doc)) by (intros x Hx; apply Hi; right; exact Hx).
    destruct (dict_bget (xc_name c) st); [apply IH; auto|].
    pose proof (dict_bct_progress fuel [] st st c (incl_refl st) (Hi c (or_introl eq_refl))
                  (dict_pc_top c (Hi c (or_introl eq_refl)))) as HB.
    destruct (dict_build_component_type bn cmap fuel [] st c) as [sc|e'| |]; cbn [bind]; try discriminate.
    - apply IH; auto.
    - cbn in HB. contradiction.
  Qed.

  (* the message phase: st1 holds every component *)
  Variable st1 : dict_state.
  Hypothesis Hall : forall c, In c (xd_components doc) -> exists ct, In (xc_name c, ct) st1.

  Lemma dict_ppre_top : forall c, In c (sp_all_parts doc) -> forall m, In m (xc_members c) -> dict_ppre [] m.
  Proof.
    intros c Hc m Hm. pose proof (dict_part_closed c Hc m Hm) as Hcl. split; auto.
    (* every component referenced from a closed member is a component of the document, hence well-founded *)
    clear Hm Hc c. revert Hcl. induction m as [el n r ms IH] using xmember_ind'. intros Hcl n' R.
    apply sp_comp_ref_cons_inv in R. destruct R as [[Hc ->]|[[Hc [Hg R]]|R]].
    - rewrite xm_is_component_el in Hc. cbn [sp_member_closedb] in Hcl. rewrite Hc in Hcl. cbn [xm_name].
      destruct (sp_find_component doc n) as [xc|] eqn:Ef; [|discriminate].
      pose proof (dict_find_some _ _ _ _ Ef) as [Hin Hn]. apply dict_beq_true in Hn. subst n.
      apply dict_pc_top. exact Hin.
    - rewrite xm_is_component_el in Hc. unfold xm_is_group in Hg. cbn [xm_el xm_members] in *.
      cbn [sp_member_closedb] in Hcl. rewrite Hc, Hg in Hcl. apply andb_true_iff in Hcl. destruct Hcl as [_ Hcl].
      rewrite forallb_forall in Hcl. rewrite Forall_forall in IH.
      inversion R as [x k Hin Hkc | x k n2 Hin Hkc Hkg Rk]; subst.
      + apply (IH k Hin (Hcl k Hin)). apply spc_here; [left; reflexivity|exact Hkc].
      + apply (IH k Hin (Hcl k Hin)). eapply spc_group; [left; reflexivity| | |]; eauto.
    - inversion R as [x k Hin _ | x k n2 Hin _ _ _]; contradiction.
  Qed.

  Lemma dict_build_message_def_progress : forall fuel st xm, incl st1 st -> In xm (sp_all_parts doc) ->
    dict_hoare (fun st' => incl st1 st') (fun _ : dict_message_def => True) False True
      (dict_build_message_def bn cmap fuel st xm).
  Proof.
    intros fuel st xm Hst Hxm. unfold dict_build_message_def.
    eapply dict_hoare_bind.
    - apply (dict_st_map_hoare _ (fun st' => incl st1 st') (fun (m : xmember) (_ : dict_part) => True) False True);
        [|exact Hst].
      apply Forall_forall. intros m Hm s Hs. unfold dict_build_message_part.
      pose proof (dict_ppre_top xm Hxm m Hm) as HP.
      destruct (xm_is_component m) eqn:Ec.
      + destruct (dict_bget (xm_name m) s) as [comp|] eqn:Eg; [cbn; auto|]. exfalso.
        destruct HP as [Hcl _]. destruct m as [el n r ms]. rewrite xm_is_component_el in Ec.
        cbn [sp_member_closedb] in Hcl. rewrite Ec in Hcl. cbn [xm_name] in Eg.
        destruct (sp_find_component doc n) as [xc|] eqn:Ef; [|discriminate].
        pose proof (dict_find_some _ _ _ _ Ef) as [Hin Hn]. apply dict_beq_true in Hn. subst n.
        destruct (Hall xc Hin) as [ct Hct]. apply Hs in Hct. exact (dict_bget_in_some _ _ _ _ Hct Eg).
      + eapply dict_hoare_bind.
        * apply (dict_field_def_progress st1 []); auto.
          unfold dict_find_or_build_component_type. apply dict_fob_progress.
          intros st2 xc2 Hst2 Hin2 Hpc2. apply dict_bct_progress; auto.
        * intros sf Hs' _. cbn. auto.
    - intros sp Hs _. cbn. auto.
  Qed.

  Lemma dict_build_message_defs_progress : forall fuel ms st acc, incl st1 st -> incl ms (sp_all_parts doc) ->
    match dict_build_message_defs bn cmap fuel ms st acc with
    | Ok sa => incl st1 (fst sa)
    | Err _ => False
    | _ => True
    end.
  Proof.
    intros fuel. induction ms as [|m ms IH]; intros st acc Hst Hi; cbn [dict_build_message_defs]; auto.
    pose proof (dict_build_message_def_progress fuel st m Hst (Hi m (or_introl eq_refl))) as HM.
    destruct (dict_build_message_def bn cmap fuel st m) as [sm|e| |]; cbn [bind]; auto.
    cbn in HM. destruct HM as [HM _]. apply IH; auto. intros x Hx. apply Hi. right. exact Hx.
  Qed.

  Lemma dict_build_opt_message_def_progress : forall fuel st o, incl st1 st -> incl (sp_opt_list o) (sp_all_parts doc) ->
    match dict_build_opt_message_def bn cmap fuel st o with
    | Ok so => incl st1 (fst so)
    | Err _ => False
    | _ => True
    end.
  Proof.
    intros fuel st [xm|] Hst Hi; cbn [dict_build_opt_message_def]; auto.
    pose proof (dict_build_message_def_progress fuel st xm Hst (Hi xm (or_introl eq_refl))) as HM.
    destruct (dict_build_message_def bn cmap fuel st xm) as [sm|e| |]; cbn [bind]; auto.
    cbn in HM. destruct HM as [HM _]. cbn. exact HM.
  Qed.
End Progress.

Theorem dict_build_no_err : forall doc, uniquely_named doc -> sp_header_ok doc -> closed doc -> acyclic doc ->
  forall e, dict_build doc <> Err e.
Proof.
  intros doc UN [Hty [Hmj Hmn]] CL AC e. unfold dict_build.
  assert (Ety : dict_beq (xd_type doc) dict_FIX || dict_beq (xd_type doc) dict_FIXT = true).
  { destruct Hty as [->| ->]; [rewrite dict_beq_refl; reflexivity|].
    rewrite (dict_beq_refl dict_FIXT). apply orb_true_r. }
  rewrite Ety. cbn [negb].
  destruct (dict_atoi (xd_major doc)) as [mj|]; [|congruence].
  destruct (dict_atoi (xd_minor doc)) as [mn|]; [|congruence].
  cbv zeta.
  pose proof (dict_build_components_progress doc UN CL AC (dict_fuel doc) (xd_components doc) [] (incl_refl _)) as PC.
  pose proof (dict_build_components_sound doc UN (dict_fuel doc) (xd_components doc) []) as SC.
  destruct (dict_build_components _ _ _ (xd_components doc) []) as [st1|e1| |]; cbn [bind]; try discriminate.
  2:{ exfalso. exact (PC e1 eq_refl). }
  destruct SC as [Ht1 [_ Hall]]; [intros n ct []|apply incl_refl|].
  pose proof (dict_build_message_defs_progress doc UN CL AC st1 Hall (dict_fuel doc) (xd_messages doc) st1 []
                (incl_refl _)) as PM.
  destruct (dict_build_message_defs _ _ _ (xd_messages doc) st1 []) as [sm|e2| |]; cbn [bind]; try discriminate.
  2:{ exfalso. apply PM. unfold sp_all_parts. intros x Hx. apply in_or_app. right. apply in_or_app. left. exact Hx. }
  assert (Hsm : incl st1 (fst sm)).
  { apply PM. unfold sp_all_parts. intros x Hx. apply in_or_app. right. apply in_or_app. left. exact Hx. }
  pose proof (dict_build_opt_message_def_progress doc UN CL AC st1 Hall (dict_fuel doc) (fst sm) (xd_header doc) Hsm) as PH.
  destruct (dict_build_opt_message_def _ _ _ (fst sm) (xd_header doc)) as [sh|e3| |]; cbn [bind]; try discriminate.
  2:{ exfalso. apply PH. unfold sp_all_parts. intros x Hx. apply in_or_app. right. apply in_or_app. right.
      apply in_or_app. left. exact Hx. }
  assert (Hsh : incl st1 (fst sh)).
  { apply PH. unfold sp_all_parts. intros x Hx. apply in_or_app. right. apply in_or_app. right.
    apply in_or_app. left. exact Hx. }
  pose proof (dict_build_opt_message_def_progress doc UN CL AC st1 Hall (dict_fuel doc) (fst sh) (xd_trailer doc) Hsh) as PT.
  destruct (dict_build_opt_message_def _ _ _ (fst sh) (xd_trailer doc)) as [stl|e4| |]; cbn [bind]; try discriminate.
  exfalso. apply PT. unfold sp_all_parts. intros x Hx. apply in_or_app. right. apply in_or_app. right.
  apply in_or_app. right. exact Hx.
Qed.

(* ---- the C19 theorems ---- *)
Theorem dict_build_correct : forall doc, uniquely_named doc -> sp_header_ok doc -> acyclic doc -> closed doc ->
  exists d, dict_build doc = Ok d /\ c19_dict_ok doc d.
Proof.
  intros doc UN HH AC CL. destruct (dict_build doc) as [d|e| |] eqn:E.
  - exists d. split; auto. apply (dict_build_sound doc d UN E).
  - exfalso. exact (dict_build_no_err doc UN HH CL AC e E).
  - exfalso. destruct (dict_build_total doc) as [H _]. congruence.
  - exfalso. destruct (dict_build_total doc) as [_ H]. congruence.
Qed.

Theorem dict_build_sound_only : forall doc d, uniquely_named doc -> dict_build doc = Ok d -> c19_dict_ok doc d.
Proof. intros doc d UN H. apply (dict_build_sound doc d UN H). Qed.

Theorem dict_build_dangling : forall doc, uniquely_named doc -> ~ closed doc -> exists e, dict_build doc = Err e.
Proof.
  intros doc UN NC. destruct (dict_build doc) as [d|e| |] eqn:E.
  - exfalso. apply NC. apply (dict_build_ok_closed_acyclic doc d UN E).
  - eauto.
  - exfalso. destruct (dict_build_total doc) as [H _]. congruence.
  - exfalso. destruct (dict_build_total doc) as [_ H]. congruence.
Qed.

Theorem dict_build_cyclic : forall doc, uniquely_named doc -> ~ acyclic doc -> exists e, dict_build doc = Err e.
Proof.
  intros doc UN NC. destruct (dict_build doc) as [d|e| |] eqn:E.
  - exfalso. apply NC. apply (dict_build_ok_closed_acyclic doc d UN E).
  - eauto.
  - exfalso. destruct (dict_build_total doc) as [H _]. congruence.
  - exfalso. destruct (dict_build_total doc) as [_ H]. congruence.
Qed.
