(* C19 specification, written from the property text as a direct walk of the XML tree -- no component
   table, no builder state.  Relations (no fuel); executable counterparts are in SpecExec.v. *)
From Coq Require Import ZArith List Bool String.
From QF Require Import Base.Res Base.Bytes Dict.Xml Dict.Build.
Import ListNotations.
Open Scope Z_scope.

(* the declaration of a field / component, by name *)
Definition sp_find_field (doc : xdoc) (n : bytes) : option xfield :=
  find (fun f => dict_beq (xf_name f) n) (xd_fields doc).
Definition sp_find_component (doc : xdoc) (n : bytes) : option xcomponent :=
  find (fun c => dict_beq (xc_name c) n) (xd_components doc).

(* a message (header, trailer, group) with every component expanded in place:
   tag, the `required` attribute of the declaration, members of a group *)
Inductive sp_tree : Type := SPT (tag : Z) (req : bool) (kids : list sp_tree).
Definition sp_tag (t : sp_tree) : Z := match t with SPT g _ _ => g end.
Definition sp_req (t : sp_tree) : bool := match t with SPT _ r _ => r end.
Definition sp_kids (t : sp_tree) : list sp_tree := match t with SPT _ _ k => k end.
Fixpoint sp_all_tags (t : sp_tree) : list Z :=
  match t with SPT g _ kids => g :: flat_map sp_all_tags kids end.

(* "the fields reachable through its fields, components and groups", "each group's members in
   declaration order with components expanded in place" *)
Inductive sp_expand (doc : xdoc) : list xmember -> list sp_tree -> Prop :=
| spe_nil : sp_expand doc [] []
| spe_field : forall m f ms ts,
    xm_is_component m = false -> xm_is_group m = false ->
    sp_find_field doc (xm_name m) = Some f ->
    sp_expand doc ms ts ->
    sp_expand doc (m :: ms) (SPT (xf_number f) (xm_is_required m) [] :: ts)
| spe_group : forall m f ks ms ts,
    xm_is_component m = false -> xm_is_group m = true ->
    sp_find_field doc (xm_name m) = Some f ->
    sp_expand doc (xm_members m) ks ->
    sp_expand doc ms ts ->
    sp_expand doc (m :: ms) (SPT (xf_number f) (xm_is_required m) ks :: ts)
| spe_component : forall m c cs ms ts,
    xm_is_component m = true ->
    sp_find_component doc (xm_name m) = Some c ->
    sp_expand doc (xc_members c) cs ->
    sp_expand doc ms ts ->
    sp_expand doc (m :: ms) (cs ++ ts).

(* "the directly required fields plus, recursively, the required fields of required components" *)
Inductive sp_required (doc : xdoc) : list xmember -> list Z -> Prop :=
| spr_nil : sp_required doc [] []
| spr_field_req : forall m f ms rq,
    xm_is_component m = false -> xm_is_required m = true ->
    sp_find_field doc (xm_name m) = Some f ->
    sp_required doc ms rq ->
    sp_required doc (m :: ms) (xf_number f :: rq)
| spr_field_opt : forall m ms rq,
    xm_is_component m = false -> xm_is_required m = false ->
    sp_required doc ms rq ->
    sp_required doc (m :: ms) rq
| spr_comp_req : forall m c rc ms rq,
    xm_is_component m = true -> xm_is_required m = true ->
    sp_find_component doc (xm_name m) = Some c ->
    sp_required doc (xc_members c) rc ->
    sp_required doc ms rq ->
    sp_required doc (m :: ms) (rc ++ rq)
| spr_comp_opt : forall m ms rq,
    xm_is_component m = true -> xm_is_required m = false ->
    sp_required doc ms rq ->
    sp_required doc (m :: ms) rq.

(* every name used where the loader reads it (members of header, trailer, messages, components and,
   recursively, of groups) is declared *)
Fixpoint sp_member_closedb (doc : xdoc) (m : xmember) : bool :=
  match m with
  | XM el n r ms =>
      if dict_beq el el_component then
        match sp_find_component doc n with Some _ => true | None => false end
      else
        match sp_find_field doc n with Some _ => true | None => false end
        && (if dict_beq el el_group then forallb (sp_member_closedb doc) ms else true)
  end.
Definition sp_opt_list {A} (o : option A) : list A := match o with Some a => [a] | None => [] end.
Definition sp_all_parts (doc : xdoc) : list xcomponent :=
  xd_components doc ++ xd_messages doc ++ sp_opt_list (xd_header doc) ++ sp_opt_list (xd_trailer doc).
Definition sp_closedb (doc : xdoc) : bool :=
  forallb (fun c => forallb (sp_member_closedb doc) (xc_members c)) (sp_all_parts doc).
Definition closed (doc : xdoc) : Prop := sp_closedb doc = true.

(* component references of a member list, through groups *)
Inductive sp_comp_ref : list xmember -> bytes -> Prop :=
| spc_here : forall ms m, In m ms -> xm_is_component m = true -> sp_comp_ref ms (xm_name m)
| spc_group : forall ms m n, In m ms -> xm_is_component m = false -> xm_is_group m = true ->
    sp_comp_ref (xm_members m) n -> sp_comp_ref ms n.

(* the expansion of component n is finite: no component reaches itself *)
Inductive sp_comp_wf (doc : xdoc) : bytes -> Prop :=
| spw : forall n,
    (forall c n', sp_find_component doc n = Some c -> sp_comp_ref (xc_members c) n' -> sp_comp_wf doc n') ->
    sp_comp_wf doc n.
Definition acyclic (doc : xdoc) : Prop :=
  forall c, In c (xd_components doc) -> sp_comp_wf doc (xc_name c).

(* names identify: no two fields with one name or number, no two components with one name, no two
   messages with one MsgType.  (With duplicates the loader lets the last field / a reference-order
   dependent component win; the model follows it, the specification does not speak about it.) *)
Definition uniquely_named (doc : xdoc) : Prop :=
  NoDup (map xf_name (xd_fields doc)) /\ NoDup (map xf_number (xd_fields doc)) /\
  NoDup (map xc_name (xd_components doc)) /\ NoDup (map xc_msgtype (xd_messages doc)).

(* the document header is acceptable to builder.build *)
Definition sp_header_ok (doc : xdoc) : Prop :=
  (xd_type doc = dict_FIX \/ xd_type doc = dict_FIXT) /\
  dict_atoi (xd_major doc) <> None /\ dict_atoi (xd_minor doc) <> None.

(* ---- what the loaded dictionary must say ---- *)
Fixpoint dict_shape (f : dict_field_def) : sp_tree :=
  match f with DFD ft r fs => SPT (dft_tag ft) r (map dict_shape fs) end.

Definition set_eq {A} (a b : list A) : Prop := forall x, In x a <-> In x b.

Definition c19_message_ok (doc : xdoc) (xm : xcomponent) (md : dict_message_def) : Prop :=
  exists ts rq,
    sp_expand doc (xc_members xm) ts /\ sp_required doc (xc_members xm) rq /\
    set_eq (map fst (dmd_fields md)) (map sp_tag ts) /\          (* Fields: the top level *)
    set_eq (dmd_tags md) (flat_map sp_all_tags ts) /\            (* Tags: everything reachable *)
    set_eq (dmd_required_tags md) rq /\                          (* RequiredTags *)
    (forall t fd, dict_zget t (dmd_fields md) = Some fd ->       (* groups, recursively, in order *)
       dfd_tag fd = t /\ In (dict_shape fd) ts).

Definition c19_opt_message_ok (doc : xdoc) (ox : option xcomponent) (om : option dict_message_def) : Prop :=
  match ox, om with
  | None, None => True
  | Some xm, Some md => c19_message_ok doc xm md
  | _, _ => False
  end.

(* a loaded field type says what the declaration says (the enumeration is a set) *)
Definition c19_field_type_ok (f : xfield) (ft : dict_field_type) : Prop :=
  dft_name ft = xf_name f /\ dft_tag ft = xf_number f /\ dft_type ft = xf_type f /\
  set_eq (dft_enums ft) (xf_values f).

Definition c19_types_ok (doc : xdoc) (d : dict) : Prop :=
  (forall f, In f (xd_fields doc) ->
     exists ft, dict_zget (xf_number f) (dd_field_type_by_tag d) = Some ft /\ c19_field_type_ok f ft) /\
  (forall t ft, dict_zget t (dd_field_type_by_tag d) = Some ft ->
     exists f, In f (xd_fields doc) /\ xf_number f = t /\ c19_field_type_ok f ft).

Definition c19_dict_ok (doc : xdoc) (d : dict) : Prop :=
  (forall xm, In xm (xd_messages doc) ->
     exists md, dict_bget (xc_msgtype xm) (dd_messages d) = Some md /\ c19_message_ok doc xm md) /\
  (forall mt md, dict_bget mt (dd_messages d) = Some md -> exists xm, In xm (xd_messages doc) /\ xc_msgtype xm = mt) /\
  c19_opt_message_ok doc (xd_header doc) (dd_header d) /\
  c19_opt_message_ok doc (xd_trailer doc) (dd_trailer d) /\
  c19_types_ok doc d.
