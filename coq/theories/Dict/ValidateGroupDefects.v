(* C15: the defect theorems for repeating groups.  For every dictionary whose groups list each member once
   (dfd_wfb, the hypothesis of the acceptance theorem) and every field stack:
   (a) a required member missing from an entry (first, middle or last; the entries before it conform, whatever
       follows) is rejected by validateVisitGroupField with RequiredTagMissing naming that member;
   (b) a NumInGroup value that differs from the number of entries present is rejected with
       IncorrectNumInGroupCount naming the NumInGroup tag;
   (c) members out of template order / an entry that does not begin with the delimiter: corollaries of (a) and (b)
       (see the theorems at the end);
   the same for a defect in a group nested to any depth inside conforming entries (c15_group_defect, gd_nested).
   The walk of validateWalk over a prefix of conforming top-level items -- plain fields and whole group
   instances -- (c15_items_pre) carries the verdict up to `validate`. *)
From Coq Require Import ZArith List Bool Lia.
From QF Require Import Base.Res Base.Bytes Codec.FixInt Dict.Xml Dict.Build Dict.Spec Dict.SpecExec Dict.Validate
  Dict.ValidateSpec Dict.SpecProofs Dict.BuildSound Dict.ValidateProofs Dict.ValidateGroups.
Import ListNotations.
Open Scope Z_scope.

(* ---- specification side: prefixes ---- *)

(* k whole entries taken from the head of st (each begins with the delimiter ftag and lists the members); what is left.
   Unlike c15_entries_of nothing is said about what follows the k-th entry. *)
Definition c15_entries_pre (members : list v_tv -> option (list v_tv)) (ftag : Z)
  : nat -> list v_tv -> option (list v_tv) :=
  fix pre (k : nat) (st : list v_tv) {struct k} : option (list v_tv) :=
    match k with
    | O => Some st
    | S k' =>
        match st with
        | (t, _) :: _ =>
            if t =? ftag then
              match members st with
              | Some st' => pre k' st'
              | None => None
              end
            else None
        | [] => None
        end
    end.

(* k conforming top-level items (a plain field, a tolerated unknown field, or a whole group instance) taken from the
   head of fields; what is left and the tags passed over.  c15_items without the requirement to reach the end. *)
Fixpoint c15_items_pre (k : nat) (s : v_settings) (tdd : dict) (md : dict_message_def)
    (fields : list v_tv) (seen : list Z) : option (list v_tv * list Z) :=
  match k with
  | O => Some (fields, seen)
  | S k' =>
      match fields with
      | [] => None
      | (t, _) :: rest =>
          if v_zmem t seen then None else
          match c15_def_of tdd md t with
          | None => None
          | Some sd =>
              match dict_zget t (dmd_fields sd) with
              | None => if c15_tolerated s t then c15_items_pre k' s tdd md rest (t :: seen) else None
              | Some fd =>
                  match c15_member fd fields with
                  | Some rest' => c15_items_pre k' s tdd md rest' (t :: seen)
                  | None => None
                  end
              end
          end
      end
  end.

(* A single defect in the instance of group g at the head of the stack, and the reject that names it.
   The stack begins with the NumInGroup field (num_tag, value); first :: fs are the members of g, first the delimiter. *)
Inductive c15_group_defect : dict_field_def -> list v_tv -> v_reject -> Prop :=
| gd_member_missing :
    (* j conforming entries; entry j+1 begins with the delimiter and lists the members ms1 of the template; the next
       member of the template, mem, is required, and the field that follows has another tag *)
    forall g first fs num_tag value n rest j v1 st1 ms1 mem ms2 t v st2,
    dfd_fields g = first :: fs ->
    fix_int_read value = Ok n ->
    c15_entries_pre (c15_members_of c15_member (first :: fs)) (dfd_tag first) j rest = Some ((dfd_tag first, v1) :: st1) ->
    first :: fs = ms1 ++ mem :: ms2 ->
    c15_members_of c15_member ms1 ((dfd_tag first, v1) :: st1) = Some ((t, v) :: st2) ->
    dfd_required mem = true -> t <> dfd_tag mem ->
    c15_group_defect g ((num_tag, value) :: rest) (v_required_tag_missing (dfd_tag mem))
| gd_count :
    (* exactly k conforming entries are present (what follows does not begin with the delimiter); the count says n <> k *)
    forall g first fs num_tag value n rest k rest',
    dfd_fields g = first :: fs ->
    fix_int_read value = Ok n ->
    c15_entries_of (c15_members_of c15_member (first :: fs)) (dfd_tag first) k rest = Some rest' ->
    n <> Z.of_nat k ->
    c15_group_defect g ((num_tag, value) :: rest) (v_incorrect_num_in_group_count num_tag)
| gd_nested :
    (* j conforming entries; in entry j+1, after the members ms1, the instance of the nested group mem has a defect *)
    forall g first fs num_tag value n rest j v1 st1 ms1 mem ms2 v2 st2 e,
    dfd_fields g = first :: fs ->
    fix_int_read value = Ok n ->
    c15_entries_pre (c15_members_of c15_member (first :: fs)) (dfd_tag first) j rest = Some ((dfd_tag first, v1) :: st1) ->
    first :: fs = ms1 ++ mem :: ms2 ->
    c15_members_of c15_member ms1 ((dfd_tag first, v1) :: st1) = Some ((dfd_tag mem, v2) :: st2) ->
    c15_group_defect mem ((dfd_tag mem, v2) :: st2) e ->
    c15_group_defect g ((num_tag, value) :: rest) e.

(* ---- small facts ---- *)
Lemma v_find_app_none {A} (p : A -> bool) (l1 l2 : list A) : find p l1 = None -> find p (l1 ++ l2) = find p l2.
Proof.
  induction l1 as [|a l1 IH]; intro H; [reflexivity|]. cbn [find app] in *.
  destruct (p a); [discriminate|]. apply IH. exact H.
Qed.

Lemma c15_members_nil : forall ms r, c15_members_of c15_member ms [] = Some r -> r = [].
Proof.
  intros ms r H.
  pose proof (c15_members_length c15_member ms
                (fun m st r0 _ H0 => proj1 (c15_member_length m st r0 H0)) _ _ H) as L.
  destruct r; [reflexivity|cbn in L; lia].
Qed.

Lemma c15_members_of_cons : forall cd cds t v st,
  c15_members_of c15_member (cd :: cds) ((t, v) :: st) =
  if t =? dfd_tag cd
  then match c15_member cd ((t, v) :: st) with
       | Some st2 => c15_members_of c15_member cds st2
       | None => None
       end
  else if dfd_required cd then None else c15_members_of c15_member cds ((t, v) :: st).
Proof. reflexivity. Qed.

Lemma v_plain_member : forall cd st st1, dfd_is_group cd = false -> c15_member cd st = Some st1 -> st1 = tl st.
Proof.
  intros [ft r fs] st st1 Hg H. unfold dfd_is_group in Hg. cbn in Hg. destruct fs; [|discriminate].
  rewrite c15_member_plain_unfold in H. injection H as <-. reflexivity.
Qed.

Section Defect.
  Variable w : nat.      (* bound on the number of members of any group *)

  Ltac fuel_tac :=
    unfold v_tv, bytes in *; cbn [length] in *; repeat rewrite app_length in *; cbn [length] in *;
    try match goal with
        | H : (length ?a < S (length ?b))%nat |- _ => pose proof (v_fuel_mono _ _ (w + 2)%nat H)
        end;
    lia.

  (* where the defect shows: the loop stands in an entry at the member mem of the template with st2 on the stack *)
  Definition c15_final (mem : dict_field_def) (st2 : list v_tv) (e : v_reject) : Prop :=
    match st2 with
    | [] => False
    | (t, _) :: _ =>
        (dfd_required mem = true /\ t <> dfd_tag mem /\ e = v_required_tag_missing (dfd_tag mem)) \/
        (t = dfd_tag mem /\ dfd_is_group mem = true /\
         forall fuel, (length st2 * (w + 2) < fuel)%nat -> v_visit_group_field fuel mem st2 = Ok (inl e))
    end.

  Section Group.
    Variables (g : dict_field_def) (ft : dict_field_type) (rq : bool) (first : dict_field_def) (fs : list dict_field_def).
    Hypothesis Hg : g = DFD ft rq (first :: fs).
    Hypothesis Hnd : NoDup (map dfd_tag (first :: fs)).
    Hypothesis Hw : (length (first :: fs) <= w)%nat.
    Hypothesis Hnest : forall m, In m (first :: fs) -> dfd_is_group m = true ->
       forall fuel st rest, c15_member m st = Some rest -> (length st * (w + 2) < fuel)%nat ->
       v_visit_group_field fuel m st = Ok (inr rest).

    (* a conforming member at the head of the stack is passed over *)
    Lemma v_member_visit : forall cd f st st1, In cd (first :: fs) ->
      c15_member cd st = Some st1 -> (length st * (w + 2) < f)%nat ->
      (if dfd_is_group cd then v_visit_group_field f cd st else Ok (inr (tl st))) = Ok (inr st1).
    Proof.
      intros cd f st st1 Hin E1 Hf. destruct (dfd_is_group cd) eqn:Eg.
      - apply Hnest; auto.
      - rewrite (v_plain_member cd st st1 Eg E1). reflexivity.
    Qed.

    (* inside an entry: the members ms1 conform, the defect is at mem *)
    Lemma v_group_loop_entry_defect : forall fuel st ms1 mem ms2 cnt st2 e,
      incl (ms1 ++ mem :: ms2) (first :: fs) -> ~ In (dfd_tag first) (map dfd_tag (ms1 ++ mem :: ms2)) ->
      c15_members_of c15_member ms1 st = Some st2 -> c15_final mem st2 e ->
      (length st * (w + 2) + length (ms1 ++ mem :: ms2) + 1 < fuel)%nat ->
      v_group_loop fuel g st (ms1 ++ mem :: ms2) cnt = Ok (inl e).
    Proof.
      induction fuel as [|f IH]; intros st ms1 mem ms2 cnt st2 e Hincl Hnf Hs Hfin Hfuel; [lia|].
      destruct st as [|[t v] st'].
      { apply c15_members_nil in Hs. subst st2. contradiction. }
      cbn [v_group_loop]. rewrite Hg. cbn [dfd_fields]. rewrite <- Hg.
      destruct (t =? dfd_tag first) eqn:Et.
      - (* the delimiter again: the entry ends here with mem outstanding *)
        apply Z.eqb_eq in Et. subst t.
        destruct (c15_members_skip_all c15_member ms1 (dfd_tag first) v st' st2) as [-> Hfind]; auto.
        { intros m Hm Hc. apply Hnf. rewrite <- Hc. apply in_map. apply in_or_app. left. exact Hm. }
        cbn [c15_final] in Hfin. destruct Hfin as [[Hr [_ ->]]|[Ht _]].
        + rewrite (v_find_app_none _ _ _ Hfind). cbn [find]. rewrite Hr. reflexivity.
        + exfalso. apply Hnf. rewrite Ht. apply in_map. apply in_or_app. right. left. reflexivity.
      - destruct ms1 as [|cd ms1'].
        + (* at mem *)
          cbn [c15_members_of] in Hs. injection Hs as <-. cbn [app].
          cbn [c15_final] in Hfin. destruct Hfin as [[Hr [Hne ->]]|[Ht [Hgr Hv]]].
          * apply Z.eqb_neq in Hne. rewrite Hne. rewrite Hr. reflexivity.
          * subst t. rewrite Z.eqb_refl. rewrite Hgr. rewrite Hv; [reflexivity|]. cbn [app] in Hfuel. fuel_tac.
        + cbn [app] in *. rewrite c15_members_of_cons in Hs.
          assert (Hincl' : incl (ms1' ++ mem :: ms2) (first :: fs)) by (intros x Hx; apply Hincl; right; exact Hx).
          assert (Hnf' : ~ In (dfd_tag first) (map dfd_tag (ms1' ++ mem :: ms2))) by (intro Hc; apply Hnf; right; exact Hc).
          destruct (t =? dfd_tag cd) eqn:Ec.
          * destruct (c15_member cd ((t, v) :: st')) as [st1|] eqn:E1; [|discriminate].
            assert (L1 : (length st1 < length ((t, v) :: st'))%nat)
              by (apply (c15_member_length cd _ _ E1); discriminate).
            apply (res_bind_ok _ _ (inr st1)).
            { apply v_member_visit; auto; [apply Hincl; left; reflexivity|]. fuel_tac. }
            cbv beta iota. eapply IH; eauto. fuel_tac.
          * destruct (dfd_required cd) eqn:Er; [discriminate|].
            eapply IH; eauto. fuel_tac.
    Qed.

    (* from any state of the loop: the rest of the current entry conforms, then j whole entries, then the entry
       with the defect *)
    Lemma v_group_loop_defect : forall fuel st cds cnt j st0 v1 st1 ms1 mem ms2 st2 e,
      incl cds (first :: fs) -> ~ In (dfd_tag first) (map dfd_tag cds) ->
      c15_members_of c15_member cds st = Some st0 ->
      c15_entries_pre (c15_members_of c15_member (first :: fs)) (dfd_tag first) j st0 = Some ((dfd_tag first, v1) :: st1) ->
      first :: fs = ms1 ++ mem :: ms2 ->
      c15_members_of c15_member ms1 ((dfd_tag first, v1) :: st1) = Some st2 ->
      c15_final mem st2 e ->
      (length st * (w + 2) + length cds + 1 < fuel)%nat ->
      v_group_loop fuel g st cds cnt = Ok (inl e).
    Proof.
      assert (Hfs_incl : incl fs (first :: fs)) by (intros x Hx; right; exact Hx).
      assert (Hfs_nf : ~ In (dfd_tag first) (map dfd_tag fs)) by (inversion Hnd; assumption).
      induction fuel as [|f IH]; intros st cds cnt j st0 v1 st1 ms1 mem ms2 st2 e Hincl Hnf Hs Hpre Hsplit Hms Hfin Hfuel; [lia|].
      destruct st as [|[t v] st'].
      { apply c15_members_nil in Hs. subst st0. destruct j; cbn in Hpre; discriminate. }
      cbn [v_group_loop]. rewrite Hg. cbn [dfd_fields]. rewrite <- Hg.
      destruct (t =? dfd_tag first) eqn:Et.
      - (* the delimiter: a new entry begins *)
        apply Z.eqb_eq in Et. subst t.
        destruct (c15_members_skip_all c15_member cds (dfd_tag first) v st' st0) as [-> Hfind]; auto.
        { intros m Hm Hc. apply Hnf. rewrite <- Hc. apply in_map. exact Hm. }
        rewrite Hfind. rewrite Z.eqb_refl.
        destruct j as [|j].
        + (* this is the entry with the defect *)
          cbn [c15_entries_pre] in Hpre. injection Hpre as <- <-.
          destruct ms1 as [|m0 ms1'].
          * cbn [app] in Hsplit. injection Hsplit as <- <-.
            cbn [c15_members_of] in Hms. injection Hms as <-.
            cbn [c15_final] in Hfin. destruct Hfin as [[_ [Hne _]]|[_ [Hgr Hv]]]; [congruence|].
            rewrite Hgr. rewrite Hv; [reflexivity|]. fuel_tac.
          * cbn [app] in Hsplit. injection Hsplit as <- Hfs_eq.
            rewrite c15_members_of_cons in Hms. rewrite Z.eqb_refl in Hms.
            destruct (c15_member first ((dfd_tag first, v) :: st')) as [sta|] eqn:E1; [|discriminate].
            assert (L1 : (length sta < length ((dfd_tag first, v) :: st'))%nat)
              by (apply (c15_member_length first _ _ E1); discriminate).
            apply (res_bind_ok _ _ (inr sta)).
            { apply v_member_visit; auto; [left; reflexivity|]. fuel_tac. }
            cbv beta iota.
            assert (Hi2 : incl (ms1' ++ mem :: ms2) (first :: fs)) by (rewrite <- Hfs_eq; exact Hfs_incl).
            assert (Hn2 : ~ In (dfd_tag first) (map dfd_tag (ms1' ++ mem :: ms2))) by (rewrite <- Hfs_eq; exact Hfs_nf).
            assert (Hl : length fs = length (ms1' ++ mem :: ms2)) by (rewrite <- Hfs_eq; reflexivity).
            rewrite Hfs_eq.
            eapply v_group_loop_entry_defect; eauto.
            rewrite <- Hl. fuel_tac.
        + (* a conforming entry *)
          cbn [c15_entries_pre] in Hpre. rewrite Z.eqb_refl in Hpre.
          rewrite c15_members_of_cons in Hpre. rewrite Z.eqb_refl in Hpre.
          destruct (c15_member first ((dfd_tag first, v) :: st')) as [sta|] eqn:E1; [|discriminate].
          destruct (c15_members_of c15_member fs sta) as [stb|] eqn:E2; [|discriminate].
          assert (L1 : (length sta < length ((dfd_tag first, v) :: st'))%nat)
            by (apply (c15_member_length first _ _ E1); discriminate).
          apply (res_bind_ok _ _ (inr sta)).
          { apply v_member_visit; auto; [left; reflexivity|]. fuel_tac. }
          cbv beta iota. eapply (IH sta fs (cnt + 1) j stb); eauto. fuel_tac.
      - (* not the delimiter *)
        apply Z.eqb_neq in Et.
        destruct cds as [|cd cds'].
        + cbn [c15_members_of] in Hs. injection Hs as <-.
          destruct j; cbn [c15_entries_pre] in Hpre.
          * injection Hpre as Ht _. congruence.
          * apply Z.eqb_neq in Et. rewrite Et in Hpre. discriminate.
        + rewrite c15_members_of_cons in Hs.
          assert (Hincl' : incl cds' (first :: fs)) by (intros x Hx; apply Hincl; right; exact Hx).
          assert (Hnf' : ~ In (dfd_tag first) (map dfd_tag cds')) by (intro Hc; apply Hnf; right; exact Hc).
          destruct (t =? dfd_tag cd) eqn:Ec.
          * destruct (c15_member cd ((t, v) :: st')) as [sta|] eqn:E1; [|discriminate].
            assert (L1 : (length sta < length ((t, v) :: st'))%nat)
              by (apply (c15_member_length cd _ _ E1); discriminate).
            apply (res_bind_ok _ _ (inr sta)).
            { apply v_member_visit; auto; [apply Hincl; left; reflexivity|]. fuel_tac. }
            cbv beta iota. eapply (IH sta cds' cnt j st0); eauto. fuel_tac.
          * destruct (dfd_required cd) eqn:Er; [discriminate|].
            eapply (IH _ cds' cnt j st0); eauto. fuel_tac.
    Qed.
  End Group.

  (* validateVisitGroupField rejects an instance with a defect, naming it *)
  Theorem v_visit_group_defect : forall g st e, c15_group_defect g st e ->
    dfd_wfb g = true -> dfd_width_okb w g = true ->
    forall fuel, (length st * (w + 2) < fuel)%nat -> v_visit_group_field fuel g st = Ok (inl e).
  Proof.
    intros g st e D. induction D as
      [g first fs num_tag value n rest j v1 st1 ms1 mem ms2 t v st2 Hfs Hn Hpre Hsplit Hms Hr Hne
      |g first fs num_tag value n rest k rest' Hfs Hn Hent Hne
      |g first fs num_tag value n rest j v1 st1 ms1 mem ms2 v2 st2 e Hfs Hn Hpre Hsplit Hms D IH];
      intros Hwf Hwd fuel Hfuel;
      destruct g as [ft rq fs0]; cbn [dfd_fields] in Hfs; subst fs0;
      destruct (dfd_wfb_inv _ _ _ Hwf) as [Hnd Hwf'];
      destruct (dfd_width_okb_inv _ _ _ _ Hwd) as [Hlen Hwd'];
      (assert (Hnest : forall m, In m (first :: fs) -> dfd_is_group m = true ->
         forall fuel st rest, c15_member m st = Some rest -> (length st * (w + 2) < fuel)%nat ->
         v_visit_group_field fuel m st = Ok (inr rest))
        by (intros m Hm Hmg fuel0 st0 rest0 H0 Hf0; apply (v_visit_group_field_sim w); auto));
      (destruct fuel as [|f]; [lia|]); cbn [v_visit_group_field]; rewrite Hn.
    - assert (Hloop : v_group_loop f (DFD ft rq (first :: fs)) rest [] 0 = Ok (inl (v_required_tag_missing (dfd_tag mem)))).
      { eapply (v_group_loop_defect (DFD ft rq (first :: fs)) ft rq first fs eq_refl Hnd Hlen Hnest f rest [] 0 j rest);
          try eassumption.
        - intros x [].
        - intros [].
        - reflexivity.
        - cbn [c15_final]. left. auto.
        - fuel_tac. }
      rewrite Hloop. reflexivity.
    - assert (Hloop : v_group_loop f (DFD ft rq (first :: fs)) rest [] 0 = Ok (inr (rest', 0 + Z.of_nat k))).
      { eapply (v_group_loop_sim w (DFD ft rq (first :: fs)) ft rq first fs eq_refl Hnd Hlen Hnest).
        - intros x [].
        - intros [].
        - unfold c15_spec_cont. cbn [c15_members_of dfd_fields]. exact Hent.
        - fuel_tac. }
      rewrite Hloop. cbn [bind]. rewrite Z.add_0_l.
      destruct (Z.of_nat k =? n) eqn:E; [apply Z.eqb_eq in E; congruence|]. reflexivity.
    - assert (Hin : In mem (first :: fs)) by (rewrite Hsplit; apply in_elt).
      assert (Hloop : v_group_loop f (DFD ft rq (first :: fs)) rest [] 0 = Ok (inl e)).
      { eapply (v_group_loop_defect (DFD ft rq (first :: fs)) ft rq first fs eq_refl Hnd Hlen Hnest f rest [] 0 j rest);
          try eassumption.
        - intros x [].
        - intros [].
        - reflexivity.
        - cbn [c15_final]. right. split; [reflexivity|]. split.
          + inversion D; subst; unfold dfd_is_group;
              match goal with H : dfd_fields mem = _ |- _ => rewrite H end; reflexivity.
          + intros fuel0 Hf0. apply IH; auto.
        - fuel_tac. }
      rewrite Hloop. reflexivity.
  Qed.
End Defect.

(* ---- the walk over a prefix of conforming top-level items ---- *)
Lemma c15_def_lookup_wf : forall tdd md w t sd fd,
  c15_wf_defsb tdd md = true ->
  (v_msg_def_size (dd_header tdd) <= w)%nat -> (v_msg_def_size (dd_trailer tdd) <= w)%nat ->
  (v_msg_def_size (Some md) <= w)%nat ->
  c15_def_of tdd md t = Some sd -> dict_zget t (dmd_fields sd) = Some fd ->
  dfd_wfb fd = true /\ dfd_width_okb w fd = true.
Proof.
  intros tdd md w t sd fd Hwf Wh Wt Wm Hsd Hz.
  pose proof (dict_zget_In _ _ _ _ Hz) as Hin.
  unfold c15_wf_defsb in Hwf. repeat rewrite andb_true_iff in Hwf. destruct Hwf as [[W1 W2] W3].
  pose proof (v_msg_def_size_in sd t fd Hin) as Hsz.
  assert (G : dfd_wfb fd = true /\ (v_def_size fd <= w)%nat).
  { unfold c15_def_of in Hsd. destruct (v_is_header t).
    - rewrite Hsd in W1, Wh. cbn in W1. rewrite forallb_forall in W1. split; [apply (W1 _ Hin)|lia].
    - destruct (v_is_trailer t).
      + rewrite Hsd in W2, Wt. cbn in W2. rewrite forallb_forall in W2. split; [apply (W2 _ Hin)|lia].
      + injection Hsd as <-. cbn in W3. rewrite forallb_forall in W3. split; [apply (W3 _ Hin)|lia]. }
  destruct G as [G1 G2]. split; [exact G1|].
  eapply dfd_width_okb_mono; [exact G2|apply dfd_width_size].
Qed.

Lemma v_walk_pre : forall tdd add s mt md w,
  dict_bget mt (dd_messages add) = Some md ->
  c15_wf_defsb tdd md = true ->
  (v_msg_def_size (dd_header tdd) <= w)%nat -> (v_msg_def_size (dd_trailer tdd) <= w)%nat ->
  (v_msg_def_size (Some md) <= w)%nat ->
  forall k fuel l seen l2 seen2,
    c15_items_pre k s tdd md l seen = Some (l2, seen2) ->
    (length l * (w + 2) + 1 < fuel)%nat ->
    exists fuel2, (length l2 * (w + 2) + 1 < fuel2)%nat /\
      v_walk_loop fuel tdd add s mt l seen = v_walk_loop fuel2 tdd add s mt l2 seen2.
Proof.
  intros tdd add s mt md w Hmd Hwf Wh Wt Wm.
  induction k as [|k IH]; intros fuel l seen l2 seen2 Hi Hf.
  - cbn [c15_items_pre] in Hi. injection Hi as <- <-. exists fuel. split; [exact Hf|reflexivity].
  - cbn [c15_items_pre] in Hi. destruct l as [|[t v] rest]; [discriminate|].
    destruct fuel as [|fuel]; [lia|]. cbn [v_walk_loop].
    destruct (v_zmem t seen); [discriminate|].
    destruct (c15_def_of tdd md t) as [sd|] eqn:Esd; [|discriminate].
    pose proof Esd as Esd'. unfold c15_def_of in Esd'. rewrite Hmd. rewrite Esd'.
    destruct (dict_zget t (dmd_fields sd)) as [fd|] eqn:Ez.
    + dmatch Hi rest' Em; [|discriminate].
      destruct (c15_def_lookup_wf tdd md w t sd fd Hwf Wh Wt Wm Esd Ez) as [Hwfd Hwdd].
      assert (Hlen : (length rest' < length ((t, v) :: rest))%nat)
        by (apply (c15_member_length fd _ _ Em); discriminate).
      assert (Hv : v_visit_field fuel fd ((t, v) :: rest) = Ok (inr rest')).
      { unfold v_visit_field. destruct (dfd_is_group fd) eqn:Eg.
        - apply (v_visit_group_field_sim w); auto. unfold v_tv, bytes in *. cbn [length] in *. lia.
        - rewrite (v_plain_member fd _ _ Eg Em). reflexivity. }
      destruct (IH fuel rest' (t :: seen) l2 seen2 Hi) as [fuel2 [Hf2 He]].
      { unfold v_tv, bytes in *. cbn [length] in *.
        pose proof (v_fuel_mono _ _ (w + 2)%nat Hlen). lia. }
      exists fuel2. split; [exact Hf2|]. rewrite <- He.
      apply (res_bind_ok _ _ (inr rest')); [exact Hv|reflexivity].
    + destruct (c15_tolerated s t) eqn:Et; [|discriminate].
      rewrite c15_tolerated_check. rewrite Et. cbn [negb].
      apply (IH fuel rest (t :: seen) l2 seen2 Hi).
      unfold v_tv, bytes in *. cbn [length] in *. lia.
Qed.

Section Lift.
  Variable rd_bool rd_timestamp rd_float : bytes -> bool.
  Notation VAL := (v_validate rd_bool rd_timestamp rd_float).
  Notation value_okb := (c15_value_okb rd_bool rd_timestamp rd_float).

  (* rules 1 to 4 of the pipeline pass, RejectInvalidMessage is on, and the walk (rule 5) has passed over some number
     of conforming top-level items -- plain fields, tolerated unknown fields, whole group instances -- and stands
     at `stack`, having seen the tags `seen` *)
  Definition c15_walk_at (s : v_settings) (app tr : option dict) (m : v_msg) (mt : bytes) (tdd add : dict)
      (md : dict_message_def) (stack : list v_tv) (seen : list Z) : Prop :=
    vm_msg_type m = Some mt /\ c15_config app tr mt tdd add /\
    c15_required_ok tdd add mt m /\ c15_content_ok s m /\ vs_reject_invalid_message s = true /\
    forallb (fun f => value_okb s (c15_dict_of tdd add (fst f)) f) (vm_fields m) = true /\
    dict_bget mt (dd_messages add) = Some md /\ c15_wf_defsb tdd md = true /\
    exists k, c15_items_pre k s tdd md (vm_fields m) [] = Some (stack, seen).

  Lemma v_walk_at : forall s app tr m mt tdd add md stack seen,
    c15_walk_at s app tr m mt tdd add md stack seen ->
    exists w fuel2,
      (v_msg_def_size (dd_header tdd) <= w)%nat /\ (v_msg_def_size (dd_trailer tdd) <= w)%nat /\
      (v_msg_def_size (Some md) <= w)%nat /\
      (length stack * (w + 2) + 1 < fuel2)%nat /\
      VAL s app tr m = v_walk_loop fuel2 tdd add s mt stack seen.
  Proof.
    intros s app tr m mt tdd add md stack seen [Hmt [C [Hreq [Hc [Hri [Hfs [Hmd [Hwf [k Hk]]]]]]]]].
    set (w := (v_msg_def_size (dd_header tdd) + v_msg_def_size (dd_trailer tdd) + v_msg_def_size (Some md))%nat).
    destruct (v_walk_pre tdd add s mt md w Hmd Hwf ltac:(lia) ltac:(lia) ltac:(lia) k
                (v_walk_fuel tdd add mt m) (vm_fields m) [] stack seen Hk) as [fuel2 [Hf2 He]].
    { unfold v_walk_fuel. rewrite Hmd. fold w. nia. }
    exists w, fuel2. repeat split; try lia.
    rewrite (v_validate_pipeline rd_bool rd_timestamp rd_float _ _ _ _ _ s m C Hmt).
    rewrite (v_pipeline_walk rd_bool rd_timestamp rd_float _ _ _ _ _ Hreq Hc Hri Hfs).
    unfold v_validate_walk. exact He.
  Qed.

  (* a group instance with a defect (nested to any depth) at the point the walk has reached *)
  Theorem v_defect_group : forall s app tr m mt tdd add md num_tag value rest seen sd g e,
    c15_walk_at s app tr m mt tdd add md ((num_tag, value) :: rest) seen ->
    v_zmem num_tag seen = false ->
    c15_def_of tdd md num_tag = Some sd -> dict_zget num_tag (dmd_fields sd) = Some g ->
    c15_group_defect g ((num_tag, value) :: rest) e ->
    VAL s app tr m = Ok (Some e).
  Proof.
    intros s app tr m mt tdd add md num_tag value rest seen sd g e Hat Hseen Hsd Hz D.
    pose proof Hat as [_ [_ [_ [_ [_ [_ [Hmd [Hwf _]]]]]]]].
    destruct (v_walk_at _ _ _ _ _ _ _ _ _ _ Hat) as [w [fuel2 [Wh [Wt [Wm [Hf2 ->]]]]]].
    destruct fuel2 as [|f]; [lia|]. cbn [v_walk_loop]. rewrite Hseen.
    pose proof Hsd as Hsd'. unfold c15_def_of in Hsd'. rewrite Hmd. rewrite Hsd'. rewrite Hz.
    destruct (c15_def_lookup_wf tdd md w num_tag sd g Hwf Wh Wt Wm Hsd Hz) as [Hwfd Hwdd].
    assert (Hgr : dfd_is_group g = true).
    { inversion D; subst; unfold dfd_is_group;
        match goal with H : dfd_fields g = _ |- _ => rewrite H end; reflexivity. }
    unfold v_visit_field. rewrite Hgr.
    rewrite (v_visit_group_defect w g _ e D Hwfd Hwdd); [reflexivity|].
    unfold v_tv, bytes in *. cbn [length] in *. lia.
  Qed.

  (* (a) a required member missing from entry j+1 of a group of the message *)
  Theorem v_defect_group_member_missing :
    forall s app tr m mt tdd add md num_tag value rest seen sd g first fs n j v1 st1 ms1 mem ms2 t v st2,
    c15_walk_at s app tr m mt tdd add md ((num_tag, value) :: rest) seen ->
    v_zmem num_tag seen = false ->
    c15_def_of tdd md num_tag = Some sd -> dict_zget num_tag (dmd_fields sd) = Some g ->
    dfd_fields g = first :: fs ->
    fix_int_read value = Ok n ->
    c15_entries_pre (c15_members_of c15_member (first :: fs)) (dfd_tag first) j rest = Some ((dfd_tag first, v1) :: st1) ->
    first :: fs = ms1 ++ mem :: ms2 ->
    c15_members_of c15_member ms1 ((dfd_tag first, v1) :: st1) = Some ((t, v) :: st2) ->
    dfd_required mem = true -> t <> dfd_tag mem ->
    VAL s app tr m = Ok (Some (RR_REQUIRED_TAG_MISSING, Some (dfd_tag mem))).
  Proof.
    intros s app tr m mt tdd add md num_tag value rest seen sd g first fs n j v1 st1 ms1 mem ms2 t v st2
      Hat Hseen Hsd Hz Hfs Hn Hpre Hsplit Hms Hr Hne.
    eapply v_defect_group; eauto.
    eapply gd_member_missing; eauto.
  Qed.

  (* (c) a required member out of template order: in entry j+1 a later member of the template (tag t, one of ms2)
     stands where the required member mem is due -- reported as mem missing *)
  Theorem v_defect_group_member_out_of_order :
    forall s app tr m mt tdd add md num_tag value rest seen sd g first fs n j v1 st1 ms1 mem ms2 t v st2,
    c15_walk_at s app tr m mt tdd add md ((num_tag, value) :: rest) seen ->
    v_zmem num_tag seen = false ->
    c15_def_of tdd md num_tag = Some sd -> dict_zget num_tag (dmd_fields sd) = Some g ->
    dfd_fields g = first :: fs ->
    fix_int_read value = Ok n ->
    c15_entries_pre (c15_members_of c15_member (first :: fs)) (dfd_tag first) j rest = Some ((dfd_tag first, v1) :: st1) ->
    first :: fs = ms1 ++ mem :: ms2 ->
    c15_members_of c15_member ms1 ((dfd_tag first, v1) :: st1) = Some ((t, v) :: st2) ->
    dfd_required mem = true -> In t (map dfd_tag ms2) ->
    VAL s app tr m = Ok (Some (RR_REQUIRED_TAG_MISSING, Some (dfd_tag mem))).
  Proof.
    intros s app tr m mt tdd add md num_tag value rest seen sd g first fs n j v1 st1 ms1 mem ms2 t v st2
      Hat Hseen Hsd Hz Hfs Hn Hpre Hsplit Hms Hr Hin.
    eapply v_defect_group_member_missing; eauto.
    (* the member tags of a group are pairwise different *)
    pose proof Hat as [_ [_ [_ [_ [_ [_ [Hmd [Hwf _]]]]]]]].
    destruct (c15_def_lookup_wf tdd md
                (v_msg_def_size (dd_header tdd) + v_msg_def_size (dd_trailer tdd) + v_msg_def_size (Some md))%nat
                num_tag sd g Hwf ltac:(lia) ltac:(lia) ltac:(lia) Hsd Hz) as [Hwfd _].
    destruct g as [ft rq fs0]. cbn [dfd_fields] in Hfs. subst fs0.
    destruct (dfd_wfb_inv _ _ _ Hwfd) as [Hnd _]. rewrite Hsplit in Hnd.
    rewrite map_app in Hnd. cbn [map] in Hnd. apply NoDup_remove_2 in Hnd.
    intro Hc. subst t. apply Hnd. apply in_or_app. right. exact Hin.
  Qed.

  (* (b) exactly k conforming entries are present, NumInGroup says n <> k *)
  Theorem v_defect_group_count :
    forall s app tr m mt tdd add md num_tag value rest seen sd g first fs n k rest',
    c15_walk_at s app tr m mt tdd add md ((num_tag, value) :: rest) seen ->
    v_zmem num_tag seen = false ->
    c15_def_of tdd md num_tag = Some sd -> dict_zget num_tag (dmd_fields sd) = Some g ->
    dfd_fields g = first :: fs ->
    fix_int_read value = Ok n ->
    c15_entries_of (c15_members_of c15_member (first :: fs)) (dfd_tag first) k rest = Some rest' ->
    n <> Z.of_nat k ->
    VAL s app tr m = Ok (Some (RR_INCORRECT_NUM_IN_GROUP_COUNT, Some num_tag)).
  Proof.
    intros s app tr m mt tdd add md num_tag value rest seen sd g first fs n k rest'
      Hat Hseen Hsd Hz Hfs Hn Hent Hne.
    eapply v_defect_group; eauto.
    eapply gd_count; eauto.
  Qed.

  (* (c) after k conforming entries comes a field (t, v) that is not the delimiter although NumInGroup announces
     more than k entries (the delimiter of entry k+1 dropped or not in first place): the group ends there and the
     count is reported *)
  Theorem v_defect_group_no_delimiter :
    forall s app tr m mt tdd add md num_tag value rest seen sd g first fs n k t v rest',
    c15_walk_at s app tr m mt tdd add md ((num_tag, value) :: rest) seen ->
    v_zmem num_tag seen = false ->
    c15_def_of tdd md num_tag = Some sd -> dict_zget num_tag (dmd_fields sd) = Some g ->
    dfd_fields g = first :: fs ->
    fix_int_read value = Ok n ->
    c15_entries_pre (c15_members_of c15_member (first :: fs)) (dfd_tag first) k rest = Some ((t, v) :: rest') ->
    t <> dfd_tag first -> Z.of_nat k < n ->
    VAL s app tr m = Ok (Some (RR_INCORRECT_NUM_IN_GROUP_COUNT, Some num_tag)).
  Proof.
    intros s app tr m mt tdd add md num_tag value rest seen sd g first fs n k t v rest'
      Hat Hseen Hsd Hz Hfs Hn Hpre Hne Hlt.
    eapply v_defect_group_count with (k := k) (n := n) (rest' := (t, v) :: rest'); eauto; [|lia].
    clear - Hpre Hne. revert rest Hpre. induction k as [|k IH]; intros rest Hpre.
    - cbn [c15_entries_pre] in Hpre. injection Hpre as ->. cbn [c15_entries_of].
      apply Z.eqb_neq in Hne. rewrite Hne. reflexivity.
    - cbn [c15_entries_pre] in Hpre. cbn [c15_entries_of].
      destruct rest as [|[t0 v0] rest0]; [discriminate|].
      destruct (t0 =? dfd_tag first); [|discriminate].
      destruct (c15_members_of c15_member (first :: fs) ((t0, v0) :: rest0)) as [st'|]; [|discriminate].
      apply IH. exact Hpre.
  Qed.

  (* the walk stands at a field that is not defined for the message (and not tolerated): the general form of
     v_defect_undefined, the items before it may be groups.  With the group instance as the last item passed over
     this is case (c) for an optional member displaced behind a later member in the last entry: the group ends
     before the displaced field, which is then looked up at the top level. *)
  Theorem v_defect_undefined_at : forall s app tr m mt tdd add md t v rest seen sd,
    c15_walk_at s app tr m mt tdd add md ((t, v) :: rest) seen ->
    v_zmem t seen = false ->
    c15_def_of tdd md t = Some sd -> dict_zget t (dmd_fields sd) = None -> c15_tolerated s t = false ->
    VAL s app tr m = Ok (Some (RR_TAG_NOT_DEFINED_FOR_THIS_MESSAGE_TYPE, Some t)).
  Proof.
    intros s app tr m mt tdd add md t v rest seen sd Hat Hseen Hsd Hz Ht.
    pose proof Hat as [_ [_ [_ [_ [_ [_ [Hmd [Hwf _]]]]]]]].
    destruct (v_walk_at _ _ _ _ _ _ _ _ _ _ Hat) as [w [fuel2 [Wh [Wt [Wm [Hf2 ->]]]]]].
    destruct fuel2 as [|f]; [lia|]. cbn [v_walk_loop]. rewrite Hseen.
    unfold c15_def_of in Hsd. rewrite Hmd. rewrite Hsd. rewrite Hz.
    rewrite c15_tolerated_check. rewrite Ht. reflexivity.
  Qed.

  (* ... and at a tag that an item passed over already had (general form of v_defect_duplicate) *)
  Theorem v_defect_duplicate_at : forall s app tr m mt tdd add md t v rest seen,
    c15_walk_at s app tr m mt tdd add md ((t, v) :: rest) seen ->
    v_zmem t seen = true ->
    VAL s app tr m = Ok (Some (RR_TAG_APPEARS_MORE_THAN_ONCE, Some t)).
  Proof.
    intros s app tr m mt tdd add md t v rest seen Hat Hseen.
    destruct (v_walk_at _ _ _ _ _ _ _ _ _ _ Hat) as [w [fuel2 [Wh [Wt [Wm [Hf2 ->]]]]]].
    destruct fuel2 as [|f]; [lia|]. cbn [v_walk_loop]. rewrite Hseen. reflexivity.
  Qed.
End Lift.
