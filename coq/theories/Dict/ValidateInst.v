(* The validator model with the value readers of the Types area (C14 models). *)
From Coq Require Import ZArith List Bool.
From QF Require Import Base.Res Base.Bytes Dict.Xml Dict.Build Dict.Validate
  Types.FixBool Types.FixTimestamp Types.FixFloat.

Definition v_rd_bool (d : bytes) : bool := is_ok (fix_bool_read d).
Definition v_rd_timestamp (d : bytes) : bool := is_ok (timestamp_read d).
Definition v_rd_float (d : bytes) : bool := float_read_ok d.

Definition validate : v_settings -> option dict -> option dict -> v_msg -> v_result :=
  v_validate v_rd_bool v_rd_timestamp v_rd_float.

From QF Require Import Dict.ValidateSpec.
Definition c15_conforms : v_settings -> dict -> dict -> v_msg -> bool :=
  c15_conformsb v_rd_bool v_rd_timestamp v_rd_float.
