(* The FIX specification document as datadictionary/xml.go's XMLDoc structs see it (DESIGN 4.2).
   Attributes the loader never reads (msgcat, description) are not represented.  Text is `bytes`.
   The generated terms Gen/Dicts/<NAME>.v are values of [xdoc] written with the short constructors below. *)
From Coq Require Import ZArith List String.
From QF Require Import Base.Bytes.
Import ListNotations.
Open Scope Z_scope.

(* byte-string equality that stops at the first difference also under call-by-value evaluation (vm_compute) *)
Fixpoint dict_beq (a b : bytes) : bool :=
  match a, b with
  | [], [] => true
  | x :: a', y :: b' => if x =? y then dict_beq a' b' else false
  | _, _ => false
  end.

(* XMLComponentMember: XMLName.Local, name attr, required attr (raw text), child elements (`xml:",any"`) *)
Inductive xmember : Type :=
| XM (el : bytes) (name : bytes) (req : bytes) (ms : list xmember).

Definition xm_el (m : xmember) : bytes := match m with XM e _ _ _ => e end.
Definition xm_name (m : xmember) : bytes := match m with XM _ n _ _ => n end.
Definition xm_req (m : xmember) : bytes := match m with XM _ _ r _ => r end.
Definition xm_members (m : xmember) : list xmember := match m with XM _ _ _ ms => ms end.

(* XMLComponent: header, trailer, messages/message, components/component *)
Record xcomponent : Type := XC { xc_name : bytes; xc_msgtype : bytes; xc_members : list xmember }.

(* XMLField with the enum attribute of its XMLValue children *)
Record xfield : Type := XF { xf_number : Z; xf_name : bytes; xf_type : bytes; xf_values : list bytes }.

(* XMLDoc *)
Record xdoc : Type := XD {
  xd_type : bytes; xd_major : bytes; xd_minor : bytes; xd_servicepack : Z;
  xd_header : option xcomponent; xd_trailer : option xcomponent;
  xd_messages : list xcomponent; xd_components : list xcomponent; xd_fields : list xfield }.

(* literal texts, spelled as byte lists so that the extracted model does not drag Coq's `string` type in *)
Definition el_field : bytes := [102; 105; 101; 108; 100].
Definition el_group : bytes := [103; 114; 111; 117; 112].
Definition el_component : bytes := [99; 111; 109; 112; 111; 110; 101; 110; 116].
Definition xY : bytes := [89].
Definition xN : bytes := [78].
Definition dict_FIX : bytes := [70; 73; 88].
Definition dict_FIXT : bytes := [70; 73; 88; 84].
Example dict_literals_spelled :
  el_field = B "field" /\ el_group = B "group" /\ el_component = B "component" /\ xY = B "Y" /\ xN = B "N" /\
  dict_FIX = B "FIX" /\ dict_FIXT = B "FIXT".
Proof. repeat split; reflexivity. Qed.

(* short constructors used by the generated terms *)
Definition xF (n r : bytes) : xmember := XM el_field n r [].
Definition xG (n r : bytes) (ms : list xmember) : xmember := XM el_group n r ms.
Definition xC (n r : bytes) : xmember := XM el_component n r [].

(* member.isComponent / isGroup / isRequired *)
Definition xm_is_component (m : xmember) : bool := dict_beq (xm_el m) el_component.
Definition xm_is_group (m : xmember) : bool := dict_beq (xm_el m) el_group.
Definition xm_is_required (m : xmember) : bool := dict_beq (xm_req m) xY.
