(* Soundness of the builder model for the C19 specification: whatever [dict_build] returns as a
   dictionary says what the walk of the XML says (for uniquely named documents).  Consequences:
   a successful build implies the document is closed and acyclic. *)
From Coq Require Import ZArith List Bool Lia.
From QF Require Import Base.Res Base.Bytes Dict.Xml Dict.Build Dict.Spec Dict.SpecExec Dict.SpecProofs Dict.BuildLemmas.
Import ListNotations.
Open Scope Z_scope.

(* ---- association lists with unique keys ---- *)
Lemma dict_bget_nodup_in : forall A (m : list (bytes * A)) k v,
  NoDup (map fst m) -> In (k, v) m -> dict_bget k m = Some v.
Proof.
  intros A m k v. induction m as [|[k' v'] m IH]; cbn; intros Hnd Hin; [contradiction|].
  inversion Hnd as [|x l Hni Hnd']; subst.
  destruct Hin as [Hin|Hin].
  - injection Hin as -> ->. rewrite dict_beq_refl. reflexivity.
  - destruct (dict_beq k' k) eqn:E.
    + apply dict_beq_true in E. subst. exfalso. apply Hni. apply (in_map fst) in Hin. exact Hin.
    + auto.
Qed.

Lemma dict_zget_nodup_in : forall A (m : list (Z * A)) k v,
  NoDup (map fst m) -> In (k, v) m -> dict_zget k m = Some v.
Proof.
  intros A m k v. induction m as [|[k' v'] m IH]; cbn; intros Hnd Hin; [contradiction|].
  inversion Hnd as [|x l Hni Hnd']; subst.
  destruct Hin as [Hin|Hin].
  - injection Hin as -> ->. rewrite Z.eqb_refl. reflexivity.
  - destruct (k' =? k) eqn:E.
    + apply Z.eqb_eq in E. subst. exfalso. apply Hni. apply (in_map fst) in Hin. exact Hin.
    + auto.
Qed.

Lemma dict_find_nodup : forall A (key : A -> bytes) (l : list A) x,
  NoDup (map key l) -> In x l -> find (fun y => dict_beq (key y) (key x)) l = Some x.
Proof.
  intros A key l x. induction l as [|y l IH]; cbn; intros Hnd Hin; [contradiction|].
  inversion Hnd as [|k l' Hni Hnd']; subst.
  destruct Hin as [Hin|Hin].
  - subst. rewrite dict_beq_refl. reflexivity.
  - destruct (dict_beq (key y) (key x)) eqn:E.
    + apply dict_beq_true in E. exfalso. apply Hni. rewrite E. apply in_map. exact Hin.
    + auto.
Qed.

Lemma dict_find_some : forall A (p : A -> bool) l x, find p l = Some x -> In x l /\ p x = true.
Proof. intros. apply find_some. assumption. Qed.

(* the maps of buildFieldTypes *)
Lemma dict_field_types_spec : forall doc,
  fst (dict_build_field_types doc) = rev (map (fun f => (xf_number f, dict_build_field_type f)) (xd_fields doc)) /\
  snd (dict_build_field_types doc) = rev (map (fun f => (xf_name f, dict_build_field_type f)) (xd_fields doc)).
Proof.
  intro doc. unfold dict_build_field_types.
  assert (G : forall l a b,
    fold_left (fun m f => let ft := dict_build_field_type f in ((dft_tag ft, ft) :: fst m, (dft_name ft, ft) :: snd m)) l (a, b)
    = (rev (map (fun f => (xf_number f, dict_build_field_type f)) l) ++ a,
       rev (map (fun f => (xf_name f, dict_build_field_type f)) l) ++ b)).
  { induction l as [|f l IH]; intros a b; cbn; auto.
    rewrite IH. cbn. repeat rewrite <- app_assoc. reflexivity. }
  rewrite G. cbn. repeat rewrite app_nil_r. auto.
Qed.

Lemma dict_component_by_name_spec : forall doc,
  dict_component_by_name doc = rev (map (fun c => (xc_name c, c)) (xd_components doc)).
Proof.
  intro doc. unfold dict_component_by_name.
  assert (G : forall l a, fold_left (fun m c => (xc_name c, c) :: m) l a = rev (map (fun c => (xc_name c, c)) l) ++ a).
  { induction l as [|c l IH]; intros a; cbn; auto. rewrite IH. rewrite <- app_assoc. reflexivity. }
  rewrite G. apply app_nil_r.
Qed.

Section Names.
  Variable doc : xdoc.
  Hypothesis UN : uniquely_named doc.
  Let bn := snd (dict_build_field_types doc).
  Let cmap := dict_component_by_name doc.

  Lemma dict_bn_find : forall n ft, dict_bget n bn = Some ft ->
    exists f, sp_find_field doc n = Some f /\ ft = dict_build_field_type f.
  Proof.
    intros n ft H. apply dict_bget_some_key in H. unfold bn in H.
    rewrite (proj2 (dict_field_types_spec doc)) in H. apply in_rev in H. apply in_map_iff in H.
    destruct H as [f [He Hin]]. injection He as <- <-. exists f. split; auto.
    unfold sp_find_field. apply (dict_find_nodup _ xf_name); auto. apply UN.
  Qed.

  Lemma dict_find_bn : forall n f, sp_find_field doc n = Some f -> dict_bget n bn <> None.
  Proof.
    intros n f H. apply dict_find_some in H. destruct H as [Hin Hn]. apply dict_beq_true in Hn. subst.
    unfold bn. rewrite (proj2 (dict_field_types_spec doc)).
    rewrite (dict_bget_nodup_in _ _ (xf_name f) (dict_build_field_type f)); [discriminate| |].
    - rewrite map_rev. rewrite map_map. cbn. apply NoDup_rev. apply UN.
    - rewrite <- in_rev. apply in_map_iff. exists f. auto.
  Qed.

  Lemma dict_cmap_find : forall n xc, dict_bget n cmap = Some xc -> sp_find_component doc n = Some xc.
  Proof.
    intros n xc H. apply dict_component_by_name_In in H. destruct H as [Hin Hn]. subst.
    unfold sp_find_component. apply (dict_find_nodup _ xc_name); auto. apply UN.
  Qed.

  Lemma dict_find_cmap : forall n xc, sp_find_component doc n = Some xc -> dict_bget n cmap = Some xc.
  Proof.
    intros n xc H. apply dict_find_some in H. destruct H as [Hin Hn]. apply dict_beq_true in Hn. subst.
    unfold cmap. rewrite dict_component_by_name_spec. apply dict_bget_nodup_in.
    - rewrite map_rev. rewrite map_map. cbn. apply NoDup_rev. apply UN.
    - rewrite <- in_rev. apply in_map_iff. exists xc. auto.
  Qed.

  Lemma dict_comp_find_self : forall c, In c (xd_components doc) -> sp_find_component doc (xc_name c) = Some c.
  Proof. intros c H. unfold sp_find_component. apply (dict_find_nodup _ xc_name); auto. apply UN. Qed.
End Names.

(* ---- what a built field / component / part says ---- *)
Definition dict_field_ok (doc : xdoc) (m : xmember) (fd : dict_field_def) : Prop :=
  exists f, sp_find_field doc (xm_name m) = Some f /\ dfd_tag fd = xf_number f /\
    dfd_required fd = xm_is_required m /\
    (if xm_is_group m then sp_expand doc (xm_members m) (map dict_shape (dfd_fields fd)) else dfd_fields fd = []).

Definition dict_comp_ok (doc : xdoc) (n : bytes) (ct : dict_component_type) : Prop :=
  exists c, sp_find_component doc n = Some c /\
    sp_expand doc (xc_members c) (map dict_shape (dct_fields ct)) /\
    sp_required doc (xc_members c) (map dfd_tag (dct_required_fields ct)).

Definition dict_table_ok (doc : xdoc) (st : dict_state) : Prop :=
  forall n ct, In (n, ct) st -> dict_comp_ok doc n ct.

Definition dict_part_ok (doc : xdoc) : xmember -> dict_part -> Prop :=
  dict_Qp (fun m ct => dict_comp_ok doc (xm_name m) ct) (dict_field_ok doc).

Lemma dict_shape_eq : forall fd, dict_shape fd = SPT (dfd_tag fd) (dfd_required fd) (map dict_shape (dfd_fields fd)).
Proof. intros [ft r fs]. reflexivity. Qed.

Lemma dict_parts_ok_expand : forall doc ms parts, Forall2 (dict_part_ok doc) ms parts ->
  sp_expand doc ms (map dict_shape (flat_map dict_part_fields parts)) /\
  sp_required doc ms (map dfd_tag (flat_map dict_part_required_fields parts)).
Proof.
  intros doc ms parts H. induction H as [|m p ms parts Hp Hr [IH1 IH2]]; cbn [flat_map map].
  - split; constructor.
  - destruct p as [fd|ct r]; cbn in Hp.
    + destruct Hp as [Hc [f [Hf [Ht [Hq Hg]]]]]. cbn [dict_part_fields dict_part_required_fields app map].
      split.
      * rewrite dict_shape_eq. rewrite Ht, Hq.
        destruct (xm_is_group m) eqn:Eg.
        -- eapply spe_group; eauto.
        -- rewrite Hg. cbn [map]. eapply spe_field; eauto.
      * rewrite Hq. destruct (xm_is_required m) eqn:Er; cbn [app map].
        -- rewrite Ht. eapply spr_field_req; eauto.
        -- apply spr_field_opt; auto.
    + destruct Hp as [Hc [Hr' [c [Hfc [He Hq]]]]]. subst r.
      cbn [dict_part_fields dict_part_required_fields]. split.
      * rewrite map_app. eapply spe_component; eauto.
      * destruct (xm_is_required m) eqn:Er.
        -- rewrite map_app. eapply spr_comp_req; eauto.
        -- cbn [app]. apply spr_comp_opt; auto.
Qed.

Section Sound.
  Variable doc : xdoc.
  Hypothesis UN : uniquely_named doc.
  Let bn := snd (dict_build_field_types doc).
  Let cmap := dict_component_by_name doc.

  (* state invariant: every entry of the component table is right, and the entries of st0 are still there *)
  Definition dict_sinv (st0 st : dict_state) : Prop := dict_table_ok doc st /\ incl st0 st.

  Lemma dict_sinv_refl : forall st, dict_table_ok doc st -> dict_sinv st st.
  Proof. intros st H. split; auto. apply incl_refl. Qed.

  Section SLevel.
    Variable st0 : dict_state.
    Variable fob : dict_state -> xmember -> res (dict_state * dict_component_type).
    Hypothesis Hfob : forall st m, dict_sinv st0 st -> True -> xm_is_component m = true ->
      dict_hoare (dict_sinv st0) (dict_comp_ok doc (xm_name m)) True True (fob st m).

    Let Hkids : forall (el n r : bytes) (ms : list xmember), True -> dict_beq el el_component = false ->
      dict_beq el el_group = true -> Forall (fun _ : xmember => True) ms.
    Proof. intros. apply Forall_forall. intros; constructor. Qed.

    Let Hunknown : forall (el n r : bytes) (ms : list xmember), True -> dict_beq el el_component = false ->
      dict_bget n bn = None -> True.
    Proof. intros; constructor. Qed.

    Let Hfield : forall el n r ms ft, True -> dict_beq el el_component = false ->
      dict_bget n bn = Some ft -> dict_beq el el_group = false ->
      dict_field_ok doc (XM el n r ms) (dict_new_field_def ft (dict_beq r xY)).
    Proof.
      intros el n r ms ft _ Hc Hb Hg. destruct (dict_bn_find doc UN _ _ Hb) as [f [Hf Hft]].
      exists f. cbn [xm_name]. split; auto. subst ft. cbn.
      unfold xm_is_group. cbn [xm_el]. rewrite Hg. auto.
    Qed.

    Let Hgroup : forall el n r ms ft parts, True -> dict_beq el el_component = false ->
      dict_bget n bn = Some ft -> dict_beq el el_group = true ->
      Forall2 (dict_part_ok doc) ms parts ->
      dict_field_ok doc (XM el n r ms) (dict_new_group_field_def ft (dict_beq r xY) parts).
    Proof.
      intros el n r ms ft parts _ Hc Hb Hg HP. destruct (dict_bn_find doc UN _ _ Hb) as [f [Hf Hft]].
      exists f. cbn [xm_name]. split; auto. subst ft. cbn.
      unfold xm_is_group. cbn [xm_el]. rewrite Hg. repeat split; auto.
      apply dict_parts_ok_expand. exact HP.
    Qed.

    Lemma dict_parts_sound : forall ms st, dict_sinv st0 st ->
      dict_hoare (dict_sinv st0) (Forall2 (dict_part_ok doc) ms) True True
        (dict_st_map (dict_build_part bn fob) st ms).
    Proof.
      intros ms st Hst.
      apply (dict_build_parts_hoare bn fob (dict_sinv st0) (fun _ => True)
               (fun m ct => dict_comp_ok doc (xm_name m) ct) (dict_field_ok doc) True True
               Hfob Hkids Hunknown Hfield Hgroup); auto.
      apply Forall_forall. intros; constructor.
    Qed.

    Lemma dict_field_def_sound : forall m st, xm_is_component m = false -> dict_sinv st0 st ->
      dict_hoare (dict_sinv st0) (dict_field_ok doc m) True True (dict_build_field_def bn fob st m).
    Proof.
      intros m st Hc Hst.
      apply (dict_build_field_def_hoare bn fob (dict_sinv st0) (fun _ => True)
               (fun m ct => dict_comp_ok doc (xm_name m) ct) (dict_field_ok doc) True True
               Hfob Hkids Hunknown Hfield Hgroup); auto.
    Qed.
  End SLevel.

  Lemma dict_fob_sound : forall st0 bct,
    (forall st xc, dict_sinv st0 st -> sp_find_component doc (xc_name xc) = Some xc ->
       dict_hoare (dict_sinv st0) (dict_comp_ok doc (xc_name xc)) True True (bct st xc)) ->
    forall st m, dict_sinv st0 st -> True -> xm_is_component m = true ->
      dict_hoare (dict_sinv st0) (dict_comp_ok doc (xm_name m)) True True (dict_find_or_build_with cmap bct st m).
  Proof.
    intros st0 bct Hb st m Hst _ _. unfold dict_find_or_build_with.
    destruct (dict_bget (xm_name m) st) as [c|] eqn:Eg.
    - cbn. split; auto. apply dict_bget_some_key in Eg. apply (proj1 Hst). exact Eg.
    - destruct (dict_bget (xm_name m) cmap) as [xc|] eqn:Ex; [|cbn; auto].
      pose proof (dict_component_by_name_In _ _ _ Ex) as [Hin Hn].
      apply (dict_cmap_find doc UN) in Ex. rewrite <- Hn in Ex.
      eapply dict_hoare_bind; [apply Hb; eauto|].
      intros sc [Ht Hi] Hq. cbn. rewrite <- Hn. split; auto. split.
      + intros n ct [He|Hin']; [injection He as <- <-; exact Hq | apply Ht; exact Hin'].
      + intros x Hx. right. apply Hi. exact Hx.
  Qed.

  Lemma dict_bct_sound : forall fuel building st0 st xc,
    dict_sinv st0 st -> sp_find_component doc (xc_name xc) = Some xc ->
    dict_hoare (dict_sinv st0) (dict_comp_ok doc (xc_name xc)) True True
      (dict_build_component_type bn cmap fuel building st xc).
  Proof.
    induction fuel as [|f IH]; intros building st0 st xc Hst Hxc; [cbn; auto|].
    cbn [dict_build_component_type].
    destruct (dict_bmem (xc_name xc) building); [cbn; auto|].
    eapply dict_hoare_bind.
    - apply dict_parts_sound; [|exact Hst].
      apply dict_fob_sound. intros st1 xc1 Hst1 Hxc1. apply IH; auto.
    - intros sp Hs HP. cbn. split; auto.
      exists xc. split; auto. cbn. apply dict_parts_ok_expand. exact HP.
  Qed.

  Lemma dict_build_components_sound : forall fuel cs st,
    dict_table_ok doc st -> incl cs (xd_components doc) ->
    match dict_build_components bn cmap fuel cs st with
    | Ok st' => dict_table_ok doc st' /\ incl st st' /\ forall c, In c cs -> exists ct, In (xc_name c, ct) st'
    | _ => True
    end.
  Proof.
    intros fuel. induction cs as [|c cs IH]; intros st Hst Hi; cbn [dict_build_components].
    - split; auto. split; [apply incl_refl|]. intros c [].
    - assert (Hcs : incl cs (xd_components doc)) by (intros x Hx; apply Hi; right; exact Hx).
      destruct (dict_bget (xc_name c) st) as [ct0|] eqn:Eg.
      + specialize (IH st Hst Hcs). destruct (dict_build_components bn cmap fuel cs st) as [st'| | |]; auto.
        destruct IH as [H1 [H2 H3]]. split; auto. split; auto.
        intros c' [Hc'|Hc']; [|auto]. subst c'. exists ct0. apply H2. apply dict_bget_some_key. exact Eg.
      + pose proof (dict_bct_sound fuel [] st st c (dict_sinv_refl st Hst)
                      (dict_comp_find_self doc UN c (Hi c (or_introl eq_refl)))) as HB.
        destruct (dict_build_component_type bn cmap fuel [] st c) as [sc| | |]; cbn [bind]; auto.
        cbn in HB. destruct HB as [[Ht Hinc] Hq].
        assert (Hst2 : dict_table_ok doc ((xc_name c, snd sc) :: fst sc)).
        { intros n ct [He|Hin]; [injection He as <- <-; exact Hq | apply Ht; exact Hin]. }
        specialize (IH _ Hst2 Hcs).
        destruct (dict_build_components bn cmap fuel cs ((xc_name c, snd sc) :: fst sc)) as [st'| | |]; auto.
        destruct IH as [H1 [H2 H3]]. split; auto. split.
        * intros x Hx. apply H2. right. apply Hinc. exact Hx.
        * intros c' [Hc'|Hc']; [|auto]. subst c'. exists (snd sc). apply H2. left. reflexivity.
  Qed.
End Sound.

(* ---- NewMessageDef ---- *)
Fixpoint dict_field_def_ind' (P : dict_field_def -> Prop)
    (H : forall ft r fs, Forall P fs -> P (DFD ft r fs)) (f : dict_field_def) : P f :=
  match f with
  | DFD ft r fs =>
      H ft r fs ((fix go (l : list dict_field_def) : Forall P l :=
                    match l with
                    | [] => Forall_nil P
                    | a :: l' => Forall_cons a (dict_field_def_ind' P H a) (go l')
                    end) fs)
  end.

Lemma dict_all_tags_shape : forall f, sp_all_tags (dict_shape f) = dfd_tag f :: dict_child_tags f.
Proof.
  intro f. induction f as [ft r fs IH] using dict_field_def_ind'. cbn. f_equal.
  induction IH as [|x l Hx Hl IHl]; cbn; auto.
  rewrite Hx. cbn. f_equal. f_equal. exact IHl.
Qed.

Definition dict_field_tags (f : dict_field_def) : list Z := dfd_tag f :: dict_child_tags f.

Lemma dict_fold_process_false : forall fs md,
  let md' := fold_left (fun m f => dict_process_field m f false) fs md in
  (forall x, In x (dmd_fields md') <-> In x (dmd_fields md) \/ exists f, In f fs /\ x = (dfd_tag f, f)) /\
  (forall t, In t (dmd_tags md') <-> In t (dmd_tags md) \/ exists f, In f fs /\ In t (dict_field_tags f)) /\
  dmd_required_tags md' = dmd_required_tags md.
Proof.
  induction fs as [|f fs IH]; intros md; cbn [fold_left].
  - cbn. repeat split; auto; try tauto.
    + intros [H|[f [[] _]]]; auto.
    + intros [H|[f [[] _]]]; auto.
  - specialize (IH (dict_process_field md f false)). cbn zeta in *. destruct IH as [I1 [I2 I3]].
    split; [|split].
    + intro x. rewrite I1. cbn [dict_process_field dmd_fields]. split.
      * intros [[H|H]|[g [Hg He]]]; auto.
        -- right. exists f. split; [left; reflexivity|auto].
        -- right. exists g. split; [right; exact Hg|auto].
      * intros [H|[g [[Hg|Hg] He]]].
        -- left. right. exact H.
        -- subst g. left. left. auto.
        -- right. exists g. auto.
    + intro t. rewrite I2. cbn [dict_process_field dmd_tags]. unfold dict_field_tags. split.
      * intros [H|[g [Hg He]]].
        -- apply in_app_or in H. destruct H as [H|[H|H]]; auto.
           ++ right. exists f. split; [left; reflexivity|right; exact H].
           ++ right. exists f. split; [left; reflexivity|left; exact H].
        -- right. exists g. split; [right; exact Hg|auto].
      * intros [H|[g [[Hg|Hg] He]]].
        -- left. apply in_or_app. right. right. exact H.
        -- subst g. left. apply in_or_app. destruct He as [He|He]; [right; left; exact He|left; exact He].
        -- right. exists g. auto.
    + rewrite I3. reflexivity.
Qed.

Lemma dict_fold_add_required : forall rfs md,
  let md' := fold_left dict_add_required rfs md in
  dmd_fields md' = dmd_fields md /\ dmd_tags md' = dmd_tags md /\
  (forall t, In t (dmd_required_tags md') <-> In t (dmd_required_tags md) \/ In t (map dfd_tag rfs)).
Proof.
  induction rfs as [|f rfs IH]; intros md; cbn [fold_left].
  - cbn. repeat split; auto. intros [H|[]]; auto.
  - specialize (IH (dict_add_required md f)). cbn zeta in *. destruct IH as [I1 [I2 I3]].
    split; [rewrite I1; reflexivity|]. split; [rewrite I2; reflexivity|].
    intro t. rewrite I3. cbn. tauto.
Qed.

Lemma dict_new_message_def_spec : forall parts md,
  let md' := fold_left dict_message_part parts md in
  let fs := flat_map dict_part_fields parts in
  let rfs := flat_map dict_part_required_fields parts in
  (forall x, In x (dmd_fields md') <-> In x (dmd_fields md) \/ exists f, In f fs /\ x = (dfd_tag f, f)) /\
  (forall t, In t (dmd_tags md') <-> In t (dmd_tags md) \/ exists f, In f fs /\ In t (dict_field_tags f)) /\
  (forall t, In t (dmd_required_tags md') <-> In t (dmd_required_tags md) \/ In t (map dfd_tag rfs)).
Proof.
  induction parts as [|p parts IH]; intros md; cbn [fold_left flat_map].
  - cbn. repeat split; auto; try tauto.
    + intros [H|[f [[] _]]]; auto.
    + intros [H|[f [[] _]]]; auto.
  - specialize (IH (dict_message_part md p)). cbn zeta in *. destruct IH as [I1 [I2 I3]].
    assert (P : (forall x, In x (dmd_fields (dict_message_part md p)) <->
                   In x (dmd_fields md) \/ exists f, In f (dict_part_fields p) /\ x = (dfd_tag f, f)) /\
                (forall t, In t (dmd_tags (dict_message_part md p)) <->
                   In t (dmd_tags md) \/ exists f, In f (dict_part_fields p) /\ In t (dict_field_tags f)) /\
                (forall t, In t (dmd_required_tags (dict_message_part md p)) <->
                   In t (dmd_required_tags md) \/ In t (map dfd_tag (dict_part_required_fields p)))).
    { destruct p as [f|c r]; cbn [dict_message_part dict_part_fields dict_part_required_fields].
      - pose proof (dict_fold_process_false [f] md) as Q. cbn zeta in Q. cbn [fold_left] in Q.
        destruct Q as [Q1 [Q2 Q3]].
        split; [|split].
        + intro x. cbn [dict_process_field dmd_fields]. split.
          * intros [H|H]; auto. right. exists f. split; [left; reflexivity|auto].
          * intros [H|[g [[Hg|[]] He]]]; [right; exact H|]. subst g. left. auto.
        + intro t. cbn [dict_process_field dmd_tags]. unfold dict_field_tags. split.
          * intro H. apply in_app_or in H. destruct H as [H|[H|H]]; auto.
            -- right. exists f. split; [left; reflexivity|right; exact H].
            -- right. exists f. split; [left; reflexivity|left; exact H].
          * intros [H|[g [[Hg|[]] He]]].
            -- apply in_or_app. right. right. exact H.
            -- subst g. apply in_or_app. destruct He as [He|He]; [right; left; exact He|left; exact He].
        + intro t. cbn [dict_process_field dmd_required_tags andb].
          destruct (dfd_required f); cbn; tauto.
      - pose proof (dict_fold_process_false (dct_fields c) md) as Q. cbn zeta in Q.
        destruct Q as [Q1 [Q2 Q3]].
        destruct r.
        + pose proof (dict_fold_add_required (dct_required_fields c)
                        (fold_left (fun m f => dict_process_field m f false) (dct_fields c) md)) as R.
          cbn zeta in R. destruct R as [R1 [R2 R3]].
          split; [|split].
          * intro x. rewrite R1. apply Q1.
          * intro t. rewrite R2. apply Q2.
          * intro t. rewrite R3. rewrite Q3. tauto.
        + split; [exact Q1|]. split; [exact Q2|]. intro t. rewrite Q3. cbn. tauto. }
    destruct P as [P1 [P2 P3]].
    split; [|split].
    + intro x. rewrite I1. rewrite P1. split.
      * intros [[H|[f [Hf He]]]|[f [Hf He]]]; auto.
        -- right. exists f. split; [apply in_or_app; left; exact Hf|exact He].
        -- right. exists f. split; [apply in_or_app; right; exact Hf|exact He].
      * intros [H|[f [Hf He]]]; auto. apply in_app_or in Hf. destruct Hf as [Hf|Hf].
        -- left. right. exists f. auto.
        -- right. exists f. auto.
    + intro t. rewrite I2. rewrite P2. split.
      * intros [[H|[f [Hf He]]]|[f [Hf He]]]; auto.
        -- right. exists f. split; [apply in_or_app; left; exact Hf|exact He].
        -- right. exists f. split; [apply in_or_app; right; exact Hf|exact He].
      * intros [H|[f [Hf He]]]; auto. apply in_app_or in Hf. destruct Hf as [Hf|Hf].
        -- left. right. exists f. auto.
        -- right. exists f. auto.
    + intro t. rewrite I3. rewrite P3. rewrite map_app. rewrite in_app_iff. tauto.
Qed.

Lemma dict_message_ok_of_parts : forall doc xm parts,
  Forall2 (dict_part_ok doc) (xc_members xm) parts ->
  c19_message_ok doc xm (dict_new_message_def (xc_name xm) (xc_msgtype xm) parts).
Proof.
  intros doc xm parts HP. apply dict_parts_ok_expand in HP. destruct HP as [He Hr].
  exists (map dict_shape (flat_map dict_part_fields parts)), (map dfd_tag (flat_map dict_part_required_fields parts)).
  split; auto. split; auto.
  pose proof (dict_new_message_def_spec parts (DMD (xc_name xm) (xc_msgtype xm) [] [] [])) as S.
  cbn zeta in S. cbn [dmd_fields dmd_tags dmd_required_tags] in S. destruct S as [S1 [S2 S3]].
  fold (dict_new_message_def (xc_name xm) (xc_msgtype xm) parts) in S1, S2, S3.
  split; [|split; [|split]].
  - intro t. rewrite map_map. split.
    + intro H. apply in_map_iff in H. destruct H as [[t' fd] [Ht Hin]]. cbn in Ht. subst t'.
      apply S1 in Hin. destruct Hin as [[]|[f [Hf Hx]]]. injection Hx as -> ->.
      apply in_map_iff. exists f. split; auto. rewrite dict_shape_eq. reflexivity.
    + intro H. apply in_map_iff in H. destruct H as [f [Ht Hin]]. rewrite dict_shape_eq in Ht. cbn in Ht. subst t.
      apply in_map_iff. exists (dfd_tag f, f). split; auto. apply S1. right. exists f. auto.
  - intro t. rewrite S2. rewrite in_flat_map. split.
    + intros [[]|[f [Hf Ht]]]. exists (dict_shape f). split; [apply in_map; exact Hf|].
      rewrite dict_all_tags_shape. exact Ht.
    + intros [s [Hs Ht]]. apply in_map_iff in Hs. destruct Hs as [f [Hes Hf]]. subst s.
      right. exists f. split; auto. rewrite dict_all_tags_shape in Ht. exact Ht.
  - intro t. rewrite S3. cbn [In]. tauto.
  - intros t fd Hg. apply dict_zget_In in Hg. apply S1 in Hg. destruct Hg as [[]|[f [Hf Hx]]].
    injection Hx as -> ->. split; auto. apply in_map. exact Hf.
Qed.

Section SoundTop.
  Variable doc : xdoc.
  Hypothesis UN : uniquely_named doc.
  Let bn := snd (dict_build_field_types doc).
  Let cmap := dict_component_by_name doc.

  Lemma dict_build_message_def_sound : forall fuel st xm, dict_table_ok doc st ->
    dict_hoare (dict_sinv doc st) (c19_message_ok doc xm) True True (dict_build_message_def bn cmap fuel st xm).
  Proof.
    intros fuel st xm Hst. unfold dict_build_message_def.
    eapply dict_hoare_bind.
    - apply (dict_st_map_hoare _ (dict_sinv doc st) (dict_part_ok doc) True True); [|apply dict_sinv_refl; exact Hst].
      apply Forall_forall. intros m _ s Hs. unfold dict_build_message_part.
      destruct (xm_is_component m) eqn:Ec.
      + destruct (dict_bget (xm_name m) s) as [comp|] eqn:Eg; [|cbn; auto].
        cbn. split; [exact Hs|]. split; [exact Ec|]. split; [reflexivity|].
        apply (proj1 Hs). apply dict_bget_some_key. exact Eg.
      + eapply dict_hoare_bind.
        * apply (dict_field_def_sound doc UN st); auto.
          unfold dict_find_or_build_component_type. apply dict_fob_sound; auto.
          intros st1 xc Hst1 Hxc. apply dict_bct_sound; auto.
        * intros sf Hs' Hq. cbn. split; [exact Hs'|]. split; [exact Ec|exact Hq].
    - intros sp Hs HP. cbn. split; auto. apply dict_message_ok_of_parts. exact HP.
  Qed.

  (* buildMessageDefs: the new entries, most recent first *)
  Lemma dict_build_message_defs_sound : forall fuel ms st acc, dict_table_ok doc st ->
    match dict_build_message_defs bn cmap fuel ms st acc with
    | Ok sa => dict_table_ok doc (fst sa) /\ incl st (fst sa) /\
               exists es, snd sa = rev es ++ acc /\
                 Forall2 (fun xm e => fst e = xc_msgtype xm /\ c19_message_ok doc xm (snd e)) ms es
    | _ => True
    end.
  Proof.
    intros fuel. induction ms as [|m ms IH]; intros st acc Hst; cbn [dict_build_message_defs].
    - split; auto. split; [apply incl_refl|]. exists []. split; auto.
    - pose proof (dict_build_message_def_sound fuel st m Hst) as HM.
      destruct (dict_build_message_def bn cmap fuel st m) as [sm| | |]; cbn [bind]; auto.
      cbn in HM. destruct HM as [[Ht Hi] Hq].
      specialize (IH (fst sm) ((xc_msgtype m, snd sm) :: acc) Ht).
      destruct (dict_build_message_defs bn cmap fuel ms (fst sm) ((xc_msgtype m, snd sm) :: acc)) as [sa| | |]; auto.
      destruct IH as [H1 [H2 [es [He HF]]]]. split; auto. split.
      + intros x Hx. apply H2. apply Hi. exact Hx.
      + exists ((xc_msgtype m, snd sm) :: es). split.
        * rewrite He. cbn [rev]. rewrite <- app_assoc. reflexivity.
        * constructor; auto.
  Qed.

  Lemma dict_build_opt_message_def_sound : forall fuel st o, dict_table_ok doc st ->
    match dict_build_opt_message_def bn cmap fuel st o with
    | Ok so => dict_table_ok doc (fst so) /\ incl st (fst so) /\ c19_opt_message_ok doc o (snd so)
    | _ => True
    end.
  Proof.
    intros fuel st [xm|] Hst; cbn [dict_build_opt_message_def].
    - pose proof (dict_build_message_def_sound fuel st xm Hst) as HM.
      destruct (dict_build_message_def bn cmap fuel st xm) as [sm| | |]; cbn [bind]; auto.
      cbn in HM. destruct HM as [[Ht Hi] Hq]. cbn. auto.
    - cbn. split; auto. split; [apply incl_refl|]. exact I.
  Qed.

  Lemma dict_types_sound : c19_types_ok doc
    (DD [] 0 0 0 (fst (dict_build_field_types doc)) [] [] [] None None).
  Proof.
    unfold c19_types_ok. cbn [dd_field_type_by_tag]. destruct UN as [_ [UNn _]]. split.
    - intros f Hf. exists (dict_build_field_type f). split.
      + rewrite (proj1 (dict_field_types_spec doc)). apply dict_zget_nodup_in.
        * rewrite map_rev. rewrite map_map. cbn. apply NoDup_rev. exact UNn.
        * rewrite <- in_rev. apply in_map_iff. exists f. auto.
      + cbn. repeat split; auto.
    - intros t ft Hg. apply dict_zget_In in Hg. rewrite (proj1 (dict_field_types_spec doc)) in Hg.
      apply in_rev in Hg. apply in_map_iff in Hg. destruct Hg as [f [He Hin]]. injection He as <- <-.
      exists f. cbn. repeat split; auto.
  Qed.
End SoundTop.

Lemma dict_Forall2_in_l {A C} (R : A -> C -> Prop) l l' : Forall2 R l l' ->
  forall x, In x l -> exists y, In y l' /\ R x y.
Proof.
  intro H. induction H as [|a b l l' Hab Hr IH]; intros x Hx; [contradiction|].
  destruct Hx as [Hx|Hx]; [subst; exists b; split; [left; reflexivity|exact Hab]|].
  destruct (IH x Hx) as [y [Hy HR]]. exists y. split; [right; exact Hy|exact HR].
Qed.
Lemma dict_Forall2_in_r {A C} (R : A -> C -> Prop) l l' : Forall2 R l l' ->
  forall y, In y l' -> exists x, In x l /\ R x y.
Proof.
  intro H. induction H as [|a b l l' Hab Hr IH]; intros y Hy; [contradiction|].
  destruct Hy as [Hy|Hy]; [subst; exists a; split; [left; reflexivity|exact Hab]|].
  destruct (IH y Hy) as [x [Hx HR]]. exists x. split; [right; exact Hx|exact HR].
Qed.

(* every component of the document has an expansion (used for: success implies closed and acyclic) *)
Definition dict_components_expand (doc : xdoc) : Prop :=
  forall c, In c (xd_components doc) -> exists ts, sp_expand doc (xc_members c) ts.

Theorem dict_build_sound : forall doc d, uniquely_named doc -> dict_build doc = Ok d ->
  c19_dict_ok doc d /\ dict_components_expand doc /\ sp_header_ok doc.
Proof.
  intros doc d UN H. unfold dict_build in H.
  destruct (dict_beq (xd_type doc) dict_FIX || dict_beq (xd_type doc) dict_FIXT) eqn:Ety; cbn [negb] in H; [|discriminate].
  destruct (dict_atoi (xd_major doc)) as [mj|] eqn:Emj; [|discriminate].
  destruct (dict_atoi (xd_minor doc)) as [mn|] eqn:Emn; [|discriminate].
  cbv zeta in H.
  pose proof (dict_build_components_sound doc UN (dict_fuel doc) (xd_components doc) []) as HC.
  destruct (dict_build_components _ _ _ (xd_components doc) []) as [st1| | |]; cbn [bind] in H; try discriminate.
  destruct HC as [Ht1 [_ Hall]]; [intros n ct []|apply incl_refl|].
  pose proof (dict_build_message_defs_sound doc UN (dict_fuel doc) (xd_messages doc) st1 [] Ht1) as HM.
  destruct (dict_build_message_defs _ _ _ (xd_messages doc) st1 []) as [sm| | |]; cbn [bind] in H; try discriminate.
  destruct HM as [Ht2 [Hi2 [es [Hes HF]]]].
  pose proof (dict_build_opt_message_def_sound doc UN (dict_fuel doc) (fst sm) (xd_header doc) Ht2) as HH.
  destruct (dict_build_opt_message_def _ _ _ (fst sm) (xd_header doc)) as [sh| | |]; cbn [bind] in H; try discriminate.
  destruct HH as [Ht3 [Hi3 Hh]].
  pose proof (dict_build_opt_message_def_sound doc UN (dict_fuel doc) (fst sh) (xd_trailer doc) Ht3) as HT.
  destruct (dict_build_opt_message_def _ _ _ (fst sh) (xd_trailer doc)) as [stl| | |]; cbn [bind] in H; try discriminate.
  destruct HT as [Ht4 [Hi4 Htr]].
  injection H as <-.
  rewrite app_nil_r in Hes.
  assert (Hkeys : map fst es = map xc_msgtype (xd_messages doc)).
  { clear - HF. induction HF as [|xm e ms es' [Hk _] _ IH]; cbn; auto. rewrite Hk, IH. reflexivity. }
  split; [|split].
  - split; [|split; [|split; [|split]]]; cbn [dd_messages dd_header dd_trailer].
    + intros xm Hin. destruct (dict_Forall2_in_l _ _ _ HF xm Hin) as [e [He [Hk Hq]]].
      exists (snd e). split; auto. rewrite Hes. apply dict_bget_nodup_in.
      * rewrite map_rev. rewrite Hkeys. apply NoDup_rev. apply UN.
      * rewrite <- in_rev. destruct e as [k md]. cbn in *. subst k. exact He.
    + intros mt md Hg. rewrite Hes in Hg. apply dict_bget_some_key in Hg. apply in_rev in Hg.
      destruct (dict_Forall2_in_r _ _ _ HF (mt, md) Hg) as [xm [Hin [Hk _]]]. exists xm. split; auto.
    + exact Hh.
    + exact Htr.
    + pose proof (dict_types_sound doc UN) as HTy. exact HTy.
  - intros c Hc. destruct (Hall c Hc) as [ct Hct]. apply Ht1 in Hct.
    destruct Hct as [c' [Hf [He _]]]. rewrite (dict_comp_find_self doc UN c Hc) in Hf. injection Hf as <-. eauto.
  - split; [|split].
    + apply orb_true_iff in Ety. destruct Ety as [E|E]; apply dict_beq_true in E; auto.
    + congruence.
    + congruence.
Qed.
