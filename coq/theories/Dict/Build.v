(* Executable model of datadictionary/build.go and datadictionary.go (DESIGN 4.2), function by function.

   Go maps are association lists: insertion conses in front, lookup returns the first match, so a later
   write to the same key shadows the earlier one exactly as a Go map overwrite does.  Pointers to
   FieldType / ComponentType are values.  Of ComponentType and FieldDef only what is read after
   construction is kept (`fields`, `requiredFields`; `Fields`): `parts`, `requiredParts` and
   FieldDef.requiredFields are written by the constructors and read by nothing in the engine.

   builder.building (the names of the components being built, `building[name] = true` on entry and
   `defer delete` on exit of buildComponentType) is exactly the chain of enclosing buildComponentType
   calls; it is therefore a parameter [building] of [dict_build_component_type] rather than threaded state.
   Recursion through the component table takes fuel = number of components + 1
   (BuildProofs.dict_build_total: the model never returns OutOfFuel or Panic). *)
From Coq Require Import ZArith List Bool String.
From QF Require Import Base.Res Base.Bytes Dict.Xml.
Import ListNotations.
Open Scope Z_scope.

(* ---- maps ---- *)
Fixpoint dict_bget {A} (k : bytes) (m : list (bytes * A)) : option A :=
  match m with
  | [] => None
  | (k', v) :: r => if dict_beq k' k then Some v else dict_bget k r
  end.

Fixpoint dict_zget {A} (k : Z) (m : list (Z * A)) : option A :=
  match m with
  | [] => None
  | (k', v) :: r => if k' =? k then Some v else dict_zget k r
  end.

Fixpoint dict_bmem (k : bytes) (l : list bytes) : bool :=
  match l with
  | [] => false
  | x :: r => if dict_beq x k then true else dict_bmem k r
  end.

(* ---- datadictionary.go types ---- *)
Record dict_field_type : Type := DFT {
  dft_name : bytes; dft_tag : Z; dft_type : bytes;
  dft_enums : list bytes }.   (* keys of Enums in declaration order (nil map = []) *)

(* FieldDef: *FieldType, required, Fields *)
Inductive dict_field_def : Type :=
| DFD (ft : dict_field_type) (req : bool) (fields : list dict_field_def).

Definition dfd_type (f : dict_field_def) := match f with DFD t _ _ => t end.
Definition dfd_tag (f : dict_field_def) : Z := dft_tag (dfd_type f).
Definition dfd_required (f : dict_field_def) : bool := match f with DFD _ r _ => r end.
Definition dfd_fields (f : dict_field_def) := match f with DFD _ _ fs => fs end.
(* FieldDef.IsGroup *)
Definition dfd_is_group (f : dict_field_def) : bool := match dfd_fields f with [] => false | _ => true end.

Record dict_component_type : Type := DCT {
  dct_name : bytes;
  dct_fields : list dict_field_def;            (* Fields() *)
  dct_required_fields : list dict_field_def }. (* RequiredFields() *)

(* MessagePart: *FieldDef or Component{*ComponentType, required} *)
Inductive dict_part : Type :=
| DPField (f : dict_field_def)
| DPComp (c : dict_component_type) (req : bool).

Record dict_message_def : Type := DMD {
  dmd_name : bytes; dmd_msgtype : bytes;
  dmd_fields : list (Z * dict_field_def);   (* Fields map *)
  dmd_required_tags : list Z;               (* RequiredTags set *)
  dmd_tags : list Z }.                      (* Tags set *)

Record dict : Type := DD {
  dd_fix_type : bytes; dd_major : Z; dd_minor : Z; dd_servicepack : Z;
  dd_field_type_by_tag : list (Z * dict_field_type);
  dd_field_type_by_name : list (bytes * dict_field_type);
  dd_messages : list (bytes * dict_message_def);
  dd_component_types : list (bytes * dict_component_type);
  dd_header : option dict_message_def;
  dd_trailer : option dict_message_def }.

(* error codes of build (the Go error texts) *)
Definition DERR_TYPE : Z := 1.               (* "type attribute must be FIX or FIXT" *)
Definition DERR_MAJOR : Z := 2.              (* "major attribute not valid on <fix>" *)
Definition DERR_MINOR : Z := 3.              (* "minor attribute not valid on <fix>" *)
Definition DERR_UNKNOWN_COMPONENT : Z := 4.  (* "unknown component %v" *)
Definition DERR_UNKNOWN_FIELD : Z := 5.      (* "unknown field %v" *)
Definition DERR_CYCLE : Z := 6.              (* "component %v references itself" *)

(* ---- datadictionary.go constructors ---- *)
Definition dict_new_field_def (ft : dict_field_type) (required : bool) : dict_field_def := DFD ft required [].

(* what a part contributes to `fields` / `requiredFields` of the enclosing ComponentType or group *)
Definition dict_part_fields (p : dict_part) : list dict_field_def :=
  match p with
  | DPField f => [f]
  | DPComp c _ => dct_fields c
  end.
Definition dict_part_required_fields (p : dict_part) : list dict_field_def :=
  match p with
  | DPField f => if dfd_required f then [f] else []
  | DPComp c r => if r then dct_required_fields c else []
  end.

(* NewComponentType: one pass over parts appending to fields / requiredFields *)
Definition dict_new_component_type (name : bytes) (parts : list dict_part) : dict_component_type :=
  DCT name (flat_map dict_part_fields parts) (flat_map dict_part_required_fields parts).

(* NewGroupFieldDef (its panic("unknown part") is unreachable: a part is a Component or a *FieldDef) *)
Definition dict_new_group_field_def (ft : dict_field_type) (required : bool) (parts : list dict_part) : dict_field_def :=
  DFD ft required (flat_map dict_part_fields parts).

(* FieldDef.childTags *)
Fixpoint dict_child_tags (f : dict_field_def) : list Z :=
  match f with
  | DFD _ _ fs => flat_map (fun c => dfd_tag c :: dict_child_tags c) fs
  end.

(* NewMessageDef *)
Definition dict_process_field (msg : dict_message_def) (field : dict_field_def) (allow_required : bool) : dict_message_def :=
  DMD (dmd_name msg) (dmd_msgtype msg)
      ((dfd_tag field, field) :: dmd_fields msg)
      (if allow_required && dfd_required field then dfd_tag field :: dmd_required_tags msg else dmd_required_tags msg)
      (dict_child_tags field ++ dfd_tag field :: dmd_tags msg).

Definition dict_add_required (msg : dict_message_def) (f : dict_field_def) : dict_message_def :=
  DMD (dmd_name msg) (dmd_msgtype msg) (dmd_fields msg) (dfd_tag f :: dmd_required_tags msg) (dmd_tags msg).

Definition dict_message_part (msg : dict_message_def) (part : dict_part) : dict_message_def :=
  match part with
  | DPComp c required =>
      let msg1 := fold_left (fun m f => dict_process_field m f false) (dct_fields c) msg in
      (* required in the message only if the component is required *)
      if required then fold_left dict_add_required (dct_required_fields c) msg1 else msg1
  | DPField f => dict_process_field msg f true
  end.

Definition dict_new_message_def (name msg_type : bytes) (parts : list dict_part) : dict_message_def :=
  fold_left dict_message_part parts (DMD name msg_type [] [] []).

(* ---- build.go ---- *)

(* thread the builder state through a loop over XML members *)
Definition dict_st_map {S A C : Type} (f : S -> A -> res (S * C)) : S -> list A -> res (S * list C) :=
  fix loop (s : S) (l : list A) : res (S * list C) :=
    match l with
    | [] => Ok (s, [])
    | a :: r =>
        let* sb := f s a in
        let* sbs := loop (fst sb) r in
        Ok (fst sbs, snd sb :: snd sbs)
    end.

(* buildFieldType *)
Definition dict_build_field_type (f : xfield) : dict_field_type :=
  DFT (xf_name f) (xf_number f) (xf_type f) (xf_values f).

(* buildFieldTypes: (FieldTypeByTag, FieldTypeByName) *)
Definition dict_build_field_types (doc : xdoc) : list (Z * dict_field_type) * list (bytes * dict_field_type) :=
  fold_left (fun m f => let ft := dict_build_field_type f in
                        ((dft_tag ft, ft) :: fst m, (dft_name ft, ft) :: snd m))
            (xd_fields doc) ([], []).

(* b.componentByName *)
Definition dict_component_by_name (doc : xdoc) : list (bytes * xcomponent) :=
  fold_left (fun m c => (xc_name c, c) :: m) (xd_components doc) [].

(* b.dict.ComponentTypes *)
Definition dict_state : Type := list (bytes * dict_component_type).

Section Builder.
  Variable by_name : list (bytes * dict_field_type).       (* b.dict.FieldTypeByName *)
  Variable comp_by_name : list (bytes * xcomponent).       (* b.componentByName *)

  Section Level.
    (* findOrBuildComponentType at the current recursion level *)
    Variable find_or_build : dict_state -> xmember -> res (dict_state * dict_component_type).

    (* buildFieldDef, with buildGroupFieldDef inlined for the structural recursion on the XML tree *)
    Fixpoint dict_build_field_def (st : dict_state) (m : xmember) : res (dict_state * dict_field_def) :=
      match m with
      | XM el n r ms =>
          match dict_bget n by_name with
          | None => Err DERR_UNKNOWN_FIELD
          | Some ft =>
              if dict_beq el el_group then
                let* sp := dict_st_map
                    (fun st1 m1 =>
                       if xm_is_component m1 then
                         let* sc := find_or_build st1 m1 in
                         Ok (fst sc, DPComp (snd sc) (xm_is_required m1))
                       else
                         let* sf := dict_build_field_def st1 m1 in
                         Ok (fst sf, DPField (snd sf)))
                    st ms in
                Ok (fst sp, dict_new_group_field_def ft (dict_beq r xY) (snd sp))
              else Ok (st, dict_new_field_def ft (dict_beq r xY))
          end
      end.

    (* the loop body shared by buildComponentType and buildGroupFieldDef *)
    Definition dict_build_part (st : dict_state) (m : xmember) : res (dict_state * dict_part) :=
      if xm_is_component m then
        let* sc := find_or_build st m in
        Ok (fst sc, DPComp (snd sc) (xm_is_required m))
      else
        let* sf := dict_build_field_def st m in
        Ok (fst sf, DPField (snd sf)).

    (* buildGroupFieldDef *)
    Definition dict_build_group_field_def (st : dict_state) (m : xmember) (ft : dict_field_type)
      : res (dict_state * dict_field_def) :=
      let* sp := dict_st_map dict_build_part st (xm_members m) in
      Ok (fst sp, dict_new_group_field_def ft (xm_is_required m) (snd sp)).
  End Level.

  (* findOrBuildComponentType, given buildComponentType *)
  Definition dict_find_or_build_with
      (build_component_type : dict_state -> xcomponent -> res (dict_state * dict_component_type))
      (st : dict_state) (m : xmember) : res (dict_state * dict_component_type) :=
    match dict_bget (xm_name m) st with
    | Some comp => Ok (st, comp)
    | None =>
        match dict_bget (xm_name m) comp_by_name with
        | None => Err DERR_UNKNOWN_COMPONENT
        | Some xml_comp =>
            let* sc := build_component_type st xml_comp in
            Ok ((xm_name m, snd sc) :: fst sc, snd sc)
        end
    end.

  (* buildComponentType *)
  Fixpoint dict_build_component_type (fuel : nat) (building : list bytes) (st : dict_state) (xc : xcomponent)
    : res (dict_state * dict_component_type) :=
    match fuel with
    | O => OutOfFuel
    | S fuel' =>
        if dict_bmem (xc_name xc) building then Err DERR_CYCLE else
        let* sp := dict_st_map
            (dict_build_part (dict_find_or_build_with (dict_build_component_type fuel' (xc_name xc :: building))))
            st (xc_members xc) in
        Ok (fst sp, dict_new_component_type (xc_name xc) (snd sp))
    end.

  Definition dict_find_or_build_component_type (fuel : nat) (building : list bytes) :=
    dict_find_or_build_with (dict_build_component_type fuel building).

  (* buildComponents *)
  Fixpoint dict_build_components (fuel : nat) (cs : list xcomponent) (st : dict_state) : res dict_state :=
    match cs with
    | [] => Ok st
    | c :: r =>
        match dict_bget (xc_name c) st with
        | Some _ => dict_build_components fuel r st
        | None =>
            let* sc := dict_build_component_type fuel [] st c in
            dict_build_components fuel r ((xc_name c, snd sc) :: fst sc)
        end
    end.

  (* buildMessageDef *)
  Definition dict_build_message_part (fuel : nat) (st : dict_state) (m : xmember) : res (dict_state * dict_part) :=
    if xm_is_component m then
      match dict_bget (xm_name m) st with
      | None => Err DERR_UNKNOWN_COMPONENT
      | Some comp => Ok (st, DPComp comp (xm_is_required m))
      end
    else
      let* sf := dict_build_field_def (dict_find_or_build_component_type fuel []) st m in
      Ok (fst sf, DPField (snd sf)).

  Definition dict_build_message_def (fuel : nat) (st : dict_state) (xm : xcomponent)
    : res (dict_state * dict_message_def) :=
    let* sp := dict_st_map (dict_build_message_part fuel) st (xc_members xm) in
    Ok (fst sp, dict_new_message_def (xc_name xm) (xc_msgtype xm) (snd sp)).

  (* buildMessageDefs *)
  Fixpoint dict_build_message_defs (fuel : nat) (ms : list xcomponent) (st : dict_state)
      (acc : list (bytes * dict_message_def)) : res (dict_state * list (bytes * dict_message_def)) :=
    match ms with
    | [] => Ok (st, acc)
    | m :: r =>
        let* sm := dict_build_message_def fuel st m in
        dict_build_message_defs fuel r (fst sm) ((xc_msgtype m, snd sm) :: acc)
    end.

  Definition dict_build_opt_message_def (fuel : nat) (st : dict_state) (o : option xcomponent)
    : res (dict_state * option dict_message_def) :=
    match o with
    | None => Ok (st, None)
    | Some xm => let* sm := dict_build_message_def fuel st xm in Ok (fst sm, Some (snd sm))
    end.
End Builder.

(* strconv.Atoi *)
Fixpoint dict_digits (l : bytes) (acc : Z) : option Z :=
  match l with
  | [] => Some acc
  | c :: r => if is_digit c then dict_digits r (acc * 10 + (c - 48)) else None
  end.
Definition dict_atoi (s : bytes) : option Z :=
  let neg := match s with 45 :: _ => true | _ => false end in
  let ds := match s with 43 :: r => r | 45 :: r => r | _ => s end in
  match ds with
  | [] => None
  | _ => match dict_digits ds 0 with
         | None => None
         | Some v => let v' := if neg then - v else v in
                     if in_int64b v' then Some v' else None
         end
  end.

Definition dict_fuel (doc : xdoc) : nat := S (List.length (xd_components doc)).

(* builder.build *)
Definition dict_build (doc : xdoc) : res dict :=
  if negb (dict_beq (xd_type doc) dict_FIX || dict_beq (xd_type doc) dict_FIXT) then Err DERR_TYPE else
  match dict_atoi (xd_major doc) with
  | None => Err DERR_MAJOR
  | Some major =>
  match dict_atoi (xd_minor doc) with
  | None => Err DERR_MINOR
  | Some minor =>
      let comp_by_name := dict_component_by_name doc in
      let fts := dict_build_field_types doc in
      let by_name := snd fts in
      let fuel := dict_fuel doc in
      let* st1 := dict_build_components by_name comp_by_name fuel (xd_components doc) [] in
      let* sm := dict_build_message_defs by_name comp_by_name fuel (xd_messages doc) st1 [] in
      let* sh := dict_build_opt_message_def by_name comp_by_name fuel (fst sm) (xd_header doc) in
      let* stl := dict_build_opt_message_def by_name comp_by_name fuel (fst sh) (xd_trailer doc) in
      Ok (DD (xd_type doc) major minor (xd_servicepack doc) (fst fts) by_name (snd sm) (fst stl) (snd sh) (snd stl))
  end end.
