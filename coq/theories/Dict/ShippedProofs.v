(* C19 on the nine shipped specifications: a closed computation by the kernel over the generated terms. *)
From Coq Require Import ZArith List Bool String.
From QF Require Import Base.Res Base.Bytes Dict.Xml Dict.Build Dict.Spec Dict.SpecExec Dict.SpecProofs Gen.Dicts.Index.
Import ListNotations.
Open Scope Z_scope.

Definition c19_shipped_okb (doc : xdoc) : bool :=
  sp_uniqueb doc && sp_closedb doc && sp_acyclicb doc &&
  match dict_build doc with Ok d => c19_check doc d =? 0 | _ => false end.

Definition c19_shipped_statement (doc : xdoc) : Prop :=
  uniquely_named doc /\ closed doc /\ acyclic doc /\
  exists d, dict_build doc = Ok d /\ c19_dict_ok doc d.

Lemma c19_shipped_okb_sound : forall doc, c19_shipped_okb doc = true -> c19_shipped_statement doc.
Proof.
  intros doc H. unfold c19_shipped_okb in H. repeat rewrite andb_true_iff in H.
  destruct H as [[[H1 H2] H3] H4].
  split; [apply sp_uniqueb_sound; auto|]. split; [exact H2|]. split; [apply sp_acyclicb_sound; auto|].
  destruct (dict_build doc) as [d| | |]; try discriminate.
  exists d. split; auto. apply c19_check_sound. apply Z.eqb_eq. exact H4.
Qed.

Lemma c19_shipped_compute : forallb (fun nd => c19_shipped_okb (snd nd)) gen_dicts_shipped = true.
Proof. vm_compute. reflexivity. Qed.

Lemma c19_shipped_all : Forall (fun nd => c19_shipped_statement (snd nd)) gen_dicts_shipped.
Proof.
  apply Forall_forall. intros nd Hin. apply c19_shipped_okb_sound.
  pose proof c19_shipped_compute as H. rewrite forallb_forall in H. apply H. exact Hin.
Qed.

(* the list is the nine files of /repo/spec *)
Lemma c19_shipped_names : map fst gen_dicts_shipped =
  [B "FIX40"; B "FIX41"; B "FIX42"; B "FIX43"; B "FIX44"; B "FIX50"; B "FIX50SP1"; B "FIX50SP2"; B "FIXT11"]%string.
Proof. vm_compute. reflexivity. Qed.
