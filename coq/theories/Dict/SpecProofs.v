(* Soundness of the executable specification functions of SpecExec.v for the relations of Spec.v, and of
   the comparison [c19_check] for [c19_dict_ok]. *)
From Coq Require Import ZArith List Bool Lia.
From QF Require Import Base.Res Base.Bytes Dict.Xml Dict.Build Dict.Spec Dict.SpecExec.
Import ListNotations.
Open Scope Z_scope.

(* ---- basics ---- *)
Lemma dict_beq_true : forall a b, dict_beq a b = true -> a = b.
Proof.
  induction a as [|x a IH]; intros [|y b] H; cbn in H; try discriminate; auto.
  destruct (x =? y) eqn:E; try discriminate.
  apply Z.eqb_eq in E. subst. f_equal. auto.
Qed.
Lemma dict_beq_refl : forall a, dict_beq a a = true.
Proof. induction a as [|x a IH]; cbn; auto. rewrite Z.eqb_refl. exact IH. Qed.
Lemma dict_beq_false : forall a b, dict_beq a b = false -> a <> b.
Proof. intros a b H E. subst. rewrite dict_beq_refl in H. discriminate. Qed.
Lemma dict_beq_sym : forall a b, dict_beq a b = dict_beq b a.
Proof.
  intros a b. destruct (dict_beq a b) eqn:E.
  - apply dict_beq_true in E. subst. symmetry. apply dict_beq_refl.
  - destruct (dict_beq b a) eqn:E2; auto. apply dict_beq_true in E2. subst. rewrite dict_beq_refl in E. discriminate.
Qed.

Lemma dict_bmem_In : forall k l, dict_bmem k l = true <-> In k l.
Proof.
  intros k l. induction l as [|x l IH]; cbn.
  - split; [discriminate | tauto].
  - destruct (dict_beq x k) eqn:E.
    + apply dict_beq_true in E. split; auto.
    + rewrite IH. split; auto. intros [H|H]; auto. subst. rewrite dict_beq_refl in E. discriminate.
Qed.
Lemma dict_bmem_false : forall k l, dict_bmem k l = false <-> ~ In k l.
Proof.
  intros k l. rewrite <- dict_bmem_In. destruct (dict_bmem k l); split; intro H; auto; try discriminate.
  exfalso. apply H. reflexivity.
Qed.

Lemma sp_zmem_In : forall x l, sp_zmem x l = true <-> In x l.
Proof.
  intros x l. induction l as [|y l IH]; cbn.
  - split; [discriminate | tauto].
  - destruct (y =? x) eqn:E.
    + apply Z.eqb_eq in E. split; auto.
    + rewrite IH. apply Z.eqb_neq in E. split; auto. intros [H|H]; auto. contradiction.
Qed.
Lemma sp_zsubset_incl : forall a b, sp_zsubset a b = true -> incl a b.
Proof.
  intros a b H x Hx. unfold sp_zsubset in H. rewrite forallb_forall in H. apply sp_zmem_In. auto.
Qed.
Lemma sp_zset_eqb_sound : forall a b, sp_zset_eqb a b = true -> set_eq a b.
Proof.
  intros a b H. unfold sp_zset_eqb in H. apply andb_true_iff in H. destruct H as [H1 H2].
  intro x. split; [apply (sp_zsubset_incl _ _ H1) | apply (sp_zsubset_incl _ _ H2)].
Qed.
Lemma sp_bsubset_incl : forall a b, sp_bsubset a b = true -> incl a b.
Proof.
  intros a b H x Hx. unfold sp_bsubset in H. rewrite forallb_forall in H. apply dict_bmem_In. auto.
Qed.

Lemma sp_nodup_bytesb_sound : forall l, sp_nodup_bytesb l = true -> NoDup l.
Proof.
  induction l as [|x l IH]; cbn; intro H; constructor.
  - destruct (dict_bmem x l) eqn:E; try discriminate. apply dict_bmem_false. exact E.
  - destruct (dict_bmem x l); try discriminate. auto.
Qed.
Lemma sp_nodup_zb_sound : forall l, sp_nodup_zb l = true -> NoDup l.
Proof.
  induction l as [|x l IH]; cbn; intro H; constructor.
  - destruct (sp_zmem x l) eqn:E; try discriminate. intro HI. apply sp_zmem_In in HI. congruence.
  - destruct (sp_zmem x l); try discriminate. auto.
Qed.
Lemma sp_uniqueb_sound : forall doc, sp_uniqueb doc = true -> uniquely_named doc.
Proof.
  intros doc H. unfold sp_uniqueb in H. repeat rewrite andb_true_iff in H. destruct H as [[[H1 H2] H3] H4].
  repeat split; auto using sp_nodup_bytesb_sound, sp_nodup_zb_sound.
Qed.

(* ---- induction on XML members ---- *)
Fixpoint xmember_ind' (P : xmember -> Prop)
    (H : forall el n r ms, Forall P ms -> P (XM el n r ms)) (m : xmember) : P m :=
  match m with
  | XM el n r ms =>
      H el n r ms ((fix go (l : list xmember) : Forall P l :=
                      match l with
                      | [] => Forall_nil P
                      | a :: l' => Forall_cons a (xmember_ind' P H a) (go l')
                      end) ms)
  end.

Fixpoint sp_tree_ind' (P : sp_tree -> Prop)
    (H : forall g r ks, Forall P ks -> P (SPT g r ks)) (t : sp_tree) : P t :=
  match t with
  | SPT g r ks =>
      H g r ks ((fix go (l : list sp_tree) : Forall P l :=
                   match l with
                   | [] => Forall_nil P
                   | a :: l' => Forall_cons a (sp_tree_ind' P H a) (go l')
                   end) ks)
  end.

Lemma sp_tree_eqb_sound : forall a b, sp_tree_eqb a b = true -> a = b.
Proof.
  intro a. induction a as [g r ks IH] using sp_tree_ind'. intros [g2 r2 k2] H. cbn in H.
  destruct (g =? g2) eqn:Eg; try discriminate. apply Z.eqb_eq in Eg.
  destruct (Bool.eqb r r2) eqn:Er; try discriminate. apply Bool.eqb_prop in Er. subst.
  f_equal. revert k2 H. induction IH as [|x l Hx Hl IHl]; intros [|y k2] H; try discriminate; auto.
  destruct (sp_tree_eqb x y) eqn:E; try discriminate.
  f_equal; auto.
Qed.

(* ---- the walk ---- *)
Lemma xm_is_component_el : forall el n r ms, xm_is_component (XM el n r ms) = dict_beq el el_component.
Proof. reflexivity. Qed.

Section Walk.
  Variable doc : xdoc.

  Section Level.
    Variable ce : bytes -> option (list sp_tree).
    Hypothesis CE : forall n ts, ce n = Some ts ->
      exists c, sp_find_component doc n = Some c /\ sp_expand doc (xc_members c) ts.

    Lemma sp_members_expand_sound : forall ms ts,
      sp_concat_map (sp_member_expand_f doc ce) ms = Some ts -> sp_expand doc ms ts.
    Proof.
      assert (HM : forall m, forall ts, sp_member_expand_f doc ce m = Some ts ->
                 forall ms ts', sp_expand doc ms ts' -> sp_expand doc (m :: ms) (ts ++ ts')).
      { intro m. induction m as [el n r kids IH] using xmember_ind'. intros ts H ms ts' Hr.
        cbn [sp_member_expand_f] in H.
        destruct (dict_beq el el_component) eqn:Ec.
        - destruct (CE _ _ H) as [c [Hc He]].
          eapply spe_component; eauto.
        - destruct (sp_find_field doc n) as [f|] eqn:Ef; try discriminate.
          destruct (dict_beq el el_group) eqn:Eg.
          + destruct (sp_concat_map (sp_member_expand_f doc ce) kids) as [ks|] eqn:Ek; try discriminate.
            injection H as <-. cbn [app].
            change (dict_beq r xY) with (xm_is_required (XM el n r kids)).
            eapply spe_group; eauto. cbn [xm_members].
            clear Ef Hr. revert ks Ek. induction IH as [|k kids' Hk Hks IHks]; intros ks Ek; cbn in Ek.
            * injection Ek as <-. constructor.
            * destruct (sp_member_expand_f doc ce k) as [x|] eqn:E1; try discriminate.
              destruct (sp_concat_map (sp_member_expand_f doc ce) kids') as [y|] eqn:E2; try discriminate.
              injection Ek as <-. apply Hk; auto.
          + injection H as <-. cbn [app].
            change (dict_beq r xY) with (xm_is_required (XM el n r kids)).
            eapply spe_field; eauto. }
      induction ms as [|m ms IH]; intros ts H; cbn in H.
      - injection H as <-. constructor.
      - destruct (sp_member_expand_f doc ce m) as [x|] eqn:E1; try discriminate.
        destruct (sp_concat_map (sp_member_expand_f doc ce) ms) as [y|] eqn:E2; try discriminate.
        injection H as <-. apply HM; auto.
    Qed.

    Variable cr : bytes -> option (list Z).
    Hypothesis CR : forall n rq, cr n = Some rq ->
      exists c, sp_find_component doc n = Some c /\ sp_required doc (xc_members c) rq.

    Lemma sp_members_required_sound : forall ms rq,
      sp_concat_map (sp_member_required_f doc cr) ms = Some rq -> sp_required doc ms rq.
    Proof.
      induction ms as [|m ms IH]; intros rq H; cbn in H.
      - injection H as <-. constructor.
      - destruct (sp_member_required_f doc cr m) as [x|] eqn:E1; try discriminate.
        destruct (sp_concat_map (sp_member_required_f doc cr) ms) as [y|] eqn:E2; try discriminate.
        injection H as <-. specialize (IH _ eq_refl).
        unfold sp_member_required_f in E1.
        destruct (xm_is_component m) eqn:Ec.
        + destruct (xm_is_required m) eqn:Er.
          * destruct (CR _ _ E1) as [c [Hc Hq]]. eapply spr_comp_req; eauto.
          * injection E1 as <-. cbn. apply spr_comp_opt; auto.
        + destruct (xm_is_required m) eqn:Er.
          * destruct (sp_find_field doc (xm_name m)) as [f|] eqn:Ef; try discriminate.
            injection E1 as <-. cbn. eapply spr_field_req; eauto.
          * injection E1 as <-. cbn. apply spr_field_opt; auto.
    Qed.
  End Level.

  Lemma sp_comp_expand_f_sound : forall fuel n ts, sp_comp_expand_f fuel doc n = Some ts ->
    exists c, sp_find_component doc n = Some c /\ sp_expand doc (xc_members c) ts.
  Proof.
    induction fuel as [|f IH]; intros n ts H; cbn in H; try discriminate.
    destruct (sp_find_component doc n) as [c|] eqn:Ec; try discriminate.
    exists c. split; auto. eapply sp_members_expand_sound; eauto.
  Qed.
  Lemma sp_expand_f_sound : forall fuel ms ts, sp_expand_f fuel doc ms = Some ts -> sp_expand doc ms ts.
  Proof.
    intros fuel ms ts H. eapply sp_members_expand_sound; [|exact H]. apply sp_comp_expand_f_sound.
  Qed.

  Lemma sp_comp_required_f_sound : forall fuel n rq, sp_comp_required_f fuel doc n = Some rq ->
    exists c, sp_find_component doc n = Some c /\ sp_required doc (xc_members c) rq.
  Proof.
    induction fuel as [|f IH]; intros n rq H; cbn in H; try discriminate.
    destruct (sp_find_component doc n) as [c|] eqn:Ec; try discriminate.
    exists c. split; auto. eapply sp_members_required_sound; eauto.
  Qed.
  Lemma sp_required_f_sound : forall fuel ms rq, sp_required_f fuel doc ms = Some rq -> sp_required doc ms rq.
  Proof.
    intros fuel ms rq H. eapply sp_members_required_sound; [|exact H]. apply sp_comp_required_f_sound.
  Qed.

  (* acyclicity *)
  Lemma sp_member_refs_f_sound : forall wf ms, forallb (sp_member_refs_f wf) ms = true ->
    forall n, sp_comp_ref ms n -> wf n = true.
  Proof.
    intros wf ms H n R. induction R as [ms m Hin Hc | ms m n Hin Hc Hg R IH].
    - rewrite forallb_forall in H. specialize (H _ Hin). destruct m as [el nm r kids].
      cbn in H. rewrite xm_is_component_el in Hc. rewrite Hc in H. exact H.
    - apply IH. rewrite forallb_forall in H. specialize (H _ Hin). destruct m as [el nm r kids].
      cbn in H. rewrite xm_is_component_el in Hc. rewrite Hc in H.
      unfold xm_is_group in Hg. cbn in Hg. rewrite Hg in H. exact H.
  Qed.

  Lemma sp_comp_wf_f_sound : forall fuel n, sp_comp_wf_f fuel doc n = true -> sp_comp_wf doc n.
  Proof.
    induction fuel as [|f IH]; intros n H; cbn in H; try discriminate.
    constructor. intros c n' Hc R. rewrite Hc in H. apply IH.
    eapply sp_member_refs_f_sound; eauto.
  Qed.
  Lemma sp_acyclicb_sound : sp_acyclicb doc = true -> acyclic doc.
  Proof.
    intros H c Hc. unfold sp_acyclicb in H. rewrite forallb_forall in H.
    eapply sp_comp_wf_f_sound. apply H. exact Hc.
  Qed.
End Walk.

Lemma sp_header_okb_sound : forall doc, sp_header_okb doc = true -> sp_header_ok doc.
Proof.
  intros doc H. unfold sp_header_okb in H. repeat rewrite andb_true_iff in H. destruct H as [[H1 H2] H3].
  split; [|split].
  - apply orb_true_iff in H1. destruct H1 as [H1|H1]; apply dict_beq_true in H1; auto.
  - destruct (dict_atoi (xd_major doc)); congruence.
  - destruct (dict_atoi (xd_minor doc)); congruence.
Qed.

(* ---- the comparison ---- *)
Lemma dict_zget_In : forall A k (m : list (Z * A)) v, dict_zget k m = Some v -> In (k, v) m.
Proof.
  intros A k m v. induction m as [|[k' v'] m IH]; cbn; intro H; try discriminate.
  destruct (k' =? k) eqn:E.
  - apply Z.eqb_eq in E. injection H as <-. subst. auto.
  - auto.
Qed.

Lemma c19_check_message_sound : forall fuel doc xm md,
  c19_check_message fuel doc xm md = 0 -> c19_message_ok doc xm md.
Proof.
  intros fuel doc xm md H. unfold c19_check_message in H.
  destruct (sp_expand_f fuel doc (xc_members xm)) as [ts|] eqn:Et; [|discriminate].
  destruct (sp_required_f fuel doc (xc_members xm)) as [rq|] eqn:Er; [|discriminate].
  destruct (sp_zset_eqb (map fst (dmd_fields md)) (map sp_tag ts)) eqn:E1; [|discriminate].
  destruct (sp_zset_eqb (dmd_tags md) (flat_map sp_all_tags ts)) eqn:E2; [|discriminate].
  destruct (sp_zset_eqb (dmd_required_tags md) rq) eqn:E3; [|discriminate].
  cbn [negb] in H.
  match type of H with (if negb ?b then _ else _) = _ => destruct b eqn:E4; [|discriminate] end.
  exists ts, rq.
  split; [eapply sp_expand_f_sound; eauto|].
  split; [eapply sp_required_f_sound; eauto|].
  split; [apply sp_zset_eqb_sound; assumption|].
  split; [apply sp_zset_eqb_sound; assumption|].
  split; [apply sp_zset_eqb_sound; assumption|].
  intros t fd Hg.
  apply dict_zget_In in Hg. rewrite forallb_forall in E4. specialize (E4 _ Hg). cbn in E4.
  destruct (dfd_tag fd =? t) eqn:E; try discriminate. split.
  - apply Z.eqb_eq; auto.
  - apply existsb_exists in E4. destruct E4 as [x [Hx Hq]]. apply sp_tree_eqb_sound in Hq. subst. auto.
Qed.

Lemma c19_check_opt_message_sound : forall fuel doc ox om,
  c19_check_opt_message fuel doc ox om = 0 -> c19_opt_message_ok doc ox om.
Proof.
  intros fuel doc [xm|] [md|] H; cbn in *; try discriminate; auto.
  eapply c19_check_message_sound; eauto.
Qed.

Lemma sp_field_type_okb_sound : forall f ft, sp_field_type_okb f ft = true -> c19_field_type_ok f ft.
Proof.
  intros f ft H. unfold sp_field_type_okb in H.
  destruct (dft_tag ft =? xf_number f) eqn:E1; try discriminate. apply Z.eqb_eq in E1.
  destruct (dict_beq (dft_name ft) (xf_name f)) eqn:E2; try discriminate. apply dict_beq_true in E2.
  destruct (dict_beq (dft_type ft) (xf_type f)) eqn:E3; try discriminate. apply dict_beq_true in E3.
  destruct (sp_bsubset (dft_enums ft) (xf_values f)) eqn:E4; try discriminate.
  repeat split; auto; apply sp_bsubset_incl; auto.
Qed.

Lemma c19_check_types_sound : forall doc d, c19_check_types doc d = 0 -> c19_types_ok doc d.
Proof.
  intros doc d H. unfold c19_check_types in H.
  match type of H with (if ?a && ?b then _ else _) = _ => destruct a eqn:Ea; destruct b eqn:Eb; try discriminate end.
  split.
  - intros f Hf. rewrite forallb_forall in Ea. specialize (Ea _ Hf).
    destruct (dict_zget (xf_number f) (dd_field_type_by_tag d)) as [ft|]; try discriminate.
    exists ft. split; auto. apply sp_field_type_okb_sound; auto.
  - intros t ft Hg. apply dict_zget_In in Hg. rewrite forallb_forall in Eb. specialize (Eb _ Hg).
    apply existsb_exists in Eb. destruct Eb as [f [Hf Hq]]. cbn in Hq.
    destruct (xf_number f =? t) eqn:E; try discriminate. apply Z.eqb_eq in E.
    exists f. repeat split; auto; apply sp_field_type_okb_sound; auto.
Qed.

Lemma c19_first_failure_0 : forall l, c19_first_failure l = 0 -> Forall (fun x => x = 0) l.
Proof.
  induction l as [|x l IH]; cbn; intro H; constructor.
  - destruct (x =? 0) eqn:E; [apply Z.eqb_eq; auto | apply Z.eqb_neq in E; congruence].
  - destruct (x =? 0) eqn:E; auto. apply Z.eqb_neq in E. congruence.
Qed.

Lemma dict_bget_In : forall A k (m : list (bytes * A)) v, dict_bget k m = Some v -> exists k', In (k', v) m /\ k' = k.
Proof.
  intros A k m v. induction m as [|[k' v'] m IH]; cbn; intro H; try discriminate.
  destruct (dict_beq k' k) eqn:E.
  - apply dict_beq_true in E. injection H as <-. subst. eauto.
  - destruct (IH H) as [k2 [Hi He]]. eauto.
Qed.

Theorem c19_check_sound : forall doc d, c19_check doc d = 0 -> c19_dict_ok doc d.
Proof.
  intros doc d H. unfold c19_check in H. apply c19_first_failure_0 in H.
  apply Forall_app in H. destruct H as [Hm Hr].
  inversion Hr as [|x1 l1 Hx Hr1]; subst. inversion Hr1 as [|x2 l2 Hh Hr2]; subst.
  inversion Hr2 as [|x3 l3 Ht Hr3]; subst. inversion Hr3 as [|x4 l4 Hty _]; subst.
  split; [|split; [|split; [|split]]].
  - intros xm Hin. rewrite Forall_map in Hm. rewrite Forall_forall in Hm. specialize (Hm _ Hin).
    destruct (dict_bget (xc_msgtype xm) (dd_messages d)) as [md|]; try discriminate.
    exists md. split; auto. eapply c19_check_message_sound; eauto.
  - intros mt md Hg.
    match type of Hx with (if ?b then _ else _) = _ => destruct b eqn:Eb; [|discriminate] end.
    apply dict_bget_In in Hg. destruct Hg as [k' [Hi He]]. subst.
    rewrite forallb_forall in Eb. specialize (Eb _ Hi). apply existsb_exists in Eb.
    destruct Eb as [xm [Hxm Hq]]. cbn in Hq. apply dict_beq_true in Hq. eauto.
  - eapply c19_check_opt_message_sound; eauto.
  - eapply c19_check_opt_message_sound; eauto.
  - apply c19_check_types_sound; auto.
Qed.
