(* Byte strings as lists of Z in [0,256) and the few Go library functions on them
   that the engine uses (DESIGN 3.1).  Executable definitions only; lemmas in BytesLemmas.v. *)
From Coq Require Import String Ascii.
From Coq Require Import ZArith List Bool Decimal.
Open Scope list_scope.
Import ListNotations.
Open Scope Z_scope.

Definition byte := Z.
Definition bytes := list Z.

Definition byte_ok (b : Z) : Prop := 0 <= b < 256.
Definition byte_okb (b : Z) : bool := (0 <=? b) && (b <? 256).

Definition SOH : Z := 1.
Definition EQ : Z := 61.      (* '=' *)
Definition MINUS : Z := 45.   (* '-' *)
Definition CH0 : Z := 48.
Definition CH9 : Z := 57.

Definition is_digit (b : Z) : bool := (CH0 <=? b) && (b <=? CH9).

Fixpoint bytes_of_string (s : string) : bytes :=
  match s with
  | EmptyString => []
  | String a r => Z.of_nat (nat_of_ascii a) :: bytes_of_string r
  end.
Notation "'B' s" := (bytes_of_string s) (at level 1, only parsing).

Fixpoint beq_bytes (a b : bytes) : bool :=
  match a, b with
  | [], [] => true
  | x :: a', y :: b' => (x =? y) && beq_bytes a' b'
  | _, _ => false
  end.

(* bytes.IndexByte *)
Fixpoint index_byte (c : Z) (l : bytes) : option nat :=
  match l with
  | [] => None
  | x :: r => if x =? c then Some O else option_map S (index_byte c r)
  end.

(* bytes.Count(l, []byte{c}) *)
Fixpoint count_byte (c : Z) (l : bytes) : nat :=
  match l with
  | [] => O
  | x :: r => if x =? c then S (count_byte c r) else count_byte c r
  end.

(* bytesTotal (tag_value.go) *)
Definition bytes_total (l : bytes) : Z := fold_right Z.add 0 l.

Definition len (l : bytes) : Z := Z.of_nat (length l).

(* has_prefix p l *)
Fixpoint has_prefix (p l : bytes) : bool :=
  match p, l with
  | [], _ => true
  | x :: p', y :: l' => (x =? y) && has_prefix p' l'
  | _ :: _, [] => false
  end.

(* bytes.Index(l, p): index of the first occurrence of p in l *)
Fixpoint index_sub (p l : bytes) : option nat :=
  if has_prefix p l then Some O else
  match l with
  | [] => None
  | _ :: r => option_map S (index_sub p r)
  end.

(* strconv.AppendInt(nil, z, 10) through Coq's decimal library (structural, no fuel). *)
Fixpoint uint_bytes (u : Decimal.uint) : bytes :=
  match u with
  | Nil => []
  | D0 r => 48 :: uint_bytes r | D1 r => 49 :: uint_bytes r | D2 r => 50 :: uint_bytes r
  | D3 r => 51 :: uint_bytes r | D4 r => 52 :: uint_bytes r | D5 r => 53 :: uint_bytes r
  | D6 r => 54 :: uint_bytes r | D7 r => 55 :: uint_bytes r | D8 r => 56 :: uint_bytes r
  | D9 r => 57 :: uint_bytes r
  end.

Definition itoa (z : Z) : bytes :=
  match Z.to_int z with
  | Decimal.Pos u => uint_bytes u
  | Decimal.Neg u => MINUS :: uint_bytes u
  end.

(* left-pad with '0' to width w (fmt "%0wd" for non-negative z) *)
Definition pad_zeros (w : nat) (l : bytes) : bytes :=
  repeat CH0 (w - length l) ++ l.
Definition itoa_pad (w : nat) (z : Z) : bytes :=
  if z <? 0 then MINUS :: pad_zeros (w - 1) (itoa (- z)) else pad_zeros w (itoa z).

(* Go's int is 64-bit two's complement *)
Definition two63 : Z := 9223372036854775808.
Definition two64 : Z := 18446744073709551616.
Definition wrap64 (z : Z) : Z := ((z + two63) mod two64) - two63.
Definition in_int64 (z : Z) : Prop := - two63 <= z < two63.
Definition in_int64b (z : Z) : bool := (- two63 <=? z) && (z <? two63).

(* Go's truncated % on int *)
Definition go_rem (a b : Z) : Z := Z.rem a b.
Definition go_quot (a b : Z) : Z := Z.quot a b.
