(* Result type with Go's partial behaviours made explicit (DESIGN 3.2). *)
From Coq Require Import ZArith List.
Import ListNotations.

Inductive res (A : Type) : Type :=
| Ok (a : A)
| Err (e : Z)        (* an ordinary Go error value; the code is a small enum per function *)
| Panic              (* Go would panic: index/slice out of range, nil dereference, nil-map write *)
| OutOfFuel.         (* a loop that is not structurally recursive ran out of fuel: a hang *)
Arguments Ok {A} a.
Arguments Err {A} e.
Arguments Panic {A}.
Arguments OutOfFuel {A}.

Definition bind {A B} (r : res A) (f : A -> res B) : res B :=
  match r with
  | Ok a => f a
  | Err e => Err e
  | Panic => Panic
  | OutOfFuel => OutOfFuel
  end.

Definition rmap {A B} (f : A -> B) (r : res A) : res B :=
  match r with
  | Ok a => Ok (f a)
  | Err e => Err e
  | Panic => Panic
  | OutOfFuel => OutOfFuel
  end.

Notation "'let*' x ':=' r 'in' k" := (bind r (fun x => k))
  (at level 200, x pattern, r at level 100, k at level 200).

Definition is_ok {A} (r : res A) : bool := match r with Ok _ => true | _ => false end.
Definition is_err {A} (r : res A) : bool := match r with Err _ => true | _ => false end.
Definition is_panic {A} (r : res A) : bool := match r with Panic => true | _ => false end.

(* "returns a value or an error": the C09 notion of termination without crash *)
Definition total_res {A} (r : res A) : Prop := r <> Panic /\ r <> OutOfFuel.

Lemma total_ok {A} (a : A) : total_res (Ok a).
Proof. split; discriminate. Qed.
Lemma total_err {A} e : total_res (@Err A e).
Proof. split; discriminate. Qed.

Lemma total_bind {A B} (r : res A) (f : A -> res B) :
  total_res r -> (forall a, r = Ok a -> total_res (f a)) -> total_res (bind r f).
Proof.
  intros [H1 H2] Hf. destruct r as [a|e| |]; cbn.
  - apply Hf; reflexivity.
  - apply total_err.
  - congruence.
  - congruence.
Qed.
