(* C07 — sequence numbers persist across connections and reset only when agreed.  Statements only.
   Proved: the disconnect frame lemmas (with and without ResetOnDisconnect), the acceptor connect frame, and that the
   expected inbound number never moves backwards except through a store reset, for every event list (from C01).
   Trace level: the disconnect clauses (701/706) and the connect clauses (702/703: a connect changes nothing beyond the
   Logon an initiator sends; a Logon that resets is number 1 with the counters at 2/1) never fail on any model trace.
   Clause 708 (every transmitted Logon with ResetSeqNumFlag=Y is number 1) holds on every trace (WireProofs.v).
   The received-reset-Logon and Logout clauses (704/705/709/710) are evaluated on every trace by c07_check (`_partial`).
   Clause 707 (reply to an accepted reset Logon: flag echoed as number 1; next sender number 2, or 3 when the peer's reset
   Logon is itself numbered above 1 and a ResendRequest is queued as number 2) holds on every trace (LogonProofs.v). *)
From Coq Require Import ZArith List Bool.
From QF Require Import Base.Bytes Session.Types Session.Model Session.Spec Session.LocalProofs Session.C01Proofs Session.FrameProofs Session.TraceProofs Session.ConnectProofs Session.WireProofs Session.LogonProofs.
Import ListNotations.
Open Scope Z_scope.

Theorem c07_disconnect_frame : forall c st snd tgt msgs q hb sr,
  is_connected st = true -> c_reset_on_disconnect c = false ->
  let s' := step (mk c st snd tgt msgs q hb sr) EInClosed in
  s_snd s' = snd /\ s_tgt s' = tgt /\ s_msgs s' = msgs /\ s_st s' = SLatent /\ ~ In CbStoreReset (s_cbs s').
Proof. exact disconnect_keeps_store. Qed.

Theorem c07_reset_on_disconnect : forall c st snd tgt msgs q hb sr,
  is_connected st = true -> c_reset_on_disconnect c = true ->
  let s' := step (mk c st snd tgt msgs q hb sr) EInClosed in
  s_snd s' = 1 /\ s_tgt s' = 1 /\ s_msgs s' = [] /\ In CbStoreReset (s_cbs s').
Proof. exact disconnect_resets_store. Qed.

Theorem c07_acceptor_connect_frame : forall c st snd tgt msgs q hb sr,
  is_connected st = false -> c_role c = Acceptor ->
  let s := {| s_cfg := c; s_st := st; s_snd := snd; s_tgt := tgt; s_msgs := msgs; s_to_send := q; s_out_open := false; s_in_open := false;
              s_in_buf := []; s_sent_reset := sr; s_hb := hb; s_pending_stop := false; s_stopped := false; s_cbs := []; s_wire := [];
              s_closed := false |} in
  let s' := step s EConnect in
  s_snd s' = snd /\ s_tgt s' = tgt /\ s_msgs s' = msgs /\ s_st s' = SLogon /\ s_wire s' = [].
Proof. exact acceptor_connect_keeps_store. Qed.

(* a SequenceReset (or anything else) can only move the expected inbound number forward: across any event list the
   expected number never decreases except in an event that resets the store (clause 103 of c01_check) *)
Theorem c07_expected_number_forward_only : forall (c : cfg) (es : list event),
  c01_check (map obs_of (run_trace es (init_sess c))) = [].
Proof. exact c01_model_ok. Qed.

(* TRACE LEVEL.  For every configuration and every event list the disconnect clauses of c07_check (701: without
   ResetOnDisconnect a lost connection changes neither counter and resets nothing; 706: with it both counters are 1
   afterwards) never fail on the model's trace. *)
Theorem c07_disconnect_clauses_hold_on_every_trace : forall c es,
  free_of [701; 706] (c07_check c (combine es (map obs_of (run_trace es (init_sess c))))) = true.
Proof. exact c07_disconnect_never_fails. Qed.

(* the configuration of a session never changes *)
Theorem c07_configuration_constant : forall c0 s e, s_cfg s = c0 -> s_cfg (step s e) = c0.
Proof. exact step_cfg. Qed.

(* TRACE LEVEL.  For every configuration and every event list the connect clauses of c07_check never fail on the model's
   trace: 702 a connect (while connected, as acceptor, or as initiator without a reset) changes nothing in the store beyond
   the number its Logon takes; 703 a Logon sent with ResetSeqNumFlag=Y or under ResetOnLogon is number 1 and leaves the
   counters at 2 / 1. *)
Theorem c07_connect_clauses_hold_on_every_trace : forall c es,
  free_of [702; 703] (c07_check c (combine es (map obs_of (run_trace es (init_sess c))))) = true.
Proof. exact c07_connect_never_fails. Qed.

(* the Logon an initiator sends on connect, from any state *)
Theorem c07_initiator_connect : forall s, is_connected (s_st s) = false -> c_role (s_cfg s) = Initiator ->
  let s' := step s EConnect in
  exists lg, rev (s_wire s') = [lg] /\ o_type lg = T_LOGON /\
    if logon_resets lg || c_reset_on_logon (s_cfg s)
    then o_seq lg = 1 /\ s_snd s' = 2 /\ s_tgt s' = 1
    else o_seq lg = s_snd s /\ s_snd s' = s_snd s + 1 /\ s_tgt s' = s_tgt s /\ has_reset (rev (s_cbs s')) = false.
Proof. exact initiator_connect_general. Qed.

(* TRACE LEVEL.  Clause 708 never fails: every Logon the engine transmits (or queues) with ResetSeqNumFlag=Y carries
   MsgSeqNum 1, whatever made it send one — connect with a reset option on a fresh store, ResetOnLogon, ResetSeqTime, the
   reply to a peer's reset, or an application that sets the flag in ToAdmin / sends such a Logon itself: the store is
   reset before the number is taken.  Invariant W over the wire log and the outbound queue, closed over every handler. *)
Theorem c07_reset_logon_is_number_one_on_every_trace : forall c es,
  free_of [708] (c07_check c (combine es (map obs_of (run_trace es (init_sess c))))) = true.
Proof. exact c07_reset_logon_is_number_one. Qed.

(* ---- clause 707: the acceptor's reply to an accepted Logon carrying ResetSeqNumFlag=Y ---- *)
(* STEP, exact: from any state in the logon state whose outbound channel is open (every reachable one: `Boundary`) with
   nothing buffered inbound, for every message m with ResetSeqNumFlag=Y: if processing m calls OnLogon, then exactly one
   message is written, it is a Logon with 141=Y and MsgSeqNum 1 (the store is reset before the number is taken), and
   - if m's own MsgSeqNum n is at most 1: next sender number 2, expected number 2, nothing queued, state inSession;
   - if n > 1: doTargetTooHigh (logon state: not yet logged on) numbers a ResendRequest 2 and QUEUES it, so the next
     sender number is 3, the expected number stays 1 and the state is resend. *)
Theorem c07_reset_logon_echo_step : forall s m,
  s_st s = SLogon -> s_out_open s = true -> s_in_buf s = [] -> initiator s = false -> reset_flag m = true ->
  let s' := step s (EIncoming m) in
  In CbOnLogon (s_cbs s') ->
  exists lg n, rev (s_wire s') = [lg] /\ logon_resets lg = true /\ o_seq lg = 1 /\ mi_seq m = FVal n
    /\ (if 1 <? n
        then s_snd s' = 3 /\ s_tgt s' = 1 /\ (exists q, s_to_send s' = [q] /\ o_type q = T_RESENDREQ /\ o_seq q = 2)
             /\ (exists a b d, s_st s' = SResend a b d)
        else s_snd s' = 2 /\ s_tgt s' = 2 /\ s_to_send s' = [] /\ s_st s' = SInSession).
Proof. exact step_logon_reset_echo. Qed.

(* TRACE LEVEL: for every configuration and every event list, clause 707 of c07_check never fails on the model's trace:
   whenever an acceptor in the logon state with nothing buffered inbound accepts (OnLogon called) a directly processed Logon
   carrying ResetSeqNumFlag=Y, the first Logon written in that event carries 141=Y and MsgSeqNum 1, and the next sender
   number is 2 when the received Logon is numbered at most 1 and 3 when it is numbered above 1 (MsgSeqNum too high against
   the fresh store: the ResendRequest queued by doTargetTooHigh took number 2). *)
Theorem c07_reset_logon_echo_holds_on_every_trace : forall c es,
  free_of [707] (c07_check c (combine es (map obs_of (run_trace es (init_sess c))))) = true.
Proof. exact c07_reset_echo_never_fails. Qed.

(* non-vacuity: the guard of the clause fires (reset Logon numbered 1 accepted in the logon state, OnLogon called): reply
   Logon(1, 141=Y), next sender number 2, expected number 2, inSession; c07_check and c20_check report nothing ... *)
Example c07_reset_echo_example :
  let es := [EConnect; EIncoming (lgp_logon 1 7)] in
  map (fun o => (ob_st o, ob_hb o, ob_snd o, ob_tgt o, existsb (fun x => match x with CbOnLogon => true | _ => false end) (ob_cbs o),
                 map (fun w => (o_type w, o_seq w, field_of 141 (o_body w))) (ob_wire o)))
      (map obs_of (run_trace es (init_sess lgp_cfg)))
  = [(ShLogon, 30, 1, 1, false, []); (ShInSession, 7, 2, 2, true, [(T_LOGON, 1, Some lgp_Y)])]
  /\ c07_check lgp_cfg (lgp_trace es) = [] /\ c20_check lgp_cfg (lgp_trace es) = [].
Proof. exact lgp_accept_example. Qed.

(* ... and the other branch: reset Logon numbered 5, reply Logon(1, 141=Y), one message queued (the ResendRequest, number
   2), next sender number 3, expected number 1, recovering; c07_check reports nothing *)
Example c07_reset_echo_ahead_example :
  let es := [EConnect; EIncoming (lgp_logon 5 7)] in
  map (fun o => (sh_is_resend (ob_st o), ob_hb o, ob_snd o, ob_tgt o, ob_tosend o,
                 existsb (fun x => match x with CbOnLogon => true | _ => false end) (ob_cbs o),
                 map (fun w => (o_type w, o_seq w, field_of 141 (o_body w))) (ob_wire o)))
      (map obs_of (run_trace es (init_sess lgp_cfg)))
  = [(false, 30, 1, 1, 0, false, []); (true, 7, 3, 1, 1, true, [(T_LOGON, 1, Some lgp_Y)])]
  /\ c07_check lgp_cfg (lgp_trace es) = [].
Proof. exact lgp_ahead_example. Qed.
