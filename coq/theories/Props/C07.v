(* C07 — sequence numbers persist across connections and reset only when agreed.  Statements only.
   Proved: the disconnect frame lemmas (with and without ResetOnDisconnect), the acceptor connect frame, and that the
   expected inbound number never moves backwards except through a store reset, for every event list (from C01).
   Trace level: the disconnect clauses (701/706) and the connect clauses (702/703: a connect changes nothing beyond the
   Logon an initiator sends; a Logon that resets is number 1 with the counters at 2/1) never fail on any model trace.
   Clause 708 (every transmitted Logon with ResetSeqNumFlag=Y is number 1) holds on every trace (WireProofs.v).
   Clauses 704 (lower NewSeqNo rejected, nothing changes: SeqResetProofs.v) and 710 (ResetOnLogout at a verified Logout:
   LogoutResetProofs.v) hold on every trace.  Clause 709 (an accepted Logon carrying 141=Y resets the store unless it echoes
   a reset Logon we sent on this connection) holds on every trace in which the application does not itself send a Logon
   carrying 141=Y through SendToTarget during the handshake, and is refuted without that hypothesis (ResetEchoProofs.v).
   Clause 705 (no reset without a cause) has no clause in c07_scan; it is stated as a predicate of its own
   (Session/SpecCause.v: c07_cause_check; buffered frames are covered, through drainMessageIn) and holds on every trace
   (ResetCauseProofs.v).  A received Logon carrying 141=Y counts as a cause only when the validator and the application
   (FromAdmin) accept it: a reset Logon that is refused resets nothing (handleLogon verifies before it decides).
   Clause 707 (reply to an accepted reset Logon: flag echoed as number 1; next sender number 2, or 3 when the peer's reset
   Logon is itself numbered above 1 and a ResendRequest is queued as number 2) holds on every trace (LogonProofs.v). *)
From Coq Require Import ZArith List Bool.
From QF Require Import Base.Bytes Session.Types Session.Model Session.Spec Session.LocalProofs Session.C01Proofs Session.FrameProofs Session.TraceProofs Session.ConnectProofs Session.WireProofs Session.LogonProofs Session.SpecCause Session.StashTypeProofs Session.SeqResetProofs Session.ResetEchoProofs Session.LogoutResetProofs Session.ResetCauseProofs.
Import ListNotations.
Open Scope Z_scope.

Theorem c07_disconnect_frame : forall c st snd tgt msgs q hb sr,
  is_connected st = true -> c_reset_on_disconnect c = false ->
  let s' := step (mk c st snd tgt msgs q hb sr) EInClosed in
  s_snd s' = snd /\ s_tgt s' = tgt /\ s_msgs s' = msgs /\ s_st s' = SLatent /\ ~ In CbStoreReset (s_cbs s').
Proof. exact disconnect_keeps_store. Qed.

Theorem c07_reset_on_disconnect : forall c st snd tgt msgs q hb sr,
  is_connected st = true -> c_reset_on_disconnect c = true ->
  let s' := step (mk c st snd tgt msgs q hb sr) EInClosed in
  s_snd s' = 1 /\ s_tgt s' = 1 /\ s_msgs s' = [] /\ In CbStoreReset (s_cbs s').
Proof. exact disconnect_resets_store. Qed.

Theorem c07_acceptor_connect_frame : forall c st snd tgt msgs q hb sr,
  is_connected st = false -> c_role c = Acceptor ->
  let s := {| s_cfg := c; s_st := st; s_snd := snd; s_tgt := tgt; s_msgs := msgs; s_to_send := q; s_out_open := false; s_in_open := false;
              s_in_buf := []; s_sent_reset := sr; s_hb := hb; s_pending_stop := false; s_stopped := false; s_cbs := []; s_wire := [];
              s_closed := false |} in
  let s' := step s EConnect in
  s_snd s' = snd /\ s_tgt s' = tgt /\ s_msgs s' = msgs /\ s_st s' = SLogon /\ s_wire s' = [].
Proof. exact acceptor_connect_keeps_store. Qed.

(* a SequenceReset (or anything else) can only move the expected inbound number forward: across any event list the
   expected number never decreases except in an event that resets the store (clause 103 of c01_check) *)
Theorem c07_expected_number_forward_only : forall (c : cfg) (es : list event),
  c01_check (map obs_of (run_trace es (init_sess c))) = [].
Proof. exact c01_model_ok. Qed.

(* TRACE LEVEL.  For every configuration and every event list the disconnect clauses of c07_check (701: without
   ResetOnDisconnect a lost connection changes neither counter and resets nothing; 706: with it both counters are 1
   afterwards) never fail on the model's trace. *)
Theorem c07_disconnect_clauses_hold_on_every_trace : forall c es,
  free_of [701; 706] (c07_check c (combine es (map obs_of (run_trace es (init_sess c))))) = true.
Proof. exact c07_disconnect_never_fails. Qed.

(* the configuration of a session never changes *)
Theorem c07_configuration_constant : forall c0 s e, s_cfg s = c0 -> s_cfg (step s e) = c0.
Proof. exact step_cfg. Qed.

(* TRACE LEVEL.  For every configuration and every event list the connect clauses of c07_check never fail on the model's
   trace: 702 a connect (while connected, as acceptor, or as initiator without a reset) changes nothing in the store beyond
   the number its Logon takes; 703 a Logon sent with ResetSeqNumFlag=Y or under ResetOnLogon is number 1 and leaves the
   counters at 2 / 1. *)
Theorem c07_connect_clauses_hold_on_every_trace : forall c es,
  free_of [702; 703] (c07_check c (combine es (map obs_of (run_trace es (init_sess c))))) = true.
Proof. exact c07_connect_never_fails. Qed.

(* the Logon an initiator sends on connect, from any state *)
Theorem c07_initiator_connect : forall s, is_connected (s_st s) = false -> c_role (s_cfg s) = Initiator ->
  let s' := step s EConnect in
  exists lg, rev (s_wire s') = [lg] /\ o_type lg = T_LOGON /\
    if logon_resets lg || c_reset_on_logon (s_cfg s)
    then o_seq lg = 1 /\ s_snd s' = 2 /\ s_tgt s' = 1
    else o_seq lg = s_snd s /\ s_snd s' = s_snd s + 1 /\ s_tgt s' = s_tgt s /\ has_reset (rev (s_cbs s')) = false.
Proof. exact initiator_connect_general. Qed.

(* TRACE LEVEL.  Clause 708 never fails: every Logon the engine transmits (or queues) with ResetSeqNumFlag=Y carries
   MsgSeqNum 1, whatever made it send one — connect with a reset option on a fresh store, ResetOnLogon, ResetSeqTime, the
   reply to a peer's reset, or an application that sets the flag in ToAdmin / sends such a Logon itself: the store is
   reset before the number is taken.  Invariant W over the wire log and the outbound queue, closed over every handler. *)
Theorem c07_reset_logon_is_number_one_on_every_trace : forall c es,
  free_of [708] (c07_check c (combine es (map obs_of (run_trace es (init_sess c))))) = true.
Proof. exact c07_reset_logon_is_number_one. Qed.

(* ---- clause 707: the acceptor's reply to an accepted Logon carrying ResetSeqNumFlag=Y ---- *)
(* STEP, exact: from any state in the logon state whose outbound channel is open (every reachable one: `Boundary`) with
   nothing buffered inbound, for every message m with ResetSeqNumFlag=Y: if processing m calls OnLogon, then exactly one
   message is written, it is a Logon with 141=Y and MsgSeqNum 1 (the store is reset before the number is taken), and
   - if m's own MsgSeqNum n is at most 1: next sender number 2, expected number 2, nothing queued, state inSession;
   - if n > 1: doTargetTooHigh (logon state: not yet logged on) numbers a ResendRequest 2 and QUEUES it, so the next
     sender number is 3, the expected number stays 1 and the state is resend. *)
Theorem c07_reset_logon_echo_step : forall s m,
  s_st s = SLogon -> s_out_open s = true -> s_in_buf s = [] -> initiator s = false -> reset_flag m = true ->
  let s' := step s (EIncoming m) in
  In CbOnLogon (s_cbs s') ->
  exists lg n, rev (s_wire s') = [lg] /\ logon_resets lg = true /\ o_seq lg = 1 /\ mi_seq m = FVal n
    /\ (if 1 <? n
        then s_snd s' = 3 /\ s_tgt s' = 1 /\ (exists q, s_to_send s' = [q] /\ o_type q = T_RESENDREQ /\ o_seq q = 2)
             /\ (exists a b d, s_st s' = SResend a b d)
        else s_snd s' = 2 /\ s_tgt s' = 2 /\ s_to_send s' = [] /\ s_st s' = SInSession).
Proof. exact step_logon_reset_echo. Qed.

(* TRACE LEVEL: for every configuration and every event list, clause 707 of c07_check never fails on the model's trace:
   whenever an acceptor in the logon state with nothing buffered inbound accepts (OnLogon called) a directly processed Logon
   carrying ResetSeqNumFlag=Y, the first Logon written in that event carries 141=Y and MsgSeqNum 1, and the next sender
   number is 2 when the received Logon is numbered at most 1 and 3 when it is numbered above 1 (MsgSeqNum too high against
   the fresh store: the ResendRequest queued by doTargetTooHigh took number 2). *)
Theorem c07_reset_logon_echo_holds_on_every_trace : forall c es,
  free_of [707] (c07_check c (combine es (map obs_of (run_trace es (init_sess c))))) = true.
Proof. exact c07_reset_echo_never_fails. Qed.

(* non-vacuity: the guard of the clause fires (reset Logon numbered 1 accepted in the logon state, OnLogon called): reply
   Logon(1, 141=Y), next sender number 2, expected number 2, inSession; c07_check and c20_check report nothing ... *)
Example c07_reset_echo_example :
  let es := [EConnect; EIncoming (lgp_logon 1 7)] in
  map (fun o => (ob_st o, ob_hb o, ob_snd o, ob_tgt o, existsb (fun x => match x with CbOnLogon => true | _ => false end) (ob_cbs o),
                 map (fun w => (o_type w, o_seq w, field_of 141 (o_body w))) (ob_wire o)))
      (map obs_of (run_trace es (init_sess lgp_cfg)))
  = [(ShLogon, 30, 1, 1, false, []); (ShInSession, 7, 2, 2, true, [(T_LOGON, 1, Some lgp_Y)])]
  /\ c07_check lgp_cfg (lgp_trace es) = [] /\ c20_check lgp_cfg (lgp_trace es) = [].
Proof. exact lgp_accept_example. Qed.

(* ... and the other branch: reset Logon numbered 5, reply Logon(1, 141=Y), one message queued (the ResendRequest, number
   2), next sender number 3, expected number 1, recovering; c07_check reports nothing *)
Example c07_reset_echo_ahead_example :
  let es := [EConnect; EIncoming (lgp_logon 5 7)] in
  map (fun o => (sh_is_resend (ob_st o), ob_hb o, ob_snd o, ob_tgt o, ob_tosend o,
                 existsb (fun x => match x with CbOnLogon => true | _ => false end) (ob_cbs o),
                 map (fun w => (o_type w, o_seq w, field_of 141 (o_body w))) (ob_wire o)))
      (map obs_of (run_trace es (init_sess lgp_cfg)))
  = [(false, 30, 1, 1, 0, false, []); (true, 7, 3, 1, 1, true, [(T_LOGON, 1, Some lgp_Y)])]
  /\ c07_check lgp_cfg (lgp_trace es) = [].
Proof. exact lgp_ahead_example. Qed.

(* ---- clause 704: a SequenceReset can only move the expected number forward ---- *)
(* STEP: from any plain in-session state with the outbound channel open and nothing queued, for every SequenceReset m
   (GapFillFlag absent, N or Y -- not malformed) that passes the header checks, the validator and the application, whose
   NewSeqNo n is below the expected number (and, for a gap fill, whose own MsgSeqNum is the expected number): the expected
   number is unchanged, the state stays in session, and exactly one message is written, a Reject. *)
Theorem c07_low_sequence_reset_step : forall s m n,
  s_st s = SInSession -> s_out_open s = true -> s_to_send s = [] ->
  mi_type m = T_SEQRESET -> mi_newseq m = FVal n -> n < s_tgt s -> mi_gapfill m <> FBad ->
  hdr_ok (s_cfg s) m -> mi_valid m = VAccept -> mi_app m = VAccept ->
  (is_gapfill m = true -> mi_seq m = FVal (s_tgt s)) ->
  let s' := step s (EIncoming m) in
  s_tgt s' = s_tgt s /\ s_st s' = SInSession /\ s_snd s' = s_snd s + 1
  /\ exists rj, rev (s_wire s') = [rj] /\ o_type rj = T_REJECT.
Proof. exact step_sequence_reset_low. Qed.

(* TRACE LEVEL: clause 704 of c07_check never fails, for every configuration and every event list. *)
Theorem c07_low_sequence_reset_holds_on_every_trace : forall c es,
  free_of [704] (c07_check c (combine es (map obs_of (run_trace es (init_sess c))))) = true.
Proof. exact c07_low_sequence_reset_never_fails. Qed.

(* non-vacuity: expected number 4; a SequenceReset-Reset with NewSeqNo 2 and a GapFill (numbered 4) with NewSeqNo 3 are each
   answered by one Reject and leave the expected number at 4 *)
Example c07_low_sequence_reset_example :
  map (fun o => (ob_st o, ob_tgt o, wire_types (ob_wire o))) (map obs_of (run_trace srx_trace (init_sess srx_cfg)))
  = [(ShLogon, 1, []); (ShInSession, 2, [T_LOGON]); (ShInSession, 3, []); (ShInSession, 4, []);
     (ShInSession, 4, [T_REJECT]); (ShInSession, 4, [T_REJECT])]
  /\ c07_check srx_cfg (combine srx_trace (map obs_of (run_trace srx_trace (init_sess srx_cfg)))) = [].
Proof. exact srx_trace_rejects. Qed.

(* ---- clause 710: ResetOnLogout ---- *)
(* STEP: in every state whose stash holds only sequence-gated messages and gap fills (every reachable one: invariant TS), with
   nothing buffered inbound, logged on (in session, recovering, test request pending) or in the logout state, with
   ResetOnLogout: if processing a Logout m that the application accepts hands a Logout to FromAdmin, both counters are 1
   afterwards and the store was reset in that event -- whatever m's MsgSeqNum. *)
Theorem c07_verified_logout_resets_step : forall s m,
  TS s -> s_in_buf s = [] -> (is_logged_on (s_st s) = true \/ s_st s = SLogout) ->
  c_reset_on_logout (s_cfg s) = true -> mi_type m = T_LOGOUT -> mi_app m = VAccept ->
  let s' := step s (EIncoming m) in
  (exists x, In x (s_cbs s') /\ is_logout_fromadmin x = true) ->
  s_snd s' = 1 /\ s_tgt s' = 1 /\ In CbStoreReset (s_cbs s').
Proof. exact step_logout_resets. Qed.

(* TRACE LEVEL: clause 710 of c07_check never fails, for every configuration and every event list. *)
Theorem c07_verified_logout_resets_on_every_trace : forall c es,
  free_of [710] (c07_check c (combine es (map obs_of (run_trace es (init_sess c))))) = true.
Proof. exact c07_verified_logout_resets. Qed.

(* non-vacuity: ResetOnLogout; a Logout numbered too high resets both counters in the plain state, and in the
   "test request pending while recovering" state *)
Example c07_verified_logout_resets_example :
  map (fun o => (ob_st (snd o), ob_snd (snd o), ob_tgt (snd o), has_reset (ob_cbs (snd o)))) (lox_run lox_plain)
  = [(ShLogon, 1, 1, false); (ShInSession, 2, 2, false); (ShLatent, 1, 1, true)]
  /\ map (fun o => (sh_is_pending (ob_st (snd o)), sh_is_resend (ob_st (snd o)), ob_snd (snd o), ob_tgt (snd o), has_reset (ob_cbs (snd o))))
         (lox_run lox_pending)
     = [(false, false, 1, 1, false); (false, false, 2, 2, false); (false, true, 3, 2, false); (true, true, 4, 2, false);
        (false, false, 1, 1, true)]
  /\ c07_check lox_cfg (lox_run lox_plain) = [] /\ c07_check lox_cfg (lox_run lox_pending) = [].
Proof. exact lox_traces_reset. Qed.

(* ---- clause 709: a received reset Logon resets the store unless it echoes ours ---- *)
(* STEP: in the logon state with nothing buffered, if the engine's sentReset mark is clear, an accepted (OnLogon) Logon
   carrying ResetSeqNumFlag=Y resets the store in that event. *)
Theorem c07_received_reset_logon_resets_step : forall s m,
  s_st s = SLogon -> s_in_buf s = [] -> reset_flag m = true -> s_sent_reset s = false ->
  In CbOnLogon (s_cbs (step s (EIncoming m))) -> In CbStoreReset (s_cbs (step s (EIncoming m))).
Proof. exact step_logon_reset_resets. Qed.

(* TRACE LEVEL: clause 709 never fails on a trace in which the application sends no Logon carrying 141=Y through
   SendToTarget while the session is in the logon state (`handshake_clean`: the predicate reads "we sent a reset Logon" from
   the wire, the engine marks it when the Logon is queued; they agree unless such a Logon is queued and never written). *)
Theorem c07_received_reset_logon_resets_on_clean_traces : forall c es, handshake_clean es (init_sess c) ->
  free_of [709] (c07_check c (combine es (map obs_of (run_trace es (init_sess c))))) = true.
Proof. exact c07_received_reset_logon_resets. Qed.

(* ... in particular when the application never sends such a Logon at all *)
Theorem c07_received_reset_logon_resets_without_app_logon : forall c es, Forall no_app_reset_logon es ->
  free_of [709] (c07_check c (combine es (map obs_of (run_trace es (init_sess c))))) = true.
Proof. exact c07_received_reset_logon_resets_plain. Qed.

(* the hypothesis is satisfiable and the guard fires: an initiator that sent a plain Logon receives a Logon with 141=Y *)
Example c07_received_reset_logon_example :
  Forall no_app_reset_logon rex_clean_trace
  /\ map (fun o => (ob_st (snd o), ob_snd (snd o), ob_tgt (snd o), has_reset (ob_cbs (snd o)),
                    existsb (fun x => match x with CbOnLogon => true | _ => false end) (ob_cbs (snd o))))
         (rex_run (rex_cfg Initiator) rex_clean_trace)
     = [(ShLogon, 2, 1, false, false); (ShInSession, 1, 2, true, true)]
  /\ c07_check (rex_cfg Initiator) (rex_run (rex_cfg Initiator) rex_clean_trace) = [].
Proof. exact (conj rex_clean_trace_ok rex_clean_trace_resets). Qed.

(* REFUTED without the hypothesis: the application sends a Logon carrying 141=Y during the handshake (queued, never
   written); the peer's reset Logon is then accepted without a reset although nothing carrying 141=Y was sent. *)
Theorem c07_received_reset_logon_refuted :
  exists c es, c07_check c (combine es (map obs_of (run_trace es (init_sess c)))) = [(2%nat, 709)].
Proof. exact c07_709_app_reset_logon_refuted. Qed.

(* ---- clause 705: no reset without a cause ---- *)
(* STEP: with no reset option configured, from every state whose stash holds only sequence-gated messages and gap fills
   (invariant TS) and whose inbound buffer holds no accepted Logon carrying 141=Y (whatever else is buffered: the buffered
   frames are handled by EDeliver, and by handleDisconnectState before it disconnects), an event that is not a cause resets
   nothing.  The causes (reset_cause): a directly processed Logon carrying 141=Y that the validator AND the application
   (FromAdmin) accept (is_reset_logon: mi_valid = mi_app = VAccept), the ResetSeqTime crossing, an application-sent Logon
   carrying 141=Y.  A Logon carrying 141=Y that the validator rejects or that FromAdmin refuses (RejectLogon or a reject) is
   NOT a cause, directly processed or buffered: handleLogon runs verifyMsgAgainstAppImpl before the reset decision. *)
Theorem c07_no_reset_without_cause_step : forall s e,
  TS s -> buf_clean (s_in_buf s) -> no_reset_option (s_cfg s) = true -> reset_cause e = false ->
  ~ In CbStoreReset (s_cbs (step s e)).
Proof. exact step_no_reset_without_cause. Qed.

(* TRACE LEVEL: the predicate c07_cause_check (Session/SpecCause.v, code 705; it judges every event except those that
   handle buffered frames while an accepted Logon carrying 141=Y may sit in the buffer) reports nothing on any trace of the
   model -- in particular a refused reset Logon never resets the store when no reset option is configured;
   and c07_check itself never reports 705 (its scan has no such clause). *)
Theorem c07_no_reset_without_cause_on_every_trace : forall c es,
  c07_cause_check c (combine es (map obs_of (run_trace es (init_sess c)))) = [].
Proof. exact c07_no_reset_without_cause. Qed.

Theorem c07_check_never_reports_705 : forall c es,
  free_of [705] (c07_check c (combine es (map obs_of (run_trace es (init_sess c))))) = true.
Proof. exact c07_check_no_705. Qed.

(* non-vacuity: counters persist across a reconnect (3 / 3), and the store is reset exactly in the three kinds of cause *)
Example c07_no_reset_without_cause_example :
  map (fun o => (ob_snd (snd o), ob_tgt (snd o), has_reset (ob_cbs (snd o)), reset_cause (fst o))) (rcx_run (rcx_cfg Acceptor) rcx_trace)
  = [(1, 1, false, false); (2, 2, false, false); (2, 3, false, false); (3, 3, false, false); (3, 3, false, false);
     (3, 3, false, false); (3, 1, true, true); (2, 1, true, true); (2, 1, true, true)]
  /\ c07_cause_check (rcx_cfg Acceptor) (rcx_run (rcx_cfg Acceptor) rcx_trace) = [].
Proof. exact rcx_trace_resets. Qed.

(* a Logon carrying 141=Y that FromAdmin refuses (RejectLogon) or the validator rejects is judged (it is not a cause, and
   does not set `pend` when it is buffered) and resets nothing: processed directly, delivered from the buffer, or handled by
   handleDisconnectState *)
Example c07_refused_reset_logon_resets_nothing_example :
  map (fun o => (ob_inbuf (snd o), has_reset (ob_cbs (snd o)), reset_cause (fst o), arrives_reset (fst o)))
      (rcx_run (rcx_cfg Acceptor) rcx_refused_trace)
  = [(0, false, false, false); (0, false, false, false); (0, false, false, false); (0, false, false, false);
     (0, false, false, false); (1, false, false, false); (0, false, false, false); (0, false, false, false);
     (1, false, false, false); (0, false, false, false)]
  /\ c07_cause_check (rcx_cfg Acceptor) (rcx_run (rcx_cfg Acceptor) rcx_refused_trace) = [].
Proof. exact rcx_refused_trace_keeps. Qed.

(* buffered frames that are not a reset Logon do not excuse a reset: one Heartbeat delivered, one handled by
   handleDisconnectState when the connection is lost; the predicate judges both events; nothing is reset *)
Example c07_no_reset_without_cause_buffered_example :
  map (fun o => (ob_inbuf (snd o), ob_snd (snd o), ob_tgt (snd o), has_reset (ob_cbs (snd o)))) (rcx_run (rcx_cfg Acceptor) rcx_drain_trace)
  = [(0, 1, 1, false); (0, 2, 2, false); (1, 2, 2, false); (2, 2, 2, false); (1, 2, 3, false); (0, 2, 4, false)]
  /\ c07_cause_check (rcx_cfg Acceptor) (rcx_run (rcx_cfg Acceptor) rcx_drain_trace) = [].
Proof. exact rcx_drain_trace_keeps. Qed.
