(* C03 — a ResendRequest is answered by an exact, contiguous, well-formed replay.  Statements only.
   Proved for every store content, range, refusal pattern and configuration with persistence: everything the reply writes
   carries PossDupFlag=Y and is either a SequenceReset-GapFill (123=Y, 36 set) or a stored APPLICATION message replayed
   under its original number with its original type and body and an OrigSendingTime; the store is not modified.
   `_partial`: the contiguity / exact-end clause (the cover chain from BeginSeqNo to min(EndSeqNo,last)+1) is evaluated
   on every trace by c03_reply_check (spec predicate, codes 302/304/308) and not proved; byte-level body identity across
   parse and rebuild is C10/C11's (codec area) and is compared byte-for-byte by the stream. *)
From Coq Require Import ZArith List Bool.
From QF Require Import Base.Bytes Session.Types Session.Model Session.Spec Session.LocalProofs.
Import ListNotations.
Open Scope Z_scope.

Theorem c03_reply_messages_partial : forall s b e ir,
  flushing s -> c_disable_persist (s_cfg s) = false ->
  let s' := resend_messages s b e ir in
  flushing s' /\ s_msgs s' = s_msgs s /\ exists new, s_wire s' = new ++ s_wire s /\ Forall (replay_ok (s_msgs s)) new.
Proof. exact resend_messages_replays. Qed.

(* a gap fill written by the engine starts at the number given and is a well-formed replay item *)
Theorem c03_gap_fill_shape : forall s b e ir, flushing s ->
  let s' := generate_sequence_reset s b e ir in
  flushing s' /\ (exists w, s_wire s' = w :: s_wire s /\ replay_ok (s_msgs s) w /\ o_seq w = b) /\ s_msgs s' = s_msgs s.
Proof. exact gen_seq_reset_flushing. Qed.
