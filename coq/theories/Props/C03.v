(* C03 — a ResendRequest is answered by an exact, contiguous, well-formed replay.  Statements only.
   Proved for every store content, range, refusal pattern and configuration with persistence: everything the reply writes
   carries PossDupFlag=Y and is either a SequenceReset-GapFill (123=Y, 36 set) or a stored APPLICATION message replayed
   under its original number with its original type and body and an OrigSendingTime; the store is not modified.
   Contiguity / exact end (c03_reply_exact_cover): for every store content, range [b, e], refusal pattern and configuration,
   the reply the model writes passes the very predicate the driver evaluates on observed replies (c03_reply_check = []):
   it starts at BeginSeqNo, every gap fill covers only numbers that need no replay (administrative, refused or not stored)
   and points at the next number, every replay is the stored message, and the cover ends at min(EndSeqNo, last)+1; nothing
   is written for an empty range.  Hypothesis: the last number of the clipped range is in the store (with persistence) —
   discharged for every reachable state by the store-completeness invariant (c03_store_complete, c03_reachable_reply_exact).  Byte-level body identity across parse and
   rebuild is C10/C11's (codec area) and is compared byte-for-byte by the stream. *)
From Coq Require Import ZArith List Bool.
From QF Require Import Base.Bytes Session.Types Session.Model Session.Spec Session.LocalProofs Session.ResendProofs Session.StoreProofs Session.C03TraceProofs.
Import ListNotations.
Open Scope Z_scope.

Theorem c03_reply_messages_partial : forall s b e ir,
  flushing s -> c_disable_persist (s_cfg s) = false ->
  let s' := resend_messages s b e ir in
  flushing s' /\ s_msgs s' = s_msgs s /\ exists new, s_wire s' = new ++ s_wire s /\ Forall (replay_ok (s_msgs s)) new.
Proof. exact resend_messages_replays. Qed.

(* a gap fill written by the engine starts at the number given and is a well-formed replay item *)
Theorem c03_gap_fill_shape : forall s b e ir, flushing s ->
  let s' := generate_sequence_reset s b e ir in
  flushing s' /\ (exists w, s_wire s' = w :: s_wire s /\ replay_ok (s_msgs s) w /\ o_seq w = b) /\ s_msgs s' = s_msgs s.
Proof. exact gen_seq_reset_flushing. Qed.

(* the reply is an exact contiguous cover: the trace predicate c03_reply_check accepts what resendMessages writes *)
Theorem c03_reply_exact_cover : forall s m b e0,
  flushing s -> mi_beginseq m = FVal b -> mi_endseq m = FVal e0 -> 1 <= b ->
  let e := clip_end (s_cfg s) (s_snd s) e0 in
  (if c_disable_persist (s_cfg s) then s_msgs s = [] else b <= e -> lookup_msg e (s_msgs s) <> None) ->
  exists new, s_wire (resend_messages s b e m) = new ++ s_wire s
    /\ c03_reply_check (s_cfg s) (s_msgs s) (s_snd s) m (rev new) = [].
Proof. exact c03_reply_check_model. Qed.

Theorem c03_cover_chain : forall s b e ir,
  flushing s -> c_disable_persist (s_cfg s) = false ->
  b <= e -> lookup_msg e (s_msgs s) <> None ->
  exists new, s_wire (resend_messages s b e ir) = new ++ s_wire s
    /\ c03_chain (s_msgs s) (mi_refuse ir) b (rev new) = inl (e + 1).
Proof. exact resend_messages_chain. Qed.

Theorem c03_empty_range_writes_nothing : forall s b e ir,
  c_disable_persist (s_cfg s) = false -> e < b -> resend_messages s b e ir = s.
Proof. exact resend_messages_empty_range. Qed.

(* reachable-state invariant: with persistence every number below the next sender number is stored (without: store empty) *)
Theorem c03_store_complete : forall c es, Forall Complete (run_trace es (init_sess c)).
Proof. exact trace_complete. Qed.

(* in every state reachable by any event list, the reply to a verified ResendRequest is an exact contiguous cover *)
Theorem c03_reachable_reply_exact : forall c es s m s1 b e0,
  In s (init_sess c :: run_trace es (init_sess c)) ->
  verify_select s m false false true = (s1, None) -> flushing s1 ->
  mi_beginseq m = FVal b -> mi_endseq m = FVal e0 -> 1 <= b ->
  exists new, s_wire (resend_messages s1 b (clip_end (s_cfg s1) (s_snd s1) e0) m) = new ++ s_wire s1
    /\ c03_reply_check (s_cfg s1) (s_msgs s1) (s_snd s1) m (rev new) = [].
Proof. exact reachable_reply_exact. Qed.

(* TRACE LEVEL.  c03_check is the trace predicate the driver evaluates on the implementation's observations (the reply to
   every verified ResendRequest processed directly by a logged-on, non-recovering session with nothing queued or buffered,
   judged by c03_reply_check against the store as it was before the request).  On the model it finds nothing, for every
   configuration and every event list. *)
Theorem c03_holds_on_every_trace : forall c es, c03_check c (combine es (map obs_of (run_trace es (init_sess c)))) = [].
Proof. exact c03_model_ok. Qed.
