(* C05 — two engines deliver every application message exactly once across disconnects.  Statements only.
   Model: Net/Pair.v — an initiator and an acceptor session (Session/Model.v) joined by FIFO links; the event list ranges
   over sends on both sides, deliveries, timer events, cuts (everything still in flight is lost; delivering a prefix first
   loses exactly a suffix), reconnects, and recreating either engine on its store.
   Proved (safety, sequence level): on BOTH sides of EVERY run, application messages are handed to the application only at
   the expected number, in strictly increasing order, never twice, and the expected number never moves backwards — across
   cuts, reconnects and restarts.
   `_partial`: that the payload handed over under number n is the payload the other side submitted under n (needs the wire
   invariant of the sender plus C03's coverage clause), and convergence ("delivered = sent once the link stays up") are
   evaluated on every run of the implementation by the `pair` stream's predicate (sig=delivery-not-prefix,
   sig=not-converged) and not proved; TCP, goroutine scheduling and real timers are outside the model. *)
From Coq Require Import ZArith List Bool.
From QF Require Import Base.Bytes Session.Types Session.Model Session.Spec Net.Pair Net.PairProofs.
Import ListNotations.
Open Scope Z_scope.

Theorem c05_each_side_exactly_once_in_order : forall ca cb es,
  c01_check (map obs_of (map p_b (prun_trace es (pinit ca cb)))) = []
  /\ c01_check (map obs_of (map p_a (prun_trace es (pinit ca cb)))) = [].
Proof. exact c05_each_side_in_order. Qed.

(* every transition of either side under any pair event re-establishes the bound "everything handed over so far is below
   the expected number" — also a restart on the store *)
Theorem c05_transitions_preserve_bound : forall p e,
  Succ (p_a p) (p_a (pstep p e)) /\ Succ (p_b p) (p_b (pstep p e)).
Proof. exact pstep_succ. Qed.
