(* C05 — two engines deliver every application message exactly once across disconnects.  Statements only.
   Model: Net/Pair.v — an initiator and an acceptor session (Session/Model.v) joined by FIFO links; the event list ranges
   over sends on both sides, deliveries, timer events, cuts (everything still in flight is lost; delivering a prefix first
   loses exactly a suffix), reconnects, and recreating either engine on its store.
   Proved (safety, sequence level): on BOTH sides of EVERY run, application messages are handed to the application only at
   the expected number, in strictly increasing order, never twice, and the expected number never moves backwards — across
   cuts, reconnects and restarts.
   Proved (safety, payload level; Net/PairLog.v states, Net/PayloadInv.v + Net/PayloadProofs.v prove), for EVERY event list
   (all ten pev constructors, any interleaving):
   - every configuration: every FromApp on one side was made for the harness's reading (minput_of) of a message that carries
     the number, type and body of a message the OTHER side's application submitted under that number (nothing is delivered
     that was not sent; the verdict is accept); every application message in flight, queued or stored is such a copy or
     replay; within an epoch of the sender's store (ended by a store reset) a number names at most one submission, and with
     persistence that submission is what the store holds under the number;
   - sequence resets disabled (NRof): no store reset ever happens, the whole run is one epoch; the list of (number, ClOrdID)
     handed over on one side is a SUBSEQUENCE of the list submitted on the other (exactly once, in submission order), and
     what is handed over under n has the type and body of the sender's stored n;
   - the property's regime (NSof: resets disabled, persistence on, CompIDs set): the expected number never passes the number
     of an application message without handing it over and never runs ahead of the peer's next sender number, hence the
     delivered list is a PREFIX of the submitted list — `c05_safe`, the safety half of the `pair` stream's predicate,
     holds of the model on every run (c05_safe_every_run).
   What the abstract views do not carry: the callback record CbFromApp keeps MsgSeqNum, the verdict and `facts_of` of the
   message (header facts and ClOrdID), not its type and body; the theorems therefore name the message `minput_of c om` the
   callback was made for and state type/body of that (c05_fromapp_only_for_received ties log entries to received messages).
   `_partial`: convergence ("delivered = sent once the link stays up for a few heartbeat intervals") is liveness; the model
   has no fairness; it is evaluated on every run of the implementation by the `pair` stream's predicate (sig=not-converged)
   and not proved; TCP, goroutine scheduling and real timers are outside the model. *)
From Coq Require Import String.
From Coq Require Import ZArith List Bool.
From QF Require Import Base.Bytes Session.Types Session.Model Session.Spec Net.Pair Net.PairProofs
  Net.PairLog Net.PayloadInv Net.PayloadProofs.
Import ListNotations.
Open Scope string_scope.
Open Scope list_scope.
Open Scope Z_scope.

Theorem c05_each_side_exactly_once_in_order : forall ca cb es,
  c01_check (map obs_of (map p_b (prun_trace es (pinit ca cb)))) = []
  /\ c01_check (map obs_of (map p_a (prun_trace es (pinit ca cb)))) = [].
Proof. exact c05_each_side_in_order. Qed.

(* every transition of either side under any pair event re-establishes the bound "everything handed over so far is below
   the expected number" — also a restart on the store *)
Theorem c05_transitions_preserve_bound : forall p e,
  Succ (p_a p) (p_a (pstep p e)) /\ Succ (p_b p) (p_b (pstep p e)).
Proof. exact pstep_succ. Qed.

(* ---------------------------------------------------------------------------------------------------------------- *)
(* Payload identity.  Vocabulary (Net/PairLog.v): `plog` = the pair plus books (l_sent_x: every (number, ClOrdID) the
   application of side x submitted, l_epoch_x: those since the last reset of x's store, l_dlv_x: every (number, ClOrdID)
   handed to x's application); `lstep`/`lrun_trace` run `pstep` and keep the books; `reachable ca cb es g`: g is the initial
   state or visited by the run of es.  Events allowed: every constructor of `pev`, in any order and number. *)

(* the books never steer the run: forgetting them gives exactly the run of Net/Pair.v *)
Theorem c05_books_do_not_steer : forall es g, map l_p (lrun_trace es g) = prun_trace es (l_p g).
Proof. exact lrun_proj. Qed.

(* the harness-level conversion keeps number, type and body of an application message *)
Theorem c05_conversion_keeps_payload : forall c om id, o_body om = app_body id ->
  mi_type (minput_of c om) = o_type om /\ mi_body (minput_of c om) = o_body om /\ mi_seq (minput_of c om) = FVal (o_seq om).
Proof. exact minput_of_payload. Qed.

(* every configuration, every run: whatever is handed to an application (FromApp) was submitted by the other side's
   application and was given that number; the hand-over is for (the reading of) a message with that type and body *)
Theorem c05_handed_over_was_sent : forall ca cb es g, reachable ca cb es g ->
  handed_over_was_sent ca (l_sent_a g) (p_b (l_p g)) /\ handed_over_was_sent cb (l_sent_b g) (p_a (l_p g)).
Proof. exact payload_identity. Qed.

(* every configuration, every run: each application message in flight, in a send queue, written in the last event or in a
   store is a first-time copy or a replay of a submission under its number; the store holds each entry under its own
   number and a look-up by number finds it *)
Theorem c05_in_flight_registered : forall ca cb es g, reachable ca cb es g ->
  let p := l_p g in
  (forall om, In om (p_ab p) \/ In om (s_to_send (p_a p)) \/ In om (wrote (p_a p)) -> registered (l_sent_a g) (o_seq om) om)
  /\ (forall k om, In (k, om) (s_msgs (p_a p)) -> k = o_seq om /\ registered (l_sent_a g) k om /\ lookup_msg k (s_msgs (p_a p)) = Some om)
  /\ (forall om, In om (p_ba p) \/ In om (s_to_send (p_b p)) \/ In om (wrote (p_b p)) -> registered (l_sent_b g) (o_seq om) om)
  /\ (forall k om, In (k, om) (s_msgs (p_b p)) -> k = o_seq om /\ registered (l_sent_b g) k om /\ lookup_msg k (s_msgs (p_b p)) = Some om).
Proof. exact in_flight_registered. Qed.

(* every configuration, every run: in the current epoch of a sender's store a number names at most one submission, and with
   persistence the store holds exactly that submission under the number *)
Theorem c05_epoch_books : forall ca cb es g, reachable ca cb es g ->
  epoch_ok ca (p_a (l_p g)) (l_sent_a g) (l_epoch_a g) /\ epoch_ok cb (p_b (l_p g)) (l_sent_b g) (l_epoch_b g).
Proof. exact epoch_books. Qed.

(* sequence resets disabled: no store reset ever happens on either side; the current epoch is the whole run *)
Theorem c05_no_resets_single_epoch : forall ca cb es g, NRof ca cb -> reachable ca cb es g ->
  ~ In CbStoreReset (s_cbs (p_a (l_p g))) /\ ~ In CbStoreReset (s_cbs (p_b (l_p g)))
  /\ l_epoch_a g = l_sent_a g /\ l_epoch_b g = l_sent_b g.
Proof. exact no_resets_single_epoch. Qed.

(* sequence resets disabled: what one application has received — as a list of (number, ClOrdID), in hand-over order — is a
   subsequence of what the other application submitted: nothing that was not sent, nothing twice, in submission order *)
Theorem c05_delivered_subsequence_of_sent : forall ca cb es g, NRof ca cb -> reachable ca cb es g ->
  subseq (l_dlv_b g) (l_sent_a g) /\ subseq (l_dlv_a g) (l_sent_b g).
Proof. exact delivered_subseq_sent. Qed.

(* sequence resets disabled, persistence on the sending side: the message handed over under n has the type and body of what
   the sender's store holds under n at that moment (stated without the books) *)
Theorem c05_handed_over_is_stored_original : forall ca cb es g, NRof ca cb -> reachable ca cb es g ->
  (c_disable_persist ca = false -> handed_over_is_stored ca (p_a (l_p g)) (p_b (l_p g)))
  /\ (c_disable_persist cb = false -> handed_over_is_stored cb (p_b (l_p g)) (p_a (l_p g))).
Proof. exact stored_original. Qed.

(* sequence resets disabled, messages persisted, CompIDs set (NSof — the property's quantifier): the expected number of one
   side never passes a number the other side gave to an application message without that message having been handed over,
   and never runs ahead of the other side's next sender number *)
Theorem c05_no_number_passed_without_handover : forall ca cb es g, NSof ca cb -> reachable ca cb es g ->
  (forall n id, In (n, id) (l_sent_a g) -> n < s_tgt (p_b (l_p g)) -> In (n, id) (l_dlv_b g))
  /\ (forall n id, In (n, id) (l_sent_b g) -> n < s_tgt (p_a (l_p g)) -> In (n, id) (l_dlv_a g))
  /\ s_tgt (p_b (l_p g)) <= s_snd (p_a (l_p g)) /\ s_tgt (p_a (l_p g)) <= s_snd (p_b (l_p g)).
Proof. exact no_skip. Qed.

(* ... hence what one application has received is a PREFIX of what the other submitted (numbers and ClOrdIDs) *)
Theorem c05_delivered_prefix_of_sent : forall ca cb es g, NSof ca cb -> reachable ca cb es g ->
  (exists r, l_sent_a g = l_dlv_b g ++ r) /\ (exists r, l_sent_b g = l_dlv_a g ++ r).
Proof. exact delivered_prefix_sent. Qed.

(* ... and in the vocabulary of Net/Pair.v alone (no books): the safety predicate `c05_safe` — the one the `pair` stream
   evaluates on the implementation's observation after every event — holds of the model for every event list: the ClOrdIDs
   handed to B's application over the run (delivered_ids of each visited state, in order) are a prefix of the ClOrdIDs
   submitted on A (the PSendA events, in order), and the same from B to A *)
Theorem c05_safe_every_run : forall ca cb es, NSof ca cb ->
  c05_safe (sent_ids_a es) (delivered_ids_b (prun_trace es (pinit ca cb))) = true
  /\ c05_safe (sent_ids_b es) (delivered_ids_a (prun_trace es (pinit ca cb))) = true.
Proof. exact c05_safe_model. Qed.

(* the persistence hypothesis is needed: with PersistMessages=N on the sender (resets disabled, CompIDs set) a message lost in
   a cut is covered by a gap fill and the next one is handed over *)
Theorem c05_safe_without_persistence_refuted :
  NRof c05_ex_ca_nopersist c05_ex_cb /\ ids_set c05_ex_ca_nopersist /\ ids_set c05_ex_cb
  /\ sent_ids_a c05_ex_events_nopersist = [B "o1"; B "o2"]
  /\ delivered_ids_b (prun_trace c05_ex_events_nopersist (pinit c05_ex_ca_nopersist c05_ex_cb)) = [B "o2"]
  /\ c05_safe (sent_ids_a c05_ex_events_nopersist)
              (delivered_ids_b (prun_trace c05_ex_events_nopersist (pinit c05_ex_ca_nopersist c05_ex_cb))) = false.
Proof. exact c05_safe_nopersist_refuted. Qed.

(* the session-level invariant behind these (Net/PayloadInv.v), for any notion R of "registered (number, type, body)" and any
   notion P of "came off the link" whose members pass validator and application: one event keeps it.  SI says: store, send
   queue and wire hold only registered application messages (a replay keeps number, type, body of the stored original), the
   store holds each entry under its own number, numbers strictly descending; stash and inbound buffer hold only P-messages;
   every FromApp of the event was made for a P-message (the log records its MsgSeqNum, verdict and facts_of); under the
   regime NR no store reset is logged; the next sender number and the store only grow unless the store was reset in the
   event; under the regime NS (inbound messages well formed: Pj) written messages have numbers below the next sender number,
   gap fills cover only numbers without a stored application message, and the expected number advances only over numbers
   handed over in this event or not given to an application message by the peer (Skip), staying within `bound` *)
Theorem c05_session_invariant_step :
  forall c (R : Z -> bytes -> list (Z * bytes) -> Prop) (P : minput -> Prop) (NR : Prop) n0 msgs0 (NS : Prop) t0 bound
         (Skip : Z -> Prop) s e,
  (forall m, P m -> mi_valid m = VAccept /\ mi_app m = VAccept /\ exists d, mi_stime m = FVal d) ->
  (NR -> c_reset_on_logon c = false /\ c_reset_on_logout c = false /\ c_reset_on_disconnect c = false) ->
  (NR -> forall m, P m -> beq_bytes (mi_type m) T_LOGON = true -> mi_reset m <> FVal true) ->
  (NS -> NR /\ c_disable_persist c = false) ->
  (NS -> forall m, P m -> Pj bound Skip m) ->
  SI c R P NR n0 msgs0 NS t0 bound Skip s -> ev_ok R P NR s e ->
  SI c R P NR (s_snd s) (s_msgs s) NS (s_tgt s) bound Skip (step s e).
Proof. exact si_step. Qed.

(* ... and the FromApp callbacks of one event are made only for messages the session received: the event's own message, a
   message kept in the recovery stash, or one waiting in the inbound buffer — the log entry carries that message's MsgSeqNum,
   verdict and facts_of (the callback record has no field for type and body; this is the link to them) *)
Theorem c05_fromapp_only_for_received :
  forall c (R : Z -> bytes -> list (Z * bytes) -> Prop) (P : minput -> Prop) (NR : Prop) n0 msgs0 (NS : Prop) t0 bound
         (Skip : Z -> Prop) s e,
  (forall m, P m -> mi_valid m = VAccept /\ mi_app m = VAccept /\ exists d, mi_stime m = FVal d) ->
  (NR -> c_reset_on_logon c = false /\ c_reset_on_logout c = false /\ c_reset_on_disconnect c = false) ->
  (NR -> forall m, P m -> beq_bytes (mi_type m) T_LOGON = true -> mi_reset m <> FVal true) ->
  (NS -> NR /\ c_disable_persist c = false) ->
  (NS -> forall m, P m -> Pj bound Skip m) ->
  SI c R P NR n0 msgs0 NS t0 bound Skip s -> ev_ok R P NR s e ->
  forall q t v f, In (CbFromApp q t v f) (s_cbs (step s e)) ->
  exists m, received s e m /\ P m /\ is_admin (mi_type m) = false /\ q = mi_seq m /\ v = mi_app m /\ f = facts_of m.
Proof. exact fromapp_source. Qed.

(* non-vacuity: a configuration pair in the property's regime (resets disabled, persistence on, CompIDs set); a run through
   a cut, submissions while disconnected, reconnect, gap detection on both sides and PossDup replays, at the end of which
   each side has received exactly what the other submitted *)
Example c05_ex_hypotheses_hold : NSof c05_ex_ca c05_ex_cb.
Proof. exact c05_ex_hyps. Qed.
Example c05_ex_reachable : forall k, reachable c05_ex_ca c05_ex_cb c05_ex_events (c05_ex_at k).
Proof. exact (nth_reachable c05_ex_ca c05_ex_cb c05_ex_events). Qed.
Example c05_ex_replays_delivered :
  map (fun m => (o_type m, o_seq m, is_possdup m)) (p_ab (l_p (c05_ex_at 20)))
    = [(B "D", 2, true); (B "D", 3, true); (B "D", 4, true); (B "4", 5, true)]
  /\ handed (p_b (l_p (c05_ex_at 21))) = [(2, B "o1")]
  /\ l_sent_a (c05_ex_at 24) = [(2, B "o1"); (3, B "o2"); (4, B "o3")] /\ l_dlv_b (c05_ex_at 24) = l_sent_a (c05_ex_at 24)
  /\ l_sent_b (c05_ex_at 24) = [(2, B "r1")] /\ l_dlv_a (c05_ex_at 24) = l_sent_b (c05_ex_at 24)
  /\ sent_ids_a c05_ex_events = [B "o1"; B "o2"; B "o3"]
  /\ delivered_ids_b (prun_trace c05_ex_events (pinit c05_ex_ca c05_ex_cb)) = [B "o1"; B "o2"; B "o3"].
Proof. exact c05_ex_run. Qed.
