(* C20 — keep-alive: heartbeats, test requests and dead-peer disconnect.  Statements only; proofs in Session/LocalProofs.v.
   Each theorem quantifies over every configuration, counters, store content and (where present) inbound message of the
   stated shape.  The trace-level statement "c20_check holds of every model trace" is NOT proved (`_partial`): what is
   proved are the per-step reactions; that they compose over traces is checked by the correspondence stream, and the
   wall-clock spacing of the timers (the real run loop) is outside the model.
   Trace level, proved since: 2001-2004 and 2006 on every trace; 2005 (an inbound message cancels the pending disconnect
   and does not disturb a recovery) on every trace in which the application sends no ResendRequest of its own through
   SendToTarget while a TestRequest is pending, refuted without that hypothesis (Session/PendingProofs.v). *)
From Coq Require Import ZArith List Bool.
From QF Require Import Base.Bytes Session.Types Session.Model Session.Spec Session.LocalProofs Session.FrameProofs Session.TraceProofs Session.KeepAliveProofs Session.LogonProofs Session.ChunkProofs Session.ResendInvProofs Session.TgProofs Session.KeptProofs Session.StashTypeProofs Session.PendingProofs Session.RecoveryProofs Session.Clock Session.ClockProofs Session.ClockArmedProofs.
Import ListNotations.
Open Scope Z_scope.

(* nothing sent for a heartbeat interval, no test request pending: exactly one Heartbeat without TestReqID *)
Theorem c20_heartbeat_in_session : forall c snd tgt msgs hb sr,
  let s' := step (mk c SInSession snd tgt msgs [] hb sr) (ETimeout NeedHeartbeat) in
  rev (s_wire s') = [heartbeat_msg c snd tgt] /\ s_st s' = SInSession /\ s_snd s' = snd + 1 /\ s_tgt s' = tgt.
Proof. exact timer_heartbeat_in_session. Qed.

Theorem c20_heartbeat_while_recovering : forall c snd tgt msgs hb sr stash ce re,
  let s' := step (mk c (SResend stash ce re) snd tgt msgs [] hb sr) (ETimeout NeedHeartbeat) in
  rev (s_wire s') = [heartbeat_msg c snd tgt] /\ s_st s' = SResend stash ce re /\ s_snd s' = snd + 1 /\ s_tgt s' = tgt.
Proof. exact timer_heartbeat_resend. Qed.

(* ... unless a test request is pending: nothing is sent, nothing changes *)
Theorem c20_no_heartbeat_while_pending : forall c snd tgt msgs hb sr i q,
  is_connected i = true ->
  let s' := step (mk c (SPending i) snd tgt msgs q hb sr) (ETimeout NeedHeartbeat) in
  s_wire s' = [] /\ s_st s' = SPending i /\ s_snd s' = snd /\ s_to_send s' = q.
Proof. exact timer_heartbeat_pending. Qed.

(* nothing received for 1.2 intervals: a TestRequest is sent and the disconnect becomes pending around the current state *)
Theorem c20_test_request_in_session : forall c snd tgt msgs hb sr,
  let s' := step (mk c SInSession snd tgt msgs [] hb sr) (ETimeout PeerTimeout) in
  rev (s_wire s') = [testreq_msg c snd tgt] /\ s_st s' = SPending SInSession /\ s_snd s' = snd + 1.
Proof. exact timer_peer_in_session. Qed.

Theorem c20_test_request_while_recovering : forall c snd tgt msgs hb sr stash ce re,
  let s' := step (mk c (SResend stash ce re) snd tgt msgs [] hb sr) (ETimeout PeerTimeout) in
  rev (s_wire s') = [testreq_msg c snd tgt] /\ s_st s' = SPending (SResend stash ce re) /\ s_snd s' = snd + 1.
Proof. exact timer_peer_resend. Qed.

(* nothing arrives for another 1.2 intervals: disconnected, application notified, channel closed *)
Theorem c20_dead_peer : forall c snd tgt msgs hb sr i q,
  is_logged_on i = true -> is_connected i = true ->
  let s' := step (mk c (SPending i) snd tgt msgs q hb sr) (ETimeout PeerTimeout) in
  s_st s' = SLatent /\ In CbOnLogout (s_cbs s') /\ s_closed s' = true /\ s_out_open s' = false /\ s_wire s' = [].
Proof. exact timer_dead_peer. Qed.

(* a TestRequest received in sequence is answered by one Heartbeat carrying the same TestReqID; the number is consumed *)
Theorem c20_echo : forall s m id,
  is_logged_on (s_st s) = true -> s_out_open s = true -> s_to_send s = [] ->
  hdr_ok (s_cfg s) m -> mi_seq m = FVal (s_tgt s) -> mi_valid m = VAccept -> mi_app m = VAccept ->
  is_admin (mi_type m) = true -> mi_testreq m = Some id ->
  let r := handle_test_request s m in
  s_wire (fst r) = {| o_type := T_HEARTBEAT; o_seq := s_snd s; o_hdr := default_hdr s (Some m); o_body := [(112, id)] |} :: s_wire s
  /\ s_tgt (fst r) = s_tgt s + 1 /\ s_snd (fst r) = s_snd s + 1 /\ snd r = SInSession.
Proof. exact test_request_echoed. Qed.

(* an inbound message while the disconnect is pending is handled exactly as in the wrapped state (so the pending
   disconnect is cancelled) ... *)
Theorem c20_cancel : forall i s m, state_fix_msg_in (SPending i) s m = state_fix_msg_in i s m.
Proof. exact pending_handles_as_inner. Qed.

(* ... and a gap recovery in progress is not disturbed: an early message is added to the same stash, nothing is sent *)
Theorem c20_cancel_keeps_recovery : forall s m n stash ce re,
  s_st s = SPending (SResend (Some stash) ce re) ->
  let r := process_reject s m (RTooHigh n (s_tgt s)) in
  fst r = s /\ snd r = SResend (Some (stash_insert n m stash)) ce re.
Proof. exact pending_recovery_undisturbed. Qed.

(* TRACE LEVEL.  For every configuration and every event list, the heartbeat-timer clause (2002: exactly one Heartbeat
   without TestReqID when nothing is queued and no test request is pending; nothing while one is pending) and the
   peer-timer clause (2003: a TestRequest is sent and the state becomes pending) of c20_check never fail on the model's
   trace.  Uses the reachable-state invariant `Boundary` (connected <-> both channels open), proved for all traces. *)
Theorem c20_timer_clauses_hold_on_every_trace : forall c es,
  free_of [2002; 2003] (c20_check c (combine es (map obs_of (run_trace es (init_sess c))))) = true.
Proof. exact c20_timers_never_fail. Qed.

(* TRACE LEVEL: the echo clause (2001: a TestRequest received in sequence by a logged-on, non-recovering session with
   nothing queued or buffered is answered by exactly one Heartbeat carrying its TestReqID, and its number is consumed) and
   the dead-peer clause (2004: a second peer timeout with the TestRequest still unanswered ends the connection, calls
   OnLogout and closes the channel — whatever is still buffered) never fail on the model's trace, for every configuration
   and every event list.  2004 uses the log-monotonicity closure (Session/MonoProofs.v): the callback log only grows
   and the close mark stays within an event, including through drainMessageIn. *)
Theorem c20_echo_holds_on_every_trace : forall c es,
  free_of [2001] (c20_check c (combine es (map obs_of (run_trace es (init_sess c))))) = true.
Proof. exact c20_echo_never_fails. Qed.

Theorem c20_dead_peer_holds_on_every_trace : forall c es,
  free_of [2004] (c20_check c (combine es (map obs_of (run_trace es (init_sess c))))) = true.
Proof. exact c20_dead_peer_never_fails. Qed.

(* An acceptor uses the interval announced in the peer's Logon unless configured to override it.
   STEP: from ANY state in the logon state with nothing buffered inbound (no reachability assumption needed), for every
   message m: if the session is an acceptor without HeartBtIntOverride, m announces HeartBtInt h, and processing m calls
   OnLogon (which only handleLogon's success path does — closure `Quiet` in Session/LogonProofs.v), then the session's
   interval after the event is h. *)
Theorem c20_acceptor_adopts_heartbtint_step : forall s m h,
  s_st s = SLogon -> s_in_buf s = [] -> initiator s = false -> c_hb_override (s_cfg s) = false -> mi_hbint m = FVal h ->
  In CbOnLogon (s_cbs (step s (EIncoming m))) -> s_hb (step s (EIncoming m)) = h.
Proof. exact step_logon_adopts_hb. Qed.

(* TRACE LEVEL: clause 2006 of c20_check never fails on the model's trace, for every configuration and every event list. *)
Theorem c20_acceptor_adopts_heartbtint_on_every_trace : forall c es,
  free_of [2006] (c20_check c (combine es (map obs_of (run_trace es (init_sess c))))) = true.
Proof. exact c20_adopt_never_fails. Qed.

(* non-vacuity: an acceptor configured with 30 s accepts a Logon (number 1, 141=Y) announcing 7 s; in the second event the
   guard of the clause holds (logon state before, OnLogon called) and the interval is 7 afterwards; the predicates report
   nothing *)
Example c20_adopt_example :
  let es := [EConnect; EIncoming (lgp_logon 1 7)] in
  map (fun o => (ob_st o, ob_hb o, ob_snd o, ob_tgt o, existsb (fun x => match x with CbOnLogon => true | _ => false end) (ob_cbs o),
                 map (fun w => (o_type w, o_seq w, field_of 141 (o_body w))) (ob_wire o)))
      (map obs_of (run_trace es (init_sess lgp_cfg)))
  = [(ShLogon, 30, 1, 1, false, []); (ShInSession, 7, 2, 2, true, [(T_LOGON, 1, Some lgp_Y)])]
  /\ c07_check lgp_cfg (lgp_trace es) = [] /\ c20_check lgp_cfg (lgp_trace es) = [].
Proof. exact lgp_accept_example. Qed.

(* ---- clause 2005: an inbound message cancels the pending disconnect without disturbing a recovery in progress ---- *)
(* STEP (b1): recovering (possibly under a pending TestRequest) with kept messages l: after any directly processed message
   that leaves the session logged on and recovering, every kept number above the new expected number is still kept. *)
Theorem c20_kept_messages_survive_step : forall s m l ce re,
  unwrap_pending (s_st s) = SResend (Some l) ce re -> RI s -> LB s -> TS s ->
  let s' := step s (EIncoming m) in
  is_logged_on (s_st s') = true ->
  forall st' c' e', unwrap_pending (s_st s') = SResend st' c' e' ->
  forall k, In k (keys l) -> s_tgt s' < k -> In k (keys (olist st')).
Proof. exact step_keeps_high. Qed.

(* STEP (b2): ... and every ResendRequest written in that event is the next chunk: the chunk end is non-zero and at most
   the new expected number (PQ: no ResendRequest waits in the outbound queue while a TestRequest is pending); whatever is
   buffered inbound (the session stays logged on, so nothing is drained). *)
Theorem c20_request_is_next_chunk_step : forall s m l ce re,
  Boundary s -> RI s -> CI s -> PQ s -> is_pending (s_st s) = true ->
  unwrap_pending (s_st s) = SResend (Some l) ce re ->
  let s' := step s (EIncoming m) in
  is_logged_on (s_st s') = true ->
  forall rq, In rq (resend_requests (rev (s_wire s'))) -> ce <> 0 /\ ce <= s_tgt s'.
Proof. exact step_request_is_chunk. Qed.

(* TRACE LEVEL: clause 2005 of c20_check never fails on a trace in which the application sends no ResendRequest of its own
   through SendToTarget while a TestRequest is pending (`pending_clean`), for every configuration and event list: the state
   after the message is not "pending" (also when the message comes out of the inbound buffer), the kept messages above the
   new expected number survive, and a ResendRequest is written only as the next chunk. *)
Theorem c20_inbound_cancels_pending_on_clean_traces : forall c es, pending_clean es (init_sess c) ->
  free_of [2005] (c20_check c (combine es (map obs_of (run_trace es (init_sess c))))) = true.
Proof. exact c20_inbound_cancels_pending. Qed.

Theorem c20_inbound_cancels_pending_without_app_resend_request : forall c es, Forall no_app_resend_request es ->
  free_of [2005] (c20_check c (combine es (map obs_of (run_trace es (init_sess c))))) = true.
Proof. exact c20_inbound_cancels_pending_plain. Qed.

(* non-vacuity: chunked recovery with two pending episodes; kept 6 and 8 survive, the request written is the next chunk *)
Example c20_inbound_cancels_pending_example :
  Forall no_app_resend_request pdx_trace
  /\ map (fun o => (ob_st (snd o), ob_tgt (snd o), wire_types (ob_wire (snd o)))) (c04x_run (c04x_cfg 2) pdx_trace)
     = [(ShLogon, 1, []); (ShInSession, 2, [T_LOGON]); (ShResend true [6] 3 5, 2, [T_RESENDREQ]);
        (ShPending (ShResend true [6] 3 5), 2, [T_TESTREQ]); (ShResend true [6] 3 5, 3, []);
        (ShResend true [8; 6] 3 5, 3, []); (ShPending (ShResend true [8; 6] 3 5), 3, [T_TESTREQ]);
        (ShResend true [8; 6] 0 5, 4, [T_RESENDREQ])]
  /\ c20_check (c04x_cfg 2) (c04x_run (c04x_cfg 2) pdx_trace) = [].
Proof. exact (conj pdx_trace_plain pdx_trace_recovers). Qed.

(* REFUTED without the hypothesis: an application-sent ResendRequest queued while the TestRequest is pending is flushed by
   the Heartbeat that answers the peer's TestRequest. *)
Theorem c20_inbound_cancels_pending_refuted :
  exists c es, c20_check c (combine es (map obs_of (run_trace es (init_sess c)))) = [(5%nat, 2005)].
Proof. exact c20_2005_app_resend_request_refuted. Qed.

(* C20's "without disturbing a gap recovery in progress" for the timer events themselves; the check evaluates clause 406 on the implementation for C20 too *)
Theorem c20_timers_keep_recovery_on_any_trace : forall c es,
  free_of [406] (c04_check c (combine es (map obs_of (run_trace es (init_sess c))))) = true.
Proof. exact c04_timers_never_disturb_recovery. Qed.

(* ---- "on the real run loop with real timers": the timed wrapper Session/Clock.v (two one-shot deadlines around `step`,
   armed as session.go / in_session.go / pending_timeout.go / logon_state.go arm them) ---- *)

(* nothing sent for the heartbeat interval, in session, nothing queued: when the time passes the heartbeat deadline d (and
   stays before the next deadline) exactly one Heartbeat is written, at d, and the timer is armed for d + HeartBtInt *)
Theorem c20_clock_heartbeat_when_due : forall rearm c snd tgt msgs hb sr now d p out cl upto,
  now <= d -> d <= upto -> d < p -> 0 < hb -> upto < d + 1000 * hb -> upto < p ->
  let ts := {| ts_s := mk c SInSession snd tgt msgs [] hb sr; ts_sd := Some d; ts_pd := Some p; ts_now := now;
               ts_out := out; ts_closed := cl |} in
  let ts' := fire_until rearm 2 ts upto in
  ts_out ts' = (d, heartbeat_msg c snd tgt) :: out /\ ts_sd ts' = Some (d + 1000 * hb) /\ ts_pd ts' = Some p
  /\ s_st (ts_s ts') = SInSession /\ ts_now ts' = upto.
Proof. exact clock_heartbeat_when_due. Qed.

(* every step that writes arms the heartbeat timer one interval ahead; every inbound frame arms the peer timer 1.2 ahead *)
Theorem c20_clock_write_arms : forall rearm ts e,
  wrote_any (step (ts_s ts) e) = true -> ts_sd (apply_at rearm ts e) = Some (ts_now ts + hb_ms (step (ts_s ts) e)).
Proof. exact apply_at_arms_on_write. Qed.
Theorem c20_clock_inbound_arms_peer : forall rearm ts e,
  kind_of e = KInbound -> ts_pd (apply_at rearm ts e) = Some (ts_now ts + peer_ms (step (ts_s ts) e)).
Proof. exact apply_at_inbound_arms_peer. Qed.

(* the scenarios of the `clock` stream on the model: the times the implementation shows within a few ms *)
Example c20_clock_silent_peer :
  let ts := trun true 50 (tinit (ck_cfg Acceptor 30)) ck_silent in
  tout ts = [(0, T_LOGON); (1000, T_HEARTBEAT); (1200, T_TESTREQ)] /\ ts_closed ts = [2400]
  /\ is_logged_on (s_st (ts_s ts)) = false.
Proof. exact clock_silent_peer. Qed.
Example c20_clock_silent_peer_second_connection :
  let ts := trun true 50 (tinit (ck_cfg Acceptor 30)) ck_silent_twice in
  tout ts = [(0, T_LOGON); (1000, T_HEARTBEAT); (1200, T_TESTREQ); (4000, T_LOGON); (5000, T_HEARTBEAT); (5200, T_TESTREQ)]
  /\ ts_closed ts = [6400; 2400].
Proof. exact clock_silent_peer_second_connection. Qed.
Example c20_clock_live_peer :
  let ts := trun true 50 (tinit (ck_cfg Acceptor 30)) ck_alive in
  tout ts = [(0, T_LOGON); (1000, T_HEARTBEAT); (2000, T_HEARTBEAT); (3000, T_HEARTBEAT)] /\ ts_closed ts = [].
Proof. exact clock_live_peer. Qed.

(* F18 and F23: with the timer rules before the repairs the session ends up logged on with the heartbeat timer not armed
   (nothing more is ever sent); with the repaired rules the Heartbeats follow *)
Example c20_clock_late_answer_before_repair_refuted :
  let ts := trun false 50 (tinit (ck_cfg Acceptor 30)) ck_late in
  tout ts = [(0, T_LOGON); (2000, T_HEARTBEAT); (2400, T_TESTREQ)]
  /\ is_logged_on (s_st (ts_s ts)) = true /\ armed ts = false.
Proof. exact clock_late_answer_before_repair_refuted. Qed.
Example c20_clock_late_answer_repaired :
  let ts := trun true 50 (tinit (ck_cfg Acceptor 30)) ck_late in
  tout ts = [(0, T_LOGON); (2000, T_HEARTBEAT); (2400, T_TESTREQ); (6400, T_HEARTBEAT); (8400, T_HEARTBEAT); (10400, T_HEARTBEAT)]
  /\ armed ts = true.
Proof. exact clock_late_answer_repaired. Qed.
Example c20_clock_initiator_slow_logon_before_repair_refuted :
  let ts := trun false 50 (tinit (ck_cfg Initiator 1)) ck_slow_logon in
  tout ts = [(0, T_LOGON)] /\ is_logged_on (s_st (ts_s ts)) = true /\ armed ts = false.
Proof. exact clock_initiator_slow_logon_before_repair_refuted. Qed.
Example c20_clock_initiator_slow_logon_repaired :
  let ts := trun true 50 (tinit (ck_cfg Initiator 1)) ck_slow_logon in
  tout ts = [(0, T_LOGON); (2000, T_HEARTBEAT); (3000, T_HEARTBEAT); (4000, T_HEARTBEAT)] /\ armed ts = true.
Proof. exact clock_initiator_slow_logon_repaired. Qed.

(* TIMED, ON EVERY RUN.  With the repaired arming rules the heartbeat timer is armed in every reachable state of the timed
   model in which the session is logged on with its outbound channel open: any configuration, any external events at any
   times (Connect, inbound frames, application sends, Stop, a closed connection, timer expiries injected by hand included),
   the two timers firing in between.  This is the timed form of "when nothing has been sent for the heartbeat interval a
   Heartbeat is sent" being possible at all: a logged-on session whose heartbeat timer is not armed never sends anything
   again of its own accord.  F18 (the expiry ignored while a TestRequest is pending) and F23 (the expiry ignored in the
   logon state of an initiator, which the Logon answer then logs on without anything being written) were exactly
   violations of it - `c20_clock_late_answer_before_repair_refuted` and `c20_clock_initiator_slow_logon_before_repair_refuted`
   are the two witnesses with the rules before the repairs.  The invariant behind it (Session/ClockArmedProofs.v): whenever
   the session is logged on, or is an initiator that has sent its Logon and waits for the answer, the deadline is set;
   every step into such a state writes to the wire, and in a logged-on state that is not pending the expiry itself writes
   the Heartbeat that re-arms the timer. *)
Theorem c20_clock_armed_on_every_run : forall c fuel es, armed (trun true fuel (tinit c) es) = true.
Proof. exact clock_armed_on_every_run. Qed.
