(* C02 — Outbound messages are numbered consecutively and persisted before sending; replay exclusion.
   Only statements; every proof is `exact <lemma>` (DESIGN 2.2).

   Model: Conc/SendConc.v — small-step concurrent system; thread 0 = session goroutine running any list of
   operations [cop] (sendInReplyTo, SendAppMessages, resendMessages b e, dropAndSend, dropAndReset, handleLogon,
   queueForSend, logon/logout and connect/disconnect state changes), threads 1.. = application goroutines each
   running a list of queueForSend calls; one step = one statement of one enabled thread (sendMutex; resendMutex
   with Go's pending-writer rule). The statement sequences the threads execute are the terms GENERATED from
   session.go / in_session.go / session_state.go by tools/gen_shape (Gen/SendShape.v: gen_send_shape).
   The proofs use the generated terms only through the boolean shape condition [check_shape]
   (Conc/SendConc.v: caprim, carun_s, cnosetout_l, cpok_l), established for them by vm_compute (c02_shape_ok);
   every theorem is proved for EVERY program family passing that check (c02_*_any_shape).
   The event trace [c_trace] is kept NEWEST EVENT FIRST; spec predicates in Conc/ConcSpec.v.

   Visible hypotheses: [forallb cop_ok sess = true] and [cmsgs_ok apps = true]: a Logon carrying ResetSeqNumFlag=Y is
   sent only through dropAndSend (as sendLogonInReplyTo does), never through queueForSend / sendInReplyTo, and the
   session program does not contain OLogonResetUnlocked (= "run whatever was generated for handleLogon, unchecked").
   handleLogon itself is the operation OLogon = "the generated handleLogon program if it passes the shape check
   (clogon_ok), else nothing"; c02_logon_covered shows it is the real program on the current tree.
   History: before repair 6f0521d handleLogon called store.Reset() without sendMutex; the statement is false of that
   program (c02_unlocked_reset_regression). *)
From Coq Require Import ZArith List Bool.
From QF Require Import Conc.ShapeLang Conc.SendConc Conc.ConcSpec Conc.ConcStep1 Conc.ConcStep4 Conc.ConcMain Gen.SendShape.
Import ListNotations.
Open Scope Z_scope.

(* the generated programs satisfy the shape conditions (re-checked by the kernel on every run) *)
Theorem c02_shape_ok : check_shape gen_send_shape = true.
Proof. exact shape_ok. Qed.

(* handleLogon's generated program is well shaped too: OLogon below is the real handleLogon *)
Theorem c02_logon_covered : clogon_ok gen_send_shape = true.
Proof. exact shape_logon_ok. Qed.

(* Clauses (1)-(4), for every number of application threads, every program, every schedule:
   (1) consumed numbers are n, n+1, ... per epoch; (2) the store's next number is one past the last consumed;
   (3) with persistence on, every first-time wire item was saved under the same number with the same bytes earlier,
       with no reset in between; (4) first-time items reach the wire in increasing order within an epoch. *)
Theorem c02_numbering :
  forall persist logged open room sess apps sched s,
    forallb cop_ok sess = true -> cmsgs_ok apps = true ->
    creach gen_send_shape (cinit persist logged open room sess apps) sched s ->
    c02_consec 1 (c_trace (c_sh s)) /\
    c_snd (c_sh s) = c02_expected 1 (c_trace (c_sh s)) /\
    (persist = true -> c02_persisted (c_trace (c_sh s))) /\
    c02_wire_inc (c_trace (c_sh s)).
Proof. exact c02_numbering_gen. Qed.

(* Clause (5): inside one resendMessages execution (resendMutex write lock held) no first-time item reaches the wire
   after a replayed one, and a replayed stored message (PossDup) reaches the wire only inside such an execution.
   FULL statement wanted: the same without [forallb cop_conn sess = true] and for any initial [open].
   _partial: proved while the connection stays open (no OSetOut in the session program, initially open). When
   resendMessages runs during the post-disconnect drain (messageOut == nil) its replays stay in toSend; they are only
   dropped by the next logon's dropAndSend, which the arbitrary operation lists of the model do not force, and a later
   flush would put them on the wire around first-time items. *)
Theorem c02_replay_exclusion_partial :
  forall persist logged room sess apps sched s,
    forallb cop_ok sess = true -> cmsgs_ok apps = true -> forallb cop_conn sess = true ->
    creach gen_send_shape (cinit persist logged true room sess apps) sched s ->
    c02_replay_excl (c_trace (c_sh s)).
Proof. exact c02_replay_gen. Qed.

(* Clause (6), "while logged on every assigned number is transmitted", in SAFETY form.
   FULL statement wanted: every consumed number is eventually on the wire while the session stays logged on.
   _partial: right after a sendQueued step that could send everything (connected; blocking, or messageOut has room
   for the whole queue) every number consumed since the last reset is on the wire, unless a non-empty queue was
   dropped since that reset. Missing: (a) fairness — that the run loop executes SendAppMessages after
   notifyMessageOut (the model does not force any thread to be scheduled); (b) a non-blocking flush on a full channel
   leaves a suffix queued (it re-notifies itself, which again needs (a)). *)
Theorem c02_flush_complete_partial :
  forall persist logged open room sess apps sched s t ch s' l b rest,
    forallb cop_ok sess = true -> cmsgs_ok apps = true ->
    creach gen_send_shape (cinit persist logged open room sess apps) sched s ->
    cthr s t l -> th_pc l = SFlush b :: rest -> cstep gen_send_shape s t ch = Some s' ->
    c_open (c_sh s) = true -> (b = true \/ (length (c_q (c_sh s)) <= c_room (c_sh s))%nat) ->
    c02_no_drop (c_trace (c_sh s')) ->
    forall n, In n (c02_epoch_assigned (c_trace (c_sh s'))) -> In n (c02_epoch_firsts (c_trace (c_sh s'))).
Proof. exact c02_flush_complete_gen. Qed.

(* the same three theorems for EVERY program family that passes the shape check *)
Theorem c02_numbering_any_shape :
  forall sh persist logged open room sess apps sched s,
    check_shape sh = true -> forallb cop_ok sess = true -> cmsgs_ok apps = true ->
    creach sh (cinit persist logged open room sess apps) sched s ->
    c02_consec 1 (c_trace (c_sh s)) /\
    c_snd (c_sh s) = c02_expected 1 (c_trace (c_sh s)) /\
    (persist = true -> c02_persisted (c_trace (c_sh s))) /\
    c02_wire_inc (c_trace (c_sh s)).
Proof. exact c02_safety_of_shape. Qed.

Theorem c02_replay_exclusion_any_shape :
  forall sh persist logged room sess apps sched s,
    check_shape sh = true -> forallb cop_ok sess = true -> cmsgs_ok apps = true -> forallb cop_conn sess = true ->
    creach sh (cinit persist logged true room sess apps) sched s ->
    c02_replay_excl (c_trace (c_sh s)).
Proof. exact c02_replay_of_shape. Qed.

Theorem c02_flush_complete_any_shape :
  forall sh persist logged open room sess apps sched s t ch s' l b rest,
    check_shape sh = true -> forallb cop_ok sess = true -> cmsgs_ok apps = true ->
    creach sh (cinit persist logged open room sess apps) sched s ->
    cthr s t l -> th_pc l = SFlush b :: rest -> cstep sh s t ch = Some s' ->
    c_open (c_sh s) = true -> (b = true \/ (length (c_q (c_sh s)) <= c_room (c_sh s))%nat) ->
    c02_no_drop (c_trace (c_sh s')) ->
    forall n, In n (c02_epoch_assigned (c_trace (c_sh s'))) -> In n (c02_epoch_firsts (c_trace (c_sh s'))).
Proof. exact c02_flush_complete_of_shape. Qed.

(* the boolean predicates evaluated on the implementation's trace decide the Prop forms *)
Theorem c02_consec_decided : forall init tr, c02_consec_b init tr = true <-> c02_consec init tr.
Proof. exact c02_consec_b_iff. Qed.
Theorem c02_persisted_decided : forall tr, c02_persisted_b tr = true <-> c02_persisted tr.
Proof. exact c02_persisted_b_iff. Qed.
Theorem c02_wire_inc_decided : forall tr, c02_wire_inc_b tr = true <-> c02_wire_inc tr.
Proof. exact c02_wire_inc_b_iff. Qed.
Theorem c02_replay_excl_decided : forall tr, c02_replay_excl_b tr = true <-> c02_replay_excl tr.
Proof. exact c02_replay_excl_b_iff. Qed.

(* regression (finding repaired by 6f0521d): the program `if resetStore { s.store.Reset() }` with no lock is rejected
   by the shape check, and with it in place of handleLogon a schedule of 27 steps (an application thread sends one
   message and reads number 2 for the next, the session resets, the application saves under 2) breaks clauses (1)
   and (2). sig=gap-or-repeat *)
Example c02_unlocked_logon_rejected : centry_ok false false c02_unlocked_logon = false.
Proof. exact ConcMain.c02_unlocked_logon_rejected. Qed.
Example c02_unlocked_reset_regression :
  exists sess apps sched s,
    cmsgs_ok apps = true /\
    creach (cshape_unlocked gen_send_shape) (cinit true true true 8 sess apps) sched s /\
    c02_consec_b 1 (c_trace (c_sh s)) = false /\
    Z.eqb (c_snd (c_sh s)) (c02_expected 1 (c_trace (c_sh s))) = false.
Proof. exact c02_unlocked_reset_breaks_numbering. Qed.

(* non-vacuity: two application threads (one message rejected by ToApp), a heartbeat, flushes and a replay of 1..3,
   interleaved; all hypotheses of the theorems hold and the trace is the expected one *)
Example c02_example :
  forallb cop_ok c02_ex_sess = true /\ cmsgs_ok c02_ex_apps = true /\ forallb cop_conn c02_ex_sess = true /\
  match crun gen_send_shape (cinit true true true 100 c02_ex_sess c02_ex_apps) c02_ex_sched with
  | Some s => rev (c_trace (c_sh s))
  | None => []
  end =
      [EvAssign 1; EvSaved 1 0; EvAssign 2; EvSaved 2 1; EvAssign 3; EvSaved 3 2; EvAssign 4; EvSaved 4 3;
       EvWire (IFirst 1 0); EvWire (IFirst 2 1); EvWire (IFirst 3 2); EvWire (IFirst 4 3);
       EvResendBegin; EvWire (IReplay 1 0); EvWire (IReplay 2 1); EvWire (IReplay 3 2); EvResendEnd].
Proof. exact c02_example_run. Qed.
