(* C02 — Outbound messages are numbered consecutively and persisted before sending; replay exclusion.
   Only statements; every proof is `exact <lemma>` (DESIGN 2.2).

   Model: Conc/SendConc.v — small-step concurrent system; thread 0 = session goroutine running any list of
   operations [cop] (sendInReplyTo, SendAppMessages, resendMessages b e, dropAndSend, dropAndReset, handleLogon,
   queueForSend, logon/logout and connect/disconnect state changes), threads 1.. = application goroutines each
   running a list of queueForSend calls; one step = one statement of one enabled thread (sendMutex; resendMutex
   with Go's pending-writer rule). The statement sequences the threads execute are the terms GENERATED from
   session.go / in_session.go / session_state.go by tools/gen_shape (Gen/SendShape.v: gen_send_shape).
   The proofs use the generated terms only through the boolean shape condition [check_shape]
   (Conc/SendConc.v: caprim, carun_s, cnosetout_l, cpok_l), established for them by vm_compute (c02_shape_ok);
   every theorem is proved for EVERY program family passing that check (c02_*_any_shape).
   The event trace [c_trace] is kept NEWEST EVENT FIRST; spec predicates in Conc/ConcSpec.v.

   Visible hypotheses: [forallb cop_ok sess = true] and [cmsgs_ok apps = true]: a Logon carrying ResetSeqNumFlag=Y is
   sent only through dropAndSend (as sendLogonInReplyTo does), never through queueForSend / sendInReplyTo, and the
   session program does not contain OLogonResetUnlocked (= "run whatever was generated for handleLogon, unchecked").
   handleLogon itself is the operation OLogon = "the generated handleLogon program if it passes the shape check
   (clogon_ok), else nothing"; c02_logon_covered shows it is the real program on the current tree.
   History: before repair 6f0521d handleLogon called store.Reset() without sendMutex; the statement is false of that
   program (c02_unlocked_reset_regression). *)
From Coq Require Import ZArith List Bool.
From QF Require Import Conc.ShapeLang Conc.SendConc Conc.ConcSpec Conc.ConcStep1 Conc.ConcStep4 Conc.ConcMain Conc.Writers Gen.SendShape.
Import ListNotations.
Open Scope Z_scope.

(* the generated programs satisfy the shape conditions (re-checked by the kernel on every run) *)
Theorem c02_shape_ok : check_shape gen_send_shape = true.
Proof. exact shape_ok. Qed.

(* handleLogon's generated program is well shaped too: OLogon below is the real handleLogon *)
(* closed world for the store's outbound numbering: in the current sources the functions that call Reset, SaveMessage*,
   IncrNextSenderMsgSeqNum or SetNextSenderMsgSeqNum on the session's store are exactly dropAndReset, persist and
   prepMessageForSend (all three inlined into the translated entry points, i.e. under sendMutex) and the registry call
   SetNextSenderMsgSeqNum (operator API, outside the quantifier).  Re-established from the sources on every run. *)
Theorem c02_no_other_store_writer : gen_store_writers = expected_store_writers.
Proof. exact writers_ok. Qed.

Theorem c02_logon_covered : clogon_ok gen_send_shape = true.
Proof. exact shape_logon_ok. Qed.

(* Clauses (1)-(4), for every number of application threads, every program, every schedule:
   (1) consumed numbers are n, n+1, ... per epoch; (2) the store's next number is one past the last consumed;
   (3) with persistence on, every first-time wire item was saved under the same number with the same bytes earlier,
       with no reset in between; (4) first-time items reach the wire in increasing order within an epoch. *)
Theorem c02_numbering :
  forall persist logged open room sess apps sched s,
    forallb cop_ok sess = true -> cmsgs_ok apps = true ->
    creach gen_send_shape (cinit persist logged open room sess apps) sched s ->
    c02_consec 1 (c_trace (c_sh s)) /\
    c_snd (c_sh s) = c02_expected 1 (c_trace (c_sh s)) /\
    (persist = true -> c02_persisted (c_trace (c_sh s))) /\
    c02_wire_inc (c_trace (c_sh s)).
Proof. exact c02_numbering_gen. Qed.

(* Clause (5): inside one resendMessages execution (resendMutex write lock held) no first-time item reaches the wire
   after a replayed one, and a replayed stored message (PossDup) reaches the wire only inside such an execution.
   FULL statement wanted: the same without [forallb cop_conn sess = true] and for any initial [open].
   _partial: proved while the connection stays open (no OSetOut in the session program, initially open). When
   resendMessages runs during the post-disconnect drain (messageOut == nil) its replays stay in toSend; they are only
   dropped by the next logon's dropAndSend, which the arbitrary operation lists of the model do not force, and a later
   flush would put them on the wire around first-time items. *)
Theorem c02_replay_exclusion_partial :
  forall persist logged room sess apps sched s,
    forallb cop_ok sess = true -> cmsgs_ok apps = true -> forallb cop_conn sess = true ->
    creach gen_send_shape (cinit persist logged true room sess apps) sched s ->
    c02_replay_excl (c_trace (c_sh s)).
Proof. exact c02_replay_gen. Qed.

(* Clause (6), "while logged on every assigned number is transmitted", in SAFETY form.
   FULL statement wanted: every consumed number is eventually on the wire while the session stays logged on.
   _partial: right after a sendQueued step that could send everything (connected; blocking, or messageOut has room
   for the whole queue) every number consumed since the last reset is on the wire, unless a non-empty queue was
   dropped since that reset. Missing: (a) fairness — that the run loop executes SendAppMessages after
   notifyMessageOut (the model does not force any thread to be scheduled); (b) a non-blocking flush on a full channel
   leaves a suffix queued (it re-notifies itself, which again needs (a)). *)
Theorem c02_flush_complete_partial :
  forall persist logged open room sess apps sched s t ch s' l b rest,
    forallb cop_ok sess = true -> cmsgs_ok apps = true ->
    creach gen_send_shape (cinit persist logged open room sess apps) sched s ->
    cthr s t l -> th_pc l = SFlush b :: rest -> cstep gen_send_shape s t ch = Some s' ->
    c_open (c_sh s) = true -> (b = true \/ (length (c_q (c_sh s)) <= c_room (c_sh s))%nat) ->
    c02_no_drop (c_trace (c_sh s')) ->
    forall n, In n (c02_epoch_assigned (c_trace (c_sh s'))) -> In n (c02_epoch_firsts (c_trace (c_sh s'))).
Proof. exact c02_flush_complete_gen. Qed.

(* the same three theorems for EVERY program family that passes the shape check *)
Theorem c02_numbering_any_shape :
  forall sh persist logged open room sess apps sched s,
    check_shape sh = true -> forallb cop_ok sess = true -> cmsgs_ok apps = true ->
    creach sh (cinit persist logged open room sess apps) sched s ->
    c02_consec 1 (c_trace (c_sh s)) /\
    c_snd (c_sh s) = c02_expected 1 (c_trace (c_sh s)) /\
    (persist = true -> c02_persisted (c_trace (c_sh s))) /\
    c02_wire_inc (c_trace (c_sh s)).
Proof. exact c02_safety_of_shape. Qed.

Theorem c02_replay_exclusion_any_shape :
  forall sh persist logged room sess apps sched s,
    check_shape sh = true -> forallb cop_ok sess = true -> cmsgs_ok apps = true -> forallb cop_conn sess = true ->
    creach sh (cinit persist logged true room sess apps) sched s ->
    c02_replay_excl (c_trace (c_sh s)).
Proof. exact c02_replay_of_shape. Qed.

Theorem c02_flush_complete_any_shape :
  forall sh persist logged open room sess apps sched s t ch s' l b rest,
    check_shape sh = true -> forallb cop_ok sess = true -> cmsgs_ok apps = true ->
    creach sh (cinit persist logged open room sess apps) sched s ->
    cthr s t l -> th_pc l = SFlush b :: rest -> cstep sh s t ch = Some s' ->
    c_open (c_sh s) = true -> (b = true \/ (length (c_q (c_sh s)) <= c_room (c_sh s))%nat) ->
    c02_no_drop (c_trace (c_sh s')) ->
    forall n, In n (c02_epoch_assigned (c_trace (c_sh s'))) -> In n (c02_epoch_firsts (c_trace (c_sh s'))).
Proof. exact c02_flush_complete_of_shape. Qed.

(* the boolean predicates evaluated on the implementation's trace decide the Prop forms *)
Theorem c02_consec_decided : forall init tr, c02_consec_b init tr = true <-> c02_consec init tr.
Proof. exact c02_consec_b_iff. Qed.
Theorem c02_persisted_decided : forall tr, c02_persisted_b tr = true <-> c02_persisted tr.
Proof. exact c02_persisted_b_iff. Qed.
Theorem c02_wire_inc_decided : forall tr, c02_wire_inc_b tr = true <-> c02_wire_inc tr.
Proof. exact c02_wire_inc_b_iff. Qed.
Theorem c02_replay_excl_decided : forall tr, c02_replay_excl_b tr = true <-> c02_replay_excl tr.
Proof. exact c02_replay_excl_b_iff. Qed.

(* regression (finding repaired by 6f0521d): the program `if resetStore { s.store.Reset() }` with no lock is rejected
   by the shape check, and with it in place of handleLogon a schedule of 27 steps (an application thread sends one
   message and reads number 2 for the next, the session resets, the application saves under 2) breaks clauses (1)
   and (2). sig=gap-or-repeat *)
Example c02_unlocked_logon_rejected : centry_ok false false c02_unlocked_logon = false.
Proof. exact ConcMain.c02_unlocked_logon_rejected. Qed.
Example c02_unlocked_reset_regression :
  exists sess apps sched s,
    cmsgs_ok apps = true /\
    creach (cshape_unlocked gen_send_shape) (cinit true true true 8 sess apps) sched s /\
    c02_consec_b 1 (c_trace (c_sh s)) = false /\
    Z.eqb (c_snd (c_sh s)) (c02_expected 1 (c_trace (c_sh s))) = false.
Proof. exact c02_unlocked_reset_breaks_numbering. Qed.

(* non-vacuity: two application threads (one message rejected by ToApp), a heartbeat, flushes and a replay of 1..3,
   interleaved; all hypotheses of the theorems hold and the trace is the expected one *)
Example c02_example :
  forallb cop_ok c02_ex_sess = true /\ cmsgs_ok c02_ex_apps = true /\ forallb cop_conn c02_ex_sess = true /\
  match crun gen_send_shape (cinit true true true 100 c02_ex_sess c02_ex_apps) c02_ex_sched with
  | Some s => rev (c_trace (c_sh s))
  | None => []
  end =
      [EvAssign 1; EvSaved 1 0; EvAssign 2; EvSaved 2 1; EvAssign 3; EvSaved 3 2; EvAssign 4; EvSaved 4 3;
       EvWire (IFirst 1 0); EvWire (IFirst 2 1); EvWire (IFirst 3 2); EvWire (IFirst 4 3);
       EvResendBegin; EvWire (IReplay 1 0); EvWire (IReplay 2 1); EvWire (IReplay 3 2); EvResendEnd].
Proof. exact c02_example_run. Qed.

(* ====================================================================================================================
   Clauses (5) and (6) at full strength, over the INSTRUMENTED semantics (Conc/SendConcG.v).
   The original event trace has no event for connect / disconnect, for IsLoggedOn() changing, for an operation being
   started, or for a dropQueued() of an empty queue, so "as long as the connection stays open" and "while the session
   stays logged on" cannot be said about it.  SendConcG.v adds — without touching SendConc.v — a ghost trace [g_tr]
   that interleaves the original events (GE e) with the markers GOut b, GLogged b, GOp t o, GQEmpty; one instrumented
   step is one original step [cstep]; the step function never reads the ghost trace.
   Specs: Conc/ConcSpecG.v.  Same quantifiers as c02_numbering: every number of application goroutines, every
   session program (now INCLUDING connects and disconnects and any initial connection state), every schedule,
   programs = the generated terms (and every program family passing the shape checks). *)
From QF Require Import Conc.SendConcG Conc.ConcSpecG Conc.ConcStepG Conc.ConcMainG.

(* the instrumentation is faithful: same schedules, same states, and the ghost trace without markers is the original one *)
Theorem c02_instrumented_sound :
  forall sh s0 sched gs,
    greach sh (ginit s0) sched gs -> creach sh s0 sched (g_s gs) /\ gerase (g_tr gs) = c_trace (c_sh (g_s gs)).
Proof. exact ginstr_sound. Qed.
Theorem c02_instrumented_complete :
  forall sh s0 sched s, creach sh s0 sched s -> exists gs, greach sh (ginit s0) sched gs /\ g_s gs = s.
Proof. exact ginstr_complete. Qed.

(* Clause (5), FULL: [c02_rstate_conn] runs the automaton of c02_rstate and additionally tracks the WINDOW "the
   connection has been open ever since toSend was last seen empty": it starts at the initial state if connected and
   whenever a dropQueued(), a sendQueued() or a connect leaves toSend empty while connected (marker GQEmpty; after a
   connect the engine sends its Logon through dropAndSend, whose dropQueued() does exactly that), and it ends at a
   disconnect.  In every window of every run: inside one resendMessages execution no first-time item reaches the wire
   after a replayed one, and a replayed stored message reaches the wire only inside such an execution.
   No hypothesis on the session program or on the initial connection state any more (compare
   c02_replay_exclusion_partial).  Outside the window — i.e. about what was left in toSend across a disconnect and
   not yet dropped — nothing is claimed, and nothing can be: c02_replay_exclusion_unconditional_refuted. *)
Theorem c02_replay_exclusion_while_connected :
  forall persist logged open room sess apps sched gs,
    forallb cop_ok sess = true -> cmsgs_ok apps = true ->
    greach gen_send_shape (ginit (cinit persist logged open room sess apps)) sched gs ->
    c02_replay_excl_conn open (g_tr gs).
Proof. exact c02g_replay_gen. Qed.

Theorem c02_replay_exclusion_while_connected_any_shape :
  forall sh persist logged open room sess apps sched gs,
    check_shape sh = true -> forallb cop_ok sess = true -> cmsgs_ok apps = true ->
    greach sh (ginit (cinit persist logged open room sess apps)) sched gs ->
    c02_replay_excl_conn open (g_tr gs).
Proof. exact c02g_replay_of_shape. Qed.

(* on runs that never touch the connection the windowed automaton IS c02_rstate (so the theorem above contains
   c02_replay_exclusion_partial's conclusion for those runs) *)
Theorem c02_replay_window_is_rstate_when_always_open :
  forall gtr, (forall b, ~ In (GOut b) gtr) ->
    c02_rstate_conn true gtr = match c02_rstate (gerase gtr) with Some st => Some ((true, true), st) | None => None end.
Proof. exact crconn_always_open. Qed.

(* The clause WITHOUT the connection window is false of the model: a ResendRequest answered while disconnected leaves
   its replay in toSend; after the reconnect a second resendMessages execution — connection open during all of it —
   transmits 1, replay 1, 2, replay 1.  (Not a defect of the engine: it sends a Logon through dropAndSend after every
   connect, which empties toSend; the model's session programs are arbitrary.) *)
Theorem c02_replay_exclusion_unconditional_refuted :
  exists sess apps sched s,
    forallb cop_ok sess = true /\ cmsgs_ok apps = true /\
    creach gen_send_shape (cinit true true true 100 sess apps) sched s /\
    rev (c_trace (c_sh s)) =
      [EvAssign 1; EvSaved 1 0; EvResendBegin; EvResendEnd; EvAssign 2; EvSaved 2 1;
       EvResendBegin; EvWire (IFirst 1 0); EvWire (IReplay 1 0); EvWire (IFirst 2 1); EvWire (IReplay 1 0); EvResendEnd] /\
    c02_replay_excl_b (c_trace (c_sh s)) = false.
Proof. exact c02g_replay_needs_window. Qed.

(* the additional shape conditions of clause (6) hold of the generated programs (re-checked by the kernel on every run):
   queueForSend never calls dropQueued(); sendInReplyTo, SendAppMessages and resendMessages do not on the paths taken
   when IsLoggedOn() is true; none of the seven programs changes IsLoggedOn() *)
Theorem c02_shape_logged_ok : check_shape_logged gen_send_shape = true.
Proof. exact shape_logged_ok. Qed.

(* Clause (6), safety form, FULL: [c02_logged_window logged gtr = Some w] says the session is inside a LOGGED-ON
   WINDOW — IsLoggedOn() has been true since the window started (at a GLogged true, or at the initial state) and none
   of the logon/logout/reset-phase operations dropAndSend, dropAndReset, handleLogon has been started since — and w
   is the list of original events of the window.  In every such window of every run NOTHING IS DROPPED: no EvDrop in
   w, and every number consumed in w (since the last reset, should there be one) is on the wire, or in toSend, or in
   the hands of the sendMutex holder (built and saved, about to be appended).  The hypothesis [c02_no_drop] of
   c02_flush_complete_partial is gone: it is now a conclusion.
   What remains unprovable in this model is only the liveness reading ("is eventually on the wire"): no fairness. *)
Theorem c02_nothing_dropped_while_logged_on :
  forall persist logged open room sess apps sched gs w,
    forallb cop_ok sess = true -> cmsgs_ok apps = true ->
    greach gen_send_shape (ginit (cinit persist logged open room sess apps)) sched gs ->
    c02_logged_window logged (g_tr gs) = Some w ->
    ~ In EvDrop w /\ c02_conserved (g_s gs) w.
Proof. exact c02g_conserved_gen. Qed.

Theorem c02_nothing_dropped_while_logged_on_any_shape :
  forall sh persist logged open room sess apps sched gs w,
    check_shape sh = true -> check_shape_logged sh = true -> forallb cop_ok sess = true -> cmsgs_ok apps = true ->
    greach sh (ginit (cinit persist logged open room sess apps)) sched gs ->
    c02_logged_window logged (g_tr gs) = Some w ->
    ~ In EvDrop w /\ c02_conserved (g_s gs) w.
Proof. exact c02g_conserved_of_shape. Qed.

(* flush completeness inside the window, as a state property (no flush step, no room condition, no no-drop
   hypothesis): whenever toSend is empty and no goroutine is inside the sendMutex critical section, every number
   consumed in the window has been transmitted *)
Theorem c02_flush_complete_while_logged_on :
  forall persist logged open room sess apps sched gs w,
    forallb cop_ok sess = true -> cmsgs_ok apps = true ->
    greach gen_send_shape (ginit (cinit persist logged open room sess apps)) sched gs ->
    c02_logged_window logged (g_tr gs) = Some w ->
    c_q (c_sh (g_s gs)) = [] -> c_owner (c_sh (g_s gs)) = None ->
    forall n, In n (c02_epoch_assigned w) -> In n (c02_epoch_firsts w).
Proof. exact c02g_quiescent_gen. Qed.

(* the step form (c02_flush_complete_partial) with its no-drop hypothesis replaced by "the step ends inside a
   logged-on window": right after a sendQueued that could send everything (connected; blocking, or messageOut has
   room for the whole queue) every number consumed in the window is on the wire *)
Theorem c02_flush_complete_step_while_logged_on :
  forall persist logged open room sess apps sched gs t ch gs' l b rest w,
    forallb cop_ok sess = true -> cmsgs_ok apps = true ->
    greach gen_send_shape (ginit (cinit persist logged open room sess apps)) sched gs ->
    cthr (g_s gs) t l -> th_pc l = SFlush b :: rest -> gstep gen_send_shape gs t ch = Some gs' ->
    c_open (c_sh (g_s gs)) = true -> (b = true \/ (length (c_q (c_sh (g_s gs))) <= c_room (c_sh (g_s gs)))%nat) ->
    c02_logged_window logged (g_tr gs') = Some w ->
    forall n, In n (c02_epoch_assigned w) -> In n (c02_epoch_firsts w).
Proof. exact c02g_flush_step_gen. Qed.

(* why starting dropAndSend must end the window: with IsLoggedOn() true throughout, dropAndSend (reached in the engine
   through inSession.FixMsgIn -> handleLogon -> sendLogonInReplyTo on an acceptor that receives a Logon while in
   session) drops a queued message whose number was consumed; it is never transmitted first-time *)
Example c02_dropsend_drops_while_logged_on :
  exists sess apps sched s,
    forallb cop_ok sess = true /\ cmsgs_ok apps = true /\
    creach gen_send_shape (cinit true true true 100 sess apps) sched s /\
    c_logged (c_sh s) = true /\ c_q (c_sh s) = [] /\ c_owner (c_sh s) = None /\
    rev (c_trace (c_sh s)) = [EvAssign 1; EvSaved 1 0; EvAssign 2; EvSaved 2 1; EvDrop; EvWire (IFirst 2 1)].
Proof. exact c02g_dropsend_drops_while_logged_on. Qed.

(* the boolean form of the windowed clause (5) decides the Prop form *)
Theorem c02_replay_excl_conn_decided :
  forall open0 gtr, c02_replay_excl_conn_b open0 gtr = true <-> c02_replay_excl_conn open0 gtr.
Proof. exact c02_replay_excl_conn_b_iff. Qed.

(* non-vacuity of the two window theorems: one application message sent; disconnect; logout; a message queued while
   logged out; reconnect; Logon through dropAndSend (drops the queued message: EvDrop OUTSIDE any logged-on window;
   its dropQueued() restarts the connection window: GQEmpty after GOut true); logon; a heartbeat; a replay of 1..4; a message left in toSend.
   At the end the run is inside both windows, the logged-on window holds numbers 4 (on the wire) and 5 (in toSend). *)
Example c02_window_example :
  forallb cop_ok c02g_ex_sess = true /\ cmsgs_ok c02g_ex_apps = true /\
  match grun gen_send_shape (ginit (cinit true true true 100 c02g_ex_sess c02g_ex_apps)) c02g_ex_sched with
  | Some gs =>
      rev (g_tr gs) =
        [GOp 1 (OQueue (MApp false)); GE (EvAssign 1); GE (EvSaved 1 0); GOp 0 OFlush; GE (EvWire (IFirst 1 0)); GQEmpty;
         GOp 0 (OSetOut false 0); GOut false; GQEmpty; GOp 0 (OSetLogged false); GLogged false;
         GOp 2 (OQueue (MApp false)); GE (EvAssign 2); GE (EvSaved 2 1); GOp 0 (OSetOut true 100); GOut true;
         GOp 0 (ODropSend (MLogon false)); GE (EvAssign 3); GE (EvSaved 3 2); GE EvDrop; GQEmpty; GE (EvWire (IFirst 3 2)); GQEmpty;
         GOp 0 (OSetLogged true); GLogged true; GOp 0 (OSend MAdmin); GE (EvAssign 4); GE (EvSaved 4 3);
         GE (EvWire (IFirst 4 3)); GQEmpty; GOp 0 (OResend 1 4 []); GE EvResendBegin; GE (EvWire (IReplay 1 0)); GQEmpty;
         GE (EvWire (IReplay 2 1)); GQEmpty; GE (EvWire (IGap 3 5)); GQEmpty; GE EvResendEnd; GOp 0 OFlush; GQEmpty;
         GOp 2 (OQueue (MApp false)); GE (EvAssign 5); GE (EvSaved 5 4)] /\
      c02_rstate_conn true (g_tr gs) = Some ((true, true), (false, false)) /\
      c02_logged_window true (g_tr gs) =
        Some [EvSaved 5 4; EvAssign 5; EvResendEnd; EvWire (IGap 3 5); EvWire (IReplay 2 1); EvWire (IReplay 1 0);
              EvResendBegin; EvWire (IFirst 4 3); EvSaved 4 3; EvAssign 4] /\
      c_q (c_sh (g_s gs)) = [IFirst 5 4]
  | None => False
  end.
Proof. exact c02g_example_run. Qed.
