(* C18 — session schedules classify instants by the configured windows.
   Only statements; every proof is `exact <lemma>` (lemmas in Time/TimeRangeProofs.v).

   Model: Time/TimeRange.v (internal/time_range.go function by function; instants = Unix seconds, the civil reading
   `tr_local cfg u` of an instant in the configured zone = seconds on the local clock since a Monday 00:00).
   Specification: Time/TimeRangeSpec.v (`tr_windows cfg k`: the k-th window the configuration denotes on the civil
   time line, `tr_in_window`).  `tr_wf`: start/end are times of day, start/end days are weekdays.

   Summary
   * IsInRange = "some window contains the civil reading", for EVERY zone (also with daylight-saving transitions) and
     every instant except one edge second of one configuration class (`tr_degenerate_open`: a 24h daily window
     restricted to weekdays, at its opening second) -- characterised exactly; the property is stated away from the
     edge seconds, so this is not a finding.
   * IsInSameRange = "one window contains both", away from the edge seconds:
       - fixed-offset zones: unconditionally (`c18_same_range`);
       - every zone: for pairs whose civil readings are in the order of the instants (`c18_same_range_all_zones_partial`),
         in particular whenever neither reading is a skipped / repeated civil time (`c18_same_range_unambiguous_partial`).
     The statement for all zones and all pairs
        forall cfg u1 u2, tr_wf cfg -> tr_away_from_edges cfg u1 u2 ->
          (tr_is_in_same_range cfg u1 u2 = true <-> exists k, both civil readings in tr_windows cfg k)
     is false (`c18_same_range_reversed_refuted`): the missing case is exactly a pair across a set-back of the clock
     whose later instant shows the earlier reading (a reading the clock shows twice; the property does not say to
     which window its second occurrence belongs; the code keeps it in the session of the earlier instant).
   * The defect dst-end-time-skipped (end time skipped by a spring-forward transition; repaired in /repo dd0be1e) is
     kept as a regression: `c18_same_range_dst_regression`. *)
From Coq Require Import ZArith List Bool.
From QF Require Import Time.TimeRange Time.TimeRangeSpec Time.TimeRangeProofs.
Import ListNotations.
Open Scope Z_scope.

(* ---- IsInRange ---- *)
(* an instant is reported inside the schedule exactly when its civil reading falls in one of the windows (any zone) *)
Theorem c18_in_range : forall cfg u,
  tr_wf cfg -> tr_degenerate_open cfg (tr_local cfg u) = false ->
  (tr_is_in_range cfg u = true <-> exists k, tr_in_window (tr_windows cfg k) (tr_local cfg u)).
Proof. exact tr_in_range_correct. Qed.

(* the form of the property text: away from the one-second window edges *)
Theorem c18_in_range_off_edges : forall cfg u,
  tr_wf cfg -> tr_off_edges cfg (tr_local cfg u) ->
  (tr_is_in_range cfg u = true <-> exists k, tr_in_window (tr_windows cfg k) (tr_local cfg u)).
Proof. exact tr_in_range_off_edges. Qed.

(* the excluded second is exactly where the two differ: reported out although a window opens *)
Theorem c18_in_range_degenerate : forall cfg u,
  tr_wf cfg -> tr_degenerate_open cfg (tr_local cfg u) = true ->
  tr_is_in_range cfg u = false /\ exists k, tr_in_window (tr_windows cfg k) (tr_local cfg u).
Proof. exact tr_in_range_degenerate. Qed.

(* ... and it occurs (Monday-only 10:00:00-10:00:00, Monday 10:00:00): exactness AT the edge seconds does not hold *)
Theorem c18_in_range_edge_refuted :
  exists cfg u k, tr_wf cfg /\ tr_fixed_zone cfg /\
    tr_is_in_range cfg u = false /\ tr_in_window (tr_windows cfg k) (tr_local cfg u) /\
    tr_degenerate_open cfg (tr_local cfg u) = true.
Proof. exact tr_in_range_edge_refuted. Qed.

(* non-vacuity; also the regression of the repaired defect F10: Saturday-only 22:00-06:00, Sunday 03:00 is inside *)
Example c18_in_range_example :
  tr_degenerate_open tr_ex_saturday_night (tr_local tr_ex_saturday_night 1710039600) = false /\
  tr_is_in_range tr_ex_saturday_night 1710039600 = true /\
  tr_in_window (tr_windows tr_ex_saturday_night 19794) (tr_local tr_ex_saturday_night 1710039600).
Proof. exact tr_ex_sunday_morning. Qed.

(* ---- IsInSameRange ---- *)
(* fixed-offset zones: two instants are in the same session exactly when one window contains both *)
Theorem c18_same_range : forall cfg u1 u2,
  tr_wf cfg -> tr_fixed_zone cfg -> tr_away_from_edges cfg u1 u2 ->
  (tr_is_in_same_range cfg u1 u2 = true <->
   exists k, tr_in_window (tr_windows cfg k) (tr_local cfg u1) /\ tr_in_window (tr_windows cfg k) (tr_local cfg u2)).
Proof. exact tr_same_range_fixed. Qed.

(* every zone: the same, for pairs whose civil readings are in the order of the instants *)
Theorem c18_same_range_all_zones_partial : forall cfg u1 u2,
  tr_wf cfg -> tr_away_from_edges cfg u1 u2 -> tr_order_preserved cfg u1 u2 ->
  (tr_is_in_same_range cfg u1 u2 = true <->
   exists k, tr_in_window (tr_windows cfg k) (tr_local cfg u1) /\ tr_in_window (tr_windows cfg k) (tr_local cfg u2)).
Proof. exact tr_same_range_correct. Qed.

(* the order condition holds in fixed-offset zones, and for readings that are not skipped / repeated civil times of a
   zone whose transition intervals do not overlap *)
Theorem c18_order_preserved_fixed : forall cfg u1 u2, tr_fixed_zone cfg -> tr_order_preserved cfg u1 u2.
Proof. exact tr_fixed_order_preserved. Qed.
Theorem c18_order_preserved_unambiguous : forall cfg u1 u2,
  tr_zone_wf (tr_loc cfg) ->
  tr_ambiguous (tr_loc cfg) (tr_local cfg u1) = false -> tr_ambiguous (tr_loc cfg) (tr_local cfg u2) = false ->
  tr_order_preserved cfg u1 u2.
Proof. exact tr_unambiguous_order_preserved. Qed.

(* hence: zones with daylight-saving transitions, away from the repeated (and skipped) civil hours *)
Theorem c18_same_range_unambiguous_partial : forall cfg u1 u2,
  tr_wf cfg -> tr_zone_wf (tr_loc cfg) -> tr_away_from_edges cfg u1 u2 ->
  tr_ambiguous (tr_loc cfg) (tr_local cfg u1) = false -> tr_ambiguous (tr_loc cfg) (tr_local cfg u2) = false ->
  (tr_is_in_same_range cfg u1 u2 = true <->
   exists k, tr_in_window (tr_windows cfg k) (tr_local cfg u1) /\ tr_in_window (tr_windows cfg k) (tr_local cfg u2)).
Proof. exact tr_same_range_unambiguous. Qed.

(* the missing case is real: daily 01:30-01:30 America/New_York, 2024-11-03 01:40 EDT and (30 min later) 01:10 EST *)
Theorem c18_same_range_reversed_refuted :
  exists cfg u1 u2, tr_wf cfg /\ tr_zone_wf (tr_loc cfg) /\ tr_away_from_edges cfg u1 u2 /\
    u1 < u2 /\ tr_local cfg u2 < tr_local cfg u1 /\
    tr_ambiguous (tr_loc cfg) (tr_local cfg u2) = true /\
    tr_is_in_same_range cfg u1 u2 = true /\
    ~ exists k, tr_in_window (tr_windows cfg k) (tr_local cfg u1) /\ tr_in_window (tr_windows cfg k) (tr_local cfg u2).
Proof. exact tr_same_range_reversed_refuted. Qed.

(* regression of the repaired defect (non-vacuity of c18_same_range_unambiguous_partial as well): daily 22:00-02:00
   America/New_York, 2024-03-09 23:00 EST / 2024-03-10 01:30 EST, 02:00 skipped that night: now the same session *)
Example c18_same_range_dst_regression_zone : tr_wf tr_ex_ny_night /\ tr_zone_wf (tr_loc tr_ex_ny_night).
Proof. exact (conj tr_ex_ny_night_wf tr_ex_ny_zone_wf). Qed.
Example c18_same_range_dst_regression :
  tr_away_from_edges tr_ex_ny_night 1710043200 1710052200 /\
  tr_ambiguous (tr_loc tr_ex_ny_night) (tr_local tr_ex_ny_night 1710043200) = false /\
  tr_ambiguous (tr_loc tr_ex_ny_night) (tr_local tr_ex_ny_night 1710052200) = false /\
  tr_in_window (tr_windows tr_ex_ny_night 19794) (tr_local tr_ex_ny_night 1710043200) /\
  tr_in_window (tr_windows tr_ex_ny_night 19794) (tr_local tr_ex_ny_night 1710052200) /\
  tr_is_in_same_range tr_ex_ny_night 1710043200 1710052200 = true.
Proof. exact tr_ex_ny_spring_forward. Qed.

(* symmetric (every configuration, every zone) *)
Theorem c18_same_range_symmetric : forall cfg u1 u2,
  tr_is_in_same_range cfg u1 u2 = tr_is_in_same_range cfg u2 u1.
Proof. exact tr_same_range_symmetric. Qed.

(* implies that both are in range (every configuration, every zone) *)
Theorem c18_same_range_both_in_range : forall cfg u1 u2,
  tr_is_in_same_range cfg u1 u2 = true -> tr_is_in_range cfg u1 = true /\ tr_is_in_range cfg u2 = true.
Proof. exact tr_same_range_both_in_range. Qed.

(* transitive (every zone; away from the edges, readings in the order of the instants -- automatic for fixed offsets,
   c18_order_preserved_fixed) *)
Theorem c18_same_range_transitive : forall cfg u1 u2 u3,
  tr_wf cfg ->
  tr_off_edges cfg (tr_local cfg u1) -> tr_off_edges cfg (tr_local cfg u2) -> tr_off_edges cfg (tr_local cfg u3) ->
  tr_order_preserved cfg u1 u2 -> tr_order_preserved cfg u2 u3 -> tr_order_preserved cfg u1 u3 ->
  tr_is_in_same_range cfg u1 u2 = true -> tr_is_in_same_range cfg u2 u3 = true ->
  tr_is_in_same_range cfg u1 u3 = true.
Proof. exact tr_same_range_transitive. Qed.

(* false across any window boundary: an edge of any window strictly between the two civil readings *)
Theorem c18_same_range_boundary : forall cfg u1 u2 k lo hi e,
  tr_wf cfg -> tr_away_from_edges cfg u1 u2 -> tr_order_preserved cfg u1 u2 ->
  tr_windows cfg k = Some (lo, hi) -> (e = lo \/ e = hi) ->
  tr_local cfg u1 < e < tr_local cfg u2 \/ tr_local cfg u2 < e < tr_local cfg u1 ->
  tr_is_in_same_range cfg u1 u2 = false.
Proof. exact tr_same_range_boundary. Qed.

(* a reading that is not an edge second lies in at most one window (what makes "the same window" well defined) *)
Theorem c18_window_unique : forall cfg k k' t,
  tr_wf cfg -> tr_off_edges cfg t ->
  tr_in_window (tr_windows cfg k) t -> tr_in_window (tr_windows cfg k') t -> k = k'.
Proof. exact tr_window_unique. Qed.

(* non-vacuity of the hypotheses: daily Saturday-only overnight and weekly Sunday 17:00 - Friday 17:00 *)
Example c18_same_range_example_cfg : tr_wf tr_ex_saturday_night /\ tr_fixed_zone tr_ex_saturday_night.
Proof. exact tr_ex_saturday_night_wf. Qed.
Example c18_same_range_example :
  tr_away_from_edges tr_ex_saturday_night 1710025200 1710039600 /\
  tr_is_in_same_range tr_ex_saturday_night 1710025200 1710039600 = true /\
  tr_away_from_edges tr_ex_saturday_night 1710039600 1710630000 /\
  tr_is_in_same_range tr_ex_saturday_night 1710039600 1710630000 = false.
Proof. exact tr_ex_same_session. Qed.
Example c18_same_range_example_weekly_cfg : tr_wf tr_ex_week /\ tr_fixed_zone tr_ex_week.
Proof. exact tr_ex_week_wf. Qed.
Example c18_same_range_example_weekly :
  tr_away_from_edges tr_ex_week 1710111600 1710500400 /\
  tr_is_in_same_range tr_ex_week 1710111600 1710500400 = true /\
  tr_is_in_same_range tr_ex_week 1710500400 1710111600 = true /\
  tr_is_in_range tr_ex_week 1710543600 = false.
Proof. exact tr_ex_week_session. Qed.

(* ---- the oracle evaluated by the correspondence driver is the specification ---- *)
(* per instant: "in some window" *)
Theorem c18_oracle_in_range : forall cfg u, tr_wf cfg ->
  (tr_spec_in_range_of (tr_spec_info cfg u) = true <-> exists k, tr_in_window (tr_windows cfg k) (tr_local cfg u)).
Proof. exact tr_spec_in_range_of_correct. Qed.

(* per pair: code 2 = not evaluated; otherwise the pair is away from the edges, its civil readings are in the order
   of the instants, and code 1 <-> one window contains both *)
Theorem c18_oracle_pair : forall cfg u1 u2, tr_wf cfg ->
  let c := tr_spec_pair_of cfg u1 u2 (tr_spec_info cfg u1) (tr_spec_info cfg u2) in
  (c = 0 \/ c = 1 \/ c = 2) /\
  (c <> 2 -> tr_away_from_edges cfg u1 u2 /\ tr_order_preserved cfg u1 u2 /\
             (c = 1 <-> exists k, tr_in_window (tr_windows cfg k) (tr_local cfg u1) /\
                                  tr_in_window (tr_windows cfg k) (tr_local cfg u2))).
Proof. exact tr_spec_pair_of_correct. Qed.

(* every zone: on every evaluated pair the model answers what the oracle says *)
Theorem c18_oracle_agrees_with_model : forall cfg u1 u2, tr_wf cfg ->
  let c := tr_spec_pair_of cfg u1 u2 (tr_spec_info cfg u1) (tr_spec_info cfg u2) in
  c <> 2 -> (tr_is_in_same_range cfg u1 u2 = true <-> c = 1).
Proof. exact tr_oracle_agrees_with_model. Qed.
