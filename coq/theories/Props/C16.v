(* C16 — every message store behaves like the same abstract store, durably.
   Only statements; every proof is `exact <lemma>` (DESIGN 2.2).
   abs_hist_ok a ops: "ascending save numbers per epoch" along the abstract run from a, plus the value ranges of Go
   (counters inside (-10^18, 2^63), save numbers and clock readings in int64, body file below 2^63 bytes). *)
From Coq Require Import ZArith List Bool.
From QF Require Import Base.Res Base.Bytes Store.AbsStore Store.AbsStoreProofs Store.MemStore Store.MemStoreProofs
  Store.FS Store.FileStore Store.FileStoreProofs Store.SqlStore Store.SqlStoreProofs Store.C16Proofs.
Import ListNotations.
Open Scope Z_scope.

(* memory store: same outputs (return values + the three getters after every operation), abstraction function commutes *)
Theorem c16_refines_mem : forall now ops, abs_hist_ok (abs_init now) ops = true ->
  snd (mem_run (mem_create now) ops) = snd (abs_run (abs_init now) ops) /\
  mem_abs (fst (mem_run (mem_create now) ops)) = fst (abs_run (abs_init now) ops).
Proof. exact mem_refines. Qed.

(* file store created in an empty directory, over the file-system model: same outputs; what the five files say
   (file_abs: counters parsed with Atoi, creation time, header scanned with Fscanf against the body) is the abstract state *)
Theorem c16_refines_file : forall sid now ops, - two63 <= now < two63 -> abs_hist_ok (abs_init now) ops = true ->
  let st0 := fst (file_new_store sid now []) in
  let fs0 := snd (file_new_store sid now []) in
  snd (file_run st0 fs0 ops) = snd (abs_run (abs_init now) ops) /\
  file_abs sid (snd (fst (file_run st0 fs0 ops))) = Some (fst (abs_run (abs_init now) ops)) /\
  file_obs (fst (fst (file_run st0 fs0 ops))) = abs_obs (fst (abs_run (abs_init now) ops)).
Proof. exact file_refines. Qed.

(* SQL store created on an empty database (statement-level model) *)
Theorem c16_refines_sql : forall sid now ops, abs_hist_ok (abs_init now) ops = true ->
  exists st db, sql_new_store sid now sql_empty = Ok (st, db) /\
    snd (sql_run st db ops) = snd (abs_run (abs_init now) ops) /\
    sql_abs sid (snd (fst (sql_run st db ops))) = Some (fst (abs_run (abs_init now) ops)) /\
    sql_obs (fst (fst (sql_run st db ops))) = abs_obs (fst (abs_run (abs_init now) ops)).
Proof. exact sql_refines. Qed.

(* durability: after any history, a fresh store opened on the same files - and the same store after Refresh - holds the
   same abstract state, shows the same counters and creation time and answers every further history like the abstract store *)
Theorem c16_reopen_file : forall sid now ops now' ops',
  - two63 <= now < two63 -> abs_hist_ok (abs_init now) ops = true ->
  let r := file_run (fst (file_new_store sid now [])) (snd (file_new_store sid now [])) ops in
  let st := fst (fst r) in let fs := snd (fst r) in
  let a := fst (abs_run (abs_init now) ops) in
  abs_hist_ok a ops' = true ->
  (file_abs sid (snd (file_new_store sid now' fs)) = Some a /\
   file_obs (fst (file_new_store sid now' fs)) = abs_obs a /\
   snd (file_run (fst (file_new_store sid now' fs)) (snd (file_new_store sid now' fs)) ops') = snd (abs_run a ops')) /\
  (file_abs sid (snd (fst (file_step st fs (ORefresh now')))) = Some a /\
   file_obs (fst (fst (file_step st fs (ORefresh now')))) = abs_obs a /\
   snd (file_run (fst (fst (file_step st fs (ORefresh now')))) (snd (fst (file_step st fs (ORefresh now')))) ops') = snd (abs_run a ops')).
Proof. exact file_reopen_run. Qed.

Theorem c16_reopen_sql : forall sid now ops now' ops' st0 db0,
  sql_new_store sid now sql_empty = Ok (st0, db0) -> abs_hist_ok (abs_init now) ops = true ->
  let r := sql_run st0 db0 ops in
  let st := fst (fst r) in let db := snd (fst r) in
  let a := fst (abs_run (abs_init now) ops) in
  abs_hist_ok a ops' = true ->
  (exists st', sql_new_store sid now' db = Ok (st', db) /\ sql_abs sid db = Some a /\ sql_obs st' = abs_obs a /\
               snd (sql_run st' db ops') = snd (abs_run a ops')) /\
  (exists st', sql_step st db (ORefresh now') = (st', db, sout_ok) /\ sql_obs st' = abs_obs a /\
               snd (sql_run st' db ops') = snd (abs_run a ops')).
Proof. exact sql_reopen_run. Qed.

(* aborting callback: IterateMessages returns the callback's error (status 2) after delivering exactly the first k+1 messages
   of the range when the callback fails at its call number k, and everything with status 0 when it never fails.
   (abs_step gives OIterate b e abort the output st_deliver abort [] (amap_range b e msgs); by the refinement theorems
   every store returns the same.) *)
Theorem c16_abort_prefix : forall k l,
  st_deliver (Some k) [] l = if Nat.ltb k (length l) then mk_sout ST_CB (firstn (S k) l) else mk_sout ST_OK l.
Proof. exact st_deliver_some. Qed.

Theorem c16_no_abort_all : forall seen l, st_deliver None seen l = mk_sout ST_OK (seen ++ l).
Proof. exact st_deliver_none. Qed.

(* isolation: an operation of one session leaves untouched what the shared directory / database says about another session
   (file names of distinct session ids are distinct: distinct_prefix) *)
Theorem c16_isolation_file : forall sid sid' st fs op, ft_sid st = sid -> sid' <> sid ->
  file_abs sid' (snd (fst (file_step st fs op))) = file_abs sid' fs.
Proof. exact file_isolation. Qed.

Theorem c16_isolation_sql : forall sid sid' st db op, sq_sid st = sid -> sid' <> sid ->
  sql_abs sid' (snd (fst (sql_step st db op))) = sql_abs sid' db.
Proof. exact sql_isolation. Qed.

(* non-vacuity: a history with saves (SOH, NUL, high bytes, empty message), a gap, an aborted iteration, reopen, refresh
   and reset satisfies the hypothesis; its outputs *)
Example c16_example_hist_ok : abs_hist_ok (abs_init 0) c16_example_ops = true.
Proof. exact c16_example_ok. Qed.

Example c16_example_outs :
  map (fun o => (so_st (fst o), so_msgs (fst o))) (snd (abs_run (abs_init 0) c16_example_ops)) =
  [(0, []); (0, []); (0, []); (0, []); (0, [[65; 1; 0; 255]; []; [66]]); (2, [[65; 1; 0; 255]; []]);
   (0, []); (0, [[]; [66]]); (0, []); (0, []); (0, []); (0, [])].
Proof. exact c16_example_outputs. Qed.
