(* C17 — a crash never leaves the persistent store ahead of or without its messages.
   Only statements; every proof is `exact <lemma>` (DESIGN 2.2). *)
From Coq Require Import ZArith List Bool String.
From QF Require Import Base.Res Base.Bytes Store.AbsStore Store.MemStore Store.FS Store.FileStore Store.FileCrash
  Store.FileCrashRefuted Store.FileCrashProofs Store.C17Proofs Store.SqlStore Store.SqlStoreProofs.
Import ListNotations.
Open Scope Z_scope.

(* SQL store: a failure of the INSERT (fail = 1), of the UPDATE (2) or of the Commit (3) of
   SaveMessageAndIncrNextSenderMsgSeqNum returns an error and leaves database and cache exactly as they were:
   neither the message nor the increment stays behind *)
Theorem c17_sql_atomic : forall st db n bs fail,
  fail = 1 \/ fail = 2 \/ fail = 3 ->
  exists o, sql_save_message_and_incr st db n bs fail = (st, db, o) /\ so_st o = ST_ERR.
Proof. exact sql_save_and_incr_fails. Qed.

(* ... and whenever the call does not return nil, for whatever reason (also a primary-key violation) *)
Theorem c17_sql_atomic_any_error : forall st db n bs fail st' db' o,
  sql_save_message_and_incr st db n bs fail = (st', db', o) -> so_st o <> ST_OK -> db' = db /\ st' = st.
Proof. exact sql_save_and_incr_atomic. Qed.

(* File store.  The full statement
     forall h op cp, abs_hist_ok (abs_init now) (h ++ [op]) -> In cp (crash_points all_cuts_for prims) ->
       c17_class fs prims cp = 0 -> c17_recovered_ok a0 a1 pb (c17_observe sid now' (crash_image fs prims cp) keys pb) = true
   is false without the hypothesis on the class: inside each class of the known design defects of the file format
   (DESIGN section 7, F9) there is a witness (history, interrupted operation, crash point, failing clause of the predicate),
   checked by computation on the faithful model.  c17_witness h op cp cls clause says: h ++ [op] is an ascending history,
   cp is a crash point of op, it lies in class cls, and the store opened on the crash image fails c17_recovered_ok at `clause`. *)
Theorem c17_refuted_save_header_before_body : exists h op cp clause, c17_witness h op cp 1 clause = true.
Proof. exact FileCrashRefuted.c17_refuted_save_header_before_body. Qed.
Theorem c17_refuted_counter_inplace_torn_carry : exists h op cp clause, c17_witness h op cp 2 clause = true.
Proof. exact FileCrashRefuted.c17_refuted_counter_inplace_torn_carry. Qed.
Theorem c17_refuted_header_line_torn : exists h op cp clause, c17_witness h op cp 3 clause = true.
Proof. exact FileCrashRefuted.c17_refuted_header_line_torn. Qed.
Theorem c17_refuted_reset_not_atomic : exists h op cp clause, c17_witness h op cp 4 clause = true.
Proof. exact FileCrashRefuted.c17_refuted_reset_not_atomic. Qed.
Theorem c17_refuted_counter_new_file_torn : exists h op cp clause, c17_witness h op cp 5 clause = true.
Proof. exact FileCrashRefuted.c17_refuted_counter_new_file_torn. Qed.

(* The positive statement, with `c17_class ... = 0` (not in a class of the known defects) as a visible hypothesis.
   FULL STATEMENT (not proved in this generality):
     forall sid now h op cp now' pb, - two63 <= now < two63 -> abs_hist_ok (abs_init now) (h ++ [op]) = true ->
       In cp (crash_points all_cuts_for prims) -> c17_class fs prims cp = 0 ->
       c17_recovered_ok a0 a1 pb (c17_observe sid now' (crash_image fs prims cp) (c17_keys a0 a1) pb) = true
   PROVED (`_partial`): for every interrupted operation except Reset (c17_covered: set/incr of either counter, save,
   save-and-increment, get, iterate, Refresh, close+reopen), every crash point - after any primitive, inside any write at any
   byte, variant A and variant B - outside the classes: the store reopened on the crash image holds a consistent abstract
   state a' (each counter its before- or after-value; the messages those before or after the operation; the sender counter moved
   only if the message is there), shows it through its getters, returns on every read exactly the messages of a' in range
   byte-identical, returns every completed save intact, and - if the sender counter is the after-value - every message of the
   after-state.  Missing for the full statement: Reset as the interrupted operation (outside its two classes the recovered
   creation time is a fresh one and files are absent, which the image invariant used here does not cover; the correspondence
   stream checks it on the real store); the last two clauses of the boolean predicate c17_recovered_ok (agreement of the
   whole-range read with the single reads - the third conjunct below in another form - and the behaviour after one further
   save) are evaluated on the real store by the correspondence stream only. *)
Theorem c17_crash_consistent_partial : forall sid now h op cp now',
  - two63 <= now < two63 -> abs_hist_ok (abs_init now) (h ++ [op]) = true -> c17_covered op = true ->
  let r0 := file_run (fst (file_new_store sid now [])) (snd (file_new_store sid now [])) h in
  let st := fst (fst r0) in let fs := snd (fst r0) in
  let a0 := fst (abs_run (abs_init now) h) in
  let a1 := fst (abs_step a0 op) in
  let prims := file_op_prims st fs op in
  In cp (crash_points all_cuts_for prims) -> c17_class fs prims cp = 0 ->
  let r := c17_recover sid now' (crash_image fs prims cp) in
  exists a',
    c17_consistent a0 a1 a' /\
    file_obs (fst r) = abs_obs a' /\
    (forall b e abort, file_iterate_messages sid (snd r) b e abort = st_deliver abort [] (amap_range b e (a_msgs a'))) /\
    (forall k bs, amap_get k (a_msgs a0) = Some bs -> get_one sid (snd r) k = mk_sout ST_OK [bs]) /\
    (a_snd a' <> a_snd a0 -> forall k bs, amap_get k (a_msgs a1) = Some bs -> get_one sid (snd r) k = mk_sout ST_OK [bs]) /\
    (forall k, get_one sid (snd r) k = mk_sout ST_OK [] \/
               exists bs, amap_get k (a_msgs a1) = Some bs /\ get_one sid (snd r) k = mk_sout ST_OK [bs]).
Proof. exact crash_consistent_run_partial. Qed.

(* the five concrete witnesses *)
Example c17_witness_save_header_before_body :
  c17_witness [OSaveIncr 1 (B"FIRST-MESSAGE")] (OSaveIncr 2 (B"SECOND-MESSAGE")) (mk_cpoint 3 9 VA) 1 3 = true.
Proof. exact c17_refuted_save_header_before_body_w. Qed.
Example c17_witness_counter_9_to_10_cut_after_18_bytes :
  c17_witness [OSetSender 9] OIncrSender (mk_cpoint 1 18 VA) 2 2 = true.
Proof. exact c17_refuted_counter_inplace_torn_carry_w. Qed.
Example c17_witness_header_line_torn :
  c17_witness [OSaveIncr 1 (B"A"); OSaveIncr 2 (B"B")] (OSaveIncr 3 (B"C")) (mk_cpoint 2 3 VA) 3 3 = true.
Proof. exact c17_refuted_header_line_torn_w. Qed.
Example c17_witness_reset_not_atomic :
  c17_witness [OSaveIncr 1 (B"A"); OSaveIncr 2 (B"B")] (OReset 50) (mk_cpoint 6 0 VA) 4 3 = true.
Proof. exact c17_refuted_reset_not_atomic_w. Qed.
Example c17_witness_reset_not_atomic_powerloss :
  c17_witness [OSaveIncr 1 (B"A"); OSaveIncr 2 (B"B")] (OReset 50) (mk_cpoint 7 0 VB) 4 4 = true.
Proof. exact c17_refuted_reset_not_atomic_powerloss_w. Qed.
Example c17_witness_counter_new_file_torn :
  c17_witness [OSaveIncr 1 (B"A"); OSaveIncr 2 (B"B")] (OReset 50) (mk_cpoint 19 5 VA) 5 2 = true.
Proof. exact c17_refuted_counter_new_file_torn_w. Qed.

(* outside the classes the same experiment passes (non-vacuity of the positive statement) *)
Example c17_examples_outside_classes :
  c17_passes [OSaveIncr 1 (B"FIRST-MESSAGE")] (OSaveIncr 2 (B"SECOND-MESSAGE")) (mk_cpoint 4 0 VA) = true /\
  c17_passes [OSaveIncr 1 (B"FIRST-MESSAGE")] (OSaveIncr 2 (B"SECOND-MESSAGE")) (mk_cpoint 5 0 VB) = true /\
  c17_passes [OSaveIncr 1 (B"FIRST-MESSAGE")] (OSaveIncr 2 (B"SECOND-MESSAGE")) (mk_cpoint 7 12 VA) = true /\
  c17_passes [OSetSender 8] OIncrSender (mk_cpoint 1 18 VA) = true.
Proof. exact c17_example_passes. Qed.
