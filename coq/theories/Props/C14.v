(* C14 — field value types convert canonically and reject everything else.
   Only statements; every proof is `exact <lemma>` (DESIGN 2.2). *)
From Coq Require Import ZArith List Bool.
From QF Require Import Base.Res Base.Bytes Codec.FixInt Codec.FixIntProofs.
Open Scope Z_scope.

(* int: a text outside the grammar -?[0-9]+ is an error, and reading never panics or hangs *)
Theorem c14_int_rejects_outside_grammar : forall d,
  int_grammar d = false -> exists e, fix_int_read d = Err e.
Proof. exact atoi_rejects_nongrammar. Qed.

Theorem c14_int_read_total : forall d, total_res (fix_int_read d).
Proof. exact atoi_total. Qed.
