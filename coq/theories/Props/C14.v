(* C14 — field value types convert canonically and reject everything else.
   Only statements; every proof is `exact <lemma>` (DESIGN 2.2).
   Models: Codec/FixInt.v, Types/{FixBool,GoTime,FixTimestamp,FixFloat,FixString,FixDecimal}.v
   Specifications (grammars, values; boolean, extracted as the oracle of stream `types`): Codec/FixIntSpec.v, Types/TypesSpec.v
   Lemmas: Codec/FixIntProofs.v, Types/{FixBoolProofs,GoTimeProofs,FixTimestampProofs,FixFloatProofs}.v

   Modelled, not verified (trusted, exercised by the correspondence stream): the fragments of Go's time.Parse /
   Time.Format (Types/GoTime.v) and of strconv.ParseFloat's syntax and range verdict (Types/FixFloat.v).
   Float VALUES are not modelled.  Decimal / udecimal (shopspring, quagmt libraries): executable models of the
   library functions in Types/FixDecimal.v (modelled, not verified).  For FIXDecimal the write->read round trip is
   proved of that model (half away from zero, Types/FixDecimalProofs.v); FIXDecimal read->write of canonical texts
   and FIXUDecimal (truncation) are validated by the correspondence stream only, against dec_round_half_away /
   udec_trunc_spec of TypesSpec.v. *)
From Coq Require Import ZArith List Bool.
From QF Require Import Base.Res Base.Bytes Codec.FixInt Codec.FixIntProofs
  Types.FixBool Types.FixString Types.FixBoolProofs
  Types.GoTime Types.GoTimeProofs Types.FixTimestamp Types.TypesSpec Types.FixTimestampProofs
  Types.FixFloat Types.FixFloatProofs Types.FixDecimal Types.FixDecimalProofs.
Import ListNotations.
Open Scope Z_scope.

(* ------------------------------------------------------------------ int *)

(* a text outside the grammar -?[0-9]+ is an error *)
Theorem c14_int_rejects_outside_grammar : forall d,
  int_grammar d = false -> exists e, fix_int_read d = Err e.
Proof. exact atoi_rejects_nongrammar. Qed.
Example c14_int_rejects_ex : int_grammar [49; 32] = false /\ int_grammar [] = false /\ int_grammar [45] = false.
Proof. repeat split. Qed.

(* reading never panics or hangs *)
Theorem c14_int_read_total : forall d, total_res (fix_int_read d).
Proof. exact atoi_total. Qed.

(* up to 18 bytes (the fast path) a grammatical text is read as the number it denotes *)
Theorem c14_int_read_value_short : forall d,
  int_grammar d = true -> (length d <= 18)%nat -> fix_int_read d = Ok (int_value d).
Proof. exact atoi_short_value. Qed.
Example c14_int_read_value_short_ex :
  int_grammar [45; 48; 52; 50] = true /\ int_value [45; 48; 52; 50] = -42.
Proof. split; reflexivity. Qed.

(* every grammatical text, of any length: its value when that is an int64, an error otherwise (no wrap-around) *)
Theorem c14_int_read_value : forall d, int_grammar d = true ->
  fix_int_read d = if in_int64b (int_value d) then Ok (int_value d) else Err E_RANGE.
Proof. exact atoi_grammar_value. Qed.

(* the long path (more than 18 bytes) accepts iff the value is within int64 *)
Theorem c14_int_long_accepts_iff_in_range : forall d, int_grammar d = true -> (18 < length d)%nat ->
  (fix_int_read d = Ok (int_value d) <-> in_int64 (int_value d)) /\
  (~ in_int64 (int_value d) -> fix_int_read d = Err E_RANGE).
Proof. exact atoi_long_accepts_iff. Qed.
Example c14_int_long_ex :   (* "9223372036854775808" = 2^63 *)
  let d := [57; 50; 50; 51; 51; 55; 50; 48; 51; 54; 56; 53; 52; 55; 55; 53; 56; 48; 56] in
  int_grammar d = true /\ (18 < length d)%nat /\ int_value d = two63 /\ fix_int_read d = Err E_RANGE.
Proof. vm_compute. repeat split. apply Nat.leb_le. reflexivity. Qed.

(* accepted <=> grammar and int64 range, with the denoted value: for every byte string *)
Theorem c14_int_read_iff : forall d z, fix_int_read d = Ok z <-> int_read_spec d = Some z.
Proof. exact atoi_ok_iff. Qed.

(* write then read *)
Theorem c14_int_write_read : forall z, in_int64 z -> fix_int_read (fix_int_write z) = Ok z.
Proof. exact atoi_itoa. Qed.
Example c14_int_write_read_ex : in_int64 (- two63) /\ in_int64 (two63 - 1).
Proof. unfold in_int64, two63. split; split; discriminate || reflexivity. Qed.

(* read then write: a canonical text (no leading zeros, no "-0") is reproduced; Write only produces canonical texts *)
Theorem c14_int_read_write : forall s, canonical_int s = true -> fix_int_write (int_value s) = s.
Proof. exact itoa_canonical. Qed.
Theorem c14_int_write_canonical : forall z, canonical_int (fix_int_write z) = true.
Proof. exact itoa_is_canonical. Qed.
Example c14_int_read_write_ex : canonical_int [45; 49; 48] = true /\ canonical_int [48] = true
  /\ canonical_int [48; 49] = false /\ canonical_int [45; 48] = false.
Proof. repeat split. Qed.

(* ------------------------------------------------------------------ bool *)

(* exactly "Y" and "N" are accepted *)
Theorem c14_bool_read_iff : forall d b, fix_bool_read d = Ok b <-> d = (if b then [89] else [78]).
Proof. exact fix_bool_read_ok_iff. Qed.
Theorem c14_bool_rejects : forall d, d <> [89] -> d <> [78] -> fix_bool_read d = Err 1.
Proof. exact fix_bool_read_rejects. Qed.
Example c14_bool_rejects_ex : [121] <> [89] /\ [121] <> [78] /\ (@nil Z) <> [89].
Proof. repeat split; discriminate. Qed.
Theorem c14_bool_write_read : forall b, fix_bool_read (fix_bool_write b) = Ok b.
Proof. exact fix_bool_write_read. Qed.
Theorem c14_bool_read_write : forall d b, fix_bool_read d = Ok b -> fix_bool_write b = d.
Proof. exact fix_bool_read_write. Qed.
Example c14_bool_read_write_ex : fix_bool_read [78] = Ok false.
Proof. reflexivity. Qed.

(* ------------------------------------------------------------------ UTC timestamp
   Grammar ts_grammarb p s (Types/TypesSpec.v): YYYYMMDD-HH:MM:SS, then nothing (p = 1 seconds), .sss (p = 0 millis),
   .ssssss (p = 2 micros), .sssssssss (p = 3 nanos); valid proleptic Gregorian date of the years 0000..9999,
   HH < 24, MM < 60, SS < 60 (time.Parse refuses a leap second 60).
   ts_value p s = (unix seconds, nanoseconds). *)

(* accepted <=> grammar, with the denoted instant: for every byte string *)
Theorem c14_ts_read_iff : forall s t p,
  timestamp_read s = Ok (t, p) <-> ts_grammarb p s = true /\ t = ts_value p s.
Proof. exact timestamp_read_iff. Qed.
Theorem c14_ts_read_grammar : forall p s, ts_grammarb p s = true -> timestamp_read s = Ok (ts_value p s, p).
Proof. exact timestamp_read_grammar. Qed.
Example c14_ts_read_grammar_ex : ts_grammarb 2 tsp_example_text = true
  /\ ts_value 2 tsp_example_text = (1078099199, 123456000).
Proof. exact tsp_example_grammar. Qed.

(* write then read: the instant truncated to the written precision, for every instant of the years 0000..9999
   and every precision value (a value other than 0..3 is written, and read back, as millis) *)
Theorem c14_ts_write_read : forall t p, ts_in_rangeb t = true ->
  timestamp_read (timestamp_write t p) = Ok (ts_trunc (ts_norm_prec p) t, ts_norm_prec p).
Proof. exact timestamp_write_read. Qed.
Example c14_ts_write_read_ex :
  ts_in_rangeb (1078099199, 123456789) = true /\ ts_trunc 0 (1078099199, 123456789) = (1078099199, 123000000)
  /\ ts_in_rangeb (TS_MIN_SEC, 0) = true /\ ts_in_rangeb (TS_MAX_SEC - 1, 999999999) = true.
Proof. vm_compute. repeat split. Qed.

(* what is written is of the grammar *)
Theorem c14_ts_write_grammar : forall t p, ts_in_rangeb t = true ->
  ts_grammarb (ts_norm_prec p) (timestamp_write t p) = true.
Proof. exact timestamp_write_grammar. Qed.

(* read then write: every text of the grammar is canonical *)
Theorem c14_ts_read_write : forall p s, ts_grammarb p s = true -> timestamp_write (ts_value p s) p = s.
Proof. exact timestamp_read_write. Qed.

(* the calendar arithmetic both directions rest on: inverse for every day number / every valid date *)
Theorem c14_days_civil_inverse : forall z,
  gt_days_from_civil (fst (fst (gt_civil_from_days z))) (snd (fst (gt_civil_from_days z))) (snd (gt_civil_from_days z)) = z.
Proof. exact gt_days_from_civil_inv. Qed.
Theorem c14_civil_days_inverse : forall y m d, gt_valid_date y m d ->
  gt_civil_from_days (gt_days_from_civil y m d) = (y, m, d).
Proof. exact gt_civil_from_days_inv. Qed.
Example c14_civil_days_inverse_ex : gt_valid_date 2000 2 29 /\ gt_days_from_civil 2000 2 29 = 11016
  /\ ~ gt_valid_date 1900 2 29.
Proof. unfold gt_valid_date. vm_compute. intuition discriminate. Qed.

(* ------------------------------------------------------------------ float (acceptance only) *)

(* accepted <=> optional '-', digits with at most one '.', at least one digit, and |value| < 2^1024 - 2^970 *)
Theorem c14_float_read_iff : forall s,
  float_read_ok s = true <-> float_grammarb s = true /\ float_in_rangeb s = true.
Proof. exact float_read_ok_iff. Qed.
Example c14_float_read_iff_ex :   (* "-.5" "1." in; "-" "." "-." "1-2" "1.2.3" "+1" "1e5" out *)
  float_spec [45; 46; 53] = true /\ float_spec [49; 46] = true /\ float_spec [45] = false /\ float_spec [46] = false
  /\ float_spec [45; 46] = false /\ float_spec [49; 45; 50] = false /\ float_spec [49; 46; 50; 46; 51] = false
  /\ float_spec [43; 49] = false /\ float_spec [49; 101; 53] = false /\ float_spec [] = false.
Proof. vm_compute. repeat split. Qed.

(* ------------------------------------------------------------------ string / bytes *)
Theorem c14_string_write_read : forall s, fix_string_read (fix_string_write s) = Ok s.
Proof. exact fix_string_roundtrip. Qed.
Theorem c14_string_read_write : forall d s, fix_string_read d = Ok s -> fix_string_write s = d.
Proof. exact fix_string_rewrite. Qed.
Theorem c14_bytes_write_read : forall s, fix_bytes_read (fix_bytes_write s) = Ok s.
Proof. exact fix_bytes_roundtrip. Qed.
Theorem c14_bytes_read_write : forall d s, fix_bytes_read d = Ok s -> fix_bytes_write s = d.
Proof. exact fix_bytes_rewrite. Qed.

(* ------------------------------------------------------------------ decimal (shopspring model) *)

(* Decimal.Round as StringFixed uses it is rounding half away from zero, for every coefficient, exponent, scale *)
Theorem c14_decimal_round_half_away : forall v e places,
  dcm_round (v, e) places = (dec_round_half_away v e places, - places).
Proof. exact dcm_round_spec. Qed.

(* write then read: the value rounded half away from zero to the written scale (scale within int32) *)
Theorem c14_decimal_write_read : forall v e scale, dcm_in_int32 (- scale) = true ->
  decimal_read (decimal_write (v, e) scale) =
  Ok (if 0 <? scale then (dec_round_half_away v e scale, - scale)
      else (dec_round_half_away v e scale * 10 ^ (- scale), 0)).
Proof. exact decimal_write_read. Qed.
Example c14_decimal_write_read_ex :   (* 2.5 -> "3", -2.5 -> "-3", 0.125 at 2 -> "0.13", -0.004 at 2 -> "0.00", 1234 at -2 -> "1200" *)
  dec_round_half_away 25 (-1) 0 = 3 /\ dec_round_half_away (-25) (-1) 0 = -3
  /\ decimal_write (125, -3) 2 = [48; 46; 49; 51] /\ decimal_write (-4, -3) 2 = [48; 46; 48; 48]
  /\ decimal_write (1234, 0) (-2) = [49; 50; 48; 48] /\ dcm_in_int32 (- 2) = true.
Proof. vm_compute. repeat split. Qed.
