(* C14 — field value types convert canonically and reject everything else.
   Only statements; every proof is `exact <lemma>` (DESIGN 2.2).
   Models: Codec/FixInt.v, Types/{FixBool,GoTime,FixTimestamp,FixFloat,FixString,FixDecimal}.v
   Specifications (grammars, values; boolean, extracted as the oracle of stream `types`): Codec/FixIntSpec.v, Types/TypesSpec.v
   Lemmas: Codec/FixIntProofs.v, Types/{FixBoolProofs,GoTimeProofs,FixTimestampProofs,FixFloatProofs}.v

   Modelled, not verified (trusted, exercised by the correspondence stream): the fragments of Go's time.Parse /
   Time.Format (Types/GoTime.v) and of strconv.ParseFloat's syntax and range verdict (Types/FixFloat.v).
   Float VALUES are not modelled.  Decimal / udecimal (shopspring, quagmt libraries): executable models of the
   library functions in Types/FixDecimal.v (modelled, not verified).  Proved of those models: FIXDecimal write->read
   (half away from zero, Types/FixDecimalProofs.v) and read->write of canonical texts (Types/FixDecimalCanon.v);
   FIXUDecimal acceptance <=> grammar, write->read (truncation towards zero) and read->write of canonical texts
   (Types/FixUDecimalProofs.v), within the bounds the library has and the model carries: texts of at most 200 bytes,
   precision 0..19.  Grammars / canonical texts / values: Types/DecimalSpec.v; rounding rules: Types/TypesSpec.v.
   That the models agree with the libraries is validated by the correspondence stream only. *)
From Coq Require Import ZArith List Bool.
From QF Require Import Base.Res Base.Bytes Codec.FixInt Codec.FixIntProofs
  Types.FixBool Types.FixString Types.FixBoolProofs
  Types.GoTime Types.GoTimeProofs Types.FixTimestamp Types.TypesSpec Types.FixTimestampProofs
  Types.FixFloat Types.FixFloatProofs Types.FixDecimal Types.FixDecimalProofs
  Codec.FixIntSpec Types.DecimalSpec Types.FixDecimalCanon Types.FixUDecimalProofs.
Import ListNotations.
Open Scope Z_scope.

(* ------------------------------------------------------------------ int *)

(* a text outside the grammar -?[0-9]+ is an error *)
Theorem c14_int_rejects_outside_grammar : forall d,
  int_grammar d = false -> exists e, fix_int_read d = Err e.
Proof. exact atoi_rejects_nongrammar. Qed.
Example c14_int_rejects_ex : int_grammar [49; 32] = false /\ int_grammar [] = false /\ int_grammar [45] = false.
Proof. repeat split. Qed.

(* reading never panics or hangs *)
Theorem c14_int_read_total : forall d, total_res (fix_int_read d).
Proof. exact atoi_total. Qed.

(* up to 18 bytes (the fast path) a grammatical text is read as the number it denotes *)
Theorem c14_int_read_value_short : forall d,
  int_grammar d = true -> (length d <= 18)%nat -> fix_int_read d = Ok (int_value d).
Proof. exact atoi_short_value. Qed.
Example c14_int_read_value_short_ex :
  int_grammar [45; 48; 52; 50] = true /\ int_value [45; 48; 52; 50] = -42.
Proof. split; reflexivity. Qed.

(* every grammatical text, of any length: its value when that is an int64, an error otherwise (no wrap-around) *)
Theorem c14_int_read_value : forall d, int_grammar d = true ->
  fix_int_read d = if in_int64b (int_value d) then Ok (int_value d) else Err E_RANGE.
Proof. exact atoi_grammar_value. Qed.

(* the long path (more than 18 bytes) accepts iff the value is within int64 *)
Theorem c14_int_long_accepts_iff_in_range : forall d, int_grammar d = true -> (18 < length d)%nat ->
  (fix_int_read d = Ok (int_value d) <-> in_int64 (int_value d)) /\
  (~ in_int64 (int_value d) -> fix_int_read d = Err E_RANGE).
Proof. exact atoi_long_accepts_iff. Qed.
Example c14_int_long_ex :   (* "9223372036854775808" = 2^63 *)
  let d := [57; 50; 50; 51; 51; 55; 50; 48; 51; 54; 56; 53; 52; 55; 55; 53; 56; 48; 56] in
  int_grammar d = true /\ (18 < length d)%nat /\ int_value d = two63 /\ fix_int_read d = Err E_RANGE.
Proof. vm_compute. repeat split. apply Nat.leb_le. reflexivity. Qed.

(* accepted <=> grammar and int64 range, with the denoted value: for every byte string *)
Theorem c14_int_read_iff : forall d z, fix_int_read d = Ok z <-> int_read_spec d = Some z.
Proof. exact atoi_ok_iff. Qed.

(* write then read *)
Theorem c14_int_write_read : forall z, in_int64 z -> fix_int_read (fix_int_write z) = Ok z.
Proof. exact atoi_itoa. Qed.
Example c14_int_write_read_ex : in_int64 (- two63) /\ in_int64 (two63 - 1).
Proof. unfold in_int64, two63. split; split; discriminate || reflexivity. Qed.

(* read then write: a canonical text (no leading zeros, no "-0") is reproduced; Write only produces canonical texts *)
Theorem c14_int_read_write : forall s, canonical_int s = true -> fix_int_write (int_value s) = s.
Proof. exact itoa_canonical. Qed.
Theorem c14_int_write_canonical : forall z, canonical_int (fix_int_write z) = true.
Proof. exact itoa_is_canonical. Qed.
Example c14_int_read_write_ex : canonical_int [45; 49; 48] = true /\ canonical_int [48] = true
  /\ canonical_int [48; 49] = false /\ canonical_int [45; 48] = false.
Proof. repeat split. Qed.

(* ------------------------------------------------------------------ bool *)

(* exactly "Y" and "N" are accepted *)
Theorem c14_bool_read_iff : forall d b, fix_bool_read d = Ok b <-> d = (if b then [89] else [78]).
Proof. exact fix_bool_read_ok_iff. Qed.
Theorem c14_bool_rejects : forall d, d <> [89] -> d <> [78] -> fix_bool_read d = Err 1.
Proof. exact fix_bool_read_rejects. Qed.
Example c14_bool_rejects_ex : [121] <> [89] /\ [121] <> [78] /\ (@nil Z) <> [89].
Proof. repeat split; discriminate. Qed.
Theorem c14_bool_write_read : forall b, fix_bool_read (fix_bool_write b) = Ok b.
Proof. exact fix_bool_write_read. Qed.
Theorem c14_bool_read_write : forall d b, fix_bool_read d = Ok b -> fix_bool_write b = d.
Proof. exact fix_bool_read_write. Qed.
Example c14_bool_read_write_ex : fix_bool_read [78] = Ok false.
Proof. reflexivity. Qed.

(* ------------------------------------------------------------------ UTC timestamp
   Grammar ts_grammarb p s (Types/TypesSpec.v): YYYYMMDD-HH:MM:SS, then nothing (p = 1 seconds), .sss (p = 0 millis),
   .ssssss (p = 2 micros), .sssssssss (p = 3 nanos); valid proleptic Gregorian date of the years 0000..9999,
   HH < 24, MM < 60, SS < 60 (time.Parse refuses a leap second 60).
   ts_value p s = (unix seconds, nanoseconds). *)

(* accepted <=> grammar, with the denoted instant: for every byte string *)
Theorem c14_ts_read_iff : forall s t p,
  timestamp_read s = Ok (t, p) <-> ts_grammarb p s = true /\ t = ts_value p s.
Proof. exact timestamp_read_iff. Qed.
Theorem c14_ts_read_grammar : forall p s, ts_grammarb p s = true -> timestamp_read s = Ok (ts_value p s, p).
Proof. exact timestamp_read_grammar. Qed.
Example c14_ts_read_grammar_ex : ts_grammarb 2 tsp_example_text = true
  /\ ts_value 2 tsp_example_text = (1078099199, 123456000).
Proof. exact tsp_example_grammar. Qed.

(* write then read: the instant truncated to the written precision, for every instant of the years 0000..9999
   and every precision value (a value other than 0..3 is written, and read back, as millis) *)
Theorem c14_ts_write_read : forall t p, ts_in_rangeb t = true ->
  timestamp_read (timestamp_write t p) = Ok (ts_trunc (ts_norm_prec p) t, ts_norm_prec p).
Proof. exact timestamp_write_read. Qed.
Example c14_ts_write_read_ex :
  ts_in_rangeb (1078099199, 123456789) = true /\ ts_trunc 0 (1078099199, 123456789) = (1078099199, 123000000)
  /\ ts_in_rangeb (TS_MIN_SEC, 0) = true /\ ts_in_rangeb (TS_MAX_SEC - 1, 999999999) = true.
Proof. vm_compute. repeat split. Qed.

(* what is written is of the grammar *)
Theorem c14_ts_write_grammar : forall t p, ts_in_rangeb t = true ->
  ts_grammarb (ts_norm_prec p) (timestamp_write t p) = true.
Proof. exact timestamp_write_grammar. Qed.

(* read then write: every text of the grammar is canonical *)
Theorem c14_ts_read_write : forall p s, ts_grammarb p s = true -> timestamp_write (ts_value p s) p = s.
Proof. exact timestamp_read_write. Qed.

(* the calendar arithmetic both directions rest on: inverse for every day number / every valid date *)
Theorem c14_days_civil_inverse : forall z,
  gt_days_from_civil (fst (fst (gt_civil_from_days z))) (snd (fst (gt_civil_from_days z))) (snd (gt_civil_from_days z)) = z.
Proof. exact gt_days_from_civil_inv. Qed.
Theorem c14_civil_days_inverse : forall y m d, gt_valid_date y m d ->
  gt_civil_from_days (gt_days_from_civil y m d) = (y, m, d).
Proof. exact gt_civil_from_days_inv. Qed.
Example c14_civil_days_inverse_ex : gt_valid_date 2000 2 29 /\ gt_days_from_civil 2000 2 29 = 11016
  /\ ~ gt_valid_date 1900 2 29.
Proof. unfold gt_valid_date. vm_compute. intuition discriminate. Qed.

(* ------------------------------------------------------------------ float (acceptance only) *)

(* accepted <=> optional '-', digits with at most one '.', at least one digit, and |value| < 2^1024 - 2^970 *)
Theorem c14_float_read_iff : forall s,
  float_read_ok s = true <-> float_grammarb s = true /\ float_in_rangeb s = true.
Proof. exact float_read_ok_iff. Qed.
Example c14_float_read_iff_ex :   (* "-.5" "1." in; "-" "." "-." "1-2" "1.2.3" "+1" "1e5" out *)
  float_spec [45; 46; 53] = true /\ float_spec [49; 46] = true /\ float_spec [45] = false /\ float_spec [46] = false
  /\ float_spec [45; 46] = false /\ float_spec [49; 45; 50] = false /\ float_spec [49; 46; 50; 46; 51] = false
  /\ float_spec [43; 49] = false /\ float_spec [49; 101; 53] = false /\ float_spec [] = false.
Proof. vm_compute. repeat split. Qed.

(* ------------------------------------------------------------------ string / bytes *)
Theorem c14_string_write_read : forall s, fix_string_read (fix_string_write s) = Ok s.
Proof. exact fix_string_roundtrip. Qed.
Theorem c14_string_read_write : forall d s, fix_string_read d = Ok s -> fix_string_write s = d.
Proof. exact fix_string_rewrite. Qed.
Theorem c14_bytes_write_read : forall s, fix_bytes_read (fix_bytes_write s) = Ok s.
Proof. exact fix_bytes_roundtrip. Qed.
Theorem c14_bytes_read_write : forall d s, fix_bytes_read d = Ok s -> fix_bytes_write s = d.
Proof. exact fix_bytes_rewrite. Qed.

(* ------------------------------------------------------------------ decimal (shopspring model) *)

(* Decimal.Round as StringFixed uses it is rounding half away from zero, for every coefficient, exponent, scale *)
Theorem c14_decimal_round_half_away : forall v e places,
  dcm_round (v, e) places = (dec_round_half_away v e places, - places).
Proof. exact dcm_round_spec. Qed.

(* write then read: the value rounded half away from zero to the written scale (scale within int32) *)
Theorem c14_decimal_write_read : forall v e scale, dcm_in_int32 (- scale) = true ->
  decimal_read (decimal_write (v, e) scale) =
  Ok (if 0 <? scale then (dec_round_half_away v e scale, - scale)
      else (dec_round_half_away v e scale * 10 ^ (- scale), 0)).
Proof. exact decimal_write_read. Qed.
Example c14_decimal_write_read_ex :   (* 2.5 -> "3", -2.5 -> "-3", 0.125 at 2 -> "0.13", -0.004 at 2 -> "0.00", 1234 at -2 -> "1200" *)
  dec_round_half_away 25 (-1) 0 = 3 /\ dec_round_half_away (-25) (-1) 0 = -3
  /\ decimal_write (125, -3) 2 = [48; 46; 49; 51] /\ decimal_write (-4, -3) 2 = [48; 46; 48; 48]
  /\ decimal_write (1234, 0) (-2) = [49; 50; 48; 48] /\ dcm_in_int32 (- 2) = true.
Proof. vm_compute. repeat split. Qed.

(* ------------------------------------------------------------------ decimal, read -> write (shopspring model)
   dec_canonicalb k s (Types/DecimalSpec.v): optional '-', integer digits without superfluous leading zeros, and
   exactly k fraction digits (k = 0: no point); a negative text is not zero ("-0", "-0.00" are out).
   dec_text_coef s: the integer made of all the digits, with the sign. *)

(* read then write: a canonical text of scale k is read as (coefficient, -k) and written back at scale k as the
   same text (k within int32: NewFromString refuses an exponent outside int32) *)
Theorem c14_decimal_read_write : forall k s,
  dec_canonicalb k s = true -> dcm_in_int32 (- Z.of_nat k) = true ->
  decimal_read s = Ok (dec_text_coef s, - Z.of_nat k)
  /\ decimal_write (dec_text_coef s, - Z.of_nat k) (Z.of_nat k) = s.
Proof. exact decimal_read_write_canonical. Qed.
Theorem c14_decimal_read_then_write : forall k s d,
  dec_canonicalb k s = true -> dcm_in_int32 (- Z.of_nat k) = true ->
  decimal_read s = Ok d -> decimal_write d (Z.of_nat k) = s.
Proof. exact decimal_read_then_write. Qed.
Example c14_decimal_read_write_ex :   (* "-12.50" at 2, "0.007" at 3, "0" at 0 in; "012.5" "-0.0" "1." "+1.5" ".5" "1.50" at 1 out *)
  dec_canonicalb 2 [45; 49; 50; 46; 53; 48] = true /\ dcm_in_int32 (- Z.of_nat 2) = true
  /\ dec_text_coef [45; 49; 50; 46; 53; 48] = -1250
  /\ decimal_read [45; 49; 50; 46; 53; 48] = Ok (-1250, -2)
  /\ dec_canonicalb 3 [48; 46; 48; 48; 55] = true /\ dec_canonicalb 0 [48] = true
  /\ dec_canonicalb 1 [48; 49; 50; 46; 53] = false /\ dec_canonicalb 1 [45; 48; 46; 48] = false
  /\ dec_canonicalb 0 [49; 46] = false /\ dec_canonicalb 1 [43; 49; 46; 53] = false
  /\ dec_canonicalb 1 [46; 53] = false /\ dec_canonicalb 1 [49; 46; 53; 48] = false
  /\ dec_canonicalb 0 [45; 48] = false.
Proof. vm_compute. repeat split. Qed.

(* Write at a scale >= 0 produces canonical texts of that scale only *)
Theorem c14_decimal_write_canonical : forall v e scale, 0 <= scale ->
  dec_canonicalb (Z.to_nat scale) (decimal_write (v, e) scale) = true.
Proof. exact decimal_write_canonical. Qed.

(* ------------------------------------------------------------------ udecimal (quagmt model)
   Bounds of the library, carried by the model: a text has at most 200 bytes, a value has precision 0..19
   (udec_wfb: coefficient >= 0, 0 <= precision <= 19); the scale of FIXUDecimal is a uint8 (>= 0). *)

(* accepted <=> grammar, with the denoted value, for every byte string; everything else is an error *)
Theorem c14_udecimal_read_iff : forall s d, udecimal_read s = Ok d <-> udec_read_spec s = Some d.
Proof. exact udecimal_read_iff. Qed.
Theorem c14_udecimal_read_rejects : forall s, udec_grammarb s = false -> udecimal_read s = Err E_DEC.
Proof. exact udecimal_read_rejects. Qed.
Theorem c14_udecimal_read_total : forall s, total_res (udecimal_read s).
Proof. exact udecimal_read_total. Qed.
(* the grammar as a decomposition: at most 200 bytes; sign "", "-", "+" (or "-+" in a text longer than 41 bytes:
   the library's big.Int path, kept by the model); digits; optionally '.' and 1..19 digits *)
Theorem c14_udecimal_grammarb_iff : forall s, udec_grammarb s = true <-> udec_grammar s.
Proof. exact udec_grammarb_iff. Qed.
Theorem c14_udecimal_accepts_iff_grammar : forall s, (exists d, udecimal_read s = Ok d) <-> udec_grammar s.
Proof. exact udecimal_read_ok_iff_grammar. Qed.
Example c14_udecimal_grammar_ex :   (* "+1.5" "-0.0" "007" in; "" "-" "-.5" "1." "1.2.3" "1e5" " 1" and 20 fraction digits out *)
  udec_read_spec [43; 49; 46; 53] = Some (false, 15, 1) /\ udec_read_spec [45; 48; 46; 48] = Some (false, 0, 0)
  /\ udec_read_spec [48; 48; 55] = Some (false, 7, 0)
  /\ udec_grammarb [] = false /\ udec_grammarb [45] = false /\ udec_grammarb [45; 46; 53] = false
  /\ udec_grammarb [49; 46] = false /\ udec_grammarb [49; 46; 50; 46; 51] = false
  /\ udec_grammarb [49; 101; 53] = false /\ udec_grammarb [32; 49] = false
  /\ udec_grammarb ([49; 46] ++ repeat 49 19) = true /\ udec_grammarb ([49; 46] ++ repeat 49 20) = false
  /\ udec_grammarb (repeat 49 200) = true /\ udec_grammarb (repeat 49 201) = false
  /\ udec_grammarb ([45; 43] ++ repeat 49 39) = false /\ udec_grammarb ([45; 43] ++ repeat 49 40) = true.
Proof. vm_compute. repeat split. Qed.
Example c14_udecimal_grammar_prop_ex : udec_grammar [43; 49; 46; 53].
Proof. exact (proj1 (udec_grammarb_iff [43; 49; 46; 53]) eq_refl). Qed.

(* write then read: the value truncated towards zero to the written scale (udec_trunc_spec of TypesSpec.v: the
   coefficient at precision min p k), held at precision min k 19 (StringFixed pads to the scale, at most 19) *)
Theorem c14_udecimal_write_read : forall neg coef p k,
  udec_wfb (neg, coef, p) = true -> (0 <=? k) = true ->
  Nat.leb (length (udecimal_write (neg, coef, p) k)) UDEC_MAX_LEN = true ->
  udecimal_read (udecimal_write (neg, coef, p) k)
  = Ok (udec_norm neg (udec_trunc_spec coef p k * 10 ^ (Z.min k 19 - Z.min p k)) (Z.min k 19)).
Proof. exact udecimal_write_read. Qed.
(* numerically: what is read back is well formed and equals sign * trunc(coef / 10^(p-k)) / 10^(min p k),
   which is the value of Decimal.Trunc(k) *)
Theorem c14_udecimal_write_read_value : forall neg coef p k,
  udec_wfb (neg, coef, p) = true -> (0 <=? k) = true ->
  Nat.leb (length (udecimal_write (neg, coef, p) k)) UDEC_MAX_LEN = true ->
  exists d', udecimal_read (udecimal_write (neg, coef, p) k) = Ok d'
    /\ udec_wfb d' = true
    /\ udec_value_eqb d' (neg, udec_trunc_spec coef p k, Z.min p k) = true
    /\ udec_value_eqb d' (udc_trunc (neg, coef, p) k) = true.
Proof. exact udecimal_write_read_value. Qed.
(* the 200-byte hypothesis holds for every coefficient below 10^179 (a u128 coefficient is below 10^39) *)
Theorem c14_udecimal_write_length : forall neg coef p k,
  udec_wfb (neg, coef, p) = true -> (0 <=? k) = true -> (coef <? 10 ^ 179) = true ->
  Nat.leb (length (udecimal_write (neg, coef, p) k)) UDEC_MAX_LEN = true.
Proof. exact udecimal_write_length. Qed.
Theorem c14_udecimal_write_read_small : forall neg coef p k,
  udec_wfb (neg, coef, p) = true -> (0 <=? k) = true -> (coef <? 10 ^ 179) = true ->
  udecimal_read (udecimal_write (neg, coef, p) k)
  = Ok (udec_norm neg (udec_trunc_spec coef p k * 10 ^ (Z.min k 19 - Z.min p k)) (Z.min k 19)).
Proof. exact udecimal_write_read_small. Qed.
Example c14_udecimal_write_read_ex :   (* -123.456 at 2 -> "-123.45" -> -123.45; 1.5 at 3 -> "1.500"; -0.004 at 2 -> "0.00" -> 0; 1.5 at 25 -> 19 digits *)
  udec_wfb (true, 123456, 3) = true /\ (0 <=? 2) = true /\ (123456 <? 10 ^ 179) = true
  /\ Nat.leb (length (udecimal_write (true, 123456, 3) 2)) UDEC_MAX_LEN = true
  /\ udecimal_write (true, 123456, 3) 2 = [45; 49; 50; 51; 46; 52; 53]
  /\ udecimal_read (udecimal_write (true, 123456, 3) 2) = Ok (true, 12345, 2)
  /\ udecimal_write (false, 15, 1) 3 = [49; 46; 53; 48; 48]
  /\ udecimal_read (udecimal_write (false, 15, 1) 3) = Ok (false, 1500, 3)
  /\ udecimal_write (true, 4, 3) 2 = [48; 46; 48; 48]
  /\ udecimal_read (udecimal_write (true, 4, 3) 2) = Ok (false, 0, 0)
  /\ udecimal_read (udecimal_write (false, 15, 1) 25) = Ok (false, 15 * 10 ^ 18, 19).
Proof. vm_compute. repeat split. Qed.

(* read then write: a canonical text of scale k <= 19 and at most 200 bytes (udec_canonicalb) is read as the number
   it denotes and written back at scale k as the same text *)
Theorem c14_udecimal_read_write : forall k s, udec_canonicalb k s = true ->
  udecimal_read s = Ok (udec_text_value s) /\ udecimal_write (udec_text_value s) (Z.of_nat k) = s.
Proof. exact udecimal_read_write_canonical. Qed.
Theorem c14_udecimal_read_then_write : forall k s d, udec_canonicalb k s = true ->
  udecimal_read s = Ok d -> udecimal_write d (Z.of_nat k) = s.
Proof. exact udecimal_read_then_write. Qed.
Example c14_udecimal_read_write_ex :
  udec_canonicalb 2 [45; 49; 50; 51; 46; 52; 48] = true /\ udec_text_value [45; 49; 50; 51; 46; 52; 48] = (true, 12340, 2)
  /\ udec_canonicalb 2 [48; 46; 48; 48] = true /\ udec_canonicalb 0 [55] = true
  /\ udec_canonicalb 2 [43; 49; 46; 52; 48] = false /\ udec_canonicalb 20 ([49; 46] ++ repeat 49 20) = false.
Proof. vm_compute. repeat split. Qed.

(* Write produces canonical texts only, of scale min k 19 *)
Theorem c14_udecimal_write_canonical : forall neg coef p k,
  udec_wfb (neg, coef, p) = true -> (0 <=? k) = true ->
  dec_canonicalb (Z.to_nat (Z.min k 19)) (udecimal_write (neg, coef, p) k) = true.
Proof. exact udecimal_write_canonical. Qed.
