(* C14 — field value types convert canonically and reject everything else.
   Only statements; every proof is `exact <lemma>` (DESIGN 2.2). *)
From Coq Require Import ZArith List Bool.
From QF Require Import Base.Res Base.Bytes Codec.FixInt Codec.FixIntProofs.
Open Scope Z_scope.

(* int: exactly the texts of the grammar -?[0-9]+ are accepted, everything else is an error (never a panic) *)
Theorem c14_int_accepts_exactly_grammar : forall d,
  (int_grammar d = true -> exists z, fix_int_read d = Ok z) /\
  (int_grammar d = false -> exists e, fix_int_read d = Err e).
Proof. exact atoi_accepts_iff_grammar. Qed.
