(* C11 - parsing exposes exactly what is on the wire and rejects mis-framed messages.
   Only statements; every proof is `exact <lemma>` (DESIGN 2.2).

   Vocabulary (Codec/Scan.v, model-free): ser fs = the wire bytes of the field list fs (tag=value SOH ...);
   c11_framed fs = first three tags 8, 9, 35; last tag 10 and 10 nowhere else; no second BodyLength; tags positive
   decimals below 10^18; values SOH-free, except the field following XMLDataLen (212=n, n > 0), which holds exactly
   n arbitrary bytes; c11_wire_ok fs = c11_framed fs and the 9 field holds the decimal byte count of all fields except
   8, 9, 10 (below 2^63); c11_last_value = last occurrence of a tag.
   do_parsing raw td ad = the model of ParseMessageWithDataDictionary on a fresh Message (Codec/Parse.v), td / ad the
   transport / application dictionary views.  parsed_section td t m = header, trailer or body of m, as IsHeader /
   IsTrailer and the transport dictionary classify tag t. *)
From Coq Require Import ZArith List Bool.
From QF Require Import Base.Res Base.Bytes Codec.TagValue Codec.TagValueProofs Codec.FieldMap Codec.Build Codec.Parse
  Codec.ParseProofs Codec.Scan Codec.ScanProofs.
Import ListNotations.
Open Scope Z_scope.

(* FULL STATEMENT (DESIGN C11): forall fs td ad, wire_ok fs -> ... with retrieval for every field that the application
   dictionary does not gather into a repeating group.
   Proved for every transport dictionary and every application dictionary under ad_no_group_start ad fs: no tag of the
   message is declared as a NumInGroup field (a field with members) by the dictionary, for any MsgType - in particular
   for ad = None (c11_fidelity_no_app_dictionary) and for dictionaries none of whose message definitions has a group on
   a tag of the message (c11_no_group_start_sufficient).
   MISSING CASE, precisely: messages in which a repeating group of the application dictionary actually starts
   (parseGroup runs).  There the field array and raw bytes are still covered by the correspondence stream `parse` and
   by c11_parse_total, and group extents by area `groups` (C13); a proof over this model would need the
   characterisation of pg_loop (which fields are gathered under the group's tag). *)
Theorem c11_fidelity_partial : forall fs td ad, c11_wire_ok fs = true -> ad_no_group_start ad fs ->
  exists m, do_parsing (ser fs) td ad = Ok m /\                                (* accepted *)
    m_raw m = Some (ser fs) /\                                                 (* raw bytes unchanged *)
    m_fields m = map init_of fs ++ repeat tv_zero (count_byte SOH (ser fs) - length fs) /\   (* field order preserved *)
    forall t v, c11_last_value fs t = Some v -> fm_get_bytes (parsed_section td t m) t = Ok v.  (* retrievable from its section *)
Proof. exact parse_fidelity. Qed.

Theorem c11_fidelity_no_app_dictionary : forall fs, ad_no_group_start None fs.
Proof. exact ad_no_group_start_none. Qed.

Theorem c11_no_group_start_sufficient : forall d fs,
  (forall mt defs t, In (mt, defs) d -> In t (map fst fs) -> gd_walk defs [t] = []) -> ad_no_group_start (Some d) fs.
Proof. exact ad_no_group_start_some. Qed.

(* a message of tag=value fields whose first three tags are not 8, 9, 35 is rejected (any dictionaries) *)
Theorem c11_leading_order : forall fs td ad, Forall plain_field fs -> c11_lead_ok fs = false ->
  exists e, do_parsing (ser fs) td ad = Err e.
Proof. exact parse_rejects_wrong_leading_order. Qed.

(* a framed message whose BodyLength field is not the decimal byte count of its content is rejected
   (messages carrying XMLData included: the check is unconditional) *)
Theorem c11_length : forall fs td ad f1 v9 rest, c11_framed fs = true -> ad_no_group_start ad fs ->
  fs = f1 :: (9, v9) :: rest ->
  c11_declared v9 <> Some (c11_body_length fs) -> exists e, do_parsing (ser fs) td ad = Err e.
Proof. exact parse_rejects_wrong_body_length. Qed.

(* C09 for the parser: any bytes, any dictionaries: a value or an error, never a panic or a hang *)
Theorem c11_parse_total : forall bs td ad, total_res (do_parsing bs td ad).
Proof. exact do_parsing_total. Qed.

(* a field written by TagValue.init is read back by TagValue.parse as the same tag, value and bytes *)
Theorem c11_tag_value_round_trip : forall t v, 0 <= t < two63 -> tv_parse (tv_bytes (tv_init t v)) = Ok (tv_init t v).
Proof. exact tv_parse_init. Qed.

(* the independent scanner reads a serialised field list back (non-negative tags, SOH-free values) *)
Theorem c11_scan_of_serialised : forall fs, Forall field_scannable fs -> scan (ser fs) = Some fs.
Proof. exact scan_ser. Qed.

(* non-vacuity: XMLData with an embedded SOH, a '='-containing high-byte value, a repeated tag *)
Example c11_hypothesis_satisfiable : c11_wire_ok c11_example_fields = true.
Proof. exact c11_example_wire_ok. Qed.
