(* C11 - parsing exposes exactly what is on the wire and rejects mis-framed messages.
   Only statements; every proof is `exact <lemma>` (DESIGN 2.2).

   Vocabulary (Codec/Scan.v, model-free): ser fs = the wire bytes of the field list fs (tag=value SOH ...);
   c11_framed fs = first three tags 8, 9, 35; last tag 10 and 10 nowhere else; no second BodyLength; tags positive
   decimals below 10^18; values SOH-free, except the field following XMLDataLen (212=n, n > 0), which holds exactly
   n arbitrary bytes; c11_wire_ok fs = c11_framed fs and the 9 field holds the decimal byte count of all fields except
   8, 9, 10 (below 2^63); c11_last_value = last occurrence of a tag.
   do_parsing raw td ad = the model of ParseMessageWithDataDictionary on a fresh Message (Codec/Parse.v), td / ad the
   transport / application dictionary views.  parsed_section td t m = header, trailer or body of m, as IsHeader /
   IsTrailer and the transport dictionary classify tag t. *)
From Coq Require Import ZArith List Bool.
From QF Require Import Base.Res Base.Bytes Codec.TagValue Codec.TagValueProofs Codec.FieldMap Codec.Build Codec.Parse
  Codec.ParseProofs Codec.Scan Codec.ScanProofs.
From QF Require Import Spec.FixStd Codec.Group Codec.GroupProofs Codec.GroupShipped Codec.GroupMulti Codec.ParseGroupProofs.
From QF Require Import Codec.ParseLengthGroups Codec.ParseShipped Dict.Xml Dict.Build Gen.Dicts.Index.
Import ListNotations.
Open Scope Z_scope.

(* FULL STATEMENT (DESIGN C11): forall fs td ad, wire_ok fs -> ... with retrieval for every field that the application
   dictionary does not gather into a repeating group.
   Proved for every transport dictionary and every application dictionary under ad_no_group_start ad fs: no tag of the
   message is declared as a NumInGroup field (a field with members) by the dictionary, for any MsgType - in particular
   for ad = None (c11_fidelity_no_app_dictionary) and for dictionaries none of whose message definitions has a group on
   a tag of the message (c11_no_group_start_sufficient).
   The case in which a repeating group of the application dictionary actually starts (parseGroup runs) is proved in
   Codec/ParseGroupProofs.v and stated in Props/C13.v (it needs the C13 machinery): c11_parse_refines_scan (pg_loop /
   dp_loop against the field-level scan rg_scan, every run) and c11_fidelity_groups (messages whose groups are
   well-formed for the dictionary: plain fields retrievable, raw bytes unchanged, groups retrievable via rg_read).
   STILL MISSING: messages in which a group of the dictionary starts but is NOT well-formed for it (count mismatch,
   members out of order, ...) - there only c11_parse_refines_scan applies (Body = the scan's Body.add calls) - and
   dictionaries that list a header / trailer tag as a group member. *)
Theorem c11_fidelity_partial : forall fs td ad, c11_wire_ok fs = true -> ad_no_group_start ad fs ->
  exists m, do_parsing (ser fs) td ad = Ok m /\                                (* accepted *)
    m_raw m = Some (ser fs) /\                                                 (* raw bytes unchanged *)
    m_fields m = map init_of fs /\                                             (* exactly the wire's fields, in order *)
    forall t v, c11_last_value fs t = Some v -> fm_get_bytes (parsed_section td t m) t = Ok v.  (* retrievable from its section *)
Proof. exact parse_fidelity. Qed.

Theorem c11_fidelity_no_app_dictionary : forall fs, ad_no_group_start None fs.
Proof. exact ad_no_group_start_none. Qed.

Theorem c11_no_group_start_sufficient : forall d fs,
  (forall mt defs t, In (mt, defs) d -> In t (map fst fs) -> gd_walk defs [t] = []) -> ad_no_group_start (Some d) fs.
Proof. exact ad_no_group_start_some. Qed.

(* a message of tag=value fields whose first three tags are not 8, 9, 35 is rejected (any dictionaries) *)
Theorem c11_leading_order : forall fs td ad, Forall plain_field fs -> c11_lead_ok fs = false ->
  exists e, do_parsing (ser fs) td ad = Err e.
Proof. exact parse_rejects_wrong_leading_order. Qed.

(* a framed message whose BodyLength field is not the decimal byte count of its content is rejected
   (messages carrying XMLData included: the check is unconditional).  Here: no group of the dictionary starts in the
   message; with groups starting (any, well-formed or not): c11_length_any_groups and its corollaries at the end. *)
Theorem c11_length : forall fs td ad f1 v9 rest, c11_framed fs = true -> ad_no_group_start ad fs ->
  fs = f1 :: (9, v9) :: rest ->
  c11_declared v9 <> Some (c11_body_length fs) -> exists e, do_parsing (ser fs) td ad = Err e.
Proof. exact parse_rejects_wrong_body_length. Qed.

(* C09 for the parser: any bytes, any dictionaries: a value or an error, never a panic or a hang *)
Theorem c11_parse_total : forall bs td ad, total_res (do_parsing bs td ad).
Proof. exact do_parsing_total. Qed.

(* a field written by TagValue.init is read back by TagValue.parse as the same tag, value and bytes *)
Theorem c11_tag_value_round_trip : forall t v, 0 <= t < two63 -> tv_parse (tv_bytes (tv_init t v)) = Ok (tv_init t v).
Proof. exact tv_parse_init. Qed.

(* the independent scanner reads a serialised field list back (non-negative tags, SOH-free values) *)
Theorem c11_scan_of_serialised : forall fs, Forall field_scannable fs -> scan (ser fs) = Some fs.
Proof. exact scan_ser. Qed.

(* non-vacuity: XMLData with an embedded SOH, a '='-containing high-byte value, a repeated tag *)
Example c11_hypothesis_satisfiable : c11_wire_ok c11_example_fields = true.
Proof. exact c11_example_wire_ok. Qed.

(* ---- C11 for messages in which repeating groups of the application dictionary DO start (parseGroup runs) ---- *)

(* The byte-level parser model (Codec/Parse.v: doParsing / parseGroup) against the field-level scan used above
   (Codec/Group.v: rg_scan), for EVERY well-formed wire message of a MsgType the dictionary knows - no assumption on the
   groups in it: accepted, raw bytes and field array unchanged, Header / Trailer = the header / trailer fields, and the
   Body is exactly the Body.add calls (tag, offset, length) of the scan, each adding the window fields[off : off+len].
   Needed: the group member lists of the message definition hold no header / trailer tag (dict_body_only; checkable:
   c11_dict_body_only_check), MsgType occurs once. *)
Theorem c11_parse_refines_scan : forall fs td d mt defs v8 v9 mid res,
  c11_wire_ok fs = true -> fs = (8, v8) :: (9, v9) :: (35, mt) :: mid -> ~ In TAG_MSG_TYPE (map fst mid) ->
  ad_find mt d = Some defs -> dict_body_only td defs ->
  rg_scan (td_xh td) (td_xt td) (Some (map gdef_rg defs)) RgTop 3%nat mid [] = Ok res ->
  exists m, do_parsing (ser fs) td (Some d) = Ok m /\
    m_raw m = Some (ser fs) /\
    m_fields m = map init_of fs /\
    m_header m = fold_left (addH td) fs hdr0 /\
    m_trailer m = fold_left (addT td) fs trl0 /\
    m_body m = body_of fs res.
Proof. exact parse_refines_scan. Qed.

Theorem c11_dict_body_only_check : forall td defs, dict_body_onlyb td defs = true -> dict_body_only td defs.
Proof. exact dict_body_onlyb_sound. Qed.

(* FIDELITY WITH GROUPS.  The message is 8, 9, 35 and a list of items - plain fields (header, trailer, or body fields that
   start no group) and repeating groups, in any order, groups back to back included - ending with CheckSum; every group
   satisfies the C13 hypotheses for the dictionary (c11g_ok).  Then: accepted; raw bytes unchanged; field array = the wire
   fields in order; every field outside the groups is retrievable from its section with its wire value (last occurrence
   wins); every group is stored in the Body under its tag as the window of its wire fields, and RepeatingGroup.Read on
   that window (capacity to the end of the field array) returns the group. *)
Theorem c11_fidelity_groups : forall td d mt defs v8 v9 v10 items fs,
  fs = (8, v8) :: (9, v9) :: (35, mt) :: c11g_flat (items ++ [CFld (10, v10)]) ->
  c11_wire_ok fs = true ->
  ~ In TAG_MSG_TYPE (map fst (c11g_flat items)) ->
  ad_find mt d = Some defs -> dict_body_only td defs ->
  c11g_ok td defs (items ++ [CFld (10, v10)]) ->
  exists m, do_parsing (ser fs) td (Some d) = Ok m /\
    m_raw m = Some (ser fs) /\
    m_fields m = map init_of fs /\
    (forall t v, c11_last_value ((8, v8) :: (9, v9) :: (35, mt) :: c11g_flds (items ++ [CFld (10, v10)])) t = Some v ->
       fm_get_bytes (parsed_section td t m) t = Ok v) /\
    (forall before t T g after, items = before ++ CGrp t T g :: after ->
       let off := (3 + length (c11g_flat before))%nat in
       exists f, lk_get (fm_lookup (m_body m)) t = Some f /\
         field_tvs f = firstn (length (rg_write T t g)) (skipn off (m_fields m)) /\
         map tv_pair (field_tvs f) = rg_write T t g /\
         rmap fst (rg_read T (map tv_pair (skipn off (m_fields m)))) = Ok (rg_canon T g)).
Proof. exact parse_fidelity_groups. Qed.

(* non-vacuity: 49, 11, NoAllocs(78) directly followed by NoPartyIDs(453), 58; BodyLength computed *)
Example c11_ex_groups_hyps :
  c11_wire_ok (c11g_ex_fs c11g_ex_v9) = true /\
  ~ In TAG_MSG_TYPE (map fst (c11g_flat c11g_ex_items)) /\
  ad_find [68] c11g_ex_dict = Some c11g_ex_defs /\ dict_body_only None c11g_ex_defs /\
  c11g_ok None c11g_ex_defs (c11g_ex_items ++ [CFld (10, [48; 48; 48])]).
Proof. exact c11g_ex_hyps. Qed.
Example c11_ex_groups_parse :
  exists m, do_parsing (ser (c11g_ex_fs c11g_ex_v9)) None (Some c11g_ex_dict) = Ok m /\
    fm_get_bytes (m_body m) 58 = Ok [116] /\ fm_get_bytes (m_header m) 49 = Ok [83] /\
    (exists f, lk_get (fm_lookup (m_body m)) 453 = Some f /\ map tv_pair (field_tvs f) = rg_write rg_ex2_tmpl 453 rg_ex2_group) /\
    rmap fst (rg_read rg_ex2_tmpl (map tv_pair (skipn 16 (m_fields m)))) = Ok rg_ex2_group /\
    rmap fst (rg_read rg_ex_tmpl (map tv_pair (skipn 5 (m_fields m)))) = Ok rg_ex_group.
Proof. exact c11g_ex_parse. Qed.

(* ---- "a message whose BodyLength disagrees with its content is rejected", with repeating groups starting ---- *)

(* FULL STATEMENT: forall fs td ad, c11_framed fs -> the 9 field is not the decimal byte count -> rejected.
   c11_length above proves it when no group of the dictionary starts in the message.  Here: ANY framed message in which
   MsgType (35) occurs once - whatever groups start in it, well-formed for the dictionary or not (count mismatch, members
   out of order, a group cut short by the trailer, ...) - for any transport dictionary and
     no application dictionary, or
     an application dictionary that does not know the MsgType (ad_defs_of = []: nothing is asked), or
     an application dictionary whose definition of the MsgType lists no header / trailer tag among the members of its
     groups (dict_body_only; checkable: c11_dict_body_only_check; true of every shipped dictionary: c11_shipped_body_only).
   ad_defs_of ad mt = the message definition the parser looks at (Messages[mt].Fields), [] if there is none.
   STILL MISSING for the full statement: a second MsgType field in the message (the parser then switches to the other
   message definition in mid-message), and dictionaries that list a header / trailer tag as a group member. *)
Theorem c11_length_any_groups : forall fs td ad mt v8 v9 mid,
  c11_framed fs = true -> fs = (8, v8) :: (9, v9) :: (35, mt) :: mid -> ~ In TAG_MSG_TYPE (map fst mid) ->
  dict_body_only td (ad_defs_of ad mt) ->
  c11_declared v9 <> Some (c11_body_length fs) -> exists e, do_parsing (ser fs) td ad = Err e.
Proof. exact parse_rejects_wrong_body_length_any. Qed.

(* the MsgType is in the dictionary (the hypotheses of c11_parse_refines_scan, the scan's result not needed) *)
Theorem c11_length_dict : forall fs td d mt defs v8 v9 mid,
  c11_framed fs = true -> fs = (8, v8) :: (9, v9) :: (35, mt) :: mid -> ~ In TAG_MSG_TYPE (map fst mid) ->
  ad_find mt d = Some defs -> dict_body_only td defs ->
  c11_declared v9 <> Some (c11_body_length fs) -> exists e, do_parsing (ser fs) td (Some d) = Err e.
Proof. exact parse_rejects_wrong_body_length_dict. Qed.

(* the MsgType is not in the dictionary: any dictionary *)
Theorem c11_length_unknown_msgtype : forall fs td d mt v8 v9 mid,
  c11_framed fs = true -> fs = (8, v8) :: (9, v9) :: (35, mt) :: mid -> ~ In TAG_MSG_TYPE (map fst mid) ->
  ad_find mt d = None ->
  c11_declared v9 <> Some (c11_body_length fs) -> exists e, do_parsing (ser fs) td (Some d) = Err e.
Proof. exact parse_rejects_wrong_body_length_unknown. Qed.

(* the messages of c11_fidelity_groups (plain fields and groups well-formed for the dictionary), any 9 field *)
Theorem c11_length_groups : forall td d mt defs v8 v9 v10 items fs,
  fs = (8, v8) :: (9, v9) :: (35, mt) :: c11g_flat (items ++ [CFld (10, v10)]) ->
  c11_framed fs = true ->
  ~ In TAG_MSG_TYPE (map fst (c11g_flat items)) ->
  ad_find mt d = Some defs -> dict_body_only td defs ->
  c11_declared v9 <> Some (c11_body_length fs) -> exists e, do_parsing (ser fs) td (Some d) = Err e.
Proof. exact parse_rejects_wrong_body_length_groups. Qed.

(* why: the field-level scan of a field list that ends with CheckSum always ends (so c11_parse_refines_scan's simulation
   covers every framed message), and every framed message reaches the BodyLength comparison with the wire's header *)
Theorem c11_scan_framed_total : forall xh xt m rest, rest <> [] -> fst (last rest (0, [])) = RG_CHECKSUM ->
  forall mode i body, exists res, rg_scan xh xt (Some m) mode i rest body = Ok res.
Proof. exact rg_scan_framed_ok. Qed.
Theorem c11_framed_reaches_length_check : forall fs td ad mt v8 v9 mid,
  c11_framed fs = true -> fs = (8, v8) :: (9, v9) :: (35, mt) :: mid -> ~ In TAG_MSG_TYPE (map fst mid) ->
  dict_body_only td (ad_defs_of ad mt) ->
  exists m, c11_before_check td fs m /\
    do_parsing (ser fs) td ad =
      match fm_get_int (m_header m) TAG_BODY_LENGTH with
      | Ok bl => if c11_body_length fs =? bl then Ok m else Err E_BODY_LENGTH
      | Err _ => Err E_BODY_LENGTH_FIELD
      | Panic => Panic
      | OutOfFuel => OutOfFuel
      end.
Proof. exact parse_framed_any. Qed.

(* non-vacuity: the two-group message of c11_ex_groups_hyps announcing one byte too few; and a message in which
   NoPartyIDs (453) announces 2 entries and one follows (ill-formed for the dictionary), announcing 7 bytes too many *)
Example c11_ex_length_groups_hyps :
  c11_framed (c11g_ex_fs c11g_ex_bad_v9) = true /\
  ~ In TAG_MSG_TYPE (map fst (c11g_flat c11g_ex_items)) /\
  ad_find [68] c11g_ex_dict = Some c11g_ex_defs /\ dict_body_only None c11g_ex_defs /\
  c11_declared c11g_ex_bad_v9 <> Some (c11_body_length (c11g_ex_fs c11g_ex_bad_v9)).
Proof. exact c11g_ex_bad_hyps. Qed.
Example c11_ex_length_ill_formed_hyps :
  c11_framed (c11g_ex_ill_fs c11g_ex_ill_v9) = true /\
  ~ In TAG_MSG_TYPE (map fst c11g_ex_ill_mid) /\
  dict_body_only None (ad_defs_of (Some c11g_ex_dict) [68]) /\
  c11_declared c11g_ex_ill_v9 <> Some (c11_body_length (c11g_ex_ill_fs c11g_ex_ill_v9)).
Proof. exact c11g_ex_ill_hyps. Qed.
Example c11_ex_length_ill_formed_rejected :
  do_parsing (ser (c11g_ex_ill_fs c11g_ex_ill_v9)) None (Some c11g_ex_dict) = Err E_BODY_LENGTH.
Proof. exact c11g_ex_ill_rejected. Qed.

(* ---- dict_body_only on the shipped dictionaries ---- *)

(* The translation from the built dictionary (Dict/Build.v on the generated terms Gen/Dicts/<NAME>.v) to the parser's
   views: pd_app_dict d = Messages (per MsgType the map Fields as a list, member lists as FieldDef.Fields slices),
   pd_transport d = (keys of Header.Fields, keys of Trailer.Fields).  The views answer the parser's questions as the Go
   maps do: *)
Theorem c11_view_messages : forall mt d,
  ad_find mt (pd_app_dict d) = option_map pd_defs_of_dmd (dict_bget mt (dd_messages d)).
Proof. exact pd_ad_find. Qed.
Theorem c11_view_message_fields : forall t m,
  gd_find t (pd_defs_of_dmd m) =
  option_map (fun f => GDef t (map gdef_of_dfd (dfd_fields f))) (dict_zget t (dmd_fields m)).
Proof. exact pd_gd_find. Qed.
Theorem c11_view_group_member : forall t fs,
  is_group_member t (map gdef_of_dfd fs) = existsb (fun f => dfd_tag f =? t) fs.
Proof. exact pd_is_group_member. Qed.
Theorem c11_view_header_field : forall t d,
  is_header_field t (Some (pd_transport d)) = tag_is_header t || pd_has_key t (dd_header d).
Proof. exact pd_is_header_field. Qed.
Theorem c11_view_trailer_field : forall t d,
  is_trailer_field t (Some (pd_transport d)) = tag_is_trailer t || pd_has_key t (dd_trailer d).
Proof. exact pd_is_trailer_field. Qed.

(* Every message definition of every shipped specification (used as application dictionary) satisfies dict_body_only,
   with no transport dictionary (built-in Tag.IsHeader / Tag.IsTrailer lists alone) and with the Header / Trailer of
   any shipped specification as transport dictionary (pd_shipped_td) - in particular FIX40..FIX44 with themselves and
   FIX50 / FIX50SP1 / FIX50SP2 with FIXT11.  Closed computation (vm_compute) of dict_body_onlyb: 575 message definitions,
   2129 top-level group definitions, 10 transport choices.  No shipped definition violates it. *)
Theorem c11_shipped_body_only : forall name doc, In (name, doc) gen_dicts_shipped ->
  exists d, dict_build doc = Ok d /\
    forall td, pd_shipped_td td ->
    forall mt defs, ad_find mt (pd_app_dict d) = Some defs -> dict_body_only td defs.
Proof. exact pd_shipped_all. Qed.
Theorem c11_shipped_counts :
  Z.of_nat pd_shipped_message_count = 575 /\ Z.of_nat pd_shipped_group_count = 2129 /\
  Z.of_nat (length pd_shipped_tds) = 10 /\ 0 < Z.of_nat pd_shipped_member_count.
Proof. exact pd_shipped_counts. Qed.

(* hence, with the shipped dictionaries, nothing is asked of the dictionary: a framed message (MsgType once) whose
   BodyLength disagrees with its content is rejected, whatever its MsgType and whatever groups start in it *)
Theorem c11_length_shipped : forall name doc d td fs mt v8 v9 mid,
  In (name, doc) gen_dicts_shipped -> dict_build doc = Ok d -> pd_shipped_td td ->
  c11_framed fs = true -> fs = (8, v8) :: (9, v9) :: (35, mt) :: mid -> ~ In TAG_MSG_TYPE (map fst mid) ->
  c11_declared v9 <> Some (c11_body_length fs) -> exists e, do_parsing (ser fs) td (Some (pd_app_dict d)) = Err e.
Proof. exact parse_rejects_wrong_body_length_shipped. Qed.

(* and c11_parse_refines_scan holds for them without its dictionary hypothesis *)
Theorem c11_parse_refines_scan_shipped : forall name doc d td fs mt defs v8 v9 mid res,
  In (name, doc) gen_dicts_shipped -> dict_build doc = Ok d -> pd_shipped_td td ->
  c11_wire_ok fs = true -> fs = (8, v8) :: (9, v9) :: (35, mt) :: mid -> ~ In TAG_MSG_TYPE (map fst mid) ->
  ad_find mt (pd_app_dict d) = Some defs ->
  rg_scan (td_xh td) (td_xt td) (Some (map gdef_rg defs)) RgTop 3%nat mid [] = Ok res ->
  exists m, do_parsing (ser fs) td (Some (pd_app_dict d)) = Ok m /\
    m_raw m = Some (ser fs) /\
    m_fields m = map init_of fs /\
    m_header m = fold_left (addH td) fs hdr0 /\
    m_trailer m = fold_left (addT td) fs trl0 /\
    m_body m = body_of fs res.
Proof. exact parse_refines_scan_shipped. Qed.

(* non-vacuity: FIX44 as application and transport dictionary; NewOrderSingle (35=D) declares NoPartyIDs (453) a group
   with members 448, 447, 452, 802; Header.Fields has 27 keys, Trailer.Fields 3 *)
Example c11_ex_shipped_fix44 :
  exists d defs g, In ([70; 73; 88; 52; 52], FIX44.gen_dict_FIX44) gen_dicts_shipped /\ dict_build FIX44.gen_dict_FIX44 = Ok d /\
    pd_shipped_td (Some (pd_transport d)) /\
    ad_find [68] (pd_app_dict d) = Some defs /\ gd_find 453 defs = Some g /\
    map gdef_tag (gdef_members g) = [448; 447; 452; 802] /\
    length (fst (pd_transport d)) = 27%nat /\ length (snd (pd_transport d)) = 3%nat.
Proof. exact pd_ex_fix44. Qed.
