(* C04 — a sequence gap triggers one exact ResendRequest and loses nothing received.  Statements only.
   Proved: the reaction to a too-high number outside recovery (exact request, message kept, number unchanged), that the
   same reaction inside recovery keeps the message and sends nothing, and — through C01's theorem, which covers the stash
   drain — that kept messages are handed over only at their number, in order.  Trace level (every configuration, every
   event list): clause 401 (exact request, message kept), clauses 403/404 (after every event a recovering session does not
   expect the number of a message it keeps, nor a number beyond the range it is recovering: the stash has been drained and
   recovery ends when the range is covered — the recovery invariant RI, ResendInvProofs.v) and clause 406 (timers leave
   the recovery state alone) never fail on a model trace.  Clause 402 (while recovering, a ResendRequest is created only as
   the next chunk at the expected number; evaluated on events that handle at most one frame, i.e. nothing buffered before the
   event or still connected after it) never fails on a trace in which the application does not itself send a ResendRequest
   (ChunkProofs.v; the proviso is needed: `_refuted` example; unconditionally, the clause can fail only at such an event).
   Clause 405 (no kept application message dropped) never fails on ANY model trace
   (KeptProofs.v; the predicate records a message under its number only when it passes the header checks, so that its record
   of what is kept agrees with the engine's stash — invariant KA).  Clause 407 (while recovering, an early sequence-gated
   message that passes the header checks is kept, nothing requested, expected number unchanged) never fails on a trace with a
   non-negative ResendRequestChunkSize whose sequence-gated messages carry no GapFillFlag other than N (KeptProofs.v,
   invariant CE; each proviso is needed: three `_refuted` examples).  Clause 408 (while the recovery goes on without a store
   reset, every kept message above the expected number stays kept) never fails on ANY model trace (KeptStayProofs.v); with
   `<=` in place of `<` (the key equal to the new expected number demanded too) the clause is refuted: a kept gap fill that
   fills nothing is taken out and processed when it is next, and leaves the expected number where it is.
   Clause 409 ("including gaps detected on the Logon itself", a predicate of its own: Session/SpecLogonGap.v) never fails on
   ANY model trace (LogonGapProofs.v). *)
From Coq Require Import ZArith List Bool.
From QF Require Import Base.Bytes Session.Types Session.Model Session.Spec Session.LocalProofs Session.C01Proofs Session.FrameProofs Session.TraceProofs Session.RecoveryProofs Session.ReactionProofs Session.TgProofs Session.ResendInvProofs
  Session.NoReqProofs Session.ChunkProofs Session.TjProofs Session.KeptProofs Session.StashTypeProofs Session.KeptStayProofs
  Session.SpecLogonGap Session.LogonGapProofs.
Import ListNotations.
Open Scope Z_scope.

Theorem c04_request_exact : forall s m n,
  is_logged_on (s_st s) = true -> (forall a b c0, unwrap_pending (s_st s) <> SResend a b c0) ->
  s_out_open s = true -> s_to_send s = [] ->
  let c := s_cfg s in
  let r := process_reject s m (RTooHigh n (s_tgt s)) in
  s_wire (fst r) = {| o_type := T_RESENDREQ; o_seq := s_snd s; o_hdr := default_hdr s None;
                      o_body := [(7, itoa (s_tgt s)); (16, itoa (end_marker c (s_tgt s) n))] |} :: s_wire s
  /\ s_tgt (fst r) = s_tgt s /\ s_snd (fst r) = s_snd s + 1 /\ s_to_send (fst r) = []
  /\ snd r = SResend (Some [(n, m)])
                     (if negb (c_chunk c =? 0) && (s_tgt s + c_chunk c - 1 <? n - 1) then s_tgt s + c_chunk c - 1 else 0) (n - 1).
Proof. exact gap_detected_not_recovering. Qed.

(* the too-high verdict is reached exactly when the header passes and the number is above the expected one *)
Theorem c04_too_high_detected : forall s m lo app n,
  hdr_ok (s_cfg s) m -> mi_seq m = FVal n -> s_tgt s < n ->
  verify_select s m true lo app = (s, Some (RTooHigh n (s_tgt s))).
Proof. exact verify_select_too_high. Qed.

(* while recovering (also with a test request pending): the early message is kept, no further ResendRequest *)
Theorem c04_no_second_request : forall s m n stash ce re,
  s_st s = SPending (SResend (Some stash) ce re) ->
  let r := process_reject s m (RTooHigh n (s_tgt s)) in
  fst r = s /\ snd r = SResend (Some (stash_insert n m stash)) ce re.
Proof. exact pending_recovery_undisturbed. Qed.

(* kept messages are delivered strictly at the expected number and in order: the drain is part of `step`, so C01's
   invariant covers it (this is the same lemma C01 cites) *)
Theorem c04_drain_in_order : forall lb s e, lb <= s_tgt s ->
  exists lb', c01_scan_cbs lb (rev (s_cbs (step s e))) = Some lb' /\ lb' <= s_tgt (step s e).
Proof. exact c01_handover_at_expected. Qed.

(* TRACE LEVEL.  For every configuration and every event list, clause 406 of c04_check never fails on the model's trace:
   a timer event (heartbeat, peer, logon or logout timer) leaves the recovery state — the kept messages, the current chunk
   end and the range end — exactly as it was, as long as the session stays logged on. *)
Theorem c04_timers_never_disturb_recovery_on_any_trace : forall c es,
  free_of [406] (c04_check c (combine es (map obs_of (run_trace es (init_sess c))))) = true.
Proof. exact c04_timers_never_disturb_recovery. Qed.

(* TRACE LEVEL.  Clause 401 of c04_check never fails on a model trace: whenever a sequence-gated message that passes the
   header checks arrives above the expected number in normal operation (nothing queued, nothing buffered), exactly one
   ResendRequest [expected, end marker] is sent (end marker: expected+chunk-1 when a chunk smaller than the gap is
   configured, else 0 / 999999 by BeginString), the message is kept under its number, the range end is its number - 1,
   and the expected number is unchanged. *)
Theorem c04_gap_clause_holds_on_every_trace : forall c es,
  free_of [401] (c04_check c (combine es (map obs_of (run_trace es (init_sess c))))) = true.
Proof. exact c04_gap_never_fails. Qed.

(* TRACE LEVEL: the recovery invariant.  For every configuration and every event list, after every event:
   while the session is recovering (resend state, possibly under a pending test request) the expected number is not the
   number of a kept message — every kept message that was next in sequence has been delivered — (403) and is not beyond
   the end of the range being recovered — recovery ended when the range was covered — (404).
   The invariant also carries: the chunk end is 0 or within the range, and every kept message sits under its own
   MsgSeqNum (>= 2).  It covers the paths in which three defects were found and repaired (stash drain, chunk boundary,
   drain-before-chunk-check). *)
Theorem c04_recovery_invariant_on_every_trace : forall c es,
  free_of [403; 404] (c04_check c (combine es (map obs_of (run_trace es (init_sess c))))) = true.
Proof. exact c04_recovery_invariant_never_fails. Qed.

Theorem c04_recovery_invariant_reachable : forall c es, Forall RI (run_trace es (init_sess c)).
Proof. exact trace_ri. Qed.

(* ---------------------------------------------------------------------------------------------------------------------
   Clause 402: no ResendRequest while recovering other than the next chunk. *)

(* the reachable-state invariant behind "chunk size configured": a non-zero current chunk end implies ResendRequestChunkSize <> 0 *)
Theorem c04_chunk_end_implies_chunk_size_reachable : forall c es, Forall CI (run_trace es (init_sess c)).
Proof. exact trace_ci. Qed.

(* STEP LEVEL.  From any state satisfying the reachable-state invariants in which the session is recovering [ce = current
   chunk end, re = range end], an event that does not end disconnected with frames buffered and is not an application-sent
   ResendRequest either logs no ToAdmin callback for a ResendRequest at all, or logs exactly one, and then: a chunk size is
   configured, ce <> 0, ce <= expected number <= re, and the newest message on the wire is a ResendRequest whose BeginSeqNo
   is the expected number. *)
Theorem c04_request_only_as_next_chunk : forall s e stash ce re,
  Boundary s -> RI s -> CI s -> unwrap_pending (s_st s) = SResend stash ce re -> c04_quiet s e ->
  rrf (s_cbs (step s e)) = []
  \/ (rrf (s_cbs (step s e)) = [CbToAdmin T_RESENDREQ] /\ c_chunk (s_cfg s) <> 0 /\ ce <> 0
      /\ ce <= s_tgt (step s e) /\ s_tgt (step s e) <= re
      /\ exists rr rest, s_wire (step s e) = rr :: rest /\ o_type rr = T_RESENDREQ
                         /\ field_of 7 (o_body rr) = Some (itoa (s_tgt (step s e)))).
Proof. exact step_req. Qed.

(* TRACE LEVEL.  For every configuration and every event list in which the application never sends a ResendRequest itself,
   clause 402 of c04_check never fails.  (The clause is evaluated on events that handle at most one frame: since the repair of
   F17 an event that ends disconnected first handles every buffered frame, each of which may legitimately complete a chunk and
   request the next one.  Buffered frames, deliveries, timers, disconnects are unrestricted.) *)
Theorem c04_no_spurious_request_on_every_trace : forall c es,
  Forall c04_no_app_rr es ->
  free_of [402] (c04_check c (combine es (map obs_of (run_trace es (init_sess c))))) = true.
Proof. exact c04_only_chunk_requests_while_recovering. Qed.

(* UNCONDITIONAL form (every configuration, every event list): a failure of clause 402 at event number j implies that event j
   is an application-sent ResendRequest. *)
Theorem c04_spurious_request_only_at_app_resend_requests : forall c es j,
  In (j, 402) (c04_check c (combine es (map obs_of (run_trace es (init_sess c))))) ->
  exists t body ok, nth_error es j = Some (EAppSend t body ok) /\ beq_bytes t T_RESENDREQ = true.
Proof. exact c04_402_only_at_app_resend_requests. Qed.

(* the hypothesis is satisfiable on a trace that does create a chunk request while recovering (gap 2..9, chunk size 2:
   request [2,3]; after Heartbeat 3 the next chunk [4,5] is requested) ... *)
Example c04_no_app_rr_trace_example : Forall c04_no_app_rr c04x_chunk_trace.
Proof. exact c04x_chunk_trace_no_app_rr. Qed.
Example c04_chunk_trace_creates_requests :
  map (fun o => (ob_st (snd o), map (fun w => (o_type w, o_body w)) (ob_wire (snd o)))) (c04x_run (c04x_cfg 2) c04x_chunk_trace)
  = [(ShLogon, []);
     (ShInSession, [(T_LOGON, [(98, [48]); (108, itoa 30)])]);
     (ShResend true [10] 3 9, [(T_RESENDREQ, [(7, itoa 2); (16, itoa 3)])]);
     (ShResend true [10] 3 9, []);
     (ShResend true [10] 5 9, [(T_RESENDREQ, [(7, itoa 4); (16, itoa 5)])])].
Proof. exact c04x_chunk_trace_requests. Qed.

(* REFUTED without the proviso: an application-sent ResendRequest while recovering (nothing ever buffered) *)
Theorem c04_no_spurious_request_app_resend_refuted :
  exists c es, Forall (fun e => match e with EArrive _ => False | _ => True end) es
    /\ c04_check c (combine es (map obs_of (run_trace es (init_sess c)))) = [(3%nat, 402)].
Proof. exact c04_402_app_resend_request_refuted. Qed.

(* regression: the trace that refuted the clause as formerly written (four buffered Heartbeats handled in one disconnecting
   event: Heartbeats 3 and 5 each complete a chunk, ResendRequests [4,5] and [6,7] are created and written in the one event,
   then OnLogout) satisfies the hypothesis and is now reported clean *)
Example c04_draining_event_trace_now_clean :
  Forall c04_no_app_rr c04x_drain_trace /\ c04_check (c04x_cfg 2) (c04x_run (c04x_cfg 2) c04x_drain_trace) = [].
Proof. exact c04x_drain_trace_clean. Qed.
Example c04_draining_event_writes_both_requests_before_logout :
  match nth_error (c04x_run (c04x_cfg 2) c04x_drain_trace) 7 with
  | Some (_, o) => (ob_st o, ob_tgt o, filter is_rr_cb (ob_cbs o), map (fun w => (o_type w, o_body w)) (ob_wire o),
                    existsb (fun x => match x with CbOnLogout => true | _ => false end) (ob_cbs o))
                   = (ShLatent, 6, [CbToAdmin T_RESENDREQ; CbToAdmin T_RESENDREQ],
                      [(T_RESENDREQ, [(7, itoa 4); (16, itoa 5)]); (T_RESENDREQ, [(7, itoa 6); (16, itoa 7)])], true)
  | None => False
  end.
Proof. exact c04x_drain_trace_event_7. Qed.

(* ---------------------------------------------------------------------------------------------------------------------
   Clause 405: no kept application message is dropped. *)

(* MODEL LEVEL (resendState.FixMsgIn, every message m, every stash l0).  If the expected number passes k in this call, every
   entry kept under k is the application message mk which passes the header checks and the validator, m is not a
   SequenceReset jumping beyond k and no kept SequenceReset numbered in [expected, k) jumps beyond k, then FromApp was called
   for number k in this call, or the store was reset. *)
Theorem c04_kept_message_handed_over : forall s l0 ce re m s' next' k mk,
  unwrap_pending (s_st s) = SResend (Some l0) ce re -> RI s ->
  resend_state_fix_msg_in s (Some l0) ce re m = (s', next') ->
  In k (keys l0) -> (forall x, In (k, x) l0 -> x = mk) ->
  is_admin (mi_type mk) = false -> hdr_ok (s_cfg s) mk -> mi_valid mk = VAccept ->
  ~ jumps m k -> (forall n0 x, In (n0, x) l0 -> s_tgt s <= n0 < k -> ~ jumps x k) ->
  s_tgt s <= k -> k < s_tgt s' ->
  delivered k (s_cbs s') = true \/ rst s' = true.
Proof. exact rs_405. Qed.

(* TRACE LEVEL.  For every configuration and EVERY event list, clause 405 of c04_check never fails: whenever the expected
   number passes the number of a kept application message that would be accepted, that message was handed to the application
   in that step (unless the peer skipped it with a SequenceReset or the store was reset).  No hypothesis: the predicate
   records what is kept under a number only when the message passes the header checks (then it is the message the engine
   keeps) and forgets the number otherwise; its record agrees with the engine's stash after every event (invariant KA). *)
Theorem c04_no_kept_message_dropped_on_every_trace : forall c es,
  free_of [405] (c04_check c (combine es (map obs_of (run_trace es (init_sess c))))) = true.
Proof. exact c04_no_kept_message_dropped. Qed.

(* non-vacuity: a trace in which a kept message is indeed delivered when the gap closes *)
Example c04_kept_trace_delivers :
  map (fun o => (ob_st (snd o), ob_tgt (snd o), delivered 4 (ob_cbs (snd o)))) (c04x_run (c04x_cfg 0) c04x_kept_trace)
  = [(ShLogon, 1, false); (ShInSession, 2, false); (ShResend true [4] 0 3, 2, false); (ShResend true [4] 0 3, 3, false);
     (ShInSession, 5, true)].
Proof. exact c04x_kept_trace_delivers. Qed.

(* regression: the trace that refuted the clause under the former bookkeeping of `kept` (a mis-addressed message bearing the
   number of a kept gap-fill SequenceReset, which then skips over kept message 10) is now reported clean *)
Example c04_misaddressed_trace_now_clean :
  c04_check (c04x_cfg 0) (c04x_run (c04x_cfg 0) c04x_misaddressed_trace) = []
  /\ map (fun o => (ob_st (snd o), ob_tgt (snd o))) (c04x_run (c04x_cfg 0) c04x_misaddressed_trace)
     = [(ShLogon, 1); (ShInSession, 2); (ShResend true [10] 0 9, 2); (ShResend true [10] 0 9, 2); (ShResend true [5; 10] 0 9, 2);
        (ShResend true [10; 5] 0 9, 2); (ShResend true [10; 5] 0 9, 3); (ShResend true [10; 5] 0 9, 4); (ShInSession, 12)].
Proof. exact c04x_misaddressed_trace_ok. Qed.

(* ---------------------------------------------------------------------------------------------------------------------
   Clause 407: while recovering, an early sequence-gated message is kept; nothing is requested. *)

(* the reachable-state invariant: in the resend state the stash map exists and, for a non-negative chunk size, the current
   chunk end is 0 or not below the expected number *)
Theorem c04_chunk_end_not_below_expected_reachable : forall c es, Forall CE (run_trace es (init_sess c)).
Proof. exact trace_ce. Qed.

(* MODEL LEVEL (resendState.FixMsgIn).  In a recovering state whose chunk end is 0 or not below the expected number, a
   sequence-gated message m numbered n above the expected number that passes the identity/time header checks and carries no
   GapFillFlag other than N changes nothing but the stash: m is kept under n (replacing what was kept there). *)
Theorem c04_early_message_joins_the_stash : forall s l0 ce re m n,
  unwrap_pending (s_st s) = SResend (Some l0) ce re -> RI s -> (ce = 0 \/ s_tgt s <= ce) ->
  hdr_ok (s_cfg s) m -> gated_type (mi_type m) = true -> mi_seq m = FVal n -> s_tgt s < n -> no_gap_flag m ->
  resend_state_fix_msg_in s (Some l0) ce re m = (s, SResend (Some (stash_insert n m l0)) ce re).
Proof. exact rs_407. Qed.

(* TRACE LEVEL.  For every configuration with ResendRequestChunkSize >= 0 and every event list whose directly processed
   sequence-gated messages carry GapFillFlag absent or N, clause 407 of c04_check never fails. *)
Theorem c04_early_message_kept_on_every_trace : forall c es,
  0 <= c_chunk c -> Forall c04_no_gap_flag es ->
  free_of [407] (c04_check c (combine es (map obs_of (run_trace es (init_sess c))))) = true.
Proof. exact c04_early_message_kept_while_recovering. Qed.

(* non-vacuity: gap on the Logon itself (1..4, chunk size 2), then two early application messages, both kept *)
Example c04_early_trace_example : Forall c04_no_gap_flag c04x_early_trace.
Proof. exact c04x_early_trace_no_gap_flag. Qed.
Example c04_early_trace_keeps :
  map (fun o => (ob_st (snd o), ob_tgt (snd o))) (c04x_run (c04x_cfg 2) c04x_early_trace)
  = [(ShLogon, 1); (ShResend true [] 2 4, 1); (ShResend true [10] 2 4, 1); (ShResend true [12; 10] 2 4, 1)].
Proof. exact c04x_early_trace_keeps. Qed.

(* REFUTED without the provisos: (a) an early application message with a malformed GapFillFlag disconnects the session;
   (b) an early application message with GapFillFlag=Y at the chunk boundary triggers the next chunk request;
   (c) a negative ResendRequestChunkSize makes every early message trigger another ResendRequest. *)
Theorem c04_early_message_bad_gap_flag_refuted :
  exists c es, 0 <= c_chunk c /\ c04_check c (combine es (map obs_of (run_trace es (init_sess c)))) = [(3%nat, 407)].
Proof. exact c04_407_bad_gap_flag_refuted. Qed.
Theorem c04_early_message_gap_flag_on_application_message_refuted :
  exists c es, 0 <= c_chunk c /\ c04_check c (combine es (map obs_of (run_trace es (init_sess c)))) = [(4%nat, 407)].
Proof. exact c04_407_gap_flag_on_application_message_refuted. Qed.
Theorem c04_early_message_negative_chunk_size_refuted :
  exists c es, Forall c04_no_gap_flag es /\ c04_check c (combine es (map obs_of (run_trace es (init_sess c)))) = [(3%nat, 407)].
Proof. exact c04_407_negative_chunk_size_refuted. Qed.

(* ---- clause 408: kept messages stay kept while the recovery goes on ---- *)
(* MODEL LEVEL.  From every state satisfying the recovery invariant RI (every reachable state: c04_recovery_invariant
   theorems above), whatever the event: if the session is logged on and recovering after the step and the step logged no
   store reset, every message kept before the step whose number is above the expected number after the step is still kept.
   (Entries leave the stash only by being taken out when they are next in sequence; the expected number never goes back
   without a store reset.) *)
Theorem c04_kept_messages_above_expected_stay_kept_step : forall s e, RI s ->
  is_logged_on (s_st (step s e)) = true -> recovering (s_st (step s e)) -> ~ In CbStoreReset (s_cbs (step s e)) ->
  forall k, In k (keys (stash_of_st (s_st s))) -> s_tgt (step s e) < k -> In k (keys (stash_of_st (s_st (step s e)))).
Proof. exact step_keeps_kept_messages_above. Qed.

(* TRACE LEVEL.  For every configuration and every event list, clause 408 of c04_check never fails on the model's trace:
   asking for the next chunk, a gap fill, a duplicate, a rejected message, a buffered frame or a timer never loses a kept
   message whose number has not been reached. *)
Theorem c04_kept_messages_stay_kept_on_any_trace : forall c es,
  free_of [408] (c04_check c (combine es (map obs_of (run_trace es (init_sess c))))) = true.
Proof. exact c04_kept_messages_stay_kept. Qed.

(* The clause with `ob_tgt o <=? k` (c04_408_le_check, KeptStayProofs.v: the key equal to the new expected number is demanded
   too) holds on every trace in which every gap-fill SequenceReset that arrives announces a NewSeqNo above its own number ... *)
Theorem c04_kept_messages_stay_kept_with_le_partial : forall c es,
  Forall c04_gap_fills_advance es ->
  c04_408_le_check c (combine es (map obs_of (run_trace es (init_sess c)))) = [].
Proof. exact KeptStayProofs.c04_kept_messages_stay_kept_with_le_partial. Qed.

(* ... and is REFUTED without the proviso: Logon; application message 10 (gap 2..9, 10 kept); gap fill 3 -> 3 kept under 3;
   Heartbeat 2: the expected number becomes 3, the kept gap fill is taken out and processed, fills nothing; the session
   still expects 3 and keeps nothing under 3.  The clause of c04_check (strict) reports nothing on this trace. *)
Example c04_kept_messages_stay_kept_with_le_refuted :
  exists c es, c04_408_le_check c (combine es (map obs_of (run_trace es (init_sess c)))) = [(4%nat, 408)]
               /\ c04_check c (combine es (map obs_of (run_trace es (init_sess c)))) = [].
Proof. exact KeptStayProofs.c04_kept_messages_stay_kept_with_le_refuted. Qed.

(* ---- clause 409: "including gaps detected on the Logon itself" ---- *)
(* STEP LEVEL.  From every state whose State is the logon state with nothing buffered, a directly processed message numbered n:
   if OnLogon was called in the step (the message is a Logon and handleLogon accepted it) and the expected number after the
   step — which already reflects any reset the Logon caused — is still <= n (the Logon was numbered too high), then exactly
   one ToAdmin callback for a ResendRequest was logged in the step, the step wrote no ResendRequest (at most the Logon reply:
   the session is not yet logged on when doTargetTooHigh -> sendResendRequest -> send runs, so the request is numbered,
   persisted and queued behind the reply), the outbound queue is not empty, and the session is recovering with range end n - 1. *)
Theorem c04_gap_on_the_logon_step : forall s m n,
  s_st s = SLogon -> s_in_buf s = [] -> mi_seq m = FVal n ->
  let s' := step s (EIncoming m) in
  In CbOnLogon (s_cbs s') -> s_tgt s' <= n ->
  rrf (s_cbs s') = [CbToAdmin T_RESENDREQ] /\ resend_requests (s_wire s') = [] /\ s_to_send s' <> []
  /\ exists st cur, s_st s' = SResend st cur (n - 1).
Proof. exact logon_gap_step. Qed.

(* TRACE LEVEL.  For every configuration and every event list, c04_logon_gap_check (code 409) reports nothing on the model's
   trace: whenever a Logon processed directly in the logon state (nothing buffered) is accepted (OnLogon among the step's
   callbacks) and its own MsgSeqNum n is >= the expected number after the step, exactly one ResendRequest was created in
   that step (one ToAdmin for MsgType 2), it is either on the wire with BeginSeqNo = the expected number and EndSeqNo = the
   chunk end or the "infinity" marker of the FIX version, or still in the outbound queue, and the session is recovering with
   range end n - 1.  The check evaluates the same predicate, c04_logon_gap_check, on the implementation's observations. *)
Theorem c04_gap_on_the_logon_on_any_trace : forall c es,
  c04_logon_gap_check c (combine es (map obs_of (run_trace es (init_sess c)))) = [].
Proof. exact c04_logon_gap_never_fails. Qed.

(* non-vacuity: an acceptor (chunk size 2) expecting 1 receives Logon 5: the premise of the clause holds at event 1 (state
   before: logon; OnLogon called; expected number still 1 <= 5), one ToAdmin for a ResendRequest, the step writes the Logon
   reply only, the request is queued, the session is recovering with range end 4 (first chunk ends at 2) ... *)
Example c04_gap_on_the_logon_trace_example :
  map (fun o => (ob_st (snd o), ob_tgt (snd o), has_onlogon (ob_cbs (snd o)), filter is_rr_cb (ob_cbs (snd o)),
                 wire_types (ob_wire (snd o)), ob_tosend (snd o)))
      (c04x_run (c04x_cfg 2) c04x_logon_gap_trace)
  = [(ShLogon, 1, false, [], [], 0);
     (ShResend true [] 2 4, 1, true, [CbToAdmin T_RESENDREQ], [T_LOGON], 1)]
  /\ c04_logon_gap_check (c04x_cfg 2) (c04x_run (c04x_cfg 2) c04x_logon_gap_trace) = [].
Proof. exact c04x_logon_gap_trace_premise_and_reaction. Qed.

(* ... and the predicate does judge that event: with the observed state after the Logon replaced by "in session" (a session
   that ignored the gap) it reports (1, 409) *)
Example c04_gap_on_the_logon_check_detects :
  c04_logon_gap_check (c04x_cfg 2)
    (map (fun eo => (fst eo, match ob_st (snd eo) with
                             | ShResend _ _ _ _ =>
                                 {| ob_cbs := ob_cbs (snd eo); ob_wire := ob_wire (snd eo); ob_closed := ob_closed (snd eo);
                                    ob_snd := ob_snd (snd eo); ob_tgt := ob_tgt (snd eo); ob_st := ShInSession;
                                    ob_tosend := ob_tosend (snd eo); ob_stopped := ob_stopped (snd eo); ob_hb := ob_hb (snd eo);
                                    ob_inbuf := ob_inbuf (snd eo) |}
                             | _ => snd eo
                             end))
         (c04x_run (c04x_cfg 2) c04x_logon_gap_trace))
  = [(1%nat, 409)].
Proof. exact c04x_logon_gap_check_detects. Qed.
