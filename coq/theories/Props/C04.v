(* C04 — a sequence gap triggers one exact ResendRequest and loses nothing received.  Statements only.
   Proved: the reaction to a too-high number outside recovery (exact request, message kept, number unchanged), that the
   same reaction inside recovery keeps the message and sends nothing, and — through C01's theorem, which covers the stash
   drain — that kept messages are handed over only at their number, in order.  Trace level (every configuration, every
   event list): clause 401 (exact request, message kept), clauses 403/404 (after every event a recovering session does not
   expect the number of a message it keeps, nor a number beyond the range it is recovering: the stash has been drained and
   recovery ends when the range is covered — the recovery invariant RI, ResendInvProofs.v) and clause 406 (timers leave
   the recovery state alone) never fail on a model trace.  Clauses 402 (no spurious request while recovering) and 405 (no
   kept application message dropped) are `_partial`: evaluated on every trace by the same predicate. *)
From Coq Require Import ZArith List Bool.
From QF Require Import Base.Bytes Session.Types Session.Model Session.Spec Session.LocalProofs Session.C01Proofs Session.TraceProofs Session.RecoveryProofs Session.ReactionProofs Session.TgProofs Session.ResendInvProofs.
Import ListNotations.
Open Scope Z_scope.

Theorem c04_request_exact : forall s m n,
  is_logged_on (s_st s) = true -> (forall a b c0, unwrap_pending (s_st s) <> SResend a b c0) ->
  s_out_open s = true -> s_to_send s = [] ->
  let c := s_cfg s in
  let r := process_reject s m (RTooHigh n (s_tgt s)) in
  s_wire (fst r) = {| o_type := T_RESENDREQ; o_seq := s_snd s; o_hdr := default_hdr s None;
                      o_body := [(7, itoa (s_tgt s)); (16, itoa (end_marker c (s_tgt s) n))] |} :: s_wire s
  /\ s_tgt (fst r) = s_tgt s /\ s_snd (fst r) = s_snd s + 1 /\ s_to_send (fst r) = []
  /\ snd r = SResend (Some [(n, m)])
                     (if negb (c_chunk c =? 0) && (s_tgt s + c_chunk c - 1 <? n - 1) then s_tgt s + c_chunk c - 1 else 0) (n - 1).
Proof. exact gap_detected_not_recovering. Qed.

(* the too-high verdict is reached exactly when the header passes and the number is above the expected one *)
Theorem c04_too_high_detected : forall s m lo app n,
  hdr_ok (s_cfg s) m -> mi_seq m = FVal n -> s_tgt s < n ->
  verify_select s m true lo app = (s, Some (RTooHigh n (s_tgt s))).
Proof. exact verify_select_too_high. Qed.

(* while recovering (also with a test request pending): the early message is kept, no further ResendRequest *)
Theorem c04_no_second_request : forall s m n stash ce re,
  s_st s = SPending (SResend (Some stash) ce re) ->
  let r := process_reject s m (RTooHigh n (s_tgt s)) in
  fst r = s /\ snd r = SResend (Some (stash_insert n m stash)) ce re.
Proof. exact pending_recovery_undisturbed. Qed.

(* kept messages are delivered strictly at the expected number and in order: the drain is part of `step`, so C01's
   invariant covers it (this is the same lemma C01 cites) *)
Theorem c04_drain_in_order : forall lb s e, lb <= s_tgt s ->
  exists lb', c01_scan_cbs lb (rev (s_cbs (step s e))) = Some lb' /\ lb' <= s_tgt (step s e).
Proof. exact c01_handover_at_expected. Qed.

(* TRACE LEVEL.  For every configuration and every event list, clause 406 of c04_check never fails on the model's trace:
   a timer event (heartbeat, peer, logon or logout timer) leaves the recovery state — the kept messages, the current chunk
   end and the range end — exactly as it was, as long as the session stays logged on. *)
Theorem c04_timers_never_disturb_recovery_on_any_trace : forall c es,
  free_of [406] (c04_check c (combine es (map obs_of (run_trace es (init_sess c))))) = true.
Proof. exact c04_timers_never_disturb_recovery. Qed.

(* TRACE LEVEL.  Clause 401 of c04_check never fails on a model trace: whenever a sequence-gated message that passes the
   header checks arrives above the expected number in normal operation (nothing queued, nothing buffered), exactly one
   ResendRequest [expected, end marker] is sent (end marker: expected+chunk-1 when a chunk smaller than the gap is
   configured, else 0 / 999999 by BeginString), the message is kept under its number, the range end is its number - 1,
   and the expected number is unchanged. *)
Theorem c04_gap_clause_holds_on_every_trace : forall c es,
  free_of [401] (c04_check c (combine es (map obs_of (run_trace es (init_sess c))))) = true.
Proof. exact c04_gap_never_fails. Qed.

(* TRACE LEVEL: the recovery invariant.  For every configuration and every event list, after every event:
   while the session is recovering (resend state, possibly under a pending test request) the expected number is not the
   number of a kept message — every kept message that was next in sequence has been delivered — (403) and is not beyond
   the end of the range being recovered — recovery ended when the range was covered — (404).
   The invariant also carries: the chunk end is 0 or within the range, and every kept message sits under its own
   MsgSeqNum (>= 2).  It covers the paths in which three defects were found and repaired (stash drain, chunk boundary,
   drain-before-chunk-check). *)
Theorem c04_recovery_invariant_on_every_trace : forall c es,
  free_of [403; 404] (c04_check c (combine es (map obs_of (run_trace es (init_sess c))))) = true.
Proof. exact c04_recovery_invariant_never_fails. Qed.

Theorem c04_recovery_invariant_reachable : forall c es, Forall RI (run_trace es (init_sess c)).
Proof. exact trace_ri. Qed.
