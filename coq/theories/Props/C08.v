(* C08 — application traffic flows only inside a completed logon.  Statements only.
   The full trace-level statement (c08_check = []) is FALSE of the faithful model (and of the code): see KNOWN_FINDINGS.txt
   sig=drain-after-disconnect and sig=queued-app-flushed-outside-logon; c08_check reports exactly those classes on the
   implementation.  Proved here:
     - the step-level facts the statement rests on (first block);
     - TRACE LEVEL, every configuration and event list: clauses 801 (first message on a connection is a Logon or a Logout)
       and 805 (nothing written after the close) never fail;
     - clauses 802, 803, 804, 806 each refuted by a concrete event list (`_refuted`, vm_compute);
     - TRACE LEVEL, every configuration and every event list that never buffers a frame in messageIn: clauses 803, 804,
       806 never fail - the buffered-frame drain of the finding is the only way the model violates them. *)
From Coq Require Import ZArith List Bool.
From QF Require Import Base.Bytes Session.Types Session.Model Session.Spec Session.LocalProofs Session.FrameProofs
  Session.TraceProofs Session.C08WireProofs Session.C08CbProofs Session.C08TraceProofs Session.C08QuietProofs.
Import ListNotations.
Open Scope Z_scope.

(* before the handshake has completed anything but a Logon ends the connection without reaching the application *)
Theorem c08_logon_state_rejects_non_logon : forall s m,
  beq_bytes (mi_type m) T_LOGON = false -> logon_state_fix_msg_in s m = (s, SLatent).
Proof. exact logon_state_rejects_non_logon. Qed.

(* a disconnected session ignores inbound messages *)
Theorem c08_latent_ignores : forall s m, state_fix_msg_in SLatent s m = (s, SLatent).
Proof. exact latent_ignores. Qed.

(* application sends never write to the connection themselves (they are queued) ... *)
Theorem c08_app_send_only_queues : forall s t body ok, s_wire (step s (EAppSend t body ok)) = [].
Proof. exact app_send_writes_nothing. Qed.

(* ... and the run loop's flush drops the queue instead of sending it when the session is not logged on *)
Theorem c08_flush_outside_logon_drops : forall s, is_logged_on (s_st (clear_logs s)) = false ->
  s_to_send (step s EFlush) = [] /\ s_wire (step s EFlush) = [].
Proof. exact flush_not_logged_on_drops. Qed.

(* after the connection has been closed nothing more is written to it *)
Theorem c08_no_write_after_close : forall s, s_out_open s = false -> send_queued s = s.
Proof. exact closed_channel_writes_nothing. Qed.

(* when the peer falls silent the logged-on period ends with a logout notification and the close (from C20) *)
Theorem c08_timeout_ends_with_logout : forall c snd tgt msgs hb sr i q,
  is_logged_on i = true -> is_connected i = true ->
  let s' := step (mk c (SPending i) snd tgt msgs q hb sr) (ETimeout PeerTimeout) in
  s_st s' = SLatent /\ In CbOnLogout (s_cbs s') /\ s_closed s' = true /\ s_out_open s' = false /\ s_wire s' = [].
Proof. exact timer_dead_peer. Qed.

(* TRACE LEVEL.  At every event boundary of every trace: a connected session has both channels open, a disconnected one has
   both closed and nothing buffered.  With c08_no_write_after_close this is "after a disconnect nothing more is written to
   that connection" for the steps that follow the disconnect (what happens INSIDE the disconnecting step is the recorded
   finding drain-after-disconnect). *)
Theorem c08_channels_follow_the_state : forall c es, Forall Boundary (run_trace es (init_sess c)).
Proof. exact trace_boundary. Qed.

(* once the outbound channel is closed, draining the inbound buffer (and everything it calls) never re-opens it *)
Theorem c08_drain_keeps_channel_closed : forall fuel s, OutClosed s -> OutClosed (drain_message_in fuel s).
Proof. exact drain_out_closed. Qed.

(* ---------------------------------------------------------------------------------------------------------------------
   TRACE LEVEL, clauses of c08_check (Session/Spec.v) - the predicate that is extracted and evaluated on what the
   implementation did.  `free_of codes l = true` : none of the failure codes occurs in l. *)

(* On every trace of the model - every configuration, both roles, every list of connects, arrivals into the inbound
   buffer, deliveries, direct and unparsable frames, disconnects, the four timers, application sends, flushes, stop
   requests and reset times -
     805: nothing is written to a connection after it was closed (until the next Connect), and
     801: the first message written on a connection is a Logon or a Logout. *)
Theorem c08_first_message_is_logon_or_logout_and_nothing_after_close : forall c es,
  free_of [801; 805] (c08_check (combine es (map obs_of (run_trace es (init_sess c))))) = true.
Proof. exact c08_first_message_and_silence_after_close. Qed.

(* the coupling behind 805: at every event boundary of every trace the automaton of c08_check believes the connection
   is up exactly when the model's outbound channel (messageOut) is open *)
Theorem c08_automaton_follows_the_channel : forall c es,
  Forall2 (fun k s => k_connected k = s_out_open s)
          (c08_states c08_init (combine es (map obs_of (run_trace es (init_sess c))))) (run_trace es (init_sess c)).
Proof. exact c08_coupling. Qed.

(* one event, any state: while the outbound channel is closed an event other than Connect writes nothing and does not
   re-open the channel (this includes drainMessageIn running the handlers on buffered frames after the close) *)
Theorem c08_closed_channel_stays_silent : forall s e, e <> EConnect -> s_out_open s = false ->
  s_wire (step s e) = [] /\ s_out_open (step s e) = false.
Proof. exact step_closed_writes_nothing. Qed.

(* one event, any state: setState - handleDisconnectState, the close, drainMessageIn - never writes to the wire *)
Theorem c08_set_state_writes_nothing : forall s next, s_wire (set_state s next) = s_wire s.
Proof. exact set_state_wire. Qed.

(* one event: an acceptor in logonState with the channel open writes nothing but Logon / Logout messages, and when it
   has written nothing it is still in logonState or has disconnected *)
Theorem c08_logon_state_writes_logon_or_logout_only : forall s e, e <> EConnect ->
  s_st s = SLogon -> initiator s = false -> s_out_open s = true ->
  Forall lgm (s_wire (step s e))
  /\ (s_wire (step s e) = [] -> s_st (step s e) = SLogon \/ is_connected (s_st (step s e)) = false).
Proof. exact step_logon_acceptor. Qed.

(* its hypotheses hold of the state an acceptor is in after Connect, and the step is not trivial: the Logon is answered *)
Example c08_logon_state_hypotheses :
  let s := step (init_sess (c08_ex_cfg Acceptor)) EConnect in
  s_st s = SLogon /\ initiator s = false /\ s_out_open s = true
  /\ map o_type (s_wire (step s (EIncoming (c08_ex_msg T_LOGON 1)))) = [T_LOGON].
Proof. exact c08_ex_logon_state. Qed.

(* The remaining clauses do NOT hold on every trace of the model (nor of the code: the two recorded findings).
   Each is refuted by a concrete event list evaluated by vm_compute. *)
(* 806: a logged-on period ends without a logout notification (drain-after-disconnect: acceptor in logonState, a Logon
   buffered, a non-Logon frame processed - the buffered Logon is handled after the close: OnLogon, never OnLogout) *)
Theorem c08_logout_notification_refuted :
  exists c es, free_of [806] (c08_check (combine es (map obs_of (run_trace es (init_sess c))))) = false.
Proof. exact c08_806_refuted. Qed.
(* 804: two logout notifications for one logged-on period (drain-after-disconnect, F17) *)
Theorem c08_single_logout_notification_refuted :
  exists c es, free_of [804] (c08_check (combine es (map obs_of (run_trace es (init_sess c))))) = false.
Proof. exact c08_804_refuted. Qed.
(* 803: an application message delivered after the logout notification (drain-after-disconnect, F17) *)
Theorem c08_delivery_inside_logon_refuted :
  exists c es, free_of [803] (c08_check (combine es (map obs_of (run_trace es (init_sess c))))) = false.
Proof. exact c08_803_refuted. Qed.
(* 802: a first-time application message written after the engine's Logout (queued-app-flushed-outside-logon) *)
Theorem c08_first_time_app_inside_logon_refuted :
  exists c es, free_of [802] (c08_check (combine es (map obs_of (run_trace es (init_sess c))))) = false.
Proof. exact c08_802_refuted. Qed.

(* the witnesses, and what c08_check reports on them *)
Example c08_witness_806 : c08_trace_check (c08_ex_cfg Acceptor) c08_ex_806 = [(2%nat, 806)].
Proof. exact c08_ex_806_run. Qed.
Example c08_witness_803_804 : c08_trace_check (c08_ex_cfg Acceptor) c08_ex_803_804 = [(4%nat, 803); (4%nat, 804)].
Proof. exact c08_ex_803_804_run. Qed.
Example c08_witness_802 : c08_trace_check (c08_ex_cfg Acceptor) c08_ex_802 = [(5%nat, 802)].
Proof. exact c08_ex_802_run. Qed.
(* non-vacuity of the proved clauses: the second witness connects, writes (a Logon, later a Logout) and closes *)
Example c08_trace_theorem_nontrivial :
  let tr := run_trace c08_ex_803_804 (init_sess (c08_ex_cfg Acceptor)) in
  map (fun s => length (s_wire s)) tr = [0; 1; 0; 0; 1]%nat /\ map s_closed tr = [false; false; false; false; true].
Proof. exact c08_ex_nontrivial. Qed.

(* ---------------------------------------------------------------------------------------------------------------------
   The boundary of the finding drain-after-disconnect, machine-checked from the other side: on every trace on which no
   frame is ever buffered in messageIn (quiet_ev: every event but an arrival into a channel with room; i.e. every frame is
   processed as it arrives) the delivery / notification clauses DO hold, for every configuration and both roles:
     803  FromApp only between the logon notification and the logout notification,
     804  never a second logout notification for one logged-on period,
     806  a logged-on period never ends (connection closed) without the logout notification.
   So processing buffered frames after the close (drainMessageIn in the old state) is the only way the model violates
   them.  (802 is not among them: its witness c08_ex_802 buffers nothing - c08_witness_802_buffers_nothing.) *)
Theorem c08_notifications_hold_when_nothing_is_buffered : forall c es, Forall (quiet_ev c) es ->
  free_of [803; 804; 806] (c08_check (combine es (map obs_of (run_trace es (init_sess c))))) = true.
Proof. exact c08_notifications_when_nothing_buffered. Qed.

(* the two ways to satisfy the hypothesis for every event list: no arrival events at all, or InChanCapacity = 0 *)
Theorem c08_notifications_hold_without_arrivals : forall c es, no_arrive es = true ->
  free_of [803; 804; 806] (c08_check (combine es (map obs_of (run_trace es (init_sess c))))) = true.
Proof. exact c08_notifications_without_arrivals. Qed.
Theorem c08_notifications_hold_with_unbuffered_channel : forall c es, c_in_cap c = 0%nat ->
  free_of [803; 804; 806] (c08_check (combine es (map obs_of (run_trace es (init_sess c))))) = true.
Proof. exact c08_notifications_unbuffered_channel. Qed.

(* one event, nothing buffered, any reachable shape of state (latent, logon, logout, or logged on): the callbacks of the
   event are "what the handler logs - never OnLogout, and no FromApp unless inside a logon - followed by what
   handleDisconnectState logs: at most one OnLogout, then the store reset"; a close is accompanied by the logout
   notification unless the session was not inside a logon and no OnLogon was issued *)
Theorem c08_event_shape_when_nothing_is_buffered : forall s e,
  s_in_buf s = [] -> (gst (s_st s) = true \/ s_st s = SLogon) -> quiet_ev (s_cfg s) e ->
  exists hc dl rd,
    rev (s_cbs (step s e)) = hc ++ dcs dl rd /\ Forall (cb_ok Lnologout) hc
    /\ (gl (s_st s) = false -> Forall no_fromapp hc)
    /\ (s_closed (step s e) = true -> dl = true \/ (gl (s_st s) = false /\ has_onlogon hc = false))
    /\ gl (s_st (step s e)) = (if dl then false else gl (s_st s) || has_onlogon hc)
    /\ s_in_buf (step s e) = [] /\ (gst (s_st (step s e)) = true \/ s_st (step s e) = SLogon).
Proof. exact quiet_step. Qed.

(* every message handler, in every state: the callback log only grows and never by OnLogout - the logout notification is
   issued by handleDisconnectState only (same for the timer and stop handlers: cb_state_timeout, cb_state_stop in
   Session/C08CbProofs.v) *)
Theorem c08_handlers_never_notify_logout : forall st s m s1 next, state_fix_msg_in st s m = (s1, next) ->
  exists new, s_cbs s1 = new ++ s_cbs s /\ Forall (fun c => c <> CbOnLogout) new.
Proof. exact handlers_never_notify_logout. Qed.

(* non-vacuity: a trace without arrivals that logs on, hands an application message over, sends one and logs out passes
   the whole predicate *)
Example c08_quiet_trace_example :
  no_arrive c08_ex_quiet = true /\ c08_trace_check (c08_ex_cfg Acceptor) c08_ex_quiet = []
  /\ map (fun s => length (s_cbs s)) (run_trace c08_ex_quiet (init_sess (c08_ex_cfg Acceptor))) = [0; 3; 1; 1; 0; 3]%nat.
Proof. exact c08_ex_quiet_ok. Qed.
Example c08_witness_802_buffers_nothing : no_arrive c08_ex_802 = true.
Proof. exact c08_ex_802_quiet. Qed.
