(* C08 — application traffic flows only inside a completed logon.  Statements only.
   The trace-level statement is FALSE of the faithful model (and of the code): see KNOWN_FINDINGS.txt
   sig=drain-after-disconnect and sig=queued-app-flushed-outside-logon; c08_check reports exactly those classes on the
   implementation.  Proved here are the step-level facts the statement rests on (`_partial`). *)
From Coq Require Import ZArith List Bool.
From QF Require Import Base.Bytes Session.Types Session.Model Session.Spec Session.LocalProofs Session.FrameProofs.
Import ListNotations.
Open Scope Z_scope.

(* before the handshake has completed anything but a Logon ends the connection without reaching the application *)
Theorem c08_logon_state_rejects_non_logon : forall s m,
  beq_bytes (mi_type m) T_LOGON = false -> logon_state_fix_msg_in s m = (s, SLatent).
Proof. exact logon_state_rejects_non_logon. Qed.

(* a disconnected session ignores inbound messages *)
Theorem c08_latent_ignores : forall s m, state_fix_msg_in SLatent s m = (s, SLatent).
Proof. exact latent_ignores. Qed.

(* application sends never write to the connection themselves (they are queued) ... *)
Theorem c08_app_send_only_queues : forall s t body ok, s_wire (step s (EAppSend t body ok)) = [].
Proof. exact app_send_writes_nothing. Qed.

(* ... and the run loop's flush drops the queue instead of sending it when the session is not logged on *)
Theorem c08_flush_outside_logon_drops : forall s, is_logged_on (s_st (clear_logs s)) = false ->
  s_to_send (step s EFlush) = [] /\ s_wire (step s EFlush) = [].
Proof. exact flush_not_logged_on_drops. Qed.

(* after the connection has been closed nothing more is written to it *)
Theorem c08_no_write_after_close : forall s, s_out_open s = false -> send_queued s = s.
Proof. exact closed_channel_writes_nothing. Qed.

(* when the peer falls silent the logged-on period ends with a logout notification and the close (from C20) *)
Theorem c08_timeout_ends_with_logout : forall c snd tgt msgs hb sr i q,
  is_logged_on i = true -> is_connected i = true ->
  let s' := step (mk c (SPending i) snd tgt msgs q hb sr) (ETimeout PeerTimeout) in
  s_st s' = SLatent /\ In CbOnLogout (s_cbs s') /\ s_closed s' = true /\ s_out_open s' = false /\ s_wire s' = [].
Proof. exact timer_dead_peer. Qed.

(* TRACE LEVEL.  At every event boundary of every trace: a connected session has both channels open, a disconnected one has
   both closed and nothing buffered.  With c08_no_write_after_close this is "after a disconnect nothing more is written to
   that connection" for the steps that follow the disconnect (what happens INSIDE the disconnecting step is the recorded
   finding drain-after-disconnect). *)
Theorem c08_channels_follow_the_state : forall c es, Forall Boundary (run_trace es (init_sess c)).
Proof. exact trace_boundary. Qed.

(* once the outbound channel is closed, draining the inbound buffer (and everything it calls) never re-opens it *)
Theorem c08_drain_keeps_channel_closed : forall fuel s, OutClosed s -> OutClosed (drain_message_in fuel s).
Proof. exact drain_out_closed. Qed.
