(* C08 — application traffic flows only inside a completed logon.  Statements only.
   With the finding drain-after-disconnect (F17) repaired - handleDisconnectState lets the session handle what is buffered
   in messageIn FIRST, in the state it is still in and with the channel open, and notifies / closes once - every clause of
   c08_check but 802 holds on EVERY trace of the model:
     - TRACE LEVEL, every configuration, both roles, every event list (frames buffered at a self-initiated disconnect
       included): clauses 801 (first message on a connection is a Logon or a Logout), 805 (nothing written after the
       close), 803 (FromApp only between the logon and the logout notification), 804 (never two logout notifications),
       806 (a logged-on period never ends without the logout notification) never fail;
     - clause 802 is refuted on arbitrary event lists by an APPLICATION that sends a Logout-typed message itself and keeps
       sending (`_refuted`, vm_compute); the former witnesses of 803 / 804 / 806 now pass the whole predicate (Examples);
     - the step-level facts the statement rests on (first block). *)
From Coq Require Import ZArith List Bool.
From QF Require Import Base.Bytes Session.Types Session.Model Session.Spec Session.LocalProofs Session.FrameProofs
  Session.TraceProofs Session.C08WireProofs Session.C08CbProofs Session.C08TraceProofs Session.C08QuietProofs.
Import ListNotations.
Open Scope Z_scope.

(* before the handshake has completed anything but a Logon ends the connection without reaching the application *)
Theorem c08_logon_state_rejects_non_logon : forall s m,
  beq_bytes (mi_type m) T_LOGON = false -> logon_state_fix_msg_in s m = (s, SLatent).
Proof. exact logon_state_rejects_non_logon. Qed.

(* a disconnected session ignores inbound messages *)
Theorem c08_latent_ignores : forall s m, state_fix_msg_in SLatent s m = (s, SLatent).
Proof. exact latent_ignores. Qed.

(* application sends never write to the connection themselves (they are queued) ... *)
Theorem c08_app_send_only_queues : forall s t body ok, s_wire (step s (EAppSend t body ok)) = [].
Proof. exact app_send_writes_nothing. Qed.

(* ... and the run loop's flush drops the queue instead of sending it when the session is not logged on *)
Theorem c08_flush_outside_logon_drops : forall s, is_logged_on (s_st (clear_logs s)) = false ->
  s_to_send (step s EFlush) = [] /\ s_wire (step s EFlush) = [].
Proof. exact flush_not_logged_on_drops. Qed.

(* after the connection has been closed nothing more is written to it *)
Theorem c08_no_write_after_close : forall s, s_out_open s = false -> send_queued s = s.
Proof. exact closed_channel_writes_nothing. Qed.

(* when the peer falls silent the logged-on period ends with a logout notification and the close (from C20) *)
Theorem c08_timeout_ends_with_logout : forall c snd tgt msgs hb sr i q,
  is_logged_on i = true -> is_connected i = true ->
  let s' := step (mk c (SPending i) snd tgt msgs q hb sr) (ETimeout PeerTimeout) in
  s_st s' = SLatent /\ In CbOnLogout (s_cbs s') /\ s_closed s' = true /\ s_out_open s' = false /\ s_wire s' = [].
Proof. exact timer_dead_peer. Qed.

(* TRACE LEVEL.  At every event boundary of every trace: a connected session has both channels open, a disconnected one has
   both closed and nothing buffered.  With c08_no_write_after_close this is "after a disconnect nothing more is written to
   that connection" for the steps that follow the disconnect (inside the disconnecting step: clause 805 below). *)
Theorem c08_channels_follow_the_state : forall c es, Forall Boundary (run_trace es (init_sess c)).
Proof. exact trace_boundary. Qed.

(* once the outbound channel is closed, draining the inbound buffer (and everything it calls) never re-opens it *)
Theorem c08_drain_keeps_channel_closed : forall fuel s, OutClosed s -> OutClosed (drain_message_in fuel s).
Proof. exact drain_out_closed. Qed.

(* ---------------------------------------------------------------------------------------------------------------------
   TRACE LEVEL, clauses of c08_check (Session/Spec.v) - the predicate that is extracted and evaluated on what the
   implementation did.  `free_of codes l = true` : none of the failure codes occurs in l. *)

(* On every trace of the model - every configuration, both roles, every list of connects, arrivals into the inbound
   buffer, deliveries, direct and unparsable frames, disconnects, the four timers, application sends, flushes, stop
   requests and reset times -
     805: nothing is written to a connection after it was closed (until the next Connect), and
     801: the first message written on a connection is a Logon or a Logout. *)
Theorem c08_first_message_is_logon_or_logout_and_nothing_after_close : forall c es,
  free_of [801; 805] (c08_check (combine es (map obs_of (run_trace es (init_sess c))))) = true.
Proof. exact c08_first_message_and_silence_after_close. Qed.

(* ... and on every trace of the model, frames buffered in messageIn at a self-initiated disconnect included:
     803: FromApp only between the logon notification and the logout notification,
     804: never a second logout notification for one logged-on period,
     806: a logged-on period never ends (connection closed) without the logout notification.
   (Before the repair of F17 these three were refuted by buffered frames processed after the close; they were provable
   only on traces that buffer nothing.  The hypothesis is gone.) *)
Theorem c08_delivery_and_notifications_on_every_trace : forall c es,
  free_of [803; 804; 806] (c08_check (combine es (map obs_of (run_trace es (init_sess c))))) = true.
Proof. exact c08_notifications_on_every_trace. Qed.

(* together: every clause of c08_check except 802 *)
Theorem c08_every_clause_but_802 : forall c es,
  free_of [801; 805; 803; 804; 806] (c08_check (combine es (map obs_of (run_trace es (init_sess c))))) = true.
Proof. exact c08_all_but_802. Qed.

(* the couplings behind them: at every event boundary of every trace the automaton of c08_check believes the connection
   is up exactly when the model's outbound channel (messageOut) is open, and believes the session "logged" exactly when the
   session is logged on or has sent its Logout and is still connected *)
Theorem c08_automaton_follows_the_channel : forall c es,
  Forall2 (fun k s => k_connected k = s_out_open s)
          (c08_states c08_init (combine es (map obs_of (run_trace es (init_sess c))))) (run_trace es (init_sess c)).
Proof. exact c08_coupling. Qed.
Theorem c08_automaton_follows_the_logon : forall c es,
  Forall2 (fun k s => k_logged k = gl (s_st s))
          (c08_states c08_init (combine es (map obs_of (run_trace es (init_sess c))))) (run_trace es (init_sess c)).
Proof. exact c08_logged_coupling. Qed.

(* one event, any state: while the outbound channel is closed an event other than Connect writes nothing and does not
   re-open the channel *)
Theorem c08_closed_channel_stays_silent : forall s e, e <> EConnect -> s_out_open s = false ->
  s_wire (step s e) = [] /\ s_out_open (step s e) = false.
Proof. exact step_closed_writes_nothing. Qed.

(* one event: from an acceptor in logonState that has written nothing, the FIRST message written in the event - whatever
   the buffered frames make the session do afterwards - is a Logon or a Logout, and when nothing is written the session
   is still an acceptor in logonState or has disconnected.
   (Statement changed with the repair: "everything written in the event is a Logon or a Logout" no longer holds, since a
   buffered Logon is now accepted before the disconnect and further buffered frames are answered in session.) *)
Theorem c08_logon_state_first_message : forall s e, e <> EConnect -> Boundary s ->
  s_st s = SLogon -> initiator s = false ->
  FirstOK (step s e)
  /\ (s_wire (step s e) = [] ->
      (s_st (step s e) = SLogon /\ initiator (step s e) = false) \/ is_connected (s_st (step s e)) = false).
Proof. exact step_logon_acceptor. Qed.

(* its hypotheses hold of the state an acceptor is in after Connect, and the step is not trivial: the Logon is answered *)
Example c08_logon_state_hypotheses :
  let s := step (init_sess (c08_ex_cfg Acceptor)) EConnect in
  s_st s = SLogon /\ initiator s = false /\ s_out_open s = true
  /\ map o_type (s_wire (step s (EIncoming (c08_ex_msg T_LOGON 1)))) = [T_LOGON].
Proof. exact c08_ex_logon_state. Qed.

(* one event, any well-shaped state (latent, logon, logout or logged on), frames buffered or not: the invariant RI of the
   event - no 803 from the callbacks so far, "logged" = the session state, no logout notification and no close while
   connected, at most one logout notification - holds of the result; k0 is the automaton at the start of the event *)
Theorem c08_event_invariant : forall k0 s e, Boundary s -> WSt (s_st s) -> k_logged k0 = gl (s_st s) -> RI k0 (step s e).
Proof. exact ri_step. Qed.

(* every message handler, in every state: the callback log only grows and never by OnLogout - the logout notification is
   issued by handleDisconnectState only (same for the timer and stop handlers: cb_state_timeout, cb_state_stop in
   Session/C08CbProofs.v) *)
Theorem c08_handlers_never_notify_logout : forall st s m s1 next, state_fix_msg_in st s m = (s1, next) ->
  exists new, s_cbs s1 = new ++ s_cbs s /\ Forall (fun c => c <> CbOnLogout) new.
Proof. exact handlers_never_notify_logout. Qed.

(* The one clause that does NOT hold on every trace of the model: 802.  The finding queued-app-flushed-outside-logon is
   repaired; what refutes the clause on arbitrary event lists is an application that itself sends a Logout-typed message
   through SendToTarget and keeps sending: the session stays logged on, the predicate has seen "our Logout" on the wire. *)
Theorem c08_first_time_app_inside_logon_refuted :
  exists c es, free_of [802] (c08_check (combine es (map obs_of (run_trace es (init_sess c))))) = false.
Proof. exact c08_802_refuted. Qed.
Example c08_witness_802 : c08_trace_check (c08_ex_cfg Acceptor) c08_ex_802 = [(5%nat, 802)].
Proof. exact c08_ex_802_run. Qed.

(* the former witnesses of 806 and of 803 / 804 (frames buffered when the session disconnects itself) now pass the whole
   predicate; in the second one the buffered application message is handed over and the buffered Logout answered BEFORE
   the single logout notification *)
Example c08_former_witness_806 : c08_trace_check (c08_ex_cfg Acceptor) c08_ex_806 = [].
Proof. exact c08_ex_806_run. Qed.
Example c08_former_witness_803_804 : c08_trace_check (c08_ex_cfg Acceptor) c08_ex_803_804 = [].
Proof. exact c08_ex_803_804_run. Qed.
Example c08_former_witness_803_804_order :
  map (fun c => match c with CbFromApp _ _ _ _ => 1 | CbFromAdmin _ _ _ => 2 | CbToAdmin _ => 4 | CbOnLogout => 6 | _ => 0 end)
      (rev (s_cbs (last (run_trace c08_ex_803_804 (init_sess (c08_ex_cfg Acceptor))) (init_sess (c08_ex_cfg Acceptor)))))
  = [2; 4; 1; 2; 4; 6].
Proof. exact c08_ex_803_804_order. Qed.
(* non-vacuity of the trace theorems: that trace connects, writes (a Logon, later two Logouts) and closes ... *)
Example c08_trace_theorem_nontrivial :
  let tr := run_trace c08_ex_803_804 (init_sess (c08_ex_cfg Acceptor)) in
  map (fun s => length (s_wire s)) tr = [0; 1; 0; 0; 2]%nat /\ map s_closed tr = [false; false; false; false; true].
Proof. exact c08_ex_nontrivial. Qed.
(* ... and a trace that logs on, hands an application message over, sends one and logs out passes the whole predicate *)
Example c08_plain_trace_example :
  c08_trace_check (c08_ex_cfg Acceptor) c08_ex_quiet = []
  /\ map (fun s => length (s_cbs s)) (run_trace c08_ex_quiet (init_sess (c08_ex_cfg Acceptor))) = [0; 3; 1; 1; 0; 3]%nat.
Proof. exact c08_ex_quiet_ok. Qed.
