(* C06 — messages failing session-level checks never reach the application.  Statements only.
   Proved: the gate (a callback logged by verifySelect implies every earlier check passed) and that the model's checks are
   the specification's header predicates.  The reaction table (Logout / Reject 9 + Logout / Reject 10 + Logout / plain
   Reject naming the field; expected number unchanged resp. advanced by one) is proved for every message and every
   logged-on, non-recovering state with nothing queued (c06_reaction_table) and, with the reachable-state invariant, for
   every event list: clause 602 of c06_check never fails on a model trace (c06_reactions_hold_on_every_trace).
   The gates 601/604 (Session/GateProofs.v): a closure over all handlers shows that every FromApp / non-Logon FromAdmin
   callback and every OnLogon logged while ONE message is processed passes `gate_ok` with the resend context of the state
   in which the message is processed (c06_gate_per_message).  Lifted to steps and traces: an event that handles at most one
   buffered frame besides its own message (Spec.no_drain) handles everything in the state before it (c06_gate_step); an
   event that drains two or more frames at a disconnect handles them in changing states that the observation does not show,
   and c06_scan demands the clock-free gate there, which holds on every event (c06_gate_step_noclock).  Hence clauses 601
   and 604 of c06_check never fail on a model trace, for every configuration and event list
   (c06_gates_hold_on_every_trace); the former counterexamples are regression examples.
   The reject shape (603: RefSeqNum, reversed routing) is proved for every message and on every trace. *)
From Coq Require Import ZArith List Bool.
From QF Require Import Base.Bytes Session.Types Session.Model Session.Spec Session.LocalProofs Session.TraceProofs Session.ReactionProofs
  Session.RejectShapeProofs Session.GateProofs.
Import ListNotations.
Open Scope Z_scope.

(* if verification (with the application check) logged a callback, then BeginString, CompIDs, SendingTime (unless a replay
   is in progress), the requested sequence checks and validation all passed *)
Theorem c06_gate : forall s m hi lo s1 r,
  verify_select s m hi lo true = (s1, r) -> s_cbs s1 <> s_cbs s ->
  check_begin_string s m = None /\ check_comp_id s m = None
  /\ (not_resend (s_st s) = true -> check_sending_time s m = None)
  /\ (lo = true -> check_target_too_low s m = None) /\ (hi = true -> check_target_too_high s m = None)
  /\ mi_valid m = VAccept.
Proof. exact verify_select_gate. Qed.

(* the checks are what the statement says: BeginString equal, CompIDs mirrored, SendingTime inside the window *)
Theorem c06_begin_check : forall s m, hdr_begin_ok (s_cfg s) m = true -> check_begin_string s m = None.
Proof. exact check_begin_ok. Qed.
Theorem c06_compid_check : forall s m, hdr_compid_ok (s_cfg s) m = true -> (forall x, mi_sender m = Some x -> x <> []) ->
  (forall x, mi_target m = Some x -> x <> []) -> check_comp_id s m = None.
Proof. exact check_compid_ok. Qed.
Theorem c06_time_check : forall s m, hdr_time_ok (s_cfg s) (mi_stime m) = true -> check_sending_time s m = None.
Proof. exact check_time_ok. Qed.

(* a message that passes and carries the expected number goes on to validation and the application callback *)
Theorem c06_pass_through : forall s m hi lo app,
  hdr_ok (s_cfg s) m -> mi_seq m = FVal (s_tgt s) ->
  verify_select s m hi lo app = if app then verify_msg_against_app_impl s m else (s, None).
Proof. exact verify_select_in_sequence. Qed.

(* the reaction table, for every message: in a logged-on, non-recovering session with the channel open and nothing queued,
   a sequence-gated message whose header has a defect of the table (header_defect: wrong BeginString; missing / empty /
   mismatching CompIDs; missing / malformed / out-of-window SendingTime; missing / malformed MsgSeqNum; too low without
   PossDup) gets exactly the mandated reaction: the wire carries [Logout], [Reject(reason); Logout] or [Reject(reason, tag)],
   the expected number is unchanged resp. + 1, and the session ends in the logout state resp. stays in session *)
Theorem c06_reaction_table : forall s m re,
  s_st s = SInSession -> s_out_open s = true -> s_to_send s = [] ->
  gated_type (mi_type m) = true -> header_defect (s_cfg s) (s_tgt s) m = Some re ->
  c06_reaction_ok (s_cfg s) (obs_of s) (obs_of (step s (EIncoming m))) m re = true.
Proof. exact reaction_step. Qed.

(* TRACE LEVEL: for every configuration and every event list clause 602 never fails on the model's trace *)
Theorem c06_reactions_hold_on_every_trace : forall c es,
  free_of [602] (c06_check c (combine es (map obs_of (run_trace es (init_sess c))))) = true.
Proof. exact c06_reactions_never_fail. Qed.

(* the shape of every Reject written in such a step, for every message: RefSeqNum quotes the offending MsgSeqNum (absent
   when the message has no readable number), the header carries exactly the message's routing fields reversed
   (OnBehalfOf <-> DeliverTo, SenderSub/Location <-> TargetSub/Location, and 144/145 above FIX.4.0) *)
Theorem c06_reject_shape_for_every_message : forall s m,
  s_st s = SInSession -> s_out_open s = true -> s_to_send s = [] -> gated_type (mi_type m) = true ->
  forallb (fun w => negb (is_type T_REJECT w) || c06_reject_shape m w) (ob_wire (obs_of (step s (EIncoming m)))) = true.
Proof. exact reject_shape_step. Qed.

(* TRACE LEVEL: clause 603 never fails on the model's trace, for every configuration and every event list *)
Theorem c06_reject_shape_holds_on_every_trace : forall c es,
  free_of [603] (c06_check c (combine es (map obs_of (run_trace es (init_sess c))))) = true.
Proof. exact c06_reject_shape_never_fails. Qed.

(* ---------------------------------------------------------------------------------------------------------------- *)
(* Clauses 601 / 604: the gate.  `NewOk c R new` (GateProofs.v): every FromApp and every non-Logon FromAdmin callback of
   the block `new` is for a message whose facts pass `gate_ok c R`, and if OnLogon is in the block then so is the FromAdmin
   of a Logon whose facts pass `gate_ok c R`.  `gt_rs st` = the state is the resend state (the only state in which the
   code waives the SendingTime check). *)

(* ONE MESSAGE, any state (reachable or not), any handler (logon / in session / resend with its stash replay / logout /
   pending): the callbacks logged while the message is processed form a block that passes the gate with the resend context
   of the state in which it is processed; configuration and state are not touched by the handlers *)
Theorem c06_gate_per_message : forall s m s1 next,
  state_fix_msg_in (s_st s) s m = (s1, next) ->
  s_cfg s1 = s_cfg s /\ s_st s1 = s_st s /\ exists new, s_cbs s1 = new ++ s_cbs s /\ NewOk (s_cfg s) (gt_rs (s_st s)) new.
Proof. exact gate_per_message. Qed.

Example c06_gate_per_message_nonvacuous :
  let s := {| s_cfg := gt_cfg; s_st := SResend None 0 7; s_snd := 3; s_tgt := 2; s_msgs := []; s_to_send := [];
              s_out_open := true; s_in_open := true; s_in_buf := []; s_sent_reset := false; s_hb := 30;
              s_pending_stop := false; s_stopped := false; s_cbs := []; s_wire := []; s_closed := false |} in
  let m := gt_app 2 1000 in
  s_cbs (fst (state_fix_msg_in (s_st s) s m)) = [CbFromApp (FVal 2) 2 VAccept (facts_of m)]
  /\ gate_ok gt_cfg (gt_rs (s_st s)) (facts_of m) = true /\ gate_ok gt_cfg false (facts_of m) = false.
Proof. exact gate_per_message_ex. Qed.

(* ONE EVENT, any state: if the event drains at most one frame (the session is still connected afterwards, or at most one
   frame was buffered before it - gt_quota: two for EDeliver, which takes one out first), the callbacks of the event pass
   the gate of the state before the event *)
Theorem c06_gate_step : forall s e,
  (is_connected (s_st (step s e)) = true \/ (length (s_in_buf s) <= gt_quota e)%nat) ->
  (forall sq tg v f, In (CbFromApp sq tg v f) (s_cbs (step s e)) -> gate_ok (s_cfg s) (gt_rs (s_st s)) f = true)
  /\ (forall t sq f, In (CbFromAdmin t sq f) (s_cbs (step s e)) -> beq_bytes t T_LOGON = false ->
        gate_ok (s_cfg s) (gt_rs (s_st s)) f = true)
  /\ (In CbOnLogon (s_cbs (step s e)) ->
        exists t sq f, In (CbFromAdmin t sq f) (s_cbs (step s e)) /\ beq_bytes t T_LOGON = true
                       /\ gate_ok (s_cfg s) (gt_rs (s_st s)) f = true).
Proof. exact gate_step_callbacks. Qed.

(* ONE EVENT, any state, drains included: BeginString, CompIDs and validation (gate_ok with the SendingTime clause waived) *)
Theorem c06_gate_step_noclock : forall s e,
  (forall sq tg v f, In (CbFromApp sq tg v f) (s_cbs (step s e)) -> gate_ok (s_cfg s) true f = true)
  /\ (forall t sq f, In (CbFromAdmin t sq f) (s_cbs (step s e)) -> beq_bytes t T_LOGON = false -> gate_ok (s_cfg s) true f = true)
  /\ (In CbOnLogon (s_cbs (step s e)) ->
        exists t sq f, In (CbFromAdmin t sq f) (s_cbs (step s e)) /\ beq_bytes t T_LOGON = true /\ gate_ok (s_cfg s) true f = true).
Proof. exact gate_step_callbacks_noclock. Qed.

(* TRACE LEVEL: for every configuration and every event list clauses 601 and 604 never fail on the model's trace.
   c06_scan computes resend_ctx (SendingTime clause waived) as: replay in progress before or after the event, or the event may
   have handled several frames in unobserved states (negb (no_drain e prev o)). *)
Theorem c06_gates_hold_on_every_trace : forall c es,
  free_of [601; 604] (c06_check c (combine es (map obs_of (run_trace es (init_sess c))))) = true.
Proof. exact c06_gate_never_fails. Qed.

(* `c06_check_nc` = clauses 601 / 604 with resend_ctx forced to true (the SendingTime clause waived): what c06_check demands of
   the events with no_drain = false and a lower bound of what it demands of every event.  On every trace and every event it
   reports nothing; whatever it reports c06_check reports too. *)
Theorem c06_gate_noclock_holds_on_every_trace : forall c es,
  c06_check_nc c (combine es (map obs_of (run_trace es (init_sess c)))) = [].
Proof. exact c06_gate_noclock_never_fails. Qed.
Theorem c06_check_nc_included_in_c06_check : forall tr c i prev x,
  In x (c06_scan_nc c i tr) -> In x (c06_scan c i prev tr).
Proof. exact c06_scan_nc_incl. Qed.

(* REGRESSION: the former counterexamples (drain of two frames at a disconnect: number 5 opens a recovery, number 2 with a
   SendingTime 1000 s off is then handled in the resend state where the check is waived and reaches the application, resp.
   as a Logon establishes the session; the event starts in session and ends latent).  c06_check reports nothing; the
   callbacks are there; the draining event is the only one with no_drain = false. *)
Example c06_gate_601_regression :
  c06_check gt_cfg (gt_trace gt_cfg gt_es_601) = []
  /\ gt_count_cbs gt_is_fromapp (gt_trace gt_cfg gt_es_601) = [0; 0; 0; 0; 1]%nat
  /\ map (fun eo => no_drain (fst (fst eo)) (snd (fst eo)) (snd eo))
         (combine (combine gt_es_601 (init_obs gt_cfg :: map snd (gt_trace gt_cfg gt_es_601))) (map snd (gt_trace gt_cfg gt_es_601)))
     = [true; true; true; true; false].
Proof. exact gt_es_601_regression. Qed.
Example c06_gate_604_regression :
  c06_check gt_cfg (gt_trace gt_cfg gt_es_604) = []
  /\ gt_count_cbs gt_is_onlogon (gt_trace gt_cfg gt_es_604) = [0; 1; 0; 0; 1]%nat.
Proof. exact gt_es_604_regression. Qed.

(* non-vacuity: traces with callbacks of every kind, and a disconnect that drains one buffered application message *)
Example c06_gate_traces_nonvacuous :
  map (fun eo => length (ob_cbs (snd eo))) (gt_trace gt_cfg gt_es_ok) = [0; 3; 1; 0; 1; 1; 1; 1]%nat
  /\ gt_count_cbs gt_is_fromapp (gt_trace gt_cfg gt_es_one) = [0; 0; 0; 1]%nat.
Proof. exact gt_es_ok_callbacks. Qed.

(* the clauses still bite on doctored observations: a stale application message handed over in session by a single-message
   event is reported (601); on the draining event of the regression trace a callback for a message with a wrong SenderCompID
   is reported although the clock is waived there *)
Example c06_gate_clauses_bite :
  filter (fun f => snd f =? 601) (c06_scan gt_cfg 0 gt_in_session
    [(EIncoming (gt_app 2 1000), gt_obs_with gt_in_session [CbFromApp (FVal 2) 2 VAccept (facts_of (gt_app 2 1000))])]) = [(0%nat, 601)]
  /\ (let tr := gt_trace gt_cfg gt_es_601 in
      let prev := nth 3 (map snd tr) gt_in_session in
      let o := nth 4 (map snd tr) gt_in_session in
      no_drain EInClosed prev o = false
      /\ filter (fun f => snd f =? 601)
            (c06_scan gt_cfg 4 prev [(EInClosed, gt_obs_with o [CbFromApp (FVal 2) 2 VAccept (gt_bad_sender (gt_app 2 0))])]) = [(4%nat, 601)]).
Proof. exact gt_clauses_bite. Qed.
