(* C06 — messages failing session-level checks never reach the application.  Statements only.
   Proved: the gate (a callback logged by verifySelect implies every earlier check passed) and that the model's checks are
   the specification's header predicates.  The reaction table (Logout / Reject 9 + Logout / Reject 10 + Logout / plain
   Reject naming the field) is evaluated on every trace by c06_check (spec predicate, codes 602/603) and is `_partial`
   as a theorem. *)
From Coq Require Import ZArith List Bool.
From QF Require Import Base.Bytes Session.Types Session.Model Session.Spec Session.LocalProofs.
Import ListNotations.
Open Scope Z_scope.

(* if verification (with the application check) logged a callback, then BeginString, CompIDs, SendingTime (unless a replay
   is in progress), the requested sequence checks and validation all passed *)
Theorem c06_gate : forall s m hi lo s1 r,
  verify_select s m hi lo true = (s1, r) -> s_cbs s1 <> s_cbs s ->
  check_begin_string s m = None /\ check_comp_id s m = None
  /\ (not_resend (s_st s) = true -> check_sending_time s m = None)
  /\ (lo = true -> check_target_too_low s m = None) /\ (hi = true -> check_target_too_high s m = None)
  /\ mi_valid m = VAccept.
Proof. exact verify_select_gate. Qed.

(* the checks are what the statement says: BeginString equal, CompIDs mirrored, SendingTime inside the window *)
Theorem c06_begin_check : forall s m, hdr_begin_ok (s_cfg s) m = true -> check_begin_string s m = None.
Proof. exact check_begin_ok. Qed.
Theorem c06_compid_check : forall s m, hdr_compid_ok (s_cfg s) m = true -> (forall x, mi_sender m = Some x -> x <> []) ->
  (forall x, mi_target m = Some x -> x <> []) -> check_comp_id s m = None.
Proof. exact check_compid_ok. Qed.
Theorem c06_time_check : forall s m, hdr_time_ok (s_cfg s) (mi_stime m) = true -> check_sending_time s m = None.
Proof. exact check_time_ok. Qed.

(* a message that passes and carries the expected number goes on to validation and the application callback *)
Theorem c06_pass_through : forall s m hi lo app,
  hdr_ok (s_cfg s) m -> mi_seq m = FVal (s_tgt s) ->
  verify_select s m hi lo app = if app then verify_msg_against_app_impl s m else (s, None).
Proof. exact verify_select_in_sequence. Qed.
