(* C06 — messages failing session-level checks never reach the application.  Statements only.
   Proved: the gate (a callback logged by verifySelect implies every earlier check passed) and that the model's checks are
   the specification's header predicates.  The reaction table (Logout / Reject 9 + Logout / Reject 10 + Logout / plain
   Reject naming the field; expected number unchanged resp. advanced by one) is proved for every message and every
   logged-on, non-recovering state with nothing queued (c06_reaction_table) and, with the reachable-state invariant, for
   every event list: clause 602 of c06_check never fails on a model trace (c06_reactions_hold_on_every_trace).
   The reject shape (603: RefSeqNum, reversed routing) and the gates 601/604 are evaluated on every trace (`_partial`). *)
From Coq Require Import ZArith List Bool.
From QF Require Import Base.Bytes Session.Types Session.Model Session.Spec Session.LocalProofs Session.TraceProofs Session.ReactionProofs Session.RejectShapeProofs.
Import ListNotations.
Open Scope Z_scope.

(* if verification (with the application check) logged a callback, then BeginString, CompIDs, SendingTime (unless a replay
   is in progress), the requested sequence checks and validation all passed *)
Theorem c06_gate : forall s m hi lo s1 r,
  verify_select s m hi lo true = (s1, r) -> s_cbs s1 <> s_cbs s ->
  check_begin_string s m = None /\ check_comp_id s m = None
  /\ (not_resend (s_st s) = true -> check_sending_time s m = None)
  /\ (lo = true -> check_target_too_low s m = None) /\ (hi = true -> check_target_too_high s m = None)
  /\ mi_valid m = VAccept.
Proof. exact verify_select_gate. Qed.

(* the checks are what the statement says: BeginString equal, CompIDs mirrored, SendingTime inside the window *)
Theorem c06_begin_check : forall s m, hdr_begin_ok (s_cfg s) m = true -> check_begin_string s m = None.
Proof. exact check_begin_ok. Qed.
Theorem c06_compid_check : forall s m, hdr_compid_ok (s_cfg s) m = true -> (forall x, mi_sender m = Some x -> x <> []) ->
  (forall x, mi_target m = Some x -> x <> []) -> check_comp_id s m = None.
Proof. exact check_compid_ok. Qed.
Theorem c06_time_check : forall s m, hdr_time_ok (s_cfg s) (mi_stime m) = true -> check_sending_time s m = None.
Proof. exact check_time_ok. Qed.

(* a message that passes and carries the expected number goes on to validation and the application callback *)
Theorem c06_pass_through : forall s m hi lo app,
  hdr_ok (s_cfg s) m -> mi_seq m = FVal (s_tgt s) ->
  verify_select s m hi lo app = if app then verify_msg_against_app_impl s m else (s, None).
Proof. exact verify_select_in_sequence. Qed.

(* the reaction table, for every message: in a logged-on, non-recovering session with the channel open and nothing queued,
   a sequence-gated message whose header has a defect of the table (header_defect: wrong BeginString; missing / empty /
   mismatching CompIDs; missing / malformed / out-of-window SendingTime; missing / malformed MsgSeqNum; too low without
   PossDup) gets exactly the mandated reaction: the wire carries [Logout], [Reject(reason); Logout] or [Reject(reason, tag)],
   the expected number is unchanged resp. + 1, and the session ends in the logout state resp. stays in session *)
Theorem c06_reaction_table : forall s m re,
  s_st s = SInSession -> s_out_open s = true -> s_to_send s = [] ->
  gated_type (mi_type m) = true -> header_defect (s_cfg s) (s_tgt s) m = Some re ->
  c06_reaction_ok (s_cfg s) (obs_of s) (obs_of (step s (EIncoming m))) m re = true.
Proof. exact reaction_step. Qed.

(* TRACE LEVEL: for every configuration and every event list clause 602 never fails on the model's trace *)
Theorem c06_reactions_hold_on_every_trace : forall c es,
  free_of [602] (c06_check c (combine es (map obs_of (run_trace es (init_sess c))))) = true.
Proof. exact c06_reactions_never_fail. Qed.

(* the shape of every Reject written in such a step, for every message: RefSeqNum quotes the offending MsgSeqNum (absent
   when the message has no readable number), the header carries exactly the message's routing fields reversed
   (OnBehalfOf <-> DeliverTo, SenderSub/Location <-> TargetSub/Location, and 144/145 above FIX.4.0) *)
Theorem c06_reject_shape_for_every_message : forall s m,
  s_st s = SInSession -> s_out_open s = true -> s_to_send s = [] -> gated_type (mi_type m) = true ->
  forallb (fun w => negb (is_type T_REJECT w) || c06_reject_shape m w) (ob_wire (obs_of (step s (EIncoming m)))) = true.
Proof. exact reject_shape_step. Qed.

(* TRACE LEVEL: clause 603 never fails on the model's trace, for every configuration and every event list *)
Theorem c06_reject_shape_holds_on_every_trace : forall c es,
  free_of [603] (c06_check c (combine es (map obs_of (run_trace es (init_sess c))))) = true.
Proof. exact c06_reject_shape_never_fails. Qed.
