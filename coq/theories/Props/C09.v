(* C09 — no bytes from the wire, a file or the API can crash the engine.  Statements only; every proof is `exact` of a
   lemma of the area that owns the model.  `total_res r` = r is neither Panic (Go would panic: index/slice out of range,
   nil dereference, nil-map write) nor OutOfFuel (a loop that does not terminate).  Each theorem quantifies over EVERY
   input.  Partial overall: totality is proved for the modelled functions; the glue without a model (encoding/xml,
   bufio/regexp in ParseSettings, decimal libraries, validation) is exercised by the correspondence and `fuzz` streams
   under recover() + watchdog. *)
From Coq Require Import ZArith List Bool.
From QF Require Import Base.Res Base.Bytes.
From QF Require Import Codec.FixInt Codec.FixIntProofs.
From QF Require Import Codec.TagValue Codec.FieldMap Codec.Build Codec.Parse Codec.ParseProofs.
From QF Require Import Codec.Framer Codec.FramerSpec Codec.FramerProofs.
From QF Require Import Codec.Group Codec.GroupProofs.
From QF Require Import Dict.Xml Dict.Build Dict.BuildTotal.
From QF Require Import Session.Types Session.Model Session.LocalProofs.
Import ListNotations.
Open Scope Z_scope.

(* parsing any byte string as a FIX message, with any transport / application dictionary *)
Theorem c09_parse_total : forall bs td ad, total_res (do_parsing bs td ad).
Proof. exact do_parsing_total. Qed.

(* framing any byte stream under any partition into non-empty reads: never a panic, never a hang *)
Theorem c09_framer_total : forall chunks, Forall fr_nonempty chunks ->
  snd (fr_frames chunks) <> FrPanic /\ snd (fr_frames chunks) <> FrFuel.
Proof. exact fr_frames_total. Qed.

(* reading a repeating group from any field list through any template (empty, duplicate tags, ...) *)
Theorem c09_group_read_total : forall T tv, tv <> [] -> total_res (rg_read T tv).
Proof. exact rg_read_total. Qed.

(* the int accessor on any bytes (empty value, signs, 19+ digits) *)
Theorem c09_int_read_total : forall d, total_res (fix_int_read d).
Proof. exact atoi_total. Qed.

(* loading any dictionary document, cyclic and dangling ones included *)
Theorem c09_dict_build_total : forall doc, total_res (dict_build doc).
Proof. exact dict_build_total. Qed.

(* a session that receives a frame that does not parse is unchanged, in every state: the next well-formed message is
   processed as if the garbage had not arrived.  (The session model itself has no partial operation: `step` is a total
   function into `sess`.) *)
Theorem c09_garbage_harmless : forall s, step s EGarbage = clear_logs s.
Proof. exact garbage_harmless. Qed.
