(* C01 — inbound application messages reach the application in order, exactly once.
   Only statements; every proof is `exact <lemma>` (lemmas in Session/C01Proofs.v). *)
From Coq Require Import ZArith List.
From QF Require Import Base.Bytes Session.Types Session.Model Session.Spec Session.C01Proofs Session.SpecCause Session.ResetCauseProofs.
Import ListNotations.
Open Scope Z_scope.

(* For every configuration (role, BeginString, reset options, chunk size, ...) and EVERY finite list of events
   (connects, inbound messages of any type / sequence number / PossDup / defects with any application and validator
   verdict, buffered arrivals, timer events, application sends, stops, disconnects) the chronological callback log of the
   model passes `c01_check` — the same predicate the check evaluates on the implementation's log:
     - FromApp is called only with MsgSeqNum = the expected number at the moment of the call (code 101),
     - within an epoch (between StoreReset events) the numbers handed over are strictly increasing: after a hand-over of n
       the lower bound becomes n+1 (n itself only when the application answered with a CompID / SendingTime-accuracy
       reject, reasons 9 and 10, which make the engine log out WITHOUT consuming the number) (code 101),
     - after every event the expected number is at least that bound: it advanced past every consumed hand-over (102),
     - the expected number never decreases across an event that contains no store reset (103). *)
Theorem c01_in_order_exactly_once : forall (c : cfg) (es : list event),
  c01_check (map obs_of (run_trace es (init_sess c))) = [].
Proof. exact c01_model_ok. Qed.

(* one step, from any state: whatever lower bound lb <= expected holds before, the step's own log scans and re-establishes it *)
Theorem c01_step_invariant : forall lb s e, lb <= s_tgt s ->
  exists lb', c01_scan_cbs lb (rev (s_cbs (step s e))) = Some lb' /\ lb' <= s_tgt (step s e).
Proof. exact c01_handover_at_expected. Qed.

(* "... never moves backwards except through an explicit reset": the store reset that ends an epoch is never spontaneous.
   With no reset option configured, an event whose log contains a StoreReset is a directly processed Logon carrying
   ResetSeqNumFlag=Y that the validator and the application (FromAdmin) accept, the ResetSeqTime crossing, or the application
   sending a Logon carrying 141=Y (or it handles buffered frames while such an accepted Logon may be buffered):
   c07_cause_check (Session/SpecCause.v, code 705; C07 cites the same lemma) reports nothing on any trace.  In particular a
   Logon carrying ResetSeqNumFlag=N, or none, resets nothing, and neither does a Logon carrying ResetSeqNumFlag=Y that
   FromAdmin refuses or the validator rejects (the expected number does not fall back to 1 on a refused Logon).  The check
   evaluates this predicate on the implementation's log together with c01_check. *)
Theorem c01_reset_only_when_explicit : forall (c : cfg) (es : list event),
  c07_cause_check c (combine es (map obs_of (run_trace es (init_sess c)))) = [].
Proof. exact c07_no_reset_without_cause. Qed.
