(* C15 -- validation accepts conforming messages and names the defect otherwise.
   Only statements; every proof is `exact <lemma>` (DESIGN 2.2).

   Model: Dict/Validate.v mirrors validation.go rule by rule ([validate] = NewValidator(settings, app, transport)
   .Validate over the parsed message: tags of Header/Body/Trailer, MsgType, Message.fields in wire order), with the
   value readers of the Types area (C14).  Specification: Dict/ValidateSpec.v ([c15_conforms], written from the
   property text).  [c15_config app tr mt tdd add]: the dictionaries the validator uses for a message of type mt
   (tdd for header and trailer, add for the body).
   The defect theorems are stated for the first failing rule of the pipeline (MsgType, required fields, field
   content, every field, walk): their hypotheses say in specification terms that the earlier rules pass and that
   the settings have the rule switched on. *)
From Coq Require Import ZArith List Bool String.
From QF Require Import Base.Res Base.Bytes Dict.Xml Dict.Build Dict.Validate Dict.ValidateSpec Dict.ValidateInst
  Dict.ValidateProofs Dict.ValidateGroups Dict.ValidateAccepts Dict.ValidateShipped Dict.ValidateExamples Gen.Dicts.Index
  Codec.FixInt Dict.ValidateGroupDefects Dict.ValidateGroupDefectsEx.
Import ListNotations.
Open Scope string_scope.
Open Scope list_scope.
Open Scope Z_scope.

(* A message that conforms to the configured dictionaries (under the settings) is accepted -- all messages, repeating
   groups nested to any depth included.  [c15_wf_defsb tdd md]: every group of the header, trailer and message
   definition lists each member tag once (true of every message of every shipped dictionary: c15_shipped_wf). *)
Theorem c15_accepts : forall app tr s m mt tdd add md,
  vm_msg_type m = Some mt -> c15_config app tr mt tdd add ->
  dict_bget mt (dd_messages add) = Some md -> c15_wf_defsb tdd md = true ->
  c15_conforms s tdd add m = true ->
  validate s app tr m = Ok None.
Proof. exact (v_accepts v_rd_bool v_rd_timestamp v_rd_float). Qed.

Example c15_accepts_hypotheses :
  c15_config (Some v_ex_dict) None (B "X") v_ex_dict v_ex_dict /\
  (exists md, dict_bget (B "X") (dd_messages v_ex_dict) = Some md /\ c15_wf_defsb v_ex_dict md = true) /\
  c15_conforms v_ex_settings v_ex_dict v_ex_dict v_ex_group_ok = true.
Proof. exact v_ex_group_hyp. Qed.

(* the hypothesis c15_wf_defsb on the shipped dictionaries (generated terms, loaded by the model of the loader):
   any of them as transport dictionary with any of them as application dictionary *)
Theorem c15_shipped_wf : forall nd d, In nd gen_dicts_shipped -> dict_build (snd nd) = Ok d -> c15_dict_wfb d = true.
Proof. exact ValidateShipped.c15_shipped_wf. Qed.

Theorem c15_wf_of_dicts : forall tdd add mt md, c15_dict_wfb tdd = true -> c15_dict_wfb add = true ->
  dict_bget mt (dd_messages add) = Some md -> c15_wf_defsb tdd md = true.
Proof. exact c15_dict_wfb_defs. Qed.

(* unknown MsgType: 11, no reference tag *)
Theorem c15_defect_msgtype : forall app tr s m mt tdd add,
  vm_msg_type m = Some mt -> c15_config app tr mt tdd add ->
  dict_bget mt (dd_messages add) = None ->
  validate s app tr m = Ok (Some (RR_INVALID_MSG_TYPE, None)).
Proof. exact (v_defect_msgtype v_rd_bool v_rd_timestamp v_rd_float). Qed.

(* exactly one required header / body / trailer field missing: 1, that tag *)
Theorem c15_defect_missing_header : forall app tr s m mt tdd add md h t,
  vm_msg_type m = Some mt -> c15_config app tr mt tdd add ->
  dict_bget mt (dd_messages add) = Some md -> dd_header tdd = Some h ->
  c15_one_missing (dmd_required_tags h) (vm_header_tags m) t ->
  validate s app tr m = Ok (Some (RR_REQUIRED_TAG_MISSING, Some t)).
Proof. exact (v_defect_missing_header v_rd_bool v_rd_timestamp v_rd_float). Qed.

Theorem c15_defect_missing_body : forall app tr s m mt tdd add md h t,
  vm_msg_type m = Some mt -> c15_config app tr mt tdd add ->
  dict_bget mt (dd_messages add) = Some md -> dd_header tdd = Some h ->
  c15_subset (dmd_required_tags h) (vm_header_tags m) = true ->
  c15_one_missing (dmd_required_tags md) (vm_body_tags m) t ->
  validate s app tr m = Ok (Some (RR_REQUIRED_TAG_MISSING, Some t)).
Proof. exact (v_defect_missing_body v_rd_bool v_rd_timestamp v_rd_float). Qed.

Theorem c15_defect_missing_trailer : forall app tr s m mt tdd add md h tl t,
  vm_msg_type m = Some mt -> c15_config app tr mt tdd add ->
  dict_bget mt (dd_messages add) = Some md -> dd_header tdd = Some h -> dd_trailer tdd = Some tl ->
  c15_subset (dmd_required_tags h) (vm_header_tags m) = true ->
  c15_subset (dmd_required_tags md) (vm_body_tags m) = true ->
  c15_one_missing (dmd_required_tags tl) (vm_trailer_tags m) t ->
  validate s app tr m = Ok (Some (RR_REQUIRED_TAG_MISSING, Some t)).
Proof. exact (v_defect_missing_trailer v_rd_bool v_rd_timestamp v_rd_float). Qed.

(* empty value with CheckFieldsHaveValues: 4, the first empty field *)
Theorem c15_defect_empty : forall app tr s m mt tdd add pre post t,
  vm_msg_type m = Some mt -> c15_config app tr mt tdd add -> c15_required_ok tdd add mt m ->
  vs_check_fields_have_values s = true ->
  vm_fields m = pre ++ (t, []) :: post ->
  forallb c15_nonempty pre = true ->
  (vs_check_fields_out_of_order s = true -> c15_orderedb pre = true) ->
  validate s app tr m = Ok (Some (RR_TAG_SPECIFIED_WITHOUT_A_VALUE, Some t)).
Proof. exact (v_defect_empty_checked v_rd_bool v_rd_timestamp v_rd_float). Qed.

(* a header field after the header section has been left, with CheckFieldsOutOfOrder: 14, that tag *)
Theorem c15_defect_out_of_order : forall app tr s m mt tdd add pre post t v,
  vm_msg_type m = Some mt -> c15_config app tr mt tdd add -> c15_required_ok tdd add mt m ->
  vs_check_fields_out_of_order s = true ->
  vm_fields m = pre ++ (t, v) :: post ->
  v_is_header t = true ->
  existsb (fun f => negb (v_is_header (fst f))) pre = true ->
  c15_orderedb pre = true ->
  (vs_check_fields_have_values s = true -> forallb c15_nonempty (pre ++ [(t, v)]) = true) ->
  validate s app tr m = Ok (Some (RR_TAG_SPECIFIED_OUT_OF_REQUIRED_ORDER, Some t)).
Proof. exact (v_defect_header_late v_rd_bool v_rd_timestamp v_rd_float). Qed.

(* rules 1-3 pass, RejectInvalidMessage on, every field before f is fine: the verdict is what rule 4 says about f *)
Theorem c15_defect_field : forall app tr s m mt tdd add pre post f rej,
  vm_msg_type m = Some mt -> c15_config app tr mt tdd add ->
  c15_required_ok tdd add mt m -> c15_content_ok s m -> vs_reject_invalid_message s = true ->
  vm_fields m = pre ++ f :: post ->
  forallb (fun g => c15_value_okb v_rd_bool v_rd_timestamp v_rd_float s (c15_dict_of tdd add (fst g)) g) pre = true ->
  v_validate_field v_rd_bool v_rd_timestamp v_rd_float (c15_dict_of tdd add (fst f)) s f = Ok (Some rej) ->
  validate s app tr m = Ok (Some rej).
Proof. exact (v_defect_field v_rd_bool v_rd_timestamp v_rd_float). Qed.

(* ... and what rule 4 says, by kind of defect: empty value 4, unknown tag number 0, outside the enumeration 5, ill-typed 6 *)
Theorem c15_field_empty : forall d s t,
  v_validate_field v_rd_bool v_rd_timestamp v_rd_float d s (t, []) = Ok (Some (RR_TAG_SPECIFIED_WITHOUT_A_VALUE, Some t)).
Proof. exact (v_field_empty v_rd_bool v_rd_timestamp v_rd_float). Qed.

Theorem c15_field_invalid_tag : forall d s t v, v <> [] ->
  dict_zget t (dd_field_type_by_tag d) = None -> c15_tolerated s t = false ->
  v_validate_field v_rd_bool v_rd_timestamp v_rd_float d s (t, v) = Ok (Some (RR_INVALID_TAG_NUMBER, Some t)).
Proof. exact (v_field_invalid_tag v_rd_bool v_rd_timestamp v_rd_float). Qed.

Theorem c15_field_enum : forall d s t v ft, v <> [] ->
  dict_zget t (dd_field_type_by_tag d) = Some ft -> dft_enums ft <> [] -> dict_bmem v (dft_enums ft) = false ->
  v_validate_field v_rd_bool v_rd_timestamp v_rd_float d s (t, v) = Ok (Some (RR_VALUE_IS_INCORRECT, Some t)).
Proof. exact (v_field_enum v_rd_bool v_rd_timestamp v_rd_float). Qed.

Theorem c15_field_illtyped : forall d s t v ft k, v <> [] ->
  dict_zget t (dd_field_type_by_tag d) = Some ft ->
  (dft_enums ft = [] \/ dict_bmem v (dft_enums ft) = true) ->
  dict_bget (dft_type ft) v_type_table = Some k -> v_read_ok v_rd_bool v_rd_timestamp v_rd_float k v = false ->
  v_validate_field v_rd_bool v_rd_timestamp v_rd_float d s (t, v) = Ok (Some (RR_INCORRECT_DATA_FORMAT_FOR_VALUE, Some t)).
Proof. exact (v_field_illtyped v_rd_bool v_rd_timestamp v_rd_float). Qed.

(* rules 1-4 pass; the fields before (t, v) are plain, distinct and defined (or tolerated) at the top level *)
Theorem c15_defect_duplicate : forall app tr s m mt tdd add md pre post t v,
  vm_msg_type m = Some mt -> c15_config app tr mt tdd add ->
  c15_required_ok tdd add mt m -> c15_content_ok s m -> vs_reject_invalid_message s = true ->
  forallb (fun g => c15_value_okb v_rd_bool v_rd_timestamp v_rd_float s (c15_dict_of tdd add (fst g)) g) (vm_fields m) = true ->
  dict_bget mt (dd_messages add) = Some md ->
  vm_fields m = pre ++ (t, v) :: post ->
  forallb (c15_top_ok s tdd md) pre = true -> NoDup (map fst pre) ->
  In t (map fst pre) ->
  validate s app tr m = Ok (Some (RR_TAG_APPEARS_MORE_THAN_ONCE, Some t)).
Proof. exact (v_defect_duplicate v_rd_bool v_rd_timestamp v_rd_float). Qed.

Theorem c15_defect_undefined : forall app tr s m mt tdd add md sd pre post t v,
  vm_msg_type m = Some mt -> c15_config app tr mt tdd add ->
  c15_required_ok tdd add mt m -> c15_content_ok s m -> vs_reject_invalid_message s = true ->
  forallb (fun g => c15_value_okb v_rd_bool v_rd_timestamp v_rd_float s (c15_dict_of tdd add (fst g)) g) (vm_fields m) = true ->
  dict_bget mt (dd_messages add) = Some md ->
  vm_fields m = pre ++ (t, v) :: post ->
  forallb (c15_top_ok s tdd md) pre = true -> NoDup (map fst pre) ->
  ~ In t (map fst pre) ->
  c15_def_of tdd md t = Some sd -> dict_zget t (dmd_fields sd) = None -> c15_tolerated s t = false ->
  validate s app tr m = Ok (Some (RR_TAG_NOT_DEFINED_FOR_THIS_MESSAGE_TYPE, Some t)).
Proof. exact (v_defect_undefined v_rd_bool v_rd_timestamp v_rd_float). Qed.

Example c15_defects_on_an_instance :
  validate v_ex_settings (Some v_ex_dict) None (v_ex_msg [104; 105] "Q" [(104, B "12"); (105, B "a")])
    = Ok (Some (RR_INVALID_MSG_TYPE, None)) /\
  validate v_ex_settings (Some v_ex_dict) None (v_ex_msg [105] "P" [(105, B "a")])
    = Ok (Some (RR_REQUIRED_TAG_MISSING, Some 104)) /\
  validate v_ex_settings (Some v_ex_dict) None (v_ex_msg [104; 105] "P" [(104, []); (105, B "a")])
    = Ok (Some (RR_TAG_SPECIFIED_WITHOUT_A_VALUE, Some 104)) /\
  validate v_ex_settings (Some v_ex_dict) None (v_ex_msg [104; 105] "P" [(104, B "12"); (105, B "z")])
    = Ok (Some (RR_VALUE_IS_INCORRECT, Some 105)) /\
  validate v_ex_settings (Some v_ex_dict) None (v_ex_msg [104; 105] "P" [(104, B "1x"); (105, B "a")])
    = Ok (Some (RR_INCORRECT_DATA_FORMAT_FOR_VALUE, Some 104)) /\
  validate v_ex_settings (Some v_ex_dict) None (v_ex_msg [104; 105] "P" [(104, B "12"); (105, B "a"); (104, B "13")])
    = Ok (Some (RR_TAG_APPEARS_MORE_THAN_ONCE, Some 104)) /\
  validate v_ex_settings (Some v_ex_dict) None (v_ex_msg [104; 103] "P" [(104, B "12"); (103, B "c")])
    = Ok (Some (RR_TAG_NOT_DEFINED_FOR_THIS_MESSAGE_TYPE, Some 103)) /\
  validate v_ex_settings (Some v_ex_dict) None (v_ex_msg [104; 4999] "P" [(104, B "12"); (4999, B "c")])
    = Ok (Some (RR_INVALID_TAG_NUMBER, Some 4999)) /\
  validate v_ex_settings (Some v_ex_dict) None (v_ex_msg [104] "P" [(104, B "12"); (35, B "P")])
    = Ok (Some (RR_TAG_SPECIFIED_OUT_OF_REQUIRED_ORDER, Some 35)).
Proof. exact v_ex_mutants. Qed.

(* GROUP DEFECTS (required member of an entry missing, wrong NumInGroup, members out of order): the general defect
   theorems are at the end of this file (c15_defect_group_*; c15_accepts covers the acceptance of well-formed groups);
   the `validate` correspondence stream compares model and code on them and its spec predicate requires every
   message that does not conform to be rejected (sig=nonconforming-accepted:<kind>).  That predicate found the
   defect repaired in /repo commit "required group member missing in a non-final entry is accepted"; the instance
   below is its witness, now rejected in the first entry as well as in the last. *)
Example c15_group_member_missing_instance :
  c15_conforms v_ex_settings v_ex_dict v_ex_dict v_ex_group_ok = true /\
  validate v_ex_settings (Some v_ex_dict) None v_ex_group_ok = Ok None /\
  c15_conforms v_ex_settings v_ex_dict v_ex_dict v_ex_group_missing_first = false /\
  validate v_ex_settings (Some v_ex_dict) None v_ex_group_missing_first = Ok (Some (RR_REQUIRED_TAG_MISSING, Some 103)) /\
  c15_conforms v_ex_settings v_ex_dict v_ex_dict v_ex_group_missing_last = false /\
  validate v_ex_settings (Some v_ex_dict) None v_ex_group_missing_last = Ok (Some (RR_REQUIRED_TAG_MISSING, Some 103)).
Proof. exact v_ex_group_witness. Qed.

(* ---- GROUP DEFECTS, for every dictionary and message (Dict/ValidateGroupDefects.v) ----
   [c15_at s app tr m mt tdd add md stack seen]: rules 1-4 of the pipeline pass, RejectInvalidMessage is on, every group
   of the definitions lists each member once (c15_wf_defsb, as in c15_accepts), and the walk of validateWalk has passed
   over some number of conforming top-level items -- plain fields, tolerated unknown fields, whole group instances
   ([c15_items_pre], the prefix form of the specification's c15_items) -- and stands at [stack] having seen the tags [seen].
   In the theorems the stack begins with the NumInGroup field (num_tag, value) of the group g = first :: fs (first the
   delimiter).  [c15_entries_pre members delimiter j rest = Some st]: j conforming entries (delimiter first, members in
   template order, required members present, nested groups conforming) lead from rest to st;
   [c15_members_of c15_member ms st = Some st']: the members ms of the template, in order, lead from st to st'. *)

(* (a) a required member missing from an entry -- the first (j = 0), a middle or the last one, whatever follows it:
   after j conforming entries, entry j+1 begins with the delimiter and lists the members ms1; the next member of the
   template, mem, is required, but the field that follows has another tag.  Reject reason 1, the tag of mem. *)
Theorem c15_defect_group_member_missing :
  forall s app tr m mt tdd add md num_tag value rest seen sd g first fs n j v1 st1 ms1 mem ms2 t v st2,
  c15_at s app tr m mt tdd add md ((num_tag, value) :: rest) seen ->
  v_zmem num_tag seen = false ->
  c15_def_of tdd md num_tag = Some sd -> dict_zget num_tag (dmd_fields sd) = Some g ->
  dfd_fields g = first :: fs ->
  fix_int_read value = Ok n ->
  c15_entries_pre (c15_members_of c15_member (first :: fs)) (dfd_tag first) j rest = Some ((dfd_tag first, v1) :: st1) ->
  first :: fs = ms1 ++ mem :: ms2 ->
  c15_members_of c15_member ms1 ((dfd_tag first, v1) :: st1) = Some ((t, v) :: st2) ->
  dfd_required mem = true -> t <> dfd_tag mem ->
  validate s app tr m = Ok (Some (RR_REQUIRED_TAG_MISSING, Some (dfd_tag mem))).
Proof. exact (v_defect_group_member_missing v_rd_bool v_rd_timestamp v_rd_float). Qed.

(* (b) NumInGroup differs from the number of entries present: exactly k conforming entries follow the count (what comes
   after them does not begin with the delimiter: c15_entries_of), the count reads n <> k (larger, smaller, negative).
   Reject reason 16 (IncorrectNumInGroupCount), the NumInGroup tag. *)
Theorem c15_defect_group_count :
  forall s app tr m mt tdd add md num_tag value rest seen sd g first fs n k rest',
  c15_at s app tr m mt tdd add md ((num_tag, value) :: rest) seen ->
  v_zmem num_tag seen = false ->
  c15_def_of tdd md num_tag = Some sd -> dict_zget num_tag (dmd_fields sd) = Some g ->
  dfd_fields g = first :: fs ->
  fix_int_read value = Ok n ->
  c15_entries_of (c15_members_of c15_member (first :: fs)) (dfd_tag first) k rest = Some rest' ->
  n <> Z.of_nat k ->
  validate s app tr m = Ok (Some (RR_INCORRECT_NUM_IN_GROUP_COUNT, Some num_tag)).
Proof. exact (v_defect_group_count v_rd_bool v_rd_timestamp v_rd_float). Qed.

(* (c1) an entry that does not begin with the delimiter: after k conforming entries comes a field (t, v) with another tag
   although NumInGroup announces more than k entries (k = 0: the first field of the group is not the delimiter).
   The validator takes the group to end there: reject reason 16, the NumInGroup tag -- not 14/15, and not the tag t. *)
Theorem c15_defect_group_no_delimiter :
  forall s app tr m mt tdd add md num_tag value rest seen sd g first fs n k t v rest',
  c15_at s app tr m mt tdd add md ((num_tag, value) :: rest) seen ->
  v_zmem num_tag seen = false ->
  c15_def_of tdd md num_tag = Some sd -> dict_zget num_tag (dmd_fields sd) = Some g ->
  dfd_fields g = first :: fs ->
  fix_int_read value = Ok n ->
  c15_entries_pre (c15_members_of c15_member (first :: fs)) (dfd_tag first) k rest = Some ((t, v) :: rest') ->
  t <> dfd_tag first -> Z.of_nat k < n ->
  validate s app tr m = Ok (Some (RR_INCORRECT_NUM_IN_GROUP_COUNT, Some num_tag)).
Proof. exact (v_defect_group_no_delimiter v_rd_bool v_rd_timestamp v_rd_float). Qed.

(* (c2) a member out of template order, the member due being required: in entry j+1, where the required member mem is
   due, stands a later member of the template (its tag t is one of ms2).  Reported as mem missing: reject reason 1, the
   tag of mem (not reason 15 "repeating group fields out of order"). *)
Theorem c15_defect_group_member_out_of_order :
  forall s app tr m mt tdd add md num_tag value rest seen sd g first fs n j v1 st1 ms1 mem ms2 t v st2,
  c15_at s app tr m mt tdd add md ((num_tag, value) :: rest) seen ->
  v_zmem num_tag seen = false ->
  c15_def_of tdd md num_tag = Some sd -> dict_zget num_tag (dmd_fields sd) = Some g ->
  dfd_fields g = first :: fs ->
  fix_int_read value = Ok n ->
  c15_entries_pre (c15_members_of c15_member (first :: fs)) (dfd_tag first) j rest = Some ((dfd_tag first, v1) :: st1) ->
  first :: fs = ms1 ++ mem :: ms2 ->
  c15_members_of c15_member ms1 ((dfd_tag first, v1) :: st1) = Some ((t, v) :: st2) ->
  dfd_required mem = true -> In t (map dfd_tag ms2) ->
  validate s app tr m = Ok (Some (RR_REQUIRED_TAG_MISSING, Some (dfd_tag mem))).
Proof. exact (v_defect_group_member_out_of_order v_rd_bool v_rd_timestamp v_rd_float). Qed.

(* (c3) an OPTIONAL member behind a later member of its entry: the entry, and with it the group, ends before the
   displaced field.  In an entry that is not the last this is (c1)/(b): reason 16, the NumInGroup tag.  In the last entry
   the group instance conforms as far as the validator is concerned (it is one of the items passed over in c15_at) and
   the displaced field (t, v) is looked up at the top level: not defined for the message and not tolerated by the
   settings -- reason 2, the tag t; a tag seen before -- reason 13.  These two theorems are the general forms of
   c15_defect_undefined / c15_defect_duplicate (the items before the field may be groups). *)
Theorem c15_defect_undefined_after_groups : forall s app tr m mt tdd add md t v rest seen sd,
  c15_at s app tr m mt tdd add md ((t, v) :: rest) seen ->
  v_zmem t seen = false ->
  c15_def_of tdd md t = Some sd -> dict_zget t (dmd_fields sd) = None -> c15_tolerated s t = false ->
  validate s app tr m = Ok (Some (RR_TAG_NOT_DEFINED_FOR_THIS_MESSAGE_TYPE, Some t)).
Proof. exact (v_defect_undefined_at v_rd_bool v_rd_timestamp v_rd_float). Qed.

Theorem c15_defect_duplicate_after_groups : forall s app tr m mt tdd add md t v rest seen,
  c15_at s app tr m mt tdd add md ((t, v) :: rest) seen ->
  v_zmem t seen = true ->
  validate s app tr m = Ok (Some (RR_TAG_APPEARS_MORE_THAN_ONCE, Some t)).
Proof. exact (v_defect_duplicate_at v_rd_bool v_rd_timestamp v_rd_float). Qed.

(* Nested groups: [c15_group_defect g stack e] is the closure of (a) and (b) under "inside entry j+1 of a group whose
   earlier entries and earlier members conform, the instance of a nested group has the defect e" (constructors
   gd_member_missing, gd_count, gd_nested) -- a defect at any depth is reported with the reason and tag of the innermost
   group's rule. *)
Theorem c15_defect_group_nested : forall s app tr m mt tdd add md num_tag value rest seen sd g e,
  c15_at s app tr m mt tdd add md ((num_tag, value) :: rest) seen ->
  v_zmem num_tag seen = false ->
  c15_def_of tdd md num_tag = Some sd -> dict_zget num_tag (dmd_fields sd) = Some g ->
  c15_group_defect g ((num_tag, value) :: rest) e ->
  validate s app tr m = Ok (Some e).
Proof. exact (v_defect_group v_rd_bool v_rd_timestamp v_rd_float). Qed.

(* The hypotheses are satisfiable: a dictionary with message Y = group NoG(100) [A(101) required delimiter, B(102)
   optional, C(103) required, nested optional group NoH(110) [H1(111) required delimiter, H2(112) optional, H3(113)
   required]], plain D(104).  Each verdict below is obtained by applying the theorem named (c15_accepts for the first:
   a conforming instance with a nested group of two entries), not by evaluating the validator. *)
Example c15_group_theorems_apply :
  (* c15_accepts *)
  validate v_ex_settings (Some v_exn_dict) None v_exn_ok = Ok None /\
  (* c15_defect_group_member_missing: C missing from the first / second of three / last entry *)
  validate v_ex_settings (Some v_exn_dict) None v_exn_missing_first = Ok (Some (RR_REQUIRED_TAG_MISSING, Some 103)) /\
  validate v_ex_settings (Some v_exn_dict) None v_exn_missing_mid = Ok (Some (RR_REQUIRED_TAG_MISSING, Some 103)) /\
  validate v_ex_settings (Some v_exn_dict) None v_exn_missing_last = Ok (Some (RR_REQUIRED_TAG_MISSING, Some 103)) /\
  (* c15_defect_group_count: 100=3 with two entries *)
  validate v_ex_settings (Some v_exn_dict) None v_exn_count = Ok (Some (RR_INCORRECT_NUM_IN_GROUP_COUNT, Some 100)) /\
  (* c15_defect_group_no_delimiter: the second entry begins with B *)
  validate v_ex_settings (Some v_exn_dict) None v_exn_no_delim = Ok (Some (RR_INCORRECT_NUM_IN_GROUP_COUNT, Some 100)) /\
  (* c15_defect_group_member_out_of_order: the nested group before C *)
  validate v_ex_settings (Some v_exn_dict) None v_exn_out_of_order = Ok (Some (RR_REQUIRED_TAG_MISSING, Some 103)) /\
  (* c15_defect_undefined_after_groups: optional B behind C in the last entry *)
  validate v_ex_settings (Some v_exn_dict) None v_exn_displaced = Ok (Some (RR_TAG_NOT_DEFINED_FOR_THIS_MESSAGE_TYPE, Some 102)) /\
  (* c15_defect_group_nested: H3 missing from the second entry of NoH inside the second entry of NoG *)
  validate v_ex_settings (Some v_exn_dict) None v_exn_nested_missing = Ok (Some (RR_REQUIRED_TAG_MISSING, Some 113)).
Proof. exact v_exn_instances. Qed.

(* ... and the hypotheses of (a) and (b) spelled out on two of these instances (for (a): second of three entries; the
   nested case: v_exn_nested_defect in Dict/ValidateGroupDefectsEx.v builds the c15_group_defect derivation) *)
Example c15_defect_group_member_missing_hypotheses :
  let rest := [(101, B "a"); (103, B "c"); (101, B "b"); (101, B "d"); (103, B "e"); (10, B "000")]%list in
  let fs := [v_exn_mem 1; v_exn_mem 2; v_exn_mem 3]%list in
  c15_at v_ex_settings (Some v_exn_dict) None v_exn_missing_mid (B "Y") v_exn_dict v_exn_dict v_exn_md
         ((100, B "3") :: rest) [35; 9; 8] /\
  v_zmem 100 [35; 9; 8] = false /\
  c15_def_of v_exn_dict v_exn_md 100 = Some v_exn_md /\ dict_zget 100 (dmd_fields v_exn_md) = Some v_exn_nog /\
  dfd_fields v_exn_nog = v_exn_mem 0 :: fs /\
  fix_int_read (B "3") = Ok 3 /\
  c15_entries_pre (c15_members_of c15_member (v_exn_mem 0 :: fs)) (dfd_tag (v_exn_mem 0)) 1 rest =
    Some ((dfd_tag (v_exn_mem 0), B "b") :: [(101, B "d"); (103, B "e"); (10, B "000")]) /\
  v_exn_mem 0 :: fs = ([v_exn_mem 0; v_exn_mem 1] ++ v_exn_mem 2 :: [v_exn_mem 3])%list /\
  c15_members_of c15_member [v_exn_mem 0; v_exn_mem 1]
    ((dfd_tag (v_exn_mem 0), B "b") :: [(101, B "d"); (103, B "e"); (10, B "000")]) =
    Some ((101, B "d") :: [(103, B "e"); (10, B "000")]) /\
  dfd_required (v_exn_mem 2) = true /\ 101 <> dfd_tag (v_exn_mem 2) /\ dfd_tag (v_exn_mem 2) = 103.
Proof. exact v_exn_missing_mid_hyp. Qed.

Example c15_defect_group_count_hypotheses :
  let rest := [(101, B "a"); (103, B "c"); (101, B "d"); (103, B "e"); (104, B "12"); (10, B "000")]%list in
  let fs := [v_exn_mem 1; v_exn_mem 2; v_exn_mem 3]%list in
  c15_at v_ex_settings (Some v_exn_dict) None v_exn_count (B "Y") v_exn_dict v_exn_dict v_exn_md
         ((100, B "3") :: rest) [35; 9; 8] /\
  v_zmem 100 [35; 9; 8] = false /\
  c15_def_of v_exn_dict v_exn_md 100 = Some v_exn_md /\ dict_zget 100 (dmd_fields v_exn_md) = Some v_exn_nog /\
  dfd_fields v_exn_nog = v_exn_mem 0 :: fs /\
  fix_int_read (B "3") = Ok 3 /\
  c15_entries_of (c15_members_of c15_member (v_exn_mem 0 :: fs)) (dfd_tag (v_exn_mem 0)) 2 rest =
    Some [(104, B "12"); (10, B "000")] /\
  3 <> Z.of_nat 2.
Proof. exact v_exn_count_hyp. Qed.

Example c15_defect_group_nested_hypothesis :
  c15_group_defect v_exn_nog
    [(100, B "2"); (101, B "a"); (103, B "c");
     (101, B "d"); (103, B "e"); (110, B "2"); (111, B "x"); (113, B "w"); (111, B "z"); (104, B "12"); (10, B "000")]
    (RR_REQUIRED_TAG_MISSING, Some 113).
Proof. exact v_exn_nested_defect. Qed.
