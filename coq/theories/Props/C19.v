(* C19 -- loaded dictionaries say what the specification file says.
   Only statements; every proof is `exact <lemma>` (DESIGN 2.2).

   Model: Dict/Build.v mirrors datadictionary/build.go + datadictionary.go.  Specification: Dict/Spec.v, a
   relational walk of the XML tree written from the property text ([sp_expand]: fields reachable through
   fields, components and groups, in declaration order with components expanded in place; [sp_required]:
   directly required fields plus the required fields of required components; [c19_dict_ok]: Fields / Tags /
   RequiredTags / group members / field types of every message, header and trailer).
   [uniquely_named]: no two fields with one name or number, no two components with one name, no two messages
   with one MsgType (true of all shipped files); [sp_header_ok]: type FIX/FIXT and numeric major/minor. *)
From Coq Require Import ZArith List Bool String.
From QF Require Import Base.Res Base.Bytes Dict.Xml Dict.Build Dict.Spec Dict.SpecExec Dict.SpecProofs
  Dict.BuildTotal Dict.BuildSound Dict.BuildComplete Dict.ShippedProofs Dict.Examples Gen.Dicts.Index.
Import ListNotations.
Open Scope Z_scope.

(* the loader returns a dictionary or an error for EVERY document: no panic, and the recursion through the
   component table terminates (cyclic documents included) *)
Theorem c19_build_total : forall doc, total_res (dict_build doc).
Proof. exact dict_build_total. Qed.

(* whatever is loaded says what the file says *)
Theorem c19_build_sound : forall doc d, uniquely_named doc -> dict_build doc = Ok d -> c19_dict_ok doc d.
Proof. exact dict_build_sound_only. Qed.

(* every well-formed file is loaded, and correctly *)
Theorem c19_build_correct : forall doc,
  uniquely_named doc -> sp_header_ok doc -> acyclic doc -> closed doc ->
  exists d, dict_build doc = Ok d /\ c19_dict_ok doc d.
Proof. exact dict_build_correct. Qed.

Example c19_build_correct_hypotheses :
  uniquely_named dict_ex_doc /\ sp_header_ok dict_ex_doc /\ acyclic dict_ex_doc /\ closed dict_ex_doc.
Proof. exact dict_ex_hypotheses. Qed.

(* a file that references an undefined field or component is refused *)
Theorem c19_dangling : forall doc, uniquely_named doc -> ~ closed doc -> exists e, dict_build doc = Err e.
Proof. exact dict_build_dangling. Qed.

Example c19_dangling_hypotheses : uniquely_named dict_ex_dangling /\ ~ closed dict_ex_dangling.
Proof. exact dict_ex_dangling_hyp. Qed.

(* a file whose components contain themselves is refused (and, by c19_build_total, does not hang the loader) *)
Theorem c19_cyclic : forall doc, uniquely_named doc -> ~ acyclic doc -> exists e, dict_build doc = Err e.
Proof. exact dict_build_cyclic. Qed.

Example c19_cyclic_hypotheses : uniquely_named dict_ex_cyclic /\ ~ acyclic dict_ex_cyclic.
Proof. exact dict_ex_cyclic_hyp. Qed.

(* the nine shipped specifications, as generated terms: each is uniquely named, closed, acyclic, is loaded, and
   the loaded dictionary says what the file says (kernel computation) *)
Theorem c19_shipped : Forall (fun nd => c19_shipped_statement (snd nd)) gen_dicts_shipped.
Proof. exact c19_shipped_all. Qed.

Example c19_shipped_is_the_nine_files : map fst gen_dicts_shipped =
  [B "FIX40"; B "FIX41"; B "FIX42"; B "FIX43"; B "FIX44"; B "FIX50"; B "FIX50SP1"; B "FIX50SP2"; B "FIXT11"]%string.
Proof. exact c19_shipped_names. Qed.
