(* C10 - built messages are well-formed FIX whatever API calls produced them.
   Only statements; every proof is `exact <lemma>` (DESIGN 2.2).

   Vocabulary (Codec/Scan.v, model-free): c10_op = the API calls (set on header/body/trailer, remove, clear, group set,
   copy into a pre-filled message, intermediate build); c10_abs_run ops = what is set after the calls, as three finite
   maps tag -> (latest value, group members); c10_wf bs a = 0 <-> the bytes bs scan as tag=value fields, start with
   8, 9, 35, end with 10, contain every set top-level tag exactly once (followed by exactly its group members) with
   its latest value and no other field, header before body before trailer, 9 = byte count between the 9 and 10 fields,
   10 = byte sum mod 256 in three digits.  c10_proper = tags used in their sections, SOH-free byte values, groups
   with body-tag members not set on framing tags, 8 and 35 set (c10_proper_strict, which additionally excludes a scalar set
   over a live repeating group, is only a class label for the correspondence driver). *)
From Coq Require Import ZArith List Bool Sorting.Permutation Sorting.Sorted.
From QF Require Import Base.Res Base.Bytes Codec.TagValue Codec.FieldMap Codec.FieldMapProofs Codec.Build Codec.BuildProofs Codec.Scan
  Codec.Parse Codec.ParseProofs.
Import ListNotations.
Open Scope Z_scope.

(* The two views of a field map stay in step under EVERY sequence of operations (proper or not):
   tags has no duplicates and lists exactly the keys of tagLookup - in header, body and trailer. *)
Theorem c10_representation_invariant : forall ops,
  let m := msg_run_ops ops in
  (NoDup (fm_tags (m_header m)) /\ NoDup (map fst (fm_lookup (m_header m))) /\
     forall t, In t (fm_tags (m_header m)) <-> In t (map fst (fm_lookup (m_header m)))) /\
  (NoDup (fm_tags (m_body m)) /\ NoDup (map fst (fm_lookup (m_body m))) /\
     forall t, In t (fm_tags (m_body m)) <-> In t (map fst (fm_lookup (m_body m)))) /\
  (NoDup (fm_tags (m_trailer m)) /\ NoDup (map fst (fm_lookup (m_trailer m))) /\
     forall t, In t (fm_tags (m_trailer m)) <-> In t (map fst (fm_lookup (m_trailer m)))).
Proof. exact msg_rep_run_ops. Qed.

(* The model sorts with insertion sort, the code with sort.Sort: a sorted permutation under a strict total order is
   unique, so both give the same list; the three section orderings are such orders. *)
Theorem c10_sorted_permutation_unique : forall P lt l1 l2, strict_total_on P lt -> Forall P l1 ->
  StronglySorted (lt_rel lt) l1 -> StronglySorted (lt_rel lt) l2 -> Permutation l1 l2 -> l1 = l2.
Proof. exact sorted_perm_unique. Qed.
Theorem c10_header_order_strict_total : strict_total_on any_tag header_field_ordering.
Proof. exact header_order_strict_total. Qed.
Theorem c10_body_order_strict_total : strict_total_on any_tag normal_field_order.
Proof. exact normal_order_strict_total. Qed.
Theorem c10_trailer_order_strict_total : strict_total_on any_tag trailer_field_ordering.
Proof. exact trailer_order_strict_total. Qed.

(* The built bytes are well-formed for EVERY proper operation program (nothing else is excluded). *)
Theorem c10_wellformed : forall ops, c10_proper ops = true ->
  c10_wf (snd (msg_build (msg_run_ops ops))) (c10_abs_run ops) = 0.
Proof. exact run_ops_wellformed. Qed.

(* regression witness of the repaired defect (getOrCreate kept the stale members of a repeating group under a scalar
   set): SetGroup(453 with one entry) then SetInt(453, 0) is a proper program and now builds 8,9,35,453=0,10 *)
Example c10_set_over_group_regression : c10_proper c10_set_over_group_program = true /\
  c10_proper_strict c10_set_over_group_program = false /\
  c10_wf (snd (msg_build (msg_run_ops c10_set_over_group_program))) (c10_abs_run c10_set_over_group_program) = 0 /\
  snd (msg_build (msg_run_ops c10_set_over_group_program)) =
    ser [(8, [70; 73; 88; 46; 52; 46; 50]); (9, [49; 49]); (35, [68]); (453, [48]); (10, [50; 51; 54])].
Proof. exact c10_set_over_group_wellformed. Qed.

(* a copied message serialises identically to its source (whatever the target held before) *)
Theorem c10_copy_same_bytes : forall m to, snd (msg_build (msg_copy_into m to)) = snd (msg_build m).
Proof. exact copy_builds_same_bytes. Qed.

(* "Parsing those bytes yields the same fields and values": the built bytes are the serialisation of a field list fs that
   the independent scanner reads back, ParseMessage accepts them, the parsed message's field array is exactly fs, its raw
   bytes are the built bytes and every field is found in the section of its tag (last occurrence wins - without a
   dictionary repeating-group members are plain body fields).
   FULL STATEMENT: forall ops, c10_proper ops = true -> (the conclusion below).  Excluded, visibly: programs that set
   XMLDataLen (212) by hand - the field following 212=n is read as n raw bytes, so 212 must agree with the next field,
   which the API does not enforce; messages of 2^63 bytes or more (the model's lengths are unbounded integers). *)
Theorem c10_parse_back_partial : forall ops, c10_proper ops = true -> c10_uses_xml_data_len ops = false ->
  len (snd (msg_build (msg_run_ops ops))) < two63 ->
  exists fs p, snd (msg_build (msg_run_ops ops)) = ser fs /\ scan (ser fs) = Some fs /\
    do_parsing (ser fs) None None = Ok p /\ m_raw p = Some (ser fs) /\ m_fields p = map init_of fs /\
    forall t v, c11_last_value fs t = Some v -> fm_get_bytes (parsed_section None t p) t = Ok v.
Proof. exact run_ops_parse_back. Qed.

(* non-vacuity: a program with overwrite, remove->set, clear->set, a two-entry group, a copy, an intermediate build *)
Example c10_hypothesis_satisfiable : c10_proper c10_example_program = true.
Proof. exact c10_example_proper. Qed.
