(* C12 — stream framing is independent of how the bytes arrive.
   Only statements; every proof is `exact <lemma>` (DESIGN 2.2).

   fr_frames chunks   : the model of parser.go (buffer window into bigBuffer, readMore init/shift/grow, searches that
                        resume after refills) run as connection.go's readLoop does: ReadMessage until the first error,
                        the reader delivering the chunks one Read at a time; result = frames + how it ended.
   frames_spec stream : the same thing defined on the whole byte stream by first-occurrence searches only.
   fr_term            : FrErr e (an error value, e.g. FR_E_EOF) | FrPanic | FrFuel (hang). *)
From Coq Require Import ZArith List Bool.
From QF Require Import Base.Res Base.Bytes Codec.FixInt Codec.Framer Codec.FramerSpec Codec.FramerProofs.
Import ListNotations.
Open Scope Z_scope.

(* frames and terminal error depend on the concatenation of the reads only *)
Theorem c12_refines : forall chunks, Forall fr_nonempty chunks ->
  fr_frames chunks = frames_spec (concat chunks).
Proof. exact fr_refines. Qed.

Corollary c12_chunking_independent : forall c1 c2, Forall fr_nonempty c1 -> Forall fr_nonempty c2 ->
  concat c1 = concat c2 -> fr_frames c1 = fr_frames c2.
Proof. exact fr_chunking_independent. Qed.

(* well-formed messages (fr_wf_msg: "8=" v SOH "9=" d SOH body SOH "10=" c SOH with v, d, c SOH-free and atoi d =
   |body| + 1) separated by bytes without "8=" (fr_no_begin_marker): the frames are exactly the messages, then EOF *)
Theorem c12_wellformed_stream : forall ms gs,
  Forall fr_wf_msg ms -> Forall fr_no_begin_marker gs -> length gs = S (length ms) ->
  frames_spec (fr_interleave gs ms) = (ms, FrErr FR_E_EOF).
Proof. exact fr_wellformed_stream. Qed.

(* … under every read schedule of the model *)
Corollary c12_wellformed_chunked : forall ms gs chunks,
  Forall fr_wf_msg ms -> Forall fr_no_begin_marker gs -> length gs = S (length ms) ->
  Forall fr_nonempty chunks -> concat chunks = fr_interleave gs ms ->
  fr_frames chunks = (ms, FrErr FR_E_EOF).
Proof. exact fr_wellformed_chunked. Qed.

(* the read loop never panics and never hangs (no hypothesis on the content: the huge-BodyLength panic of
   jumpLength is repaired in /repo, fix a74f821, and the model follows the repaired code) *)
Theorem framer_total : forall chunks, Forall fr_nonempty chunks ->
  snd (fr_frames chunks) <> FrPanic /\ snd (fr_frames chunks) <> FrFuel.
Proof. exact fr_frames_total. Qed.

(* a single ReadMessage on any parser state satisfying the window invariant returns a frame or an error (for C09) *)
Theorem framer_read_message_total : forall fuel p, fr_inv p -> (fr_pending p + 2 <= fuel)%nat ->
  total_res (fr_read_message fuel p).
Proof. exact fr_read_message_total. Qed.

(* the partitions used by the correspondence driver are partitions *)
Theorem c12_cut_is_partition : forall sizes s,
  concat (fr_cut sizes s) = s /\ Forall fr_nonempty (fr_cut sizes s).
Proof. exact fr_cut_partition. Qed.

(* ---- instances: the hypotheses are satisfiable, the conclusions are not trivial ---- *)
Example c12_ex_wellformed : Forall fr_wf_msg [fr_ex_msg1; fr_ex_msg2].
Proof. exact fr_ex_wf. Qed.

Example c12_ex_garbage :
  Forall fr_no_begin_marker fr_ex_gs /\ length fr_ex_gs = S (length [fr_ex_msg1; fr_ex_msg2]).
Proof. exact fr_ex_garbage. Qed.

Example c12_ex_chunkings :
  fr_frames (fr_cut (repeat 1%nat 100) fr_ex_stream) = ([fr_ex_msg1; fr_ex_msg2], FrErr FR_E_EOF) /\
  fr_frames (fr_cut (repeat 7%nat 100) fr_ex_stream) = ([fr_ex_msg1; fr_ex_msg2], FrErr FR_E_EOF) /\
  fr_frames [fr_ex_stream] = ([fr_ex_msg1; fr_ex_msg2], FrErr FR_E_EOF) /\
  length (fr_cut (repeat 1%nat 100) fr_ex_stream) = length fr_ex_stream.
Proof. exact fr_ex_chunkings. Qed.

Example c12_ex_errors :
  fr_frames (fr_cut [3; 5]%nat (firstn 20 fr_ex_msg1)) = ([], FrErr FR_E_EOF) /\
  fr_frames [FR_BEGIN ++ [70] ++ FR_LEN_TAG ++ [57; 50; 50; 51; 51; 55; 50; 48; 51; 54; 56; 53; 52; 55; 55; 53; 56; 48; 55]
               ++ FR_SOH ++ [97; 98; 99]] = ([], FrErr FR_E_INVALID_LENGTH).
Proof. exact (conj (proj1 fr_ex_errors) (proj1 (proj2 fr_ex_errors))). Qed.
