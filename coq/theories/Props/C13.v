(* C13 — repeating groups survive the trip through the wire.
   Only statements; every proof is `exact <lemma>` (DESIGN 2.2).
   Model: Codec/Group.v (repeating_group.go Write/Read, groupTagOrder, message.go parseGroup / isNumInGroupField /
   getGroupFields / isGroupMember and the classification loop of doParsing over the parsed field list);
   lemmas: Codec/GroupProofs.v; shipped dictionaries: Codec/GroupShipped.v over Gen/Dicts (area dict). *)
From Coq Require Import ZArith List Bool Permutation.
From QF Require Import Base.Res Base.Bytes Codec.Group Codec.GroupProofs Codec.GroupShipped.
From QF Require Import Spec.FixStd Codec.TagValue Codec.FieldMap Codec.Build Codec.Parse Codec.ParseProofs Codec.Scan.
From QF Require Import Codec.GroupMulti Codec.GroupMultiNoDict.
From QF Require Import Dict.Xml Gen.Dicts.Index.
Import ListNotations.
Open Scope Z_scope.

(* ---- round trip through Write / Read, no dictionary involved ---- *)

(* Weakest form proved: T well-formed w.r.t. F (rg_wf_tmpl: tags pairwise distinct on every level; no tag of a level
   among the tags that may follow a group of that level on the wire: the enclosing template's later tags, its
   delimiter, and F), g fits T, the first tag of `rest` is in F.  Read returns the canonical form of g (every entry
   in template order, recursively) and exactly `rest`.  Any nesting depth, count 0 included. *)
Theorem c13_roundtrip_nodict_general : forall T t g rest F,
  rg_wf_tmpl F T = true -> rg_fits T g = true -> rg_follow_ok F rest ->
  rg_read T (rg_write T t g ++ rest) = Ok (rg_canon T g, rest).
Proof. exact rg_roundtrip. Qed.

(* DESIGN form: T well-formed on its own, the first tag of `rest` outside the template tree *)
Theorem c13_roundtrip_nodict_canon : forall T t g rest,
  rg_wf_template T = true -> rg_fits T g = true ->
  (forall f, hd_error rest = Some f -> ~ In (fst f) (rg_all_tags T)) ->
  rg_read T (rg_write T t g ++ rest) = Ok (rg_canon T g, rest).
Proof. exact rg_roundtrip_design. Qed.

(* entries given in template order come back literally: same entries, same fields and values, same order *)
Theorem c13_roundtrip_nodict : forall T t g rest,
  rg_wf_template T = true -> rg_fits T g = true -> rg_ordered T g = true ->
  (forall f, hd_error rest = Some f -> ~ In (fst f) (rg_all_tags T)) ->
  rg_read T (rg_write T t g ++ rest) = Ok (g, rest).
Proof. exact rg_roundtrip_exact. Qed.

(* the canonical form: same number of entries, each entry a permutation of the entry written (members
   canonicalised recursively), and it is g itself when g is in template order *)
Theorem c13_canon_length : forall T g, length (rg_canon T g) = length g.
Proof. exact rg_canon_length. Qed.
Theorem c13_canon_entry_perm : forall T e, Permutation (rg_canon_entry T e) (map (rg_cfrag T) e).
Proof. exact rg_canon_entry_perm. Qed.
Theorem c13_canon_ordered : forall T g, rg_ordered T g = true -> rg_canon T g = g.
Proof. exact rg_canon_ordered. Qed.

(* whatever the order of the Set calls: what GetGroup users see through the template (per entry, per template item:
   absent / value / nested rows) of the group read back is what they would see of the group written *)
Theorem c13_roundtrip_nodict_view : forall T t g rest,
  rg_wf_template T = true -> rg_fits T g = true ->
  (forall f, hd_error rest = Some f -> ~ In (fst f) (rg_all_tags T)) ->
  exists g', rg_read T (rg_write T t g ++ rest) = Ok (g', rest) /\
             length g' = length g /\ rg_view T g' = rg_view T g.
Proof. exact rg_roundtrip_view. Qed.

(* ---- the dictionary-guided grouping of wire fields (parseGroup) ---- *)

(* Met at top level at index i with a dictionary that defines the group like the template, the group's wire fields
   W are collected into ONE body field (t, i, |W|) and the scan continues at top level behind them as if a plain
   field had been added: nothing behind the group is swallowed, whatever the nesting inside. *)
Theorem c13_parse_group_extent : forall xh xt msg T t g post i body F,
  rg_def_lookup t msg = Some (rg_def_of_item (RgGrp t T)) ->
  rg_wf_tmpl F T = true -> rg_fits T g = true -> rg_follow_ok F post ->
  (forall x, In x (t :: rg_all_tags T) -> rg_plain xh xt x) ->
  rg_scan xh xt (Some msg) RgTop i (rg_write T t g ++ post) body =
  rg_scan xh xt (Some msg) RgTop (i + length (rg_write T t g)) post (body ++ [(t, i, length (rg_write T t g))]).
Proof. exact rg_scan_group. Qed.

(* hence: the body lookup of t is that slice and GetGroup through T returns the group *)
Theorem c13_in_message_dict_general : forall xh xt msg T t g pre post body res F,
  rg_def_lookup t msg = Some (rg_def_of_item (RgGrp t T)) ->
  rg_wf_tmpl F T = true -> rg_fits T g = true -> rg_follow_ok F post ->
  (forall x, In x (t :: rg_all_tags T) -> rg_plain xh xt x) ->
  ~ In t (map fst post) ->
  rg_scan xh xt (Some msg) RgTop (length pre) (rg_write T t g ++ post) body = Ok res ->
  rg_scan xh xt (Some msg) RgTop (length pre + length (rg_write T t g)) post
          (body ++ [(t, length pre, length (rg_write T t g))]) = Ok res /\
  rg_body_lookup t res = Some (length pre, length (rg_write T t g)) /\
  rg_body_get_group (pre ++ rg_write T t g ++ post) T t res = Ok (rg_canon T g).
Proof. exact rg_dict_in_message. Qed.

(* whole message h3 ++ pre ++ W ++ ps ++ rest parsed with the dictionary (h3 = BeginString, BodyLength, MsgType; pre,
   ps plain body fields the dictionary does not declare groups; rest = e.g. the trailer): the group reads back and
   every field of ps is still found in the body *)
Theorem c13_in_message_dict : forall xh xt msg T t g h3 pre ps rest res,
  length h3 = 3%nat ->
  rg_def_lookup t msg = Some (rg_def_of_item (RgGrp t T)) ->
  rg_wf_template T = true -> rg_fits T g = true ->
  (forall f, hd_error (ps ++ rest) = Some f -> ~ In (fst f) (rg_all_tags T)) ->
  (forall x, In x (t :: rg_all_tags T) -> rg_plain xh xt x) ->
  (forall p, In p (pre ++ ps) -> rg_plain_body_field xh xt (Some msg) p) ->
  ~ In t (map fst (ps ++ rest)) ->
  rg_scan_message xh xt (Some msg) (h3 ++ pre ++ rg_write T t g ++ ps ++ rest) = Ok res ->
  rg_body_get_group (h3 ++ pre ++ rg_write T t g ++ ps ++ rest) T t res = Ok (rg_canon T g) /\
  forall p, In p ps -> rg_body_has (fst p) res = true.
Proof. exact rg_dict_message. Qed.

(* ---- without dictionary ---- *)

(* every wire field is a body field of its own; GetGroup reads on through the capacity of the one-field slice
   (tv[1:cap(tv)]): the group is read back provided its tag does not occur again behind its count field, and every
   plain-tagged field behind the group that the scan reaches (no CheckSum before it) is found in the body *)
Theorem c13_in_message_nodict : forall T t g h3 pre post res,
  length h3 = 3%nat ->
  rg_wf_template T = true -> rg_fits T g = true ->
  (forall f, hd_error post = Some f -> ~ In (fst f) (rg_all_tags T)) ->
  rg_plain [] [] t -> ~ In t (map fst (tl (rg_write T t g) ++ post)) ->
  (forall q, In q (pre ++ rg_write T t g) -> fst q <> RG_CHECKSUM) ->
  rg_scan_message [] [] None (h3 ++ pre ++ rg_write T t g ++ post) = Ok res ->
  rg_body_get_group (h3 ++ pre ++ rg_write T t g ++ post) T t res = Ok (rg_canon T g) /\
  forall l1 f l2, post = l1 ++ f :: l2 -> (forall q, In q l1 -> fst q <> RG_CHECKSUM) -> rg_plain [] [] (fst f) ->
    rg_body_has (fst f) res = true.
Proof. exact rg_nodict_message. Qed.

(* ---- Read never panics or hangs (cited by C09) ---- *)

(* for every template (empty, duplicate tags, anything) and every non-empty field slice -- GetGroup always passes the
   stored field, which has at least its own TagValue; the model's only Panic is tv[0] on an empty slice (rg_read_nil) *)
Theorem c13_read_total : forall T tv, tv <> [] -> total_res (rg_read T tv).
Proof. exact rg_read_total. Qed.
Theorem c13_get_group_total : forall w T t body,
  (forall off l, rg_body_lookup t body = Some (off, l) -> (off < length w)%nat) ->
  total_res (rg_body_get_group w T t body).
Proof. exact rg_body_get_group_total. Qed.

(* ---- every group of every message of every shipped dictionary ---- *)

(* the template derived from the built dictionary (model of datadictionary's builder over the generated XML terms)
   is well-formed, contains no header/trailer tag and does not repeat the group's own tag: the hypotheses on T and
   t of the theorems above hold for all 2129 shipped group definitions *)
Theorem c13_shipped : forall name doc, In (name, doc) gen_dicts_shipped -> rg_shipped_statement doc.
Proof. exact rg_shipped_all. Qed.
Theorem c13_shipped_count : Z.of_nat rg_shipped_group_count = 2129.
Proof. exact rg_shipped_count. Qed.

(* ---- non-vacuity, and why the hypotheses are there ---- *)
Example c13_ex_hyps :
  rg_wf_template rg_ex_tmpl = true /\ rg_fits rg_ex_tmpl rg_ex_group = true /\
  rg_ordered rg_ex_tmpl rg_ex_group = true /\
  (forall f, hd_error rg_ex_rest = Some f -> ~ In (fst f) (rg_all_tags rg_ex_tmpl)).
Proof. exact rg_ex_hyps. Qed.
Example c13_ex_roundtrip :
  rg_read rg_ex_tmpl (rg_write rg_ex_tmpl 78 rg_ex_group ++ rg_ex_rest) = Ok (rg_ex_group, rg_ex_rest).
Proof. exact rg_ex_roundtrip. Qed.
Example c13_ex_dict :
  length rg_ex_h3 = 3%nat /\
  rg_def_lookup 78 rg_ex_msgdef = Some (rg_def_of_item (RgGrp 78 rg_ex_tmpl)) /\
  (forall x, In x (78 :: rg_all_tags rg_ex_tmpl) -> rg_plain [] [] x) /\
  (forall p, In p ([(11, [105])] ++ [(58, [116])]) -> rg_plain_body_field [] [] (Some rg_ex_msgdef) p) /\
  ~ In 78 (map fst ([(58, [116])] ++ [(10, [48; 48; 48])])) /\
  exists res, rg_scan_message [] [] (Some rg_ex_msgdef) rg_ex_wire = Ok res /\
              rg_body_get_group rg_ex_wire rg_ex_tmpl 78 res = Ok rg_ex_group /\
              rg_body_has 58 res = true /\ rg_body_lookup 78 res = Some (4%nat, 11%nat).
Proof. exact rg_ex_dict_hyps. Qed.
(* tags distinct per level do not suffice: a nested member tag that also follows in the parent makes the wire ambiguous *)
Example c13_ambiguous_template_refuted :
  exists T t g rest,
    rg_nodupb (rg_tags T) = true /\ rg_fits T g = true /\ rg_wf_template T = false /\
    rg_read T (rg_write T t g ++ rest) = Err RG_E_ORDER.
Proof. exact rg_ambiguous_template_refuted. Qed.
Example c13_missing_delimiter_refuted :
  exists T t g rest, rg_wf_template T = true /\ rg_fits T g = false /\
    rg_read T (rg_write T t g ++ rest) = Err RG_E_ORDER.
Proof. exact rg_missing_delimiter_refuted. Qed.

(* ---- several groups in one body (siblings back to back, or separated by plain fields) ---- *)

(* Body = seg_1 ++ ... ++ seg_n ++ ps ++ rest, each segment = plain body fields (possibly NONE: the next group's
   NumInGroup field follows the previous group directly) followed by RepeatingGroup{t, T, g}.Write().  rg_segs_ok states
   the hypotheses of c13_in_message_dict for every segment (the "first tag behind the group" is then the next plain
   field, the next group's tag, or the head of ps ++ rest).  Parsed with the dictionary: EVERY group reads back
   through its template, every plain field between the groups and behind the last one is still in the body. *)
Theorem c13_in_message_dict_groups : forall xh xt msg h3 segs ps rest res,
  length h3 = 3%nat ->
  rg_segs_ok xh xt msg segs (ps ++ rest) ->
  (forall p, In p ps -> rg_plain_body_field xh xt (Some msg) p) ->
  rg_scan_message xh xt (Some msg) (h3 ++ rg_segs_wire segs ++ ps ++ rest) = Ok res ->
  (forall before pre t T g after, segs = before ++ RgSeg pre t T g :: after ->
     rg_body_get_group (h3 ++ rg_segs_wire segs ++ ps ++ rest) T t res = Ok (rg_canon T g)) /\
  (forall before pre t T g after p, segs = before ++ RgSeg pre t T g :: after -> In p pre ->
     rg_body_has (fst p) res = true) /\
  (forall p, In p ps -> rg_body_has (fst p) res = true).
Proof. exact rg_dict_message_groups. Qed.

(* the instance "a group followed DIRECTLY by another repeating group", spelled out *)
Theorem c13_in_message_dict_two_groups : forall xh xt msg T1 t1 g1 T2 t2 g2 h3 pre ps rest res,
  length h3 = 3%nat ->
  rg_def_lookup t1 msg = Some (rg_def_of_item (RgGrp t1 T1)) ->
  rg_def_lookup t2 msg = Some (rg_def_of_item (RgGrp t2 T2)) ->
  rg_wf_template T1 = true -> rg_fits T1 g1 = true ->
  rg_wf_template T2 = true -> rg_fits T2 g2 = true ->
  ~ In t2 (rg_all_tags T1) ->
  (forall f, hd_error (ps ++ rest) = Some f -> ~ In (fst f) (rg_all_tags T2)) ->
  (forall x, In x (t1 :: rg_all_tags T1) -> rg_plain xh xt x) ->
  (forall x, In x (t2 :: rg_all_tags T2) -> rg_plain xh xt x) ->
  (forall p, In p (pre ++ ps) -> rg_plain_body_field xh xt (Some msg) p) ->
  ~ In t1 (map fst (rg_write T2 t2 g2 ++ ps ++ rest)) ->
  ~ In t2 (map fst (ps ++ rest)) ->
  let w := h3 ++ pre ++ rg_write T1 t1 g1 ++ rg_write T2 t2 g2 ++ ps ++ rest in
  rg_scan_message xh xt (Some msg) w = Ok res ->
  rg_body_get_group w T1 t1 res = Ok (rg_canon T1 g1) /\
  rg_body_get_group w T2 t2 res = Ok (rg_canon T2 g2) /\
  forall p, In p (pre ++ ps) -> rg_body_has (fst p) res = true.
Proof. exact rg_dict_message_two_groups. Qed.

(* every wire field of a written group carries the group's tag or a tag of the template tree *)
Theorem c13_write_tags : forall T t g f, rg_fits T g = true -> In f (rg_write T t g) -> In (fst f) (t :: rg_all_tags T).
Proof. exact rg_write_tags. Qed.

(* non-vacuity: NoAllocs(78), nested two levels, directly followed by NoPartyIDs(453), then Text(58) *)
Example c13_ex_two_groups :
  length rg_ex_h3 = 3%nat /\
  rg_segs_ok [] [] rg_ex2_msgdef [RgSeg [(11, [105])] 78 rg_ex_tmpl rg_ex_group; RgSeg [] 453 rg_ex2_tmpl rg_ex2_group]
             ([(58, [116])] ++ [(10, [48; 48; 48])]) /\
  (forall p, In p [(58, [116])] -> rg_plain_body_field [] [] (Some rg_ex2_msgdef) p) /\
  exists res, rg_scan_message [] [] (Some rg_ex2_msgdef) rg_ex2_wire = Ok res /\
              rg_body_get_group rg_ex2_wire rg_ex_tmpl 78 res = Ok rg_ex_group /\
              rg_body_get_group rg_ex2_wire rg_ex2_tmpl 453 res = Ok rg_ex2_group /\
              rg_body_has 58 res = true /\ rg_body_has 11 res = true /\
              rg_body_lookup 78 res = Some (4%nat, 11%nat) /\ rg_body_lookup 453 res = Some (15%nat, 8%nat).
Proof. exact rg_ex2_hyps. Qed.

(* ---- several groups in one body, WITHOUT a dictionary ---- *)

(* Body = seg_1 ++ ... ++ seg_n ++ post as above, parsed by ParseMessage (no dictionary; the same holds when the
   dictionary does not know the MsgType).  Every wire field becomes a body field of its own; the NumInGroup field of a
   group is stored as a one-field slice and GetGroup reads on through its capacity (tv[1:cap(tv)] reaches the end of
   Message.fields).  rg_segs_ok_nodict states the hypotheses of c13_in_message_nodict for every segment: template
   well-formed, group fits, the first tag behind the group (next plain field, next group's tag, head of post) outside
   the template tree, the group's tag neither header nor trailer and not occurring again behind its count field
   (FieldMap.add overwrites), no CheckSum-tagged field up to the end of the group (the scan stops at tag 10).
   Then EVERY group reads back through its template as the canonical form of the group written, and every field the
   scan reaches (no CheckSum before it) whose tag is neither a header nor a trailer tag - between the groups, inside
   them, behind the last one - is in the body. *)
Theorem c13_in_message_nodict_groups : forall h3 segs post res,
  length h3 = 3%nat ->
  rg_segs_ok_nodict segs post ->
  rg_scan_message [] [] None (h3 ++ rg_segs_wire segs ++ post) = Ok res ->
  (forall before pre t T g after, segs = before ++ RgSeg pre t T g :: after ->
     rg_body_get_group (h3 ++ rg_segs_wire segs ++ post) T t res = Ok (rg_canon T g)) /\
  (forall l1 f l2, rg_segs_wire segs ++ post = l1 ++ f :: l2 -> (forall q, In q l1 -> fst q <> RG_CHECKSUM) ->
     rg_plain [] [] (fst f) -> rg_body_has (fst f) res = true).
Proof. exact rg_nodict_message_groups. Qed.

(* the instance "a group followed DIRECTLY by another repeating group", no dictionary, spelled out *)
Theorem c13_in_message_nodict_two_groups : forall T1 t1 g1 T2 t2 g2 h3 pre post res,
  length h3 = 3%nat ->
  rg_wf_template T1 = true -> rg_fits T1 g1 = true ->
  rg_wf_template T2 = true -> rg_fits T2 g2 = true ->
  ~ In t2 (rg_all_tags T1) ->
  (forall f, hd_error post = Some f -> ~ In (fst f) (rg_all_tags T2)) ->
  rg_plain [] [] t1 -> rg_plain [] [] t2 ->
  ~ In t1 (map fst (tl (rg_write T1 t1 g1) ++ rg_write T2 t2 g2 ++ post)) ->
  ~ In t2 (map fst (tl (rg_write T2 t2 g2) ++ post)) ->
  (forall q, In q (pre ++ rg_write T1 t1 g1 ++ rg_write T2 t2 g2) -> fst q <> RG_CHECKSUM) ->
  let w := h3 ++ pre ++ rg_write T1 t1 g1 ++ rg_write T2 t2 g2 ++ post in
  rg_scan_message [] [] None w = Ok res ->
  rg_body_get_group w T1 t1 res = Ok (rg_canon T1 g1) /\
  rg_body_get_group w T2 t2 res = Ok (rg_canon T2 g2).
Proof. exact rg_nodict_message_two_groups. Qed.

(* non-vacuity: the wire of c13_ex_two_groups scanned without dictionary: both groups read back, each stored as a
   ONE-field slice (length 1) at the index of its count field *)
Example c13_ex_two_groups_nodict :
  length rg_ex_h3 = 3%nat /\
  rg_segs_ok_nodict [RgSeg [(11, [105])] 78 rg_ex_tmpl rg_ex_group; RgSeg [] 453 rg_ex2_tmpl rg_ex2_group]
                    ([(58, [116])] ++ [(10, [48; 48; 48])]) /\
  exists res, rg_scan_message [] [] None rg_ex2_wire = Ok res /\
              rg_body_get_group rg_ex2_wire rg_ex_tmpl 78 res = Ok rg_ex_group /\
              rg_body_get_group rg_ex2_wire rg_ex2_tmpl 453 res = Ok rg_ex2_group /\
              rg_body_has 58 res = true /\ rg_body_has 11 res = true /\
              rg_body_lookup 78 res = Some (4%nat, 1%nat) /\ rg_body_lookup 453 res = Some (15%nat, 1%nat).
Proof. exact rg_ex2_nodict_hyps. Qed.
