(* FIX standard tables used by the codec layer, written by hand from the FIX specification
   (Standard Message Header / Trailer of FIX 4.0 - 5.0SP2 / FIXT 1.1) and kept in this ONE place.
   They coincide with the case lists of Tag.IsHeader / Tag.IsTrailer in /repo/tag.go (a translator
   `gen_tables` can later regenerate the Go-side lists into Gen/Tables.v; the lemma connecting the two is then
   `forallb`/`vm_compute`).  The correspondence stream `parse` exercises every tag of both tables. *)
From Coq Require Import ZArith List Bool.
Import ListNotations.
Open Scope Z_scope.

Definition TAG_BEGIN_STRING : Z := 8.
Definition TAG_BODY_LENGTH : Z := 9.
Definition TAG_CHECK_SUM : Z := 10.
Definition TAG_MSG_TYPE : Z := 35.
Definition TAG_XML_DATA_LEN : Z := 212.
Definition TAG_XML_DATA : Z := 213.

(* Standard header: BeginString BodyLength MsgType SenderCompID TargetCompID OnBehalfOfCompID DeliverToCompID
   SecureDataLen MsgSeqNum SenderSubID SenderLocationID TargetSubID TargetLocationID OnBehalfOfSubID
   OnBehalfOfLocationID DeliverToSubID DeliverToLocationID PossDupFlag PossResend SendingTime OrigSendingTime
   XmlDataLen XmlData MessageEncoding LastMsgSeqNumProcessed OnBehalfOfSendingTime ApplVerID CstmApplVerID
   NoHops ApplExtID SecureData HopCompID HopSendingTime HopRefID *)
Definition fixstd_header_tags : list Z :=
  [8; 9; 35; 49; 56; 115; 128; 90; 34; 50; 142; 57; 143; 116; 144; 129; 145; 43; 97; 52; 122;
   212; 213; 347; 369; 370; 1128; 1129; 627; 1156; 91; 628; 629; 630].

(* Standard trailer: SignatureLength Signature CheckSum *)
Definition fixstd_trailer_tags : list Z := [93; 89; 10].

Definition fixstd_mem (t : Z) (l : list Z) : bool := existsb (Z.eqb t) l.
Definition fixstd_is_header (t : Z) : bool := fixstd_mem t fixstd_header_tags.
Definition fixstd_is_trailer (t : Z) : bool := fixstd_mem t fixstd_trailer_tags.
Definition fixstd_is_body (t : Z) : bool := negb (fixstd_is_header t) && negb (fixstd_is_trailer t).
