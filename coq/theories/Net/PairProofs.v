(* C05: two engines — proofs over Net/Pair.v, reusing the C01 invariant on each side. *)
From Coq Require Import String.
From Coq Require Import ZArith List Bool Lia.
From QF Require Import Base.Bytes Session.Types Session.Model Session.Spec Session.C01Proofs Net.Pair.
Import ListNotations.
Open Scope list_scope.
Open Scope Z_scope.

(* one transition of one side as the C01 invariant sees it: from any lower bound below the expected number, the new log
   scans and re-establishes the bound *)
Definition Succ (s s' : sess) : Prop :=
  forall lb, lb <= s_tgt s -> exists lb', c01_scan_cbs lb (rev (s_cbs s')) = Some lb' /\ lb' <= s_tgt s'.

Lemma succ_step s e : Succ s (step s e).
Proof. intros lb H. apply c01_handover_at_expected; exact H. Qed.
Lemma succ_idle s : Succ s (clear_logs s).
Proof. intros lb H. exists lb. split; [reflexivity | exact H]. Qed.
Lemma succ_restart s : Succ s (restart s).
Proof. intros lb H. exists lb. split; [reflexivity | exact H]. Qed.

Lemma app_send_tgt s t body ok : is_admin t = false -> s_tgt (step s (EAppSend t body ok)) = s_tgt s.
Proof.
  intros Ht. unfold step, step_event, queue_for_send, prep. rewrite Ht.
  destruct ok; unfold enqueue, persist, upd_to_send, upd_store; try destruct (c_disable_persist _); reflexivity.
Qed.

Lemma succ_send_flush s t body ok : is_admin t = false -> Succ s (step (step s (EAppSend t body ok)) EFlush).
Proof.
  intros Ht lb H. apply succ_step. rewrite (app_send_tgt s t body ok Ht). exact H.
Qed.

Lemma pstep_succ p e : Succ (p_a p) (p_a (pstep p e)) /\ Succ (p_b p) (p_b (pstep p e)).
Proof.
  destruct e; cbn [pstep].
  - destruct (p_up p); cbn [p_a p_b]; split; try apply succ_idle; apply succ_step.
  - cbn [p_a p_b]. split; [apply succ_send_flush; reflexivity | apply succ_idle].
  - cbn [p_a p_b]. split; [apply succ_idle | apply succ_send_flush; reflexivity].
  - destruct (p_ab p); cbn [p_a p_b]; split; try apply succ_idle; apply succ_step.
  - destruct (p_ba p); cbn [p_a p_b]; split; try apply succ_idle; apply succ_step.
  - cbn [p_a p_b]. split; [apply succ_step | apply succ_idle].
  - cbn [p_a p_b]. split; [apply succ_idle | apply succ_step].
  - cbn [p_a p_b]. split; apply succ_step.
  - cbn [p_a p_b]. split; [apply succ_restart | apply succ_step].
  - cbn [p_a p_b]. split; [apply succ_step | apply succ_restart].
  - cbn [p_a p_b]. split; [apply succ_step | apply succ_idle].
  - cbn [p_a p_b]. split; [apply succ_idle | apply succ_step].
Qed.

(* a chain of Succ transitions passes c01_scan *)
Lemma c01_scan_chain : forall (l : list sess) s i lb,
  lb <= s_tgt s ->
  (fix chain (s : sess) (l : list sess) : Prop := match l with [] => True | s' :: r => Succ s s' /\ chain s' r end) s l ->
  c01_scan i lb (s_tgt s) (map obs_of l) = [].
Proof.
  induction l as [|s' r IH]; intros s i lb Hlb Hch; cbn [map c01_scan]; [reflexivity|].
  destruct Hch as [Hs Hr].
  destruct (Hs lb Hlb) as [lb' [H1 H2]].
  change (ob_cbs (obs_of s')) with (rev (s_cbs s')). change (ob_tgt (obs_of s')) with (s_tgt s').
  rewrite H1. replace (lb' <=? s_tgt s') with true by (symmetry; apply Z.leb_le; lia).
  assert (Hm : has_reset (rev (s_cbs s')) || (s_tgt s <=? s_tgt s') = true).
  { destruct (has_reset (rev (s_cbs s'))) eqn:Hrs; [reflexivity|]. cbn [orb]. apply Z.leb_le.
    destruct (Hs (s_tgt s) (Z.le_refl _)) as [lb2 [H3 H4]]. pose proof (scan_no_reset_mono _ _ _ Hrs H3). lia. }
  rewrite Hm. cbn [app]. apply IH; [lia | exact Hr].
Qed.

Lemma prun_chain_b : forall es p,
  (fix chain (s : sess) (l : list sess) : Prop := match l with [] => True | s' :: r => Succ s s' /\ chain s' r end)
    (p_b p) (map p_b (prun_trace es p)).
Proof.
  induction es as [|e r IH]; intros p; cbn [prun_trace map]; [exact I|].
  split; [apply pstep_succ | apply IH].
Qed.
Lemma prun_chain_a : forall es p,
  (fix chain (s : sess) (l : list sess) : Prop := match l with [] => True | s' :: r => Succ s s' /\ chain s' r end)
    (p_a p) (map p_a (prun_trace es p)).
Proof.
  induction es as [|e r IH]; intros p; cbn [prun_trace map]; [exact I|].
  split; [apply pstep_succ | apply IH].
Qed.

(* each side of every two-engine run, across cuts, reconnects and restarts on the store, passes the C01 predicate:
   application messages are handed over at the expected number only, never twice, in increasing order *)
Lemma c05_each_side_in_order : forall ca cb es,
  c01_check (map obs_of (map p_b (prun_trace es (pinit ca cb)))) = []
  /\ c01_check (map obs_of (map p_a (prun_trace es (pinit ca cb)))) = [].
Proof.
  intros ca cb es. unfold c01_check. split.
  - apply (c01_scan_chain _ (p_b (pinit ca cb)) O 1); [cbn; lia | apply prun_chain_b].
  - apply (c01_scan_chain _ (p_a (pinit ca cb)) O 1); [cbn; lia | apply prun_chain_a].
Qed.
