(* C05, payload identity and "no number is passed without a hand-over" — session-level invariant.
   One session of Session/Model.v, seen from both ends of its link:
   - sender side: every application (non-administrative) message in the store, in the send queue or written to the wire in
     this event carries a (number, type, body) triple that is registered (predicate R: "the application sent this body and it
     was given this number"); a replay keeps the number, type and body of the stored original; the store holds each entry
     under its own number, numbers strictly descending (latest first) and below the next sender number;
   - receiver side: every message kept in the recovery stash or buffered inbound satisfies P ("came off the link"), and every
     FromApp callback of this event was made for such a message (the callback log records mi_seq, mi_app and facts_of of it);
   - regime NR ("no sequence resets configured, no Logon with ResetSeqNumFlag=Y on the link"): no store reset happens and no
     Logon with 141=Y is written;
   - regime NS (NR, persistence on, inbound messages well formed: Pj): every message written has a number below the next
     sender number; a gap fill [b, e) covers only numbers under which no application message is stored; an administrative
     message other than a gap fill has a number under which no application message is stored; and on the receiving side
     the expected number advances, within the event, only over numbers that were handed to the application in this event
     or that the peer did not give to an application message (Skip), and stays within the peer's next sender number (bound);
   - n0 <= next sender number and the store only grows by numbers >= n0, unless the store was reset in this event.
   Same syntax-directed closure as FrameProofs.v / StoreProofs.v, one lemma per model function. *)
From Coq Require Import String.
From Coq Require Import ZArith List Bool Lia.
From QF Require Import Base.Bytes Session.Types Session.Model Session.Spec Session.FrameProofs Session.TjProofs
  Session.C01Proofs Session.LocalProofs Session.ResendProofs.
Import ListNotations.
Open Scope list_scope.
Open Scope Z_scope.

Definition nobus (r : rej) : Prop := match r with RMsg _ _ true => False | RRejectLogon => False | _ => True end.
(* rejects after which the expected number does not move *)
Definition noincr (r : rej) : Prop := match r with RMsg reason _ _ => reason = 9 \/ reason = 10 | RRejectLogon => False | _ => True end.

Definition Handed (k : Z) (cbs : list cb) : Prop := exists t v f, In (CbFromApp (FVal k) t v f) cbs.

(* no application message is stored under k, and k has been given out *)
Definition G (snd : Z) (msgs : list (Z * omsg)) (k : Z) : Prop :=
  k < snd /\ forall sm, In (k, sm) msgs -> is_admin (o_type sm) = true.

Definition msg_shape_ok (snd : Z) (msgs : list (Z * omsg)) (m : omsg) : Prop :=
  o_seq m < snd
  /\ (is_admin (o_type m) = true -> beq_bytes (o_type m) T_SEQRESET = false -> G snd msgs (o_seq m))
  /\ (beq_bytes (o_type m) T_SEQRESET = true ->
      field_of 123 (o_body m) = Some (B "Y")
      /\ exists e, field_of 36 (o_body m) = Some (itoa e) /\ e <= snd /\ forall k, o_seq m <= k < e -> G snd msgs k)
  /\ (beq_bytes (o_type m) T_RESENDREQ = true -> field_of 7 (o_body m) <> None /\ field_of 16 (o_body m) <> None).

(* the store grew: next number not smaller, new entries only at numbers from the old next number on *)
Definition Grows (snd : Z) (msgs : list (Z * omsg)) (snd' : Z) (msgs' : list (Z * omsg)) : Prop :=
  snd <= snd' /\ forall k sm, In (k, sm) msgs' -> In (k, sm) msgs \/ snd <= k.

Lemma grows_refl snd msgs : Grows snd msgs snd msgs.
Proof. split; [lia | intros k sm Hin; left; exact Hin]. Qed.
Lemma grows_trans a ma b mb c mc : Grows a ma b mb -> Grows b mb c mc -> Grows a ma c mc.
Proof.
  intros [A1 A2] [B1 B2]. split; [lia|]. intros k sm Hin. destruct (B2 k sm Hin) as [Hb|Hb]; [apply A2; exact Hb | right; lia].
Qed.

Lemma g_grow snd msgs snd' msgs' k : Grows snd msgs snd' msgs' -> G snd msgs k -> G snd' msgs' k.
Proof.
  intros [H1 H2] [G1 G2]. split; [lia|]. intros sm Hin. destruct (H2 k sm Hin) as [Ho|Ho]; [apply G2; exact Ho | lia].
Qed.
Lemma shape_grow snd msgs snd' msgs' m : Grows snd msgs snd' msgs' -> msg_shape_ok snd msgs m -> msg_shape_ok snd' msgs' m.
Proof.
  intros Hg (A1 & A2 & A3 & A4). pose proof Hg as [Hle _]. split; [lia|]. split; [|split; [|exact A4]].
  - intros Ha Hs. eapply g_grow; [exact Hg | apply A2; assumption].
  - intros Hs. destruct (A3 Hs) as (B1 & e & B2 & B3 & B4). split; [exact B1|]. exists e. split; [exact B2|]. split; [lia|].
    intros k Hk. eapply g_grow; [exact Hg | apply B4; exact Hk].
Qed.

Definition hdr_fine (m : minput) : Prop :=
  (exists a, mi_sender m = Some a /\ a <> []) /\ (exists b, mi_target m = Some b /\ b <> []).
(* what regime NS asks of an inbound message *)
Definition Pj (bound : Z) (Skip : Z -> Prop) (m : minput) : Prop :=
  hdr_fine m /\ mi_refuse m = []
  /\ exists n, mi_seq m = FVal n /\ n < bound
       /\ (is_admin (mi_type m) = true -> beq_bytes (mi_type m) T_SEQRESET = false -> Skip n)
       /\ (beq_bytes (mi_type m) T_SEQRESET = true ->
           mi_gapfill m = FVal true /\ exists e, mi_newseq m = FVal e /\ e <= bound /\ forall k, n <= k < e -> Skip k)
       /\ (beq_bytes (mi_type m) T_RESENDREQ = true -> (exists b, mi_beginseq m = FVal b) /\ exists e, mi_endseq m = FVal e).

Lemma is_admin_not_logon t : is_admin t = false -> beq_bytes t T_LOGON = false.
Proof. unfold is_admin. intros H. repeat (apply orb_false_elim in H as [H ?]). assumption. Qed.
Lemma is_admin_not_seqreset t : is_admin t = false -> beq_bytes t T_SEQRESET = false /\ beq_bytes t T_RESENDREQ = false.
Proof. unfold is_admin. intros H. repeat (apply orb_false_elim in H as [H ?]). split; assumption. Qed.

Lemma field_none_no_reset_y body : field_of 141 body = None -> body_has_reset_y body = false.
Proof.
  unfold field_of, body_has_reset_y. induction body as [|[t v] r IH]; cbn [find existsb fst snd]; [reflexivity|].
  destruct (t =? 141); [discriminate|]. cbn [andb orb]. exact IH.
Qed.

Lemma lookup_msg_in : forall k msgs m, lookup_msg k msgs = Some m -> In (k, m) msgs.
Proof.
  induction msgs as [|[k' m'] r IH]; intros m H; cbn [lookup_msg] in H; [discriminate|].
  destruct (Z.eqb_spec k' k) as [->|Hn]; [inversion H; left; reflexivity | right; apply IH; exact H].
Qed.

Lemma stash_take_in : forall k l m l', stash_take k l = Some (m, l') -> In (k, m) l /\ (forall e, In e l' -> In e l).
Proof.
  induction l as [|[k' x] r IH]; intros m l' H; cbn [stash_take] in H; [discriminate|].
  destruct (Z.eqb_spec k' k) as [->|Hn].
  - inversion H; subst. split; [left; reflexivity | intros e He; right; exact He].
  - destruct (stash_take k r) as [[y r']|] eqn:E; [|discriminate]. inversion H; subst.
    destruct (IH _ _ eq_refl) as [H1 H2]. split; [right; exact H1|].
    intros e [<-|He]; [left; reflexivity | right; apply H2; exact He].
Qed.

Lemma has_reset_in l : has_reset l = true <-> In CbStoreReset l.
Proof.
  unfold has_reset. rewrite existsb_exists. split.
  - intros (x & Hx & Hr). destruct x; try discriminate. exact Hx.
  - intros H. exists CbStoreReset. split; [exact H | reflexivity].
Qed.

Lemma handed_mono k l l' : (forall x, In x l -> In x l') -> Handed k l -> Handed k l'.
Proof. intros Hi (t & v & f & Hin). exists t, v, f. apply Hi; exact Hin. Qed.

Section Inv.
Variable c : cfg.
Variable R : Z -> bytes -> list (Z * bytes) -> Prop.
Variable P : minput -> Prop.
Variable NR : Prop.
Variable n0 : Z.
Variable msgs0 : list (Z * omsg).
Variable NS : Prop.
Variable t0 : Z.
Variable bound : Z.
Variable Skip : Z -> Prop.

Definition body_ok (n : Z) (t : bytes) (body : list (Z * bytes)) : Prop :=
  (is_admin t = false -> R n t body)
  /\ (NR -> beq_bytes t T_LOGON = true -> field_of 141 body = None)
  /\ (NS -> beq_bytes t T_SEQRESET = false
            /\ (beq_bytes t T_RESENDREQ = true -> field_of 7 body <> None /\ field_of 16 body <> None)).
Definition Wm (m : omsg) : Prop :=
  (is_admin (o_type m) = false -> R (o_seq m) (o_type m) (o_body m))
  /\ (NR -> beq_bytes (o_type m) T_LOGON = true -> field_of 141 (o_body m) = None).
Definition Wn (snd : Z) (msgs : list (Z * omsg)) (m : omsg) : Prop := Wm m /\ (NS -> msg_shape_ok snd msgs m).
(* an administrative message that is not a resetting Logon, not a SequenceReset, and if a ResendRequest carries its range *)
Definition abody_ok (t : bytes) (body : list (Z * bytes)) : Prop :=
  is_admin t = true /\ (NR -> beq_bytes t T_LOGON = true -> field_of 141 body = None)
  /\ beq_bytes t T_SEQRESET = false
  /\ (beq_bytes t T_RESENDREQ = true -> field_of 7 body <> None /\ field_of 16 body <> None).
(* the store: latest save first, strictly descending numbers below the next sender number, each entry under its own number *)
Fixpoint store_ok (snd : Z) (msgs : list (Z * omsg)) : Prop :=
  match msgs with
  | [] => True
  | (k, m) :: r => k = o_seq m /\ k < snd /\ (is_admin (o_type m) = false -> R k (o_type m) (o_body m)) /\ store_ok k r
  end.
Lemma store_ok_mono : forall msgs a b, store_ok a msgs -> a <= b -> store_ok b msgs.
Proof. destruct msgs as [|[k m] r]; intros a b H Hab; cbn in *; [exact I|]. destruct H as (A1&A2&A3&A4). repeat split; try assumption. lia. Qed.
Lemma store_ok_in : forall msgs snd k m, store_ok snd msgs -> In (k, m) msgs ->
  k = o_seq m /\ k < snd /\ (is_admin (o_type m) = false -> R k (o_type m) (o_body m)).
Proof.
  induction msgs as [|[k' m'] r IH]; intros snd k m H Hin; [destruct Hin|]. cbn [store_ok] in H. destruct H as (A1&A2&A3&A4).
  destruct Hin as [E|Hin]; [inversion E; subst; auto|].
  destruct (IH k' k m A4 Hin) as (B1&B2&B3). repeat split; try assumption. lia.
Qed.
Lemma store_ok_lookup : forall msgs snd k m, store_ok snd msgs -> In (k, m) msgs -> lookup_msg k msgs = Some m.
Proof.
  induction msgs as [|[k' m'] r IH]; intros snd k m H Hin; [destruct Hin|]. cbn [store_ok] in H. destruct H as (A1&A2&A3&A4).
  cbn [lookup_msg]. destruct Hin as [E|Hin]; [inversion E; subst; rewrite Z.eqb_refl; reflexivity|].
  destruct (store_ok_in _ _ _ _ A4 Hin) as (_&B2&_). destruct (Z.eqb_spec k' k) as [->|Hn]; [lia|]. eapply IH; eassumption.
Qed.
Lemma store_ok_unique msgs snd k m m' : store_ok snd msgs -> In (k, m) msgs -> In (k, m') msgs -> m = m'.
Proof. intros H H1 H2. pose proof (store_ok_lookup _ _ _ _ H H1) as E1. pose proof (store_ok_lookup _ _ _ _ H H2) as E2. congruence. Qed.

Hypothesis HP : forall m, P m -> mi_valid m = VAccept /\ mi_app m = VAccept /\ exists d, mi_stime m = FVal d.
Hypothesis HNRc : NR -> c_reset_on_logon c = false /\ c_reset_on_logout c = false /\ c_reset_on_disconnect c = false.
Hypothesis HNRp : NR -> forall m, P m -> beq_bytes (mi_type m) T_LOGON = true -> mi_reset m <> FVal true.
Hypothesis HNS : NS -> NR /\ c_disable_persist c = false.
Hypothesis HPj : NS -> forall m, P m -> Pj bound Skip m.

Definition cb_ok (x : cb) : Prop :=
  match x with
  | CbFromApp q t v f => exists m, P m /\ is_admin (mi_type m) = false /\ q = mi_seq m /\ v = mi_app m /\ f = facts_of m
  | CbStoreReset => ~ NR
  | _ => True
  end.
Fixpoint stash_ok (st : sstate) : Prop :=
  match st with
  | SResend (Some l) _ _ => forall k m, In (k, m) l -> P m
  | SPending i => stash_ok i
  | _ => True
  end.
Definition buf_ok (l : list (option minput)) : Prop := forall m, In (Some m) l -> P m.
Definition snd_ok (s : sess) : Prop :=
  In CbStoreReset (s_cbs s) \/ (n0 <= s_snd s /\ incl msgs0 (s_msgs s) /\ forall k sm, In (k, sm) (s_msgs s) -> In (k, sm) msgs0 \/ n0 <= k).
(* the expected number within the event *)
Definition Jt (tgt : Z) (cbs : list cb) : Prop :=
  t0 <= tgt /\ tgt <= bound /\ forall k, t0 <= k < tgt -> Handed k cbs \/ Skip k.

Definition SI (s : sess) : Prop :=
  s_cfg s = c /\ store_ok (s_snd s) (s_msgs s) /\ Forall (Wn (s_snd s) (s_msgs s)) (s_to_send s)
  /\ Forall (Wn (s_snd s) (s_msgs s)) (s_wire s) /\ stash_ok (s_st s)
  /\ buf_ok (s_in_buf s) /\ Forall cb_ok (s_cbs s) /\ snd_ok s /\ (NS -> Jt (s_tgt s) (s_cbs s)).

Lemma abody_body n t body : abody_ok t body -> body_ok n t body.
Proof. intros (Ha & Hl & Hs & Hr). split; [intros H; congruence|]. split; [exact Hl|]. intros _. split; assumption. Qed.
Lemma adm_abody t body : is_admin t = true -> beq_bytes t T_LOGON = false -> beq_bytes t T_SEQRESET = false ->
  beq_bytes t T_RESENDREQ = false -> abody_ok t body.
Proof. intros Ha Hl Hs Hr. split; [exact Ha|]. split; [intros _ H; congruence|]. split; [exact Hs | intros H; congruence]. Qed.

Lemma wn_grow snd msgs snd' msgs' m : (NS -> Grows snd msgs snd' msgs') -> Wn snd msgs m -> Wn snd' msgs' m.
Proof. intros Hg [A1 A2]. split; [exact A1|]. intros Hns. eapply shape_grow; [apply Hg; exact Hns | apply A2; exact Hns]. Qed.
Lemma wn_forall_grow snd msgs snd' msgs' l : (NS -> Grows snd msgs snd' msgs') -> Forall (Wn snd msgs) l -> Forall (Wn snd' msgs') l.
Proof. intros Hg. apply Forall_impl. intros m. apply wn_grow; exact Hg. Qed.

(* ---------- record updates ---------- *)
Ltac si_split := unfold SI, snd_ok; (split; [|split; [|split; [|split; [|split; [|split; [|split; [|split]]]]]]]).
Lemma si_upd_to_send s q : SI s -> Forall (Wn (s_snd s) (s_msgs s)) q -> SI (upd_to_send s q).
Proof. intros (H1&H2&H3&H4&H5&H6&H7&H8&H9) Hq. si_split; try assumption. Qed.
Lemma si_upd_tgt s b : SI s -> (NS -> Jt b (s_cbs s)) -> SI (upd_store s (s_snd s) b (s_msgs s)).
Proof. intros (H1&H2&H3&H4&H5&H6&H7&H8&H9) Hj. si_split; try assumption. Qed.
Lemma si_log s x : SI s -> cb_ok x -> SI (log_cb s x).
Proof.
  intros (H1&H2&H3&H4&H5&H6&H7&H8&H9) Hx. si_split; try assumption.
  - constructor; assumption.
  - destruct H8 as [H8|H8]; [left; right; exact H8 | right; exact H8].
  - intros Hns. destruct (H9 Hns) as (J1 & J2 & J3). split; [exact J1|]. split; [exact J2|].
    intros k Hk. destruct (J3 k Hk) as [Hh|Hs]; [left | right; exact Hs].
    eapply handed_mono; [|exact Hh]. intros y Hy. right. exact Hy.
Qed.
Lemma si_wire s w : SI s -> Forall (Wn (s_snd s) (s_msgs s)) w -> SI (upd_logs s (s_cbs s) w).
Proof. intros (H1&H2&H3&H4&H5&H6&H7&H8&H9) Hw. si_split; try assumption. Qed.
Lemma si_upd_st s x : SI s -> stash_ok x -> SI (upd_st s x).
Proof. intros (H1&H2&H3&H4&H5&H6&H7&H8&H9) Hx. si_split; try assumption. Qed.
Lemma si_upd_chan s a b buf d : SI s -> buf_ok buf -> SI (upd_chan s a b buf d).
Proof. intros (H1&H2&H3&H4&H5&H6&H7&H8&H9) Hx. si_split; try assumption. Qed.
Lemma si_upd_flags s a b d e : SI s -> SI (upd_flags s a b d e).
Proof. intros (H1&H2&H3&H4&H5&H6&H7&H8&H9). si_split; try assumption. Qed.

Lemma si_cfg s : SI s -> s_cfg s = c.
Proof. intros H; apply H. Qed.
Lemma si_stash s : SI s -> stash_ok (s_st s).
Proof. intros H; apply H. Qed.
Lemma si_store s : SI s -> store_ok (s_snd s) (s_msgs s).
Proof. intros H; apply H. Qed.
Lemma si_jt s : SI s -> NS -> Jt (s_tgt s) (s_cbs s).
Proof. intros H; apply H. Qed.
Lemma si_no_reset s : SI s -> NR -> ~ In CbStoreReset (s_cbs s).
Proof. intros (_&_&_&_&_&_&H7&_) Hnr Hin. exact (proj1 (Forall_forall _ _) H7 _ Hin Hnr). Qed.
Lemma si_rst_false s : SI s -> NR -> rst s = false.
Proof.
  intros H Hnr. unfold rst. destruct (has_reset (s_cbs s)) eqn:Er; [|reflexivity].
  apply has_reset_in in Er. exfalso. exact (si_no_reset s H Hnr Er).
Qed.
(* along the send path the expected number stays (no reset under NR) *)
Lemma tj_tgt s0 s : Tj s0 s -> SI s -> NR -> s_tgt s = s_tgt s0.
Proof. intros [_ [Hr|Ht]] H Hnr; [rewrite (si_rst_false s H Hnr) in Hr; discriminate | exact Ht]. Qed.

Lemma si_reset s : SI s -> ~ NR -> SI (store_reset s).
Proof.
  intros (H1&H2&H3&H4&H5&H6&H7&H8&H9) Hn.
  assert (Hns : ~ NS) by (intros Hns; apply Hn; apply (HNS Hns)).
  assert (Hw : forall l, Forall (Wn (s_snd s) (s_msgs s)) l -> Forall (Wn 1 []) l).
  { apply Forall_impl. intros m [A1 _]. split; [exact A1 | intros Hx; contradiction]. }
  unfold store_reset, log_cb, upd_logs, upd_store. si_split; cbn; try assumption.
  - exact I.
  - apply Hw; exact H3.
  - apply Hw; exact H4.
  - constructor; assumption.
  - left; left; reflexivity.
  - intros Hx; contradiction.
Qed.

Lemma si_incr s : SI s -> (NS -> s_tgt s + 1 <= bound /\ (Handed (s_tgt s) (s_cbs s) \/ Skip (s_tgt s))) -> SI (incr_tgt s).
Proof.
  intros H Hj. unfold incr_tgt. apply si_upd_tgt; [exact H|]. intros Hns. destruct (Hj Hns) as [B1 B2].
  destruct (si_jt s H Hns) as (J1 & J2 & J3). split; [lia|]. split; [exact B1|].
  intros k Hk. destruct (Z.eq_dec k (s_tgt s)) as [->|Hne]; [exact B2 | apply J3; lia].
Qed.
Lemma si_set_tgt s n : SI s -> (NS -> s_tgt s <= n /\ n <= bound /\ forall k, s_tgt s <= k < n -> Skip k) -> SI (set_tgt s n).
Proof.
  intros H Hj. unfold set_tgt. apply si_upd_tgt; [exact H|]. intros Hns. destruct (Hj Hns) as (B1 & B2 & B3).
  destruct (si_jt s H Hns) as (J1 & J2 & J3). split; [lia|]. split; [exact B2|].
  intros k Hk. destruct (Z.lt_ge_cases k (s_tgt s)) as [Hlt|Hge]; [apply J3; lia | right; apply B3; lia].
Qed.
Lemma si_set_sent_reset s b : SI s -> SI (set_sent_reset s b).
Proof. apply si_upd_flags. Qed.
Lemma si_set_hb s h : SI s -> SI (set_hb s h).
Proof. apply si_upd_flags. Qed.

(* saving a message under the next sender number *)
Lemma si_persist s m : SI s -> Wm m -> o_seq m = s_snd s ->
  (NS -> beq_bytes (o_type m) T_SEQRESET = false
         /\ (beq_bytes (o_type m) T_RESENDREQ = true -> field_of 7 (o_body m) <> None /\ field_of 16 (o_body m) <> None)) ->
  SI (persist s m) /\ Wn (s_snd (persist s m)) (s_msgs (persist s m)) m.
Proof.
  intros H Hm Hq Hsh. destruct H as (H1&H2&H3&H4&H5&H6&H7&H8&H9).
  assert (Hold : store_ok (s_snd s + 1) (s_msgs s)) by (apply (store_ok_mono _ _ _ H2); lia).
  assert (Hnokey : forall sm, ~ In (s_snd s, sm) (s_msgs s)).
  { intros sm Hin. destruct (store_ok_in _ _ _ _ H2 Hin) as (_ & Hlt & _). lia. }
  unfold persist. destruct (c_disable_persist (s_cfg s)) eqn:Hp.
  - assert (Hns : ~ NS) by (intros Hns; destruct (HNS Hns) as [_ Hx]; rewrite H1 in Hp; congruence).
    assert (Hw : forall l, Forall (Wn (s_snd s) (s_msgs s)) l -> Forall (Wn (s_snd s + 1) (s_msgs s)) l).
    { intros l. apply wn_forall_grow. intros Hx; contradiction. }
    split; [|split; [exact Hm | intros Hx; contradiction]].
    unfold upd_store. si_split; cbn; try assumption; try (apply Hw; assumption).
    + destruct H8 as [H8|(A1 & A2 & A3)]; [left; exact H8 | right]. split; [lia|]. split; assumption.
  - assert (Hg : Grows (s_snd s) (s_msgs s) (s_snd s + 1) ((o_seq m, m) :: s_msgs s)).
    { split; [lia|]. intros k sm [E|Hin]; [inversion E; subst; right; lia | left; exact Hin]. }
    assert (Hw : forall l, Forall (Wn (s_snd s) (s_msgs s)) l -> Forall (Wn (s_snd s + 1) ((o_seq m, m) :: s_msgs s)) l).
    { intros l. apply wn_forall_grow. intros _. exact Hg. }
    split.
    + unfold upd_store. si_split; cbn; try assumption; try (apply Hw; assumption).
      * rewrite Hq. split; [reflexivity|]. split; [lia|]. split; [rewrite <- Hq; apply Hm | exact H2].
      * destruct H8 as [H8|(A1 & A2 & A3)]; [left; exact H8 | right]. split; [lia|]. split; [intros z Hz; right; apply A2; exact Hz|].
        intros k sm [E|Hin]; [inversion E; subst; right; lia | apply A3; exact Hin].
    + split; [exact Hm|]. intros Hns. destruct (Hsh Hns) as [S1 S2]. cbn [s_snd s_msgs upd_store].
      split; [lia|]. split; [|split; [intros Hx; congruence | exact S2]].
      intros Ha _. split; [lia|]. intros sm [E|Hin]; [inversion E; subst; exact Ha | rewrite Hq in Hin; exfalso; exact (Hnokey sm Hin)].
Qed.

Lemma si_enqueue s m : SI s -> Wn (s_snd s) (s_msgs s) m -> SI (enqueue s m).
Proof.
  intros H Hm. unfold enqueue. apply si_upd_to_send; [exact H|]. apply Forall_app. split; [apply H | constructor; [exact Hm | constructor]].
Qed.
Lemma si_drop_queued s : SI s -> SI (drop_queued s).
Proof. intros H. unfold drop_queued. apply si_upd_to_send; [exact H | constructor]. Qed.
Lemma si_send_queued s : SI s -> SI (send_queued s).
Proof.
  intros H. unfold send_queued. destruct (s_out_open s); [|exact H].
  apply si_upd_to_send; [|constructor]. apply si_wire; [exact H|].
  apply Forall_app. split; [apply Forall_rev; apply H | apply H].
Qed.

(* ---------- send path ---------- *)
Lemma si_prep s t hdr body ir ok s1 r : prep s t hdr body ir ok = (s1, r) -> SI s ->
  (ok = true \/ is_admin t = true -> body_ok (s_snd s) t body) ->
  SI s1 /\ (forall m, r = Some m -> Wn (s_snd s1) (s_msgs s1) m).
Proof.
  intros E H Hb. unfold prep in E. destruct (is_admin t) eqn:Ha.
  - destruct (Hb (or_intror eq_refl)) as (_ & Hl & Hsh).
    match type of E with (persist ?x ?m, _) = _ =>
      assert (Hx : SI x);
      [| assert (Hm : Wm m) by (split; [cbn [o_type]; intros Hc; congruence | exact Hl]);
         destruct (si_persist x m Hx Hm eq_refl Hsh) as [Hp Hw];
         inv E; split; [exact Hp | intros m0 E0; inv E0; exact Hw] ] end.
    destruct (beq_bytes t T_LOGON && body_has_reset_y body) eqn:Er; [|apply si_log; [exact H | exact I]].
    apply si_set_sent_reset, si_reset; [apply si_log; [exact H | exact I]|].
    intros Hnr. apply andb_true_iff in Er as [E1 E2]. rewrite (field_none_no_reset_y body (Hl Hnr E1)) in E2. discriminate.
  - assert (H1 : SI (log_cb s (CbToApp (s_snd s) false))) by (apply si_log; [exact H | exact I]).
    destruct ok.
    + destruct (Hb (or_introl eq_refl)) as (Hr & Hl & Hsh).
      match type of E with (persist ?x ?m, _) = _ =>
        assert (Hm : Wm m) by (split; [cbn [o_type o_seq o_body]; exact Hr | exact Hl]);
        destruct (si_persist x m H1 Hm eq_refl Hsh) as [Hp Hw] end.
      inv E. split; [exact Hp | intros m0 E0; inv E0; exact Hw].
    + inv E. split; [exact H1 | intros m0 E0; discriminate].
Qed.

Lemma si_queue_for_send s t hdr body ir ok : SI s -> (ok = true \/ is_admin t = true -> body_ok (s_snd s) t body) ->
  SI (queue_for_send s t hdr body ir ok).
Proof.
  intros H Hb. unfold queue_for_send. destruct (prep s t hdr body ir ok) as [s1 [m|]] eqn:E;
    destruct (si_prep _ _ _ _ _ _ _ _ E H Hb) as [H1 Hm]; [apply si_enqueue; [exact H1 | apply Hm; reflexivity] | exact H1].
Qed.
Lemma si_enqueue_bytes s m : SI s -> Wn (s_snd s) (s_msgs s) m -> SI (enqueue_bytes_and_send s m).
Proof.
  intros H Hm. unfold enqueue_bytes_and_send. apply si_send_queued, si_enqueue.
  - destruct (is_logged_on (s_st s)); [exact H | apply si_drop_queued; exact H].
  - destruct (is_logged_on (s_st s)); exact Hm.
Qed.
Lemma si_send_in_reply_to s t hdr body ir : SI s -> abody_ok t body -> SI (send_in_reply_to s t hdr body ir).
Proof.
  intros H Hb. unfold send_in_reply_to. destruct (negb (is_logged_on (s_st s))).
  - apply si_queue_for_send; [exact H | intros _; apply abody_body; exact Hb].
  - destruct (prep s t hdr body ir true) as [s1 [m|]] eqn:E;
      destruct (si_prep _ _ _ _ _ _ _ _ E H (fun _ => abody_body _ _ _ Hb)) as [H1 Hm]; [|exact H1].
    apply si_send_queued, si_enqueue; [exact H1 | apply Hm; reflexivity].
Qed.
Lemma si_send s t body : SI s -> abody_ok t body -> SI (send s t body).
Proof. apply si_send_in_reply_to. Qed.
Lemma si_drop_and_send s t body ir : SI s -> abody_ok t body -> SI (drop_and_send_in_reply_to s t body ir).
Proof.
  intros H Hb. unfold drop_and_send_in_reply_to.
  destruct (prep s t [] body ir true) as [s1 [m|]] eqn:E;
    destruct (si_prep _ _ _ _ _ _ _ _ E H (fun _ => abody_body _ _ _ Hb)) as [H1 Hm]; [|exact H1].
  apply si_send_queued, si_enqueue; [apply si_drop_queued; exact H1 | apply Hm; reflexivity].
Qed.
Lemma si_drop_and_reset s : SI s -> ~ NR -> SI (drop_and_reset s).
Proof. intros H Hn. unfold drop_and_reset. apply si_reset; [apply si_drop_queued; exact H | exact Hn]. Qed.

Lemma logon_body_no_reset s : field_of 141 (logon_body s false) = None.
Proof. unfold logon_body, field_of. destruct (Nat.ltb 0 (length (c_appl_ver (s_cfg s)))); reflexivity. Qed.

Lemma si_send_logon s flag ir : SI s -> (NR -> flag = false) -> SI (send_logon_in_reply_to s flag ir).
Proof.
  intros H Hf. unfold send_logon_in_reply_to. apply si_drop_and_send; [exact H|].
  split; [reflexivity|]. split; [|split; [reflexivity | intros Hx; discriminate]].
  intros Hnr _. rewrite (Hf Hnr). apply logon_body_no_reset.
Qed.
Lemma si_send_logout s ir : SI s -> SI (send_logout_in_reply_to s ir).
Proof. intros H. unfold send_logout_in_reply_to. apply si_send_in_reply_to; [exact H | apply adm_abody; reflexivity]. Qed.
Lemma si_initiate_logout s ir : SI s -> SI (initiate_logout_in_reply_to s ir).
Proof. apply si_send_logout. Qed.

Lemma si_do_reject s m r : SI s -> nobus r -> SI (do_reject s m r).
Proof.
  intros H Hr. unfold do_reject.
  destruct r as [a b|a b| | |reason ref_tag business]; try contradiction; try (destruct business; [contradiction Hr|]);
    destruct (2 <=? c_begin (s_cfg s)); apply si_send_in_reply_to; try exact H; apply adm_abody; reflexivity.
Qed.

Lemma si_send_resend_request s b e s1 st : send_resend_request s b e = (s1, st) -> SI s -> SI s1 /\ stash_ok st.
Proof.
  intros E H. unfold send_resend_request in E.
  brk_in E; inv E; (split; [apply si_send; [exact H|] | cbn; intros k m []]);
    (split; [reflexivity|]; split; [intros _ Hx; discriminate|]; split; [reflexivity|]; intros _; split; discriminate).
Qed.
Lemma si_do_target_too_high s a b s1 st : do_target_too_high s a b = (s1, st) -> SI s -> SI s1 /\ stash_ok st.
Proof. unfold do_target_too_high. apply si_send_resend_request. Qed.

(* ---------- gap fills and replays ---------- *)
Lemma eb_store s m : s_snd (enqueue_bytes_and_send s m) = s_snd s /\ s_msgs (enqueue_bytes_and_send s m) = s_msgs s.
Proof.
  unfold enqueue_bytes_and_send, send_queued, enqueue, drop_queued.
  destruct (is_logged_on (s_st s)); cbn [s_out_open upd_to_send]; destruct (s_out_open s); split; reflexivity.
Qed.
Lemma gsr_store s b e ir : s_snd (generate_sequence_reset s b e ir) = s_snd s /\ s_msgs (generate_sequence_reset s b e ir) = s_msgs s.
Proof. unfold generate_sequence_reset. apply (eb_store (log_cb s (CbToAdmin T_SEQRESET))). Qed.

Lemma si_generate_sequence_reset s b e ir : SI s ->
  (NS -> b < s_snd s /\ e <= s_snd s /\ forall k, b <= k < e -> G (s_snd s) (s_msgs s) k) ->
  SI (generate_sequence_reset s b e ir).
Proof.
  intros H Hg. unfold generate_sequence_reset. apply si_enqueue_bytes; [apply si_log; [exact H | exact I]|].
  split; [split; cbn [o_type]; intros; discriminate|].
  intros Hns. destruct (Hg Hns) as (G1 & G2 & G3). cbn [s_snd s_msgs log_cb upd_logs].
  split; [exact G1|]. split; [cbn [o_type]; intros _ Hx; discriminate|]. split; [|cbn [o_type]; intros Hx; discriminate].
  intros _. split; [reflexivity|]. exists e. split; [reflexivity|]. split; [exact G2 | exact G3].
Qed.

Lemma unstored_g snd msgs j : j < snd -> lookup_msg j msgs = None -> G snd msgs j.
Proof.
  intros Hj Hl. split; [exact Hj|]. intros sm Hin. exfalso.
  assert (Hne : lookup_msg j msgs <> None) by (apply lookup_none_iff; apply (in_map fst) in Hin; exact Hin).
  exact (Hne Hl).
Qed.

Lemma si_resend_loop : forall keys s ir e a nx s1 x y,
  resend_loop keys s ir a nx = (s1, x, y) -> SI s -> P ir ->
  (NS -> a <= nx /\ nx <= e + 1 /\ e < s_snd s /\ (forall j, a <= j < nx -> G (s_snd s) (s_msgs s) j) /\ inc keys
         /\ (forall k, In k keys -> nx <= k <= e /\ lookup_msg k (s_msgs s) <> None)
         /\ (forall j, nx <= j <= e -> ~ In j keys -> lookup_msg j (s_msgs s) = None)) ->
  SI s1 /\ s_snd s1 = s_snd s /\ s_msgs s1 = s_msgs s
  /\ (NS -> x <= y /\ y <= e + 1 /\ forall j, x <= j < y -> G (s_snd s) (s_msgs s) j).
Proof.
  induction keys as [|k r IH]; intros s ir e a nx s1 x y E H Hir Hinv; cbn [resend_loop] in E.
  - inv E. split; [exact H|]. split; [reflexivity|]. split; [reflexivity|].
    intros Hns. destruct (Hinv Hns) as (I1 & I2 & _ & I4 & _). split; [exact I1|]. split; [exact I2 | exact I4].
  - (* facts available in regime NS about this key *)
    assert (Hk : NS -> nx <= k <= e /\ e < s_snd s /\ a <= nx
                 /\ (forall j, a <= j < k -> G (s_snd s) (s_msgs s) j)
                 /\ inc r /\ (forall k0, In k0 r -> k + 1 <= k0 <= e /\ lookup_msg k0 (s_msgs s) <> None)
                 /\ (forall j, k + 1 <= j <= e -> ~ In j r -> lookup_msg j (s_msgs s) = None)).
    { intros Hns. destruct (Hinv Hns) as (I1 & I2 & I3 & I4 & I5 & I6 & I7).
      inversion I5 as [|k' r' Hlt Hr]; subst k' r'. destruct (I6 k (or_introl eq_refl)) as [K1 _].
      split; [exact K1|]. split; [exact I3|]. split; [exact I1|]. split; [|split; [exact Hr|split]].
      - intros j Hj. destruct (Z.lt_ge_cases j nx) as [Hlo|Hhi]; [apply I4; lia|].
        apply unstored_g; [lia|]. apply I7; [lia|]. intros [->|Hin]; [lia | specialize (Hlt j Hin); lia].
      - intros k0 H0. specialize (Hlt k0 H0). destruct (I6 k0 (or_intror H0)) as [K2 K3]. split; [lia | exact K3].
      - intros j Hj Hn. apply I7; [lia|]. intros [->|Hin]; [lia | exact (Hn Hin)]. }
    destruct (lookup_msg k (s_msgs s)) as [sm|] eqn:El.
    2:{ (* not stored: cannot happen for a key under NS, harmless otherwise *)
        eapply IH; [exact E | exact H | exact Hir|]. intros Hns. exfalso. destruct (Hinv Hns) as (_ & _ & _ & _ & _ & I6 & _).
        destruct (I6 k (or_introl eq_refl)) as [_ K]. apply K. exact El. }
    pose proof (lookup_msg_in _ _ _ El) as Hin.
    assert (Hgk : is_admin (o_type sm) = true -> NS -> forall j, a <= j < k + 1 -> G (s_snd s) (s_msgs s) j).
    { intros Ha Hns j Hj. destruct (Hk Hns) as (K1 & K2 & K3 & K4 & _). destruct (Z.eq_dec j k) as [->|Hne]; [|apply K4; lia].
      split; [lia|]. intros sm' Hin'. rewrite (store_ok_unique _ _ _ _ _ (si_store s H) Hin' Hin). exact Ha. }
    destruct (is_admin (o_type sm)) eqn:Ea.
    { (* administrative: skipped, the pending gap grows *)
      eapply IH; [exact E | exact H | exact Hir|]. intros Hns. destruct (Hk Hns) as (K1 & K2 & K3 & K4 & K5 & K6 & K7).
      split; [lia|]. split; [lia|]. split; [exact K2|]. split; [apply Hgk; [reflexivity | exact Hns]|]. split; [exact K5|]. split; assumption. }
    assert (H1 : SI (log_cb s (CbToApp k true))) by (apply si_log; [exact H | exact I]).
    destruct (existsb (Z.eqb k) (mi_refuse ir)) eqn:Eref.
    { (* declined by ToApp: cannot happen under NS (nothing is declined) *)
      destruct (IH _ _ e _ _ _ _ _ E H1 Hir) as (R1 & R2 & R3 & R4).
      { intros Hns. exfalso. destruct (HPj Hns ir Hir) as (_ & Hrf & _). rewrite Hrf in Eref. discriminate. }
      split; [exact R1|]. split; [exact R2|]. split; [exact R3|].
      intros Hns. exfalso. destruct (HPj Hns ir Hir) as (_ & Hrf & _). rewrite Hrf in Eref. discriminate. }
    (* replayed, after a gap fill over [a, k) when a < k *)
    set (s2 := if a =? k then log_cb s (CbToApp k true) else generate_sequence_reset (log_cb s (CbToApp k true)) a k ir) in E.
    assert (H2 : SI s2 /\ s_snd s2 = s_snd s /\ s_msgs s2 = s_msgs s).
    { unfold s2. destruct (Z.eqb_spec a k) as [Hak|Hak]; [split; [exact H1 | split; reflexivity]|].
      split; [|apply (gsr_store (log_cb s (CbToApp k true)))].
      apply si_generate_sequence_reset; [exact H1|]. intros Hns. destruct (Hk Hns) as (K1 & K2 & K3 & K4 & _).
      cbn [s_snd s_msgs log_cb upd_logs]. split; [lia|]. split; [lia | exact K4]. }
    destruct H2 as (H2 & S2 & M2).
    match type of E with resend_loop r (enqueue_bytes_and_send s2 ?m) _ _ _ = _ => set (mm := m) in E end.
    assert (Hmm : Wn (s_snd s2) (s_msgs s2) mm).
    { destruct (store_ok_in _ _ _ _ (si_store s H) Hin) as (_ & Hlt & Hr). destruct (is_admin_not_seqreset _ Ea) as [Q1 Q2].
      unfold Wn, Wm, msg_shape_ok; change (o_type mm) with (o_type sm); change (o_seq mm) with k; change (o_body mm) with (o_body sm);
      split; [split; [intros _; apply Hr; exact Ea | intros _ Hl; rewrite (is_admin_not_logon _ Ea) in Hl; discriminate]|].
      intros _. rewrite S2.
      split; [exact Hlt|]. split; [intros Hx; congruence|]. split; intros Hx; congruence. }
    destruct (eb_store s2 mm) as [S3 M3].
    destruct (IH _ _ e _ _ _ _ _ E (si_enqueue_bytes s2 mm H2 Hmm) Hir) as (R1 & R2 & R3 & R4).
    { intros Hns. destruct (Hk Hns) as (K1 & K2 & K3 & K4 & K5 & K6 & K7). rewrite S3, M3, S2, M2.
      split; [lia|]. split; [lia|]. split; [exact K2|]. split; [intros j Hj; lia|]. split; [exact K5|]. split; assumption. }
    split; [exact R1|]. split; [rewrite R2, S3; exact S2|]. split; [rewrite R3, M3; exact M2|].
    intros Hns. destruct (R4 Hns) as (Q1 & Q2 & Q3). rewrite S3, M3, S2, M2 in Q3. split; [exact Q1|]. split; [exact Q2 | exact Q3].
Qed.

Lemma si_resend_messages s b e ir : SI s -> P ir -> (NS -> e < s_snd s) -> SI (resend_messages s b e ir).
Proof.
  intros H Hir He. destruct (c_disable_persist (s_cfg s)) eqn:Hp.
  - assert (Hns : ~ NS) by (intros Hns; destruct (HNS Hns) as [_ Hx]; rewrite (si_cfg s H) in Hp; congruence).
    unfold resend_messages. rewrite Hp.
    destruct (e <? b); [exact H | apply si_generate_sequence_reset; [exact H | intros Hx; contradiction]].
  - destruct (Z.ltb_spec e b) as [Hlt|Hge]; [rewrite (resend_messages_empty_range s b e ir Hp Hlt); exact H|].
    unfold resend_messages. rewrite Hp.
    destruct (stored_keys_in_spec b e (s_msgs s)) as [Hinc Hkeys].
    destruct (resend_loop (stored_keys_in b e (s_msgs s)) s ir b b) as [[s1 x] y] eqn:E.
    destruct (si_resend_loop _ _ _ e _ _ _ _ _ E H Hir) as (R1 & R2 & R3 & R4).
    { intros Hns. split; [lia|]. split; [lia|]. split; [apply He; exact Hns|]. split; [intros j Hj; lia|]. split; [exact Hinc|]. split.
      - intros k Hk. apply Hkeys in Hk. exact Hk.
      - intros j Hj Hn. destruct (lookup_msg j (s_msgs s)) eqn:El; [|reflexivity].
        exfalso. apply Hn. apply Hkeys. split; [exact Hj | rewrite El; discriminate]. }
    destruct (Z.eqb_spec x y) as [Hxy|Hxy]; [exact R1|].
    apply si_generate_sequence_reset; [exact R1|]. intros Hns. destruct (R4 Hns) as (Q1 & Q2 & Q3). specialize (He Hns).
    rewrite R2, R3. split; [lia|]. split; [lia | exact Q3].
Qed.

(* ---------- verification ---------- *)
Lemma si_verify_app s m s1 r : verify_msg_against_app_impl s m = (s1, r) -> SI s -> P m ->
  SI s1 /\ r = None /\ s_tgt s1 = s_tgt s
  /\ (is_admin (mi_type m) = false -> In (CbFromApp (mi_seq m) (s_tgt s) (mi_app m) (facts_of m)) (s_cbs s1)).
Proof.
  intros E H Hm. destruct (HP m Hm) as (Hv & Ha & _). unfold verify_msg_against_app_impl in E.
  rewrite Hv, Ha in E. cbn [rej_of_verdict] in E. destruct (is_admin (mi_type m)) eqn:Et; inv E;
    (split; [|split; [reflexivity | split; [reflexivity|]]]).
  - apply si_log; [exact H | exact I].
  - intros Hx; discriminate.
  - apply si_log; [exact H|]. exists m. rewrite Ha. repeat split; assumption.
  - intros _. rewrite Ha. left. reflexivity.
Qed.

Lemma si_verify_select s m a b d s1 r : verify_select s m a b d = (s1, r) -> SI s -> P m ->
  SI s1 /\ (forall x, r = Some x -> nobus x /\ (NS -> noincr x)) /\ s_tgt s1 = s_tgt s
  /\ (r = None -> (b = true -> check_target_too_low s m = None) /\ (a = true -> check_target_too_high s m = None)
                  /\ (d = true -> is_admin (mi_type m) = false -> In (CbFromApp (mi_seq m) (s_tgt s) (mi_app m) (facts_of m)) (s_cbs s1))).
Proof.
  intros E H Hm. unfold verify_select in E.
  assert (Hfail : forall x, nobus x -> (NS -> noincr x) ->
            SI s /\ (forall y, Some x = Some y -> nobus y /\ (NS -> noincr y)) /\ s_tgt s = s_tgt s
            /\ (Some x = None -> (b = true -> check_target_too_low s m = None) /\ (a = true -> check_target_too_high s m = None)
                  /\ (d = true -> is_admin (mi_type m) = false -> In (CbFromApp (mi_seq m) (s_tgt s) (mi_app m) (facts_of m)) (s_cbs s)))).
  { intros x X1 X2. split; [exact H|]. split; [intros y Ey; inv Ey; split; assumption|]. split; [reflexivity | intros Hx; discriminate]. }
  destruct (check_begin_string s m) as [x|] eqn:E1.
  { inv E. apply Hfail; unfold check_begin_string in E1; destruct (beq_bytes _ _); inv E1; [exact I | intros _; exact I]. }
  destruct (check_comp_id s m) as [x|] eqn:E2.
  { inv E. apply Hfail.
    - unfold check_comp_id in E2. brk_in E2; inv E2; exact I.
    - intros Hns. destruct (HPj Hns m Hm) as (((sa & Es & Hsa) & (ta & Et & Hta)) & _). unfold check_comp_id in E2. rewrite Es, Et in E2.
      destruct ta as [|t1 ta]; [contradiction|]. destruct sa as [|s1' sa]; [contradiction|]. cbn [length Nat.eqb] in E2.
      destruct (_ && _); inv E2. left; reflexivity. }
  match type of E with match ?t with _ => _ end = _ => destruct t as [x|] eqn:E3 end.
  { inv E. apply Hfail.
    - unfold check_sending_time in E3. brk_in E3; inv E3; exact I.
    - intros _. destruct (HP m Hm) as (_ & _ & dd & Hd). unfold check_sending_time in E3. rewrite Hd in E3. brk_in E3; inv E3; right; reflexivity. }
  match type of E with match ?t with _ => _ end = _ => destruct t as [x|] eqn:E4 end.
  { inv E. apply Hfail.
    - unfold check_target_too_low in E4. brk_in E4; inv E4; exact I.
    - intros Hns. destruct (HPj Hns m Hm) as (_ & _ & n & Hn & _). unfold check_target_too_low in E4. rewrite Hn in E4. brk_in E4; inv E4; exact I. }
  match type of E with match ?t with _ => _ end = _ => destruct t as [x|] eqn:E5 end.
  { inv E. apply Hfail.
    - unfold check_target_too_high in E5. brk_in E5; inv E5; exact I.
    - intros Hns. destruct (HPj Hns m Hm) as (_ & _ & n & Hn & _). unfold check_target_too_high in E5. rewrite Hn in E5. brk_in E5; inv E5; exact I. }
  assert (Hlo : b = true -> check_target_too_low s m = None) by (intros ->; exact E4).
  assert (Hhi : a = true -> check_target_too_high s m = None) by (intros ->; exact E5).
  destruct d.
  - destruct (si_verify_app _ _ _ _ E H Hm) as (H1 & -> & Ht & Hcb). split; [exact H1|]. split; [intros y Ey; discriminate|].
    split; [exact Ht|]. intros _. split; [exact Hlo|]. split; [exact Hhi | intros _; exact Hcb].
  - inv E. split; [exact H|]. split; [intros y Ey; discriminate|]. split; [reflexivity|]. intros _.
    split; [exact Hlo|]. split; [exact Hhi | intros Hx; discriminate].
Qed.

Lemma seq_eq s s' m : check_target_too_low s m = None -> check_target_too_high s' m = None -> s_tgt s' = s_tgt s ->
  mi_seq m = FVal (s_tgt s).
Proof.
  unfold check_target_too_low, check_target_too_high. intros Hl Hh Ht. rewrite Ht in Hh.
  destruct (mi_seq m) as [| |n]; try discriminate.
  destruct (Z.ltb_spec n (s_tgt s)); [discriminate|]. destruct (Z.ltb_spec (s_tgt s) n); [discriminate|]. f_equal. lia.
Qed.

(* the expected number moves past the number of m: m is an administrative message (not a gap fill) or was just handed over *)
Lemma si_incr_msg s m : SI s -> P m ->
  (NS -> mi_seq m = FVal (s_tgt s)
         /\ ((is_admin (mi_type m) = true /\ beq_bytes (mi_type m) T_SEQRESET = false) \/ Handed (s_tgt s) (s_cbs s))) ->
  SI (incr_tgt s).
Proof.
  intros H Hm Hj. apply si_incr; [exact H|]. intros Hns. destruct (Hj Hns) as [Hq Hw].
  destruct (HPj Hns m Hm) as (_ & _ & n & Hn & Hb & Hadm & _). rewrite Hq in Hn. inversion Hn; subst n.
  split; [lia|]. destruct Hw as [[W1 W2]|W]; [right; apply Hadm; assumption | left; exact W].
Qed.

Lemma type_facts m t : beq_bytes (mi_type m) t = true -> is_admin t = true -> beq_bytes t T_SEQRESET = false ->
  is_admin (mi_type m) = true /\ beq_bytes (mi_type m) T_SEQRESET = false.
Proof. intros Hb Ha Hs. apply beq_bytes_true in Hb. rewrite Hb. split; assumption. Qed.

Lemma si_do_target_too_low s m s1 st : do_target_too_low s m = (s1, st) -> SI s -> P m -> SI s1 /\ stash_ok st.
Proof.
  intros E H Hm. destruct (HP m Hm) as (_ & _ & d & Hd). unfold do_target_too_low in E. rewrite Hd in E.
  brk_in E; inv E; (split; [|exact I]); try exact H;
    repeat first [apply si_initiate_logout | apply si_do_reject; [|exact I]]; exact H.
Qed.

Lemma stash_ok_unwrap st : stash_ok st -> stash_ok (unwrap_pending st).
Proof. induction st; cbn; auto. Qed.

Lemma si_process_reject s m r s1 st : process_reject s m r = (s1, st) -> SI s -> P m -> nobus r -> (NS -> noincr r) ->
  SI s1 /\ stash_ok st.
Proof.
  intros E H Hm Hr Hni. unfold process_reject in E. destruct r as [recv ex|recv ex| | |reason ref_tag business].
  - assert (Hx : exists s2 nx, (match unwrap_pending (s_st s) with SResend st0 c0 e0 => (s, SResend st0 c0 e0) | _ => do_target_too_high s recv ex end) = (s2, nx)
                   /\ SI s2 /\ stash_ok nx).
    { pose proof (stash_ok_unwrap _ (si_stash _ H)) as Hu.
      destruct (unwrap_pending (s_st s)) eqn:Eu;
        try (destruct (do_target_too_high s recv ex) as [s2 nx] eqn:Eh; exists s2, nx; split; [reflexivity|]; eapply si_do_target_too_high; eassumption).
      eexists; eexists; split; [reflexivity|]. split; [exact H | exact Hu]. }
    destruct Hx as (s2 & nx & Ex & H2 & Hn). rewrite Ex in E.
    destruct nx as [| | | | |stash0 c0 e0|i]; inv E; try (split; [exact H2 | exact Hn]).
    split; [exact H2|]. cbn [stash_ok]. unfold stash_insert. intros k x [Ek|Hin]; [inv Ek; exact Hm|].
    apply filter_In in Hin as [Hin _]. destruct stash0 as [l|]; [exact (Hn k x Hin) | destruct Hin].
  - eapply si_do_target_too_low; eassumption.
  - inv E. split; [apply si_initiate_logout; exact H | exact I].
  - contradiction.
  - destruct ((reason =? 9) || (reason =? 10)) eqn:Er; inv E; (split; [|exact I]).
    + apply si_initiate_logout, si_do_reject; assumption.
    + apply si_incr; [apply si_do_reject; assumption|]. intros Hns. exfalso.
      destruct (Hni Hns) as [->| ->]; discriminate.
Qed.

(* ---------- handlers ---------- *)
Lemma reset_store_false s m : NR -> s_cfg s = c -> P m -> beq_bytes (mi_type m) T_LOGON = true ->
  forall sr, (if initiator s then false else c_reset_on_logon (s_cfg s)) || ((match mi_reset m with FVal true => true | _ => false end) && sr) = false.
Proof.
  intros Hnr Hc Hm Ht sr. destruct (HNRc Hnr) as (C1 & _ & _). rewrite Hc, C1.
  pose proof (HNRp Hnr m Hm Ht) as Hrs.
  destruct (mi_reset m) as [| |[|]]; try (destruct (initiator s); reflexivity). exfalso; apply Hrs; reflexivity.
Qed.

Lemma si_handle_logon s m s1 r : handle_logon s m = (s1, r) -> SI s -> P m -> beq_bytes (mi_type m) T_LOGON = true ->
  SI s1 /\ r <> Some RRejectLogon.
Proof.
  intros E H Hm Ht. unfold handle_logon in E.
  match type of E with match ?t with _ => _ end = _ => destruct t as [x|] eqn:Ev end.
  { inv E. split; [exact H|]. brk_in Ev; inv Ev. discriminate. }
  destruct (verify_msg_against_app_impl s m) as [sa ra] eqn:Ea.
  destruct (si_verify_app _ _ _ _ Ea H Hm) as (Ha & -> & _ & _).
  set (flag := match mi_reset m with FVal true => true | _ => false end) in E.
  assert (Hflag : NR -> flag = false).
  { intros Hnr. unfold flag. pose proof (HNRp Hnr m Hm Ht) as Hrs. destruct (mi_reset m) as [| |[|]]; try reflexivity. exfalso; apply Hrs; reflexivity. }
  match type of E with context [if ?b then drop_and_reset sa else sa] =>
    assert (H2 : SI (if b then drop_and_reset sa else sa)); [destruct b eqn:Eb; [|exact Ha] | set (s2 := if b then drop_and_reset sa else sa) in * ] end.
  { apply si_drop_and_reset; [exact Ha|]. intros Hnr.
    rewrite (reset_store_false s m Hnr (si_cfg _ H) Hm Ht) in Eb. discriminate. }
  destruct (verify_select s2 m false true false) as [s3 r3] eqn:E3.
  destruct (si_verify_select _ _ _ _ _ _ _ E3 H2 Hm) as (H3 & Hr3 & Ht3 & Hn3).
  destruct r3 as [x|].
  { inv E. split; [exact H3|]. intros Hx. inv Hx. destruct (Hr3 _ eq_refl) as [Hb _]. exact Hb. }
  destruct (Hn3 eq_refl) as (Hlow & _ & _). specialize (Hlow eq_refl).
  match type of E with context [log_cb (set_sent_reset ?x false) CbOnLogon] => assert (H4 : SI x /\ Tj s3 x); [|set (s4 := x) in *] end.
  { destruct (initiator s3); [split; [exact H3 | apply tj_refl]|]. split.
    - apply si_send_logon; [|exact Hflag].
      destruct (c_hb_override _); [exact H3|]. destruct (mi_hbint m); exact H3.
    - apply tj_send_logon. destruct (c_hb_override _); [apply tj_refl|]. destruct (mi_hbint m); try apply tj_refl. apply tj_set_hb, tj_refl. }
  destruct H4 as [H4 T4].
  assert (H5 : SI (log_cb (set_sent_reset s4 false) CbOnLogon)) by (apply si_log; [apply si_set_sent_reset; exact H4 | exact I]).
  set (s5 := log_cb (set_sent_reset s4 false) CbOnLogon) in *.
  destruct (check_target_too_high s5 m) as [x|] eqn:Eh; inv E.
  - split; [exact H5|]. unfold check_target_too_high in Eh. brk_in Eh; inv Eh; discriminate.
  - split; [|discriminate]. apply (si_incr_msg s5 m H5 Hm). intros Hns. destruct (HNS Hns) as [Hnr _].
    assert (Et : s_tgt s5 = s_tgt s2).
    { change (s_tgt s5) with (s_tgt s4). rewrite (tj_tgt s3 s4 T4 H4 Hnr). exact Ht3. }
    split; [rewrite Et; apply (seq_eq s2 s5 m Hlow Eh Et)|]. left. apply (type_facts m T_LOGON Ht); reflexivity.
Qed.

Lemma si_handle_logout s m s1 st : handle_logout s m = (s1, st) -> SI s -> P m -> beq_bytes (mi_type m) T_LOGOUT = true ->
  SI s1 /\ stash_ok st.
Proof.
  intros E H Hm Ht. unfold handle_logout in E.
  destruct (verify_select s m false false true) as [sa ra] eqn:Ea.
  destruct (si_verify_select _ _ _ _ _ _ _ Ea H Hm) as (Ha & Hra & _ & _).
  destruct ra as [x|]; [destruct (Hra _ eq_refl); eapply si_process_reject; eassumption|].
  match type of E with context [c_reset_on_logout (s_cfg ?x)] =>
    assert (H2 : SI x) by (destruct (is_logged_on (s_st sa)); [apply si_send_logout; exact Ha | exact Ha]); set (s2 := x) in * end.
  destruct (c_reset_on_logout (s_cfg s2)) eqn:Er.
  - inv E. split; [|exact I]. apply si_drop_and_reset; [exact H2|]. intros Hnr. destruct (HNRc Hnr) as (_ & C2 & _).
    rewrite (si_cfg _ H2), C2 in Er. discriminate.
  - destruct (check_target_too_low s2 m) eqn:El; [inv E; split; [exact H2 | exact I]|].
    destruct (check_target_too_high s2 m) eqn:Eh; inv E; (split; [|exact I]); [exact H2|].
    apply (si_incr_msg s2 m H2 Hm). intros _. split; [apply (seq_eq s2 s2 m El Eh eq_refl)|]. left. apply (type_facts m T_LOGOUT Ht); reflexivity.
Qed.

Lemma si_handle_test_request s m s1 st : handle_test_request s m = (s1, st) -> SI s -> P m -> beq_bytes (mi_type m) T_TESTREQ = true ->
  SI s1 /\ stash_ok st.
Proof.
  intros E H Hm Ht. unfold handle_test_request, verify in E.
  destruct (verify_select s m true true true) as [sa ra] eqn:Ea.
  destruct (si_verify_select _ _ _ _ _ _ _ Ea H Hm) as (Ha & Hra & Hta & Hna).
  destruct ra as [x|]; [destruct (Hra _ eq_refl); eapply si_process_reject; eassumption|].
  destruct (Hna eq_refl) as (Hlow & Hhigh & _). specialize (Hlow eq_refl). specialize (Hhigh eq_refl).
  inv E. split; [|exact I].
  match goal with |- SI (incr_tgt ?x) => assert (H2 : SI x /\ Tj sa x); [|set (s2 := x) in *] end.
  { destruct (mi_testreq m); [|split; [exact Ha | apply tj_refl]].
    split; [apply si_send_in_reply_to; [exact Ha | apply adm_abody; reflexivity] | apply tj_send_in_reply_to, tj_refl]. }
  destruct H2 as [H2 T2]. apply (si_incr_msg s2 m H2 Hm). intros Hns. destruct (HNS Hns) as [Hnr _].
  assert (Et : s_tgt s2 = s_tgt s) by (rewrite (tj_tgt sa s2 T2 H2 Hnr); exact Hta).
  split; [rewrite Et; apply (seq_eq s s m Hlow Hhigh eq_refl)|]. left. apply (type_facts m T_TESTREQ Ht); reflexivity.
Qed.

Lemma si_handle_sequence_reset s m s1 st : handle_sequence_reset s m = (s1, st) -> SI s -> P m ->
  beq_bytes (mi_type m) T_SEQRESET = true -> SI s1 /\ stash_ok st.
Proof.
  intros E H Hm Ht. unfold handle_sequence_reset in E.
  assert (Hgf : NS -> mi_gapfill m = FVal true /\ exists n e, mi_seq m = FVal n /\ mi_newseq m = FVal e /\ e <= bound /\ forall k, n <= k < e -> Skip k).
  { intros Hns. destruct (HPj Hns m Hm) as (_ & _ & n & Hn & _ & _ & Hsr & _). destruct (Hsr Ht) as (G1 & e & G2 & G3 & G4).
    split; [exact G1|]. exists n, e. repeat split; assumption. }
  assert (Hrest : forall g sa, verify_select s m g g true = (sa, None) -> SI sa -> s_tgt sa = s_tgt s ->
            (NS -> g = true) -> (g = true -> check_target_too_low s m = None /\ check_target_too_high s m = None) ->
            match mi_newseq m with
            | FVal n => if s_tgt sa <? n then (set_tgt sa n, SInSession)
                        else if n <? s_tgt sa then (do_reject sa m R_value_incorrect_notag, SInSession) else (sa, SInSession)
            | _ => (sa, SInSession)
            end = (s1, st) -> SI s1 /\ stash_ok st).
  { intros g sa Ea Ha Hta Hg Hchk E'. destruct (mi_newseq m) as [| |n] eqn:En; try (inv E'; split; [exact Ha | exact I]).
    destruct (Z.ltb_spec (s_tgt sa) n) as [Hlt|Hge]; [|destruct (n <? s_tgt sa); inv E'; (split; [|exact I]); [apply si_do_reject; [exact Ha | exact I] | exact Ha]].
    inv E'. split; [|exact I]. apply si_set_tgt; [exact Ha|]. intros Hns. destruct (Hgf Hns) as (_ & q & e & Hq & He & Hb & Hsk).
    inversion He; subst e. destruct (Hchk (Hg Hns)) as [Hlo Hhi].
    pose proof (seq_eq s s m Hlo Hhi eq_refl) as Hseq. rewrite Hq in Hseq. inversion Hseq; subst q.
    rewrite Hta. split; [lia|]. split; [exact Hb | exact Hsk]. }
  destruct (mi_gapfill m) as [| |g] eqn:Eg.
  - destruct (verify_select s m false false true) as [sa ra] eqn:Ea.
    destruct (si_verify_select _ _ _ _ _ _ _ Ea H Hm) as (Ha & Hra & Hta & Hna).
    destruct ra as [x|]; [destruct (Hra _ eq_refl); eapply si_process_reject; eassumption|].
    eapply (Hrest false); try eassumption; [|intros Hx; discriminate].
    intros Hns. destruct (Hgf Hns) as [Hx _]. discriminate.
  - eapply si_process_reject; try eassumption; [exact I|]. intros Hns. destruct (Hgf Hns) as [Hx _]. discriminate.
  - match type of E with context [verify_select s m ?a ?b true] => destruct (verify_select s m a b true) as [sa ra] eqn:Ea end.
    destruct (si_verify_select _ _ _ _ _ _ _ Ea H Hm) as (Ha & Hra & Hta & Hna).
    destruct ra as [x|]; [destruct (Hra _ eq_refl); eapply si_process_reject; eassumption|].
    destruct (Hna eq_refl) as (Hlow & Hhigh & _).
    destruct g.
    + eapply (Hrest true); try eassumption; [intros _; reflexivity | intros _; split; [apply Hlow | apply Hhigh]; reflexivity].
    + eapply (Hrest false); try eassumption; [|intros Hx; discriminate].
      intros Hns. destruct (Hgf Hns) as [Hx _]. discriminate.
Qed.

Lemma si_handle_resend_request s m s1 st : handle_resend_request s m = (s1, st) -> SI s -> P m ->
  beq_bytes (mi_type m) T_RESENDREQ = true -> SI s1 /\ stash_ok st.
Proof.
  intros E H Hm Ht. unfold handle_resend_request in E.
  destruct (verify_select s m false false true) as [sa ra] eqn:Ea.
  destruct (si_verify_select _ _ _ _ _ _ _ Ea H Hm) as (Ha & Hra & _ & _).
  destruct ra as [x|]; [destruct (Hra _ eq_refl); eapply si_process_reject; eassumption|].
  assert (Hrr : NS -> (exists b, mi_beginseq m = FVal b) /\ exists e, mi_endseq m = FVal e).
  { intros Hns. destruct (HPj Hns m Hm) as (_ & _ & n & _ & _ & _ & _ & Hx). apply Hx; exact Ht. }
  destruct (mi_beginseq m) as [| |b] eqn:Eb;
    try (eapply si_process_reject; try eassumption; [exact I | intros Hns; destruct (Hrr Hns) as [[b' Hb'] _]; discriminate]).
  destruct (mi_endseq m) as [| |e0] eqn:Ee;
    try (eapply si_process_reject; try eassumption; [exact I | intros Hns; destruct (Hrr Hns) as [_ [e' He']]; discriminate]).
  match type of E with context [resend_messages sa b ?e m] => assert (H2 : SI (resend_messages sa b e m)); [|set (s2 := resend_messages sa b e m) in *] end.
  { apply si_resend_messages; [exact Ha | exact Hm|]. intros _.
    match goal with |- (if ?cnd then _ else _) < _ => destruct cnd eqn:Ec end; [lia|].
    apply orb_false_elim in Ec as [_ Ec]. apply Z.leb_gt in Ec. lia. }
  destruct (check_target_too_low s2 m) eqn:El; [inv E; split; [exact H2 | exact I]|].
  destruct (check_target_too_high s2 m) eqn:Eh; inv E; (split; [|exact I]); [exact H2|].
  apply (si_incr_msg s2 m H2 Hm). intros _. split; [apply (seq_eq s2 s2 m El Eh eq_refl)|]. left. apply (type_facts m T_RESENDREQ Ht); reflexivity.
Qed.

Lemma si_in_session_fix_msg_in s m s1 st : in_session_fix_msg_in s m = (s1, st) -> SI s -> P m -> SI s1 /\ stash_ok st.
Proof.
  intros E H Hm. unfold in_session_fix_msg_in in E.
  destruct (beq_bytes (mi_type m) T_LOGON) eqn:Et.
  { destruct (handle_logon s m) as [sa ra] eqn:Ea. destruct (si_handle_logon _ _ _ _ Ea H Hm Et) as [Ha _].
    destruct ra; inv E; (split; [|exact I]); [apply si_initiate_logout; exact Ha | exact Ha]. }
  destruct (beq_bytes (mi_type m) T_LOGOUT) eqn:Et2; [eapply si_handle_logout; eassumption|].
  destruct (beq_bytes (mi_type m) T_RESENDREQ) eqn:Et3; [eapply si_handle_resend_request; eassumption|].
  destruct (beq_bytes (mi_type m) T_SEQRESET) eqn:Et4; [eapply si_handle_sequence_reset; eassumption|].
  destruct (beq_bytes (mi_type m) T_TESTREQ) eqn:Et5; [eapply si_handle_test_request; eassumption|].
  unfold verify in E. destruct (verify_select s m true true true) as [sa ra] eqn:Ea.
  destruct (si_verify_select _ _ _ _ _ _ _ Ea H Hm) as (Ha & Hra & Hta & Hna).
  destruct ra as [x|]; [destruct (Hra _ eq_refl); eapply si_process_reject; eassumption|].
  destruct (Hna eq_refl) as (Hlow & Hhigh & Hcb). specialize (Hlow eq_refl). specialize (Hhigh eq_refl). specialize (Hcb eq_refl).
  inv E. split; [|exact I]. apply (si_incr_msg sa m Ha Hm). intros _.
  pose proof (seq_eq s s m Hlow Hhigh eq_refl) as Hseq. rewrite Hta. split; [exact Hseq|].
  destruct (is_admin (mi_type m)) eqn:Eadm; [left; split; [reflexivity | exact Et4]|].
  right. specialize (Hcb eq_refl). rewrite Hseq in Hcb. eexists; eexists; eexists. exact Hcb.
Qed.

Lemma si_shutdown_with_reason s m s1 st : shutdown_with_reason s m false = (s1, st) -> SI s -> SI s1 /\ stash_ok st.
Proof.
  intros E H. unfold shutdown_with_reason in E.
  assert (H1 : SI (drop_and_send_in_reply_to s T_LOGOUT [] (Some m))) by (apply si_drop_and_send; [exact H | apply adm_abody; reflexivity]).
  inv E. split; [exact H1 | exact I].
Qed.

Lemma si_logon_state s m s1 st : logon_state_fix_msg_in s m = (s1, st) -> SI s -> P m -> SI s1 /\ stash_ok st.
Proof.
  intros E H Hm. unfold logon_state_fix_msg_in in E.
  destruct (beq_bytes (mi_type m) T_LOGON) eqn:Et; cbn [negb] in E; [|inv E; split; [exact H | exact I]].
  destruct (handle_logon s m) as [sa ra] eqn:Ea. destruct (si_handle_logon _ _ _ _ Ea H Hm Et) as [Ha Hnr].
  destruct ra as [[a b|a b| | |a b d]|]; try (inv E; split; [exact Ha | exact I]).
  - eapply si_do_target_too_high; eassumption.
  - eapply si_shutdown_with_reason; eassumption.
  - exfalso. apply Hnr. reflexivity.
Qed.

Lemma si_logout_state s m s1 st : logout_state_fix_msg_in s m = (s1, st) -> SI s -> P m -> SI s1 /\ stash_ok st.
Proof.
  intros E H Hm. unfold logout_state_fix_msg_in in E.
  destruct (in_session_fix_msg_in s m) as [s2 st2] eqn:E2.
  destruct (si_in_session_fix_msg_in _ _ _ _ E2 H Hm) as [H2 _]. destruct st2; inv E; (split; [exact H2 | exact I]).
Qed.

Definition list_ok (l : list (Z * minput)) : Prop := forall k m, In (k, m) l -> P m.

Lemma si_resend_drain : forall fuel s stash next s1 stash1 next1 still,
  resend_drain fuel s stash next = (s1, stash1, next1, still) -> SI s -> list_ok stash -> stash_ok next ->
  SI s1 /\ list_ok stash1 /\ stash_ok next1.
Proof.
  induction fuel as [|f IH]; intros s stash next s1 stash1 next1 still E H Hl Hn; cbn [resend_drain] in E.
  - inv E. auto.
  - destruct (stash_take (s_tgt s) stash) as [[m stash']|] eqn:Et; [|inv E; auto].
    destruct (stash_take_in _ _ _ _ Et) as [Hin Hsub].
    assert (Hl' : list_ok stash') by (intros k x Hx; apply (Hl k x), Hsub, Hx).
    destruct (in_session_fix_msg_in s m) as [s2 n2] eqn:E2.
    destruct (si_in_session_fix_msg_in _ _ _ _ E2 H (Hl _ _ Hin)) as [H2 Hn2].
    destruct (negb (is_logged_on n2)); [inv E; auto|]. eapply IH; eassumption.
Qed.

Lemma si_resend_state s stash ce re m s1 st : resend_state_fix_msg_in s stash ce re m = (s1, st) -> SI s -> P m ->
  stash_ok (SResend stash ce re) -> SI s1 /\ stash_ok st.
Proof.
  intros E H Hm Hst. unfold resend_state_fix_msg_in in E.
  destruct (in_session_fix_msg_in s m) as [s2 n2] eqn:E2.
  destruct (si_in_session_fix_msg_in _ _ _ _ E2 H Hm) as [H2 Hn2].
  destruct (negb (is_logged_on n2)); [inv E; auto|].
  set (sh := shared_stash stash n2) in E.
  assert (Hsh : list_ok (match sh with Some l => l | None => [] end)).
  { unfold sh, shared_stash. destruct stash as [l|]; [|intros k x []].
    destruct n2 as [| | | | |[l'|] c1 e1|i]; try exact Hst. exact Hn2. }
  match type of E with context [resend_drain ?f ?a ?b ?d] => destruct (resend_drain f a b d) as [[[s3 l3] n3] still] eqn:E3 end.
  destruct (si_resend_drain _ _ _ _ _ _ _ _ E3 H2 Hsh Hn2) as (H3 & Hl3 & Hn3).
  destruct (negb still); [inv E; auto|].
  assert (Hst' : forall a b, stash_ok (SResend (match sh with Some _ => Some l3 | None => None end) a b)).
  { intros a b. cbn [stash_ok]. destruct sh; [exact Hl3 | exact I]. }
  assert (Hrq : forall b e s4 st4, match send_resend_request s3 b e with
                                   | (s5, SResend _ c0 e0) => (s5, SResend (match sh with Some _ => Some l3 | None => None end) c0 e0)
                                   | (s5, other) => (s5, other) end = (s4, st4) -> SI s4 /\ stash_ok st4).
  { intros b e s4 st4 E4. destruct (send_resend_request s3 b e) as [s5 st5] eqn:E5.
    destruct (si_send_resend_request _ _ _ _ _ E5 H3) as [H5 Hn5].
    destruct st5; inv E4; (split; [exact H5|]); try exact Hn5. apply Hst'. }
  destruct (negb (ce =? 0) && (ce <? s_tgt s3) && (s_tgt s3 <=? re)); [eapply Hrq; exact E|].
  destruct (mi_gapfill m) as [| |g]; try (inv E; split; [exact H3 | exact I]).
  all: match type of E with (if ?b then _ else _) = _ => destruct b end; [eapply Hrq; exact E|];
    destruct (s_tgt s3 <=? re); inv E; (split; [exact H3|]); try exact Hn3; apply Hst'.
Qed.

Lemma si_state_fix_msg_in : forall st s m s1 st1, state_fix_msg_in st s m = (s1, st1) -> SI s -> P m -> stash_ok st ->
  SI s1 /\ stash_ok st1.
Proof.
  induction st as [| | | | | stash ce re | i IH]; intros s m s1 st1 E H Hm Hst; cbn [state_fix_msg_in] in E.
  - inv E; auto.
  - inv E; auto.
  - eapply si_logon_state; eassumption.
  - eapply si_logout_state; eassumption.
  - eapply si_in_session_fix_msg_in; eassumption.
  - eapply si_resend_state; eassumption.
  - eapply IH; eassumption.
Qed.

Lemma si_in_session_timeout s e s1 st : in_session_timeout s e = (s1, st) -> SI s -> SI s1 /\ stash_ok st.
Proof.
  intros E H. unfold in_session_timeout in E.
  destruct e; inv E; (split; [|exact I]); try exact H; apply si_send; try exact H; apply adm_abody; reflexivity.
Qed.

Lemma si_state_timeout st s e s1 st1 : state_timeout st s e = (s1, st1) -> SI s -> stash_ok st -> SI s1 /\ stash_ok st1.
Proof.
  intros E H Hst. unfold state_timeout in E.
  destruct st; try (brk_in E; inv E; (split; [exact H | first [exact I | exact Hst]])).
  - eapply si_in_session_timeout; eassumption.
  - destruct (in_session_timeout s e) as [s2 st2] eqn:E2.
    destruct (si_in_session_timeout _ _ _ _ E2 H) as [H2 Hn2]. brk_in E; inv E; (split; [exact H2|]); first [exact I | exact Hst | exact Hn2].
Qed.

Lemma si_state_stop : forall st s s1 st1, state_stop st s = (s1, st1) -> SI s -> stash_ok st -> SI s1 /\ stash_ok st1.
Proof.
  induction st as [| | | | | stash ce re | i IH]; intros s s1 st1 E H Hst; cbn [state_stop] in E;
    try (inv E; split; [first [exact H | apply si_initiate_logout; exact H] | exact I]).
  eapply IH; eassumption.
Qed.

(* ---------- the state machine above the handlers ---------- *)
Definition SIF (f : sess -> sess) : Prop := forall s, SI s -> SI (f s).

Lemma si_handle_disconnect dr : SIF dr -> SIF (handle_disconnect_state dr).
Proof.
  intros Hdr s H. unfold handle_disconnect_state. cbv zeta.
  pose proof (Hdr s H) as H0. set (s0 := dr s) in *.
  destruct (is_connected (s_st s) && negb (is_connected (s_st s0))); [exact H0|].
  match goal with |- context [if ?b then log_cb s0 CbOnLogout else s0] =>
    assert (H1 : SI (if b then log_cb s0 CbOnLogout else s0)) by (destruct b; [apply si_log; [exact H0 | exact I] | exact H0]);
    set (s1 := if b then log_cb s0 CbOnLogout else s0) in * end.
  assert (H2 : SI (if c_reset_on_disconnect (s_cfg s1) then drop_and_reset s1 else s1)).
  { destruct (c_reset_on_disconnect (s_cfg s1)) eqn:Er; [|exact H1]. apply si_drop_and_reset; [exact H1|].
    intros Hnr. destruct (HNRc Hnr) as (_ & _ & C3). rewrite (si_cfg _ H1), C3 in Er. discriminate. }
  set (s2 := if c_reset_on_disconnect (s_cfg s1) then drop_and_reset s1 else s1) in *.
  assert (H3 : SI (if s_out_open s2 then upd_chan s2 false (s_in_open s2) (s_in_buf s2) true else s2)).
  { destruct (s_out_open s2); [apply si_upd_chan; [exact H2 | apply H2] | exact H2]. }
  apply si_upd_chan; [exact H3 | intros m []].
Qed.

Lemma si_set_state_with dr s next : SIF dr -> SI s -> stash_ok next -> SI (set_state_with dr s next).
Proof.
  intros Hdr H Hn. unfold set_state_with. destruct (negb (is_connected next)); [|apply si_upd_st; assumption].
  apply si_upd_st; [|exact Hn].
  assert (H1 : SI (if is_connected (s_st s) then handle_disconnect_state dr s else s)).
  { destruct (is_connected (s_st s)); [apply si_handle_disconnect; assumption | exact H]. }
  destruct (s_pending_stop _); [apply si_upd_flags|]; exact H1.
Qed.

Lemma si_incoming_with dr s m : SIF dr -> SI s -> (forall x, m = Some x -> P x) -> SI (incoming_with dr s m).
Proof.
  intros Hdr H Hm. unfold incoming_with.
  destruct (negb (is_connected (s_st s))); [exact H|]. destruct m as [mm|]; [|exact H].
  destruct (state_fix_msg_in (s_st s) s mm) as [s1 next] eqn:E.
  destruct (si_state_fix_msg_in _ _ _ _ _ E H (Hm mm eq_refl) (si_stash _ H)) as [H1 Hn].
  apply si_set_state_with; assumption.
Qed.

Lemma si_drain_message_in : forall fuel, SIF (drain_message_in fuel).
Proof.
  induction fuel as [|f IH]; intros s H; cbn [drain_message_in]; [exact H|].
  destruct (negb (s_in_open s)); [exact H|]. destruct (s_in_buf s) as [|m r] eqn:Eb; [exact H|].
  assert (Hb : buf_ok (m :: r)) by (rewrite <- Eb; apply H).
  apply IH. apply si_incoming_with; [exact IH | | intros x ->; apply Hb; left; reflexivity].
  apply si_upd_chan; [exact H | intros x Hx; apply Hb; right; exact Hx].
Qed.

Lemma si_drain : SIF drain.
Proof. intros s H. unfold drain. apply si_drain_message_in. exact H. Qed.
Lemma si_set_state s next : SI s -> stash_ok next -> SI (set_state s next).
Proof. apply si_set_state_with. exact si_drain. Qed.
Lemma si_incoming s m : SI s -> (forall x, m = Some x -> P x) -> SI (incoming s m).
Proof. apply si_incoming_with. exact si_drain. Qed.

Lemma should_send_reset_false s : NR -> s_cfg s = c -> should_send_reset s = false.
Proof.
  intros Hnr Hc. destruct (HNRc Hnr) as (C1 & C2 & C3). unfold should_send_reset. rewrite Hc, C1, C2, C3.
  cbn [orb]. rewrite andb_false_r. reflexivity.
Qed.

Lemma si_connect : SIF connect.
Proof.
  intros s H. unfold connect. destruct (is_connected (s_st s)); [exact H|].
  assert (H0 : SI (set_sent_reset (upd_chan s true true [] (s_closed s)) false)).
  { apply si_set_sent_reset, si_upd_chan; [exact H | intros m []]. }
  set (s0 := set_sent_reset (upd_chan s true true [] (s_closed s)) false) in *.
  destruct (negb (initiator s0)); [apply si_set_state; [exact H0 | exact I]|].
  assert (H1 : SI (if c_reset_on_logon (s_cfg s0) then drop_and_reset s0 else s0)).
  { destruct (c_reset_on_logon (s_cfg s0)) eqn:Er; [|exact H0]. apply si_drop_and_reset; [exact H0|].
    intros Hnr. destruct (HNRc Hnr) as (C1 & _ & _). rewrite (si_cfg _ H0), C1 in Er. discriminate. }
  apply si_set_state; [|exact I]. apply si_send_logon; [exact H1|].
  intros Hnr. apply should_send_reset_false; [exact Hnr | apply si_cfg; exact H1].
Qed.

(* what an event brings into the session from outside *)
Definition ev_ok (s : sess) (e : event) : Prop :=
  match e with
  | EIncoming m | EArrive m => P m
  | EAppSend t body ok => is_admin t = false /\ (ok = true -> R (s_snd s) t body)
  | EResetSeqTime => ~ NR
  | _ => True
  end.

Lemma si_step_event s e : SI s -> ev_ok s e -> SI (step_event s e).
Proof.
  intros H He. destruct e; cbn [step_event]; cbn [ev_ok] in He.
  - apply si_connect; exact H.
  - destruct (_ && _); [|exact H]. apply si_upd_chan; [exact H|].
    intros x Hx. apply in_app_or in Hx as [Hx|[Hx|[]]]; [apply H; exact Hx | inv Hx; exact He].
  - destruct (negb (s_in_open s)); [exact H|]. destruct (s_in_buf s) as [|m r] eqn:Eb; [exact H|].
    assert (Hb : buf_ok (m :: r)) by (rewrite <- Eb; apply H).
    apply si_incoming; [|intros x ->; apply Hb; left; reflexivity].
    apply si_upd_chan; [exact H | intros x Hx; apply Hb; right; exact Hx].
  - apply si_incoming; [exact H | intros x Ex; inv Ex; exact He].
  - apply si_incoming; [exact H | intros x Ex; discriminate].
  - destruct (is_connected (s_st s)); [apply si_set_state; [exact H | exact I] | exact H].
  - destruct (state_timeout (s_st s) s e) as [s1 next] eqn:E.
    destruct (si_state_timeout _ _ _ _ _ E H (si_stash _ H)) as [H1 Hn]. apply si_set_state; assumption.
  - destruct He as [Ha Hr]. apply si_queue_for_send; [exact H|].
    intros [Hok|Hadm]; [|congruence]. destruct (is_admin_not_seqreset _ Ha) as [Q1 Q2].
    split; [intros _; apply Hr; exact Hok|]. split; [intros _ Hl; rewrite (is_admin_not_logon _ Ha) in Hl; discriminate|].
    intros _. split; [exact Q1 | intros Hx; congruence].
  - destruct (is_logged_on (s_st s)); [apply si_send_queued | apply si_drop_queued]; exact H.
  - match goal with |- context [state_stop ?a ?b] => destruct (state_stop a b) as [s1 next] eqn:E end.
    assert (H0 : SI (upd_flags s (s_sent_reset s) (s_hb s) true (s_stopped s))) by (apply si_upd_flags; exact H).
    destruct (si_state_stop _ _ _ _ E H0 (si_stash _ H0)) as [H1 Hn]. apply si_set_state; assumption.
  - destruct (is_connected (s_st s)); [|exact H]. apply si_send_logon; [exact H | intros Hnr; contradiction].
Qed.

End Inv.

(* the logs are cleared at the start of an event: the reference points are re-based; the bound and Skip of regime NS may
   be replaced (the peer may have moved on) as long as the expected number stays within the new bound *)
Lemma si_clear_logs c R P NR n0 msgs0 (NS : Prop) t0 bound Skip bound' (Skip' : Z -> Prop) s :
  (NS -> bound <= bound') ->
  SI c R P NR n0 msgs0 NS t0 bound Skip s -> SI c R P NR (s_snd s) (s_msgs s) NS (s_tgt s) bound' Skip' (clear_logs s).
Proof.
  intros Hb (H1&H2&H3&H4&H5&H6&H7&H8&H9). unfold clear_logs, SI.
  split; [exact H1|]. split; [exact H2|]. split; [exact H3|]. split; [constructor|]. split; [exact H5|]. split; [exact H6|].
  split; [constructor|]. split.
  - right. split; [apply Z.le_refl|]. split; [apply incl_refl | intros k sm Hin; left; exact Hin].
  - intros Hns. destruct (H9 Hns) as (_ & J2 & _). specialize (Hb Hns). cbn [s_tgt s_cbs upd_chan upd_logs].
    split; [apply Z.le_refl|]. split; [lia | intros k Hk; lia].
Qed.

Theorem si_step c (R : Z -> bytes -> list (Z * bytes) -> Prop) (P : minput -> Prop) (NR : Prop) n0 msgs0 (NS : Prop) t0 bound
  (Skip : Z -> Prop) s e :
  (forall m, P m -> mi_valid m = VAccept /\ mi_app m = VAccept /\ exists d, mi_stime m = FVal d) ->
  (NR -> c_reset_on_logon c = false /\ c_reset_on_logout c = false /\ c_reset_on_disconnect c = false) ->
  (NR -> forall m, P m -> beq_bytes (mi_type m) T_LOGON = true -> mi_reset m <> FVal true) ->
  (NS -> NR /\ c_disable_persist c = false) ->
  (NS -> forall m, P m -> Pj bound Skip m) ->
  SI c R P NR n0 msgs0 NS t0 bound Skip s -> ev_ok R P NR s e ->
  SI c R P NR (s_snd s) (s_msgs s) NS (s_tgt s) bound Skip (step s e).
Proof.
  intros HP HNRc HNRp HNS HPj H He. unfold step. apply si_step_event; try assumption.
  apply (si_clear_logs _ _ _ _ n0 msgs0 _ t0 bound Skip); [intros _; apply Z.le_refl | exact H].
Qed.

(* monotone in the predicates; the reference points may be weakened *)
Lemma si_mono c (R R' : Z -> bytes -> list (Z * bytes) -> Prop) (P P' : minput -> Prop) NR n0 msgs0 (NS : Prop) t0 bound bound'
  (Skip Skip' : Z -> Prop) s :
  (forall n t b, R n t b -> R' n t b) -> (forall m, P m -> P' m) -> (NS -> bound <= bound') -> (forall k, Skip k -> Skip' k) ->
  SI c R P NR n0 msgs0 NS t0 bound Skip s -> SI c R' P' NR n0 msgs0 NS t0 bound' Skip' s.
Proof.
  intros HR HPm Hb Hsk (H1&H2&H3&H4&H5&H6&H7&H8&H9).
  assert (HW : forall a ms m, Wn R NR NS a ms m -> Wn R' NR NS a ms m).
  { intros a ms m [[A1 A2] A3]. split; [split; [intros Ha; apply HR, A1, Ha | exact A2] | exact A3]. }
  split; [|split; [|split; [|split; [|split; [|split; [|split; [|split]]]]]]]; try assumption.
  - clear -H2 HR. revert H2. generalize (s_snd s). induction (s_msgs s) as [|[k m] r IH]; intros a Hs; cbn in *; [exact I|].
    destruct Hs as (A1&A2&A3&A4). repeat split; try assumption; [intros Ha; apply HR, A3, Ha | apply IH; exact A4].
  - eapply Forall_impl; [apply HW | exact H3].
  - eapply Forall_impl; [apply HW | exact H4].
  - clear -H5 HPm. induction (s_st s) as [| | | | |[l|] a b|i IH]; cbn in *; auto. intros k m Hin. apply HPm. eapply H5; exact Hin.
  - intros m Hm. apply HPm, H6, Hm.
  - eapply Forall_impl; [|exact H7]. intros [q t v f|t q f|q pd|t| | |]; cbn; auto.
    intros (m & A1 & A2). exists m. split; [apply HPm; exact A1 | exact A2].
  - intros Hns. destruct (H9 Hns) as (J1 & J2 & J3). specialize (Hb Hns). split; [exact J1|]. split; [lia|].
    intros k Hk. destruct (J3 k Hk) as [Hh|Hs]; [left; exact Hh | right; apply Hsk; exact Hs].
Qed.

(* two steps in a row: the reference points of the first may be kept *)
Lemma si_rebase c R P NR n0 m0 n1 m1 NS t0 bound Skip s :
  SI c R P NR n0 m0 NS t0 bound Skip s -> n1 <= n0 -> incl m1 m0 -> (forall k sm, In (k, sm) m0 -> In (k, sm) m1 \/ n1 <= k) ->
  SI c R P NR n1 m1 NS t0 bound Skip s.
Proof.
  intros (H1&H2&H3&H4&H5&H6&H7&H8&H9) Hn Hm Hg.
  split; [|split; [|split; [|split; [|split; [|split; [|split; [|split]]]]]]]; try assumption.
  destruct H8 as [H8|(A1 & A2 & A3)]; [left; exact H8 | right]. split; [lia|]. split; [intros x Hx; apply A2, Hm, Hx|].
  intros k sm Hin. destruct (A3 k sm Hin) as [Ho|Ho]; [destruct (Hg k sm Ho) as [Hq|Hq]; [left; exact Hq | right; exact Hq] | right; lia].
Qed.

(* ---------- the session hands FromApp only messages it received ---------- *)
(* m is kept in the recovery stash of state st *)
Fixpoint in_stash (m : minput) (st : sstate) : Prop :=
  match st with
  | SResend (Some l) _ _ => exists k, In (k, m) l
  | SPending i => in_stash m i
  | _ => False
  end.

(* where a message processed during event e in state s can come from: the event itself, the stash, the inbound buffer *)
Definition received (s : sess) (e : event) (m : minput) : Prop :=
  e = EIncoming m \/ e = EArrive m \/ in_stash m (s_st s) \/ In (Some m) (s_in_buf s).

Lemma stash_ok_and (P Q : minput -> Prop) : forall st, stash_ok P st -> (forall m, in_stash m st -> Q m) ->
  stash_ok (fun x => P x /\ Q x) st.
Proof.
  induction st as [| | | | |[l|] a b|i IH]; cbn [stash_ok in_stash]; intros Hs Hq; try exact I.
  - intros k m Hin. split; [eapply Hs; exact Hin | apply Hq; exists k; exact Hin].
  - apply IH; assumption.
Qed.

Theorem fromapp_source c (R : Z -> bytes -> list (Z * bytes) -> Prop) (P : minput -> Prop) (NR : Prop) n0 msgs0 (NS : Prop) t0 bound
  (Skip : Z -> Prop) s e :
  (forall m, P m -> mi_valid m = VAccept /\ mi_app m = VAccept /\ exists d, mi_stime m = FVal d) ->
  (NR -> c_reset_on_logon c = false /\ c_reset_on_logout c = false /\ c_reset_on_disconnect c = false) ->
  (NR -> forall m, P m -> beq_bytes (mi_type m) T_LOGON = true -> mi_reset m <> FVal true) ->
  (NS -> NR /\ c_disable_persist c = false) ->
  (NS -> forall m, P m -> Pj bound Skip m) ->
  SI c R P NR n0 msgs0 NS t0 bound Skip s -> ev_ok R P NR s e ->
  forall q t v f, In (CbFromApp q t v f) (s_cbs (step s e)) ->
  exists m, received s e m /\ P m /\ is_admin (mi_type m) = false /\ q = mi_seq m /\ v = mi_app m /\ f = facts_of m.
Proof.
  intros HP HNRc HNRp HNS HPj H He q t v f Hin.
  set (P' := fun x => P x /\ received s e x).
  assert (H' : SI c R P' NR (s_snd s) (s_msgs s) NS (s_tgt s) bound Skip (clear_logs s)).
  { destruct (si_clear_logs _ _ _ _ _ _ _ _ _ _ bound Skip _ (fun _ => Z.le_refl bound) H) as (H1&H2&H3&H4&H5&H6&H7&H8&H9).
    split; [exact H1|]. split; [exact H2|]. split; [exact H3|]. split; [exact H4|].
    split; [|split; [|split; [constructor | split; [exact H8 | exact H9]]]].
    - apply stash_ok_and; [exact H5|]. intros m Hm. right; right; left. exact Hm.
    - intros m Hm. split; [apply H6; exact Hm|]. right; right; right. exact Hm. }
  assert (He' : ev_ok R P' NR (clear_logs s) e).
  { destruct e; cbn [ev_ok] in *; try exact He; (split; [exact He|]); [right; left; reflexivity | left; reflexivity]. }
  assert (Hs : SI c R P' NR (s_snd s) (s_msgs s) NS (s_tgt s) bound Skip (step s e)).
  { unfold step. apply si_step_event; try assumption.
    - intros m [Hm _]. apply HP; exact Hm.
    - intros Hnr m [Hm _]. apply HNRp; assumption.
    - intros Hns m [Hm _]. apply HPj; assumption. }
  destruct Hs as (_&_&_&_&_&_&H7&_). pose proof (proj1 (Forall_forall _ _) H7 _ Hin) as Hc. cbn [cb_ok] in Hc.
  destruct Hc as (m & [Hm Hr] & Hrest). exists m. split; [exact Hr|]. split; [exact Hm | exact Hrest].
Qed.
