(* C05, payload identity — bookkeeping beside a two-engine run (Net/Pair.v), used only to STATE the property.
   `plog` carries the pair together with what the two applications have submitted and received so far:
     l_sent_x   every (number, ClOrdID) the application of side x submitted (PSendA/PSendB), with the number the engine
                assigned, in submission order, over the whole run;
     l_epoch_x  the same since the last reset of x's store (an epoch ends at a store reset: CbStoreReset in x's log);
     l_dlv_x    every (number, ClOrdID) handed to the application of side x (FromApp), in hand-over order.
   `lstep` runs `pstep` and updates the books; it never looks at the books to decide anything (lrun_proj in PayloadProofs.v:
   the pair component of the instrumented run IS the run of Net/Pair.v). *)
From Coq Require Import String.
From Coq Require Import ZArith List Bool.
From QF Require Import Base.Bytes Session.Types Session.Model Session.Spec Net.Pair.
Import ListNotations.
Open Scope list_scope.
Open Scope Z_scope.

Definition plog_entry := (Z * bytes)%type.

Record plog := {
  l_p : pair;
  l_sent_a : list plog_entry; l_sent_b : list plog_entry;
  l_epoch_a : list plog_entry; l_epoch_b : list plog_entry;
  l_dlv_a : list plog_entry; l_dlv_b : list plog_entry
}.

(* what one side handed to its application in the last event, oldest first: number (34) and ClOrdID (11) *)
Definition handed (s : sess) : list plog_entry :=
  flat_map (fun c => match c with
                     | CbFromApp (FVal n) _ _ f => match mf_id f with Some i => [(n, i)] | None => [] end
                     | _ => []
                     end) (rev (s_cbs s)).

Definition lstep (g : plog) (e : pev) : plog :=
  let p := l_p g in
  let p' := pstep p e in
  let na := match e with PSendA id => [(s_snd (p_a p), id)] | _ => [] end in
  let nb := match e with PSendB id => [(s_snd (p_b p), id)] | _ => [] end in
  {| l_p := p';
     l_sent_a := l_sent_a g ++ na; l_sent_b := l_sent_b g ++ nb;
     l_epoch_a := (if has_reset (s_cbs (p_a p')) then [] else l_epoch_a g) ++ na;
     l_epoch_b := (if has_reset (s_cbs (p_b p')) then [] else l_epoch_b g) ++ nb;
     l_dlv_a := l_dlv_a g ++ handed (p_a p'); l_dlv_b := l_dlv_b g ++ handed (p_b p') |}.

Definition linit (ca cb : cfg) : plog :=
  {| l_p := pinit ca cb; l_sent_a := []; l_sent_b := []; l_epoch_a := []; l_epoch_b := []; l_dlv_a := []; l_dlv_b := [] |}.

Fixpoint lrun_trace (es : list pev) (g : plog) : list plog :=
  match es with
  | [] => []
  | e :: r => let g' := lstep g e in g' :: lrun_trace r g'
  end.

Definition lfinal (es : list pev) (g : plog) : plog := fold_left lstep es g.

(* the observables of the `pair` stream (ocaml/session/s_pair.ml): ids submitted per side, ids handed over per side *)
Definition sent_ids_a (es : list pev) : list bytes := flat_map (fun e => match e with PSendA id => [id] | _ => [] end) es.
Definition sent_ids_b (es : list pev) : list bytes := flat_map (fun e => match e with PSendB id => [id] | _ => [] end) es.
Definition delivered_ids_b (ps : list pair) : list bytes := flat_map (fun p => delivered_ids (p_b p)) ps.
Definition delivered_ids_a (ps : list pair) : list bytes := flat_map (fun p => delivered_ids (p_a p)) ps.

(* "sequence resets disabled" *)
Definition no_resets (c : cfg) : bool := negb (c_reset_on_logon c || c_reset_on_logout c || c_reset_on_disconnect c).

(* numbers strictly increasing along the list *)
Fixpoint inc_keys (l : list plog_entry) : Prop :=
  match l with
  | [] => True
  | x :: r => (forall y, In y r -> fst x < fst y) /\ inc_keys r
  end.

(* d is obtained from l by deleting elements (order kept, nothing repeated that is not repeated in l) *)
Inductive subseq {A : Type} : list A -> list A -> Prop :=
| ss_nil : forall l, subseq [] l
| ss_skip : forall x d l, subseq d l -> subseq d (x :: l)
| ss_take : forall x d l, subseq d l -> subseq (x :: d) (x :: l).

(* the payload of the application message the harness submits (Net/Pair.v: app_body) as the receiving session reads it *)
Definition is_app_payload (id : bytes) (m : minput) : Prop := mi_type m = B "D" /\ mi_body m = app_body id.
Definition is_app_payload_o (id : bytes) (m : omsg) : Prop := o_type m = B "D" /\ o_body m = app_body id.

(* ---------- vocabulary of the C05 payload theorems (Props/C05.v; proofs in PayloadProofs.v) ---------- *)
(* both engines run with sequence resets disabled *)
Definition NRof (ca cb : cfg) : Prop := no_resets ca = true /\ no_resets cb = true.

(* the regime of the property's quantifier: resets disabled, messages persisted (engines are recreated "on the persistent
   store"), and CompIDs configured (an empty CompID makes the receiver reject every message and still consume its number) *)
Definition ids_set (c : cfg) : Prop := c_sender c <> [] /\ c_target c <> [].
Definition NSof (ca cb : cfg) : Prop :=
  NRof ca cb /\ c_disable_persist ca = false /\ c_disable_persist cb = false /\ ids_set ca /\ ids_set cb.

(* g is the initial state or a state visited by the instrumented run of the event list es *)
Definition reachable (ca cb : cfg) (es : list pev) (g : plog) : Prop := In g (linit ca cb :: lrun_trace es (linit ca cb)).

(* every FromApp callback on either side was made for the harness's reading (minput_of) of a message `om` of the peer that
   carries the number n, the type and the body of an application message the peer's application submitted and that was
   given the number n; the verdict is "accept"; the ClOrdID the application sees is that message's *)
Definition handed_over_was_sent (cpeer : cfg) (sent : list plog_entry) (s : sess) : Prop :=
  forall q t v f, In (CbFromApp q t v f) (s_cbs s) ->
  exists n id om, q = FVal n /\ v = VAccept /\ In (n, id) sent
                  /\ o_seq om = n /\ is_app_payload_o id om /\ is_app_payload id (minput_of cpeer om)
                  /\ f = facts_of (minput_of cpeer om) /\ mf_id f = Some id.

(* a message in flight, queued, written in the last event or stored is `registered` under its number: if it is an application
   message, it has the type and body of a submission that was given that number — a first-time copy or a replay
   (administrative messages are not constrained) *)
Definition registered (sent : list plog_entry) (n : Z) (om : omsg) : Prop :=
  is_admin (o_type om) = false -> exists id, is_app_payload_o id om /\ In (n, id) sent.

(* the books of the current epoch: numbers strictly increasing (so each number names at most one submission), all below
   the next sender number, and — with persistence — each submission IS what the store holds under its number *)
Definition epoch_ok (c : cfg) (s : sess) (sent epoch : list plog_entry) : Prop :=
  inc_keys epoch
  /\ (forall n i j, In (n, i) epoch -> In (n, j) epoch -> i = j)
  /\ forall n id, In (n, id) epoch ->
       n < s_snd s /\ In (n, id) sent
       /\ (c_disable_persist c = false -> exists om, lookup_msg n (s_msgs s) = Some om /\ is_app_payload_o id om).

(* with persistence on the sending side: the message handed over under n has the type and body of what the sender's store
   holds under n at that moment — no books involved *)
Definition handed_over_is_stored (cpeer : cfg) (speer s : sess) : Prop :=
  forall q t v f, In (CbFromApp q t v f) (s_cbs s) ->
  exists n om st, q = FVal n /\ v = VAccept /\ f = facts_of (minput_of cpeer om) /\ o_seq om = n
                  /\ lookup_msg n (s_msgs speer) = Some st /\ is_admin (o_type st) = false
                  /\ o_type om = o_type st /\ o_body om = o_body st
                  /\ mi_type (minput_of cpeer om) = o_type st /\ mi_body (minput_of cpeer om) = o_body st.

(* ---------- a concrete run used for the non-vacuity examples ---------- *)
Definition c05_ex_cfg (r : role) (s t : bytes) : cfg :=
  {| c_role := r; c_begin := 4; c_sender := s; c_target := t; c_reset_on_logon := false; c_reset_on_logout := false;
     c_reset_on_disconnect := false; c_refresh_on_logon := false; c_chunk := 0; c_hb := 30; c_hb_override := false;
     c_skip_latency := false; c_max_latency := 120; c_disable_persist := false; c_last_seq_processed := false;
     c_in_cap := 1%nat; c_appl_ver := [] |}.
Definition c05_ex_ca : cfg := c05_ex_cfg Initiator (B "A") (B "B").
Definition c05_ex_cb : cfg := c05_ex_cfg Acceptor (B "B") (B "A").
(* logon; A submits o1, o2, both lost in a cut; o3 and (on B) r1 submitted while disconnected; reconnect; both sides detect
   the gap at logon, the queued ResendRequests leave with the next heartbeat; the replays are delivered *)
Definition c05_ex_events : list pev :=
  [PConnect; PDeliverAB; PDeliverBA; PSendA (B "o1"); PSendA (B "o2"); PCut; PSendA (B "o3"); PSendB (B "r1");
   PConnect; PDeliverAB; PDeliverBA; PTimerA NeedHeartbeat; PTimerB NeedHeartbeat;
   PDeliverAB; PDeliverAB; PDeliverAB; PDeliverAB; PDeliverBA; PDeliverBA; PDeliverBA; PDeliverBA;
   PDeliverAB; PDeliverAB; PDeliverAB; PDeliverAB].
Definition c05_ex_at (k : nat) : plog :=
  nth k (lrun_trace c05_ex_events (linit c05_ex_ca c05_ex_cb)) (linit c05_ex_ca c05_ex_cb).

(* the same initiator with PersistMessages=N, and a run in which a lost message is gap-filled instead of replayed *)
Definition c05_ex_ca_nopersist : cfg :=
  {| c_role := Initiator; c_begin := 4; c_sender := B "A"; c_target := B "B"; c_reset_on_logon := false; c_reset_on_logout := false;
     c_reset_on_disconnect := false; c_refresh_on_logon := false; c_chunk := 0; c_hb := 30; c_hb_override := false;
     c_skip_latency := false; c_max_latency := 120; c_disable_persist := true; c_last_seq_processed := false;
     c_in_cap := 1%nat; c_appl_ver := [] |}.
Definition c05_ex_events_nopersist : list pev :=
  [PConnect; PDeliverAB; PDeliverBA; PSendA (B "o1"); PCut; PConnect; PDeliverAB; PDeliverBA; PTimerB NeedHeartbeat;
   PDeliverBA; PDeliverAB; PDeliverAB; PSendA (B "o2"); PDeliverAB; PDeliverAB].
