(* Two engines connected by FIFO links (DESIGN C05): an initiator A and an acceptor B, each the session model of
   Session/Model.v; the network moves the messages one side wrote to the other side's Incoming, may lose any suffix of
   what is in flight when the connection is cut, and either engine may be discarded and recreated on its store. *)
From Coq Require Import String.
From Coq Require Import ZArith List Bool.
From QF Require Import Base.Bytes Session.Types Session.Model Session.Spec.
Import ListNotations.
Open Scope string_scope.
Open Scope list_scope.
Open Scope Z_scope.

Definition fres_of_int (v : option bytes) : fres Z := match v with None => FAbsent | Some b => FVal (dec_z b) end.
Definition fres_of_bool (v : option bytes) : fres bool :=
  match v with
  | None => FAbsent
  | Some b => if beq_bytes b (B "Y") then FVal true else if beq_bytes b (B "N") then FVal false else FBad
  end.

(* what the receiving session reads from a message the sending session (configuration c) wrote; the harness delivers the
   bytes unchanged and immediately, so SendingTime is "now" and OrigSendingTime (when present) is not later *)
Definition minput_of (c : cfg) (m : omsg) : minput :=
  let special := [7; 16; 36; 98; 108; 112; 123; 141; 1137] in
  {| mi_type := o_type m;
     mi_begin := begin_string (c_begin c);
     mi_sender := Some (c_sender c);
     mi_target := Some (c_target c);
     mi_seq := FVal (o_seq m);
     mi_possdup := fres_of_bool (field_of 43 (o_hdr m));
     mi_stime := FVal 0;
     mi_otime := match field_of 122 (o_hdr m) with Some _ => FVal 0 | None => FAbsent end;
     mi_gapfill := fres_of_bool (field_of 123 (o_body m));
     mi_newseq := fres_of_int (field_of 36 (o_body m));
     mi_beginseq := fres_of_int (field_of 7 (o_body m));
     mi_endseq := fres_of_int (field_of 16 (o_body m));
     mi_reset := fres_of_bool (field_of 141 (o_body m));
     mi_hbint := fres_of_int (field_of 108 (o_body m));
     mi_testreq := field_of 112 (o_body m);
     mi_applver := field_of 1137 (o_body m);
     mi_route := [];
     mi_body := filter (fun f => negb (existsb (Z.eqb (fst f)) special)) (o_body m);
     mi_app := VAccept; mi_valid := VAccept; mi_refuse := [] |}.

Record pair := {
  p_a : sess;                 (* initiator *)
  p_b : sess;                 (* acceptor *)
  p_ab : list omsg;           (* in flight A -> B, oldest first *)
  p_ba : list omsg;           (* in flight B -> A *)
  p_up : bool                 (* the connection exists *)
}.

Inductive pev :=
| PConnect                                   (* (re)establish the connection: both sides get fresh channels, A sends its Logon *)
| PSendA (id : bytes) | PSendB (id : bytes)  (* SendToTarget of a NewOrderSingle with ClOrdID id, then the run loop's flush *)
| PDeliverAB | PDeliverBA                    (* the oldest message in flight reaches the other side *)
| PTimerA (t : tevent) | PTimerB (t : tevent)
| PCut                                       (* the connection breaks: everything still in flight is lost (deliver a prefix first to lose only a suffix) *)
| PRestartA | PRestartB                      (* the engine is discarded and recreated on its (persistent) store *)
| PStopA | PStopB.                           (* the engine is stopped (Initiator.Stop / Acceptor.Stop): it sends its Logout and
                                                waits for the answer; only a restart brings it back *)

(* after a step of one side, what it wrote goes on the link (when there is one) *)
Definition wrote (s : sess) : list omsg := rev (s_wire s).

Definition restart (s : sess) : sess :=
  let s0 := init_sess (s_cfg s) in
  upd_store s0 (s_snd s) (s_tgt s) (s_msgs s).

Definition app_body (id : bytes) : list (Z * bytes) := [(11, id); (55, B "X")].

Definition pstep (p : pair) (e : pev) : pair :=
  match e with
  | PConnect =>
      if p_up p then {| p_a := clear_logs (p_a p); p_b := clear_logs (p_b p); p_ab := p_ab p; p_ba := p_ba p; p_up := true |} else
      let a := step (p_a p) EConnect in
      let b := step (p_b p) EConnect in
      {| p_a := a; p_b := b; p_ab := wrote a; p_ba := wrote b; p_up := true |}
  | PSendA id =>
      let a1 := step (p_a p) (EAppSend (B "D") (app_body id) true) in
      let a2 := step a1 EFlush in
      {| p_a := a2; p_b := clear_logs (p_b p); p_ab := if p_up p then p_ab p ++ wrote a2 else []; p_ba := p_ba p; p_up := p_up p |}
  | PSendB id =>
      let b1 := step (p_b p) (EAppSend (B "D") (app_body id) true) in
      let b2 := step b1 EFlush in
      {| p_a := clear_logs (p_a p); p_b := b2; p_ab := p_ab p; p_ba := if p_up p then p_ba p ++ wrote b2 else []; p_up := p_up p |}
  | PDeliverAB =>
      match p_ab p with
      | [] => {| p_a := clear_logs (p_a p); p_b := clear_logs (p_b p); p_ab := []; p_ba := p_ba p; p_up := p_up p |}
      | m :: r =>
          let b := step (p_b p) (EIncoming (minput_of (s_cfg (p_a p)) m)) in
          {| p_a := clear_logs (p_a p); p_b := b; p_ab := r; p_ba := p_ba p ++ wrote b; p_up := p_up p |}
      end
  | PDeliverBA =>
      match p_ba p with
      | [] => {| p_a := clear_logs (p_a p); p_b := clear_logs (p_b p); p_ab := p_ab p; p_ba := []; p_up := p_up p |}
      | m :: r =>
          let a := step (p_a p) (EIncoming (minput_of (s_cfg (p_b p)) m)) in
          {| p_a := a; p_b := clear_logs (p_b p); p_ab := p_ab p ++ wrote a; p_ba := r; p_up := p_up p |}
      end
  | PTimerA t =>
      let a := step (p_a p) (ETimeout t) in
      {| p_a := a; p_b := clear_logs (p_b p); p_ab := if p_up p then p_ab p ++ wrote a else []; p_ba := p_ba p; p_up := p_up p |}
  | PTimerB t =>
      let b := step (p_b p) (ETimeout t) in
      {| p_a := clear_logs (p_a p); p_b := b; p_ab := p_ab p; p_ba := if p_up p then p_ba p ++ wrote b else []; p_up := p_up p |}
  | PStopA =>
      let a := step (p_a p) EStop in
      {| p_a := a; p_b := clear_logs (p_b p); p_ab := if p_up p then p_ab p ++ wrote a else []; p_ba := p_ba p; p_up := p_up p |}
  | PStopB =>
      let b := step (p_b p) EStop in
      {| p_a := clear_logs (p_a p); p_b := b; p_ab := p_ab p; p_ba := if p_up p then p_ba p ++ wrote b else []; p_up := p_up p |}
  | PCut =>
      let a := step (p_a p) EInClosed in
      let b := step (p_b p) EInClosed in
      {| p_a := a; p_b := b; p_ab := []; p_ba := []; p_up := false |}
  | PRestartA =>
      let b := step (p_b p) EInClosed in
      {| p_a := restart (p_a p); p_b := b; p_ab := []; p_ba := []; p_up := false |}
  | PRestartB =>
      let a := step (p_a p) EInClosed in
      {| p_a := a; p_b := restart (p_b p); p_ab := []; p_ba := []; p_up := false |}
  end.

Definition pinit (ca cb : cfg) : pair :=
  {| p_a := init_sess ca; p_b := init_sess cb; p_ab := []; p_ba := []; p_up := false |}.

Fixpoint prun_trace (es : list pev) (p : pair) : list pair :=
  match es with
  | [] => []
  | e :: r => let p' := pstep p e in p' :: prun_trace r p'
  end.

(* ---------- specification ---------- *)
(* ids handed to an application in one step *)
Definition delivered_ids (s : sess) : list bytes :=
  flat_map (fun c => match c with CbFromApp _ _ _ f => match mf_id f with Some i => [i] | None => [] end | _ => [] end) (rev (s_cbs s)).

Fixpoint is_prefix (a b : list bytes) : bool :=
  match a, b with
  | [], _ => true
  | x :: a', y :: b' => beq_bytes x y && is_prefix a' b'
  | _ :: _, [] => false
  end.

(* safety: what one side's application has received is a prefix of what the other side submitted, in order, no repeats *)
Definition c05_safe (sent delivered : list bytes) : bool := is_prefix delivered sent.
