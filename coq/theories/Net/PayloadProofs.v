(* C05, payload identity and exactly-once-in-order at payload level — proofs over the two-engine model (Net/Pair.v) with
   the books of Net/PairLog.v.
   Pair invariant: each side satisfies the session invariant SI of PayloadInv.v where "registered" (R) means "submitted by
   this side's application under this number" and "came off the link" (P) means "is what minput_of reads from a message the
   other side wrote, whose application payload is registered there (and, in regime NS, which is well formed with respect to
   the other side's store)"; everything in flight is such a message. *)
From Coq Require Import String.
From Coq Require Import ZArith List Bool Lia.
From QF Require Import Base.Bytes Session.Types Session.Model Session.Spec Session.C01Proofs Session.LocalProofs
  Session.ResendProofs Net.Pair Net.PairProofs Net.PairLog Net.PayloadInv.
Import ListNotations.
Open Scope list_scope.
Open Scope Z_scope.

(* ---------- the predicates ---------- *)
Definition R_of (sent : list plog_entry) (n : Z) (t : bytes) (body : list (Z * bytes)) : Prop :=
  t = B "D" /\ exists id, body = app_body id /\ In (n, id) sent.
(* number k was not given to an application message *)
Definition Skip_of (sent : list plog_entry) (k : Z) : Prop := forall id, ~ In (k, id) sent.

(* "came off the link": what the harness (minput_of, Net/Pair.v) makes of a message the peer (configuration c, next sender
   number snd, store msgs) wrote: application payload registered at the peer, and in regime NS shaped as PayloadInv.msg_shape_ok *)
Definition P_of (sent : list plog_entry) (NR NS : Prop) (c : cfg) (snd : Z) (msgs : list (Z * omsg)) (m : minput) : Prop :=
  exists om, m = minput_of c om /\ Wn (R_of sent) NR NS snd msgs om.

Lemma no_resets_flags c : no_resets c = true ->
  c_reset_on_logon c = false /\ c_reset_on_logout c = false /\ c_reset_on_disconnect c = false.
Proof.
  unfold no_resets. intros H. apply negb_true_iff in H. apply orb_false_elim in H as [H H3]. apply orb_false_elim in H as [H1 H2].
  repeat split; assumption.
Qed.

Lemma R_of_mono sent sent' : incl sent sent' -> forall n t b, R_of sent n t b -> R_of sent' n t b.
Proof. intros Hi n t b (Ht & id & Hb & Hin). split; [exact Ht|]. exists id. split; [exact Hb | apply Hi; exact Hin]. Qed.

Lemma Wn_mono sent sent' NR (NS : Prop) snd msgs snd' msgs' : incl sent sent' -> (NS -> Grows snd msgs snd' msgs') ->
  forall m, Wn (R_of sent) NR NS snd msgs m -> Wn (R_of sent') NR NS snd' msgs' m.
Proof.
  intros Hi Hg m [[A1 A2] A3]. split; [split; [intros Ha; eapply R_of_mono; [exact Hi | apply A1; exact Ha] | exact A2]|].
  intros Hns. eapply shape_grow; [apply Hg; exact Hns | apply A3; exact Hns].
Qed.
Lemma P_of_mono sent sent' NR (NS : Prop) c snd msgs snd' msgs' : incl sent sent' -> (NS -> Grows snd msgs snd' msgs') ->
  forall m, P_of sent NR NS c snd msgs m -> P_of sent' NR NS c snd' msgs' m.
Proof. intros Hi Hg m (om & E & Hw). exists om. split; [exact E | eapply Wn_mono; eassumption]. Qed.

(* the harness-level conversion keeps number, type and body of an application message *)
Lemma minput_of_payload c om id : o_body om = app_body id ->
  mi_type (minput_of c om) = o_type om /\ mi_body (minput_of c om) = o_body om /\ mi_seq (minput_of c om) = FVal (o_seq om).
Proof. intros Hb. unfold minput_of. cbn [mi_type mi_body mi_seq]. rewrite Hb. repeat split; reflexivity. Qed.

Lemma deliver_ok sent NR NS c snd msgs om : Wn (R_of sent) NR NS snd msgs om -> P_of sent NR NS c snd msgs (minput_of c om).
Proof. intros H. exists om. split; [reflexivity | exact H]. Qed.

(* such input is accepted by validator and application, carries a SendingTime, and under NR is not a resetting Logon *)
Lemma P_of_accept sent NR NS c snd msgs m : P_of sent NR NS c snd msgs m ->
  mi_valid m = VAccept /\ mi_app m = VAccept /\ exists d, mi_stime m = FVal d.
Proof. intros (om & -> & _). split; [reflexivity|]. split; [reflexivity|]. exists 0. reflexivity. Qed.
Lemma P_of_no_reset sent (NR NS : Prop) c snd msgs m : NR -> P_of sent NR NS c snd msgs m ->
  beq_bytes (mi_type m) T_LOGON = true -> mi_reset m <> FVal true.
Proof.
  intros Hnr (om & -> & [[_ A2] _]) Hl. change (mi_type (minput_of c om)) with (o_type om) in Hl.
  change (mi_reset (minput_of c om)) with (fres_of_bool (field_of 141 (o_body om))). rewrite (A2 Hnr Hl). discriminate.
Qed.
(* in regime NS it is well formed: PayloadInv.Pj with the peer's next sender number as bound *)
Lemma P_of_pj sent (NR NS : Prop) c snd msgs m : NS -> ids_set c -> (forall k, G snd msgs k -> Skip_of sent k) ->
  P_of sent NR NS c snd msgs m -> Pj snd (Skip_of sent) m.
Proof.
  intros Hns [I1 I2] Hsk (om & -> & [_ A3]). destruct (A3 Hns) as (S1 & S2 & S3 & S4).
  split; [split; [exists (c_sender c) | exists (c_target c)]; split; try reflexivity; assumption|]. split; [reflexivity|].
  exists (o_seq om). split; [reflexivity|]. split; [exact S1|].
  change (mi_type (minput_of c om)) with (o_type om). split; [|split].
  - intros Ha Hs. apply Hsk. apply S2; assumption.
  - intros Hs. destruct (S3 Hs) as (F1 & e & F2 & F3 & F4).
    change (mi_gapfill (minput_of c om)) with (fres_of_bool (field_of 123 (o_body om))).
    change (mi_newseq (minput_of c om)) with (fres_of_int (field_of 36 (o_body om))). rewrite F1, F2.
    split; [reflexivity|]. exists e. cbn [fres_of_int]. rewrite dec_z_itoa. split; [reflexivity|]. split; [exact F3|].
    intros k Hk. apply Hsk, F4, Hk.
  - intros Hr. destruct (S4 Hr) as [F1 F2].
    change (mi_beginseq (minput_of c om)) with (fres_of_int (field_of 7 (o_body om))).
    change (mi_endseq (minput_of c om)) with (fres_of_int (field_of 16 (o_body om))).
    destruct (field_of 7 (o_body om)) as [x|]; [|contradiction]. destruct (field_of 16 (o_body om)) as [y|]; [|contradiction].
    split; eexists; reflexivity.
Qed.

(* ---------- one side, with the other side as parameter ---------- *)
Section Side.
Variable NR NS : Prop.
Variables c cp : cfg.                          (* this side's configuration, the peer's *)
Hypothesis HNR : NR -> no_resets c = true.
Hypothesis HNS : NS -> NR /\ c_disable_persist c = false.
Hypothesis HID : NS -> ids_set cp.

(* own books so, the peer's books sp, the peer's session *)
Definition SIs (so sp : list plog_entry) (peer : sess) (n0 : Z) (m0 : list (Z * omsg)) (t0 : Z) (s : sess) : Prop :=
  SI c (R_of so) (P_of sp NR NS cp (s_snd peer) (s_msgs peer)) NR n0 m0 NS t0 (s_snd peer) (Skip_of sp) s.

Definition skip_ok (sp : list plog_entry) (peer : sess) : Prop :=
  NS -> forall k, G (s_snd peer) (s_msgs peer) k -> Skip_of sp k.

Lemma act_step so sp peer n0 m0 t0 s e :
  SIs so sp peer n0 m0 t0 s -> skip_ok sp peer ->
  ev_ok (R_of so) (P_of sp NR NS cp (s_snd peer) (s_msgs peer)) NR s e ->
  SIs so sp peer (s_snd s) (s_msgs s) (s_tgt s) (step s e).
Proof.
  intros H Hsk He. unfold SIs. eapply si_step; try eassumption.
  - apply P_of_accept.
  - intros Hnr. apply no_resets_flags, HNR, Hnr.
  - intros Hnr m. apply P_of_no_reset; exact Hnr.
  - intros Hns m. apply P_of_pj; [exact Hns | apply HID; exact Hns | apply Hsk; exact Hns].
Qed.

(* this side idles while the peer (and the books) move on *)
Lemma pas_idle so sp so' sp' peer peer' n0 m0 t0 s :
  SIs so sp peer n0 m0 t0 s -> incl so so' -> incl sp sp' ->
  (NS -> Grows (s_snd peer) (s_msgs peer) (s_snd peer') (s_msgs peer')) ->
  SIs so' sp' peer' (s_snd s) (s_msgs s) (s_tgt s) (clear_logs s).
Proof.
  intros H Ho Hp Hg. unfold SIs.
  apply (si_clear_logs _ _ _ _ n0 m0 _ t0 (s_snd peer) (Skip_of sp)); [intros Hns; apply (Hg Hns)|].
  eapply si_mono; [apply R_of_mono; exact Ho | apply P_of_mono; [exact Hp | exact Hg] | intros _; apply Z.le_refl | intros k Hk; exact Hk | exact H].
Qed.

(* the peer moved (store grew), the books did not *)
Lemma peer_moved so sp peer peer' n0 m0 t0 s :
  SIs so sp peer n0 m0 t0 s -> (NS -> Grows (s_snd peer) (s_msgs peer) (s_snd peer') (s_msgs peer')) ->
  SIs so sp peer' n0 m0 t0 s.
Proof.
  intros H Hg. unfold SIs.
  eapply si_mono; [intros n t b Hr; exact Hr | apply P_of_mono; [apply incl_refl | exact Hg] | intros Hns; apply (Hg Hns) | intros k Hk; exact Hk | exact H].
Qed.

Lemma sis_grows so sp peer s0 t0 s' : SIs so sp peer (s_snd s0) (s_msgs s0) t0 s' -> NS ->
  Grows (s_snd s0) (s_msgs s0) (s_snd s') (s_msgs s').
Proof.
  intros H Hns. destruct (HNS Hns) as [Hnr _]. pose proof (si_no_reset _ _ _ _ _ _ _ _ _ _ _ H Hnr) as Hno.
  destruct H as (_&_&_&_&_&_&_&[H8|(A1 & A2 & A3)]&_); [contradiction|]. split; [exact A1 | exact A3].
Qed.

Lemma sis_wrote so sp peer n0 m0 t0 s : SIs so sp peer n0 m0 t0 s -> Forall (Wn (R_of so) NR NS (s_snd s) (s_msgs s)) (wrote s).
Proof. intros (_&_&_&H4&_). unfold wrote. apply Forall_rev. exact H4. Qed.

Lemma sis_restart so sp peer n0 m0 t0 s : SIs so sp peer n0 m0 t0 s -> SIs so sp peer (s_snd s) (s_msgs s) (s_tgt s) (restart s).
Proof.
  clear HNR HNS HID. intros (H1&H2&H3&H4&H5&H6&H7&H8&H9). unfold SIs, restart, upd_store, init_sess.
  split; [exact H1|]. split; [exact H2|]. split; [constructor|]. split; [constructor|]. split; [exact I|].
  split; [intros m []|]. split; [constructor|]. split.
  - right. split; [apply Z.le_refl|]. split; [apply incl_refl | intros k sm Hin; left; exact Hin].
  - intros Hns. destruct (H9 Hns) as (_ & J2 & _). cbn [s_tgt s_cbs]. split; [apply Z.le_refl|]. split; [exact J2 | intros k Hk; lia].
Qed.

Lemma sis_init so sp peer : 1 <= s_snd peer -> SIs so sp peer 1 [] 1 (init_sess c).
Proof.
  clear HNR HNS HID. intros Hp. unfold SIs, init_sess. split; [reflexivity|]. split; [exact I|]. split; [constructor|]. split; [constructor|]. split; [exact I|].
  split; [intros m []|]. split; [constructor|]. split.
  - right. split; [apply Z.le_refl|]. split; [apply incl_refl | intros k sm []].
  - intros _. cbn [s_tgt s_cbs]. split; [apply Z.le_refl|]. split; [exact Hp | intros k Hk; lia].
Qed.

(* submit + flush *)
Lemma send_step so sp peer n0 m0 t0 s id :
  SIs so sp peer n0 m0 t0 s -> skip_ok sp peer -> In (s_snd s, id) so ->
  SIs so sp peer (s_snd s) (s_msgs s) (s_tgt s) (step (step s (EAppSend (B "D") (app_body id) true)) EFlush).
Proof.
  intros H Hsk Hin.
  assert (H1 : SIs so sp peer (s_snd s) (s_msgs s) (s_tgt s) (step s (EAppSend (B "D") (app_body id) true))).
  { apply (act_step _ _ _ n0 m0 t0); [exact H | exact Hsk|]. split; [reflexivity|]. intros _. split; [reflexivity|].
    exists id. split; [reflexivity | exact Hin]. }
  pose proof (act_step _ _ _ _ _ _ _ EFlush H1 Hsk I) as H2.
  assert (Hfacts : s_snd s <= s_snd (step s (EAppSend (B "D") (app_body id) true))
                   /\ incl (s_msgs s) (s_msgs (step s (EAppSend (B "D") (app_body id) true)))
                   /\ (forall k sm, In (k, sm) (s_msgs (step s (EAppSend (B "D") (app_body id) true))) -> In (k, sm) (s_msgs s) \/ s_snd s <= k)
                   /\ s_tgt (step s (EAppSend (B "D") (app_body id) true)) = s_tgt s).
  { unfold step, step_event, queue_for_send, prep. change (is_admin (B "D")) with false. cbn iota.
    unfold enqueue, persist, log_cb. cbn [s_cfg upd_logs clear_logs upd_chan].
    destruct (c_disable_persist (s_cfg s)); cbn; (split; [lia|]); (split; [|split; [|reflexivity]]).
    - apply incl_refl.
    - intros k sm Hx; left; exact Hx.
    - intros x Hx; right; exact Hx.
    - intros k sm [E|Hx]; [inversion E; subst; right; lia | left; exact Hx]. }
  destruct Hfacts as (F1 & F2 & F3 & F4). rewrite F4 in H2. unfold SIs in *. eapply si_rebase; [exact H2 | exact F1 | exact F2 | exact F3].
Qed.
End Side.

(* submitting one application message and flushing: the number assigned is the next sender number, the message is stored under it *)
Lemma app_send_facts s body :
  let s1 := step s (EAppSend (B "D") body true) in
  s_cbs s1 = [CbToApp (s_snd s) false] /\ s_snd s1 = s_snd s + 1 /\ s_tgt s1 = s_tgt s /\ s_cfg s1 = s_cfg s
  /\ (c_disable_persist (s_cfg s) = true -> s_msgs s1 = s_msgs s)
  /\ (c_disable_persist (s_cfg s) = false ->
      exists om, s_msgs s1 = (s_snd s, om) :: s_msgs s /\ o_type om = B "D" /\ o_body om = body /\ o_seq om = s_snd s).
Proof.
  intros s1. unfold s1, step, step_event, queue_for_send, prep. change (is_admin (B "D")) with false. cbn iota.
  unfold enqueue, persist, log_cb. cbn [s_cfg upd_logs clear_logs upd_chan].
  destruct (c_disable_persist (s_cfg s)); cbn; repeat split; try reflexivity; try discriminate.
  intros _. eexists. repeat split; reflexivity.
Qed.

Lemma flush_facts s :
  let s2 := step s EFlush in
  s_cbs s2 = [] /\ s_snd s2 = s_snd s /\ s_tgt s2 = s_tgt s /\ s_msgs s2 = s_msgs s /\ s_cfg s2 = s_cfg s.
Proof.
  intros s2. unfold s2, step, step_event.
  destruct (is_logged_on _); [unfold send_queued; destruct (s_out_open _)|]; cbn; repeat split; reflexivity.
Qed.

Lemma send_flush_facts s id :
  let s2 := step (step s (EAppSend (B "D") (app_body id) true)) EFlush in
  s_cbs s2 = [] /\ s_snd s2 = s_snd s + 1 /\ s_tgt s2 = s_tgt s
  /\ (c_disable_persist (s_cfg s) = true -> s_msgs s2 = s_msgs s)
  /\ (c_disable_persist (s_cfg s) = false ->
      exists om, s_msgs s2 = (s_snd s, om) :: s_msgs s /\ is_app_payload_o id om /\ o_seq om = s_snd s).
Proof.
  intros s2. destruct (app_send_facts s (app_body id)) as (A1 & A2 & A3 & A4 & A5 & A6).
  destruct (flush_facts (step s (EAppSend (B "D") (app_body id) true))) as (F1 & F2 & F3 & F4 & F5).
  fold s2 in F1, F2, F3, F4, F5. split; [exact F1|]. split; [rewrite F2; exact A2|]. split; [rewrite F3; exact A3|].
  split; [intros Hp; rewrite F4; apply A5; exact Hp|].
  intros Hp. destruct (A6 Hp) as (om & B1 & B2 & B3 & B4). exists om. split; [rewrite F4; exact B1|]. split; [split; assumption | exact B4].
Qed.

(* ---------- the epoch books of one side ---------- *)
Definition EI (c : cfg) (s : sess) (sent epoch : list plog_entry) : Prop :=
  (forall n id, In (n, id) epoch ->
     n < s_snd s /\ In (n, id) sent
     /\ (c_disable_persist c = false -> exists om, In (n, om) (s_msgs s) /\ is_app_payload_o id om))
  /\ inc_keys epoch.

Lemma inc_keys_snoc : forall l x, inc_keys l -> (forall y, In y l -> fst y < fst x) -> inc_keys (l ++ [x]).
Proof.
  induction l as [|a r IH]; intros x Hi Hlt; cbn [app inc_keys]; [split; [intros y [] | exact I]|].
  destruct Hi as [H1 H2]. split.
  - intros y Hy. apply in_app_or in Hy as [Hy|[<-|[]]]; [apply H1; exact Hy | apply Hlt; left; reflexivity].
  - apply IH; [exact H2 | intros y Hy; apply Hlt; right; exact Hy].
Qed.

Lemma inc_keys_fun : forall l n i j, inc_keys l -> In (n, i) l -> In (n, j) l -> i = j.
Proof.
  induction l as [|a r IH]; intros n i j Hi H1 H2; [destruct H1|]. destruct Hi as [Ha Hr].
  destruct H1 as [->|H1], H2 as [E|H2].
  - inversion E; reflexivity.
  - specialize (Ha _ H2). cbn in Ha. lia.
  - subst a. specialize (Ha _ H1). cbn in Ha. lia.
  - eapply IH; eassumption.
Qed.

Lemma ei_quiet c s s' sent epoch : EI c s sent epoch -> snd_ok (s_snd s) (s_msgs s) s' ->
  EI c s' sent (if has_reset (s_cbs s') then [] else epoch).
Proof.
  intros [H1 H2] Hs. destruct (has_reset (s_cbs s')) eqn:Er; [split; [intros n id [] | exact I]|].
  destruct Hs as [Hs|(Hs1 & Hs2 & _)]; [apply has_reset_in in Hs; congruence|].
  split; [|exact H2]. intros n id Hin. destruct (H1 n id Hin) as (A1 & A2 & A3). split; [lia|]. split; [exact A2|].
  intros Hp. destruct (A3 Hp) as (om & B1 & B2). exists om. split; [apply Hs2; exact B1 | exact B2].
Qed.

Lemma ei_send c s id sent epoch : s_cfg s = c -> EI c s sent epoch ->
  let s2 := step (step s (EAppSend (B "D") (app_body id) true)) EFlush in
  EI c s2 (sent ++ [(s_snd s, id)]) ((if has_reset (s_cbs s2) then [] else epoch) ++ [(s_snd s, id)]).
Proof.
  intros Hc [H1 H2] s2. destruct (send_flush_facts s id) as (F1 & F2 & _ & F4 & F5). fold s2 in F1, F2, F4, F5.
  rewrite F1. cbn [has_reset existsb]. rewrite Hc in F4, F5. split.
  - intros n i Hin. apply in_app_or in Hin as [Hin|[E|[]]].
    + destruct (H1 n i Hin) as (A1 & A2 & A3). split; [lia|]. split; [apply in_or_app; left; exact A2|].
      intros Hp. destruct (A3 Hp) as (om & B1 & B2). exists om. split; [|exact B2].
      destruct (F5 Hp) as (om2 & E2 & _). rewrite E2. right. exact B1.
    + inversion E; subst n i. split; [lia|]. split; [apply in_or_app; right; left; reflexivity|].
      intros Hp. destruct (F5 Hp) as (om2 & E2 & B2 & _). exists om2. split; [rewrite E2; left; reflexivity | exact B2].
  - apply inc_keys_snoc; [exact H2|]. intros [n i] Hy. destruct (H1 n i Hy) as (A1 & _). cbn. exact A1.
Qed.

(* ---------- the delivery books of one side ---------- *)
Definition DI (s : sess) (dlv : list plog_entry) : Prop := inc_keys dlv /\ forall x, In x dlv -> fst x < s_tgt s.

Definition handed_l (l : list cb) : list plog_entry :=
  flat_map (fun c => match c with
                     | CbFromApp (FVal n) _ _ f => match mf_id f with Some i => [(n, i)] | None => [] end
                     | _ => []
                     end) l.

Lemma scan_handed : forall l lb lb', c01_scan_cbs lb l = Some lb' -> ~ In CbStoreReset l ->
  (forall q t v f, In (CbFromApp q t v f) l -> v = VAccept) ->
  lb <= lb' /\ inc_keys (handed_l l) /\ forall x, In x (handed_l l) -> lb <= fst x < lb'.
Proof.
  induction l as [|x r IH]; intros lb lb' Hs Hnr Hv; cbn [c01_scan_cbs] in Hs.
  - inversion Hs; subst. split; [lia|]. split; [exact I | intros x []].
  - assert (Hnr' : ~ In CbStoreReset r) by (intros Hin; apply Hnr; right; exact Hin).
    assert (Hv' : forall q t v f, In (CbFromApp q t v f) r -> v = VAccept) by (intros q t v f Hin; apply (Hv q t v f); right; exact Hin).
    destruct x as [q t v f|t q f|q pd|t| | |]; try (apply IH; assumption); [|exfalso; apply Hnr; left; reflexivity].
    destruct q as [| |n]; try discriminate.
    destruct ((n =? t) && (lb <=? n)) eqn:Ec; [|discriminate]. apply andb_true_iff in Ec as [_ Ec]. apply Z.leb_le in Ec.
    rewrite (Hv _ _ _ _ (or_introl eq_refl)) in Hs. cbn [consumes] in Hs.
    destruct (IH _ _ Hs Hnr' Hv') as (A1 & A2 & A3).
    split; [lia|]. unfold handed_l. cbn [flat_map]. fold (handed_l r).
    destruct (mf_id f) as [i|]; cbn [app].
    + split; [|intros y [<-|Hy]; [cbn|specialize (A3 y Hy)]; lia]. split; [|exact A2].
      intros y Hy. specialize (A3 y Hy). cbn. lia.
    + split; [exact A2|]. intros y Hy. specialize (A3 y Hy). lia.
Qed.

Lemma handed_eq s : handed s = handed_l (rev (s_cbs s)).
Proof. reflexivity. Qed.

Lemma di_step s s' dlv : DI s dlv -> Succ s s' -> ~ In CbStoreReset (s_cbs s') ->
  (forall q t v f, In (CbFromApp q t v f) (s_cbs s') -> v = VAccept) ->
  DI s' (dlv ++ handed s').
Proof.
  intros [D1 D2] Hs Hnr Hv. destruct (Hs (s_tgt s) (Z.le_refl _)) as (lb' & H1 & H2).
  destruct (scan_handed _ _ _ H1) as (A1 & A2 & A3).
  { intros Hin. apply Hnr. apply in_rev. exact Hin. }
  { intros q t v f Hin. apply (Hv q t v f). apply in_rev. exact Hin. }
  rewrite handed_eq. split.
  - revert D1 D2. generalize (handed_l (rev (s_cbs s'))) A2 A3. clear. intros h A2 A3.
    induction dlv as [|x r IH]; intros D1 D2; cbn [app]; [exact A2|]. destruct D1 as [E1 E2]. split.
    + intros y Hy. apply in_app_or in Hy as [Hy|Hy]; [apply E1; exact Hy|].
      specialize (A3 y Hy). specialize (D2 x (or_introl eq_refl)). lia.
    + apply IH; [exact E2 | intros y Hy; apply D2; right; exact Hy].
  - intros x Hx. apply in_app_or in Hx as [Hx|Hx]; [specialize (D2 x Hx) | specialize (A3 x Hx)]; lia.
Qed.


(* ---------- the pair invariant ---------- *)
Section PairInv.
Variables ca cb : cfg.
Variable NR NS : Prop.
Hypothesis HNRa : NR -> no_resets ca = true.
Hypothesis HNRb : NR -> no_resets cb = true.
Hypothesis HNSa : NS -> NR /\ c_disable_persist ca = false.
Hypothesis HNSb : NS -> NR /\ c_disable_persist cb = false.
Hypothesis HIDa : NS -> ids_set ca.
Hypothesis HIDb : NS -> ids_set cb.

(* side A (books sa) against B (books sb, session b), and the other way round *)
Definition SIa (sa sb : list plog_entry) (b : sess) := SIs NR NS ca cb sa sb b.
Definition SIb (sa sb : list plog_entry) (a : sess) := SIs NR NS cb ca sb sa a.
Definition Chan (so : list plog_entry) (s : sess) (l : list omsg) : Prop := Forall (Wn (R_of so) NR NS (s_snd s) (s_msgs s)) l.
Definition skip_a (g : plog) : Prop := skip_ok NS (l_sent_a g) (p_a (l_p g)).
Definition skip_b (g : plog) : Prop := skip_ok NS (l_sent_b g) (p_b (l_p g)).

Definition PI (g : plog) : Prop :=
  (exists n0 m0 t0, SIa (l_sent_a g) (l_sent_b g) (p_b (l_p g)) n0 m0 t0 (p_a (l_p g)))
  /\ (exists n0 m0 t0, SIb (l_sent_a g) (l_sent_b g) (p_a (l_p g)) n0 m0 t0 (p_b (l_p g)))
  /\ Chan (l_sent_a g) (p_a (l_p g)) (p_ab (l_p g))
  /\ Chan (l_sent_b g) (p_b (l_p g)) (p_ba (l_p g)).

(* what one step establishes, each side relative to its state before the step *)
Definition PI' (g g' : plog) : Prop :=
  SIa (l_sent_a g') (l_sent_b g') (p_b (l_p g')) (s_snd (p_a (l_p g))) (s_msgs (p_a (l_p g))) (s_tgt (p_a (l_p g))) (p_a (l_p g'))
  /\ SIb (l_sent_a g') (l_sent_b g') (p_a (l_p g')) (s_snd (p_b (l_p g))) (s_msgs (p_b (l_p g))) (s_tgt (p_b (l_p g))) (p_b (l_p g'))
  /\ Chan (l_sent_a g') (p_a (l_p g')) (p_ab (l_p g'))
  /\ Chan (l_sent_b g') (p_b (l_p g')) (p_ba (l_p g')).

Lemma pi'_pi g g' : PI' g g' -> PI g'.
Proof.
  intros (H1 & H2 & H3 & H4). split; [eexists; eexists; eexists; exact H1|]. split; [eexists; eexists; eexists; exact H2|]. split; assumption.
Qed.

Lemma chan_lift so so' s s' l : incl so so' -> (NS -> Grows (s_snd s) (s_msgs s) (s_snd s') (s_msgs s')) -> Chan so s l -> Chan so' s' l.
Proof. intros Hi Hg. apply Forall_impl. intros m. apply Wn_mono; assumption. Qed.

Lemma sis_books c cp so so' sp peer n0 m0 t0 s : incl so so' -> SIs NR NS c cp so sp peer n0 m0 t0 s -> SIs NR NS c cp so' sp peer n0 m0 t0 s.
Proof.
  intros Hi H. unfold SIs in *. eapply si_mono; [apply R_of_mono; exact Hi | intros m Hm; exact Hm | intros _; apply Z.le_refl | intros k Hk; exact Hk | exact H].
Qed.

Lemma lstep_inv g e : PI g -> skip_a g -> skip_b g -> PI' g (lstep g e).
Proof.
  destruct g as [p sa sb ea eb da db]. unfold skip_a, skip_b. cbn [l_p l_sent_a l_sent_b].
  intros ((n0 & m0 & t0 & Ha) & (n1 & m1 & t1 & Hb) & Hab & Hba) Hska Hskb.
  cbn [l_p l_sent_a l_sent_b] in Ha, Hb, Hab, Hba.
  pose proof (si_cfg _ _ _ _ _ _ _ _ _ _ _ Ha) as Hcfa. pose proof (si_cfg _ _ _ _ _ _ _ _ _ _ _ Hb) as Hcfb.
  (* the generic moves *)
  assert (Aact : forall e0, ev_ok (R_of sa) (P_of sb NR NS cb (s_snd (p_b p)) (s_msgs (p_b p))) NR (p_a p) e0 ->
            SIa sa sb (p_b p) (s_snd (p_a p)) (s_msgs (p_a p)) (s_tgt (p_a p)) (step (p_a p) e0)).
  { intros e0 He0. eapply (act_step NR NS ca cb HNRa HNSa HIDb); eassumption. }
  assert (Bact : forall e0, ev_ok (R_of sb) (P_of sa NR NS ca (s_snd (p_a p)) (s_msgs (p_a p))) NR (p_b p) e0 ->
            SIb sa sb (p_a p) (s_snd (p_b p)) (s_msgs (p_b p)) (s_tgt (p_b p)) (step (p_b p) e0)).
  { intros e0 He0. eapply (act_step NR NS cb ca HNRb HNSb HIDa); eassumption. }
  assert (Aidle : forall sa' sb' b', incl sa sa' -> incl sb sb' -> (NS -> Grows (s_snd (p_b p)) (s_msgs (p_b p)) (s_snd b') (s_msgs b')) ->
            SIa sa' sb' b' (s_snd (p_a p)) (s_msgs (p_a p)) (s_tgt (p_a p)) (clear_logs (p_a p))).
  { intros sa' sb' b' I1 I2 Hg. eapply (pas_idle NR NS ca cb); eassumption. }
  assert (Bidle : forall sa' sb' a', incl sa sa' -> incl sb sb' -> (NS -> Grows (s_snd (p_a p)) (s_msgs (p_a p)) (s_snd a') (s_msgs a')) ->
            SIb sa' sb' a' (s_snd (p_b p)) (s_msgs (p_b p)) (s_tgt (p_b p)) (clear_logs (p_b p))).
  { intros sa' sb' a' I1 I2 Hg. eapply (pas_idle NR NS cb ca); eassumption. }
  assert (Agrow : forall sa' sb' b' t a', SIa sa' sb' b' (s_snd (p_a p)) (s_msgs (p_a p)) t a' -> NS ->
            Grows (s_snd (p_a p)) (s_msgs (p_a p)) (s_snd a') (s_msgs a')).
  { intros sa' sb' b' t a' Hx. apply (sis_grows NR NS ca cb HNSa _ _ _ _ _ _ Hx). }
  assert (Bgrow : forall sa' sb' a' t b', SIb sa' sb' a' (s_snd (p_b p)) (s_msgs (p_b p)) t b' -> NS ->
            Grows (s_snd (p_b p)) (s_msgs (p_b p)) (s_snd b') (s_msgs b')).
  { intros sa' sb' a' t b' Hx. apply (sis_grows NR NS cb ca HNSb _ _ _ _ _ _ Hx). }
  assert (Rfl : forall s : sess, NS -> Grows (s_snd s) (s_msgs s) (s_snd s) (s_msgs s)) by (intros s _; apply grows_refl).
  unfold PI', lstep. cbn [l_p l_sent_a l_sent_b].
  destruct e as [|id|id| | |t|t| | | | |]; cbn [pstep]; rewrite ?app_nil_r.
  - (* connect *)
    destruct (p_up p); cbn [p_a p_b p_ab p_ba].
    + split; [apply Aidle; [apply incl_refl | apply incl_refl | intros _; apply grows_refl]|].
      split; [apply Bidle; [apply incl_refl | apply incl_refl | intros _; apply grows_refl]|]. split; [exact Hab | exact Hba].
    + pose proof (Aact EConnect I) as Ha'. pose proof (Bact EConnect I) as Hb'.
      pose proof (Agrow _ _ _ _ _ Ha') as Ga. pose proof (Bgrow _ _ _ _ _ Hb') as Gb.
      assert (Ha2 := peer_moved NR NS ca cb _ _ _ _ _ _ _ _ Ha' Gb). assert (Hb2 := peer_moved NR NS cb ca _ _ _ _ _ _ _ _ Hb' Ga).
      split; [exact Ha2|]. split; [exact Hb2|]. split; [eapply sis_wrote; exact Ha2 | eapply sis_wrote; exact Hb2].
  - (* send A *)
    cbn [p_a p_b p_ab p_ba].
    assert (Hi : incl sa (sa ++ [(s_snd (p_a p), id)])) by (intros x Hx; apply in_or_app; left; exact Hx).
    assert (Ha' : SIa (sa ++ [(s_snd (p_a p), id)]) sb (p_b p) (s_snd (p_a p)) (s_msgs (p_a p)) (s_tgt (p_a p))
                    (step (step (p_a p) (EAppSend (B "D") (app_body id) true)) EFlush)).
    { eapply (send_step NR NS ca cb HNRa HNSa HIDb); [eapply sis_books; [exact Hi | exact Ha] | exact Hskb|].
      apply in_or_app; right; left; reflexivity. }
    pose proof (Agrow _ _ _ _ _ Ha') as Ga.
    split; [exact Ha'|]. split; [apply Bidle; [exact Hi | apply incl_refl | exact Ga]|]. split; [|exact Hba].
    destruct (p_up p); [|constructor]. apply Forall_app. split; [eapply chan_lift; [exact Hi | exact Ga | exact Hab] | eapply sis_wrote; exact Ha'].
  - (* send B *)
    cbn [p_a p_b p_ab p_ba].
    assert (Hi : incl sb (sb ++ [(s_snd (p_b p), id)])) by (intros x Hx; apply in_or_app; left; exact Hx).
    assert (Hb' : SIb sa (sb ++ [(s_snd (p_b p), id)]) (p_a p) (s_snd (p_b p)) (s_msgs (p_b p)) (s_tgt (p_b p))
                    (step (step (p_b p) (EAppSend (B "D") (app_body id) true)) EFlush)).
    { eapply (send_step NR NS cb ca HNRb HNSb HIDa); [eapply sis_books; [exact Hi | exact Hb] | exact Hska|].
      apply in_or_app; right; left; reflexivity. }
    pose proof (Bgrow _ _ _ _ _ Hb') as Gb.
    split; [apply Aidle; [apply incl_refl | exact Hi | exact Gb]|]. split; [exact Hb'|]. split; [exact Hab|].
    destruct (p_up p); [|constructor]. apply Forall_app. split; [eapply chan_lift; [exact Hi | exact Gb | exact Hba] | eapply sis_wrote; exact Hb'].
  - (* deliver A -> B *)
    destruct (p_ab p) as [|m r] eqn:Eab; cbn [p_a p_b p_ab p_ba].
    + split; [apply Aidle; [apply incl_refl | apply incl_refl | intros _; apply grows_refl]|].
      split; [apply Bidle; [apply incl_refl | apply incl_refl | intros _; apply grows_refl]|]. split; [constructor | exact Hba].
    + inversion Hab as [|m' r' Hm Hr]; subst m' r'.
      assert (Hb' : SIb sa sb (p_a p) (s_snd (p_b p)) (s_msgs (p_b p)) (s_tgt (p_b p)) (step (p_b p) (EIncoming (minput_of (s_cfg (p_a p)) m)))).
      { apply Bact. cbn [ev_ok]. rewrite Hcfa. apply deliver_ok. exact Hm. }
      pose proof (Bgrow _ _ _ _ _ Hb') as Gb.
      split; [apply Aidle; [apply incl_refl | apply incl_refl | exact Gb]|]. split; [exact Hb'|]. split; [exact Hr|].
      apply Forall_app. split; [eapply chan_lift; [apply incl_refl | exact Gb | exact Hba] | eapply sis_wrote; exact Hb'].
  - (* deliver B -> A *)
    destruct (p_ba p) as [|m r] eqn:Eba; cbn [p_a p_b p_ab p_ba].
    + split; [apply Aidle; [apply incl_refl | apply incl_refl | intros _; apply grows_refl]|].
      split; [apply Bidle; [apply incl_refl | apply incl_refl | intros _; apply grows_refl]|]. split; [exact Hab | constructor].
    + inversion Hba as [|m' r' Hm Hr]; subst m' r'.
      assert (Ha' : SIa sa sb (p_b p) (s_snd (p_a p)) (s_msgs (p_a p)) (s_tgt (p_a p)) (step (p_a p) (EIncoming (minput_of (s_cfg (p_b p)) m)))).
      { apply Aact. cbn [ev_ok]. rewrite Hcfb. apply deliver_ok. exact Hm. }
      pose proof (Agrow _ _ _ _ _ Ha') as Ga.
      split; [exact Ha'|]. split; [apply Bidle; [apply incl_refl | apply incl_refl | exact Ga]|]. split; [|exact Hr].
      apply Forall_app. split; [eapply chan_lift; [apply incl_refl | exact Ga | exact Hab] | eapply sis_wrote; exact Ha'].
  - (* timer A *)
    cbn [p_a p_b p_ab p_ba]. pose proof (Aact (ETimeout t) I) as Ha'. pose proof (Agrow _ _ _ _ _ Ha') as Ga.
    split; [exact Ha'|]. split; [apply Bidle; [apply incl_refl | apply incl_refl | exact Ga]|]. split; [|exact Hba].
    destruct (p_up p); [|constructor]. apply Forall_app. split; [eapply chan_lift; [apply incl_refl | exact Ga | exact Hab] | eapply sis_wrote; exact Ha'].
  - (* timer B *)
    cbn [p_a p_b p_ab p_ba]. pose proof (Bact (ETimeout t) I) as Hb'. pose proof (Bgrow _ _ _ _ _ Hb') as Gb.
    split; [apply Aidle; [apply incl_refl | apply incl_refl | exact Gb]|]. split; [exact Hb'|]. split; [exact Hab|].
    destruct (p_up p); [|constructor]. apply Forall_app. split; [eapply chan_lift; [apply incl_refl | exact Gb | exact Hba] | eapply sis_wrote; exact Hb'].
  - (* cut *)
    cbn [p_a p_b p_ab p_ba]. pose proof (Aact EInClosed I) as Ha'. pose proof (Bact EInClosed I) as Hb'.
    pose proof (Agrow _ _ _ _ _ Ha') as Ga. pose proof (Bgrow _ _ _ _ _ Hb') as Gb.
    split; [exact (peer_moved NR NS ca cb _ _ _ _ _ _ _ _ Ha' Gb)|]. split; [exact (peer_moved NR NS cb ca _ _ _ _ _ _ _ _ Hb' Ga)|].
    split; constructor.
  - (* restart A *)
    cbn [p_a p_b p_ab p_ba]. pose proof (Bact EInClosed I) as Hb'. pose proof (Bgrow _ _ _ _ _ Hb') as Gb.
    assert (Ha' := sis_restart NR NS ca cb _ _ _ _ _ _ _ Ha).
    split; [exact (peer_moved NR NS ca cb _ _ _ _ _ _ _ _ Ha' Gb)|]. split; [|split; constructor].
    apply (peer_moved NR NS cb ca _ _ _ (restart (p_a p)) _ _ _ _ Hb'). intros _. apply grows_refl.
  - (* restart B *)
    cbn [p_a p_b p_ab p_ba]. pose proof (Aact EInClosed I) as Ha'. pose proof (Agrow _ _ _ _ _ Ha') as Ga.
    assert (Hb' := sis_restart NR NS cb ca _ _ _ _ _ _ _ Hb).
    split; [|split; [exact (peer_moved NR NS cb ca _ _ _ _ _ _ _ _ Hb' Ga) | split; constructor]].
    apply (peer_moved NR NS ca cb _ _ _ (restart (p_b p)) _ _ _ _ Ha'). intros _. apply grows_refl.
  - (* stop A *)
    cbn [p_a p_b p_ab p_ba]. pose proof (Aact EStop I) as Ha'. pose proof (Agrow _ _ _ _ _ Ha') as Ga.
    split; [exact Ha'|]. split; [apply Bidle; [apply incl_refl | apply incl_refl | exact Ga]|]. split; [|exact Hba].
    destruct (p_up p); [|constructor]. apply Forall_app. split; [eapply chan_lift; [apply incl_refl | exact Ga | exact Hab] | eapply sis_wrote; exact Ha'].
  - (* stop B *)
    cbn [p_a p_b p_ab p_ba]. pose proof (Bact EStop I) as Hb'. pose proof (Bgrow _ _ _ _ _ Hb') as Gb.
    split; [apply Aidle; [apply incl_refl | apply incl_refl | exact Gb]|]. split; [exact Hb'|]. split; [exact Hab|].
    destruct (p_up p); [|constructor]. apply Forall_app. split; [eapply chan_lift; [apply incl_refl | exact Gb | exact Hba] | eapply sis_wrote; exact Hb'].
Qed.

Lemma linit_pi : PI (linit ca cb).
Proof.
  unfold PI, linit, pinit. cbn [l_p l_sent_a l_sent_b p_a p_b p_ab p_ba].
  split; [exists 1, [], 1; apply sis_init; apply Z.le_refl|]. split; [exists 1, [], 1; apply sis_init; apply Z.le_refl|]. split; constructor.
Qed.
End PairInv.

(* ---------- what a FromApp callback in the log says ---------- *)
Lemma payload_id id m : is_app_payload id m -> mf_id (facts_of m) = Some id.
Proof. intros [_ Hb]. unfold facts_of. cbn [mf_id]. rewrite Hb. reflexivity. Qed.

Lemma cb_from_app c cpeer R sent NR NS snd msgs n0 m0 t0 bound Skip s q t v f :
  SI c R (P_of sent NR NS cpeer snd msgs) NR n0 m0 NS t0 bound Skip s -> In (CbFromApp q t v f) (s_cbs s) ->
  exists n id om, q = FVal n /\ v = VAccept /\ In (n, id) sent
                  /\ o_seq om = n /\ is_app_payload_o id om /\ is_app_payload id (minput_of cpeer om)
                  /\ f = facts_of (minput_of cpeer om) /\ mf_id f = Some id.
Proof.
  intros (_&_&_&_&_&_&H7&_) Hin. pose proof (proj1 (Forall_forall _ _) H7 _ Hin) as Hc. cbn [cb_ok] in Hc.
  destruct Hc as (m & (om & -> & [[A1 _] _]) & Ha & Hq & Hv & Hf). change (mi_type (minput_of cpeer om)) with (o_type om) in Ha.
  destruct (A1 Ha) as (Ht & id & Hb & Hsent). destruct (minput_of_payload cpeer om id Hb) as (B1 & B2 & B3).
  assert (Hpl : is_app_payload id (minput_of cpeer om)) by (split; [rewrite B1; exact Ht | rewrite B2; exact Hb]).
  exists (o_seq om), id, om. subst q v f. rewrite (payload_id id _ Hpl).
  split; [exact B3|]. split; [reflexivity|]. split; [exact Hsent|]. split; [reflexivity|]. split; [split; assumption|].
  split; [exact Hpl|]. split; reflexivity.
Qed.

Lemma handed_in s n t v f i : In (CbFromApp (FVal n) t v f) (s_cbs s) -> mf_id f = Some i -> In (n, i) (handed s).
Proof.
  intros Hin Hid. unfold handed. apply in_flat_map. exists (CbFromApp (FVal n) t v f). split; [apply in_rev in Hin; exact Hin|].
  rewrite Hid. left. reflexivity.
Qed.

Lemma handed_in_sent c cpeer R sent NR NS snd msgs n0 m0 t0 bound Skip s :
  SI c R (P_of sent NR NS cpeer snd msgs) NR n0 m0 NS t0 bound Skip s -> forall x, In x (handed s) -> In x sent.
Proof.
  intros H x Hx. unfold handed in Hx. apply in_flat_map in Hx as (cbx & Hc & Hx). apply in_rev in Hc.
  destruct cbx as [q t v f| | | | | |]; try destruct Hx.
  destruct (cb_from_app _ _ _ _ _ _ _ _ _ _ _ _ _ _ _ _ _ _ H Hc) as (n & id & om & -> & _ & Hin & _ & _ & _ & _ & Hid).
  rewrite Hid in Hx. destruct Hx as [<-|[]]. exact Hin.
Qed.

Lemma ei_lstep_a g e c : s_cfg (p_a (l_p g)) = c -> EI c (p_a (l_p g)) (l_sent_a g) (l_epoch_a g) ->
  snd_ok (s_snd (p_a (l_p g))) (s_msgs (p_a (l_p g))) (p_a (pstep (l_p g) e)) ->
  EI c (p_a (l_p (lstep g e))) (l_sent_a (lstep g e)) (l_epoch_a (lstep g e)).
Proof.
  intros Hc He Hs. unfold lstep. cbn [l_sent_a l_epoch_a l_p].
  destruct e as [|id|id| | |t|t| | | | |]; rewrite ?app_nil_r; try (eapply ei_quiet; [exact He | exact Hs]).
  cbn [pstep p_a]. apply ei_send; assumption.
Qed.
Lemma ei_lstep_b g e c : s_cfg (p_b (l_p g)) = c -> EI c (p_b (l_p g)) (l_sent_b g) (l_epoch_b g) ->
  snd_ok (s_snd (p_b (l_p g))) (s_msgs (p_b (l_p g))) (p_b (pstep (l_p g) e)) ->
  EI c (p_b (l_p (lstep g e))) (l_sent_b (lstep g e)) (l_epoch_b (lstep g e)).
Proof.
  intros Hc He Hs. unfold lstep. cbn [l_sent_b l_epoch_b l_p].
  destruct e as [|id|id| | |t|t| | | | |]; rewrite ?app_nil_r; try (eapply ei_quiet; [exact He | exact Hs]).
  cbn [pstep p_b]. apply ei_send; assumption.
Qed.

(* a number joins side A's books only by PSendA, which leaves B's expected number alone *)
Lemma new_entry_a g e n id : In (n, id) (l_sent_a (lstep g e)) ->
  In (n, id) (l_sent_a g) \/ (n = s_snd (p_a (l_p g)) /\ s_tgt (p_b (l_p (lstep g e))) = s_tgt (p_b (l_p g))).
Proof.
  unfold lstep. cbn [l_sent_a l_p]. destruct e as [|i|i| | |t|t| | | | |]; rewrite ?app_nil_r; try (intros H; left; exact H).
  intros H. apply in_app_or in H as [H|[E|[]]]; [left; exact H | right]. inversion E; subst. split; reflexivity.
Qed.
Lemma new_entry_b g e n id : In (n, id) (l_sent_b (lstep g e)) ->
  In (n, id) (l_sent_b g) \/ (n = s_snd (p_b (l_p g)) /\ s_tgt (p_a (l_p (lstep g e))) = s_tgt (p_a (l_p g))).
Proof.
  unfold lstep. cbn [l_sent_b l_p]. destruct e as [|i|i| | |t|t| | | | |]; rewrite ?app_nil_r; try (intros H; left; exact H).
  intros H. apply in_app_or in H as [H|[E|[]]]; [left; exact H | right]. inversion E; subst. split; reflexivity.
Qed.

(* ---------- the invariant of the instrumented run ---------- *)
Section Run.
Variables ca cb : cfg.
Variable NR NS : Prop.
Hypothesis HNRa : NR -> no_resets ca = true.
Hypothesis HNRb : NR -> no_resets cb = true.
Hypothesis HNSa : NS -> NR /\ c_disable_persist ca = false.
Hypothesis HNSb : NS -> NR /\ c_disable_persist cb = false.
Hypothesis HIDa : NS -> ids_set ca.
Hypothesis HIDb : NS -> ids_set cb.

(* every number the sender gave to an application message and the receiver's expected number has passed was handed over *)
Definition NoSkip (sent dlv : list plog_entry) (s : sess) : Prop :=
  forall n id, In (n, id) sent -> n < s_tgt s -> In (n, id) dlv.

Definition GI (g : plog) : Prop :=
  PI ca cb NR NS g
  /\ EI ca (p_a (l_p g)) (l_sent_a g) (l_epoch_a g) /\ EI cb (p_b (l_p g)) (l_sent_b g) (l_epoch_b g)
  /\ (forall x, In x (l_dlv_b g) -> In x (l_sent_a g)) /\ (forall x, In x (l_dlv_a g) -> In x (l_sent_b g))
  /\ (NR -> DI (p_b (l_p g)) (l_dlv_b g) /\ DI (p_a (l_p g)) (l_dlv_a g)
            /\ l_epoch_a g = l_sent_a g /\ l_epoch_b g = l_sent_b g)
  /\ (NS -> NoSkip (l_sent_a g) (l_dlv_b g) (p_b (l_p g)) /\ NoSkip (l_sent_b g) (l_dlv_a g) (p_a (l_p g))).

Lemma gi_init : GI (linit ca cb).
Proof.
  split; [apply linit_pi; assumption|]. unfold linit, pinit, EI, DI, NoSkip. cbn [l_p l_sent_a l_sent_b l_epoch_a l_epoch_b l_dlv_a l_dlv_b p_a p_b].
  split; [split; [intros n id [] | exact I]|]. split; [split; [intros n id [] | exact I]|].
  split; [intros x []|]. split; [intros x []|]. split.
  - intros _. split; [split; [exact I | intros x []]|]. split; [split; [exact I | intros x []]|]. split; reflexivity.
  - intros _. split; intros n id [].
Qed.

(* under NS, a number under which the store holds no application message was not given to one *)
Lemma skip_from_books c s sent epoch : (NS -> c_disable_persist c = false) -> EI c s sent epoch -> (NS -> epoch = sent) ->
  skip_ok NS sent s.
Proof.
  intros Hp [He _] Heq Hns k [_ Gk] id Hin. rewrite <- (Heq Hns) in Hin.
  destruct (He k id Hin) as (_ & _ & Hst). destruct (Hst (Hp Hns)) as (om & Hom & [Ht _]).
  specialize (Gk om Hom). rewrite Ht in Gk. discriminate.
Qed.

Lemma gi_skip g : GI g -> skip_a NS g /\ skip_b NS g.
Proof.
  intros (_ & Hea & Heb & _ & _ & Hnr & _). split.
  - apply (skip_from_books ca _ _ (l_epoch_a g)); [intros Hns; apply HNSa; exact Hns | exact Hea|].
    intros Hns. destruct (HNSa Hns) as [Hn _]. apply (Hnr Hn).
  - apply (skip_from_books cb _ _ (l_epoch_b g)); [intros Hns; apply HNSb; exact Hns | exact Heb|].
    intros Hns. destruct (HNSb Hns) as [Hn _]. apply (Hnr Hn).
Qed.

(* one side of the NoSkip step *)
Lemma noskip_step c cpeer R sent sent' (NRx NSx : Prop) snd msgs n0 m0 bound dlv s s' :
  NSx -> NoSkip sent dlv s ->
  SI c R (P_of sent' NRx NSx cpeer snd msgs) NRx n0 m0 NSx (s_tgt s) bound (Skip_of sent') s' ->
  inc_keys sent' -> incl sent sent' ->
  (forall n id, In (n, id) sent' -> In (n, id) sent \/ (s_tgt s <= n /\ s_tgt s' = s_tgt s)) ->
  NoSkip sent' (dlv ++ handed s') s'.
Proof.
  intros Hns Hold H' Hinc Hincl Hnew n id Hin Hlt.
  destruct (si_jt _ _ _ _ _ _ _ _ _ _ _ H' Hns) as (J1 & _ & J3).
  assert (Hpass : s_tgt s <= n -> In (n, id) (dlv ++ handed s')).
  { intros Hge. destruct (J3 n (conj Hge Hlt)) as [(t & v & f & Hcb)|Hsk]; [|exfalso; exact (Hsk id Hin)].
    destruct (cb_from_app _ _ _ _ _ _ _ _ _ _ _ _ _ _ _ _ _ _ H' Hcb) as (n' & id' & om & Hq & _ & Hs' & _ & _ & _ & _ & Hid).
    inversion Hq; subst n'. rewrite (inc_keys_fun _ _ _ _ Hinc Hin Hs'). apply in_or_app. right. eapply handed_in; eassumption. }
  destruct (Hnew n id Hin) as [Ho|[Hge Heq]]; [|lia].
  destruct (Z.lt_ge_cases n (s_tgt s)) as [Hb|Hb]; [apply in_or_app; left; apply Hold; assumption | apply Hpass; exact Hb].
Qed.

Lemma gi_step g e : GI g -> GI (lstep g e).
Proof.
  intros Hg. destruct (gi_skip g Hg) as [Hska Hskb]. destruct Hg as (Hpi & Hea & Heb & Hda & Hdb & Hnr & Hns).
  pose proof (lstep_inv ca cb NR NS HNRa HNRb HNSa HNSb HIDa HIDb g e Hpi Hska Hskb) as Hpi'.
  pose proof (pstep_succ (l_p g) e) as [Hsa Hsb].
  destruct Hpi' as (Ha' & Hb' & Hab' & Hba').
  assert (Hcfa : s_cfg (p_a (l_p g)) = ca) by (destruct Hpi as ((n0 & m0 & t0 & Hx) & _); apply (si_cfg _ _ _ _ _ _ _ _ _ _ _ Hx)).
  assert (Hcfb : s_cfg (p_b (l_p g)) = cb) by (destruct Hpi as (_ & (n0 & m0 & t0 & Hx) & _); apply (si_cfg _ _ _ _ _ _ _ _ _ _ _ Hx)).
  assert (Hsna : snd_ok (s_snd (p_a (l_p g))) (s_msgs (p_a (l_p g))) (p_a (l_p (lstep g e)))) by apply Ha'.
  assert (Hsnb : snd_ok (s_snd (p_b (l_p g))) (s_msgs (p_b (l_p g))) (p_b (l_p (lstep g e)))) by apply Hb'.
  pose proof (handed_in_sent _ _ _ _ _ _ _ _ _ _ _ _ _ _ Hb') as Hhb. pose proof (handed_in_sent _ _ _ _ _ _ _ _ _ _ _ _ _ _ Ha') as Hha.
  assert (Hva : forall q t v f, In (CbFromApp q t v f) (s_cbs (p_a (l_p (lstep g e)))) -> v = VAccept).
  { intros q t v f Hin. destruct (cb_from_app _ _ _ _ _ _ _ _ _ _ _ _ _ _ _ _ _ _ Ha' Hin) as (n & id & om & _ & Hv & _). exact Hv. }
  assert (Hvb : forall q t v f, In (CbFromApp q t v f) (s_cbs (p_b (l_p (lstep g e)))) -> v = VAccept).
  { intros q t v f Hin. destruct (cb_from_app _ _ _ _ _ _ _ _ _ _ _ _ _ _ _ _ _ _ Hb' Hin) as (n & id & om & _ & Hv & _). exact Hv. }
  split; [apply (pi'_pi ca cb NR NS g); exact (conj Ha' (conj Hb' (conj Hab' Hba')))|].
  assert (Hia : incl (l_sent_a g) (l_sent_a (lstep g e))) by (unfold lstep; cbn [l_sent_a]; intros x Hx; apply in_or_app; left; exact Hx).
  assert (Hib : incl (l_sent_b g) (l_sent_b (lstep g e))) by (unfold lstep; cbn [l_sent_b]; intros x Hx; apply in_or_app; left; exact Hx).
  assert (Hea' : EI ca (p_a (l_p (lstep g e))) (l_sent_a (lstep g e)) (l_epoch_a (lstep g e))) by (apply ei_lstep_a; assumption).
  assert (Heb' : EI cb (p_b (l_p (lstep g e))) (l_sent_b (lstep g e)) (l_epoch_b (lstep g e))) by (apply ei_lstep_b; assumption).
  split; [exact Hea'|]. split; [exact Heb'|].
  assert (Hnr' : NR -> DI (p_b (l_p (lstep g e))) (l_dlv_b (lstep g e)) /\ DI (p_a (l_p (lstep g e))) (l_dlv_a (lstep g e))
                       /\ l_epoch_a (lstep g e) = l_sent_a (lstep g e) /\ l_epoch_b (lstep g e) = l_sent_b (lstep g e)).
  { intros Hn. destruct (Hnr Hn) as (D1 & D2 & E1 & E2).
    pose proof (si_no_reset _ _ _ _ _ _ _ _ _ _ _ Ha' Hn) as Hra. pose proof (si_no_reset _ _ _ _ _ _ _ _ _ _ _ Hb' Hn) as Hrb.
    split; [unfold lstep at 2; cbn [l_dlv_b]; apply (di_step (p_b (l_p g))); assumption|].
    split; [unfold lstep at 2; cbn [l_dlv_a]; apply (di_step (p_a (l_p g))); assumption|].
    assert (Fa : has_reset (s_cbs (p_a (l_p (lstep g e)))) = false).
    { destruct (has_reset (s_cbs (p_a (l_p (lstep g e))))) eqn:Er; [apply has_reset_in in Er; contradiction | reflexivity]. }
    assert (Fb : has_reset (s_cbs (p_b (l_p (lstep g e)))) = false).
    { destruct (has_reset (s_cbs (p_b (l_p (lstep g e))))) eqn:Er; [apply has_reset_in in Er; contradiction | reflexivity]. }
    clear -Fa Fb E1 E2. unfold lstep in *. cbn [l_p l_epoch_a l_epoch_b l_sent_a l_sent_b] in *. rewrite Fa, Fb, E1, E2. split; reflexivity. }
  split; [|split; [|split; [exact Hnr'|]]].
  - unfold lstep at 1. cbn [l_dlv_b]. intros x Hx. apply in_app_or in Hx as [Hx|Hx]; [apply Hia, Hda, Hx | apply Hhb, Hx].
  - unfold lstep at 1. cbn [l_dlv_a]. intros x Hx. apply in_app_or in Hx as [Hx|Hx]; [apply Hib, Hdb, Hx | apply Hha, Hx].
  - intros Hs. destruct (Hns Hs) as [N1 N2]. destruct (HNSa Hs) as [Hn _]. destruct (Hnr' Hn) as (_ & _ & E1 & E2).
    (* coupling before the step: each expected number is within the other side's next sender number *)
    assert (Hcb : s_tgt (p_b (l_p g)) <= s_snd (p_a (l_p g))).
    { destruct Hpi as (_ & (n0 & m0 & t0 & Hx) & _). destruct (si_jt _ _ _ _ _ _ _ _ _ _ _ Hx Hs) as (_ & J2 & _). exact J2. }
    assert (Hca : s_tgt (p_a (l_p g)) <= s_snd (p_b (l_p g))).
    { destruct Hpi as ((n0 & m0 & t0 & Hx) & _). destruct (si_jt _ _ _ _ _ _ _ _ _ _ _ Hx Hs) as (_ & J2 & _). exact J2. }
    split.
    + unfold lstep at 2. cbn [l_dlv_b]. eapply noskip_step; [exact Hs | exact N1 | exact Hb' | | exact Hia |].
      * rewrite <- E1. apply Hea'.
      * intros n id Hin. destruct (new_entry_a g e n id Hin) as [Ho|[-> Ht]]; [left; exact Ho | right; split; [exact Hcb | exact Ht]].
    + unfold lstep at 2. cbn [l_dlv_a]. eapply noskip_step; [exact Hs | exact N2 | exact Ha' | | exact Hib |].
      * rewrite <- E2. apply Heb'.
      * intros n id Hin. destruct (new_entry_b g e n id Hin) as [Ho|[-> Ht]]; [left; exact Ho | right; split; [exact Hca | exact Ht]].
Qed.

Lemma gi_trace : forall es g, GI g -> forall g', In g' (lrun_trace es g) -> GI g'.
Proof.
  induction es as [|e r IH]; intros g H g' Hin; cbn [lrun_trace] in Hin; [destruct Hin|].
  destruct Hin as [<-|Hin]; [apply gi_step; exact H | eapply IH; [apply gi_step; exact H | exact Hin]].
Qed.

Lemma gi_reachable es g : reachable ca cb es g -> GI g.
Proof. intros [<-|Hin]; [apply gi_init | eapply gi_trace; [apply gi_init | exact Hin]]. Qed.
End Run.

(* ---------- the books do not influence the run ---------- *)
Lemma lrun_proj : forall es g, map l_p (lrun_trace es g) = prun_trace es (l_p g).
Proof.
  induction es as [|e r IH]; intros g; cbn [lrun_trace prun_trace map]; [reflexivity|].
  rewrite IH. reflexivity.
Qed.

Lemma gi_any ca cb es g : reachable ca cb es g -> GI ca cb False False g.
Proof. apply gi_reachable; intros []. Qed.
Lemma gi_nr ca cb es g : NRof ca cb -> reachable ca cb es g -> GI ca cb (NRof ca cb) False g.
Proof.
  intros Hn. apply gi_reachable.
  - intros [H1 H2]; exact H1.
  - intros [H1 H2]; exact H2.
  - intros [].
  - intros [].
  - intros [].
  - intros [].
Qed.
Lemma nsof_nr ca cb : NSof ca cb -> NRof ca cb.
Proof. intros H; apply H. Qed.
Lemma gi_ns ca cb es g : reachable ca cb es g -> GI ca cb (NRof ca cb) (NSof ca cb) g.
Proof.
  apply gi_reachable.
  - intros [H1 H2]; exact H1.
  - intros [H1 H2]; exact H2.
  - intros (H1 & H2 & H3 & H4 & H5). split; assumption.
  - intros (H1 & H2 & H3 & H4 & H5). split; assumption.
  - intros (H1 & H2 & H3 & H4 & H5). exact H4.
  - intros (H1 & H2 & H3 & H4 & H5). exact H5.
Qed.

(* ---------- payload identity, every configuration ---------- *)
Lemma payload_identity : forall ca cb es g, reachable ca cb es g ->
  handed_over_was_sent ca (l_sent_a g) (p_b (l_p g)) /\ handed_over_was_sent cb (l_sent_b g) (p_a (l_p g)).
Proof.
  intros ca cb es g Hr. destruct (gi_any _ _ _ _ Hr) as (((na & ma & ta & Ha) & (nb & mb & tb & Hb) & _) & _).
  split; intros q t v f Hin; [eapply cb_from_app; [exact Hb | exact Hin] | eapply cb_from_app; [exact Ha | exact Hin]].
Qed.

Lemma wm_registered sent NR NS snd msgs om : Wn (R_of sent) NR NS snd msgs om -> registered sent (o_seq om) om.
Proof. intros [[A1 _] _] Ha. destruct (A1 Ha) as (Ht & id & Hb & Hin). exists id. split; [split; assumption | exact Hin]. Qed.

Lemma in_flight_registered : forall ca cb es g, reachable ca cb es g ->
  let p := l_p g in
  (forall om, In om (p_ab p) \/ In om (s_to_send (p_a p)) \/ In om (wrote (p_a p)) -> registered (l_sent_a g) (o_seq om) om)
  /\ (forall k om, In (k, om) (s_msgs (p_a p)) -> k = o_seq om /\ registered (l_sent_a g) k om /\ lookup_msg k (s_msgs (p_a p)) = Some om)
  /\ (forall om, In om (p_ba p) \/ In om (s_to_send (p_b p)) \/ In om (wrote (p_b p)) -> registered (l_sent_b g) (o_seq om) om)
  /\ (forall k om, In (k, om) (s_msgs (p_b p)) -> k = o_seq om /\ registered (l_sent_b g) k om /\ lookup_msg k (s_msgs (p_b p)) = Some om).
Proof.
  intros ca cb es g Hr p. destruct (gi_any _ _ _ _ Hr) as (((na & ma & ta & Ha) & (nb & mb & tb & Hb) & Hab & Hba) & _). fold p in Ha, Hb, Hab, Hba.
  assert (Hside : forall c R P n0 m0 t0 bound Skip s sent chan, R = R_of sent -> SI c R P False n0 m0 False t0 bound Skip s ->
            Forall (Wn (R_of sent) False False (s_snd s) (s_msgs s)) chan ->
            (forall om, In om chan \/ In om (s_to_send s) \/ In om (wrote s) -> registered sent (o_seq om) om)
            /\ (forall k om, In (k, om) (s_msgs s) -> k = o_seq om /\ registered sent k om /\ lookup_msg k (s_msgs s) = Some om)).
  { intros c R P n0 m0 t0 bound Skip s sent chan -> (H1&H2&H3&H4&_) Hch. split.
    - intros om [Hin|[Hin|Hin]]; apply (wm_registered sent False False (s_snd s) (s_msgs s)).
      + exact (proj1 (Forall_forall _ _) Hch _ Hin).
      + exact (proj1 (Forall_forall _ _) H3 _ Hin).
      + unfold wrote in Hin. apply in_rev in Hin. exact (proj1 (Forall_forall _ _) H4 _ Hin).
    - intros k om Hin. destruct (store_ok_in _ _ _ _ _ H2 Hin) as (A1 & _ & A3).
      split; [exact A1|]. split; [|eapply store_ok_lookup; eassumption].
      intros Hadm. destruct (A3 Hadm) as (Ht & id & Hb' & Hs). exists id. split; [split; assumption | exact Hs]. }
  destruct (Hside _ _ _ _ _ _ _ _ _ _ _ eq_refl Ha Hab) as [X1 X2]. destruct (Hside _ _ _ _ _ _ _ _ _ _ _ eq_refl Hb Hba) as [Y1 Y2].
  split; [exact X1|]. split; [exact X2|]. split; [exact Y1 | exact Y2].
Qed.

(* ---------- epochs ---------- *)
Lemma epoch_books : forall ca cb es g, reachable ca cb es g ->
  epoch_ok ca (p_a (l_p g)) (l_sent_a g) (l_epoch_a g) /\ epoch_ok cb (p_b (l_p g)) (l_sent_b g) (l_epoch_b g).
Proof.
  intros ca cb es g Hr. destruct (gi_any _ _ _ _ Hr) as (((na & ma & ta & Ha) & (nb & mb & tb & Hb) & _) & [Ea1 Ea2] & [Eb1 Eb2] & _).
  assert (Hside : forall c R P n0 m0 t0 bound Skip s sent epoch, SI c R P False n0 m0 False t0 bound Skip s -> EI c s sent epoch -> epoch_ok c s sent epoch).
  { intros c R P n0 m0 t0 bound Skip s sent epoch (_&H2&_) [E1 E2]. split; [exact E2|]. split; [intros n i j; apply inc_keys_fun; exact E2|].
    intros n id Hin. destruct (E1 n id Hin) as (A1 & A2 & A3). split; [exact A1|]. split; [exact A2|].
    intros Hp. destruct (A3 Hp) as (om & B1 & B2). exists om. split; [eapply store_ok_lookup; eassumption | exact B2]. }
  split; [eapply Hside; [exact Ha | split; assumption] | eapply Hside; [exact Hb | split; assumption]].
Qed.

(* ---------- sequence resets disabled: one epoch, exactly once, in order ---------- *)
Lemma subseq_of_inc : forall (s d : list plog_entry), inc_keys d -> inc_keys s -> (forall x, In x d -> In x s) -> subseq d s.
Proof.
  induction s as [|y s' IH]; intros d Hd Hs Hin.
  - destruct d as [|x d']; [constructor | destruct (Hin x (or_introl eq_refl))].
  - destruct d as [|x d']; [constructor|]. destruct Hd as [Hx Hd']. destruct Hs as [Hy Hs'].
    destruct (Hin x (or_introl eq_refl)) as [E|Hxs].
    + subst y. apply ss_take. apply IH; [exact Hd' | exact Hs'|].
      intros z Hz. destruct (Hin z (or_intror Hz)) as [E|Hzs]; [|exact Hzs]. subst z. specialize (Hx _ Hz). lia.
    + apply ss_skip. apply IH; [split; assumption | exact Hs'|].
      intros z Hz. destruct (Hin z Hz) as [E|Hzs]; [|exact Hzs]. subst z. specialize (Hy _ Hxs).
      destruct Hz as [->|Hz]; [lia|]. specialize (Hx _ Hz). lia.
Qed.

Lemma no_resets_single_epoch : forall ca cb es g, NRof ca cb -> reachable ca cb es g ->
  ~ In CbStoreReset (s_cbs (p_a (l_p g))) /\ ~ In CbStoreReset (s_cbs (p_b (l_p g)))
  /\ l_epoch_a g = l_sent_a g /\ l_epoch_b g = l_sent_b g.
Proof.
  intros ca cb es g Hn Hr. destruct (gi_nr _ _ _ _ Hn Hr) as (((na & ma & ta & Ha) & (nb & mb & tb & Hb) & _) & _ & _ & _ & _ & Hx & _).
  destruct (Hx Hn) as (_ & _ & E1 & E2).
  split; [eapply si_no_reset; [exact Ha | exact Hn]|]. split; [eapply si_no_reset; [exact Hb | exact Hn]|]. split; assumption.
Qed.

Lemma delivered_subseq_sent : forall ca cb es g, NRof ca cb -> reachable ca cb es g ->
  subseq (l_dlv_b g) (l_sent_a g) /\ subseq (l_dlv_a g) (l_sent_b g).
Proof.
  intros ca cb es g Hn Hr. destruct (gi_nr _ _ _ _ Hn Hr) as (_ & [_ Ea] & [_ Eb] & Hda & Hdb & Hx & _).
  destruct (Hx Hn) as ([D1 _] & [D2 _] & E1 & E2). rewrite E1 in Ea. rewrite E2 in Eb.
  split; apply subseq_of_inc; assumption.
Qed.

Lemma stored_original : forall ca cb es g, NRof ca cb -> reachable ca cb es g ->
  (c_disable_persist ca = false -> handed_over_is_stored ca (p_a (l_p g)) (p_b (l_p g)))
  /\ (c_disable_persist cb = false -> handed_over_is_stored cb (p_b (l_p g)) (p_a (l_p g))).
Proof.
  intros ca cb es g Hn Hr. destruct (payload_identity _ _ _ _ Hr) as [Hb Ha].
  destruct (epoch_books _ _ _ _ Hr) as [(_ & _ & Ea) (_ & _ & Eb)].
  destruct (no_resets_single_epoch _ _ _ _ Hn Hr) as (_ & _ & E1 & E2). rewrite E1 in Ea. rewrite E2 in Eb.
  assert (Hside : forall cpeer speer s sent,
            handed_over_was_sent cpeer sent s ->
            (forall n id, In (n, id) sent -> n < s_snd speer /\ In (n, id) sent
               /\ (c_disable_persist cpeer = false -> exists om, lookup_msg n (s_msgs speer) = Some om /\ is_app_payload_o id om)) ->
            c_disable_persist cpeer = false -> handed_over_is_stored cpeer speer s).
  { intros cpeer speer s sent Hh He Hp q t v f Hin.
    destruct (Hh q t v f Hin) as (n & id & om & Hq & Hv & Hs & Hseq & [O1 O2] & [M1 M2] & Hf & _).
    destruct (He n id Hs) as (_ & _ & Hst). destruct (Hst Hp) as (st & L1 & [S1 S2]).
    exists n, om, st. repeat split; try assumption; try congruence. rewrite S1. reflexivity. }
  split; intros Hp; eapply Hside; eassumption.
Qed.

(* ---------- the property's regime: the expected number never passes an application message without a hand-over ---------- *)
Lemma no_skip : forall ca cb es g, NSof ca cb -> reachable ca cb es g ->
  (forall n id, In (n, id) (l_sent_a g) -> n < s_tgt (p_b (l_p g)) -> In (n, id) (l_dlv_b g))
  /\ (forall n id, In (n, id) (l_sent_b g) -> n < s_tgt (p_a (l_p g)) -> In (n, id) (l_dlv_a g))
  /\ s_tgt (p_b (l_p g)) <= s_snd (p_a (l_p g)) /\ s_tgt (p_a (l_p g)) <= s_snd (p_b (l_p g)).
Proof.
  intros ca cb es g Hs Hr. destruct (gi_ns _ _ _ _ Hr) as (((na & ma & ta & Ha) & (nb & mb & tb & Hb) & _) & _ & _ & _ & _ & _ & Hx).
  destruct (Hx Hs) as [N1 N2]. split; [exact N1|]. split; [exact N2|].
  destruct (si_jt _ _ _ _ _ _ _ _ _ _ _ Hb Hs) as (_ & J2 & _). destruct (si_jt _ _ _ _ _ _ _ _ _ _ _ Ha Hs) as (_ & J2' & _).
  split; assumption.
Qed.

Lemma subseq_incl {A} (d l : list A) : subseq d l -> forall x, In x d -> In x l.
Proof.
  induction 1 as [l|x d l Hs IH|x d l Hs IH]; intros y Hy; [destruct Hy | right; apply IH; exact Hy|].
  destruct Hy as [->|Hy]; [left; reflexivity | right; apply IH; exact Hy].
Qed.

Lemma prefix_of_subseq : forall (d s : list plog_entry) t, subseq d s -> inc_keys s ->
  (forall x, In x d -> fst x < t) -> (forall x, In x s -> fst x < t -> In x d) -> exists r, s = d ++ r.
Proof.
  intros d s t Hss. induction Hss as [l|x d l Hs IH|x d l Hs IH]; intros Hinc Hlt Hall.
  - exists l. reflexivity.
  - destruct d as [|y d']; [exists (x :: l); reflexivity|]. exfalso. destruct Hinc as [Hx _].
    assert (Hy : In y l) by (apply (subseq_incl _ _ Hs); left; reflexivity).
    pose proof (Hx y Hy) as H1. pose proof (Hlt y (or_introl eq_refl)) as H2.
    assert (Hxd : In x (y :: d')) by (apply Hall; [left; reflexivity | lia]).
    pose proof (subseq_incl _ _ Hs x Hxd) as Hxl. specialize (Hx x Hxl). lia.
  - destruct Hinc as [Hx Hl]. destruct IH as [r Hr]; [exact Hl | intros y Hy; apply Hlt; right; exact Hy | |exists r; rewrite Hr; reflexivity].
    intros y Hy Hyt. destruct (Hall y (or_intror Hy) Hyt) as [E|Hd]; [|exact Hd]. subst y. specialize (Hx x Hy). lia.
Qed.

Lemma delivered_prefix_sent : forall ca cb es g, NSof ca cb -> reachable ca cb es g ->
  (exists r, l_sent_a g = l_dlv_b g ++ r) /\ (exists r, l_sent_b g = l_dlv_a g ++ r).
Proof.
  intros ca cb es g Hs Hr. pose proof (nsof_nr _ _ Hs) as Hn.
  destruct (delivered_subseq_sent _ _ _ _ Hn Hr) as [S1 S2]. destruct (no_skip _ _ _ _ Hs Hr) as (N1 & N2 & _).
  destruct (gi_nr _ _ _ _ Hn Hr) as (_ & [_ Ea] & [_ Eb] & _ & _ & Hx & _). destruct (Hx Hn) as ([_ D1] & [_ D2] & E1 & E2).
  rewrite E1 in Ea. rewrite E2 in Eb. split.
  - apply (prefix_of_subseq _ _ (s_tgt (p_b (l_p g))) S1 Ea D1). intros [n i] Hin Hlt. apply N1; assumption.
  - apply (prefix_of_subseq _ _ (s_tgt (p_a (l_p g))) S2 Eb D2). intros [n i] Hin Hlt. apply N2; assumption.
Qed.

(* ---------- in the vocabulary of Net/Pair.v and of the `pair` stream: c05_safe on every run ---------- *)
Lemma lfinal_reachable ca cb es : reachable ca cb es (lfinal es (linit ca cb)).
Proof.
  unfold reachable, lfinal. generalize (linit ca cb). induction es as [|e r IH]; intros g; cbn [fold_left lrun_trace]; [left; reflexivity|].
  right. apply (IH (lstep g e)).
Qed.

Lemma lfinal_sent_a : forall es g, map snd (l_sent_a (lfinal es g)) = map snd (l_sent_a g) ++ sent_ids_a es.
Proof.
  unfold lfinal. induction es as [|e r IH]; intros g; cbn [fold_left sent_ids_a flat_map]; [rewrite app_nil_r; reflexivity|].
  rewrite IH. unfold lstep at 1. cbn [l_sent_a]. rewrite map_app, <- app_assoc. f_equal. f_equal. destruct e; reflexivity.
Qed.
Lemma lfinal_sent_b : forall es g, map snd (l_sent_b (lfinal es g)) = map snd (l_sent_b g) ++ sent_ids_b es.
Proof.
  unfold lfinal. induction es as [|e r IH]; intros g; cbn [fold_left sent_ids_b flat_map]; [rewrite app_nil_r; reflexivity|].
  rewrite IH. unfold lstep at 1. cbn [l_sent_b]. rewrite map_app, <- app_assoc. f_equal. f_equal. destruct e; reflexivity.
Qed.

Lemma handed_ids s : (forall q t v f, In (CbFromApp q t v f) (s_cbs s) -> exists n, q = FVal n) ->
  map snd (handed s) = delivered_ids s.
Proof.
  unfold handed, delivered_ids. intros H.
  assert (H' : forall q t v f, In (CbFromApp q t v f) (rev (s_cbs s)) -> exists n, q = FVal n) by (intros q t v f Hin; apply in_rev in Hin; eapply H; exact Hin).
  clear H. induction (rev (s_cbs s)) as [|x r IH]; [reflexivity|]. cbn [flat_map]. rewrite map_app, IH; [|intros q t v f Hin; eapply H'; right; exact Hin].
  f_equal. destruct x as [q t v f| | | | | |]; try reflexivity.
  destruct (H' q t v f (or_introl eq_refl)) as [n ->]. destruct (mf_id f); reflexivity.
Qed.

Lemma lfinal_dlv : forall ca cb (NR NS : Prop) es g,
  (NR -> no_resets ca = true) -> (NR -> no_resets cb = true) -> (NS -> NR /\ c_disable_persist ca = false) ->
  (NS -> NR /\ c_disable_persist cb = false) -> (NS -> ids_set ca) -> (NS -> ids_set cb) -> GI ca cb NR NS g ->
  map snd (l_dlv_b (lfinal es g)) = map snd (l_dlv_b g) ++ delivered_ids_b (prun_trace es (l_p g))
  /\ map snd (l_dlv_a (lfinal es g)) = map snd (l_dlv_a g) ++ delivered_ids_a (prun_trace es (l_p g)).
Proof.
  intros ca cb NR NS es g H1 H2 H3 H4 H5 H6. unfold lfinal. revert g.
  induction es as [|e r IH]; intros g Hg; cbn [fold_left prun_trace delivered_ids_a delivered_ids_b flat_map]; [rewrite !app_nil_r; split; reflexivity|].
  pose proof (gi_step ca cb NR NS H1 H2 H3 H4 H5 H6 g e Hg) as Hg'. destruct (IH _ Hg') as [I1 I2].
  destruct Hg' as (((na & ma & ta & Ha) & (nb & mb & tb & Hb) & _) & _).
  assert (Fb : map snd (handed (p_b (l_p (lstep g e)))) = delivered_ids (p_b (l_p (lstep g e)))).
  { apply handed_ids. intros q t v f Hin. destruct (cb_from_app _ _ _ _ _ _ _ _ _ _ _ _ _ _ _ _ _ _ Hb Hin) as (n & _ & _ & Hq & _). exists n; exact Hq. }
  assert (Fa : map snd (handed (p_a (l_p (lstep g e)))) = delivered_ids (p_a (l_p (lstep g e)))).
  { apply handed_ids. intros q t v f Hin. destruct (cb_from_app _ _ _ _ _ _ _ _ _ _ _ _ _ _ _ _ _ _ Ha Hin) as (n & _ & _ & Hq & _). exists n; exact Hq. }
  change (p_b (l_p (lstep g e))) with (p_b (pstep (l_p g) e)) in Fb. change (p_a (l_p (lstep g e))) with (p_a (pstep (l_p g) e)) in Fa.
  rewrite I1, I2. unfold lstep at 1 3. cbn [l_dlv_a l_dlv_b]. rewrite !map_app, <- !app_assoc.
  split; (f_equal; f_equal; try assumption; reflexivity).
Qed.

Lemma is_prefix_app : forall d r, is_prefix d (d ++ r) = true.
Proof. induction d as [|x d IH]; intros r; cbn [is_prefix app]; [reflexivity|]. rewrite beq_bytes_refl, IH. reflexivity. Qed.

(* the safety half of the `pair` stream's predicate (ocaml/session/s_pair.ml: is_prefix delivered sent), for the model, on
   every run: what B's application received is a prefix of what A's application submitted, and vice versa *)
Lemma c05_safe_model : forall ca cb es, NSof ca cb ->
  c05_safe (sent_ids_a es) (delivered_ids_b (prun_trace es (pinit ca cb))) = true
  /\ c05_safe (sent_ids_b es) (delivered_ids_a (prun_trace es (pinit ca cb))) = true.
Proof.
  intros ca cb es Hs. pose proof (lfinal_reachable ca cb es) as Hr.
  destruct (delivered_prefix_sent _ _ _ _ Hs Hr) as [[ra Ea] [rb Eb]].
  destruct (lfinal_dlv ca cb False False es (linit ca cb)) as [Db Da]; try (intros []). { apply gi_init. }
  pose proof (lfinal_sent_a es (linit ca cb)) as Sa. pose proof (lfinal_sent_b es (linit ca cb)) as Sb.
  cbn [linit l_sent_a l_sent_b l_dlv_a l_dlv_b l_p map app] in Sa, Sb, Da, Db.
  unfold c05_safe. rewrite <- Sa, <- Sb, <- Da, <- Db, Ea, Eb, !map_app. split; apply is_prefix_app.
Qed.

(* ---------- a concrete run: the hypotheses hold and the conclusions are not vacuous ---------- *)
Lemma nth_reachable ca cb es k : reachable ca cb es (nth k (lrun_trace es (linit ca cb)) (linit ca cb)).
Proof.
  unfold reachable. destruct (Nat.lt_ge_cases k (length (lrun_trace es (linit ca cb)))) as [Hlt|Hge].
  - right. apply nth_In. exact Hlt.
  - left. symmetry. apply nth_overflow. exact Hge.
Qed.

Lemma c05_ex_hyps : NSof c05_ex_ca c05_ex_cb.
Proof. repeat split; try reflexivity; discriminate. Qed.

Lemma c05_ex_run :
  (* during the recovery, PossDup replays are in flight from A to B ... *)
  map (fun m => (o_type m, o_seq m, is_possdup m)) (p_ab (l_p (c05_ex_at 20)))
    = [(B "D", 2, true); (B "D", 3, true); (B "D", 4, true); (B "4", 5, true)]
  (* ... the first of them is handed to B's application under number 2 with the ClOrdID A's application gave it ... *)
  /\ handed (p_b (l_p (c05_ex_at 21))) = [(2, B "o1")]
  (* ... and at the end each side has received exactly what the other submitted, in order *)
  /\ l_sent_a (c05_ex_at 24) = [(2, B "o1"); (3, B "o2"); (4, B "o3")] /\ l_dlv_b (c05_ex_at 24) = l_sent_a (c05_ex_at 24)
  /\ l_sent_b (c05_ex_at 24) = [(2, B "r1")] /\ l_dlv_a (c05_ex_at 24) = l_sent_b (c05_ex_at 24)
  /\ sent_ids_a c05_ex_events = [B "o1"; B "o2"; B "o3"]
  /\ delivered_ids_b (prun_trace c05_ex_events (pinit c05_ex_ca c05_ex_cb)) = [B "o1"; B "o2"; B "o3"].
Proof. vm_compute. repeat split; reflexivity. Qed.

(* the persistence hypothesis of NSof is needed: with PersistMessages=N on the sender (resets disabled, CompIDs set) a message
   lost in a cut is covered by a gap fill, and the next one is handed over — the delivered list is not a prefix *)
Lemma c05_safe_nopersist_refuted :
  NRof c05_ex_ca_nopersist c05_ex_cb /\ ids_set c05_ex_ca_nopersist /\ ids_set c05_ex_cb
  /\ sent_ids_a c05_ex_events_nopersist = [B "o1"; B "o2"]
  /\ delivered_ids_b (prun_trace c05_ex_events_nopersist (pinit c05_ex_ca_nopersist c05_ex_cb)) = [B "o2"]
  /\ c05_safe (sent_ids_a c05_ex_events_nopersist)
              (delivered_ids_b (prun_trace c05_ex_events_nopersist (pinit c05_ex_ca_nopersist c05_ex_cb))) = false.
Proof. repeat split; try reflexivity; try discriminate. Qed.
