(* Specification side of C14 for the two decimal types: canonical decimal texts of a scale, the udecimal text
   grammar and the value a text denotes.  Written from the property statement (and, for the grammar, from the
   documented format of udecimal.Parse), independent of the reader models.  Boolean and executable.  No proofs here. *)
From Coq Require Import ZArith List Bool.
From QF Require Import Base.Res Base.Bytes Codec.FixInt Codec.FixIntSpec.
Import ListNotations.
Open Scope Z_scope.

Definition DTX_DOT : Z := 46.
Definition DTX_PLUS : Z := 43.

(* ---- plain decimal text: optional '-', integer digits, optionally '.' and fraction digits ---- *)
Definition dtx_neg (s : bytes) : bool := match s with c :: _ => c =? MINUS | [] => false end.
Definition dtx_body (s : bytes) : bytes := match s with c :: r => if c =? MINUS then r else s | [] => [] end.

(* integer digits and fraction digits of an unsigned body (fraction empty when there is no point) *)
Definition dtx_ip (body : bytes) : bytes :=
  match index_byte DTX_DOT body with Some i => firstn i body | None => body end.
Definition dtx_fp (body : bytes) : bytes :=
  match index_byte DTX_DOT body with Some i => skipn (S i) body | None => [] end.

(* digits without superfluous leading zeros: "0" or a text starting with 1..9 *)
Definition canonical_uint (s : bytes) : bool :=
  match s with
  | [] => false
  | c :: r => all_digits s && (negb (c =? CH0) || Nat.eqb (length r) 0)
  end.

(* canonical decimal text of scale k: optional '-', canonical integer digits, and exactly k fraction digits
   (k = 0: no point at all; k > 0: a point followed by k digits); a negative text is not zero
   ("-0", "-0.00" are not canonical: the writers never produce them). *)
Definition dec_canonicalb (k : nat) (s : bytes) : bool :=
  let body := dtx_body s in
  let ip := dtx_ip body in
  let fp := dtx_fp body in
  (match index_byte DTX_DOT body with None => Nat.eqb k 0 | Some _ => negb (Nat.eqb k 0) end)
  && canonical_uint ip && all_digits fp && Nat.eqb (length fp) k
  && negb (dtx_neg s && (dec_value (ip ++ fp) 0 =? 0)).

(* the number a decimal text denotes: coefficient, at exponent - (number of fraction digits) *)
Definition dec_text_coef (s : bytes) : Z :=
  let v := dec_value (dtx_ip (dtx_body s) ++ dtx_fp (dtx_body s)) 0 in
  if dtx_neg s then - v else v.
Definition dec_text_scale (s : bytes) : nat := length (dtx_fp (dtx_body s)).

(* ---- udecimal.Parse: [+-]?D+(.D{1,19})? of at most 200 bytes ----
   One more form is accepted by the library and therefore by the model: '-' '+' digits... when the whole text is
   longer than 41 bytes (the text after '-' is handed to big.Int.SetString, which takes a sign of its own). *)
Definition UDEC_MAX_LEN : nat := 200.
Definition UDEC_MAX_PREC : nat := 19.

(* number of sign bytes *)
Definition udec_sign_len (s : bytes) : nat :=
  match s with
  | [] => 0
  | c :: r =>
      if c =? MINUS then
        match r with
        | c2 :: _ => if (c2 =? DTX_PLUS) && Nat.ltb 41 (length s) then 2 else 1
        | [] => 1
        end
      else if c =? DTX_PLUS then 1 else 0
  end.
Definition udec_body (s : bytes) : bytes := skipn (udec_sign_len s) s.

Definition udec_unsignedb (body : bytes) : bool :=
  match index_byte DTX_DOT body with
  | None => negb (Nat.eqb (length body) 0) && all_digits body
  | Some i =>
      let ip := firstn i body in
      let fp := skipn (S i) body in
      negb (Nat.eqb (length ip) 0) && all_digits ip
      && negb (Nat.eqb (length fp) 0) && all_digits fp && Nat.leb (length fp) UDEC_MAX_PREC
  end.

Definition udec_grammarb (s : bytes) : bool :=
  Nat.leb (length s) UDEC_MAX_LEN && udec_unsignedb (udec_body s).

(* a udecimal (neg, coef, prec) denotes (-1)^neg * coef / 10^prec; zero is always (false, 0, 0) *)
Definition udec_norm (neg : bool) (coef prec : Z) : bool * Z * Z :=
  if coef =? 0 then (false, 0, 0) else (neg, coef, prec).

Definition udec_text_value (s : bytes) : bool * Z * Z :=
  let body := udec_body s in
  udec_norm (dtx_neg s) (dec_value (dtx_ip body ++ dtx_fp body) 0) (Z.of_nat (length (dtx_fp body))).

(* what udecimal.Parse must do with a text *)
Definition udec_read_spec (s : bytes) : option (bool * Z * Z) :=
  if udec_grammarb s then Some (udec_text_value s) else None.

(* the same grammar as a decomposition of the text *)
Definition udec_grammar (s : bytes) : Prop :=
  (length s <= UDEC_MAX_LEN)%nat /\
  exists sg ip fr, s = sg ++ ip ++ fr
    /\ (sg = [] \/ sg = [MINUS] \/ sg = [DTX_PLUS] \/ (sg = [MINUS; DTX_PLUS] /\ (41 < length s)%nat))
    /\ ip <> [] /\ all_digits ip = true
    /\ (fr = [] \/ exists fp, fr = DTX_DOT :: fp /\ fp <> [] /\ all_digits fp = true
                              /\ (length fp <= UDEC_MAX_PREC)%nat).

(* well-formed udecimal value: non-negative coefficient, precision 0..19 *)
Definition udec_wfb (d : bool * Z * Z) : bool :=
  let '(_, coef, p) := d in (0 <=? coef) && (0 <=? p) && (p <=? 19).

(* same number?  c1 / 10^p1 = c2 / 10^p2 with signs (p1, p2 >= 0) *)
Definition udec_signed (d : bool * Z * Z) : Z := let '(neg, coef, _) := d in if neg then - coef else coef.
Definition udec_prec (d : bool * Z * Z) : Z := let '(_, _, p) := d in p.
Definition udec_value_eqb (d1 d2 : bool * Z * Z) : bool :=
  udec_signed d1 * 10 ^ udec_prec d2 =? udec_signed d2 * 10 ^ udec_prec d1.

(* canonical udecimal text of scale k: the canonical decimal text, within the library's bounds *)
Definition udec_canonicalb (k : nat) (s : bytes) : bool :=
  dec_canonicalb k s && Nat.leb k UDEC_MAX_PREC && Nat.leb (length s) UDEC_MAX_LEN.
