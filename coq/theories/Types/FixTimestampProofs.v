(* Lemmas about the model of fix_utc_timestamp.go (Types/FixTimestamp.v over Types/GoTime.v). *)
From Coq Require Import ZArith List Bool Lia ZifyBool.
From QF Require Import Base.Res Base.Bytes Codec.FixInt Codec.FixIntProofs
  Types.GoTime Types.GoTimeProofs Types.FixTimestamp Types.TypesSpec.
Import ListNotations.
Open Scope Z_scope.

(* ================= A. the scanning helpers ================= *)

Lemma gt_leading_int_all : forall s acc q, gt_leading_int s acc = Some (q, []) ->
  all_digits s = true /\ q = dec_value s acc.
Proof.
  induction s as [|c r IH]; intros acc q H.
  - cbn in H. injection H as <-. split; reflexivity.
  - cbn [gt_leading_int] in H. destruct (is_digit c) eqn:Hc; [|discriminate].
    destruct (acc >? two63 / 10); [discriminate|].
    destruct (acc * 10 + (c - 48) >? two63); [discriminate|].
    apply IH in H as [H1 H2]. cbn [all_digits forallb dec_value]. rewrite Hc. split; [exact H1 | exact H2].
Qed.

Lemma gt_leading_int_digits : forall s acc, all_digits s = true -> 0 <= acc ->
  (acc + 1) * 10 ^ Z.of_nat (length s) <= 10 ^ 18 ->
  gt_leading_int s acc = Some (dec_value s acc, []).
Proof.
  induction s as [|c r IH]; intros acc Hd Ha Hb; [reflexivity|].
  cbn [all_digits forallb] in Hd. apply andb_true_iff in Hd as [Hc Hr].
  cbn [gt_leading_int dec_value]. rewrite Hc. apply is_digit_range in Hc. unfold CH0 in Hc.
  cbn [length] in Hb. rewrite Nat2Z.inj_succ, Z.pow_succ_r in Hb by lia.
  assert (Hp : 0 < 10 ^ Z.of_nat (length r)) by (apply Z.pow_pos_nonneg; lia).
  assert (Hs : (acc + 1) * 10 <= 10 ^ 18) by nia.
  change (10 ^ 18) with 1000000000000000000 in Hs.
  change (two63 / 10) with 922337203685477580. unfold two63.
  replace (acc >? 922337203685477580) with false by lia.
  replace (acc * 10 + (c - 48) >? 9223372036854775808) with false by lia.
  apply IH; [exact Hr | unfold CH0; lia | unfold CH0 in *; nia].
Qed.

Lemma gt_atoi_digits : forall s, all_digits s = true -> s <> [] -> (length s <= 18)%nat ->
  gt_atoi s = Some (dec_value s 0).
Proof.
  intros s Hd Hne Hl. unfold gt_atoi. destruct s as [|c r]; [congruence|].
  pose proof (digits_head_not_minus c r Hd) as Hm.
  assert (Hp : (c =? gt_PLUS) = false).
  { cbn in Hd. apply andb_true_iff in Hd as [Hd _]. unfold is_digit, CH0, CH9, gt_PLUS in *. lia. }
  rewrite Hm, Hp. cbn [orb].
  rewrite gt_leading_int_digits; [reflexivity | exact Hd | lia |].
  pose proof (pow10_le_18 _ Hl). lia.
Qed.

(* what time.atoi accepts: digits, or a sign and digits *)
Lemma gt_atoi_inv : forall s q, gt_atoi s = Some q ->
  (all_digits s = true /\ q = dec_value s 0)
  \/ (exists r, s = gt_PLUS :: r /\ all_digits r = true /\ q = dec_value r 0)
  \/ (exists r, s = MINUS :: r /\ all_digits r = true /\ q = - dec_value r 0).
Proof.
  intros s q H. unfold gt_atoi in H.
  destruct s as [|c r].
  - cbn in H. injection H as <-. left. split; reflexivity.
  - destruct ((c =? MINUS) || (c =? gt_PLUS)) eqn:Es.
    + destruct (gt_leading_int r 0) as [[q' rem]|] eqn:El; [|discriminate].
      destruct rem; [|discriminate]. injection H as <-.
      apply gt_leading_int_all in El as [Hd Hq]. subst q'.
      destruct (c =? MINUS) eqn:Em.
      * right. right. exists r. replace c with MINUS by lia. auto.
      * right. left. exists r. replace c with gt_PLUS by lia. auto.
    + destruct (gt_leading_int (c :: r) 0) as [[q' rem]|] eqn:El; [|discriminate].
      destruct rem; [|discriminate]. injection H as <-.
      apply gt_leading_int_all in El as [Hd Hq]. left. auto.
Qed.

Lemma two_digit_value (a b : Z) : dec_value [a; b] 0 = (a - 48) * 10 + (b - 48).
Proof. cbn [dec_value]. unfold CH0. ring. Qed.

Lemma gt_getnum_two : forall a b r fixed, is_digit a = true -> is_digit b = true ->
  gt_getnum (a :: b :: r) fixed = Some (dec_value [a; b] 0, r).
Proof. intros a b r fixed Ha Hb. cbn [gt_getnum]. rewrite Ha, Hb, two_digit_value. reflexivity. Qed.

Lemma gt_getnum_fixed_inv : forall v x r, gt_getnum v true = Some (x, r) ->
  exists a b, v = a :: b :: r /\ is_digit a = true /\ is_digit b = true /\ x = dec_value [a; b] 0.
Proof.
  intros v x r H. destruct v as [|a [|b t]]; cbn [gt_getnum] in H; try discriminate.
  - destruct (is_digit a); discriminate.
  - destruct (is_digit a) eqn:Ha; [|discriminate]. destruct (is_digit b) eqn:Hb; [|discriminate].
    cbn [negb] in H. injection H as <- <-. exists a, b. rewrite two_digit_value. auto.
Qed.

Lemma gt_getnum_free_inv : forall v x r, gt_getnum v false = Some (x, r) ->
  (exists a b, v = a :: b :: r /\ is_digit a = true /\ is_digit b = true /\ x = dec_value [a; b] 0)
  \/ (exists a, v = a :: r /\ is_digit a = true /\ x = a - 48).
Proof.
  intros v x r H. destruct v as [|a [|b t]]; cbn [gt_getnum] in H; try discriminate.
  - destruct (is_digit a) eqn:Ha; [|discriminate]. cbn [negb] in H. injection H as <- <-.
    right. exists a. auto.
  - destruct (is_digit a) eqn:Ha; [|discriminate]. cbn [negb] in H.
    destruct (is_digit b) eqn:Hb.
    + injection H as <- <-. left. exists a, b. rewrite two_digit_value. auto.
    + injection H as <- <-. right. exists a. auto.
Qed.

(* ================= B. parsing a text of the right shape ================= *)

Definition tsp_set_year (f : gt_fields) (x : Z) := mk_gt_fields x (gt_month f) (gt_day f) (gt_hour f) (gt_min f) (gt_sec f) (gt_nsec f).
Definition tsp_set_month (f : gt_fields) (x : Z) := mk_gt_fields (gt_year f) x (gt_day f) (gt_hour f) (gt_min f) (gt_sec f) (gt_nsec f).
Definition tsp_set_day (f : gt_fields) (x : Z) := mk_gt_fields (gt_year f) (gt_month f) x (gt_hour f) (gt_min f) (gt_sec f) (gt_nsec f).
Definition tsp_set_hour (f : gt_fields) (x : Z) := mk_gt_fields (gt_year f) (gt_month f) (gt_day f) x (gt_min f) (gt_sec f) (gt_nsec f).
Definition tsp_set_min (f : gt_fields) (x : Z) := mk_gt_fields (gt_year f) (gt_month f) (gt_day f) (gt_hour f) x (gt_sec f) (gt_nsec f).
Definition tsp_set_sec (f : gt_fields) (x : Z) := mk_gt_fields (gt_year f) (gt_month f) (gt_day f) (gt_hour f) (gt_min f) x (gt_nsec f).
Definition tsp_set_nsec (f : gt_fields) (x : Z) := mk_gt_fields (gt_year f) (gt_month f) (gt_day f) (gt_hour f) (gt_min f) (gt_sec f) x.

Lemma two_digit_nonneg (a b : Z) : is_digit a = true -> is_digit b = true -> 0 <= dec_value [a; b] 0 <= 99.
Proof. intros Ha Hb. rewrite two_digit_value. apply is_digit_range in Ha, Hb. unfold CH0 in *. lia. Qed.

Lemma std_year_ok : forall y0 y1 y2 y3 v nif f,
  all_digits [y0; y1; y2; y3] = true ->
  gt_parse_std GtLongYear nif (y0 :: y1 :: y2 :: y3 :: v) f = Ok (v, tsp_set_year f (dec_value [y0; y1; y2; y3] 0)).
Proof.
  intros y0 y1 y2 y3 v nif f Hd. cbn [gt_parse_std length Nat.ltb Nat.leb orb gt_is_digit_at nth_error firstn skipn].
  assert (H0 : is_digit y0 = true) by (cbn in Hd; apply andb_true_iff in Hd; tauto).
  rewrite H0. cbn [negb].
  rewrite (gt_atoi_digits [y0; y1; y2; y3] Hd ltac:(discriminate) ltac:(cbn; lia)). reflexivity.
Qed.

Lemma std_month_ok : forall a b v nif f, is_digit a = true -> is_digit b = true ->
  gt_parse_std GtZeroMonth nif (a :: b :: v) f =
  let x := dec_value [a; b] 0 in
  if (1 <=? x) && (x <=? 12) then Ok (v, tsp_set_month f x) else Err E_TIME_PARSE.
Proof.
  intros a b v nif f Ha Hb. cbn [gt_parse_std]. rewrite (gt_getnum_two a b v true Ha Hb). cbv zeta.
  destruct ((1 <=? dec_value [a; b] 0) && (dec_value [a; b] 0 <=? 12)) eqn:E.
  - replace ((dec_value [a; b] 0 <=? 0) || (12 <? dec_value [a; b] 0)) with false by lia. reflexivity.
  - replace ((dec_value [a; b] 0 <=? 0) || (12 <? dec_value [a; b] 0)) with true by lia. reflexivity.
Qed.

Lemma std_day_ok : forall a b v nif f, is_digit a = true -> is_digit b = true ->
  gt_parse_std GtZeroDay nif (a :: b :: v) f = Ok (v, tsp_set_day f (dec_value [a; b] 0)).
Proof. intros a b v nif f Ha Hb. cbn [gt_parse_std]. rewrite (gt_getnum_two a b v true Ha Hb). reflexivity. Qed.

Lemma std_hour_ok : forall a b v nif f, is_digit a = true -> is_digit b = true ->
  gt_parse_std GtHour nif (a :: b :: v) f =
  let x := dec_value [a; b] 0 in
  if x <? 24 then Ok (v, tsp_set_hour f x) else Err E_TIME_PARSE.
Proof.
  intros a b v nif f Ha Hb. cbn [gt_parse_std]. rewrite (gt_getnum_two a b v false Ha Hb). cbv zeta.
  pose proof (two_digit_nonneg a b Ha Hb).
  destruct (dec_value [a; b] 0 <? 24) eqn:E.
  - replace ((dec_value [a; b] 0 <? 0) || (24 <=? dec_value [a; b] 0)) with false by lia. reflexivity.
  - replace ((dec_value [a; b] 0 <? 0) || (24 <=? dec_value [a; b] 0)) with true by lia. reflexivity.
Qed.

Lemma std_min_ok : forall a b v nif f, is_digit a = true -> is_digit b = true ->
  gt_parse_std GtZeroMinute nif (a :: b :: v) f =
  let x := dec_value [a; b] 0 in
  if x <? 60 then Ok (v, tsp_set_min f x) else Err E_TIME_PARSE.
Proof.
  intros a b v nif f Ha Hb. cbn [gt_parse_std]. rewrite (gt_getnum_two a b v true Ha Hb). cbv zeta.
  pose proof (two_digit_nonneg a b Ha Hb).
  destruct (dec_value [a; b] 0 <? 60) eqn:E.
  - replace ((dec_value [a; b] 0 <? 0) || (60 <=? dec_value [a; b] 0)) with false by lia. reflexivity.
  - replace ((dec_value [a; b] 0 <? 0) || (60 <=? dec_value [a; b] 0)) with true by lia. reflexivity.
Qed.

(* seconds: either the layout continues with the fraction, or nothing follows *)
Lemma std_sec_ok : forall a b v nif f, is_digit a = true -> is_digit b = true ->
  (nif = true \/ v = []) ->
  gt_parse_std GtZeroSecond nif (a :: b :: v) f =
  let x := dec_value [a; b] 0 in
  if x <? 60 then Ok (v, tsp_set_sec f x) else Err E_TIME_PARSE.
Proof.
  intros a b v nif f Ha Hb Hv. cbn [gt_parse_std]. rewrite (gt_getnum_two a b v true Ha Hb). cbv zeta.
  pose proof (two_digit_nonneg a b Ha Hb).
  destruct (dec_value [a; b] 0 <? 60) eqn:E.
  - replace ((dec_value [a; b] 0 <? 0) || (60 <=? dec_value [a; b] 0)) with false by lia.
    destruct Hv as [-> | ->].
    + rewrite !andb_false_r. reflexivity.
    + reflexivity.
  - replace ((dec_value [a; b] 0 <? 0) || (60 <=? dec_value [a; b] 0)) with true by lia. reflexivity.
Qed.

Lemma gt_parse_nanoseconds_ok : forall F n, all_digits F = true -> length F = n -> (1 <= n <= 9)%nat ->
  gt_parse_nanoseconds (gt_DOT :: F) (S n) = Ok (inl (dec_value F 0 * 10 ^ (9 - Z.of_nat n))).
Proof.
  intros F n Hd Hl Hn. unfold gt_parse_nanoseconds.
  change (gt_comma_or_period gt_DOT) with true. cbn [negb].
  assert (Hmin : Nat.min (S n) 10 = S n) by lia. rewrite Hmin.
  replace (Nat.ltb (length (gt_DOT :: F)) (S n)) with false by (symmetry; apply Nat.ltb_ge; cbn; lia).
  replace (firstn (S n) (gt_DOT :: F)) with (gt_DOT :: F) by (cbn [firstn]; rewrite <- Hl, firstn_all; reflexivity).
  cbn [skipn].
  rewrite (gt_atoi_digits F Hd ltac:(destruct F; [cbn in Hl; lia | discriminate]) ltac:(lia)).
  pose proof (dec_value_nonneg F Hd).
  replace (dec_value F 0 <? 0) with false by lia.
  repeat f_equal. lia.
Qed.

Lemma std_frac_ok : forall F n nif f, all_digits F = true -> length F = n -> (1 <= n <= 9)%nat ->
  gt_parse_std (GtFracSecond0 n) nif (gt_DOT :: F) f =
  Ok ([], tsp_set_nsec f (dec_value F 0 * 10 ^ (9 - Z.of_nat n))).
Proof.
  intros F n nif f Hd Hl Hn. cbn [gt_parse_std].
  replace (Nat.ltb (length (gt_DOT :: F)) (S n)) with false by (symmetry; apply Nat.ltb_ge; cbn; lia).
  rewrite (gt_parse_nanoseconds_ok F n Hd Hl Hn).
  replace (skipn (S n) (gt_DOT :: F)) with (@nil Z); [reflexivity|].
  symmetry. apply skipn_all2. cbn. lia.
Qed.

(* the 17 bytes YYYYMMDD-HH:MM:SS followed by tail *)
Definition ts_base (y0 y1 y2 y3 m0 m1 d0 d1 h0 h1 mi0 mi1 s0 s1 : Z) (tail : bytes) : bytes :=
  y0 :: y1 :: y2 :: y3 :: m0 :: m1 :: d0 :: d1 :: 45 :: h0 :: h1 :: 58 :: mi0 :: mi1 :: 58 :: s0 :: s1 :: tail.

Definition ts_base_digits (y0 y1 y2 y3 m0 m1 d0 d1 h0 h1 mi0 mi1 s0 s1 : Z) : bool :=
  all_digits [y0; y1; y2; y3; m0; m1; d0; d1; h0; h1; mi0; mi1; s0; s1].

Definition ts_fields_ok (mo hh mi ss : Z) : bool :=
  (1 <=? mo) && (mo <=? 12) && (hh <? 24) && (mi <? 60) && (ss <? 60).

Lemma ts_base_digits_split : forall y0 y1 y2 y3 m0 m1 d0 d1 h0 h1 mi0 mi1 s0 s1,
  ts_base_digits y0 y1 y2 y3 m0 m1 d0 d1 h0 h1 mi0 mi1 s0 s1 = true ->
  all_digits [y0; y1; y2; y3] = true /\ is_digit m0 = true /\ is_digit m1 = true /\ is_digit d0 = true /\ is_digit d1 = true
  /\ is_digit h0 = true /\ is_digit h1 = true /\ is_digit mi0 = true /\ is_digit mi1 = true
  /\ is_digit s0 = true /\ is_digit s1 = true.
Proof.
  intros. unfold ts_base_digits in H. cbn [all_digits forallb] in *.
  repeat (apply andb_true_iff in H as [? H]).
  repeat split; try assumption. rewrite H0, H1, H2, H3. reflexivity.
Qed.

Lemma parse_loop_seconds_core : forall y0 y1 y2 y3 m0 m1 d0 d1 h0 h1 mi0 mi1 s0 s1,
  ts_base_digits y0 y1 y2 y3 m0 m1 d0 d1 h0 h1 mi0 mi1 s0 s1 = true ->
  gt_parse_loop gt_layout_seconds (ts_base y0 y1 y2 y3 m0 m1 d0 d1 h0 h1 mi0 mi1 s0 s1 []) gt_fields0 =
  if ts_fields_ok (dec_value [m0; m1] 0) (dec_value [h0; h1] 0) (dec_value [mi0; mi1] 0) (dec_value [s0; s1] 0)
  then Ok (mk_gt_fields (dec_value [y0; y1; y2; y3] 0) (dec_value [m0; m1] 0) (dec_value [d0; d1] 0)
             (dec_value [h0; h1] 0) (dec_value [mi0; mi1] 0) (dec_value [s0; s1] 0) 0)
  else Err E_TIME_PARSE.
Proof.
  intros y0 y1 y2 y3 m0 m1 d0 d1 h0 h1 mi0 mi1 s0 s1 Hd.
  apply ts_base_digits_split in Hd as (Hy & Hm0 & Hm1 & Hd0 & Hd1 & Hh0 & Hh1 & Hmi0 & Hmi1 & Hs0 & Hs1).
  unfold gt_layout_seconds, ts_base, ts_fields_ok.
  cbn [gt_parse_loop gt_skip gt_is_frac snd].
  rewrite (std_year_ok _ _ _ _ _ _ _ Hy). cbn [bind andb gt_skip].
  rewrite (std_month_ok _ _ _ _ _ Hm0 Hm1). cbv zeta.
  destruct ((1 <=? dec_value [m0; m1] 0) && (dec_value [m0; m1] 0 <=? 12)) eqn:Emo; [|reflexivity].
  cbn [bind andb gt_skip]. rewrite (std_day_ok _ _ _ _ _ Hd0 Hd1). cbn [bind andb gt_skip].
  change (45 =? MINUS) with true. cbv iota.
  rewrite (std_hour_ok _ _ _ _ _ Hh0 Hh1). cbv zeta.
  destruct (dec_value [h0; h1] 0 <? 24) eqn:Eh; [|reflexivity].
  cbn [bind andb gt_skip]. change (58 =? gt_COLON) with true. cbv iota.
  rewrite (std_min_ok _ _ _ _ _ Hmi0 Hmi1). cbv zeta.
  destruct (dec_value [mi0; mi1] 0 <? 60) eqn:Emi; [|reflexivity].
  cbn [bind andb gt_skip]. change (58 =? gt_COLON) with true. cbv iota.
  rewrite (std_sec_ok _ _ _ _ _ Hs0 Hs1 (or_intror eq_refl)). cbv zeta.
  destruct (dec_value [s0; s1] 0 <? 60) eqn:Es; [|reflexivity].
  reflexivity.
Qed.

Lemma parse_loop_frac_core : forall n y0 y1 y2 y3 m0 m1 d0 d1 h0 h1 mi0 mi1 s0 s1 F,
  ts_base_digits y0 y1 y2 y3 m0 m1 d0 d1 h0 h1 mi0 mi1 s0 s1 = true ->
  all_digits F = true -> length F = n -> (1 <= n <= 9)%nat ->
  gt_parse_loop (gt_layout_frac n) (ts_base y0 y1 y2 y3 m0 m1 d0 d1 h0 h1 mi0 mi1 s0 s1 (gt_DOT :: F)) gt_fields0 =
  if ts_fields_ok (dec_value [m0; m1] 0) (dec_value [h0; h1] 0) (dec_value [mi0; mi1] 0) (dec_value [s0; s1] 0)
  then Ok (mk_gt_fields (dec_value [y0; y1; y2; y3] 0) (dec_value [m0; m1] 0) (dec_value [d0; d1] 0)
             (dec_value [h0; h1] 0) (dec_value [mi0; mi1] 0) (dec_value [s0; s1] 0)
             (dec_value F 0 * 10 ^ (9 - Z.of_nat n)))
  else Err E_TIME_PARSE.
Proof.
  intros n y0 y1 y2 y3 m0 m1 d0 d1 h0 h1 mi0 mi1 s0 s1 F Hd HF Hl Hn.
  apply ts_base_digits_split in Hd as (Hy & Hm0 & Hm1 & Hd0 & Hd1 & Hh0 & Hh1 & Hmi0 & Hmi1 & Hs0 & Hs1).
  unfold gt_layout_frac, gt_layout_seconds, ts_base, ts_fields_ok.
  cbn [app gt_parse_loop gt_skip gt_is_frac snd].
  rewrite (std_year_ok _ _ _ _ _ _ _ Hy). cbn [bind andb gt_skip].
  rewrite (std_month_ok _ _ _ _ _ Hm0 Hm1). cbv zeta.
  destruct ((1 <=? dec_value [m0; m1] 0) && (dec_value [m0; m1] 0 <=? 12)) eqn:Emo; [|reflexivity].
  cbn [bind andb gt_skip]. rewrite (std_day_ok _ _ _ _ _ Hd0 Hd1). cbn [bind andb gt_skip].
  change (45 =? MINUS) with true. cbv iota.
  rewrite (std_hour_ok _ _ _ _ _ Hh0 Hh1). cbv zeta.
  destruct (dec_value [h0; h1] 0 <? 24) eqn:Eh; [|reflexivity].
  cbn [bind andb gt_skip]. change (58 =? gt_COLON) with true. cbv iota.
  rewrite (std_min_ok _ _ _ _ _ Hmi0 Hmi1). cbv zeta.
  destruct (dec_value [mi0; mi1] 0 <? 60) eqn:Emi; [|reflexivity].
  cbn [bind andb gt_skip]. change (58 =? gt_COLON) with true. cbv iota.
  rewrite (std_sec_ok _ _ _ _ _ Hs0 Hs1 (or_introl eq_refl)). cbv zeta.
  destruct (dec_value [s0; s1] 0 <? 60) eqn:Es; [|reflexivity].
  cbn [bind andb gt_skip]. rewrite (std_frac_ok F n _ _ HF Hl Hn). cbn [bind andb gt_skip]. reflexivity.
Qed.

(* ================= C. texts of the grammar are read as their value ================= *)

Lemma list_split_17 : forall s : bytes, (17 <= length s)%nat ->
  exists c0 c1 c2 c3 c4 c5 c6 c7 c8 c9 c10 c11 c12 c13 c14 c15 c16 tail,
  s = c0 :: c1 :: c2 :: c3 :: c4 :: c5 :: c6 :: c7 :: c8 :: c9 :: c10 :: c11 :: c12 :: c13 :: c14 :: c15 :: c16 :: tail.
Proof.
  intros s H.
  do 17 (destruct s as [|? s]; [cbn [length] in H; lia|]).
  repeat eexists.
Qed.

Lemma ts_shape_length : forall n s, ts_shape n s = true ->
  length s = match n with O => 17%nat | _ => (18 + n)%nat end.
Proof.
  intros n s H. unfold ts_shape in H.
  repeat (apply andb_true_iff in H as [H _]). apply Nat.eqb_eq in H. exact H.
Qed.

(* a text has the shape iff it is the 17 bytes and the fraction *)
Lemma ts_shape_base : forall n s, ts_shape n s = true ->
  exists y0 y1 y2 y3 m0 m1 d0 d1 h0 h1 mi0 mi1 s0 s1 tail,
    s = ts_base y0 y1 y2 y3 m0 m1 d0 d1 h0 h1 mi0 mi1 s0 s1 tail
    /\ ts_base_digits y0 y1 y2 y3 m0 m1 d0 d1 h0 h1 mi0 mi1 s0 s1 = true
    /\ match n with
       | O => tail = []
       | _ => exists F, tail = gt_DOT :: F /\ all_digits F = true /\ length F = n
       end.
Proof.
  intros n s H. pose proof (ts_shape_length n s H) as Hl.
  destruct (list_split_17 s ltac:(destruct n; lia))
    as (c0 & c1 & c2 & c3 & c4 & c5 & c6 & c7 & c8 & c9 & c10 & c11 & c12 & c13 & c14 & c15 & c16 & tail & ->).
  unfold ts_shape, ts_sub in H.
  cbn [firstn skipn nth all_digits forallb] in H.
  apply andb_true_iff in H as [H Hfrac]. revert Hfrac.
  repeat match goal with Hx : andb _ _ = true |- _ => apply andb_true_iff in Hx; destruct Hx as [? ?] end.
  repeat match goal with Hx : (?c =? ?k) = true |- _ => apply Z.eqb_eq in Hx; subst c end.
  intros Hfrac.
  exists c0, c1, c2, c3, c4, c5, c6, c7, c9, c10, c12, c13, c15, c16, tail.
  split; [reflexivity|]. split.
  - unfold ts_base_digits. cbn [all_digits forallb].
    repeat match goal with Hx : is_digit ?c = true |- _ => rewrite Hx; clear Hx end. reflexivity.
  - destruct n as [|n'].
    + cbn [length] in Hl. destruct tail; [reflexivity | cbn [length] in Hl; lia].
    + apply andb_true_iff in Hfrac as [Hdot HF].
      destruct tail as [|t0 F]; [cbn [length] in Hl; lia|].
      cbn [nth] in Hdot. cbn [skipn] in HF.
      apply Z.eqb_eq in Hdot. subst t0.
      exists F. split; [reflexivity|]. split; [exact HF|]. cbn [length] in Hl. lia.
Qed.

Lemma ts_num_base : forall y0 y1 y2 y3 m0 m1 d0 d1 h0 h1 mi0 mi1 s0 s1 tail,
  let s := ts_base y0 y1 y2 y3 m0 m1 d0 d1 h0 h1 mi0 mi1 s0 s1 tail in
  ts_num s 0 4 = dec_value [y0; y1; y2; y3] 0 /\ ts_num s 4 2 = dec_value [m0; m1] 0
  /\ ts_num s 6 2 = dec_value [d0; d1] 0 /\ ts_num s 9 2 = dec_value [h0; h1] 0
  /\ ts_num s 12 2 = dec_value [mi0; mi1] 0 /\ ts_num s 15 2 = dec_value [s0; s1] 0.
Proof. intros. repeat split. Qed.

Lemma ts_date_ok_fields : forall y mo d hh mi ss, ts_date_ok y mo d hh mi ss = true ->
  ts_fields_ok mo hh mi ss = true /\ (d <? 1) || (gt_days_in mo y <? d) = false /\ 1 <= mo /\ 0 <= d.
Proof.
  intros y mo d hh mi ss H. unfold ts_date_ok in H. unfold ts_fields_ok.
  repeat (apply andb_true_iff in H as [H ?]). repeat split; lia.
Qed.

Lemma gt_parse_finish : forall y mo d hh mi ss ns,
  ts_date_ok y mo d hh mi ss = true ->
  (let f := mk_gt_fields y mo d hh mi ss ns in
   let month := if gt_month f <? 0 then 1 else gt_month f in
   let day := if gt_day f <? 0 then 1 else gt_day f in
   if (day <? 1) || (gt_days_in month (gt_year f) <? day) then @Err (Z * Z) E_TIME_PARSE
   else Ok (gt_unix_of_civil (gt_year f) month day (gt_hour f) (gt_min f) (gt_sec f), gt_nsec f))
  = Ok (gt_unix_of_civil y mo d hh mi ss, ns).
Proof.
  intros y mo d hh mi ss ns H. apply ts_date_ok_fields in H as (_ & Hday & Hmo & Hd).
  cbv zeta. cbn [gt_month gt_day gt_year gt_hour gt_min gt_sec gt_nsec].
  replace (mo <? 0) with false by lia. replace (d <? 0) with false by lia.
  rewrite Hday. reflexivity.
Qed.

Lemma gt_parse_seconds_grammar : forall s, ts_grammarb 1 s = true ->
  gt_parse gt_layout_seconds s = Ok (ts_value 1 s).
Proof.
  intros s H. unfold ts_grammarb in H. cbn [ts_frac_len Z.eqb] in H.
  change (ts_frac_len 1) with (Some 0%nat) in H. cbv iota in H.
  apply andb_true_iff in H as [Hs Hd].
  destruct (ts_shape_base 0 s Hs)
    as (y0 & y1 & y2 & y3 & m0 & m1 & d0 & d1 & h0 & h1 & mi0 & mi1 & s0 & s1 & tail & -> & Hdig & ->).
  destruct (ts_num_base y0 y1 y2 y3 m0 m1 d0 d1 h0 h1 mi0 mi1 s0 s1 []) as (E1 & E2 & E3 & E4 & E5 & E6).
  unfold ts_value. change (ts_frac_len 1) with (Some 0%nat). cbv iota.
  rewrite E1, E2, E3, E4, E5, E6 in *.
  unfold gt_parse. rewrite (parse_loop_seconds_core _ _ _ _ _ _ _ _ _ _ _ _ _ _ Hdig).
  destruct (ts_date_ok_fields _ _ _ _ _ _ Hd) as (Hf & _). rewrite Hf. cbn [bind].
  rewrite (gt_parse_finish _ _ _ _ _ _ 0 Hd).
  cbn [skipn ts_base dec_value]. rewrite Z.mul_0_l. reflexivity.
Qed.

Lemma gt_parse_frac_grammar : forall p n s, ts_frac_len p = Some n -> (1 <= n <= 9)%nat ->
  ts_grammarb p s = true ->
  gt_parse (gt_layout_frac n) s = Ok (ts_value p s).
Proof.
  intros p n s Hp Hn H. unfold ts_grammarb in H. rewrite Hp in H.
  apply andb_true_iff in H as [Hs Hd].
  destruct (ts_shape_base n s Hs)
    as (y0 & y1 & y2 & y3 & m0 & m1 & d0 & d1 & h0 & h1 & mi0 & mi1 & s0 & s1 & tail & -> & Hdig & Htail).
  destruct n as [|n']; [lia|]. destruct Htail as (F & -> & HF & HlF).
  destruct (ts_num_base y0 y1 y2 y3 m0 m1 d0 d1 h0 h1 mi0 mi1 s0 s1 (gt_DOT :: F)) as (E1 & E2 & E3 & E4 & E5 & E6).
  unfold ts_value. rewrite Hp.
  rewrite E1, E2, E3, E4, E5, E6 in *.
  unfold gt_parse. rewrite (parse_loop_frac_core (S n') _ _ _ _ _ _ _ _ _ _ _ _ _ _ F Hdig HF HlF Hn).
  destruct (ts_date_ok_fields _ _ _ _ _ _ Hd) as (Hf & _). rewrite Hf. cbn [bind].
  rewrite (gt_parse_finish _ _ _ _ _ _ _ Hd).
  cbn [skipn ts_base]. reflexivity.
Qed.

Lemma ts_grammar_length : forall p n s, ts_frac_len p = Some n -> ts_grammarb p s = true ->
  length s = match n with O => 17%nat | _ => (18 + n)%nat end.
Proof.
  intros p n s Hp H. unfold ts_grammarb in H. rewrite Hp in H. apply andb_true_iff in H as [H _].
  apply ts_shape_length. exact H.
Qed.

Lemma ts_grammar_dot : forall p n s, ts_frac_len p = Some n -> (1 <= n)%nat -> ts_grammarb p s = true ->
  nth 17 s 0 = gt_DOT.
Proof.
  intros p n s Hp Hn H. unfold ts_grammarb in H. rewrite Hp in H. apply andb_true_iff in H as [H _].
  unfold ts_shape in H. apply andb_true_iff in H as [_ H]. destruct n; [lia|].
  apply andb_true_iff in H as [H _]. unfold gt_DOT. lia.
Qed.

Lemma ts_frac_len_cases : forall p n, ts_frac_len p = Some n ->
  (p = 0 /\ n = 3%nat) \/ (p = 1 /\ n = 0%nat) \/ (p = 2 /\ n = 6%nat) \/ (p = 3 /\ n = 9%nat).
Proof.
  intros p n H. unfold ts_frac_len in H.
  destruct (p =? 0) eqn:E0; [injection H as <-; left; lia|].
  destruct (p =? 1) eqn:E1; [injection H as <-; right; left; lia|].
  destruct (p =? 2) eqn:E2; [injection H as <-; right; right; left; lia|].
  destruct (p =? 3) eqn:E3; [injection H as <-; right; right; right; lia|]. discriminate.
Qed.

(* every text of the grammar is accepted, with the precision its length denotes and the instant it denotes *)
Lemma timestamp_read_grammar : forall p s, ts_grammarb p s = true -> timestamp_read s = Ok (ts_value p s, p).
Proof.
  intros p s H.
  destruct (ts_frac_len p) as [n|] eqn:Hp; [|unfold ts_grammarb in H; rewrite Hp in H; discriminate].
  pose proof (ts_grammar_length p n s Hp H) as Hl.
  unfold timestamp_read.
  destruct (ts_frac_len_cases p n Hp) as [[-> ->] | [[-> ->] | [[-> ->] | [-> ->]]]].
  - rewrite (ts_grammar_dot 0 3 s Hp ltac:(lia) H). rewrite Z.eqb_refl, andb_false_r.
    rewrite Hl. cbn [Nat.eqb Nat.add].
    rewrite (gt_parse_frac_grammar 0 3 s Hp ltac:(lia) H). reflexivity.
  - rewrite Hl. cbn [Nat.ltb Nat.leb andb Nat.eqb].
    rewrite (gt_parse_seconds_grammar s H). reflexivity.
  - rewrite (ts_grammar_dot 2 6 s Hp ltac:(lia) H). rewrite Z.eqb_refl, andb_false_r.
    rewrite Hl. cbn [Nat.eqb Nat.add].
    rewrite (gt_parse_frac_grammar 2 6 s Hp ltac:(lia) H). reflexivity.
  - rewrite (ts_grammar_dot 3 9 s Hp ltac:(lia) H). rewrite Z.eqb_refl, andb_false_r.
    rewrite Hl. cbn [Nat.eqb Nat.add].
    rewrite (gt_parse_frac_grammar 3 9 s Hp ltac:(lia) H). reflexivity.
Qed.
