(* Lemmas about the model of fix_utc_timestamp.go (Types/FixTimestamp.v over Types/GoTime.v). *)
From Coq Require Import ZArith List Bool Lia ZifyBool.
From QF Require Import Base.Res Base.Bytes Codec.FixInt Codec.FixIntProofs
  Types.GoTime Types.GoTimeProofs Types.FixTimestamp Types.TypesSpec.
Import ListNotations.
Open Scope Z_scope.

(* ================= A. the scanning helpers ================= *)

Lemma gt_leading_int_all : forall s acc q, gt_leading_int s acc = Some (q, []) ->
  all_digits s = true /\ q = dec_value s acc.
Proof.
  induction s as [|c r IH]; intros acc q H.
  - cbn in H. injection H as <-. split; reflexivity.
  - cbn [gt_leading_int] in H. destruct (is_digit c) eqn:Hc; [|discriminate].
    destruct (acc >? two63 / 10); [discriminate|].
    destruct (acc * 10 + (c - 48) >? two63); [discriminate|].
    apply IH in H as [H1 H2]. cbn [all_digits forallb dec_value]. rewrite Hc. split; [exact H1 | exact H2].
Qed.

Lemma gt_leading_int_digits : forall s acc, all_digits s = true -> 0 <= acc ->
  (acc + 1) * 10 ^ Z.of_nat (length s) <= 10 ^ 18 ->
  gt_leading_int s acc = Some (dec_value s acc, []).
Proof.
  induction s as [|c r IH]; intros acc Hd Ha Hb; [reflexivity|].
  cbn [all_digits forallb] in Hd. apply andb_true_iff in Hd as [Hc Hr].
  cbn [gt_leading_int dec_value]. rewrite Hc. apply is_digit_range in Hc. unfold CH0 in Hc.
  cbn [length] in Hb. rewrite Nat2Z.inj_succ, Z.pow_succ_r in Hb by lia.
  assert (Hp : 0 < 10 ^ Z.of_nat (length r)) by (apply Z.pow_pos_nonneg; lia).
  assert (Hs : (acc + 1) * 10 <= 10 ^ 18) by nia.
  change (10 ^ 18) with 1000000000000000000 in Hs.
  change (two63 / 10) with 922337203685477580. unfold two63.
  replace (acc >? 922337203685477580) with false by lia.
  replace (acc * 10 + (c - 48) >? 9223372036854775808) with false by lia.
  apply IH; [exact Hr | unfold CH0; lia | unfold CH0 in *; nia].
Qed.

Lemma gt_atoi_digits : forall s, all_digits s = true -> s <> [] -> (length s <= 18)%nat ->
  gt_atoi s = Some (dec_value s 0).
Proof.
  intros s Hd Hne Hl. unfold gt_atoi. destruct s as [|c r]; [congruence|].
  pose proof (digits_head_not_minus c r Hd) as Hm.
  assert (Hp : (c =? gt_PLUS) = false).
  { cbn in Hd. apply andb_true_iff in Hd as [Hd _]. unfold is_digit, CH0, CH9, gt_PLUS in *. lia. }
  rewrite Hm, Hp. cbn [orb].
  rewrite gt_leading_int_digits; [reflexivity | exact Hd | lia |].
  pose proof (pow10_le_18 _ Hl). lia.
Qed.

(* what time.atoi accepts: digits, or a sign and digits *)
Lemma gt_atoi_inv : forall s q, gt_atoi s = Some q ->
  (all_digits s = true /\ q = dec_value s 0)
  \/ (exists r, s = gt_PLUS :: r /\ all_digits r = true /\ q = dec_value r 0)
  \/ (exists r, s = MINUS :: r /\ all_digits r = true /\ q = - dec_value r 0).
Proof.
  intros s q H. unfold gt_atoi in H.
  destruct s as [|c r].
  - cbn in H. injection H as <-. left. split; reflexivity.
  - destruct ((c =? MINUS) || (c =? gt_PLUS)) eqn:Es.
    + destruct (gt_leading_int r 0) as [[q' rem]|] eqn:El; [|discriminate].
      destruct rem; [|discriminate]. injection H as <-.
      apply gt_leading_int_all in El as [Hd Hq]. subst q'.
      destruct (c =? MINUS) eqn:Em.
      * right. right. exists r. replace c with MINUS by lia. auto.
      * right. left. exists r. replace c with gt_PLUS by lia. auto.
    + destruct (gt_leading_int (c :: r) 0) as [[q' rem]|] eqn:El; [|discriminate].
      destruct rem; [|discriminate]. injection H as <-.
      apply gt_leading_int_all in El as [Hd Hq]. left. auto.
Qed.

Lemma two_digit_value (a b : Z) : dec_value [a; b] 0 = (a - 48) * 10 + (b - 48).
Proof. cbn [dec_value]. unfold CH0. ring. Qed.

Lemma gt_getnum_two : forall a b r fixed, is_digit a = true -> is_digit b = true ->
  gt_getnum (a :: b :: r) fixed = Some (dec_value [a; b] 0, r).
Proof. intros a b r fixed Ha Hb. cbn [gt_getnum]. rewrite Ha, Hb, two_digit_value. reflexivity. Qed.

Lemma gt_getnum_fixed_inv : forall v x r, gt_getnum v true = Some (x, r) ->
  exists a b, v = a :: b :: r /\ is_digit a = true /\ is_digit b = true /\ x = dec_value [a; b] 0.
Proof.
  intros v x r H. destruct v as [|a [|b t]]; cbn [gt_getnum] in H; try discriminate.
  - destruct (is_digit a); discriminate.
  - destruct (is_digit a) eqn:Ha; [|discriminate]. destruct (is_digit b) eqn:Hb; [|discriminate].
    cbn [negb] in H. injection H as <- <-. exists a, b. rewrite two_digit_value. auto.
Qed.

Lemma gt_getnum_free_inv : forall v x r, gt_getnum v false = Some (x, r) ->
  (exists a b, v = a :: b :: r /\ is_digit a = true /\ is_digit b = true /\ x = dec_value [a; b] 0)
  \/ (exists a, v = a :: r /\ is_digit a = true /\ x = a - 48).
Proof.
  intros v x r H. destruct v as [|a [|b t]]; cbn [gt_getnum] in H; try discriminate.
  - destruct (is_digit a) eqn:Ha; [|discriminate]. cbn [negb] in H. injection H as <- <-.
    right. exists a. auto.
  - destruct (is_digit a) eqn:Ha; [|discriminate]. cbn [negb] in H.
    destruct (is_digit b) eqn:Hb.
    + injection H as <- <-. left. exists a, b. rewrite two_digit_value. auto.
    + injection H as <- <-. right. exists a. auto.
Qed.

(* ================= B. parsing a text of the right shape ================= *)

Definition tsp_set_year (f : gt_fields) (x : Z) := mk_gt_fields x (gt_month f) (gt_day f) (gt_hour f) (gt_min f) (gt_sec f) (gt_nsec f).
Definition tsp_set_month (f : gt_fields) (x : Z) := mk_gt_fields (gt_year f) x (gt_day f) (gt_hour f) (gt_min f) (gt_sec f) (gt_nsec f).
Definition tsp_set_day (f : gt_fields) (x : Z) := mk_gt_fields (gt_year f) (gt_month f) x (gt_hour f) (gt_min f) (gt_sec f) (gt_nsec f).
Definition tsp_set_hour (f : gt_fields) (x : Z) := mk_gt_fields (gt_year f) (gt_month f) (gt_day f) x (gt_min f) (gt_sec f) (gt_nsec f).
Definition tsp_set_min (f : gt_fields) (x : Z) := mk_gt_fields (gt_year f) (gt_month f) (gt_day f) (gt_hour f) x (gt_sec f) (gt_nsec f).
Definition tsp_set_sec (f : gt_fields) (x : Z) := mk_gt_fields (gt_year f) (gt_month f) (gt_day f) (gt_hour f) (gt_min f) x (gt_nsec f).
Definition tsp_set_nsec (f : gt_fields) (x : Z) := mk_gt_fields (gt_year f) (gt_month f) (gt_day f) (gt_hour f) (gt_min f) (gt_sec f) x.

Lemma two_digit_nonneg (a b : Z) : is_digit a = true -> is_digit b = true -> 0 <= dec_value [a; b] 0 <= 99.
Proof. intros Ha Hb. rewrite two_digit_value. apply is_digit_range in Ha, Hb. unfold CH0 in *. lia. Qed.

Lemma std_year_ok : forall y0 y1 y2 y3 v nif f,
  all_digits [y0; y1; y2; y3] = true ->
  gt_parse_std GtLongYear nif (y0 :: y1 :: y2 :: y3 :: v) f = Ok (v, tsp_set_year f (dec_value [y0; y1; y2; y3] 0)).
Proof.
  intros y0 y1 y2 y3 v nif f Hd. cbn [gt_parse_std length Nat.ltb Nat.leb orb gt_is_digit_at nth_error firstn skipn].
  assert (H0 : is_digit y0 = true) by (cbn in Hd; apply andb_true_iff in Hd; tauto).
  rewrite H0. cbn [negb].
  rewrite (gt_atoi_digits [y0; y1; y2; y3] Hd ltac:(discriminate) ltac:(cbn; lia)). reflexivity.
Qed.

Lemma std_month_ok : forall a b v nif f, is_digit a = true -> is_digit b = true ->
  gt_parse_std GtZeroMonth nif (a :: b :: v) f =
  let x := dec_value [a; b] 0 in
  if (1 <=? x) && (x <=? 12) then Ok (v, tsp_set_month f x) else Err E_TIME_PARSE.
Proof.
  intros a b v nif f Ha Hb. cbn [gt_parse_std]. rewrite (gt_getnum_two a b v true Ha Hb). cbv zeta.
  destruct ((1 <=? dec_value [a; b] 0) && (dec_value [a; b] 0 <=? 12)) eqn:E.
  - replace ((dec_value [a; b] 0 <=? 0) || (12 <? dec_value [a; b] 0)) with false by lia. reflexivity.
  - replace ((dec_value [a; b] 0 <=? 0) || (12 <? dec_value [a; b] 0)) with true by lia. reflexivity.
Qed.

Lemma std_day_ok : forall a b v nif f, is_digit a = true -> is_digit b = true ->
  gt_parse_std GtZeroDay nif (a :: b :: v) f = Ok (v, tsp_set_day f (dec_value [a; b] 0)).
Proof. intros a b v nif f Ha Hb. cbn [gt_parse_std]. rewrite (gt_getnum_two a b v true Ha Hb). reflexivity. Qed.

Lemma std_hour_ok : forall a b v nif f, is_digit a = true -> is_digit b = true ->
  gt_parse_std GtHour nif (a :: b :: v) f =
  let x := dec_value [a; b] 0 in
  if x <? 24 then Ok (v, tsp_set_hour f x) else Err E_TIME_PARSE.
Proof.
  intros a b v nif f Ha Hb. cbn [gt_parse_std]. rewrite (gt_getnum_two a b v false Ha Hb). cbv zeta.
  pose proof (two_digit_nonneg a b Ha Hb).
  destruct (dec_value [a; b] 0 <? 24) eqn:E.
  - replace ((dec_value [a; b] 0 <? 0) || (24 <=? dec_value [a; b] 0)) with false by lia. reflexivity.
  - replace ((dec_value [a; b] 0 <? 0) || (24 <=? dec_value [a; b] 0)) with true by lia. reflexivity.
Qed.

Lemma std_min_ok : forall a b v nif f, is_digit a = true -> is_digit b = true ->
  gt_parse_std GtZeroMinute nif (a :: b :: v) f =
  let x := dec_value [a; b] 0 in
  if x <? 60 then Ok (v, tsp_set_min f x) else Err E_TIME_PARSE.
Proof.
  intros a b v nif f Ha Hb. cbn [gt_parse_std]. rewrite (gt_getnum_two a b v true Ha Hb). cbv zeta.
  pose proof (two_digit_nonneg a b Ha Hb).
  destruct (dec_value [a; b] 0 <? 60) eqn:E.
  - replace ((dec_value [a; b] 0 <? 0) || (60 <=? dec_value [a; b] 0)) with false by lia. reflexivity.
  - replace ((dec_value [a; b] 0 <? 0) || (60 <=? dec_value [a; b] 0)) with true by lia. reflexivity.
Qed.

(* seconds: either the layout continues with the fraction, or nothing follows *)
Lemma std_sec_ok : forall a b v nif f, is_digit a = true -> is_digit b = true ->
  (nif = true \/ v = []) ->
  gt_parse_std GtZeroSecond nif (a :: b :: v) f =
  let x := dec_value [a; b] 0 in
  if x <? 60 then Ok (v, tsp_set_sec f x) else Err E_TIME_PARSE.
Proof.
  intros a b v nif f Ha Hb Hv. cbn [gt_parse_std]. rewrite (gt_getnum_two a b v true Ha Hb). cbv zeta.
  pose proof (two_digit_nonneg a b Ha Hb).
  destruct (dec_value [a; b] 0 <? 60) eqn:E.
  - replace ((dec_value [a; b] 0 <? 0) || (60 <=? dec_value [a; b] 0)) with false by lia.
    destruct Hv as [-> | ->].
    + rewrite !andb_false_r. reflexivity.
    + reflexivity.
  - replace ((dec_value [a; b] 0 <? 0) || (60 <=? dec_value [a; b] 0)) with true by lia. reflexivity.
Qed.

Lemma gt_parse_nanoseconds_ok : forall F n, all_digits F = true -> length F = n -> (1 <= n <= 9)%nat ->
  gt_parse_nanoseconds (gt_DOT :: F) (S n) = Ok (inl (dec_value F 0 * 10 ^ (9 - Z.of_nat n))).
Proof.
  intros F n Hd Hl Hn. unfold gt_parse_nanoseconds.
  change (gt_comma_or_period gt_DOT) with true. cbn [negb].
  assert (Hmin : Nat.min (S n) 10 = S n) by lia. rewrite Hmin.
  replace (Nat.ltb (length (gt_DOT :: F)) (S n)) with false by (symmetry; apply Nat.ltb_ge; cbn; lia).
  replace (firstn (S n) (gt_DOT :: F)) with (gt_DOT :: F) by (cbn [firstn]; rewrite <- Hl, firstn_all; reflexivity).
  cbn [skipn].
  rewrite (gt_atoi_digits F Hd ltac:(destruct F; [cbn in Hl; lia | discriminate]) ltac:(lia)).
  pose proof (dec_value_nonneg F Hd).
  replace (dec_value F 0 <? 0) with false by lia.
  repeat f_equal. lia.
Qed.

Lemma std_frac_ok : forall F n nif f, all_digits F = true -> length F = n -> (1 <= n <= 9)%nat ->
  gt_parse_std (GtFracSecond0 n) nif (gt_DOT :: F) f =
  Ok ([], tsp_set_nsec f (dec_value F 0 * 10 ^ (9 - Z.of_nat n))).
Proof.
  intros F n nif f Hd Hl Hn. cbn [gt_parse_std].
  replace (Nat.ltb (length (gt_DOT :: F)) (S n)) with false by (symmetry; apply Nat.ltb_ge; cbn; lia).
  rewrite (gt_parse_nanoseconds_ok F n Hd Hl Hn).
  replace (skipn (S n) (gt_DOT :: F)) with (@nil Z); [reflexivity|].
  symmetry. apply skipn_all2. cbn. lia.
Qed.

(* the 17 bytes YYYYMMDD-HH:MM:SS followed by tail *)
Definition ts_base (y0 y1 y2 y3 m0 m1 d0 d1 h0 h1 mi0 mi1 s0 s1 : Z) (tail : bytes) : bytes :=
  y0 :: y1 :: y2 :: y3 :: m0 :: m1 :: d0 :: d1 :: 45 :: h0 :: h1 :: 58 :: mi0 :: mi1 :: 58 :: s0 :: s1 :: tail.

Definition ts_base_digits (y0 y1 y2 y3 m0 m1 d0 d1 h0 h1 mi0 mi1 s0 s1 : Z) : bool :=
  all_digits [y0; y1; y2; y3; m0; m1; d0; d1; h0; h1; mi0; mi1; s0; s1].

Definition ts_fields_ok (mo hh mi ss : Z) : bool :=
  (1 <=? mo) && (mo <=? 12) && (hh <? 24) && (mi <? 60) && (ss <? 60).

Lemma ts_base_digits_split : forall y0 y1 y2 y3 m0 m1 d0 d1 h0 h1 mi0 mi1 s0 s1,
  ts_base_digits y0 y1 y2 y3 m0 m1 d0 d1 h0 h1 mi0 mi1 s0 s1 = true ->
  all_digits [y0; y1; y2; y3] = true /\ is_digit m0 = true /\ is_digit m1 = true /\ is_digit d0 = true /\ is_digit d1 = true
  /\ is_digit h0 = true /\ is_digit h1 = true /\ is_digit mi0 = true /\ is_digit mi1 = true
  /\ is_digit s0 = true /\ is_digit s1 = true.
Proof.
  intros. unfold ts_base_digits in H. cbn [all_digits forallb] in *.
  repeat (apply andb_true_iff in H as [? H]).
  repeat split; try assumption. rewrite H0, H1, H2, H3. reflexivity.
Qed.

Lemma parse_loop_seconds_core : forall y0 y1 y2 y3 m0 m1 d0 d1 h0 h1 mi0 mi1 s0 s1,
  ts_base_digits y0 y1 y2 y3 m0 m1 d0 d1 h0 h1 mi0 mi1 s0 s1 = true ->
  gt_parse_loop gt_layout_seconds (ts_base y0 y1 y2 y3 m0 m1 d0 d1 h0 h1 mi0 mi1 s0 s1 []) gt_fields0 =
  if ts_fields_ok (dec_value [m0; m1] 0) (dec_value [h0; h1] 0) (dec_value [mi0; mi1] 0) (dec_value [s0; s1] 0)
  then Ok (mk_gt_fields (dec_value [y0; y1; y2; y3] 0) (dec_value [m0; m1] 0) (dec_value [d0; d1] 0)
             (dec_value [h0; h1] 0) (dec_value [mi0; mi1] 0) (dec_value [s0; s1] 0) 0)
  else Err E_TIME_PARSE.
Proof.
  intros y0 y1 y2 y3 m0 m1 d0 d1 h0 h1 mi0 mi1 s0 s1 Hd.
  apply ts_base_digits_split in Hd as (Hy & Hm0 & Hm1 & Hd0 & Hd1 & Hh0 & Hh1 & Hmi0 & Hmi1 & Hs0 & Hs1).
  unfold gt_layout_seconds, ts_base, ts_fields_ok.
  cbn [gt_parse_loop gt_skip gt_is_frac snd].
  rewrite (std_year_ok _ _ _ _ _ _ _ Hy). cbn [bind andb gt_skip].
  rewrite (std_month_ok _ _ _ _ _ Hm0 Hm1). cbv zeta.
  destruct ((1 <=? dec_value [m0; m1] 0) && (dec_value [m0; m1] 0 <=? 12)) eqn:Emo; [|reflexivity].
  cbn [bind andb gt_skip]. rewrite (std_day_ok _ _ _ _ _ Hd0 Hd1). cbn [bind andb gt_skip].
  change (45 =? MINUS) with true. cbv iota.
  rewrite (std_hour_ok _ _ _ _ _ Hh0 Hh1). cbv zeta.
  destruct (dec_value [h0; h1] 0 <? 24) eqn:Eh; [|reflexivity].
  cbn [bind andb gt_skip]. change (58 =? gt_COLON) with true. cbv iota.
  rewrite (std_min_ok _ _ _ _ _ Hmi0 Hmi1). cbv zeta.
  destruct (dec_value [mi0; mi1] 0 <? 60) eqn:Emi; [|reflexivity].
  cbn [bind andb gt_skip]. change (58 =? gt_COLON) with true. cbv iota.
  rewrite (std_sec_ok _ _ _ _ _ Hs0 Hs1 (or_intror eq_refl)). cbv zeta.
  destruct (dec_value [s0; s1] 0 <? 60) eqn:Es; [|reflexivity].
  reflexivity.
Qed.

Lemma parse_loop_frac_core : forall n y0 y1 y2 y3 m0 m1 d0 d1 h0 h1 mi0 mi1 s0 s1 F,
  ts_base_digits y0 y1 y2 y3 m0 m1 d0 d1 h0 h1 mi0 mi1 s0 s1 = true ->
  all_digits F = true -> length F = n -> (1 <= n <= 9)%nat ->
  gt_parse_loop (gt_layout_frac n) (ts_base y0 y1 y2 y3 m0 m1 d0 d1 h0 h1 mi0 mi1 s0 s1 (gt_DOT :: F)) gt_fields0 =
  if ts_fields_ok (dec_value [m0; m1] 0) (dec_value [h0; h1] 0) (dec_value [mi0; mi1] 0) (dec_value [s0; s1] 0)
  then Ok (mk_gt_fields (dec_value [y0; y1; y2; y3] 0) (dec_value [m0; m1] 0) (dec_value [d0; d1] 0)
             (dec_value [h0; h1] 0) (dec_value [mi0; mi1] 0) (dec_value [s0; s1] 0)
             (dec_value F 0 * 10 ^ (9 - Z.of_nat n)))
  else Err E_TIME_PARSE.
Proof.
  intros n y0 y1 y2 y3 m0 m1 d0 d1 h0 h1 mi0 mi1 s0 s1 F Hd HF Hl Hn.
  apply ts_base_digits_split in Hd as (Hy & Hm0 & Hm1 & Hd0 & Hd1 & Hh0 & Hh1 & Hmi0 & Hmi1 & Hs0 & Hs1).
  unfold gt_layout_frac, gt_layout_seconds, ts_base, ts_fields_ok.
  cbn [app gt_parse_loop gt_skip gt_is_frac snd].
  rewrite (std_year_ok _ _ _ _ _ _ _ Hy). cbn [bind andb gt_skip].
  rewrite (std_month_ok _ _ _ _ _ Hm0 Hm1). cbv zeta.
  destruct ((1 <=? dec_value [m0; m1] 0) && (dec_value [m0; m1] 0 <=? 12)) eqn:Emo; [|reflexivity].
  cbn [bind andb gt_skip]. rewrite (std_day_ok _ _ _ _ _ Hd0 Hd1). cbn [bind andb gt_skip].
  change (45 =? MINUS) with true. cbv iota.
  rewrite (std_hour_ok _ _ _ _ _ Hh0 Hh1). cbv zeta.
  destruct (dec_value [h0; h1] 0 <? 24) eqn:Eh; [|reflexivity].
  cbn [bind andb gt_skip]. change (58 =? gt_COLON) with true. cbv iota.
  rewrite (std_min_ok _ _ _ _ _ Hmi0 Hmi1). cbv zeta.
  destruct (dec_value [mi0; mi1] 0 <? 60) eqn:Emi; [|reflexivity].
  cbn [bind andb gt_skip]. change (58 =? gt_COLON) with true. cbv iota.
  rewrite (std_sec_ok _ _ _ _ _ Hs0 Hs1 (or_introl eq_refl)). cbv zeta.
  destruct (dec_value [s0; s1] 0 <? 60) eqn:Es; [|reflexivity].
  cbn [bind andb gt_skip]. rewrite (std_frac_ok F n _ _ HF Hl Hn). cbn [bind andb gt_skip]. reflexivity.
Qed.

(* ================= C. texts of the grammar are read as their value ================= *)

Lemma list_split_17 : forall s : bytes, (17 <= length s)%nat ->
  exists c0 c1 c2 c3 c4 c5 c6 c7 c8 c9 c10 c11 c12 c13 c14 c15 c16 tail,
  s = c0 :: c1 :: c2 :: c3 :: c4 :: c5 :: c6 :: c7 :: c8 :: c9 :: c10 :: c11 :: c12 :: c13 :: c14 :: c15 :: c16 :: tail.
Proof.
  intros s H.
  do 17 (destruct s as [|? s]; [cbn [length] in H; lia|]).
  repeat eexists.
Qed.

Lemma ts_shape_length : forall n s, ts_shape n s = true ->
  length s = match n with O => 17%nat | _ => (18 + n)%nat end.
Proof.
  intros n s H. unfold ts_shape in H.
  repeat (apply andb_true_iff in H as [H _]). apply Nat.eqb_eq in H. exact H.
Qed.

(* a text has the shape iff it is the 17 bytes and the fraction *)
Lemma ts_shape_base : forall n s, ts_shape n s = true ->
  exists y0 y1 y2 y3 m0 m1 d0 d1 h0 h1 mi0 mi1 s0 s1 tail,
    s = ts_base y0 y1 y2 y3 m0 m1 d0 d1 h0 h1 mi0 mi1 s0 s1 tail
    /\ ts_base_digits y0 y1 y2 y3 m0 m1 d0 d1 h0 h1 mi0 mi1 s0 s1 = true
    /\ match n with
       | O => tail = []
       | _ => exists F, tail = gt_DOT :: F /\ all_digits F = true /\ length F = n
       end.
Proof.
  intros n s H. pose proof (ts_shape_length n s H) as Hl.
  destruct (list_split_17 s ltac:(destruct n; lia))
    as (c0 & c1 & c2 & c3 & c4 & c5 & c6 & c7 & c8 & c9 & c10 & c11 & c12 & c13 & c14 & c15 & c16 & tail & ->).
  unfold ts_shape, ts_sub in H.
  cbn [firstn skipn nth all_digits forallb] in H.
  apply andb_true_iff in H as [H Hfrac]. revert Hfrac.
  repeat match goal with Hx : andb _ _ = true |- _ => apply andb_true_iff in Hx; destruct Hx as [? ?] end.
  repeat match goal with Hx : (?c =? ?k) = true |- _ => apply Z.eqb_eq in Hx; subst c end.
  intros Hfrac.
  exists c0, c1, c2, c3, c4, c5, c6, c7, c9, c10, c12, c13, c15, c16, tail.
  split; [reflexivity|]. split.
  - unfold ts_base_digits. cbn [all_digits forallb].
    repeat match goal with Hx : is_digit ?c = true |- _ => rewrite Hx; clear Hx end. reflexivity.
  - destruct n as [|n'].
    + clear -Hl. cbn [length] in Hl. destruct tail; [reflexivity | cbn [length] in Hl; lia].
    + apply andb_true_iff in Hfrac as [Hdot HF].
      destruct tail as [|t0 F]; [exfalso; clear -Hl; cbn [length] in Hl; lia|].
      cbn [nth] in Hdot. cbn [skipn] in HF.
      apply Z.eqb_eq in Hdot. subst t0.
      exists F. split; [reflexivity|]. split; [exact HF|]. clear -Hl. cbn [length] in Hl. lia.
Qed.

Lemma ts_num_base : forall y0 y1 y2 y3 m0 m1 d0 d1 h0 h1 mi0 mi1 s0 s1 tail,
  let s := ts_base y0 y1 y2 y3 m0 m1 d0 d1 h0 h1 mi0 mi1 s0 s1 tail in
  ts_num s 0 4 = dec_value [y0; y1; y2; y3] 0 /\ ts_num s 4 2 = dec_value [m0; m1] 0
  /\ ts_num s 6 2 = dec_value [d0; d1] 0 /\ ts_num s 9 2 = dec_value [h0; h1] 0
  /\ ts_num s 12 2 = dec_value [mi0; mi1] 0 /\ ts_num s 15 2 = dec_value [s0; s1] 0.
Proof. intros. repeat split. Qed.

Lemma ts_date_ok_fields : forall y mo d hh mi ss, ts_date_ok y mo d hh mi ss = true ->
  ts_fields_ok mo hh mi ss = true /\ (d <? 1) || (gt_days_in mo y <? d) = false /\ 1 <= mo /\ 0 <= d.
Proof.
  intros y mo d hh mi ss H. unfold ts_date_ok in H. unfold ts_fields_ok.
  repeat (apply andb_true_iff in H as [H ?]). repeat split; lia.
Qed.

Lemma gt_parse_finish : forall layout v y mo d hh mi ss ns,
  gt_parse_loop layout v gt_fields0 = Ok (mk_gt_fields y mo d hh mi ss ns) ->
  ts_date_ok y mo d hh mi ss = true ->
  gt_parse layout v = Ok (gt_unix_of_civil y mo d hh mi ss, ns).
Proof.
  intros layout v y mo d hh mi ss ns HL H. apply ts_date_ok_fields in H as (_ & Hday & Hmo & Hd).
  unfold gt_parse. rewrite HL. cbn [bind gt_month gt_day gt_year gt_hour gt_min gt_sec gt_nsec].
  replace (mo <? 0) with false by lia. replace (d <? 0) with false by lia.
  rewrite Hday. reflexivity.
Qed.

Lemma gt_parse_seconds_grammar : forall s, ts_grammarb 1 s = true ->
  gt_parse gt_layout_seconds s = Ok (ts_value 1 s).
Proof.
  intros s H. unfold ts_grammarb in H. cbn [ts_frac_len Z.eqb] in H.
  change (ts_frac_len 1) with (Some 0%nat) in H. cbv iota in H.
  apply andb_true_iff in H as [Hs Hd].
  destruct (ts_shape_base 0 s Hs)
    as (y0 & y1 & y2 & y3 & m0 & m1 & d0 & d1 & h0 & h1 & mi0 & mi1 & s0 & s1 & tail & -> & Hdig & ->).
  destruct (ts_num_base y0 y1 y2 y3 m0 m1 d0 d1 h0 h1 mi0 mi1 s0 s1 []) as (E1 & E2 & E3 & E4 & E5 & E6).
  unfold ts_value. change (ts_frac_len 1) with (Some 0%nat). cbv iota.
  rewrite E1, E2, E3, E4, E5, E6 in *.
  pose proof (parse_loop_seconds_core _ _ _ _ _ _ _ _ _ _ _ _ _ _ Hdig) as HL.
  destruct (ts_date_ok_fields _ _ _ _ _ _ Hd) as (Hf & _). rewrite Hf in HL.
  rewrite (gt_parse_finish _ _ _ _ _ _ _ _ _ HL Hd).
  cbn [skipn ts_base dec_value]. rewrite Z.mul_0_l. reflexivity.
Qed.

Lemma gt_parse_frac_grammar : forall p n s, ts_frac_len p = Some n -> (1 <= n <= 9)%nat ->
  ts_grammarb p s = true ->
  gt_parse (gt_layout_frac n) s = Ok (ts_value p s).
Proof.
  intros p n s Hp Hn H. unfold ts_grammarb in H. rewrite Hp in H.
  apply andb_true_iff in H as [Hs Hd].
  destruct (ts_shape_base n s Hs)
    as (y0 & y1 & y2 & y3 & m0 & m1 & d0 & d1 & h0 & h1 & mi0 & mi1 & s0 & s1 & tail & -> & Hdig & Htail).
  destruct n as [|n']; [lia|]. destruct Htail as (F & -> & HF & HlF).
  destruct (ts_num_base y0 y1 y2 y3 m0 m1 d0 d1 h0 h1 mi0 mi1 s0 s1 (gt_DOT :: F)) as (E1 & E2 & E3 & E4 & E5 & E6).
  unfold ts_value. rewrite Hp.
  rewrite E1, E2, E3, E4, E5, E6 in *.
  pose proof (parse_loop_frac_core (S n') _ _ _ _ _ _ _ _ _ _ _ _ _ _ F Hdig HF HlF Hn) as HL.
  destruct (ts_date_ok_fields _ _ _ _ _ _ Hd) as (Hf & _). rewrite Hf in HL.
  rewrite (gt_parse_finish _ _ _ _ _ _ _ _ _ HL Hd).
  cbn [skipn ts_base]. reflexivity.
Qed.

Lemma ts_grammar_length : forall p n s, ts_frac_len p = Some n -> ts_grammarb p s = true ->
  length s = match n with O => 17%nat | _ => (18 + n)%nat end.
Proof.
  intros p n s Hp H. unfold ts_grammarb in H. rewrite Hp in H. apply andb_true_iff in H as [H _].
  apply ts_shape_length. exact H.
Qed.

Lemma ts_grammar_dot : forall p n s, ts_frac_len p = Some n -> (1 <= n)%nat -> ts_grammarb p s = true ->
  nth 17 s 0 = gt_DOT.
Proof.
  intros p n s Hp Hn H. unfold ts_grammarb in H. rewrite Hp in H. apply andb_true_iff in H as [H _].
  unfold ts_shape in H. apply andb_true_iff in H as [_ H]. destruct n; [lia|].
  apply andb_true_iff in H as [H _]. unfold gt_DOT. lia.
Qed.

Lemma ts_frac_len_cases : forall p n, ts_frac_len p = Some n ->
  (p = 0 /\ n = 3%nat) \/ (p = 1 /\ n = 0%nat) \/ (p = 2 /\ n = 6%nat) \/ (p = 3 /\ n = 9%nat).
Proof.
  intros p n H. unfold ts_frac_len in H.
  destruct (p =? 0) eqn:E0; [injection H as <-; left; lia|].
  destruct (p =? 1) eqn:E1; [injection H as <-; right; left; lia|].
  destruct (p =? 2) eqn:E2; [injection H as <-; right; right; left; lia|].
  destruct (p =? 3) eqn:E3; [injection H as <-; right; right; right; lia|]. discriminate.
Qed.

Lemma ts_grammar_byte18 : forall p s, ts_grammarb p s = true ->
  Nat.ltb 18 (length s) && negb (is_digit (nth 18 s 0)) = false.
Proof.
  intros p s Hg. destruct (Nat.ltb 18 (length s)) eqn:El; [|reflexivity]. apply Nat.ltb_lt in El.
  cbn [andb]. apply negb_false_iff.
  unfold ts_grammarb in Hg. destruct (ts_frac_len p) as [n|] eqn:Hp; [|discriminate].
  apply andb_true_iff in Hg as [Hs _].
  destruct (ts_shape_base n s Hs)
    as (y0 & y1 & y2 & y3 & m0 & m1 & d0 & d1 & h0 & h1 & mi0 & mi1 & s0 & s1 & tail & -> & _ & Ht).
  unfold ts_base in *. cbn [nth length] in *.
  destruct n.
  - subst tail. cbn [length] in El. lia.
  - destruct Ht as (F & -> & HF & HlF). cbn [nth].
    destruct F as [|f0 F']; [cbn [length] in El; lia|]. cbn [nth].
    cbn [all_digits forallb] in HF. apply andb_true_iff in HF as [Hf0 _]. exact Hf0.
Qed.

(* every text of the grammar is accepted, with the precision its length denotes and the instant it denotes *)
Lemma timestamp_read_grammar : forall p s, ts_grammarb p s = true -> timestamp_read s = Ok (ts_value p s, p).
Proof.
  intros p s H. pose proof (ts_grammar_byte18 p s H) as H18.
  destruct (ts_frac_len p) as [n|] eqn:Hp; [|unfold ts_grammarb in H; rewrite Hp in H; discriminate].
  pose proof (ts_grammar_length p n s Hp H) as Hl.
  unfold timestamp_read, utc_timestamp_millis_format, utc_timestamp_seconds_format,
    utc_timestamp_micros_format, utc_timestamp_nanos_format.
  destruct (ts_frac_len_cases p n Hp) as [[-> ->] | [[-> ->] | [[-> ->] | [-> ->]]]].
  - rewrite (ts_grammar_dot 0 3 s Hp ltac:(lia) H). rewrite Z.eqb_refl, andb_false_r. rewrite H18.
    rewrite Hl. cbn [Nat.eqb Nat.add].
    rewrite (gt_parse_frac_grammar 0 3 s Hp ltac:(lia) H). reflexivity.
  - rewrite H18. rewrite Hl. cbn [Nat.ltb Nat.leb andb Nat.eqb].
    rewrite (gt_parse_seconds_grammar s H). reflexivity.
  - rewrite (ts_grammar_dot 2 6 s Hp ltac:(lia) H). rewrite Z.eqb_refl, andb_false_r. rewrite H18.
    rewrite Hl. cbn [Nat.eqb Nat.add].
    rewrite (gt_parse_frac_grammar 2 6 s Hp ltac:(lia) H). reflexivity.
  - rewrite (ts_grammar_dot 3 9 s Hp ltac:(lia) H). rewrite Z.eqb_refl, andb_false_r. rewrite H18.
    rewrite Hl. cbn [Nat.eqb Nat.add].
    rewrite (gt_parse_frac_grammar 3 9 s Hp ltac:(lia) H). reflexivity.
Qed.

(* ================= D. what is accepted has the shape of the grammar ================= *)

Lemma digit_not_sign : forall c, is_digit c = true -> c <> gt_PLUS /\ c <> MINUS.
Proof. intros c H. unfold is_digit, CH0, CH9, gt_PLUS, MINUS in *. lia. Qed.

Lemma std_year_inv : forall nif v f v' f', gt_parse_std GtLongYear nif v f = Ok (v', f') ->
  exists y0 y1 y2 y3, v = y0 :: y1 :: y2 :: y3 :: v' /\ all_digits [y0; y1; y2; y3] = true.
Proof.
  intros nif v f v' f' H. cbn [gt_parse_std] in H.
  destruct (Nat.ltb (length v) 4 || negb (gt_is_digit_at v 0)) eqn:E; [discriminate|].
  apply orb_false_iff in E as [E1 E2]. apply Nat.ltb_ge in E1.
  destruct v as [|y0 [|y1 [|y2 [|y3 r]]]]; try (cbn [length] in E1; lia).
  cbn [firstn skipn] in H.
  destruct (gt_atoi [y0; y1; y2; y3]) as [y|] eqn:Ea; [|discriminate]. injection H as <- <-.
  exists y0, y1, y2, y3. split; [reflexivity|].
  cbn [gt_is_digit_at nth_error] in E2. apply negb_false_iff in E2.
  destruct (digit_not_sign y0 E2) as [Hp Hm].
  apply gt_atoi_inv in Ea as [[Hd _] | [(r' & E & _) | (r' & E & _)]]; [exact Hd | |]; congruence.
Qed.

Lemma std_fixed_inv : forall std nif v f v' f',
  std = GtZeroMonth \/ std = GtZeroDay \/ std = GtZeroMinute ->
  gt_parse_std std nif v f = Ok (v', f') ->
  exists a b, v = a :: b :: v' /\ is_digit a = true /\ is_digit b = true.
Proof.
  intros std nif v f v' f' Hs H.
  destruct Hs as [-> | [-> | ->]]; cbn [gt_parse_std] in H;
    destruct (gt_getnum v true) as [[x r]|] eqn:E; try discriminate.
  - destruct ((x <=? 0) || (12 <? x)); [discriminate|]. injection H as <- <-.
    apply gt_getnum_fixed_inv in E as (a & b & -> & Ha & Hb & _). exists a, b. auto.
  - injection H as <- <-.
    apply gt_getnum_fixed_inv in E as (a & b & -> & Ha & Hb & _). exists a, b. auto.
  - destruct ((x <? 0) || (60 <=? x)); [discriminate|]. injection H as <- <-.
    apply gt_getnum_fixed_inv in E as (a & b & -> & Ha & Hb & _). exists a, b. auto.
Qed.

Lemma std_hour_inv : forall nif v f v' f', gt_parse_std GtHour nif v f = Ok (v', f') ->
  exists hh, v = hh ++ v' /\ all_digits hh = true /\ (length hh = 2%nat \/ length hh = 1%nat).
Proof.
  intros nif v f v' f' H. cbn [gt_parse_std] in H.
  destruct (gt_getnum v false) as [[x r]|] eqn:E; [|discriminate].
  destruct ((x <? 0) || (24 <=? x)); [discriminate|]. injection H as <- <-.
  apply gt_getnum_free_inv in E as [(a & b & -> & Ha & Hb & _) | (a & -> & Ha & _)].
  - exists [a; b]. cbn [app all_digits forallb length]. rewrite Ha, Hb. auto.
  - exists [a]. cbn [app all_digits forallb length]. rewrite Ha. auto.
Qed.

Lemma std_sec_inv : forall nif v f v' f', gt_parse_std GtZeroSecond nif v f = Ok (v', f') ->
  exists a b v1, v = a :: b :: v1 /\ is_digit a = true /\ is_digit b = true
    /\ ((nif = true \/ (length v1 < 2)%nat) -> v' = v1).
Proof.
  intros nif v f v' f' H. cbn [gt_parse_std] in H.
  destruct (gt_getnum v true) as [[x r]|] eqn:E; [|discriminate].
  destruct ((x <? 0) || (60 <=? x)); [discriminate|].
  apply gt_getnum_fixed_inv in E as (a & b & -> & Ha & Hb & _).
  exists a, b, r. split; [reflexivity|]. split; [exact Ha|]. split; [exact Hb|].
  intros Hc.
  destruct (Nat.leb 2 (length r) && gt_comma_or_period (nth 0 r 0) && gt_is_digit_at r 1 && negb nif) eqn:Esp.
  - exfalso. repeat (apply andb_true_iff in Esp as [Esp ?]). apply Nat.leb_le in Esp.
    destruct Hc as [-> | Hc]; [discriminate | lia].
  - injection H as <- _. reflexivity.
Qed.

Lemma std_frac_inv : forall n nif v f v' f', (1 <= n <= 9)%nat ->
  gt_parse_std (GtFracSecond0 n) nif v f = Ok (v', f') ->
  (S n <= length v)%nat /\ v' = skipn (S n) v
  /\ exists q, gt_atoi (skipn 1 (firstn (S n) v)) = Some q /\ 0 <= q.
Proof.
  intros n nif v f v' f' Hn H. cbn [gt_parse_std] in H.
  destruct (Nat.ltb (length v) (S n)) eqn:El; [discriminate|]. apply Nat.ltb_ge in El.
  destruct (gt_parse_nanoseconds v (S n)) as [[ns|e]| | |] eqn:En; try discriminate.
  injection H as <- _. split; [exact El|]. split; [reflexivity|].
  unfold gt_parse_nanoseconds in En. destruct v as [|v0 r]; [discriminate|].
  destruct (negb (gt_comma_or_period v0)); [discriminate|].
  assert (Hmin : Nat.min (S n) 10 = S n) by lia. rewrite Hmin in En.
  destruct (Nat.ltb (length (v0 :: r)) (S n)); [discriminate|].
  destruct (gt_atoi (skipn 1 (firstn (S n) (v0 :: r)))) as [q|] eqn:Ea; [|discriminate].
  destruct (q <? 0) eqn:Eq; [discriminate|]. exists q. split; [reflexivity | lia].
Qed.

Definition gt_layout_head : gt_layout :=
  [([], GtLongYear); ([], GtZeroMonth); ([], GtZeroDay); ([MINUS], GtHour); ([gt_COLON], GtZeroMinute)].

Lemma gt_skip_one_inv : forall v c r, gt_skip v [c] = Some r -> v = c :: r.
Proof.
  intros v c r H. destruct v as [|x t]; cbn [gt_skip] in H; [discriminate|].
  destruct (x =? c) eqn:E; [|discriminate]. injection H as <-. f_equal. lia.
Qed.

Lemma gt_parse_loop_cons : forall pre std rest v f,
  gt_parse_loop ((pre, std) :: rest) v f =
  match gt_skip v pre with
  | None => Err E_TIME_PARSE
  | Some v1 =>
      bind (gt_parse_std std (match rest with c :: _ => gt_is_frac c | [] => false end) v1 f)
           (fun x => gt_parse_loop rest (fst x) (snd x))
  end.
Proof.
  intros. cbn [gt_parse_loop]. destruct (gt_skip v pre) as [v1|]; [|reflexivity].
  destruct (gt_parse_std std _ v1 f) as [[v' f']| | |]; reflexivity.
Qed.

(* the first five chunks: date, '-', hour (one or two digits), ':', minute *)
Lemma parse_loop_head_inv : forall c rest v fin,
  gt_parse_loop (gt_layout_head ++ c :: rest) v gt_fields0 = Ok fin ->
  exists y0 y1 y2 y3 m0 m1 d0 d1 hh mi0 mi1 vt f5,
    v = y0 :: y1 :: y2 :: y3 :: m0 :: m1 :: d0 :: d1 :: 45 :: hh ++ 58 :: mi0 :: mi1 :: vt
    /\ all_digits [y0; y1; y2; y3; m0; m1; d0; d1] = true
    /\ all_digits hh = true /\ (length hh = 2%nat \/ length hh = 1%nat)
    /\ is_digit mi0 = true /\ is_digit mi1 = true
    /\ gt_parse_loop (c :: rest) vt f5 = Ok fin.
Proof.
  intros c rest v fin H. unfold gt_layout_head in H. cbn [app] in H.
  rewrite gt_parse_loop_cons in H. cbn [gt_skip] in H.
  destruct (gt_parse_std GtLongYear _ v gt_fields0) as [[v1 f1]| | |] eqn:E1; try discriminate.
  cbn [bind fst snd] in H. apply std_year_inv in E1 as (y0 & y1 & y2 & y3 & -> & Hy).
  rewrite gt_parse_loop_cons in H. cbn [gt_skip] in H.
  destruct (gt_parse_std GtZeroMonth _ v1 f1) as [[v2 f2]| | |] eqn:E2; try discriminate.
  cbn [bind fst snd] in H. apply std_fixed_inv in E2 as (m0 & m1 & -> & Hm0 & Hm1); [|auto].
  rewrite gt_parse_loop_cons in H. cbn [gt_skip] in H.
  destruct (gt_parse_std GtZeroDay _ v2 f2) as [[v3 f3]| | |] eqn:E3; try discriminate.
  cbn [bind fst snd] in H. apply std_fixed_inv in E3 as (d0 & d1 & -> & Hd0 & Hd1); [|auto].
  rewrite gt_parse_loop_cons in H.
  destruct (gt_skip v3 [MINUS]) as [v3'|] eqn:Es1; [|discriminate].
  apply gt_skip_one_inv in Es1 as ->.
  destruct (gt_parse_std GtHour _ v3' f3) as [[v4 f4]| | |] eqn:E4; try discriminate.
  cbn [bind fst snd] in H. apply std_hour_inv in E4 as (hh & -> & Hhh & Hlen).
  rewrite gt_parse_loop_cons in H.
  destruct (gt_skip v4 [gt_COLON]) as [v4'|] eqn:Es2; [|discriminate].
  apply gt_skip_one_inv in Es2 as ->.
  destruct (gt_parse_std GtZeroMinute _ v4' f4) as [[v5 f5]| | |] eqn:E5; try discriminate.
  cbn [bind fst snd] in H. apply std_fixed_inv in E5 as (mi0 & mi1 & -> & Hmi0 & Hmi1); [|auto].
  exists y0, y1, y2, y3, m0, m1, d0, d1, hh, mi0, mi1, v5, f5.
  split; [reflexivity|]. split.
  - cbn [all_digits forallb] in *. rewrite Hm0, Hm1, Hd0, Hd1.
    repeat (apply andb_true_iff in Hy as [? Hy]).
    repeat match goal with Hx : is_digit ?c = true |- _ => rewrite Hx end. reflexivity.
  - repeat split; try assumption.
Qed.

Lemma hh_two : forall hh : bytes, length hh = 2%nat -> exists h0 h1, hh = [h0; h1].
Proof. intros [|a [|b [|c r]]] H; try discriminate. eauto. Qed.

Lemma base_digits_of : forall y0 y1 y2 y3 m0 m1 d0 d1 h0 h1 mi0 mi1 s0 s1,
  all_digits [y0; y1; y2; y3; m0; m1; d0; d1] = true -> all_digits [h0; h1] = true ->
  is_digit mi0 = true -> is_digit mi1 = true -> is_digit s0 = true -> is_digit s1 = true ->
  ts_base_digits y0 y1 y2 y3 m0 m1 d0 d1 h0 h1 mi0 mi1 s0 s1 = true.
Proof.
  intros. unfold ts_base_digits. cbn [all_digits forallb] in *.
  repeat match goal with Hx : andb _ _ = true |- _ => apply andb_true_iff in Hx; destruct Hx as [? ?] end.
  repeat match goal with Hx : is_digit ?c = true |- _ => rewrite Hx; clear Hx end. reflexivity.
Qed.

Lemma parse_loop_seconds_inv : forall v fin,
  gt_parse_loop gt_layout_seconds v gt_fields0 = Ok fin -> length v = 17%nat ->
  exists y0 y1 y2 y3 m0 m1 d0 d1 h0 h1 mi0 mi1 s0 s1,
    v = ts_base y0 y1 y2 y3 m0 m1 d0 d1 h0 h1 mi0 mi1 s0 s1 []
    /\ ts_base_digits y0 y1 y2 y3 m0 m1 d0 d1 h0 h1 mi0 mi1 s0 s1 = true.
Proof.
  intros v fin H Hl.
  change gt_layout_seconds with (gt_layout_head ++ [([gt_COLON], GtZeroSecond)]) in H.
  apply parse_loop_head_inv in H
    as (y0 & y1 & y2 & y3 & m0 & m1 & d0 & d1 & hh & mi0 & mi1 & vt & f5 & -> & Hd8 & Hhh & Hlen & Hmi0 & Hmi1 & H).
  rewrite gt_parse_loop_cons in H.
  destruct (gt_skip vt [gt_COLON]) as [vt'|] eqn:Es; [|discriminate].
  apply gt_skip_one_inv in Es as ->.
  destruct (gt_parse_std GtZeroSecond false vt' f5) as [[v6 f6]| | |] eqn:E6; try discriminate.
  cbn [bind fst snd gt_parse_loop] in H. destruct v6; [|discriminate].
  apply std_sec_inv in E6 as (s0 & s1 & v1 & -> & Hs0 & Hs1 & Hv1).
  cbn [length] in Hl. rewrite app_length in Hl. cbn [length] in Hl.
  assert (Hv : v1 = []).
  { symmetry. apply Hv1. right. lia. }
  subst v1. cbn [length] in Hl.
  destruct Hlen as [Hlen | Hlen]; [|lia].
  destruct (hh_two hh Hlen) as (h0 & h1 & ->).
  exists y0, y1, y2, y3, m0, m1, d0, d1, h0, h1, mi0, mi1, s0, s1.
  split; [reflexivity|]. apply base_digits_of; assumption.
Qed.

Lemma parse_loop_frac_inv : forall n v fin, (1 <= n <= 9)%nat ->
  gt_parse_loop (gt_layout_frac n) v gt_fields0 = Ok fin -> length v = (18 + n)%nat ->
  nth 17 v 0 = gt_DOT -> nth 18 v 0 <> gt_PLUS -> nth 18 v 0 <> MINUS ->
  exists y0 y1 y2 y3 m0 m1 d0 d1 h0 h1 mi0 mi1 s0 s1 F,
    v = ts_base y0 y1 y2 y3 m0 m1 d0 d1 h0 h1 mi0 mi1 s0 s1 (gt_DOT :: F)
    /\ ts_base_digits y0 y1 y2 y3 m0 m1 d0 d1 h0 h1 mi0 mi1 s0 s1 = true
    /\ all_digits F = true /\ length F = n.
Proof.
  intros n v fin Hn H Hl Hdot Hplus Hminus.
  change (gt_layout_frac n) with (gt_layout_head ++ [([gt_COLON], GtZeroSecond); ([], GtFracSecond0 n)]) in H.
  apply parse_loop_head_inv in H
    as (y0 & y1 & y2 & y3 & m0 & m1 & d0 & d1 & hh & mi0 & mi1 & vt & f5 & -> & Hd8 & Hhh & Hlen & Hmi0 & Hmi1 & H).
  rewrite gt_parse_loop_cons in H. cbn [gt_is_frac snd] in H.
  destruct (gt_skip vt [gt_COLON]) as [vt'|] eqn:Es; [|discriminate].
  apply gt_skip_one_inv in Es as ->.
  destruct (gt_parse_std GtZeroSecond true vt' f5) as [[v6 f6]| | |] eqn:E6; try discriminate.
  cbn [bind fst snd] in H.
  apply std_sec_inv in E6 as (s0 & s1 & v1 & -> & Hs0 & Hs1 & Hv1).
  rewrite (Hv1 (or_introl eq_refl)) in H. clear Hv1.
  rewrite gt_parse_loop_cons in H. cbn [gt_skip] in H.
  destruct (gt_parse_std (GtFracSecond0 n) false v1 f6) as [[v7 f7]| | |] eqn:E7; try discriminate.
  cbn [bind fst snd gt_parse_loop] in H. destruct v7; [|discriminate].
  apply (std_frac_inv n _ _ _ _ _ Hn) in E7 as (Hlen1 & Hskip & q & Hq & Hq0).
  cbn [length] in Hl. rewrite app_length in Hl. cbn [length] in Hl.
  assert (Hl1 : (length v1 <= S n)%nat).
  { destruct (Nat.le_gt_cases (length v1) (S n)) as [Hle|Hgt]; [exact Hle|].
    exfalso. assert (Hs : length (skipn (S n) v1) = (length v1 - S n)%nat) by apply skipn_length.
    rewrite <- Hskip in Hs. cbn [length] in Hs. lia. }
  destruct Hlen as [Hlen | Hlen]; [|lia].
  destruct (hh_two hh Hlen) as (h0 & h1 & ->).
  cbn [app nth] in Hdot, Hplus, Hminus.
  destruct v1 as [|sep F]; [cbn [length] in Hlen1; lia|].
  cbn [nth] in Hdot, Hplus, Hminus. subst sep.
  cbn [length] in Hlen1, Hl1.
  assert (HlF : length F = n) by lia.
  replace (firstn (S n) (gt_DOT :: F)) with (gt_DOT :: F) in Hq
    by (cbn [firstn]; rewrite <- HlF, firstn_all; reflexivity).
  cbn [skipn] in Hq.
  assert (HF : all_digits F = true).
  { apply gt_atoi_inv in Hq as [[Hd _] | [(r' & E & _) | (r' & E & _)]]; [exact Hd | |].
    - subst F. cbn [nth] in Hplus. congruence.
    - subst F. cbn [nth] in Hminus. congruence. }
  exists y0, y1, y2, y3, m0, m1, d0, d1, h0, h1, mi0, mi1, s0, s1, F.
  split; [reflexivity|]. split; [apply base_digits_of; assumption|]. split; assumption.
Qed.

Lemma ts_shape_of_base : forall n y0 y1 y2 y3 m0 m1 d0 d1 h0 h1 mi0 mi1 s0 s1 tail,
  ts_base_digits y0 y1 y2 y3 m0 m1 d0 d1 h0 h1 mi0 mi1 s0 s1 = true ->
  match n with
  | O => tail = []
  | _ => exists F, tail = gt_DOT :: F /\ all_digits F = true /\ length F = n
  end ->
  ts_shape n (ts_base y0 y1 y2 y3 m0 m1 d0 d1 h0 h1 mi0 mi1 s0 s1 tail) = true.
Proof.
  intros n y0 y1 y2 y3 m0 m1 d0 d1 h0 h1 mi0 mi1 s0 s1 tail Hd Ht.
  apply ts_base_digits_split in Hd as (Hy & Hm0 & Hm1 & Hd0 & Hd1 & Hh0 & Hh1 & Hmi0 & Hmi1 & Hs0 & Hs1).
  cbn [all_digits forallb] in Hy.
  repeat (apply andb_true_iff in Hy as [? Hy]).
  unfold ts_shape, ts_sub, ts_base.
  cbn [firstn skipn nth all_digits forallb].
  repeat match goal with Hx : is_digit ?c = true |- _ => rewrite Hx; clear Hx end.
  change (45 =? 45) with true. change (58 =? 58) with true. cbn [andb].
  destruct n as [|n'].
  - subst tail. reflexivity.
  - destruct Ht as (F & -> & HF & HlF). cbn [length nth skipn]. rewrite HlF.
    change (gt_DOT =? 46) with true. unfold all_digits in HF. rewrite HF. cbn [andb Nat.add].
    rewrite Nat.eqb_refl. reflexivity.
Qed.

Lemma gt_parse_loop_date_ok : forall layout v y mo d hh mi ss ns t,
  gt_parse_loop layout v gt_fields0 = Ok (mk_gt_fields y mo d hh mi ss ns) ->
  ts_fields_ok mo hh mi ss = true -> 0 <= d ->
  gt_parse layout v = Ok t -> ts_date_ok y mo d hh mi ss = true.
Proof.
  intros layout v y mo d hh mi ss ns t HL Hf Hd H.
  unfold gt_parse in H. rewrite HL in H.
  cbn [bind gt_month gt_day gt_year gt_hour gt_min gt_sec gt_nsec] in H.
  unfold ts_fields_ok in Hf.
  apply andb_true_iff in Hf as [Hf Hss]. apply andb_true_iff in Hf as [Hf Hmi].
  apply andb_true_iff in Hf as [Hf Hhh]. apply andb_true_iff in Hf as [Hmo1 Hmo2].
  replace (mo <? 0) with false in H by lia. replace (d <? 0) with false in H by lia.
  destruct ((d <? 1) || (gt_days_in mo y <? d)) eqn:Eday; [discriminate|].
  unfold ts_date_ok. rewrite Hmo1, Hmo2, Hhh, Hmi, Hss.
  replace (1 <=? d) with true by lia. replace (d <=? gt_days_in mo y) with true by lia. reflexivity.
Qed.

Lemma gt_parse_seconds_sound : forall s t, gt_parse gt_layout_seconds s = Ok t -> length s = 17%nat ->
  ts_grammarb 1 s = true.
Proof.
  intros s t H Hl.
  destruct (gt_parse_loop gt_layout_seconds s gt_fields0) as [fin| | |] eqn:EL;
    try (unfold gt_parse in H; rewrite EL in H; discriminate).
  destruct (parse_loop_seconds_inv s fin EL Hl)
    as (y0 & y1 & y2 & y3 & m0 & m1 & d0 & d1 & h0 & h1 & mi0 & mi1 & s0 & s1 & -> & Hdig).
  pose proof (parse_loop_seconds_core _ _ _ _ _ _ _ _ _ _ _ _ _ _ Hdig) as HL.
  destruct (ts_fields_ok _ _ _ _) eqn:Hf; [|rewrite HL in EL; discriminate].
  unfold ts_grammarb. change (ts_frac_len 1) with (Some 0%nat). cbv iota.
  rewrite (ts_shape_of_base 0 _ _ _ _ _ _ _ _ _ _ _ _ _ _ [] Hdig eq_refl). cbn [andb].
  destruct (ts_num_base y0 y1 y2 y3 m0 m1 d0 d1 h0 h1 mi0 mi1 s0 s1 []) as (E1 & E2 & E3 & E4 & E5 & E6).
  rewrite E1, E2, E3, E4, E5, E6.
  apply ts_base_digits_split in Hdig as (_ & _ & _ & Hd0 & Hd1 & _).
  pose proof (two_digit_nonneg d0 d1 Hd0 Hd1) as Hd.
  eapply gt_parse_loop_date_ok; [exact HL | exact Hf | lia | exact H].
Qed.

Lemma gt_parse_frac_sound : forall p n s t, ts_frac_len p = Some n -> (1 <= n <= 9)%nat ->
  gt_parse (gt_layout_frac n) s = Ok t -> length s = (18 + n)%nat ->
  nth 17 s 0 = gt_DOT -> nth 18 s 0 <> gt_PLUS -> nth 18 s 0 <> MINUS ->
  ts_grammarb p s = true.
Proof.
  intros p n s t Hp Hn H Hl Hdot Hplus Hminus.
  destruct (gt_parse_loop (gt_layout_frac n) s gt_fields0) as [fin| | |] eqn:EL;
    try (unfold gt_parse in H; rewrite EL in H; discriminate).
  destruct (parse_loop_frac_inv n s fin Hn EL Hl Hdot Hplus Hminus)
    as (y0 & y1 & y2 & y3 & m0 & m1 & d0 & d1 & h0 & h1 & mi0 & mi1 & s0 & s1 & F & -> & Hdig & HF & HlF).
  pose proof (parse_loop_frac_core n _ _ _ _ _ _ _ _ _ _ _ _ _ _ F Hdig HF HlF Hn) as HL.
  destruct (ts_fields_ok _ _ _ _) eqn:Hf; [|rewrite HL in EL; discriminate].
  unfold ts_grammarb. rewrite Hp.
  rewrite (ts_shape_of_base n _ _ _ _ _ _ _ _ _ _ _ _ _ _ (gt_DOT :: F) Hdig).
  2:{ destruct n; [lia|]. exists F. auto. }
  cbn [andb].
  destruct (ts_num_base y0 y1 y2 y3 m0 m1 d0 d1 h0 h1 mi0 mi1 s0 s1 (gt_DOT :: F)) as (E1 & E2 & E3 & E4 & E5 & E6).
  rewrite E1, E2, E3, E4, E5, E6.
  apply ts_base_digits_split in Hdig as (_ & _ & _ & Hd0 & Hd1 & _).
  pose proof (two_digit_nonneg d0 d1 Hd0 Hd1) as Hd.
  eapply gt_parse_loop_date_ok; [exact HL | exact Hf | lia | exact H].
Qed.

(* the fraction does not start with a sign: every byte after the point is then a digit *)
Definition ts_frac_unsigned (s : bytes) : Prop := nth 18 s 0 <> gt_PLUS /\ nth 18 s 0 <> MINUS.

Lemma bind_ok_inv : forall (A C : Type) (r : res A) (k : A -> res C) b, bind r k = Ok b ->
  exists a, r = Ok a /\ k a = Ok b.
Proof. intros A C r k b H. destruct r; try discriminate. eauto. Qed.

Lemma timestamp_read_sound : forall s t p, timestamp_read s = Ok (t, p) -> ts_grammarb p s = true.
Proof.
  intros s t p H. unfold timestamp_read in H.
  unfold utc_timestamp_millis_format, utc_timestamp_seconds_format,
    utc_timestamp_micros_format, utc_timestamp_nanos_format in H.
  destruct (Nat.ltb 17 (length s) && negb (nth 17 s 0 =? gt_DOT)) eqn:Echk; [discriminate|].
  destruct (Nat.ltb 18 (length s) && negb (is_digit (nth 18 s 0))) eqn:E18; [discriminate|].
  assert (Hsign : forall k, length s = (18 + S k)%nat -> nth 18 s 0 <> gt_PLUS /\ nth 18 s 0 <> MINUS).
  { intros k Hk. rewrite Hk in E18. cbn [Nat.add Nat.ltb Nat.leb andb] in E18.
    apply negb_false_iff in E18. apply digit_not_sign. exact E18. }
  destruct (Nat.eqb (length s) 17) eqn:E17.
  { apply Nat.eqb_eq in E17. apply bind_ok_inv in H as (t' & Hp & Hk). injection Hk as <- <-.
    eapply gt_parse_seconds_sound; eassumption. }
  assert (Hdot : forall k, length s = (18 + k)%nat -> nth 17 s 0 = gt_DOT).
  { intros k Hk. rewrite Hk in Echk. cbn [Nat.add Nat.ltb Nat.leb andb] in Echk.
    apply negb_false_iff in Echk. lia. }
  destruct (Nat.eqb (length s) 21) eqn:E21.
  { apply Nat.eqb_eq in E21. apply bind_ok_inv in H as (t' & Hp & Hk). injection Hk as <- <-.
    destruct (Hsign 2%nat E21) as [Hplus Hminus].
    apply (gt_parse_frac_sound 0 3 s t' eq_refl ltac:(lia) Hp E21 (Hdot 3%nat E21) Hplus Hminus). }
  destruct (Nat.eqb (length s) 24) eqn:E24.
  { apply Nat.eqb_eq in E24. apply bind_ok_inv in H as (t' & Hp & Hk). injection Hk as <- <-.
    destruct (Hsign 5%nat E24) as [Hplus Hminus].
    apply (gt_parse_frac_sound 2 6 s t' eq_refl ltac:(lia) Hp E24 (Hdot 6%nat E24) Hplus Hminus). }
  destruct (Nat.eqb (length s) 27) eqn:E27; [|discriminate].
  apply Nat.eqb_eq in E27. apply bind_ok_inv in H as (t' & Hp & Hk). injection Hk as <- <-.
  destruct (Hsign 8%nat E27) as [Hplus Hminus].
  apply (gt_parse_frac_sound 3 9 s t' eq_refl ltac:(lia) Hp E27 (Hdot 9%nat E27) Hplus Hminus).
Qed.

(* C14 timestamp, read side, for every byte string:
   accepted as (t, p)  <=>  text of the grammar at precision p, and t the instant it denotes *)
Lemma timestamp_read_iff : forall s t p,
  timestamp_read s = Ok (t, p) <-> ts_grammarb p s = true /\ t = ts_value p s.
Proof.
  intros s t p. split.
  - intros H. pose proof (timestamp_read_sound s t p H) as Hg. split; [exact Hg|].
    rewrite (timestamp_read_grammar p s Hg) in H. injection H as H. symmetry. exact H.
  - intros [Hg ->]. apply timestamp_read_grammar. exact Hg.
Qed.

(* ================= E. writing, and the two round trips ================= *)

Lemma explicit2 : forall l : bytes, length l = 2%nat -> exists a b, l = [a; b].
Proof. intros [|a [|b [|c r]]] H; try discriminate. eauto. Qed.
Lemma explicit4 : forall l : bytes, length l = 4%nat -> exists a b c d, l = [a; b; c; d].
Proof. intros [|a [|b [|c [|d [|e r]]]]] H; try discriminate. eauto 6. Qed.

Lemma gt_append_int_nonneg : forall x w, 0 <= x -> gt_append_int x w = pad_zeros w (itoa x).
Proof. intros x w H. unfold gt_append_int. replace (x <? 0) with false by lia. reflexivity. Qed.

(* the text Format produces for civil fields and a tail *)
Lemma gt_format_seconds_text : forall t,
  gt_format gt_layout_seconds t =
  let sec := fst t in
  let '(y, m, d) := gt_civil_from_days (sec / 86400) in
  let rem := sec mod 86400 in
  gt_append_int y 4 ++ gt_append_int m 2 ++ gt_append_int d 2 ++ [MINUS] ++ gt_append_int (rem / 3600) 2
  ++ [gt_COLON] ++ gt_append_int (rem mod 3600 / 60) 2 ++ [gt_COLON] ++ gt_append_int (rem mod 60) 2.
Proof.
  intros [sec ns]. unfold gt_format, gt_layout_seconds. cbn [fst].
  destruct (gt_civil_from_days (sec / 86400)) as [[y m] d].
  cbn [flat_map fst snd gt_format_std app]. rewrite !app_nil_r. reflexivity.
Qed.

Lemma gt_format_frac_text : forall n t,
  gt_format (gt_layout_frac n) t = gt_format gt_layout_seconds t ++ gt_append_nano (snd t) n.
Proof.
  intros n [sec ns]. unfold gt_format, gt_layout_frac. cbn [snd].
  destruct (gt_civil_from_days (sec / 86400)) as [[y m] d].
  rewrite flat_map_app. cbn [flat_map fst snd gt_format_std app]. rewrite !app_nil_r. reflexivity.
Qed.

Ltac Zify.zify_post_hook ::= Z.div_mod_to_equations.

Lemma time_of_day_split : forall D hh mi ss, 0 <= hh < 24 -> 0 <= mi < 60 -> 0 <= ss < 60 ->
  let sec := D * 86400 + hh * 3600 + mi * 60 + ss in
  sec / 86400 = D /\ (sec mod 86400) / 3600 = hh /\ (sec mod 86400) mod 3600 / 60 = mi /\ (sec mod 86400) mod 60 = ss.
Proof. intros D hh mi ss Hh Hm Hs sec. subst sec. lia. Qed.

Lemma time_of_day_join : forall sec,
  let rem := sec mod 86400 in
  0 <= rem / 3600 < 24 /\ 0 <= rem mod 3600 / 60 < 60 /\ 0 <= rem mod 60 < 60
  /\ sec = sec / 86400 * 86400 + rem / 3600 * 3600 + rem mod 3600 / 60 * 60 + rem mod 60.
Proof. intros sec rem. subst rem. lia. Qed.

Lemma pow10_pos (k : Z) : 0 <= k -> 0 < 10 ^ k.
Proof. intros H. apply Z.pow_pos_nonneg; lia. Qed.

Ltac Zify.zify_post_hook ::= idtac.

(* the first n of the nine nanosecond digits *)
Lemma firstn_digits_value : forall L n, all_digits L = true -> (n <= length L)%nat ->
  dec_value (firstn n L) 0 * 10 ^ Z.of_nat (length L - n) = dec_value L 0 - dec_value L 0 mod 10 ^ Z.of_nat (length L - n)
  /\ all_digits (firstn n L) = true.
Proof.
  intros L n Hd Hn.
  pose proof (firstn_skipn n L) as Hsplit.
  assert (Hd2 : all_digits (firstn n L) = true /\ all_digits (skipn n L) = true).
  { rewrite <- Hsplit in Hd. rewrite all_digits_app in Hd. apply andb_true_iff in Hd. exact Hd. }
  destruct Hd2 as [Hd1 Hd2]. split; [|exact Hd1].
  assert (Hv : dec_value L 0 = dec_value (firstn n L) 0 * 10 ^ Z.of_nat (length L - n) + dec_value (skipn n L) 0).
  { rewrite <- Hsplit at 1. rewrite dec_value_app, dec_value_shift, skipn_length. reflexivity. }
  pose proof (dec_value_bounds (skipn n L) 0 Hd2 ltac:(lia)) as Hb. rewrite skipn_length in Hb.
  set (P := 10 ^ Z.of_nat (length L - n)) in *.
  assert (HP : 0 < P) by (apply pow10_pos; lia).
  assert (Hmod : dec_value L 0 mod P = dec_value (skipn n L) 0).
  { symmetry. apply (Z.mod_unique _ _ (dec_value (firstn n L) 0)); [left; lia | lia]. }
  rewrite Hmod. lia.
Qed.

Lemma ts_frac_len_range : forall p n, ts_frac_len p = Some n -> (n <= 9)%nat.
Proof. intros p n H. destruct (ts_frac_len_cases p n H) as [[_ ->] | [[_ ->] | [[_ ->] | [_ ->]]]]; lia. Qed.

(* the written text of an instant of the years 0000..9999 is of the grammar and denotes the truncated instant *)
Lemma gt_format_grammar : forall p n t, ts_frac_len p = Some n -> ts_in_rangeb t = true ->
  let text := match n with O => gt_format gt_layout_seconds t | _ => gt_format (gt_layout_frac n) t end in
  ts_grammarb p text = true /\ ts_value p text = ts_trunc p t.
Proof.
  intros p n [sec ns] Hp Hr.
  unfold ts_in_rangeb, TS_MIN_SEC, TS_MAX_SEC in Hr. cbn [fst snd] in Hr.
  apply andb_true_iff in Hr as [Hr Hns2]. apply andb_true_iff in Hr as [Hr Hns1]. apply andb_true_iff in Hr as [Hs1 Hs2].
  pose proof (ts_frac_len_range p n Hp) as Hn9.
  (* the civil fields *)
  pose proof (gt_civil_from_days_spec (sec / 86400)) as Hcivil.
  assert (Hdays : GT_MIN_DAY <= sec / 86400 < GT_MAX_DAY).
  { unfold GT_MIN_DAY, GT_MAX_DAY. split.
    - apply Z.div_le_lower_bound; lia.
    - apply Z.div_lt_upper_bound; lia. }
  pose proof (gt_civil_from_days_year_range _ Hdays) as Hyear.
  destruct (time_of_day_join sec) as (Hhh & Hmi & Hss & Hsec).
  cbv zeta.
  assert (Htext : exists tail, (match n with O => gt_format gt_layout_seconds (sec, ns) | _ => gt_format (gt_layout_frac n) (sec, ns) end)
                  = gt_format gt_layout_seconds (sec, ns) ++ tail
                  /\ match n with O => tail = [] | _ => tail = gt_append_nano ns n end).
  { destruct n; [exists []; rewrite app_nil_r; auto|]. eexists. rewrite gt_format_frac_text. cbn [snd]. auto. }
  destruct Htext as (tail & -> & Htail).
  rewrite gt_format_seconds_text. cbn [fst]. cbv zeta.
  destruct (gt_civil_from_days (sec / 86400)) as [[y m] d]. cbn [fst] in Hyear.
  destruct Hcivil as [[Hm Hd] Hdfc].
  pose proof (gt_days_in_le_31 m y) as H31.
  set (rem := sec mod 86400) in *.
  rewrite !gt_append_int_nonneg by lia.
  destruct (pad_zeros_itoa_field y 4 ltac:(change (10 ^ Z.of_nat 4) with 10000; lia) ltac:(lia)) as (Ly & Dy & Vy).
  destruct (pad_zeros_itoa_field m 2 ltac:(change (10 ^ Z.of_nat 2) with 100; lia) ltac:(lia)) as (Lm & Dm & Vm).
  destruct (pad_zeros_itoa_field d 2 ltac:(change (10 ^ Z.of_nat 2) with 100; lia) ltac:(lia)) as (Ld & Dd & Vd).
  destruct (pad_zeros_itoa_field (rem / 3600) 2 ltac:(change (10 ^ Z.of_nat 2) with 100; lia) ltac:(lia)) as (Lh & Dh & Vh).
  destruct (pad_zeros_itoa_field (rem mod 3600 / 60) 2 ltac:(change (10 ^ Z.of_nat 2) with 100; lia) ltac:(lia)) as (Lmi & Dmi & Vmi).
  destruct (pad_zeros_itoa_field (rem mod 60) 2 ltac:(change (10 ^ Z.of_nat 2) with 100; lia) ltac:(lia)) as (Ls & Ds & Vs).
  destruct (explicit4 _ Ly) as (y0 & y1 & y2 & y3 & Ey). destruct (explicit2 _ Lm) as (m0 & m1 & Em).
  destruct (explicit2 _ Ld) as (d0 & d1 & Ed). destruct (explicit2 _ Lh) as (h0 & h1 & Eh).
  destruct (explicit2 _ Lmi) as (mi0 & mi1 & Emi). destruct (explicit2 _ Ls) as (s0 & s1 & Es).
  rewrite Ey, Em, Ed, Eh, Emi, Es in *.
  change (([y0; y1; y2; y3] ++ [m0; m1] ++ [d0; d1] ++ [MINUS] ++ [h0; h1] ++ [gt_COLON] ++ [mi0; mi1] ++ [gt_COLON] ++ [s0; s1]) ++ tail)
    with (ts_base y0 y1 y2 y3 m0 m1 d0 d1 h0 h1 mi0 mi1 s0 s1 tail).
  assert (Hdig : ts_base_digits y0 y1 y2 y3 m0 m1 d0 d1 h0 h1 mi0 mi1 s0 s1 = true).
  { unfold ts_base_digits.
    change [y0; y1; y2; y3; m0; m1; d0; d1; h0; h1; mi0; mi1; s0; s1]
      with ([y0; y1; y2; y3] ++ [m0; m1] ++ [d0; d1] ++ [h0; h1] ++ [mi0; mi1] ++ [s0; s1]).
    rewrite !all_digits_app, Dy, Dm, Dd, Dh, Dmi, Ds. reflexivity. }
  (* the fraction *)
  assert (Hfrac : match n with
                  | O => tail = []
                  | _ => exists F, tail = gt_DOT :: F /\ all_digits F = true /\ length F = n
                  end /\ dec_value (skipn 1 tail) 0 * 10 ^ (9 - Z.of_nat n) = ns - ns mod 10 ^ (9 - Z.of_nat n)).
  { destruct n as [|n'].
    - subst tail. split; [reflexivity|]. cbn [skipn dec_value]. change (9 - Z.of_nat 0) with 9.
      rewrite Z.mod_small by lia. lia.
    - subst tail. unfold gt_append_nano. rewrite gt_append_int_nonneg by lia.
      destruct (pad_zeros_itoa_field ns 9 ltac:(change (10 ^ Z.of_nat 9) with 1000000000; lia) ltac:(lia)) as (L9 & D9 & V9).
      destruct (firstn_digits_value _ (S n') D9 ltac:(lia)) as [Hfv Hfd].
      rewrite L9, V9 in Hfv.
      replace (Z.of_nat (9 - S n')) with (9 - Z.of_nat (S n')) in Hfv by lia.
      split.
      + eexists. split; [reflexivity|]. split; [exact Hfd|]. rewrite firstn_length. lia.
      + cbn [skipn]. exact Hfv. }
  destruct Hfrac as [Hshape Hfv].
  destruct (ts_num_base y0 y1 y2 y3 m0 m1 d0 d1 h0 h1 mi0 mi1 s0 s1 tail) as (E1 & E2 & E3 & E4 & E5 & E6).
  split.
  - unfold ts_grammarb. rewrite Hp.
    rewrite (ts_shape_of_base n _ _ _ _ _ _ _ _ _ _ _ _ _ _ tail Hdig Hshape). cbn [andb].
    rewrite E1, E2, E3, E4, E5, E6, Vy, Vm, Vd, Vh, Vmi, Vs.
    unfold ts_date_ok.
    replace (1 <=? m) with true by lia. replace (m <=? 12) with true by lia.
    replace (1 <=? d) with true by lia. replace (d <=? gt_days_in m y) with true by lia.
    replace (rem / 3600 <? 24) with true by lia. replace (rem mod 3600 / 60 <? 60) with true by lia.
    replace (rem mod 60 <? 60) with true by lia. reflexivity.
  - unfold ts_value, ts_trunc. rewrite Hp. cbn [fst snd].
    rewrite E1, E2, E3, E4, E5, E6, Vy, Vm, Vd, Vh, Vmi, Vs.
    f_equal.
    + unfold gt_unix_of_civil. rewrite Hdfc. lia.
    + replace (skipn 18 (ts_base y0 y1 y2 y3 m0 m1 d0 d1 h0 h1 mi0 mi1 s0 s1 tail)) with (skipn 1 tail) by reflexivity.
      exact Hfv.
Qed.

(* precision actually written / read back: an undefined precision is written as millis *)
Definition ts_norm_prec (p : Z) : Z := match ts_frac_len p with Some _ => p | None => 0 end.

Lemma timestamp_write_layout : forall t p,
  timestamp_write t p =
  match ts_frac_len (ts_norm_prec p) with
  | Some O => gt_format gt_layout_seconds t
  | Some n => gt_format (gt_layout_frac n) t
  | None => []
  end.
Proof.
  intros t p. unfold timestamp_write, ts_norm_prec, ts_frac_len, TS_SECONDS, TS_MICROS, TS_NANOS,
    utc_timestamp_seconds_format, utc_timestamp_micros_format, utc_timestamp_nanos_format, utc_timestamp_millis_format.
  destruct (p =? 0) eqn:E0; [replace p with 0 by lia; reflexivity|].
  destruct (p =? 1) eqn:E1; [replace p with 1 by lia; reflexivity|].
  destruct (p =? 2) eqn:E2; [replace p with 2 by lia; reflexivity|].
  destruct (p =? 3) eqn:E3; [replace p with 3 by lia; reflexivity|].
  reflexivity.
Qed.

Lemma ts_norm_prec_len : forall p, exists n, ts_frac_len (ts_norm_prec p) = Some n.
Proof.
  intros p. unfold ts_norm_prec. destruct (ts_frac_len p) as [n|] eqn:E; [exists n; exact E|].
  exists 3%nat. reflexivity.
Qed.

(* C14 timestamp: write then read, for every instant of the years 0000..9999 and every precision value *)
Lemma timestamp_write_read : forall t p, ts_in_rangeb t = true ->
  timestamp_read (timestamp_write t p) = Ok (ts_trunc (ts_norm_prec p) t, ts_norm_prec p).
Proof.
  intros t p Hr. destruct (ts_norm_prec_len p) as [n Hn].
  rewrite timestamp_write_layout, Hn.
  destruct (gt_format_grammar (ts_norm_prec p) n t Hn Hr) as [Hg Hv].
  assert (E : match n with O => gt_format gt_layout_seconds t | S _ => gt_format (gt_layout_frac n) t end
              = match n with O => gt_format gt_layout_seconds t | _ => gt_format (gt_layout_frac n) t end)
    by (destruct n; reflexivity).
  rewrite (timestamp_read_grammar _ _ Hg). rewrite Hv. reflexivity.
Qed.

Lemma timestamp_write_grammar : forall t p, ts_in_rangeb t = true ->
  ts_grammarb (ts_norm_prec p) (timestamp_write t p) = true.
Proof.
  intros t p Hr. destruct (ts_norm_prec_len p) as [n Hn].
  rewrite timestamp_write_layout, Hn.
  destruct (gt_format_grammar (ts_norm_prec p) n t Hn Hr) as [Hg _]. destruct n; exact Hg.
Qed.

Lemma ts_norm_prec_id : forall p n, ts_frac_len p = Some n -> ts_norm_prec p = p.
Proof. intros p n H. unfold ts_norm_prec. rewrite H. reflexivity. Qed.

Lemma field_unique2 : forall a b, is_digit a = true -> is_digit b = true ->
  gt_append_int (dec_value [a; b] 0) 2 = [a; b].
Proof.
  intros a b Ha Hb. pose proof (two_digit_nonneg a b Ha Hb).
  rewrite gt_append_int_nonneg by lia.
  apply (pad_zeros_itoa_unique [a; b]); [cbn [all_digits forallb]; rewrite Ha, Hb; reflexivity | discriminate].
Qed.

Lemma field_unique4 : forall a b c d, all_digits [a; b; c; d] = true ->
  gt_append_int (dec_value [a; b; c; d] 0) 4 = [a; b; c; d].
Proof.
  intros a b c d H. pose proof (dec_value_nonneg _ H).
  rewrite gt_append_int_nonneg by lia.
  apply (pad_zeros_itoa_unique [a; b; c; d]); [exact H | discriminate].
Qed.

Lemma nano_field_unique : forall F n, all_digits F = true -> length F = n -> (1 <= n <= 9)%nat ->
  gt_append_nano (dec_value F 0 * 10 ^ (9 - Z.of_nat n)) n = gt_DOT :: F.
Proof.
  intros F n HF Hl Hn. unfold gt_append_nano. f_equal.
  pose proof (dec_value_nonneg F HF) as H0.
  assert (HP : 0 < 10 ^ (9 - Z.of_nat n)) by (apply pow10_pos; lia).
  rewrite gt_append_int_nonneg by nia.
  set (L := F ++ repeat CH0 (9 - n)).
  assert (HL : all_digits L = true) by (subst L; rewrite all_digits_app, HF, all_digits_repeat0; reflexivity).
  assert (HlL : length L = 9%nat) by (subst L; rewrite app_length, repeat_length; lia).
  assert (HvL : dec_value L 0 = dec_value F 0 * 10 ^ (9 - Z.of_nat n)).
  { subst L. rewrite dec_value_app, dec_value_repeat0. f_equal. f_equal. lia. }
  rewrite <- HvL. rewrite <- HlL at 1.
  rewrite (pad_zeros_itoa_unique L HL ltac:(destruct L; [cbn in HlL; lia | discriminate])).
  subst L. rewrite firstn_app. rewrite Hl, Nat.sub_diag. cbn [firstn]. rewrite app_nil_r.
  rewrite <- Hl. apply firstn_all.
Qed.

(* C14 timestamp: read then write.  A text of the grammar is reproduced by writing the instant it denotes *)
Lemma timestamp_read_write : forall p s, ts_grammarb p s = true -> timestamp_write (ts_value p s) p = s.
Proof.
  intros p s H. pose proof H as Hg. unfold ts_grammarb in H.
  destruct (ts_frac_len p) as [n|] eqn:Hp; [|discriminate].
  apply andb_true_iff in H as [Hs Hd].
  pose proof (ts_frac_len_range p n Hp) as Hn9.
  destruct (ts_shape_base n s Hs)
    as (y0 & y1 & y2 & y3 & m0 & m1 & d0 & d1 & h0 & h1 & mi0 & mi1 & s0 & s1 & tail & -> & Hdig & Htail).
  destruct (ts_num_base y0 y1 y2 y3 m0 m1 d0 d1 h0 h1 mi0 mi1 s0 s1 tail) as (E1 & E2 & E3 & E4 & E5 & E6).
  rewrite timestamp_write_layout, (ts_norm_prec_id p n Hp), Hp.
  unfold ts_value. rewrite Hp. rewrite E1, E2, E3, E4, E5, E6 in *.
  pose proof Hdig as Hdig2.
  apply ts_base_digits_split in Hdig2 as (Hy & Hm0 & Hm1 & Hd0 & Hd1 & Hh0 & Hh1 & Hmi0 & Hmi1 & Hs0 & Hs1).
  set (y := dec_value [y0; y1; y2; y3] 0) in *. set (mo := dec_value [m0; m1] 0) in *.
  set (d := dec_value [d0; d1] 0) in *. set (hh := dec_value [h0; h1] 0) in *.
  set (mi := dec_value [mi0; mi1] 0) in *. set (ss := dec_value [s0; s1] 0) in *.
  pose proof (two_digit_nonneg h0 h1 Hh0 Hh1) as Bh. pose proof (two_digit_nonneg mi0 mi1 Hmi0 Hmi1) as Bmi.
  pose proof (two_digit_nonneg s0 s1 Hs0 Hs1) as Bs.
  unfold ts_date_ok in Hd.
  repeat (apply andb_true_iff in Hd as [Hd ?]).
  assert (Hvalid : gt_valid_date y mo d) by (unfold gt_valid_date; lia).
  destruct (time_of_day_split (gt_days_from_civil y mo d) hh mi ss ltac:(fold hh; lia) ltac:(fold mi; lia) ltac:(fold ss; lia))
    as (Tq & Th & Tm & Ts).
  (* the seconds part *)
  assert (Hsec : forall ns, gt_format gt_layout_seconds (gt_unix_of_civil y mo d hh mi ss, ns)
                 = ts_base y0 y1 y2 y3 m0 m1 d0 d1 h0 h1 mi0 mi1 s0 s1 []).
  { intros ns. rewrite gt_format_seconds_text. cbn [fst]. cbv zeta. unfold gt_unix_of_civil.
    rewrite Tq, (gt_civil_from_days_inv y mo d Hvalid), Th, Tm, Ts.
    subst y mo d hh mi ss.
    rewrite (field_unique4 _ _ _ _ Hy), (field_unique2 _ _ Hm0 Hm1), (field_unique2 _ _ Hd0 Hd1),
      (field_unique2 _ _ Hh0 Hh1), (field_unique2 _ _ Hmi0 Hmi1), (field_unique2 _ _ Hs0 Hs1).
    reflexivity. }
  destruct n as [|n'].
  - subst tail. apply Hsec.
  - destruct Htail as (F & -> & HF & HlF).
    rewrite gt_format_frac_text, Hsec. cbn [snd].
    replace (skipn 18 (ts_base y0 y1 y2 y3 m0 m1 d0 d1 h0 h1 mi0 mi1 s0 s1 (gt_DOT :: F))) with F by reflexivity.
    rewrite (nano_field_unique F (S n') HF HlF ltac:(lia)). reflexivity.
Qed.

(* a non-vacuity instance used by Props/C14.v *)
Definition tsp_example_text : bytes :=   (* "20040229-23:59:59.123456" *)
  [50; 48; 48; 52; 48; 50; 50; 57; 45; 50; 51; 58; 53; 57; 58; 53; 57; 46; 49; 50; 51; 52; 53; 54].
Lemma tsp_example_grammar : ts_grammarb 2 tsp_example_text = true
  /\ ts_value 2 tsp_example_text = (1078099199, 123456000).
Proof. split; vm_compute; reflexivity. Qed.
