(* FIXDecimal (model of shopspring/decimal in Types/FixDecimal.v), read -> write: a canonical decimal text of
   scale k (Types/DecimalSpec.v) is read as the number it denotes and written back, at scale k, as itself;
   and what Write produces at a scale >= 0 is canonical of that scale. *)
From Coq Require Import ZArith List Bool Lia ZifyBool.
From QF Require Import Base.Res Base.Bytes Codec.FixInt Codec.FixIntSpec Codec.FixIntProofs
  Types.FixDecimal Types.TypesSpec Types.FixDecimalProofs Types.FixFloatProofs Types.DecimalSpec.
Import ListNotations.
Open Scope Z_scope.

(* ---------------- shape of a canonical text ---------------- *)

Lemma dtx_sign_body : forall s, s = (if dtx_neg s then [MINUS] else []) ++ dtx_body s.
Proof.
  intros [|c r]; [reflexivity|]. cbn [dtx_neg dtx_body].
  destruct (c =? MINUS) eqn:Em; [|reflexivity]. cbn [app]. f_equal. lia.
Qed.

Lemma canonical_uint_digits : forall s, canonical_uint s = true -> all_digits s = true /\ s <> [].
Proof.
  intros [|c r] H; [discriminate|]. cbn [canonical_uint] in H. apply andb_true_iff in H as [Hd _].
  split; [exact Hd | discriminate].
Qed.

Lemma all_digits_no_dot : forall s, all_digits s = true -> index_byte DTX_DOT s = None.
Proof.
  induction s as [|c r IH]; intros H; [reflexivity|]. cbn [all_digits forallb] in H.
  apply andb_true_iff in H as [Hc Hr]. cbn [index_byte].
  replace (c =? DTX_DOT) with false by (unfold is_digit, CH0, CH9, DTX_DOT in *; lia).
  rewrite (IH Hr). reflexivity.
Qed.

(* a canonical text of scale k, taken apart *)
Lemma dec_canonical_shape : forall k s, dec_canonicalb k s = true ->
  let ip := dtx_ip (dtx_body s) in
  let fp := dtx_fp (dtx_body s) in
  dtx_body s = ip ++ (match k with O => [] | S _ => DTX_DOT :: fp end)
  /\ canonical_uint ip = true /\ all_digits fp = true /\ length fp = k
  /\ (dtx_neg s = true -> dec_value (ip ++ fp) 0 <> 0).
Proof.
  intros k s H ip fp. unfold dec_canonicalb in H.
  apply andb_true_iff in H as [H Hz]. apply andb_true_iff in H as [H Hl].
  apply andb_true_iff in H as [H Hfp]. apply andb_true_iff in H as [Hdot Hip].
  apply Nat.eqb_eq in Hl. fold ip in Hip. fold fp in Hfp, Hl. fold ip fp in Hz.
  split; [|split; [exact Hip|split; [exact Hfp|split; [exact Hl|]]]].
  - subst ip fp. unfold dtx_ip, dtx_fp in *.
    destruct (index_byte DTX_DOT (dtx_body s)) as [i|] eqn:Ei.
    + destruct k as [|k']; [discriminate|]. apply index_byte_split. exact Ei.
    + destruct k as [|k']; [|discriminate]. rewrite app_nil_r. reflexivity.
  - intros Hn. rewrite Hn in Hz. cbn [andb] in Hz. lia.
Qed.

(* ---------------- Decimal.string(false) of a canonical coefficient ---------------- *)

Lemma dec_value_digits_int_value : forall s, all_digits s = true -> s <> [] -> int_value s = dec_value s 0.
Proof.
  intros [|c r] Hd Hne; [congruence|]. cbn [int_value]. rewrite (digits_head_not_minus c r Hd). reflexivity.
Qed.

Lemma itoa_canonical_uint : forall s, canonical_uint s = true -> itoa (dec_value s 0) = s.
Proof.
  intros s H. destruct (canonical_uint_digits s H) as [Hd Hne].
  rewrite <- (dec_value_digits_int_value s Hd Hne). apply itoa_canonical.
  destruct s as [|c r]; [congruence|]. cbn [canonical_uint] in H. cbn [canonical_int].
  rewrite (digits_head_not_minus c r Hd). exact H.
Qed.

Lemma canonical_uint_app : forall c r fp, canonical_uint (c :: r) = true -> (c =? CH0) = false ->
  all_digits fp = true -> canonical_uint ((c :: r) ++ fp) = true.
Proof.
  intros c r fp H H0 Hfp. destruct (canonical_uint_digits _ H) as [Hd _].
  cbn [app canonical_uint]. rewrite H0. cbn [negb orb]. rewrite andb_true_r.
  change (c :: r ++ fp) with ((c :: r) ++ fp). rewrite all_digits_app, Hd, Hfp. reflexivity.
Qed.

Lemma dcm_string_canonical : forall (neg : bool) ip fp,
  canonical_uint ip = true -> all_digits fp = true -> fp <> [] ->
  (neg = true -> dec_value (ip ++ fp) 0 <> 0) ->
  dcm_string ((if neg then - dec_value (ip ++ fp) 0 else dec_value (ip ++ fp) 0), - Z.of_nat (length fp))
  = (if neg then [MINUS] else []) ++ ip ++ dcm_DOT :: fp.
Proof.
  intros neg ip fp Hip Hfp Hfpne Hnz.
  destruct (canonical_uint_digits ip Hip) as [Hipd Hipne].
  assert (Hall : all_digits (ip ++ fp) = true) by (rewrite all_digits_app, Hipd, Hfp; reflexivity).
  set (V := dec_value (ip ++ fp) 0) in *.
  assert (HV : 0 <= V) by (apply dec_value_nonneg; exact Hall).
  assert (Hk : (1 <= length fp)%nat) by (destruct fp; [congruence | cbn [length]; lia]).
  unfold dcm_string.
  replace (0 <=? - Z.of_nat (length fp)) with false by lia.
  replace (Z.to_nat (- - Z.of_nat (length fp))) with (length fp) by lia.
  assert (Habs : Z.abs (if neg then - V else V) = V) by (destruct neg; lia).
  rewrite Habs.
  assert (Hsign : ((if neg then - V else V) <? 0) = neg).
  { destruct neg; [specialize (Hnz eq_refl); lia | lia]. }
  rewrite Hsign.
  assert (Hparts :
    (if Nat.ltb (length fp) (length (itoa V))
     then (firstn (length (itoa V) - length fp) (itoa V), skipn (length (itoa V) - length fp) (itoa V))
     else ([CH0], repeat CH0 (length fp - length (itoa V)) ++ itoa V)) = (ip, fp)).
  { destruct ip as [|c r]; [congruence|].
    destruct (c =? CH0) eqn:E0.
    - (* integer part "0": the coefficient has at most k digits *)
      assert (Hr : r = []).
      { cbn [canonical_uint] in Hip. rewrite E0 in Hip. cbn [negb orb] in Hip.
        apply andb_true_iff in Hip as [_ Hl]. apply Nat.eqb_eq in Hl. destruct r; [reflexivity | discriminate]. }
      subst r. assert (Hc : c = CH0) by lia. subst c.
      assert (HVfp : V = dec_value fp 0) by (subst V; reflexivity).
      pose proof (dec_value_bounds fp 0 Hfp ltac:(lia)) as Hb.
      pose proof (itoa_length_bound V (length fp) ltac:(lia) Hk) as Hlen.
      replace (Nat.ltb (length fp) (length (itoa V))) with false
        by (symmetry; apply Nat.ltb_ge; exact Hlen).
      f_equal. rewrite HVfp. apply (pad_zeros_itoa_unique fp Hfp Hfpne).
    - (* integer part starts with 1..9: the coefficient text is ip ++ fp *)
      pose proof (canonical_uint_app c r fp Hip E0 Hfp) as Hcan.
      pose proof (itoa_canonical_uint _ Hcan) as Hit. fold V in Hit. rewrite Hit.
      rewrite app_length.
      replace (Nat.ltb (length fp) (length (c :: r) + length fp)) with true
        by (symmetry; apply Nat.ltb_lt; cbn [length]; lia).
      replace (length (c :: r) + length fp - length fp)%nat with (length (c :: r)) by lia.
      rewrite firstn_app, firstn_all, Nat.sub_diag. cbn [firstn]. rewrite app_nil_r.
      rewrite skipn_app, skipn_all, Nat.sub_diag. cbn [skipn app]. reflexivity. }
  rewrite Hparts.
  destruct fp as [|f0 fr]; [congruence|].
  destruct neg; reflexivity.
Qed.

(* ---------------- read -> write ---------------- *)

(* C14 decimal, read then write: a canonical text of scale k is read as (coefficient, -k) and written back,
   at scale k, as the same text.  (k within int32: NewFromString refuses an exponent outside int32.) *)
Lemma decimal_read_write_canonical : forall k s,
  dec_canonicalb k s = true -> dcm_in_int32 (- Z.of_nat k) = true ->
  decimal_read s = Ok (dec_text_coef s, - Z.of_nat k)
  /\ decimal_write (dec_text_coef s, - Z.of_nat k) (Z.of_nat k) = s.
Proof.
  intros k s Hc H32.
  destruct (dec_canonical_shape k s Hc) as (Hbody & Hip & Hfp & Hlen & Hnz).
  unfold dec_text_coef.
  set (ip := dtx_ip (dtx_body s)) in *. set (fp := dtx_fp (dtx_body s)) in *.
  destruct (canonical_uint_digits ip Hip) as [Hipd Hipne].
  pose proof (dtx_sign_body s) as Hs. rewrite Hbody in Hs.
  assert (Hwr : decimal_write ((if dtx_neg s then - dec_value (ip ++ fp) 0 else dec_value (ip ++ fp) 0), - Z.of_nat k)
                  (Z.of_nat k) =
                dcm_string ((if dtx_neg s then - dec_value (ip ++ fp) 0 else dec_value (ip ++ fp) 0), - Z.of_nat k)).
  { unfold decimal_write, dcm_round. cbn [snd]. rewrite Z.eqb_refl. reflexivity. }
  rewrite Hwr. clear Hwr.
  destruct k as [|k'].
  - (* scale 0: an integer text *)
    assert (Hfp0 : fp = []) by (destruct fp; [reflexivity | discriminate]).
    rewrite Hfp0, app_nil_r in *. cbn [Z.of_nat Z.opp].
    assert (Hcan : canonical_int s = true /\ int_value s = (if dtx_neg s then - dec_value ip 0 else dec_value ip 0)).
    { destruct ip as [|c r]; [congruence|].
      destruct (dtx_neg s) eqn:En.
      - rewrite Hs. cbn [app canonical_int int_value]. rewrite Z.eqb_refl. split; [|reflexivity].
        rewrite Hipd, andb_true_r.
        destruct (c =? CH0) eqn:E0; [|reflexivity]. exfalso.
        cbn [canonical_uint] in Hip. rewrite E0 in Hip. cbn [negb orb] in Hip.
        apply andb_true_iff in Hip as [_ Hl]. apply Nat.eqb_eq in Hl.
        destruct r; [|discriminate]. apply (Hnz eq_refl). cbn [dec_value]. lia.
      - rewrite Hs. cbn [app canonical_int int_value]. rewrite (digits_head_not_minus c r Hipd).
        split; [exact Hip | reflexivity]. }
    destruct Hcan as [Hcan Hval].
    pose proof (itoa_canonical s Hcan) as Hit. rewrite Hval in Hit.
    split.
    + rewrite <- Hit at 1. apply decimal_read_itoa.
    + unfold dcm_string. cbn [Z.leb Z.compare]. unfold dcm_rescale. rewrite Z.eqb_refl. cbn [fst]. exact Hit.
  - (* scale k' + 1: sign, integer digits, point, k' + 1 fraction digits *)
    assert (Hfpne : fp <> []) by (intros E; rewrite E in Hlen; discriminate).
    rewrite <- Hlen. rewrite <- Hlen in H32. split.
    + rewrite Hs at 1. change DTX_DOT with dcm_DOT.
      rewrite (decimal_read_fixed (dtx_neg s) ip fp Hipd Hipne Hfp Hfpne H32). reflexivity.
    + rewrite (dcm_string_canonical (dtx_neg s) ip fp Hip Hfp Hfpne Hnz). symmetry. exact Hs.
Qed.

(* in the form of the property: whatever Read returns for a canonical text, Write turns back into the text *)
Lemma decimal_read_then_write : forall k s d,
  dec_canonicalb k s = true -> dcm_in_int32 (- Z.of_nat k) = true ->
  decimal_read s = Ok d -> decimal_write d (Z.of_nat k) = s.
Proof.
  intros k s d Hc H32 Hr. destruct (decimal_read_write_canonical k s Hc H32) as [Hr' Hw].
  rewrite Hr' in Hr. injection Hr as <-. exact Hw.
Qed.

(* ---------------- Write produces canonical texts only ---------------- *)

Lemma canonical_uint_itoa : forall z, 0 <= z -> canonical_uint (itoa z) = true.
Proof.
  intros z Hz. pose proof (itoa_is_canonical z) as Hc. pose proof (itoa_all_digits_nonneg z Hz) as Hd.
  destruct (itoa z) as [|c r] eqn:E; [discriminate|].
  cbn [canonical_int] in Hc. rewrite (digits_head_not_minus c r Hd) in Hc. exact Hc.
Qed.

Lemma canonical_uint_firstn : forall n s, canonical_uint s = true -> (1 <= n)%nat -> (n < length s)%nat ->
  canonical_uint (firstn n s) = true.
Proof.
  intros n s H Hn Hlt. destruct (canonical_uint_digits s H) as [Hd _].
  destruct s as [|c r]; [discriminate|]. destruct n as [|n']; [lia|].
  cbn [firstn canonical_uint]. cbn [canonical_uint] in H. apply andb_true_iff in H as [_ H0].
  assert (Hfd : all_digits (c :: firstn n' r) = true).
  { change (c :: firstn n' r) with (firstn (S n') (c :: r)).
    rewrite <- (firstn_skipn (S n') (c :: r)) in Hd. rewrite all_digits_app in Hd.
    apply andb_true_iff in Hd. apply Hd. }
  rewrite Hfd. cbn [andb].
  destruct (c =? CH0) eqn:E0; [|reflexivity]. cbn [negb orb] in *.
  apply Nat.eqb_eq in H0. cbn [length] in Hlt. lia.
Qed.

Lemma index_byte_digits_dot : forall ip fp, all_digits ip = true ->
  index_byte DTX_DOT (ip ++ DTX_DOT :: fp) = Some (length ip).
Proof.
  induction ip as [|c r IH]; intros fp H.
  - cbn [app index_byte length]. rewrite Z.eqb_refl. reflexivity.
  - cbn [all_digits forallb] in H. apply andb_true_iff in H as [Hc Hr].
    cbn [app index_byte length].
    replace (c =? DTX_DOT) with false by (unfold is_digit, CH0, CH9, DTX_DOT in *; lia).
    rewrite (IH fp Hr). reflexivity.
Qed.

Lemma dtx_parts_dot : forall ip fp, all_digits ip = true ->
  dtx_ip (ip ++ DTX_DOT :: fp) = ip /\ dtx_fp (ip ++ DTX_DOT :: fp) = fp.
Proof.
  intros ip fp H. unfold dtx_ip, dtx_fp. rewrite (index_byte_digits_dot ip fp H). split.
  - rewrite firstn_app, firstn_all, Nat.sub_diag. cbn [firstn]. apply app_nil_r.
  - replace (ip ++ DTX_DOT :: fp) with ((ip ++ [DTX_DOT]) ++ fp) by (rewrite <- app_assoc; reflexivity).
    replace (S (length ip)) with (length (ip ++ [DTX_DOT])) by (rewrite app_length; cbn [length]; lia).
    rewrite skipn_app, skipn_all, Nat.sub_diag. reflexivity.
Qed.

(* sign ++ ip ++ "." ++ fp is canonical of scale |fp| *)
Lemma dec_canonical_build : forall (neg : bool) ip fp,
  canonical_uint ip = true -> all_digits fp = true -> fp <> [] ->
  (neg = true -> dec_value (ip ++ fp) 0 <> 0) ->
  dec_canonicalb (length fp) ((if neg then [MINUS] else []) ++ ip ++ DTX_DOT :: fp) = true.
Proof.
  intros neg ip fp Hip Hfp Hfpne Hnz.
  destruct (canonical_uint_digits ip Hip) as [Hipd Hipne].
  set (s := (if neg then [MINUS] else []) ++ ip ++ DTX_DOT :: fp).
  assert (Hsb : dtx_neg s = neg /\ dtx_body s = ip ++ DTX_DOT :: fp).
  { subst s. destruct neg.
    - cbn [app dtx_neg dtx_body]. rewrite Z.eqb_refl. split; reflexivity.
    - destruct ip as [|c r]; [congruence|]. cbn [app dtx_neg dtx_body].
      rewrite (digits_head_not_minus c r Hipd). split; reflexivity. }
  destruct Hsb as [Hn Hb]. unfold dec_canonicalb. rewrite Hn, Hb.
  destruct (dtx_parts_dot ip fp Hipd) as [E1 E2]. rewrite E1, E2.
  rewrite (index_byte_digits_dot ip fp Hipd), Hip, Hfp, Nat.eqb_refl.
  replace (Nat.eqb (length fp) 0) with false by (destruct fp; [congruence | reflexivity]).
  cbn [negb andb].
  destruct neg; [|reflexivity]. cbn [andb]. specialize (Hnz eq_refl).
  replace (dec_value (ip ++ fp) 0 =? 0) with false by lia. reflexivity.
Qed.

(* Decimal.string(false) at a negative exponent is canonical *)
Lemma dcm_string_neg_exp_canonical : forall q k, (1 <= k)%nat ->
  dec_canonicalb k (dcm_string (q, - Z.of_nat k)) = true.
Proof.
  intros q k Hk. unfold dcm_string.
  replace (0 <=? - Z.of_nat k) with false by lia.
  replace (Z.to_nat (- - Z.of_nat k)) with k by lia.
  set (str := itoa (Z.abs q)).
  assert (Hcan : canonical_uint str = true) by (apply canonical_uint_itoa; lia).
  destruct (canonical_uint_digits str Hcan) as [Hstr Hstrne].
  assert (Hval : dec_value str 0 = Z.abs q).
  { rewrite <- (dec_value_digits_int_value str Hstr Hstrne). apply int_value_itoa. }
  assert (Hbuild : forall ip fp, canonical_uint ip = true -> all_digits fp = true -> length fp = k ->
            dec_value (ip ++ fp) 0 = Z.abs q ->
            dec_canonicalb k (if q <? 0 then MINUS :: match fp with [] => ip | _ => ip ++ dcm_DOT :: fp end
                              else match fp with [] => ip | _ => ip ++ dcm_DOT :: fp end) = true).
  { intros ip fp Hip Hfp Hl Hv.
    assert (Hfpne : fp <> []) by (intros E; rewrite E in Hl; cbn [length] in Hl; lia).
    pose proof (dec_canonical_build (q <? 0) ip fp Hip Hfp Hfpne) as Hb.
    rewrite Hl in Hb. rewrite Hv in Hb. specialize (Hb ltac:(intros Hq; lia)).
    destruct fp as [|f0 fr]; [congruence|].
    destruct (q <? 0); exact Hb. }
  destruct (Nat.ltb k (length str)) eqn:El.
  - apply Nat.ltb_lt in El.
    assert (Hsplit : firstn (length str - k) str ++ skipn (length str - k) str = str) by apply firstn_skipn.
    apply Hbuild.
    + apply canonical_uint_firstn; [exact Hcan | lia | lia].
    + rewrite <- Hsplit in Hstr. rewrite all_digits_app in Hstr. apply andb_true_iff in Hstr. apply Hstr.
    + rewrite skipn_length. lia.
    + rewrite Hsplit. exact Hval.
  - apply Nat.ltb_ge in El. apply Hbuild.
    + reflexivity.
    + rewrite all_digits_app, all_digits_repeat0, Hstr. reflexivity.
    + rewrite app_length, repeat_length. lia.
    + cbn [app dec_value]. change (0 * 10 + (CH0 - CH0)) with 0.
      rewrite dec_value_app, dec_value_repeat0, Z.mul_0_l. exact Hval.
Qed.

(* an integer text is canonical of scale 0 *)
Lemma dec_canonical_itoa : forall z, dec_canonicalb 0 (itoa z) = true.
Proof.
  intros z. pose proof (itoa_is_canonical z) as Hc. pose proof (int_value_itoa z) as Hv.
  destruct (itoa z) as [|c r] eqn:E; [discriminate|].
  unfold dec_canonicalb. cbn [dtx_neg dtx_body canonical_int int_value] in *.
  destruct (c =? MINUS) eqn:Em.
  - destruct r as [|c2 r2]; [discriminate|]. apply andb_true_iff in Hc as [H0 Hd].
    unfold dtx_ip, dtx_fp. rewrite (all_digits_no_dot _ Hd). rewrite app_nil_r.
    cbn [canonical_uint]. rewrite Hd, H0. cbn [orb andb all_digits forallb length Nat.eqb negb].
    assert (Hlow : 10 ^ Z.of_nat (length r2) <= dec_value (c2 :: r2) 0).
    { apply dec_value_lower; [exact Hd|]. destruct (c2 =? CH0); [discriminate | reflexivity]. }
    assert (0 < 10 ^ Z.of_nat (length r2)) by (apply Z.pow_pos_nonneg; lia).
    replace (dec_value (c2 :: r2) 0 =? 0) with false by lia. reflexivity.
  - apply andb_true_iff in Hc as [Hd H0].
    unfold dtx_ip, dtx_fp. rewrite (all_digits_no_dot _ Hd). rewrite app_nil_r.
    cbn [canonical_uint]. rewrite Hd, H0. reflexivity.
Qed.

(* C14 decimal: Write at a scale >= 0 produces a canonical text of that scale *)
Lemma decimal_write_canonical : forall v e scale, 0 <= scale ->
  dec_canonicalb (Z.to_nat scale) (decimal_write (v, e) scale) = true.
Proof.
  intros v e scale Hs. unfold decimal_write. rewrite dcm_round_spec.
  set (q := dec_round_half_away v e scale).
  destruct (0 <? scale) eqn:Es.
  - replace (- scale) with (- Z.of_nat (Z.to_nat scale)) by lia.
    apply dcm_string_neg_exp_canonical. lia.
  - assert (scale = 0) by lia. subst scale. cbn [Z.opp Z.to_nat].
    unfold dcm_string. cbn [Z.leb Z.compare]. unfold dcm_rescale. rewrite Z.eqb_refl. cbn [fst].
    apply dec_canonical_itoa.
Qed.
