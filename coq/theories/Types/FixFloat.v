(* fix_float.go: FIXFloat.Read acceptance.  Float VALUES are not modelled (strconv.ParseFloat's correctly
   rounded result, FormatFloat's shortest digits): only which texts are accepted, and how FormatFloat(v,'f',-1,64)
   lays out GIVEN shortest digits.
   flt_parse_float_ok is the fragment of strconv.ParseFloat(s, 64) (atof.go: readFloat, ParseFloat's n == len(s)
   test, ErrRange on overflow) for texts over the engine's whitelist alphabet [0-9.-] (and a leading '+').
   On texts with other characters the real ParseFloat may succeed (inf, nan, 0x1p-2, 1_0, 1e5) where this
   fragment fails; FIXFloat.Read rejects those through its whitelist, so the conjunction float_read_ok is the
   same.  Library fragment: modelled, not verified. *)
From Coq Require Import ZArith List Bool.
From QF Require Import Base.Res Base.Bytes.
Import ListNotations.
Open Scope Z_scope.

Definition flt_DOT : Z := 46.
Definition flt_PLUS : Z := 43.

(* the loop of readFloat, base 10, without '_' and hex: stops at a second '.', or at any other byte.
   The mantissa is kept exactly (Go keeps 19 digits and a trunc flag and falls back to exact decimal
   arithmetic; the accepted/ErrRange verdict is that of the exact value). fd = digits after the point. *)
Fixpoint flt_scan (s : bytes) (sawdot sawdigits : bool) (mant fd : Z) : bytes * bool * Z * Z :=
  match s with
  | [] => ([], sawdigits, mant, fd)
  | c :: r =>
      if c =? flt_DOT then
        if sawdot then (s, sawdigits, mant, fd) else flt_scan r true sawdigits mant fd
      else if is_digit c then
        flt_scan r sawdot true (mant * 10 + (c - CH0)) (if sawdot then fd + 1 else fd)
      else (s, sawdigits, mant, fd)
  end.

(* smallest magnitude that rounds to +Inf: 2^1024 - 2^970 (max float64 + half an ulp, ties to even go up) *)
Definition FLT_OVF : Z := 2 ^ 1024 - 2 ^ 970.

Definition flt_parse_float_ok (s : bytes) : bool :=
  match s with
  | [] => false
  | c :: r =>
      let body := if (c =? flt_PLUS) || (c =? MINUS) then r else s in
      let '(rest, sawdigits, mant, fd) := flt_scan body false false 0 0 in
      sawdigits                                   (* readFloat ok *)
      && match rest with [] => true | _ => false end   (* n == len(s) *)
      && (mant <? FLT_OVF * 10 ^ fd)              (* no ErrRange *)
  end.

Definition flt_is_decimal (b : Z) : bool := (48 <=? b) && (b <=? 57).

Definition flt_whitelist (d : bytes) : bool :=
  forallb (fun b => (b =? flt_DOT) || (b =? MINUS) || flt_is_decimal b) d.

(* FIXFloat.Read returns nil *)
Definition float_read_ok (d : bytes) : bool := flt_parse_float_ok d && flt_whitelist d.

(* FIXFloat.Write = strconv.FormatFloat(v, 'f', -1, 64) for a finite v whose shortest decimal digits are
   0.d1 d2 ... dn * 10^dp (digs = d1..dn as bytes, no leading/trailing zero digit unless v = 0 : digs = [], dp = 0).
   ftoa.go fmtF with prec = max(nd - dp, 0). *)
Definition flt_digit_at (digs : bytes) (i : Z) : Z :=
  if i <? 0 then CH0 else nth (Z.to_nat i) digs CH0.

Fixpoint flt_digits_from (digs : bytes) (start : Z) (n : nat) : bytes :=
  match n with
  | O => []
  | S k => flt_digit_at digs start :: flt_digits_from digs (start + 1) k
  end.

Definition float_write_digits (neg : bool) (digs : bytes) (dp : Z) : bytes :=
  let nd := Z.of_nat (length digs) in
  let prec := Z.max (nd - dp) 0 in
  let ip := if 0 <? dp then flt_digits_from digs 0 (Z.to_nat dp) else [CH0] in
  let fp := if 0 <? prec then flt_DOT :: flt_digits_from digs dp (Z.to_nat prec) else [] in
  (if neg then [MINUS] else []) ++ ip ++ fp.
