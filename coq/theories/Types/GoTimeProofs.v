(* Lemmas about the time fragment (Types/GoTime.v): the calendar functions are mutually inverse for every
   integer day / every valid civil date (400-year periodicity + an exhaustive kernel computation over one era),
   and the year range 0000..9999. *)
From Coq Require Import ZArith List Bool Lia ZifyBool.
From QF Require Import Base.Res Base.Bytes Types.GoTime.
Import ListNotations.
Open Scope Z_scope.

(* ---------- bounded universal quantification by computation ---------- *)
Fixpoint gtp_forall_range (n : nat) (lo : Z) (f : Z -> bool) : bool :=
  match n with
  | O => true
  | S k => f lo && gtp_forall_range k (lo + 1) f
  end.

Lemma gtp_forall_range_spec : forall n lo f, gtp_forall_range n lo f = true ->
  forall z, lo <= z < lo + Z.of_nat n -> f z = true.
Proof.
  induction n as [|k IH]; intros lo f H z Hz.
  - cbn in Hz. lia.
  - cbn [gtp_forall_range] in H. apply andb_true_iff in H as [H0 H1].
    destruct (Z.eq_dec z lo) as [->|Hne]; [exact H0|].
    apply (IH (lo + 1) f H1). lia.
Qed.

(* ---------- leap years and month lengths are 400-periodic ---------- *)
Lemma gt_is_leap_shift (y k : Z) : gt_is_leap (y + 400 * k) = gt_is_leap y.
Proof.
  unfold gt_is_leap.
  replace (y + 400 * k) with (y + (100 * k) * 4) at 1 by lia.
  replace (y + 400 * k) with (y + (4 * k) * 100) at 1 by lia.
  replace (y + 400 * k) with (y + k * 400) by lia.
  rewrite !Z.mod_add by lia. reflexivity.
Qed.

Lemma gt_days_in_shift (m y k : Z) : gt_days_in m (y + 400 * k) = gt_days_in m y.
Proof. unfold gt_days_in. rewrite gt_is_leap_shift. reflexivity. Qed.

(* ---------- one era, exhaustively ---------- *)
(* day-of-era -> civil -> day-of-era, with validity of the date and the position of year 400 *)
Definition gtp_check_doe (doe : Z) : bool :=
  let '(y0, m, d) := gt_civil_of_doe doe in
  let yoe := if m <=? 2 then y0 - 1 else y0 in
  (1 <=? m) && (m <=? 12) && (1 <=? d) && (d <=? gt_days_in m y0)
  && (0 <=? yoe) && (yoe <? 400) && (gt_doe_of_civil yoe m d =? doe)
  && (if doe <? 146037 then y0 <=? 399 else y0 =? 400).

(* evaluated by the kernel's VM on all 146097 days of an era; the statement keeps the range symbolic
   (Z.to_nat of a Z numeral) so that nothing but vm_compute ever unfolds it *)
Definition gtp_doe_cell (doe : Z) : bool := gtp_check_doe doe.
Lemma gtp_all_doe_true : gtp_forall_range (Z.to_nat 146097) 0 gtp_doe_cell = true.
Proof. vm_cast_no_check (@eq_refl bool true). Qed.   (* checked once, at Qed, by the kernel's VM *)

Lemma gtp_check_doe_all : forall doe, 0 <= doe < 146097 -> gtp_check_doe doe = true.
Proof.
  intros doe H.
  apply (gtp_forall_range_spec (Z.to_nat 146097) 0 gtp_doe_cell gtp_all_doe_true doe).
  rewrite Z2Nat.id by lia. lia.
Qed.

(* civil -> day-of-era -> civil *)
Definition gtp_check_civil (yoe m d : Z) : bool :=
  let y0 := if m <=? 2 then yoe + 1 else yoe in
  (gt_days_in m y0 <? d) ||
  (let doe := gt_doe_of_civil yoe m d in
   (0 <=? doe) && (doe <? 146097)
   && (let '(y1, m1, d1) := gt_civil_of_doe doe in (y1 =? y0) && (m1 =? m) && (d1 =? d))).

(* index k = yoe * 372 + (m - 1) * 31 + (d - 1) over 400 * 12 * 31 = 148800 combinations *)
Definition gtp_civil_cell (k : Z) : bool :=
  gtp_check_civil (k / 372) ((k mod 372) / 31 + 1) (k mod 31 + 1).
Lemma gtp_all_civil_true : gtp_forall_range (Z.to_nat 148800) 0 gtp_civil_cell = true.
Proof. vm_cast_no_check (@eq_refl bool true). Qed.

Lemma gt_days_in_le_31 (m y : Z) : gt_days_in m y <= 31.
Proof.
  unfold gt_days_in. destruct (m =? 2); [destruct (gt_is_leap y); lia|].
  destruct ((m =? 4) || (m =? 6) || (m =? 9) || (m =? 11)); lia.
Qed.

Lemma gtp_check_civil_all : forall yoe m d, 0 <= yoe < 400 -> 1 <= m <= 12 -> 1 <= d <= 31 ->
  gtp_check_civil yoe m d = true.
Proof.
  intros yoe m d Hy Hm Hd.
  set (k := yoe * 372 + (m - 1) * 31 + (d - 1)).
  assert (Hk : gtp_civil_cell k = true).
  { apply (gtp_forall_range_spec (Z.to_nat 148800) 0 gtp_civil_cell gtp_all_civil_true k).
    rewrite Z2Nat.id by lia. subst k. lia. }
  unfold gtp_civil_cell in Hk.
  assert (E1 : k / 372 = yoe).
  { symmetry. apply (Z.div_unique k 372 yoe ((m - 1) * 31 + (d - 1))); subst k; lia. }
  assert (E2 : k mod 372 = (m - 1) * 31 + (d - 1)).
  { symmetry. apply (Z.mod_unique k 372 yoe ((m - 1) * 31 + (d - 1))); subst k; lia. }
  assert (E3 : (k mod 372) / 31 = m - 1).
  { rewrite E2. symmetry. apply (Z.div_unique _ 31 (m - 1) (d - 1)); lia. }
  assert (E4 : k mod 31 = d - 1).
  { symmetry. apply (Z.mod_unique k 31 (yoe * 12 + (m - 1)) (d - 1)); subst k; lia. }
  rewrite E1, E3, E4 in Hk.
  replace (m - 1 + 1) with m in Hk by lia. replace (d - 1 + 1) with d in Hk by lia. exact Hk.
Qed.

(* ---------- inverse laws for every integer ---------- *)
Definition gt_valid_date (y m d : Z) : Prop := 1 <= m <= 12 /\ 1 <= d <= gt_days_in m y.

Lemma gt_civil_from_days_spec : forall z,
  let '(y, m, d) := gt_civil_from_days z in
  gt_valid_date y m d /\ gt_days_from_civil y m d = z.
Proof.
  intros z. unfold gt_civil_from_days.
  set (z' := z + 719468). set (era := z' / 146097). set (doe := z' - era * 146097).
  assert (Hdoe : 0 <= doe < 146097).
  { subst doe era. pose proof (Z.div_mod z' 146097 ltac:(lia)).
    pose proof (Z.mod_pos_bound z' 146097 ltac:(lia)). lia. }
  pose proof (gtp_check_doe_all doe Hdoe) as Hc. unfold gtp_check_doe in Hc.
  destruct (gt_civil_of_doe doe) as [[y0 m] d].
  repeat (apply andb_true_iff in Hc as [Hc ?]).
  split.
  - unfold gt_valid_date. replace (y0 + era * 400) with (y0 + 400 * era) by lia.
    rewrite gt_days_in_shift. lia.
  - unfold gt_days_from_civil.
    set (yoe := if m <=? 2 then y0 - 1 else y0) in *.
    replace (if m <=? 2 then y0 + era * 400 - 1 else y0 + era * 400) with (yoe + era * 400)
      by (subst yoe; destruct (m <=? 2); lia).
    rewrite Z.div_add by lia. rewrite (Z.div_small yoe 400) by lia.
    replace (yoe + era * 400 - (0 + era) * 400) with yoe by lia.
    subst doe z'. lia.
Qed.

Lemma gt_days_from_civil_inv : forall z, 
  gt_days_from_civil (fst (fst (gt_civil_from_days z))) (snd (fst (gt_civil_from_days z))) (snd (gt_civil_from_days z)) = z.
Proof.
  intros z. pose proof (gt_civil_from_days_spec z) as H.
  destruct (gt_civil_from_days z) as [[y m] d]. cbn [fst snd]. apply H.
Qed.

Lemma gt_civil_from_days_inv : forall y m d, gt_valid_date y m d ->
  gt_civil_from_days (gt_days_from_civil y m d) = (y, m, d).
Proof.
  intros y m d [Hm Hd]. unfold gt_days_from_civil.
  set (y' := if m <=? 2 then y - 1 else y). set (era := y' / 400). set (yoe := y' - era * 400).
  assert (Hyoe : 0 <= yoe < 400).
  { subst yoe era. pose proof (Z.div_mod y' 400 ltac:(lia)).
    pose proof (Z.mod_pos_bound y' 400 ltac:(lia)). lia. }
  assert (Hy : y = (if m <=? 2 then yoe + 1 else yoe) + 400 * era).
  { subst yoe y'. destruct (m <=? 2); lia. }
  pose proof (gt_days_in_le_31 m y) as H31.
  pose proof (gtp_check_civil_all yoe m d Hyoe Hm ltac:(lia)) as Hc. unfold gtp_check_civil in Hc.
  rewrite Hy in Hd. rewrite gt_days_in_shift in Hd.
  apply orb_true_iff in Hc as [Hc|Hc]; [lia|].
  apply andb_true_iff in Hc as [Hc Hc3]. apply andb_true_iff in Hc as [Hc1 Hc2].
  unfold gt_civil_from_days.
  set (doe := gt_doe_of_civil yoe m d) in *.
  replace (era * 146097 + doe - 719468 + 719468) with (doe + era * 146097) by lia.
  rewrite Z.div_add by lia. rewrite (Z.div_small doe 146097) by lia.
  replace (doe + era * 146097 - (0 + era) * 146097) with doe by lia.
  destruct (gt_civil_of_doe doe) as [[y1 m1] d1].
  apply andb_true_iff in Hc3 as [Hc3 Hc5]. apply andb_true_iff in Hc3 as [Hc3 Hc4].
  f_equal; [f_equal|]; lia.
Qed.

(* ---------- the years 0000..9999 ---------- *)
Definition GT_MIN_DAY : Z := -719528.    (* 0000-01-01 *)
Definition GT_MAX_DAY : Z := 2932897.    (* 10000-01-01 *)

Lemma gt_civil_from_days_year_range : forall z, GT_MIN_DAY <= z < GT_MAX_DAY ->
  0 <= fst (fst (gt_civil_from_days z)) <= 9999.
Proof.
  intros z Hz. unfold GT_MIN_DAY, GT_MAX_DAY in Hz. unfold gt_civil_from_days.
  set (z' := z + 719468). set (era := z' / 146097). set (doe := z' - era * 146097).
  assert (Hdoe : 0 <= doe < 146097).
  { subst doe era. pose proof (Z.div_mod z' 146097 ltac:(lia)).
    pose proof (Z.mod_pos_bound z' 146097 ltac:(lia)). lia. }
  pose proof (gtp_check_doe_all doe Hdoe) as Hc. unfold gtp_check_doe in Hc.
  destruct (gt_civil_of_doe doe) as [[y0 m] d]. cbn [fst].
  repeat (apply andb_true_iff in Hc as [Hc ?]).
  assert (Hera : -1 <= era <= 24).
  { subst era z'. split.
    - apply Z.div_le_lower_bound; lia.
    - apply Z.lt_succ_r. apply Z.div_lt_upper_bound; lia. }
  assert (Hy0 : 0 <= y0 <= 400) by (destruct (m <=? 2); lia).
  destruct (doe <? 146037) eqn:Hd.
  - (* era = -1 would need doe >= 146037 *)
    assert (era <> -1) by (subst doe z'; lia). lia.
  - assert (era <> 24) by (subst doe z'; lia). lia.
Qed.

Lemma gt_days_from_civil_example : gt_days_from_civil 0 1 1 = GT_MIN_DAY /\ gt_days_from_civil 10000 1 1 = GT_MAX_DAY
  /\ gt_days_from_civil 1970 1 1 = 0.
Proof. vm_compute. repeat split. Qed.
