(* The fragment of Go's package time (go1.23 src/time/format.go, time.go) that fix_utc_timestamp.go uses:
   time.Parse and Time.UTC().Format for the four layouts
       "20060102-15:04:05"  "20060102-15:04:05.000"  "20060102-15:04:05.000000"  "20060102-15:04:05.000000000".
   A layout is given as the list of chunks that nextStdChunk produces for it (prefix literal, std code).
   This library fragment is MODELLED, NOT VERIFIED (trusted base of C14); the correspondence stream `types`
   exercises it first.  Time values are (unix seconds, nanoseconds), both Z; all parsed times are UTC.
   Executable definitions only; lemmas in GoTimeProofs.v. *)
From Coq Require Import ZArith List Bool.
From QF Require Import Base.Res Base.Bytes.
Import ListNotations.
Open Scope Z_scope.

Definition gt_DOT : Z := 46.     (* '.' *)
Definition gt_COMMA : Z := 44.   (* ',' *)
Definition gt_PLUS : Z := 43.    (* '+' *)
Definition gt_COLON : Z := 58.   (* ':' *)

(* ---- calendar (time.go: isLeap, daysIn, Date, absDate) ---- *)

Definition gt_is_leap (y : Z) : bool :=
  (y mod 4 =? 0) && (negb (y mod 100 =? 0) || (y mod 400 =? 0)).

Definition gt_days_in (m y : Z) : Z :=
  if m =? 2 then (if gt_is_leap y then 29 else 28)
  else if (m =? 4) || (m =? 6) || (m =? 9) || (m =? 11) then 30 else 31.

(* day number within a 400-year era (era starts on 1 March of a year divisible by 400):
   yoe = year of era counted from March (0..399), m, d the civil month and day *)
Definition gt_doe_of_civil (yoe m d : Z) : Z :=
  let mp := if m <=? 2 then m + 9 else m - 3 in
  let doy := (153 * mp + 2) / 5 + d - 1 in
  yoe * 365 + yoe / 4 - yoe / 100 + doy.

(* inverse: (civil year - 400 * era, month, day) of day-of-era doe (0..146096) *)
Definition gt_civil_of_doe (doe : Z) : Z * Z * Z :=
  let yoe := (doe - doe / 1460 + doe / 36524 - doe / 146096) / 365 in
  let doy := doe - (365 * yoe + yoe / 4 - yoe / 100) in
  let mp := (5 * doy + 2) / 153 in
  let d := doy - (153 * mp + 2) / 5 + 1 in
  let m := if mp <? 10 then mp + 3 else mp - 9 in
  ((if m <=? 2 then yoe + 1 else yoe), m, d).

(* days since 1970-01-01 of the proleptic Gregorian date y-m-d (floor division: every Z) *)
Definition gt_days_from_civil (y m d : Z) : Z :=
  let y' := if m <=? 2 then y - 1 else y in
  let era := y' / 400 in
  era * 146097 + gt_doe_of_civil (y' - era * 400) m d - 719468.

Definition gt_civil_from_days (z : Z) : Z * Z * Z :=
  let z' := z + 719468 in
  let era := z' / 146097 in
  let '(y0, m, d) := gt_civil_of_doe (z' - era * 146097) in
  (y0 + era * 400, m, d).

(* Date(year, month, day, hour, min, sec, nsec, UTC).Unix() for already normalised fields *)
Definition gt_unix_of_civil (y m d hh mi ss : Z) : Z :=
  gt_days_from_civil y m d * 86400 + hh * 3600 + mi * 60 + ss.

(* ---- parsing helpers ---- *)

Definition gt_is_digit_at (s : bytes) (i : nat) : bool :=
  match nth_error s i with Some c => is_digit c | None => false end.

(* getnum(s, fixed): s[0:1] or s[0:2] as a decimal integer; None = errBad *)
Definition gt_getnum (s : bytes) (fixed : bool) : option (Z * bytes) :=
  match s with
  | c0 :: r0 =>
      if negb (is_digit c0) then None else
      match r0 with
      | c1 :: r1 =>
          if is_digit c1 then Some ((c0 - 48) * 10 + (c1 - 48), r1)
          else if fixed then None else Some (c0 - 48, r0)
      | [] => if fixed then None else Some (c0 - 48, r0)
      end
  | [] => None
  end.

(* skip(value, prefix) for a prefix without spaces *)
Fixpoint gt_skip (value prefix : bytes) {struct prefix} : option bytes :=
  match prefix with
  | [] => Some value
  | p :: prefix' =>
      match value with
      | v :: value' => if v =? p then gt_skip value' prefix' else None
      | [] => None
      end
  end.

(* leadingInt: consumes [0-9]*; None = errLeadingInt (overflow of 1<<63) *)
Fixpoint gt_leading_int (s : bytes) (x : Z) : option (Z * bytes) :=
  match s with
  | c :: r =>
      if is_digit c then
        if x >? two63 / 10 then None else
        let x' := x * 10 + (c - 48) in
        if x' >? two63 then None else gt_leading_int r x'
      else Some (x, s)
  | [] => Some (x, s)
  end.

(* time.atoi: optional sign, then digits only; None = errAtoi *)
Definition gt_atoi (s : bytes) : option Z :=
  let '(neg, s') := match s with
                    | c :: r => if (c =? MINUS) || (c =? gt_PLUS) then (c =? MINUS, r) else (false, s)
                    | [] => (false, s)
                    end in
  match gt_leading_int s' 0 with
  | Some (q, []) => Some (if neg then - q else q)
  | _ => None
  end.

(* number of leading decimal digits *)
Fixpoint gt_count_digits (s : bytes) : nat :=
  match s with
  | c :: r => if is_digit c then S (gt_count_digits r) else O
  | [] => O
  end.

Definition gt_comma_or_period (b : Z) : bool := (b =? gt_DOT) || (b =? gt_COMMA).

Inductive gt_perr := GtBad | GtRange.     (* errBad / rangeErrString <> "" *)

(* parseNanoseconds(value, nbytes): result, or error kind, or Panic for the slice expressions *)
Definition gt_parse_nanoseconds (value : bytes) (nbytes : nat) : res (Z + gt_perr) :=
  match value with
  | [] => Panic                                                  (* value[0] *)
  | v0 :: _ =>
      if negb (gt_comma_or_period v0) then Ok (inr GtBad) else
      if Nat.ltb (length value) (Nat.min nbytes 10) then Panic   (* value[:10], value[1:nbytes] *)
      else
        let nb := Nat.min nbytes 10 in
        match gt_atoi (skipn 1 (firstn nb value)) with
        | None => Ok (inr GtBad)
        | Some ns =>
            if ns <? 0 then Ok (inr GtRange)
            else Ok (inl (ns * 10 ^ (Z.of_nat (10 - nb))))
        end
  end.

(* ---- layouts as chunk lists ---- *)

Inductive gt_std :=
| GtLongYear        (* 2006 *)
| GtZeroMonth       (* 01 *)
| GtZeroDay         (* 02 *)
| GtHour            (* 15 *)
| GtZeroMinute      (* 04 *)
| GtZeroSecond      (* 05 *)
| GtFracSecond0 (n : nat).   (* .000 with n zeros, separator '.' *)

Definition gt_layout := list (bytes * gt_std).

Definition gt_layout_seconds : gt_layout :=
  [([], GtLongYear); ([], GtZeroMonth); ([], GtZeroDay); ([MINUS], GtHour);
   ([gt_COLON], GtZeroMinute); ([gt_COLON], GtZeroSecond)].
Definition gt_layout_frac (n : nat) : gt_layout := gt_layout_seconds ++ [([], GtFracSecond0 n)].

Record gt_fields := mk_gt_fields
  { gt_year : Z; gt_month : Z; gt_day : Z; gt_hour : Z; gt_min : Z; gt_sec : Z; gt_nsec : Z }.

Definition gt_fields0 : gt_fields := mk_gt_fields 0 (-1) (-1) 0 0 0 0.

Definition E_TIME_PARSE : Z := 1.

(* one iteration of the loop of time.parse for std <> 0: new value and fields, Err on a ParseError *)
Definition gt_parse_std (std : gt_std) (next_is_frac : bool) (value : bytes) (f : gt_fields)
  : res (bytes * gt_fields) :=
  let bad := Err E_TIME_PARSE in
  match std with
  | GtLongYear =>
      if Nat.ltb (length value) 4 || negb (gt_is_digit_at value 0) then bad else
      match gt_atoi (firstn 4 value) with
      | Some y => Ok (skipn 4 value, mk_gt_fields y (gt_month f) (gt_day f) (gt_hour f) (gt_min f) (gt_sec f) (gt_nsec f))
      | None => bad
      end
  | GtZeroMonth =>
      match gt_getnum value true with
      | Some (m, v) =>
          if (m <=? 0) || (12 <? m) then bad else
          Ok (v, mk_gt_fields (gt_year f) m (gt_day f) (gt_hour f) (gt_min f) (gt_sec f) (gt_nsec f))
      | None => bad
      end
  | GtZeroDay =>
      match gt_getnum value true with
      | Some (d, v) => Ok (v, mk_gt_fields (gt_year f) (gt_month f) d (gt_hour f) (gt_min f) (gt_sec f) (gt_nsec f))
      | None => bad
      end
  | GtHour =>
      match gt_getnum value false with      (* "15" is not a fixed-width field *)
      | Some (h, v) =>
          if (h <? 0) || (24 <=? h) then bad else
          Ok (v, mk_gt_fields (gt_year f) (gt_month f) (gt_day f) h (gt_min f) (gt_sec f) (gt_nsec f))
      | None => bad
      end
  | GtZeroMinute =>
      match gt_getnum value true with
      | Some (m, v) =>
          if (m <? 0) || (60 <=? m) then bad else
          Ok (v, mk_gt_fields (gt_year f) (gt_month f) (gt_day f) (gt_hour f) m (gt_sec f) (gt_nsec f))
      | None => bad
      end
  | GtZeroSecond =>
      match gt_getnum value true with
      | Some (s, v) =>
          if (s <? 0) || (60 <=? s) then bad else
          let f' := mk_gt_fields (gt_year f) (gt_month f) (gt_day f) (gt_hour f) (gt_min f) s (gt_nsec f) in
          (* a fractional second in the input although the layout has none *)
          if Nat.leb 2 (length v) && gt_comma_or_period (nth 0 v 0) && gt_is_digit_at v 1 && negb next_is_frac then
            let n := (2 + gt_count_digits (skipn 2 v))%nat in
            match gt_parse_nanoseconds v n with
            | Ok (inl ns) => Ok (skipn n v, mk_gt_fields (gt_year f) (gt_month f) (gt_day f) (gt_hour f) (gt_min f) s ns)
            | Ok (inr _) => bad
            | Err e => Err e | Panic => Panic | OutOfFuel => OutOfFuel
            end
          else Ok (v, f')
      | None => bad
      end
  | GtFracSecond0 n =>
      let ndigit := S n in
      if Nat.ltb (length value) ndigit then bad else
      match gt_parse_nanoseconds value ndigit with
      | Ok (inl ns) => Ok (skipn ndigit value, mk_gt_fields (gt_year f) (gt_month f) (gt_day f) (gt_hour f) (gt_min f) (gt_sec f) ns)
      | Ok (inr _) => bad
      | Err e => Err e | Panic => Panic | OutOfFuel => OutOfFuel
      end
  end.

Definition gt_is_frac (c : bytes * gt_std) : bool :=
  match snd c with GtFracSecond0 _ => true | _ => false end.

(* the loop of time.parse over the chunks of the layout; at the end (std == 0) no text may remain *)
Fixpoint gt_parse_loop (layout : gt_layout) (value : bytes) (f : gt_fields) : res gt_fields :=
  match layout with
  | [] => match value with [] => Ok f | _ => Err E_TIME_PARSE end       (* ": extra text" *)
  | (prefix, std) :: rest =>
      match gt_skip value prefix with
      | None => Err E_TIME_PARSE
      | Some v =>
          let next_is_frac := match rest with c :: _ => gt_is_frac c | [] => false end in
          let* (v', f') := gt_parse_std std next_is_frac v f in
          gt_parse_loop rest v' f'
      end
  end.

(* time.Parse(layout, value): (unix seconds, nanoseconds) of the UTC time *)
Definition gt_parse (layout : gt_layout) (value : bytes) : res (Z * Z) :=
  let* f := gt_parse_loop layout value gt_fields0 in
  let month := if gt_month f <? 0 then 1 else gt_month f in
  let day := if gt_day f <? 0 then 1 else gt_day f in
  if (day <? 1) || (gt_days_in month (gt_year f) <? day) then Err E_TIME_PARSE      (* ": day out of range" *)
  else Ok (gt_unix_of_civil (gt_year f) month day (gt_hour f) (gt_min f) (gt_sec f), gt_nsec f).

(* ---- formatting ---- *)

(* appendInt(b, x, width) *)
Definition gt_append_int (x : Z) (width : nat) : bytes :=
  if x <? 0 then MINUS :: pad_zeros width (itoa (- x)) else pad_zeros width (itoa x).

(* appendNano for stdFracSecond0 with n digits: '.' and the first n of the 9 nanosecond digits *)
Definition gt_append_nano (nanosec : Z) (n : nat) : bytes :=
  gt_DOT :: firstn n (gt_append_int nanosec 9).

Definition gt_format_std (std : gt_std) (y m d hh mi ss ns : Z) : bytes :=
  match std with
  | GtLongYear => gt_append_int y 4
  | GtZeroMonth => gt_append_int m 2
  | GtZeroDay => gt_append_int d 2
  | GtHour => gt_append_int hh 2
  | GtZeroMinute => gt_append_int mi 2
  | GtZeroSecond => gt_append_int ss 2
  | GtFracSecond0 n => gt_append_nano ns n
  end.

(* t.UTC().Format(layout) for t = (unix seconds, nanoseconds) *)
Definition gt_format (layout : gt_layout) (t : Z * Z) : bytes :=
  let '(sec, ns) := t in
  let days := sec / 86400 in
  let rem := sec mod 86400 in
  let '(y, m, d) := gt_civil_from_days days in
  let hh := rem / 3600 in
  let mi := (rem mod 3600) / 60 in
  let ss := rem mod 60 in
  flat_map (fun c => fst c ++ gt_format_std (snd c) y m d hh mi ss ns) layout.
