(* fix_boolean.go *)
From Coq Require Import ZArith List Bool.
From QF Require Import Base.Res Base.Bytes.
Import ListNotations.
Open Scope Z_scope.

Definition fix_bool_read (d : bytes) : res bool :=
  match d with
  | [89] => Ok true     (* "Y" *)
  | [78] => Ok false    (* "N" *)
  | _ => Err 1
  end.
Definition fix_bool_write (b : bool) : bytes := if b then [89] else [78].
