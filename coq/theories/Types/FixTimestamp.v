(* fix_utc_timestamp.go: FIXUTCTimestamp.Read / Write.  Precision: 0 Millis, 1 Seconds, 2 Micros, 3 Nanos
   (the iota order of the Go constants).  A time is (unix seconds, nanoseconds). *)
From Coq Require Import ZArith List Bool.
From QF Require Import Base.Res Base.Bytes Types.GoTime.
Import ListNotations.
Open Scope Z_scope.

Definition TS_MILLIS : Z := 0.
Definition TS_SECONDS : Z := 1.
Definition TS_MICROS : Z := 2.
Definition TS_NANOS : Z := 3.

Definition E_TS_VALUE : Z := 2.    (* errors.New("Invalid Value for Timestamp: ...") *)

Definition utc_timestamp_millis_format : gt_layout := gt_layout_frac 3.
Definition utc_timestamp_seconds_format : gt_layout := gt_layout_seconds.
Definition utc_timestamp_micros_format : gt_layout := gt_layout_frac 6.
Definition utc_timestamp_nanos_format : gt_layout := gt_layout_frac 9.

(* func (f *FIXUTCTimestamp) Read(bytes []byte) (err error): Ok ((sec, nsec), precision) *)
Definition timestamp_read (d : bytes) : res ((Z * Z) * Z) :=
  (* time.Parse also accepts a comma before the fractional seconds, FIX does not. *)
  if Nat.ltb 17 (length d) && negb (nth 17 d 0 =? gt_DOT) then Err E_TS_VALUE else
  (* time.Parse also accepts a sign in front of the fraction digits ("05.+12", "05.-00"), FIX does not. *)
  if Nat.ltb 18 (length d) && negb (is_digit (nth 18 d 0)) then Err E_TS_VALUE else
  let n := length d in
  if Nat.eqb n 17 then let* t := gt_parse utc_timestamp_seconds_format d in Ok (t, TS_SECONDS)
  else if Nat.eqb n 21 then let* t := gt_parse utc_timestamp_millis_format d in Ok (t, TS_MILLIS)
  else if Nat.eqb n 24 then let* t := gt_parse utc_timestamp_micros_format d in Ok (t, TS_MICROS)
  else if Nat.eqb n 27 then let* t := gt_parse utc_timestamp_nanos_format d in Ok (t, TS_NANOS)
  else Err E_TS_VALUE.

(* func (f FIXUTCTimestamp) Write() []byte : any precision outside the three named cases writes millis *)
Definition timestamp_write (t : Z * Z) (p : Z) : bytes :=
  if p =? TS_SECONDS then gt_format utc_timestamp_seconds_format t
  else if p =? TS_MICROS then gt_format utc_timestamp_micros_format t
  else if p =? TS_NANOS then gt_format utc_timestamp_nanos_format t
  else gt_format utc_timestamp_millis_format t.
