(* FIXFloat.Read accepts exactly the float grammar within the float64 range (acceptance only). *)
From Coq Require Import ZArith List Bool Lia ZifyBool.
From QF Require Import Base.Res Base.Bytes Codec.FixInt Codec.FixIntProofs Types.FixFloat Types.TypesSpec.
Import ListNotations.
Open Scope Z_scope.

Definition flt_is_nil (s : bytes) : bool := match s with [] => true | _ => false end.

Lemma flt_digit_not_dot (c : Z) : is_digit c = true -> (c =? flt_DOT) = false.
Proof. unfold is_digit, CH0, CH9, flt_DOT. lia. Qed.

(* after the point: only digits may follow *)
Lemma flt_scan_dot_digits : forall s sd mant fd, all_digits s = true ->
  flt_scan s true sd mant fd = ([], sd || negb (flt_is_nil s), dec_value s mant, fd + Z.of_nat (length s)).
Proof.
  induction s as [|c r IH]; intros sd mant fd H.
  - cbn. rewrite orb_false_r. repeat f_equal. lia.
  - cbn [all_digits forallb] in H. apply andb_true_iff in H as [Hc Hr].
    cbn [flt_scan]. rewrite (flt_digit_not_dot c Hc), Hc. rewrite (IH _ _ _ Hr).
    cbn [flt_is_nil negb dec_value length orb]. rewrite orb_true_r.
    f_equal. rewrite Nat2Z.inj_succ. lia.
Qed.

Lemma flt_scan_dot_nondigits : forall s sd mant fd, all_digits s = false ->
  fst (fst (fst (flt_scan s true sd mant fd))) <> [].
Proof.
  induction s as [|c r IH]; intros sd mant fd H; [discriminate|].
  cbn [all_digits forallb] in H. cbn [flt_scan].
  destruct (c =? flt_DOT) eqn:Ed; [cbn; discriminate|].
  destruct (is_digit c) eqn:Hc; [|cbn; discriminate].
  cbn [andb] in H. apply IH. exact H.
Qed.

(* before the point *)
Lemma flt_scan_nodot_digits : forall s sd mant fd, all_digits s = true ->
  flt_scan s false sd mant fd = ([], sd || negb (flt_is_nil s), dec_value s mant, fd).
Proof.
  induction s as [|c r IH]; intros sd mant fd H.
  - cbn. rewrite orb_false_r. reflexivity.
  - cbn [all_digits forallb] in H. apply andb_true_iff in H as [Hc Hr].
    cbn [flt_scan]. rewrite (flt_digit_not_dot c Hc), Hc. rewrite (IH _ _ _ Hr).
    cbn [flt_is_nil negb dec_value orb]. rewrite orb_true_r. reflexivity.
Qed.

Lemma flt_scan_nodot_nondigits : forall s sd mant fd, index_byte flt_DOT s = None -> all_digits s = false ->
  fst (fst (fst (flt_scan s false sd mant fd))) <> [].
Proof.
  induction s as [|c r IH]; intros sd mant fd Hi H; [discriminate|].
  cbn [all_digits forallb] in H. cbn [index_byte] in Hi. cbn [flt_scan].
  destruct (c =? flt_DOT) eqn:Ed; [discriminate|].
  destruct (is_digit c) eqn:Hc; [|cbn; discriminate].
  cbn [andb] in H. apply IH; [|exact H].
  destruct (index_byte flt_DOT r); [discriminate | reflexivity].
Qed.

Lemma flt_scan_to_dot : forall s i sd mant fd, index_byte flt_DOT s = Some i ->
  all_digits (firstn i s) = true ->
  flt_scan s false sd mant fd =
  flt_scan (skipn (S i) s) true (sd || negb (flt_is_nil (firstn i s))) (dec_value (firstn i s) mant) fd.
Proof.
  induction s as [|c r IH]; intros i sd mant fd Hi H; [discriminate|].
  cbn [index_byte] in Hi. cbn [flt_scan].
  destruct (c =? flt_DOT) eqn:Ed.
  - injection Hi as <-. cbn [firstn skipn flt_is_nil negb dec_value]. rewrite orb_false_r. reflexivity.
  - destruct (index_byte flt_DOT r) as [j|] eqn:Ej; [|discriminate]. injection Hi as <-.
    cbn [firstn all_digits forallb] in H. apply andb_true_iff in H as [Hc Hr].
    rewrite Hc. rewrite (IH j _ _ _ eq_refl Hr).
    cbn [firstn skipn flt_is_nil negb dec_value orb]. rewrite orb_true_r. reflexivity.
Qed.

Lemma flt_scan_to_dot_nondigits : forall s i sd mant fd, index_byte flt_DOT s = Some i ->
  all_digits (firstn i s) = false ->
  fst (fst (fst (flt_scan s false sd mant fd))) <> [].
Proof.
  induction s as [|c r IH]; intros i sd mant fd Hi H; [discriminate|].
  cbn [index_byte] in Hi. cbn [flt_scan].
  destruct (c =? flt_DOT) eqn:Ed.
  - injection Hi as <-. discriminate.
  - destruct (index_byte flt_DOT r) as [j|] eqn:Ej; [|discriminate]. injection Hi as <-.
    cbn [firstn all_digits forallb] in H.
    destruct (is_digit c) eqn:Hc; [|cbn; discriminate].
    cbn [andb] in H. apply (IH j); [reflexivity | exact H].
Qed.

(* the body (after the optional sign): what the scanner accepts is the grammar, and the range test agrees *)
Definition flt_body_ok (b : bytes) : bool :=
  let '(rest, sawdigits, mant, fd) := flt_scan b false false 0 0 in
  sawdigits && flt_is_nil rest && (mant <? FLT_OVF * 10 ^ fd).

Definition flt_body_spec (body : bytes) : bool :=
  match index_byte 46 body with
  | None => negb (Nat.eqb (length body) 0) && all_digits body && (dec_value body 0 <? (2 ^ 1024 - 2 ^ 970))
  | Some i =>
      let ip := firstn i body in
      let fp := skipn (S i) body in
      all_digits ip && all_digits fp && negb (Nat.eqb (length ip + length fp) 0)
      && (dec_value (ip ++ fp) 0 <? (2 ^ 1024 - 2 ^ 970) * 10 ^ Z.of_nat (length fp))
  end.

Lemma flt_is_nil_length (s : bytes) : flt_is_nil s = Nat.eqb (length s) 0.
Proof. destruct s; reflexivity. Qed.

Lemma flt_body_ok_spec : forall b, flt_body_ok b = flt_body_spec b.
Proof.
  intros b. unfold flt_body_ok, flt_body_spec. change 46 with flt_DOT.
  destruct (index_byte flt_DOT b) as [i|] eqn:Ei.
  - destruct (all_digits (firstn i b)) eqn:Hip.
    + rewrite (flt_scan_to_dot b i _ _ _ Ei Hip).
      destruct (all_digits (skipn (S i) b)) eqn:Hfp.
      * rewrite (flt_scan_dot_digits _ _ _ _ Hfp). cbn [flt_is_nil andb orb].
        rewrite andb_true_r. rewrite dec_value_app.
        rewrite !flt_is_nil_length. unfold FLT_OVF. rewrite Z.add_0_l.
        destruct (firstn i b) as [|x xs]; destruct (skipn (S i) b) as [|y ys]; reflexivity.
      * pose proof (flt_scan_dot_nondigits (skipn (S i) b) (false || negb (flt_is_nil (firstn i b)))
                      (dec_value (firstn i b) 0) 0 Hfp) as Hne.
        destruct (flt_scan (skipn (S i) b) true _ _ 0) as [[[rest sd] mant] fd]. cbn [fst] in Hne.
        destruct rest; [congruence|]. cbn [flt_is_nil]. rewrite andb_false_r. reflexivity.
    + pose proof (flt_scan_to_dot_nondigits b i false 0 0 Ei Hip) as Hne.
      destruct (flt_scan b false false 0 0) as [[[rest sd] mant] fd]. cbn [fst] in Hne.
      destruct rest; [congruence|]. cbn [flt_is_nil]. rewrite andb_false_r. reflexivity.
  - destruct (all_digits b) eqn:Hd.
    + rewrite (flt_scan_nodot_digits b _ _ _ Hd). cbn [flt_is_nil andb orb].
      rewrite !andb_true_r, flt_is_nil_length. unfold FLT_OVF.
      change (10 ^ 0) with 1. rewrite Z.mul_1_r. reflexivity.
    + pose proof (flt_scan_nodot_nondigits b false 0 0 Ei Hd) as Hne.
      destruct (flt_scan b false false 0 0) as [[[rest sd] mant] fd]. cbn [fst] in Hne.
      destruct rest; [congruence|]. cbn [flt_is_nil]. rewrite andb_false_r, andb_false_r. reflexivity.
Qed.

Lemma float_spec_body : forall s, float_spec s = flt_body_spec (flt_body s).
Proof.
  intros s. unfold float_spec, float_grammarb, float_in_rangeb, flt_body_spec.
  destruct (index_byte 46 (flt_body s)) as [i|]; cbv zeta.
  - reflexivity.
  - reflexivity.
Qed.

(* the whitelist is implied by the grammar *)
Lemma flt_whitelist_digits : forall s, all_digits s = true -> flt_whitelist s = true.
Proof.
  induction s as [|c r IH]; intros H; [reflexivity|].
  cbn [all_digits forallb] in H. apply andb_true_iff in H as [Hc Hr].
  cbn [flt_whitelist forallb]. unfold flt_whitelist in IH. rewrite (IH Hr), andb_true_r.
  unfold flt_is_decimal, is_digit, CH0, CH9 in *. lia.
Qed.

Lemma index_byte_split : forall c s i, index_byte c s = Some i -> s = firstn i s ++ c :: skipn (S i) s.
Proof.
  induction s as [|x r IH]; intros i H; [discriminate|]. cbn [index_byte] in H.
  destruct (x =? c) eqn:E.
  - injection H as <-. cbn. f_equal. lia.
  - destruct (index_byte c r) as [j|] eqn:Ej; [|discriminate]. injection H as <-.
    cbn [firstn skipn app]. f_equal. apply IH. reflexivity.
Qed.

Lemma flt_whitelist_app : forall a b, flt_whitelist (a ++ b) = flt_whitelist a && flt_whitelist b.
Proof. intros a b. unfold flt_whitelist. apply forallb_app. Qed.

Lemma flt_body_spec_whitelist : forall b, flt_body_spec b = true -> flt_whitelist b = true.
Proof.
  intros b H. unfold flt_body_spec in H.
  destruct (index_byte 46 b) as [i|] eqn:Ei.
  - cbv zeta in H.
    apply andb_true_iff in H as [H _]. apply andb_true_iff in H as [H _].
    apply andb_true_iff in H as [Hip Hfp].
    rewrite (index_byte_split 46 b i Ei). rewrite flt_whitelist_app.
    rewrite (flt_whitelist_digits _ Hip).
    cbn [flt_whitelist forallb]. change (46 =? flt_DOT) with true. cbn [orb andb].
    apply flt_whitelist_digits. exact Hfp.
  - apply andb_true_iff in H as [H _]. apply andb_true_iff in H as [_ H].
    apply flt_whitelist_digits. exact H.
Qed.

Lemma flt_body_spec_head_digit_or_dot : forall c r, flt_body_spec (c :: r) = true ->
  is_digit c = true \/ c = 46.
Proof.
  intros c r H. unfold flt_body_spec in H. cbn [index_byte] in H.
  destruct (c =? 46) eqn:E; [right; lia|].
  destruct (index_byte 46 r) as [j|]; cbn [option_map] in H.
  - cbv zeta in H. cbn [firstn all_digits forallb] in H.
    apply andb_true_iff in H as [H _]. apply andb_true_iff in H as [H _].
    apply andb_true_iff in H as [H _]. apply andb_true_iff in H as [H _]. left. exact H.
  - cbn [all_digits forallb] in H.
    apply andb_true_iff in H as [H _]. apply andb_true_iff in H as [_ H].
    apply andb_true_iff in H as [H _]. left. exact H.
Qed.

(* FIXFloat.Read returns nil  <=>  the text is of the float grammar and within the float64 range *)
Lemma float_read_ok_spec : forall s, float_read_ok s = float_spec s.
Proof.
  intros s. rewrite float_spec_body. unfold float_read_ok, flt_parse_float_ok.
  destruct s as [|c r]; [reflexivity|].
  cbn [flt_body].
  destruct (c =? MINUS) eqn:Em.
  - rewrite orb_true_r.
    change (let '(rest, sawdigits, mant, fd) := flt_scan r false false 0 0 in
            sawdigits && match rest with [] => true | _ :: _ => false end && (mant <? FLT_OVF * 10 ^ fd))
      with (flt_body_ok r).
    rewrite flt_body_ok_spec.
    destruct (flt_body_spec r) eqn:Hs; [|reflexivity].
    cbn [flt_whitelist forallb]. rewrite Em. rewrite orb_true_r. cbn [andb orb].
    apply flt_body_spec_whitelist. exact Hs.
  - destruct (c =? flt_PLUS) eqn:Ep.
    + (* '+' is read by ParseFloat and refused by the whitelist; the grammar has no '+' *)
      cbn [orb flt_whitelist forallb].
      replace ((c =? flt_DOT) || (c =? MINUS) || flt_is_decimal c) with false
        by (unfold flt_DOT, flt_PLUS, MINUS, flt_is_decimal in *; lia).
      cbn [andb]. rewrite andb_false_r.
      destruct (flt_body_spec (c :: r)) eqn:Hs; [|reflexivity].
      apply flt_body_spec_head_digit_or_dot in Hs.
      unfold is_digit, CH0, CH9, flt_PLUS in *. lia.
    + cbn [orb].
      change (let '(rest, sawdigits, mant, fd) := flt_scan (c :: r) false false 0 0 in
              sawdigits && match rest with [] => true | _ :: _ => false end && (mant <? FLT_OVF * 10 ^ fd))
        with (flt_body_ok (c :: r)).
      rewrite flt_body_ok_spec.
      destruct (flt_body_spec (c :: r)) eqn:Hs; [|reflexivity].
      cbn [andb]. apply flt_body_spec_whitelist. exact Hs.
Qed.

Lemma float_read_ok_iff : forall s,
  float_read_ok s = true <-> float_grammarb s = true /\ float_in_rangeb s = true.
Proof.
  intros s. rewrite float_read_ok_spec. unfold float_spec. apply andb_true_iff.
Qed.

(* shorter texts can never overflow: below 309 digits the range condition is implied *)
