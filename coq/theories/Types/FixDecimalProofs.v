(* FIXDecimal (model of shopspring/decimal in Types/FixDecimal.v): Round is rounding half away from zero,
   and what Write produces is read back as exactly that rounded value. *)
From Coq Require Import ZArith List Bool Lia ZifyBool.
From QF Require Import Base.Res Base.Bytes Codec.FixInt Codec.FixIntProofs Types.FixDecimal Types.TypesSpec.
Import ListNotations.
Open Scope Z_scope.

(* ---------------- 1. Decimal.Round = half away from zero ---------------- *)

Lemma dcm_pow10_pos (k : Z) : 0 <= k -> 0 < 10 ^ k.
Proof. intros H. apply Z.pow_pos_nonneg; lia. Qed.

(* the +-5, floor-divide, correct-for-negatives step on an integer r *)
Definition dcm_round_step (r : Z) : Z :=
  let v1 := if r <? 0 then r - 5 else r + 5 in
  let q := v1 / 10 in
  let m := v1 mod 10 in
  if (q <? 0) && negb (m =? 0) then q + 1 else q.

Ltac Zify.zify_post_hook ::= Z.div_mod_to_equations.

Lemma dcm_round_step_abs : forall r, dcm_round_step r = Z.sgn r * ((Z.abs r + 5) / 10).
Proof.
  intros r. unfold dcm_round_step. cbv zeta.
  destruct (Z.sgn_spec r) as [[Hr Hs] | [[Hr Hs] | [Hr Hs]]]; rewrite Hs.
  - rewrite Z.abs_eq by lia. replace (r <? 0) with false by lia.
    destruct (((r + 5) / 10 <? 0) && negb ((r + 5) mod 10 =? 0)) eqn:E; lia.
  - subst r. reflexivity.
  - rewrite Z.abs_neq by lia. replace (r <? 0) with true by lia.
    destruct (((r - 5) / 10 <? 0) && negb ((r - 5) mod 10 =? 0)) eqn:E; lia.
Qed.

Lemma dcm_round_step_10 : forall w, dcm_round_step (10 * w) = w.
Proof.
  intros w. unfold dcm_round_step. cbv zeta.
  destruct (10 * w <? 0) eqn:Ew.
  - destruct (((10 * w - 5) / 10 <? 0) && negb ((10 * w - 5) mod 10 =? 0)) eqn:E; lia.
  - destruct (((10 * w + 5) / 10 <? 0) && negb ((10 * w + 5) mod 10 =? 0)) eqn:E; lia.
Qed.

Lemma half_up_digit : forall c, 0 <= c -> (c + 5) / 10 = c / 10 + (if 5 <=? c mod 10 then 1 else 0).
Proof. intros c Hc. destruct (5 <=? c mod 10) eqn:E; lia. Qed.

Ltac Zify.zify_post_hook ::= idtac.

Lemma half_test : forall K r0 c0, 0 < K -> 0 <= r0 < K -> 0 <= c0 < 10 ->
  (K * 10 <=? 2 * (r0 + K * c0)) = (5 <=? c0).
Proof.
  intros K r0 c0 HK Hr Hc.
  assert (c0 = 0 \/ c0 = 1 \/ c0 = 2 \/ c0 = 3 \/ c0 = 4 \/ c0 = 5 \/ c0 = 6 \/ c0 = 7 \/ c0 = 8 \/ c0 = 9) as Hcases by lia.
  destruct Hcases as [-> | [-> | [-> | [-> | [-> | [-> | [-> | [-> | [-> | ->]]]]]]]]]; lia.
Qed.

(* truncate to one more digit, then round: the same as rounding the exact value *)
Lemma round_via_truncation : forall a K, 0 <= a -> 0 < K ->
  (a / K + 5) / 10 = a / (K * 10) + (if K * 10 <=? 2 * (a mod (K * 10)) then 1 else 0).
Proof.
  intros a K Ha HK.
  assert (Hc : 0 <= a / K) by (apply Z.div_pos; lia).
  rewrite (half_up_digit (a / K) Hc).
  rewrite Z.div_div by lia.
  rewrite Z.rem_mul_r by lia.
  pose proof (Z.mod_pos_bound a K HK) as Hr0.
  pose proof (Z.mod_pos_bound (a / K) 10 ltac:(lia)) as Hc0.
  rewrite (half_test K (a mod K) ((a / K) mod 10) HK Hr0 Hc0). reflexivity.
Qed.

Lemma sgn_times : forall v x, (v = 0 -> x = 0) -> Z.sgn v * x = (if v <? 0 then - x else x).
Proof.
  intros v x H0. destruct (Z.sgn_spec v) as [[Hv Hs] | [[Hv Hs] | [Hv Hs]]]; rewrite Hs.
  - replace (v <? 0) with false by lia. lia.
  - rewrite (H0 (eq_sym Hv)). subst v. reflexivity.
  - replace (v <? 0) with true by lia. lia.
Qed.

Lemma dcm_round_spec : forall v e places,
  dcm_round (v, e) places = (dec_round_half_away v e places, - places).
Proof.
  intros v e places. unfold dcm_round, dec_round_half_away. cbn [snd].
  destruct (e =? - places) eqn:E0.
  - replace (- places <=? e) with true by lia.
    replace (e + places) with 0 by lia. rewrite Z.mul_1_r. f_equal. lia.
  - unfold dcm_rescale.
    change (let '(v0, e0) := _ in _) with
      (let '(v0, e0) := (if e =? - places - 1 then (v, e)
                         else if e <? - places - 1 then (Z.quot v (10 ^ (- places - 1 - e)), - places - 1)
                         else (v * 10 ^ (e - (- places - 1)), - places - 1)) in
       (dcm_round_step v0, e0 + 1)).
    destruct (e =? - places - 1) eqn:E1.
    + (* exactly one digit to drop *)
      replace (- places <=? e) with false by lia.
      replace (- places - e) with 1 by lia. change (10 ^ 1) with 10.
      f_equal; [|lia]. rewrite dcm_round_step_abs.
      pose proof (round_via_truncation (Z.abs v) 1 ltac:(lia) ltac:(lia)) as R.
      rewrite Z.div_1_r in R. change (1 * 10) with 10 in R. rewrite R.
      rewrite sgn_times by (intros ->; reflexivity).
      destruct (10 <=? 2 * (Z.abs v mod 10)); rewrite ?Z.add_0_r; reflexivity.
    + destruct (e <? - places - 1) eqn:E2.
      * (* several digits to drop: Quo truncates first *)
        replace (- places <=? e) with false by lia.
        set (K := 10 ^ (- places - 1 - e)).
        assert (HK : 0 < K) by (apply dcm_pow10_pos; lia).
        replace (10 ^ (- places - e)) with (K * 10).
        2:{ subst K. replace (- places - e) with (Z.succ (- places - 1 - e)) by lia.
            rewrite Z.pow_succ_r by lia. lia. }
        f_equal; [|lia]. rewrite dcm_round_step_abs.
        assert (Hq : Z.abs (Z.quot v K) = Z.abs v / K).
        { rewrite <- Z.quot_abs by lia. rewrite (Z.abs_eq K) by lia.
          apply Z.quot_div_nonneg; lia. }
        rewrite Hq, (round_via_truncation (Z.abs v) K ltac:(lia) HK).
        assert (Hs : Z.sgn (Z.quot v K) = Z.sgn v \/ Z.abs v / K = 0).
        { destruct (Z.eq_dec (Z.abs v / K) 0) as [Hz|Hnz]; [right; exact Hz|]. left.
          rewrite <- Hq in Hnz.
          pose proof (Z.quot_div v K ltac:(lia)) as Hqd. rewrite (Z.sgn_pos K HK), Z.mul_1_r, (Z.abs_eq K) in Hqd by lia.
          assert (0 <= Z.abs v / K) by (apply Z.div_pos; lia).
          destruct (Z.sgn_spec v) as [[? Hsg] | [[? Hsg] | [? Hsg]]]; rewrite Hsg in *; lia. }
        assert (Hzero : v = 0 -> Z.abs v / (K * 10) + (if K * 10 <=? 2 * (Z.abs v mod (K * 10)) then 1 else 0) = 0).
        { intros ->. cbn [Z.abs]. rewrite Z.div_0_l, Z.mod_0_l by lia.
          replace (K * 10 <=? 2 * 0) with false by lia. reflexivity. }
        destruct Hs as [Hs | Hz].
        -- rewrite Hs. rewrite (sgn_times v _ Hzero).
           destruct (K * 10 <=? 2 * (Z.abs v mod (K * 10))); rewrite ?Z.add_0_r; reflexivity.
        -- (* truncated to zero: the rounded value is zero as well *)
           pose proof (round_via_truncation (Z.abs v) K ltac:(lia) HK) as R. rewrite Hz in R.
           change ((0 + 5) / 10) with 0 in R. rewrite <- R. rewrite Z.mul_0_r.
           destruct (K * 10 <=? 2 * (Z.abs v mod (K * 10))) eqn:Eup.
           ++ assert (Z.abs v / (K * 10) + 1 = 0) by lia.
              replace (Z.abs v / (K * 10) + 1) with 0 by lia. destruct (v <? 0); reflexivity.
           ++ replace (Z.abs v / (K * 10)) with 0 by lia. destruct (v <? 0); reflexivity.
      * (* nothing to drop: exponent raised *)
        replace (- places <=? e) with true by lia.
        replace (e - (- places - 1)) with (Z.succ (e + places)) by lia.
        rewrite Z.pow_succ_r by lia.
        replace (v * (10 * 10 ^ (e + places))) with (10 * (v * 10 ^ (e + places))) by ring.
        rewrite dcm_round_step_10. f_equal. lia.
Qed.

(* ---------------- 2. what StringFixed writes, NewFromString reads back ---------------- *)

Lemma dcm_digits_value_eq : forall d n, dcm_digits_value d n = dec_value d n.
Proof. induction d as [|c r IH]; intros n; [reflexivity|]. cbn [dcm_digits_value dec_value]. apply IH. Qed.

Lemma digit_facts : forall c, is_digit c = true ->
  (c =? MINUS) = false /\ (c =? dcm_PLUS) = false /\ (c =? dcm_DOT) = false /\ (c =? 69) || (c =? 101) = false.
Proof. intros c H. unfold is_digit, CH0, CH9, MINUS, dcm_PLUS, dcm_DOT in *. lia. Qed.

(* ParseInt / SetString on a text of the int grammar *)
Lemma dcm_parse_int_grammar : forall s, int_grammar s = true -> dcm_parse_int s = Some (int_value s).
Proof.
  intros [|c r] Hg; [discriminate|].
  destruct (int_grammar_cases c r Hg) as [(Hc & Hne & Hd) | (Hc & Hd)].
  - subst c. unfold dcm_parse_int. rewrite Z.eqb_refl. cbn [int_value]. rewrite Z.eqb_refl.
    destruct r as [|c2 r2]; [congruence|]. unfold all_digits in Hd. rewrite Hd.
    rewrite dcm_digits_value_eq. reflexivity.
  - assert (Hcd : is_digit c = true) by (cbn in Hd; apply andb_true_iff in Hd; tauto).
    destruct (digit_facts c Hcd) as (Em & Ep & _ & _).
    unfold dcm_parse_int. rewrite Em, Ep. cbn [int_value]. rewrite Em.
    unfold all_digits in Hd. rewrite Hd. rewrite dcm_digits_value_eq. reflexivity.
Qed.

Definition dcm_plain (c : Z) : bool := is_digit c || (c =? MINUS).

Lemma dcm_index_e_plain : forall s, forallb (fun c => dcm_plain c || (c =? dcm_DOT)) s = true -> dcm_index_e s = None.
Proof.
  induction s as [|c r IH]; intros H; [reflexivity|]. cbn [forallb] in H. apply andb_true_iff in H as [Hc Hr].
  cbn [dcm_index_e]. replace ((c =? 69) || (c =? 101)) with false.
  - rewrite (IH Hr). reflexivity.
  - unfold dcm_plain, is_digit, CH0, CH9, MINUS, dcm_DOT in Hc. lia.
Qed.

Lemma no_dot_plain : forall s, forallb dcm_plain s = true ->
  count_byte dcm_DOT s = 0%nat /\ index_byte dcm_DOT s = None.
Proof.
  induction s as [|c r IH]; intros H; [split; reflexivity|]. cbn [forallb] in H. apply andb_true_iff in H as [Hc Hr].
  destruct (IH Hr) as [I1 I2]. cbn [count_byte index_byte].
  replace (c =? dcm_DOT) with false by (unfold dcm_plain, is_digit, CH0, CH9, MINUS, dcm_DOT in *; lia).
  rewrite I1, I2. split; reflexivity.
Qed.

Lemma plain_digits : forall s, all_digits s = true -> forallb dcm_plain s = true.
Proof.
  induction s as [|c r IH]; intros H; [reflexivity|]. cbn [all_digits forallb] in H. apply andb_true_iff in H as [Hc Hr].
  cbn [forallb]. unfold dcm_plain at 1. rewrite Hc. cbn [orb andb]. apply IH. exact Hr.
Qed.

Lemma plain_or_dot_weaken : forall s, forallb dcm_plain s = true ->
  forallb (fun c => dcm_plain c || (c =? dcm_DOT)) s = true.
Proof.
  induction s as [|c r IH]; intros H; [reflexivity|]. cbn [forallb] in *. apply andb_true_iff in H as [Hc Hr].
  rewrite Hc, (IH Hr). reflexivity.
Qed.

Lemma itoa_plain : forall z, forallb dcm_plain (itoa z) = true.
Proof.
  intros z. apply forallb_forall. intros c Hin. apply itoa_bytes in Hin as [-> | Hd].
  - unfold dcm_plain. rewrite Z.eqb_refl. apply orb_true_r.
  - unfold dcm_plain. rewrite Hd. reflexivity.
Qed.

(* an integer text: exponent 0 *)
Lemma decimal_read_itoa : forall z, decimal_read (itoa z) = Ok (z, 0).
Proof.
  intros z. unfold decimal_read.
  rewrite (dcm_index_e_plain _ (plain_or_dot_weaken _ (itoa_plain z))). cbn [bind].
  destruct (no_dot_plain _ (itoa_plain z)) as [C I]. rewrite C, I. cbn [Nat.ltb Nat.leb].
  rewrite (dcm_parse_int_grammar _ (itoa_int_grammar z)), int_value_itoa. reflexivity.
Qed.

Lemma count_index_dot_app : forall pre fp, forallb dcm_plain pre = true -> forallb dcm_plain fp = true ->
  count_byte dcm_DOT (pre ++ dcm_DOT :: fp) = 1%nat
  /\ index_byte dcm_DOT (pre ++ dcm_DOT :: fp) = Some (length pre).
Proof.
  induction pre as [|c r IH]; intros fp Hp Hf.
  - cbn [app count_byte index_byte length]. rewrite Z.eqb_refl.
    destruct (no_dot_plain fp Hf) as [C _]. rewrite C. split; reflexivity.
  - cbn [forallb] in Hp. apply andb_true_iff in Hp as [Hc Hr].
    destruct (IH fp Hr Hf) as [C I]. cbn [app count_byte index_byte length].
    replace (c =? dcm_DOT) with false by (unfold dcm_plain, is_digit, CH0, CH9, MINUS, dcm_DOT in *; lia).
    rewrite C, I. split; reflexivity.
Qed.

Lemma forallb_app_plain : forall a b, forallb dcm_plain (a ++ b) = forallb dcm_plain a && forallb dcm_plain b.
Proof. intros. apply forallb_app. Qed.

(* sign, integer digits, point, fraction digits *)
Lemma decimal_read_fixed : forall (neg : bool) ip fp,
  all_digits ip = true -> ip <> [] -> all_digits fp = true -> fp <> [] ->
  dcm_in_int32 (- Z.of_nat (length fp)) = true ->
  decimal_read ((if neg then [MINUS] else []) ++ ip ++ dcm_DOT :: fp) =
  Ok ((if neg then - dec_value (ip ++ fp) 0 else dec_value (ip ++ fp) 0), - Z.of_nat (length fp)).
Proof.
  intros neg ip fp Hip Hipne Hfp Hfpne H32.
  set (pre := (if neg then [MINUS] else []) ++ ip).
  assert (Hpre : forallb dcm_plain pre = true).
  { subst pre. rewrite forallb_app_plain, (plain_digits ip Hip). destruct neg; reflexivity. }
  replace ((if neg then [MINUS] else []) ++ ip ++ dcm_DOT :: fp) with (pre ++ dcm_DOT :: fp)
    by (subst pre; rewrite app_assoc; reflexivity).
  unfold decimal_read.
  assert (Hall : forallb (fun c => dcm_plain c || (c =? dcm_DOT)) (pre ++ dcm_DOT :: fp) = true).
  { rewrite forallb_app. rewrite (plain_or_dot_weaken _ Hpre). cbn [forallb andb].
    rewrite Z.eqb_refl, orb_true_r. cbn [andb]. apply plain_or_dot_weaken, plain_digits, Hfp. }
  rewrite (dcm_index_e_plain _ Hall). cbn [bind].
  destruct (count_index_dot_app pre fp Hpre (plain_digits fp Hfp)) as [C I]. rewrite C, I.
  cbn [Nat.ltb Nat.leb].
  rewrite firstn_app, firstn_all, Nat.sub_diag. cbn [firstn]. rewrite app_nil_r.
  replace (skipn (S (length pre)) (pre ++ dcm_DOT :: fp)) with fp.
  2:{ replace (pre ++ dcm_DOT :: fp) with ((pre ++ [dcm_DOT]) ++ fp) by (rewrite <- app_assoc; reflexivity).
      replace (S (length pre)) with (length (pre ++ [dcm_DOT])) by (rewrite app_length; cbn; lia).
      rewrite skipn_app, skipn_all, Nat.sub_diag. reflexivity. }
  rewrite Z.sub_0_l. rewrite H32.
  assert (Hg : int_grammar (pre ++ fp) = true /\ int_value (pre ++ fp) = (if neg then - dec_value (ip ++ fp) 0 else dec_value (ip ++ fp) 0)).
  { subst pre. assert (Hd : all_digits (ip ++ fp) = true) by (rewrite all_digits_app, Hip, Hfp; reflexivity).
    destruct ip as [|i0 ip']; [congruence|].
    destruct neg.
    - cbn [app int_grammar int_value]. rewrite Z.eqb_refl. cbn [app] in Hd. rewrite Hd. split; reflexivity.
    - cbn [app int_grammar int_value]. cbn [app] in Hd. rewrite (digits_head_not_minus _ _ Hd). split; [exact Hd | reflexivity]. }
  destruct Hg as [Hg Hv]. rewrite (dcm_parse_int_grammar _ Hg), Hv. reflexivity.
Qed.

(* Decimal.string(false) of a value at a negative exponent, as sign / integer part / fraction *)
Lemma dcm_string_neg_exp : forall q k, (1 <= k)%nat ->
  exists ip fp, dcm_string (q, - Z.of_nat k) = (if q <? 0 then [MINUS] else []) ++ ip ++ dcm_DOT :: fp
    /\ all_digits ip = true /\ ip <> [] /\ all_digits fp = true /\ length fp = k
    /\ dec_value (ip ++ fp) 0 = Z.abs q.
Proof.
  intros q k Hk. unfold dcm_string.
  replace (0 <=? - Z.of_nat k) with false by lia.
  replace (Z.to_nat (- - Z.of_nat k)) with k by lia.
  set (str := itoa (Z.abs q)).
  assert (Hstr : all_digits str = true) by (apply itoa_all_digits_nonneg; lia).
  assert (Hval : dec_value str 0 = Z.abs q).
  { pose proof (int_value_itoa (Z.abs q)) as Hv. fold str in Hv.
    pose proof (itoa_nonempty (Z.abs q)) as Hne. fold str in Hne.
    destruct str as [|c r]; [congruence|]. cbn [int_value] in Hv.
    rewrite (digits_head_not_minus c r Hstr) in Hv. exact Hv. }
  destruct (Nat.ltb k (length str)) eqn:El.
  - apply Nat.ltb_lt in El.
    exists (firstn (length str - k) str), (skipn (length str - k) str).
    assert (Hsplit : firstn (length str - k) str ++ skipn (length str - k) str = str) by apply firstn_skipn.
    assert (Hd2 : all_digits (firstn (length str - k) str) = true /\ all_digits (skipn (length str - k) str) = true).
    { rewrite <- Hsplit in Hstr. rewrite all_digits_app in Hstr. apply andb_true_iff in Hstr. exact Hstr. }
    assert (Hlf : length (skipn (length str - k) str) = k) by (rewrite skipn_length; lia).
    split.
    + destruct (skipn (length str - k) str) eqn:Es; [cbn [length] in Hlf; lia|].
      destruct (q <? 0); reflexivity.
    + split; [apply Hd2|]. split.
      * intros E. assert (Hl0 : length (firstn (length str - k) str) = 0%nat) by (rewrite E; reflexivity).
        rewrite firstn_length in Hl0. lia.
      * split; [apply Hd2|]. split; [exact Hlf|]. rewrite Hsplit. exact Hval.
  - apply Nat.ltb_ge in El.
    exists [CH0], (repeat CH0 (k - length str) ++ str).
    assert (Hfd : all_digits (repeat CH0 (k - length str) ++ str) = true)
      by (rewrite all_digits_app, all_digits_repeat0, Hstr; reflexivity).
    assert (Hlf : length (repeat CH0 (k - length str) ++ str) = k) by (rewrite app_length, repeat_length; lia).
    split.
    + destruct (repeat CH0 (k - length str) ++ str) eqn:Es; [cbn [length] in Hlf; lia|].
      destruct (q <? 0); reflexivity.
    + split; [reflexivity|]. split; [discriminate|]. split; [exact Hfd|]. split; [exact Hlf|].
      cbn [app dec_value]. change (0 * 10 + (CH0 - CH0)) with 0.
      rewrite dec_value_app, dec_value_repeat0. rewrite Z.mul_0_l. exact Hval.
Qed.

(* C14 decimal: write then read.  Read(Write(d, scale)) is d rounded half away from zero to scale digits:
   coefficient at exponent -scale when scale > 0, the integer itself (exponent 0) when scale <= 0.
   (scale within int32, as the Go field is.) *)
Lemma decimal_write_read : forall v e scale, dcm_in_int32 (- scale) = true ->
  decimal_read (decimal_write (v, e) scale) =
  Ok (if 0 <? scale then (dec_round_half_away v e scale, - scale)
      else (dec_round_half_away v e scale * 10 ^ (- scale), 0)).
Proof.
  intros v e scale H32. unfold decimal_write. rewrite dcm_round_spec.
  set (q := dec_round_half_away v e scale).
  destruct (0 <? scale) eqn:Es.
  - set (k := Z.to_nat scale). assert (Hk : - scale = - Z.of_nat k) by lia. rewrite Hk.
    destruct (dcm_string_neg_exp q k ltac:(lia)) as (ip & fp & -> & Hip & Hipne & Hfp & Hlf & Hval).
    assert (Hfpne : fp <> []) by (intros ->; cbn [length] in Hlf; lia).
    assert (H32' : dcm_in_int32 (- Z.of_nat (length fp)) = true) by (rewrite Hlf, <- Hk; exact H32).
    rewrite (decimal_read_fixed (q <? 0) ip fp Hip Hipne Hfp Hfpne H32').
    rewrite Hval, Hlf. f_equal. f_equal. destruct (q <? 0) eqn:Eq; lia.
  - unfold dcm_string. replace (0 <=? - scale) with true by lia.
    unfold dcm_rescale. destruct (- scale =? 0) eqn:E0.
    + cbn [fst]. rewrite decimal_read_itoa. replace (- scale) with 0 by lia. rewrite Z.mul_1_r. reflexivity.
    + replace (- scale <? 0) with false by lia. cbn [fst]. rewrite decimal_read_itoa.
      rewrite Z.sub_0_r. reflexivity.
Qed.

(* numerically: the value read back is the rounded value *)
Lemma decimal_write_read_value : forall v e scale, dcm_in_int32 (- scale) = true ->
  exists v' e', decimal_read (decimal_write (v, e) scale) = Ok (v', e')
    /\ dec_value_eqb v' e' (dec_round_half_away v e scale) (- scale) = true.
Proof.
  intros v e scale H32. rewrite (decimal_write_read v e scale H32).
  destruct (0 <? scale) eqn:Es.
  - eexists _, _. split; [reflexivity|]. unfold dec_value_eqb. rewrite Z.min_id, Z.sub_diag. lia.
  - eexists _, _. split; [reflexivity|]. unfold dec_value_eqb.
    replace (Z.min 0 (- scale)) with 0 by lia. rewrite !Z.sub_0_r. change (10 ^ 0) with 1. lia.
Qed.
