(* fix_string.go, fix_bytes.go: Read stores the bytes, Write returns them. *)
From Coq Require Import ZArith List.
From QF Require Import Base.Res Base.Bytes.

Definition fix_string_read (d : bytes) : res bytes := Ok d.
Definition fix_string_write (s : bytes) : bytes := s.
Definition fix_bytes_read (d : bytes) : res bytes := Ok d.
Definition fix_bytes_write (s : bytes) : bytes := s.
