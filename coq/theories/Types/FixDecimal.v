(* fix_decimal.go (github.com/shopspring/decimal v1.4.0: NewFromString, StringFixed = Round + string(false))
   and fix_udecimal.go (github.com/quagmt/udecimal v1.8.0: Parse, Trunc, StringFixed, String).
   Library fragments: modelled, not verified.  A shopspring decimal is (value, exp) : value * 10^exp;
   int32 wrap-around of exp / places is not modelled (|exp|, |scale| are small in the compared stream).
   A udecimal is (neg, coef, prec) : (-1)^neg * coef / 10^prec, 0 <= prec <= 19. *)
From Coq Require Import ZArith List Bool.
From QF Require Import Base.Res Base.Bytes.
Import ListNotations.
Open Scope Z_scope.

Definition dcm_DOT : Z := 46.
Definition dcm_PLUS : Z := 43.

Fixpoint dcm_digits_value (d : bytes) (n : Z) : Z :=
  match d with
  | [] => n
  | c :: r => dcm_digits_value r (n * 10 + (c - CH0))
  end.

(* syntax of strconv.ParseInt(s, 10, _) and of big.Int.SetString(s, 10): [+-]?[0-9]+ ; the unbounded value *)
Definition dcm_parse_int (s : bytes) : option Z :=
  let '(neg, body) := match s with
                      | c :: r => if c =? MINUS then (true, r) else if c =? dcm_PLUS then (false, r) else (false, s)
                      | [] => (false, s)
                      end in
  match body with
  | [] => None
  | _ => if forallb is_digit body
         then Some (if neg then - dcm_digits_value body 0 else dcm_digits_value body 0)
         else None
  end.

(* strings.IndexAny(value, "Ee") *)
Fixpoint dcm_index_e (s : bytes) : option nat :=
  match s with
  | [] => None
  | c :: r => if (c =? 69) || (c =? 101) then Some O else option_map S (dcm_index_e r)
  end.

Definition dcm_in_int32 (z : Z) : bool := (-2147483648 <=? z) && (z <=? 2147483647).

Definition E_DEC : Z := 1.

(* decimal.NewFromString *)
Definition decimal_read (s : bytes) : res (Z * Z) :=
  let* (value, exp) :=
    match dcm_index_e s with
    | Some i =>
        match dcm_parse_int (skipn (S i) s) with
        | Some e => if dcm_in_int32 e then Ok (firstn i s, e) else Err E_DEC
        | None => Err E_DEC
        end
    | None => Ok (s, 0)
    end in
  if Nat.ltb 1 (count_byte dcm_DOT value) then Err E_DEC else      (* "too many .s" *)
  let '(int_string, exp) :=
    match index_byte dcm_DOT value with
    | None => (value, exp)
    | Some p => (firstn p value ++ skipn (S p) value, exp - Z.of_nat (length (skipn (S p) value)))
    end in
  match dcm_parse_int int_string with
  | None => Err E_DEC
  | Some v => if dcm_in_int32 exp then Ok (v, exp) else Err E_DEC
  end.

(* Decimal.rescale(exp): Quo truncates towards zero *)
Definition dcm_rescale (d : Z * Z) (exp : Z) : Z * Z :=
  let '(v, e) := d in
  if e =? exp then d
  else if e <? exp then (Z.quot v (10 ^ (exp - e)), exp)
  else (v * 10 ^ (e - exp), exp).

(* Decimal.Round(places): half away from zero *)
Definition dcm_round (d : Z * Z) (places : Z) : Z * Z :=
  if snd d =? - places then d else
  let '(v, e) := dcm_rescale d (- places - 1) in
  let v1 := if v <? 0 then v - 5 else v + 5 in
  let q := v1 / 10 in            (* DivMod: Euclidean, divisor 10 *)
  let m := v1 mod 10 in
  let q' := if (q <? 0) && negb (m =? 0) then q + 1 else q in
  (q', e + 1).

(* Decimal.string(false) *)
Definition dcm_string (d : Z * Z) : bytes :=
  let '(v, e) := d in
  if 0 <=? e then itoa (fst (dcm_rescale d 0)) else
  let str := itoa (Z.abs v) in
  let k := Z.to_nat (- e) in
  let '(ip, fp) :=
    if Nat.ltb k (length str)
    then (firstn (length str - k) str, skipn (length str - k) str)
    else ([CH0], repeat CH0 (k - length str) ++ str) in
  let number := match fp with [] => ip | _ => ip ++ dcm_DOT :: fp end in
  if v <? 0 then MINUS :: number else number.

(* FIXDecimal.Write = d.Decimal.StringFixed(d.Scale) *)
Definition decimal_write (d : Z * Z) (scale : Z) : bytes := dcm_string (dcm_round d scale).

(* ---------------- udecimal ---------------- *)

Definition UDC_MAX_STR_LEN : nat := 200.
Definition UDC_MAX_PREC : Z := 19.

(* Decimal.newDecimal: zero is always {false, 0, 0} *)
Definition udc_new (neg : bool) (coef prec : Z) : bool * Z * Z :=
  if coef =? 0 then (false, 0, 0) else (neg, coef, prec).

(* udecimal.Parse: [+-]?D+(.D{1,19})? of at most 200 bytes.  One quirk of the big.Int path (texts longer
   than 41 bytes): "-+123..." is accepted, because the text after '-' goes to big.Int.SetString. *)
Definition udecimal_read (s : bytes) : res (bool * Z * Z) :=
  match s with
  | [] => Err E_DEC
  | c :: r =>
      if Nat.ltb UDC_MAX_STR_LEN (length s) then Err E_DEC else
      let '(neg, body) := if c =? MINUS then (true, r) else if c =? dcm_PLUS then (false, r) else (false, s) in
      let body := match body with
                  | c2 :: r2 => if neg && (c2 =? dcm_PLUS) && Nat.ltb 41 (length s) then r2 else body
                  | [] => body
                  end in
      match index_byte dcm_DOT body with
      | None =>
          match body with
          | [] => Err E_DEC
          | _ => if forallb is_digit body then Ok (udc_new neg (dcm_digits_value body 0) 0) else Err E_DEC
          end
      | Some p =>
          let ip := firstn p body in
          let fp := skipn (S p) body in
          match ip, fp with
          | [], _ => Err E_DEC
          | _, [] => Err E_DEC
          | _, _ =>
              if forallb is_digit ip && forallb is_digit fp && Nat.leb (length fp) 19
              then Ok (udc_new neg (dcm_digits_value (ip ++ fp) 0) (Z.of_nat (length fp)))
              else Err E_DEC
          end
      end
  end.

(* Decimal.Trunc(prec) *)
Definition udc_trunc (d : bool * Z * Z) (prec : Z) : bool * Z * Z :=
  let '(neg, coef, p) := d in
  if p <=? prec then d else udc_new neg (coef / 10 ^ (p - prec)) prec.

(* Decimal.trimTrailingZeros *)
Fixpoint udc_trim_loop (fuel : nat) (coef prec : Z) : Z * Z :=
  match fuel with
  | O => (coef, prec)
  | S k => if (0 <? prec) && (coef mod 10 =? 0) then udc_trim_loop k (coef / 10) (prec - 1) else (coef, prec)
  end.
Definition udc_trim (d : bool * Z * Z) : bool * Z * Z :=
  let '(neg, coef, p) := d in
  if coef =? 0 then (false, 0, 0) else
  let '(c, q) := udc_trim_loop 19 coef p in (neg, c, q).

(* digits with exactly prec fractional digits ("0" integer part when empty) *)
Definition udc_string_prec (d : bool * Z * Z) : bytes :=
  let '(neg, coef, p) := d in
  let ip := itoa (coef / 10 ^ p) in
  let fp := if 0 <? p then dcm_DOT :: pad_zeros (Z.to_nat p) (itoa (coef mod 10 ^ p)) else [] in
  (if neg then [MINUS] else []) ++ ip ++ fp.

(* Decimal.StringFixed(prec): rescale(prec) keeps a larger precision; exactly prec digits otherwise *)
Definition udc_string_fixed (d : bool * Z * Z) (prec : Z) : bytes :=
  let '(neg, coef, p) := udc_trim d in
  let prec := Z.min prec UDC_MAX_PREC in
  if prec <=? p then udc_string_prec (neg, coef, p)
  else udc_string_prec (neg, coef * 10 ^ (prec - p), prec).

(* Decimal.String(): trailing zeros trimmed *)
Definition udc_string (d : bool * Z * Z) : bytes := udc_string_prec (udc_trim d).

(* FIXUDecimal.Write = d.Decimal.Trunc(d.Scale).StringFixed(d.Scale), Scale uint8 *)
Definition udecimal_write (d : bool * Z * Z) (scale : Z) : bytes :=
  udc_string_fixed (udc_trunc d scale) scale.
