(* Lemmas about fix_boolean.go, fix_string.go, fix_bytes.go models. *)
From Coq Require Import ZArith List Bool Lia ZifyBool.
From QF Require Import Base.Res Base.Bytes Types.FixBool Types.FixString Types.TypesSpec.
Import ListNotations.
Open Scope Z_scope.

Lemma fix_bool_read_spec : forall d,
  fix_bool_read d = match bool_grammar d with Some b => Ok b | None => Err 1 end.
Proof.
  intros d. unfold fix_bool_read, bool_grammar.
  destruct d as [|c [|c2 r]]; [reflexivity| |].
  - cbn [beq_bytes]. rewrite !andb_true_r.
    destruct (c =? 89) eqn:E1; [replace c with 89 by lia; reflexivity|].
    destruct (c =? 78) eqn:E2; [replace c with 78 by lia; reflexivity|].
    destruct c as [|p|p]; try reflexivity.
    do 7 (destruct p as [p|p|]; try reflexivity); lia.
  - cbn [beq_bytes]. rewrite !andb_false_r.
    destruct c as [|p|p]; try reflexivity.
    do 7 (destruct p as [p|p|]; try reflexivity).
Qed.

Lemma fix_bool_read_ok_iff : forall d b, fix_bool_read d = Ok b <-> d = (if b then [89] else [78]).
Proof.
  intros d b. rewrite fix_bool_read_spec. unfold bool_grammar.
  destruct d as [|c [|c2 r]].
  - cbn. destruct b; split; discriminate.
  - cbn [beq_bytes]. rewrite !andb_true_r.
    destruct (c =? 89) eqn:E1.
    + replace c with 89 by lia. destruct b; split; congruence.
    + destruct (c =? 78) eqn:E2.
      * replace c with 78 by lia. destruct b; split; congruence.
      * destruct b; split; try discriminate; intros H; injection H as H; lia.
  - cbn [beq_bytes]. rewrite !andb_false_r. destruct b; split; discriminate.
Qed.

Lemma fix_bool_read_rejects : forall d, d <> [89] -> d <> [78] -> fix_bool_read d = Err 1.
Proof.
  intros d H1 H2. destruct (fix_bool_read d) as [b| e| |] eqn:E.
  - apply fix_bool_read_ok_iff in E. destruct b; congruence.
  - rewrite fix_bool_read_spec in E. destruct (bool_grammar d); congruence.
  - rewrite fix_bool_read_spec in E. destruct (bool_grammar d); discriminate.
  - rewrite fix_bool_read_spec in E. destruct (bool_grammar d); discriminate.
Qed.

Lemma fix_bool_write_read : forall b, fix_bool_read (fix_bool_write b) = Ok b.
Proof. intros [|]; reflexivity. Qed.

Lemma fix_bool_read_write : forall d b, fix_bool_read d = Ok b -> fix_bool_write b = d.
Proof. intros d b H. apply fix_bool_read_ok_iff in H. subst d. destruct b; reflexivity. Qed.

Lemma fix_bool_read_total : forall d, total_res (fix_bool_read d).
Proof.
  intros d. rewrite fix_bool_read_spec. destruct (bool_grammar d); [apply total_ok | apply total_err].
Qed.

(* string / bytes *)
Lemma fix_string_roundtrip : forall s, fix_string_read (fix_string_write s) = Ok s.
Proof. reflexivity. Qed.
Lemma fix_string_rewrite : forall d s, fix_string_read d = Ok s -> fix_string_write s = d.
Proof. intros d s H. injection H as H. symmetry. exact H. Qed.
Lemma fix_bytes_roundtrip : forall s, fix_bytes_read (fix_bytes_write s) = Ok s.
Proof. reflexivity. Qed.
Lemma fix_bytes_rewrite : forall d s, fix_bytes_read d = Ok s -> fix_bytes_write s = d.
Proof. intros d s H. injection H as H. symmetry. exact H. Qed.
