(* FIXUDecimal (model of quagmt/udecimal in Types/FixDecimal.v):
   1. udecimal_read accepts exactly the texts of the grammar [+-]?D+(.D{1,19})? of at most 200 bytes (plus the
      library's "-+digits" form for texts longer than 41 bytes) and returns the number the text denotes;
   2. write then read: the value truncated towards zero to the written scale, at precision min scale 19;
   3. read then write: a canonical text of scale k <= 19 is reproduced.
   Bounds of the library, carried by the model and stated as hypotheses: 200 bytes of text, precision 0..19. *)
From Coq Require Import ZArith List Bool Lia ZifyBool.
From QF Require Import Base.Res Base.Bytes Codec.FixInt Codec.FixIntSpec Codec.FixIntProofs
  Types.FixDecimal Types.TypesSpec Types.FixDecimalProofs Types.FixFloatProofs Types.DecimalSpec
  Types.FixDecimalCanon.
Import ListNotations.
Open Scope Z_scope.

(* ---------------- 1. Parse = the grammar ---------------- *)

(* what udecimal_read does once the sign is taken off *)
Definition udc_read_body (neg : bool) (body : bytes) : res (bool * Z * Z) :=
  match index_byte dcm_DOT body with
  | None =>
      match body with
      | [] => Err E_DEC
      | _ => if forallb is_digit body then Ok (udc_new neg (dcm_digits_value body 0) 0) else Err E_DEC
      end
  | Some p =>
      let ip := firstn p body in
      let fp := skipn (S p) body in
      match ip, fp with
      | [], _ => Err E_DEC
      | _, [] => Err E_DEC
      | _, _ =>
          if forallb is_digit ip && forallb is_digit fp && Nat.leb (length fp) 19
          then Ok (udc_new neg (dcm_digits_value (ip ++ fp) 0) (Z.of_nat (length fp)))
          else Err E_DEC
      end
  end.

Lemma udecimal_read_unfold : forall s,
  udecimal_read s =
  match s with
  | [] => Err E_DEC
  | _ :: _ => if Nat.ltb UDC_MAX_STR_LEN (length s) then Err E_DEC
              else udc_read_body (dtx_neg s) (udec_body s)
  end.
Proof.
  intros [|c r]; [reflexivity|]. unfold udecimal_read.
  destruct (Nat.ltb UDC_MAX_STR_LEN (length (c :: r))) eqn:El; [reflexivity|].
  unfold udec_body, udec_sign_len. cbn [dtx_neg]. change DTX_PLUS with dcm_PLUS.
  destruct (c =? MINUS) eqn:Em.
  - destruct r as [|c2 r2]; [reflexivity|]. cbn [andb].
    destruct ((c2 =? dcm_PLUS) && Nat.ltb 41 (length (c :: c2 :: r2))) eqn:Eq; reflexivity.
  - destruct (c =? dcm_PLUS) eqn:Ep.
    + destruct r as [|c2 r2]; reflexivity.
    + reflexivity.
Qed.

Lemma udc_new_norm : forall neg coef p, udc_new neg coef p = udec_norm neg coef p.
Proof. reflexivity. Qed.

Lemma udc_read_body_spec : forall neg body,
  udc_read_body neg body =
  if udec_unsignedb body
  then Ok (udec_norm neg (dec_value (dtx_ip body ++ dtx_fp body) 0) (Z.of_nat (length (dtx_fp body))))
  else Err E_DEC.
Proof.
  intros neg body. unfold udc_read_body, udec_unsignedb, dtx_ip, dtx_fp.
  change dcm_DOT with DTX_DOT.
  destruct (index_byte DTX_DOT body) as [p|] eqn:Ei.
  - cbv zeta.
    destruct (firstn p body) as [|i0 ir] eqn:Eip; [reflexivity|].
    destruct (skipn (S p) body) as [|f0 fr] eqn:Efp.
    + cbn [length Nat.eqb negb]. rewrite andb_false_r. reflexivity.
    + cbn [length Nat.eqb negb andb]. unfold all_digits, UDEC_MAX_PREC.
      destruct (forallb is_digit (i0 :: ir)); [|reflexivity]. cbn [andb].
      destruct (forallb is_digit (f0 :: fr)); [|reflexivity]. cbn [andb].
      destruct (Nat.leb (S (length fr)) 19); [|reflexivity].
      rewrite dcm_digits_value_eq. reflexivity.
  - destruct body as [|c r]; [reflexivity|]. cbn [length Nat.eqb negb andb]. unfold all_digits.
    destruct (forallb is_digit (c :: r)); [|reflexivity].
    rewrite dcm_digits_value_eq, app_nil_r. reflexivity.
Qed.

(* C14 udecimal: for every byte string, Read returns the value of the text when it is of the grammar and an error
   otherwise (never a panic, never a wrong value) *)
Lemma udecimal_read_spec_eq : forall s,
  udecimal_read s = match udec_read_spec s with Some d => Ok d | None => Err E_DEC end.
Proof.
  intros s. rewrite udecimal_read_unfold. unfold udec_read_spec, udec_grammarb, udec_text_value.
  destruct s as [|c r]; [reflexivity|].
  change UDC_MAX_STR_LEN with UDEC_MAX_LEN. rewrite Nat.ltb_antisym.
  destruct (Nat.leb (length (c :: r)) UDEC_MAX_LEN); cbn [negb andb]; [|reflexivity].
  rewrite udc_read_body_spec.
  destruct (udec_unsignedb (udec_body (c :: r))); reflexivity.
Qed.

Lemma udecimal_read_iff : forall s d, udecimal_read s = Ok d <-> udec_read_spec s = Some d.
Proof.
  intros s d. rewrite udecimal_read_spec_eq.
  destruct (udec_read_spec s) as [d'|]; split; intros H; try discriminate; injection H as <-; reflexivity.
Qed.

Lemma udecimal_read_rejects : forall s, udec_grammarb s = false -> udecimal_read s = Err E_DEC.
Proof. intros s H. rewrite udecimal_read_spec_eq. unfold udec_read_spec. rewrite H. reflexivity. Qed.

Lemma udecimal_read_total : forall s, total_res (udecimal_read s).
Proof.
  intros s. rewrite udecimal_read_spec_eq. destruct (udec_read_spec s); [apply total_ok | apply total_err].
Qed.

(* ---- the boolean grammar is the decomposition sign / digits / optional point and 1..19 digits ---- *)

Lemma digit_not_sign : forall c, is_digit c = true -> (c =? MINUS) = false /\ (c =? DTX_PLUS) = false.
Proof. intros c H. unfold is_digit, CH0, CH9, MINUS, DTX_PLUS in *. lia. Qed.

Lemma nonempty_length : forall (l : bytes), negb (Nat.eqb (length l) 0) = true <-> l <> [].
Proof. intros [|x r]; cbn [length Nat.eqb negb]; split; intros H; congruence. Qed.

(* the unsigned part *)
Lemma udec_unsignedb_iff : forall body, udec_unsignedb body = true <->
  exists ip fr, body = ip ++ fr /\ ip <> [] /\ all_digits ip = true
    /\ (fr = [] \/ exists fp, fr = DTX_DOT :: fp /\ fp <> [] /\ all_digits fp = true
                              /\ (length fp <= UDEC_MAX_PREC)%nat).
Proof.
  intros body. unfold udec_unsignedb. split.
  - intros H. destruct (index_byte DTX_DOT body) as [i|] eqn:Ei.
    + apply andb_true_iff in H as [H Hle]. apply andb_true_iff in H as [H Hfd].
      apply andb_true_iff in H as [H Hfn]. apply andb_true_iff in H as [Hin Hid].
      exists (firstn i body), (DTX_DOT :: skipn (S i) body).
      split; [apply index_byte_split; exact Ei|]. split; [apply nonempty_length; exact Hin|].
      split; [exact Hid|]. right. exists (skipn (S i) body).
      split; [reflexivity|]. split; [apply nonempty_length; exact Hfn|]. split; [exact Hfd|].
      apply Nat.leb_le. exact Hle.
    + apply andb_true_iff in H as [Hn Hd]. exists body, []. rewrite app_nil_r.
      split; [reflexivity|]. split; [apply nonempty_length; exact Hn|]. split; [exact Hd|]. left. reflexivity.
  - intros (ip & fr & -> & Hipne & Hipd & [-> | (fp & -> & Hfpne & Hfpd & Hle)]).
    + rewrite app_nil_r. rewrite (all_digits_no_dot ip Hipd), Hipd.
      rewrite (proj2 (nonempty_length ip) Hipne). reflexivity.
    + rewrite (index_byte_digits_dot ip fp Hipd).
      pose proof (dtx_parts_dot ip fp Hipd) as [E1 E2]. unfold dtx_ip, dtx_fp in E1, E2.
      rewrite (index_byte_digits_dot ip fp Hipd) in E1, E2. rewrite E1, E2.
      rewrite Hipd, Hfpd, (proj2 (nonempty_length ip) Hipne), (proj2 (nonempty_length fp) Hfpne).
      cbn [andb]. apply Nat.leb_le. exact Hle.
Qed.

(* a text that starts with a digit after its sign bytes: the sign bytes are recognised *)
Lemma udec_sign_len_app : forall sg c rest,
  is_digit c = true ->
  (sg = [] \/ sg = [MINUS] \/ sg = [DTX_PLUS]
   \/ (sg = [MINUS; DTX_PLUS] /\ (41 < length (sg ++ c :: rest))%nat)) ->
  udec_sign_len (sg ++ c :: rest) = length sg.
Proof.
  intros sg c rest Hc Hsg. destruct (digit_not_sign c Hc) as [Em Ep].
  destruct Hsg as [-> | [-> | [-> | [-> Hlen]]]].
  - cbn [app udec_sign_len]. rewrite Em, Ep. reflexivity.
  - cbn [app udec_sign_len]. rewrite Z.eqb_refl, Ep. reflexivity.
  - cbn [app udec_sign_len length]. replace (DTX_PLUS =? MINUS) with false by reflexivity.
    rewrite Z.eqb_refl. reflexivity.
  - cbn [app] in Hlen. cbn [app udec_sign_len]. rewrite !Z.eqb_refl. cbn [andb].
    replace (Nat.ltb 41 (length (MINUS :: DTX_PLUS :: c :: rest))) with true
      by (symmetry; apply Nat.ltb_lt; exact Hlen).
    reflexivity.
Qed.

Lemma udec_sign_cases : forall s,
  let sg := firstn (udec_sign_len s) s in
  s = sg ++ udec_body s /\
  (sg = [] \/ sg = [MINUS] \/ sg = [DTX_PLUS] \/ (sg = [MINUS; DTX_PLUS] /\ (41 < length s)%nat)).
Proof.
  intros s sg. split; [symmetry; apply firstn_skipn|]. subst sg.
  destruct s as [|c r]; [left; reflexivity|]. unfold udec_sign_len.
  destruct (c =? MINUS) eqn:Em.
  - assert (c = MINUS) by lia. subst c.
    destruct r as [|c2 r2]; [right; left; reflexivity|].
    destruct ((c2 =? DTX_PLUS) && Nat.ltb 41 (length (MINUS :: c2 :: r2))) eqn:Eq.
    + apply andb_true_iff in Eq as [E2 El]. assert (c2 = DTX_PLUS) by lia. subst c2.
      right; right; right. split; [reflexivity|]. apply Nat.ltb_lt. exact El.
    + right; left. reflexivity.
  - destruct (c =? DTX_PLUS) eqn:Ep.
    + assert (c = DTX_PLUS) by lia. subst c. right; right; left. reflexivity.
    + left. reflexivity.
Qed.

Lemma udec_grammarb_iff : forall s, udec_grammarb s = true <-> udec_grammar s.
Proof.
  intros s. unfold udec_grammarb, udec_grammar. split.
  - intros H. apply andb_true_iff in H as [Hl Hu]. split; [apply Nat.leb_le; exact Hl|].
    apply udec_unsignedb_iff in Hu as (ip & fr & Hb & Hrest).
    destruct (udec_sign_cases s) as [Hs Hsg].
    exists (firstn (udec_sign_len s) s), ip, fr. rewrite <- Hb. split; [exact Hs|]. split; [exact Hsg | exact Hrest].
  - intros (Hl & sg & ip & fr & Hs & Hsg & Hipne & Hipd & Hfr).
    apply andb_true_iff. split; [apply Nat.leb_le; exact Hl|].
    destruct ip as [|c r]; [congruence|].
    assert (Hc : is_digit c = true) by (cbn [all_digits forallb] in Hipd; apply andb_true_iff in Hipd; tauto).
    assert (Hbody : udec_body s = (c :: r) ++ fr).
    { unfold udec_body. rewrite Hs at 1 2. cbn [app].
      rewrite (udec_sign_len_app sg c (r ++ fr) Hc).
      - rewrite skipn_app, skipn_all, Nat.sub_diag. reflexivity.
      - cbn [app] in Hs. rewrite <- Hs. exact Hsg. }
    rewrite Hbody. apply udec_unsignedb_iff. exists (c :: r), fr. split; [reflexivity|].
    split; [discriminate|]. split; [exact Hipd | exact Hfr].
Qed.

(* C14 udecimal: acceptance <=> grammar, as a decomposition of the accepted text *)
Lemma udecimal_read_ok_iff_grammar : forall s, (exists d, udecimal_read s = Ok d) <-> udec_grammar s.
Proof.
  intros s. rewrite <- udec_grammarb_iff. split.
  - intros [d H]. apply udecimal_read_iff in H. unfold udec_read_spec in H.
    destruct (udec_grammarb s); [reflexivity | discriminate].
  - intros H. exists (udec_text_value s). apply udecimal_read_iff. unfold udec_read_spec. rewrite H. reflexivity.
Qed.

(* ---------------- 2. reading a text given by its parts ---------------- *)

Lemma udecimal_read_parts : forall (neg : bool) ip fp,
  all_digits ip = true -> ip <> [] -> all_digits fp = true -> (length fp <= 19)%nat ->
  (length ((if neg then [MINUS] else []) ++ ip ++ match fp with [] => [] | _ => DTX_DOT :: fp end) <= 200)%nat ->
  udecimal_read ((if neg then [MINUS] else []) ++ ip ++ match fp with [] => [] | _ => DTX_DOT :: fp end)
  = Ok (udc_new neg (dec_value (ip ++ fp) 0) (Z.of_nat (length fp))).
Proof.
  intros neg ip fp Hipd Hipne Hfpd Hfl Hlen.
  set (fr := match fp with [] => [] | _ => DTX_DOT :: fp end) in *.
  set (s := (if neg then [MINUS] else []) ++ ip ++ fr) in *.
  destruct ip as [|c r]; [congruence|].
  assert (Hc : is_digit c = true) by (cbn [all_digits forallb] in Hipd; apply andb_true_iff in Hipd; tauto).
  destruct (digit_not_sign c Hc) as [Em Ep].
  assert (Hneg : dtx_neg s = neg).
  { subst s. destruct neg; cbn [app dtx_neg]; [apply Z.eqb_refl | exact Em]. }
  assert (Hbody : udec_body s = (c :: r) ++ fr).
  { unfold udec_body. subst s. cbn [app].
    rewrite (udec_sign_len_app (if neg then [MINUS] else []) c (r ++ fr) Hc).
    - rewrite skipn_app, skipn_all, Nat.sub_diag. reflexivity.
    - destruct neg; [right; left; reflexivity | left; reflexivity]. }
  assert (Hparts : udec_unsignedb ((c :: r) ++ fr) = true
                   /\ dtx_ip ((c :: r) ++ fr) = c :: r /\ dtx_fp ((c :: r) ++ fr) = fp).
  { subst fr. destruct fp as [|f0 f1].
    - rewrite app_nil_r. unfold udec_unsignedb, dtx_ip, dtx_fp. rewrite (all_digits_no_dot _ Hipd), Hipd.
      repeat split; reflexivity.
    - split.
      + apply udec_unsignedb_iff. exists (c :: r), (DTX_DOT :: f0 :: f1). split; [reflexivity|].
        split; [discriminate|]. split; [exact Hipd|]. right. exists (f0 :: f1).
        split; [reflexivity|]. split; [discriminate|]. split; [exact Hfpd | exact Hfl].
      + apply dtx_parts_dot. exact Hipd. }
  destruct Hparts as (Hu & E1 & E2).
  rewrite udecimal_read_spec_eq. unfold udec_read_spec, udec_grammarb, udec_text_value.
  rewrite Hbody, Hu, Hneg, E1, E2.
  replace (Nat.leb (length s) UDEC_MAX_LEN) with true by (symmetry; apply Nat.leb_le; exact Hlen).
  reflexivity.
Qed.

(* ---------------- 3. what Trunc + StringFixed write ---------------- *)

Lemma udc_pow10_pos (k : Z) : 0 <= k -> 0 < 10 ^ k.
Proof. intros H. apply Z.pow_pos_nonneg; lia. Qed.

Lemma udc_trim_loop_inv : forall fuel coef p c q,
  udc_trim_loop fuel coef p = (c, q) -> 0 <= p -> 0 <= q <= p /\ coef = c * 10 ^ (p - q).
Proof.
  induction fuel as [|fuel IH]; intros coef p c q H Hp.
  - cbn [udc_trim_loop] in H. injection H as <- <-. rewrite Z.sub_diag. change (10 ^ 0) with 1. lia.
  - cbn [udc_trim_loop] in H.
    destruct ((0 <? p) && (coef mod 10 =? 0)) eqn:E.
    + apply andb_true_iff in E as [E1 E2].
      destruct (IH _ _ _ _ H ltac:(lia)) as [Hq Hc].
      split; [lia|].
      replace (p - q) with (Z.succ (p - 1 - q)) by lia. rewrite Z.pow_succ_r by lia.
      pose proof (Z.div_mod coef 10 ltac:(lia)) as Hdm.
      replace (coef mod 10) with 0 in Hdm by lia. rewrite Hc in Hdm. lia.
    + injection H as <- <-. rewrite Z.sub_diag. change (10 ^ 0) with 1. lia.
Qed.

(* StringFixed(k) of a value whose precision does not exceed k: exactly min k 19 fraction digits *)
Lemma udc_string_fixed_eq : forall neg coef p k, 0 <= p <= k -> p <= 19 ->
  udc_string_fixed (neg, coef, p) k =
  udc_string_prec ((if coef =? 0 then false else neg), coef * 10 ^ (Z.min k 19 - p), Z.min k 19).
Proof.
  intros neg coef p k Hp H19. unfold udc_string_fixed, udc_trim, UDC_MAX_PREC.
  destruct (coef =? 0) eqn:E0.
  - assert (coef = 0) by lia. subst coef. rewrite Z.mul_0_l.
    destruct (Z.min k 19 <=? 0) eqn:Ek.
    + replace (Z.min k 19) with 0 by lia. reflexivity.
    + rewrite Z.mul_0_l. reflexivity.
  - destruct (udc_trim_loop 19 coef p) as [c q] eqn:Et.
    destruct (udc_trim_loop_inv _ _ _ _ _ Et ltac:(lia)) as [Hq Hc].
    destruct (Z.min k 19 <=? q) eqn:Ek.
    + assert (Hqp : q = p) by lia. assert (Hm : Z.min k 19 = p) by lia.
      rewrite Hm, Hqp in *. rewrite Z.sub_diag in *. change (10 ^ 0) with 1 in *.
      rewrite Z.mul_1_r in *. subst c. reflexivity.
    + f_equal. f_equal. f_equal. rewrite Hc. rewrite <- Z.mul_assoc. f_equal.
      rewrite <- Z.pow_add_r by lia. f_equal. lia.
Qed.

(* the coefficient FIXUDecimal.Write puts on the wire, at precision min k 19 *)
Definition udc_written_coef (coef p k : Z) : Z :=
  udec_trunc_spec coef p k * 10 ^ (Z.min k 19 - Z.min p k).

Lemma udecimal_write_eq : forall neg coef p k, 0 <= p <= 19 -> 0 <= k ->
  udecimal_write (neg, coef, p) k =
  udc_string_prec ((if udc_written_coef coef p k =? 0 then false else neg), udc_written_coef coef p k, Z.min k 19).
Proof.
  intros neg coef p k Hp Hk. unfold udecimal_write, udc_trunc, udc_written_coef, udec_trunc_spec.
  destruct (p <=? k) eqn:Epk.
  - rewrite (udc_string_fixed_eq neg coef p k ltac:(lia) ltac:(lia)).
    replace (Z.min p k) with p by lia.
    assert (Hpos : 0 < 10 ^ (Z.min k 19 - p)) by (apply udc_pow10_pos; lia).
    destruct (coef =? 0) eqn:E0.
    + assert (coef = 0) by lia. subst coef. rewrite Z.mul_0_l. reflexivity.
    + replace (coef * 10 ^ (Z.min k 19 - p) =? 0) with false by nia. reflexivity.
  - replace (Z.min p k) with k by lia. replace (Z.min k 19) with k by lia.
    rewrite Z.sub_diag. change (10 ^ 0) with 1. rewrite Z.mul_1_r.
    unfold udc_new. destruct (coef / 10 ^ (p - k) =? 0) eqn:E0.
    + rewrite (udc_string_fixed_eq false 0 0 k ltac:(lia) ltac:(lia)).
      replace (Z.min k 19) with k by lia. rewrite Z.mul_0_l.
      replace (coef / 10 ^ (p - k)) with 0 by lia. reflexivity.
    + rewrite (udc_string_fixed_eq neg _ k k ltac:(lia) ltac:(lia)). rewrite E0.
      replace (Z.min k 19) with k by lia. rewrite Z.sub_diag. change (10 ^ 0) with 1. rewrite Z.mul_1_r.
      reflexivity.
Qed.

(* exactly P fraction digits: the text, taken apart *)
Lemma udc_string_prec_parts : forall (neg : bool) C P, 0 <= C -> 0 <= P ->
  exists ip fp,
    udc_string_prec (neg, C, P) = (if neg then [MINUS] else []) ++ ip ++ match fp with [] => [] | _ => DTX_DOT :: fp end
    /\ canonical_uint ip = true /\ all_digits fp = true /\ length fp = Z.to_nat P
    /\ dec_value ip 0 = C / 10 ^ P /\ dec_value (ip ++ fp) 0 = C.
Proof.
  intros neg C P HC HP. unfold udc_string_prec.
  assert (HK : 0 < 10 ^ P) by (apply udc_pow10_pos; exact HP).
  assert (Hq : 0 <= C / 10 ^ P) by (apply Z.div_pos; lia).
  pose proof (canonical_uint_itoa (C / 10 ^ P) Hq) as Hcan.
  destruct (canonical_uint_digits _ Hcan) as [Hipd Hipne].
  assert (Hipv : dec_value (itoa (C / 10 ^ P)) 0 = C / 10 ^ P).
  { rewrite <- (dec_value_digits_int_value _ Hipd Hipne). apply int_value_itoa. }
  destruct (0 <? P) eqn:EP.
  - pose proof (Z.mod_pos_bound C (10 ^ P) HK) as Hm.
    assert (HPn : Z.of_nat (Z.to_nat P) = P) by lia.
    destruct (pad_zeros_itoa_field (C mod 10 ^ P) (Z.to_nat P) ltac:(rewrite HPn; exact Hm) ltac:(lia))
      as (Hl & Hd & Hv).
    exists (itoa (C / 10 ^ P)), (pad_zeros (Z.to_nat P) (itoa (C mod 10 ^ P))).
    split.
    + destruct (pad_zeros (Z.to_nat P) (itoa (C mod 10 ^ P))) as [|f0 f1] eqn:Ef;
        [cbn [length] in Hl; lia | reflexivity].
    + split; [exact Hcan|]. split; [exact Hd|]. split; [exact Hl|]. split; [exact Hipv|].
      rewrite dec_value_app, dec_value_shift, Hl, HPn, Hv, Hipv.
      pose proof (Z.div_mod C (10 ^ P) ltac:(lia)) as Hdm. lia.
  - assert (P = 0) by lia. subst P. change (10 ^ 0) with 1 in *. rewrite Z.div_1_r in *.
    exists (itoa C), []. rewrite app_nil_r.
    split; [reflexivity|]. split; [exact Hcan|]. split; [reflexivity|]. split; [reflexivity|].
    split; exact Hipv.
Qed.

(* ... and read back *)
Lemma udecimal_read_string_prec : forall (neg : bool) C P, 0 <= C -> 0 <= P <= 19 ->
  (length (udc_string_prec (neg, C, P)) <= 200)%nat ->
  udecimal_read (udc_string_prec (neg, C, P)) = Ok (udc_new neg C P).
Proof.
  intros neg C P HC HP Hlen.
  destruct (udc_string_prec_parts neg C P HC ltac:(lia)) as (ip & fp & Hs & Hcan & Hfd & Hfl & _ & Hv).
  destruct (canonical_uint_digits _ Hcan) as [Hipd Hipne].
  rewrite Hs in *.
  rewrite (udecimal_read_parts neg ip fp Hipd Hipne Hfd ltac:(lia) Hlen).
  rewrite Hv, Hfl. replace (Z.of_nat (Z.to_nat P)) with P by lia. reflexivity.
Qed.

Lemma udc_new_sign_irrelevant : forall neg C P, udc_new (if C =? 0 then false else neg) C P = udc_new neg C P.
Proof. intros neg C P. unfold udc_new. destruct (C =? 0); reflexivity. Qed.

Lemma udc_written_coef_nonneg : forall coef p k, 0 <= coef -> 0 <= p <= 19 -> 0 <= k -> 0 <= udc_written_coef coef p k.
Proof.
  intros coef p k Hc Hp Hk. unfold udc_written_coef, udec_trunc_spec.
  assert (0 < 10 ^ (Z.min k 19 - Z.min p k)) by (apply udc_pow10_pos; lia).
  destruct (p <=? k) eqn:E; [nia|].
  assert (0 < 10 ^ (p - k)) by (apply udc_pow10_pos; lia).
  assert (0 <= coef / 10 ^ (p - k)) by (apply Z.div_pos; lia). nia.
Qed.

(* C14 udecimal, write then read: the value truncated towards zero to the written scale, held at precision
   min scale 19.  Hypotheses = the library's bounds: the value is well formed (coefficient >= 0, precision 0..19),
   the scale is not negative (uint8 in Go), the written text has at most 200 bytes (Parse refuses longer texts). *)
Lemma udecimal_write_read : forall neg coef p k,
  udec_wfb (neg, coef, p) = true -> (0 <=? k) = true ->
  Nat.leb (length (udecimal_write (neg, coef, p) k)) UDEC_MAX_LEN = true ->
  udecimal_read (udecimal_write (neg, coef, p) k)
  = Ok (udec_norm neg (udec_trunc_spec coef p k * 10 ^ (Z.min k 19 - Z.min p k)) (Z.min k 19)).
Proof.
  intros neg coef p k Hwf Hk Hlen. unfold udec_wfb in Hwf. apply Nat.leb_le in Hlen.
  assert (Hc : 0 <= coef) by lia. assert (Hp : 0 <= p <= 19) by lia. assert (Hk' : 0 <= k) by lia.
  rewrite (udecimal_write_eq neg coef p k Hp Hk') in *.
  pose proof (udc_written_coef_nonneg coef p k Hc Hp Hk') as HC.
  assert (HP : 0 <= Z.min k 19 <= 19) by lia.
  rewrite (udecimal_read_string_prec _ _ _ HC HP Hlen).
  rewrite udc_new_sign_irrelevant. reflexivity.
Qed.

(* the same, numerically: what is read back is the number sign * trunc(coef / 10^(p - k)) / 10^(min p k) *)
Lemma udecimal_write_read_value : forall neg coef p k,
  udec_wfb (neg, coef, p) = true -> (0 <=? k) = true ->
  Nat.leb (length (udecimal_write (neg, coef, p) k)) UDEC_MAX_LEN = true ->
  exists d', udecimal_read (udecimal_write (neg, coef, p) k) = Ok d'
    /\ udec_wfb d' = true
    /\ udec_value_eqb d' (neg, udec_trunc_spec coef p k, Z.min p k) = true
    /\ udec_value_eqb d' (udc_trunc (neg, coef, p) k) = true.
Proof.
  intros neg coef p k Hwf Hk Hlen. rewrite (udecimal_write_read neg coef p k Hwf Hk Hlen).
  eexists. split; [reflexivity|].
  unfold udec_wfb in Hwf.
  assert (Hc : 0 <= coef) by lia. assert (Hp : 0 <= p <= 19) by lia. assert (Hk' : 0 <= k) by lia.
  pose proof (udc_written_coef_nonneg coef p k Hc Hp Hk') as HC. unfold udc_written_coef in HC.
  set (T := udec_trunc_spec coef p k) in *.
  set (m := Z.min p k) in *. set (P := Z.min k 19) in *.
  assert (HmP : 0 <= m <= P) by lia.
  assert (Hpow : 10 ^ P = 10 ^ (P - m) * 10 ^ m) by (rewrite <- Z.pow_add_r by lia; f_equal; lia).
  assert (Hval : udec_value_eqb (udec_norm neg (T * 10 ^ (P - m)) P) (neg, T, m) = true).
  { unfold udec_norm, udec_value_eqb. destruct (T * 10 ^ (P - m) =? 0) eqn:E0.
    - cbn [udec_signed udec_prec].
      assert (0 < 10 ^ (P - m)) by (apply udc_pow10_pos; lia).
      assert (T = 0) by nia. subst T. replace (udec_trunc_spec coef p k) with 0 by lia.
      destruct neg; cbn [Z.opp]; lia.
    - cbn [udec_signed udec_prec]. rewrite Hpow. destruct neg; apply Z.eqb_eq; ring. }
  split; [|split; [exact Hval|]].
  - unfold udec_norm, udec_wfb. destruct (T * 10 ^ (P - m) =? 0); [reflexivity | lia].
  - unfold udc_trunc. subst T. unfold udec_trunc_spec in *.
    destruct (p <=? k) eqn:Epk.
    + assert (Em : m = p) by lia. rewrite Em in Hval |- *. exact Hval.
    + assert (Em : m = k) by lia. assert (EP : P = k) by lia. rewrite Em, EP.
      rewrite Z.sub_diag. change (10 ^ 0) with 1. rewrite Z.mul_1_r. unfold udc_new, udec_norm, udec_value_eqb.
      apply Z.eqb_refl.
Qed.

(* a sufficient condition for the 200-byte bound: fewer than 180 integer digits *)
Lemma udecimal_write_length : forall neg coef p k,
  udec_wfb (neg, coef, p) = true -> (0 <=? k) = true -> (coef <? 10 ^ 179) = true ->
  Nat.leb (length (udecimal_write (neg, coef, p) k)) UDEC_MAX_LEN = true.
Proof.
  intros neg coef p k Hwf Hk Hsmall. unfold udec_wfb in Hwf. apply Nat.leb_le.
  assert (Hc : 0 <= coef) by lia. assert (Hp : 0 <= p <= 19) by lia. assert (Hk' : 0 <= k) by lia.
  rewrite (udecimal_write_eq neg coef p k Hp Hk').
  pose proof (udc_written_coef_nonneg coef p k Hc Hp Hk') as HC.
  set (n' := if udc_written_coef coef p k =? 0 then false else neg).
  destruct (udc_string_prec_parts n' _ (Z.min k 19) HC ltac:(lia)) as (ip & fp & Hs & Hcan & Hfd & Hfl & Hipv & _).
  rewrite Hs.
  assert (Hipl : (length ip <= 179)%nat).
  { rewrite <- (itoa_canonical_uint ip Hcan). apply itoa_length_bound; [|lia].
    rewrite Hipv. split; [apply Z.div_pos; [exact HC | apply udc_pow10_pos; lia]|].
    apply Z.le_lt_trans with coef; [|change (Z.of_nat 179) with 179; lia].
    unfold udc_written_coef, udec_trunc_spec.
    set (m := Z.min p k). set (P := Z.min k 19).
    assert (HmP : 0 <= m <= P) by lia.
    assert (HT : 0 <= (if p <=? k then coef else coef / 10 ^ (p - k)) <= coef).
    { destruct (p <=? k) eqn:E; [lia|].
      assert (0 < 10 ^ (p - k)) by (apply udc_pow10_pos; lia).
      split; [apply Z.div_pos; lia|]. apply Z.div_le_upper_bound; [lia | nia]. }
    set (T := if p <=? k then coef else coef / 10 ^ (p - k)) in *.
    assert (H1 : 0 < 10 ^ (P - m)) by (apply udc_pow10_pos; lia).
    assert (H2 : 0 < 10 ^ m) by (apply udc_pow10_pos; lia).
    assert (H3 : 0 < 10 ^ P) by (apply udc_pow10_pos; lia).
    assert (Hpow : 10 ^ P = 10 ^ (P - m) * 10 ^ m) by (rewrite <- Z.pow_add_r by lia; f_equal; lia).
    apply Z.le_trans with T; [|lia].
    apply Z.div_le_upper_bound; [lia|]. rewrite Hpow. nia. }
  rewrite !app_length.
  assert (Hsg : (length (if n' then [MINUS] else []) <= 1)%nat) by (destruct n'; cbn [length]; lia).
  assert (Hfr : (length (match fp with [] => [] | _ => DTX_DOT :: fp end) <= 20)%nat).
  { destruct fp as [|f0 f1]; [cbn [length]; lia|]. cbn [length] in *. lia. }
  unfold UDEC_MAX_LEN. lia.
Qed.

(* write then read with the length bound discharged: coefficients below 10^179 *)
Lemma udecimal_write_read_small : forall neg coef p k,
  udec_wfb (neg, coef, p) = true -> (0 <=? k) = true -> (coef <? 10 ^ 179) = true ->
  udecimal_read (udecimal_write (neg, coef, p) k)
  = Ok (udec_norm neg (udec_trunc_spec coef p k * 10 ^ (Z.min k 19 - Z.min p k)) (Z.min k 19)).
Proof.
  intros neg coef p k Hwf Hk Hsmall.
  exact (udecimal_write_read neg coef p k Hwf Hk (udecimal_write_length neg coef p k Hwf Hk Hsmall)).
Qed.

(* ---------------- 4. read -> write of canonical texts ---------------- *)

Lemma udecimal_write_new : forall (neg : bool) V k, 0 <= V -> 0 <= k <= 19 -> (neg = true -> V <> 0) ->
  udecimal_write (udc_new neg V k) k = udc_string_prec (neg, V, k).
Proof.
  intros neg V k HV Hk Hnz. unfold udc_new. destruct (V =? 0) eqn:E0.
  - assert (V = 0) by lia. subst V.
    assert (neg = false) by (destruct neg; [exfalso; apply (Hnz eq_refl); reflexivity | reflexivity]). subst neg.
    rewrite (udecimal_write_eq false 0 0 k ltac:(lia) ltac:(lia)).
    unfold udc_written_coef, udec_trunc_spec. replace (0 <=? k) with true by lia. rewrite Z.mul_0_l.
    replace (Z.min k 19) with k by lia. reflexivity.
  - rewrite (udecimal_write_eq neg V k k ltac:(lia) ltac:(lia)).
    unfold udc_written_coef, udec_trunc_spec. rewrite Z.leb_refl.
    replace (Z.min k 19) with k by lia. replace (Z.min k k) with k by lia.
    rewrite Z.sub_diag. change (10 ^ 0) with 1. rewrite Z.mul_1_r, E0. reflexivity.
Qed.

(* C14 udecimal, read then write: a canonical text of scale k (k <= 19, at most 200 bytes) is read as the number it
   denotes and written back, at scale k, as the same text *)
Lemma udecimal_read_write_canonical : forall k s, udec_canonicalb k s = true ->
  udecimal_read s = Ok (udec_text_value s)
  /\ udecimal_write (udec_text_value s) (Z.of_nat k) = s.
Proof.
  intros k s H. unfold udec_canonicalb in H.
  apply andb_true_iff in H as [H Hlen]. apply andb_true_iff in H as [Hc Hk].
  apply Nat.leb_le in Hlen. apply Nat.leb_le in Hk. unfold UDEC_MAX_PREC, UDEC_MAX_LEN in *.
  destruct (dec_canonical_shape k s Hc) as (Hbody & Hip & Hfp & Hfl & Hnz).
  set (ip := dtx_ip (dtx_body s)) in *. set (fp := dtx_fp (dtx_body s)) in *.
  destruct (canonical_uint_digits ip Hip) as [Hipd Hipne].
  pose proof (dtx_sign_body s) as Hs. rewrite Hbody in Hs.
  assert (Hfr : match k with O => [] | S _ => DTX_DOT :: fp end = match fp with [] => [] | _ => DTX_DOT :: fp end).
  { destruct k as [|k']; destruct fp as [|f0 f1]; try reflexivity; cbn [length] in Hfl; lia. }
  rewrite Hfr in Hs.
  assert (Hread : udecimal_read s = Ok (udc_new (dtx_neg s) (dec_value (ip ++ fp) 0) (Z.of_nat k))).
  { rewrite Hs at 1. rewrite <- Hfl.
    apply (udecimal_read_parts (dtx_neg s) ip fp Hipd Hipne Hfp ltac:(lia)). rewrite <- Hs. exact Hlen. }
  assert (Htv : udec_text_value s = udc_new (dtx_neg s) (dec_value (ip ++ fp) 0) (Z.of_nat k)).
  { pose proof (udecimal_read_spec_eq s) as Hspec. rewrite Hread in Hspec. unfold udec_read_spec in Hspec.
    destruct (udec_grammarb s); [|discriminate]. injection Hspec as Hspec. symmetry. exact Hspec. }
  rewrite Htv. split; [exact Hread|].
  assert (Hall : all_digits (ip ++ fp) = true) by (rewrite all_digits_app, Hipd, Hfp; reflexivity).
  pose proof (dec_value_nonneg _ Hall) as HV.
  rewrite (udecimal_write_new (dtx_neg s) _ (Z.of_nat k) HV ltac:(lia) Hnz).
  (* the text of exactly k fraction digits is the original one *)
  unfold udc_string_prec.
  assert (HK : 0 < 10 ^ Z.of_nat k) by (apply udc_pow10_pos; lia).
  pose proof (dec_value_bounds fp 0 Hfp ltac:(lia)) as Hfb. rewrite Hfl in Hfb.
  assert (HVeq : dec_value (ip ++ fp) 0 = 10 ^ Z.of_nat k * dec_value ip 0 + dec_value fp 0).
  { rewrite dec_value_app, dec_value_shift, Hfl. ring. }
  assert (Hdiv : dec_value (ip ++ fp) 0 / 10 ^ Z.of_nat k = dec_value ip 0).
  { symmetry. apply (Z.div_unique_pos _ _ _ (dec_value fp 0)); [lia | exact HVeq]. }
  assert (Hmod : dec_value (ip ++ fp) 0 mod 10 ^ Z.of_nat k = dec_value fp 0).
  { symmetry. apply (Z.mod_unique_pos _ _ (dec_value ip 0)); [lia | exact HVeq]. }
  rewrite Hdiv, Hmod, (itoa_canonical_uint ip Hip).
  rewrite Hs at 2. f_equal. f_equal.
  destruct (0 <? Z.of_nat k) eqn:Ek.
  - assert (Hfpne : fp <> []) by (intros E; rewrite E in Hfl; cbn [length] in Hfl; lia).
    rewrite Nat2Z.id, <- Hfl. rewrite (pad_zeros_itoa_unique fp Hfp Hfpne).
    destruct fp; [congruence | reflexivity].
  - destruct fp as [|f0 f1]; [reflexivity | cbn [length] in Hfl; lia].
Qed.

Lemma udecimal_read_then_write : forall k s d, udec_canonicalb k s = true ->
  udecimal_read s = Ok d -> udecimal_write d (Z.of_nat k) = s.
Proof.
  intros k s d Hc Hr. destruct (udecimal_read_write_canonical k s Hc) as [Hr' Hw].
  rewrite Hr' in Hr. injection Hr as <-. exact Hw.
Qed.

(* what FIXUDecimal.Write produces is canonical of scale min k 19 *)
Lemma udecimal_write_canonical : forall neg coef p k,
  udec_wfb (neg, coef, p) = true -> (0 <=? k) = true ->
  dec_canonicalb (Z.to_nat (Z.min k 19)) (udecimal_write (neg, coef, p) k) = true.
Proof.
  intros neg coef p k Hwf Hk. unfold udec_wfb in Hwf.
  assert (Hc : 0 <= coef) by lia. assert (Hp : 0 <= p <= 19) by lia. assert (Hk' : 0 <= k) by lia.
  rewrite (udecimal_write_eq neg coef p k Hp Hk').
  pose proof (udc_written_coef_nonneg coef p k Hc Hp Hk') as HC.
  set (C := udc_written_coef coef p k) in *.
  set (n' := if C =? 0 then false else neg).
  destruct (udc_string_prec_parts n' C (Z.min k 19) HC ltac:(lia)) as (ip & fp & Hs & Hcan & Hfd & Hfl & _ & Hv).
  rewrite Hs, <- Hfl.
  assert (Hnz : n' = true -> dec_value (ip ++ fp) 0 <> 0).
  { subst n'. rewrite Hv. destruct (C =? 0) eqn:E0; [discriminate | lia]. }
  destruct (canonical_uint_digits ip Hcan) as [Hipd Hipne].
  destruct fp as [|f0 f1].
  - (* no fraction: an integer text *)
    rewrite app_nil_r in *. cbn [length].
    assert (Hsb : dtx_neg ((if n' then [MINUS] else []) ++ ip) = n' /\ dtx_body ((if n' then [MINUS] else []) ++ ip) = ip).
    { destruct n'.
      - cbn [app dtx_neg dtx_body]. rewrite Z.eqb_refl. split; reflexivity.
      - destruct ip as [|c r]; [congruence|]. cbn [app dtx_neg dtx_body].
        rewrite (digits_head_not_minus c r Hipd). split; reflexivity. }
    destruct Hsb as [Hn Hb]. unfold dec_canonicalb. rewrite Hn, Hb.
    unfold dtx_ip, dtx_fp. rewrite (all_digits_no_dot ip Hipd), app_nil_r, Hcan.
    cbn [Nat.eqb andb all_digits forallb length].
    destruct n'; [|reflexivity]. cbn [andb]. specialize (Hnz eq_refl).
    replace (dec_value ip 0 =? 0) with false by lia. reflexivity.
  - apply (dec_canonical_build n' ip (f0 :: f1) Hcan Hfd ltac:(discriminate) Hnz).
Qed.
