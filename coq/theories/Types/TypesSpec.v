(* Specification side of C14 for bool, UTC timestamp, float, decimal: the FIX grammars and values, written from
   the property statement and independent of the reader models.  Boolean and executable: extracted as the
   grammar oracle of the correspondence stream.  No proofs here. *)
From Coq Require Import ZArith List Bool.
From QF Require Import Base.Res Base.Bytes Codec.FixInt Codec.FixIntSpec Types.GoTime.
Import ListNotations.
Open Scope Z_scope.

(* ---- bool: exactly "Y" and "N" ---- *)
Definition bool_grammar (s : bytes) : option bool :=
  if beq_bytes s [89] then Some true else if beq_bytes s [78] then Some false else None.

(* ---- UTC timestamp ----
   YYYYMMDD-HH:MM:SS[.sss|.ssssss|.sssssssss]: a valid proleptic Gregorian date (year 0000..9999, month 01..12,
   day 01..days of that month), HH 00..23, MM 00..59, SS 00..59 (no leap second: time.Parse rejects 60).
   Precision p (the Go constants): 0 millis, 1 seconds, 2 micros, 3 nanos. *)
Definition ts_frac_len (p : Z) : option nat :=
  if p =? 0 then Some 3%nat else if p =? 1 then Some 0%nat else if p =? 2 then Some 6%nat
  else if p =? 3 then Some 9%nat else None.

Definition ts_sub (s : bytes) (i n : nat) : bytes := firstn n (skipn i s).
Definition ts_num (s : bytes) (i n : nat) : Z := dec_value (ts_sub s i n) 0.

Definition ts_date_ok (y mo d hh mi ss : Z) : bool :=
  (1 <=? mo) && (mo <=? 12) && (1 <=? d) && (d <=? gt_days_in mo y) && (hh <? 24) && (mi <? 60) && (ss <? 60).

Definition ts_shape (n : nat) (s : bytes) : bool :=
  Nat.eqb (length s) (match n with O => 17 | _ => 18 + n end)
  && all_digits (ts_sub s 0 8) && (nth 8 s 0 =? 45)
  && all_digits (ts_sub s 9 2) && (nth 11 s 0 =? 58)
  && all_digits (ts_sub s 12 2) && (nth 14 s 0 =? 58)
  && all_digits (ts_sub s 15 2)
  && match n with O => true | _ => (nth 17 s 0 =? 46) && all_digits (skipn 18 s) end.

Definition ts_grammarb (p : Z) (s : bytes) : bool :=
  match ts_frac_len p with
  | None => false
  | Some n =>
      ts_shape n s
      && ts_date_ok (ts_num s 0 4) (ts_num s 4 2) (ts_num s 6 2) (ts_num s 9 2) (ts_num s 12 2) (ts_num s 15 2)
  end.

(* the instant a grammatical text denotes: (unix seconds, nanoseconds) *)
Definition ts_value (p : Z) (s : bytes) : Z * Z :=
  (gt_unix_of_civil (ts_num s 0 4) (ts_num s 4 2) (ts_num s 6 2) (ts_num s 9 2) (ts_num s 12 2) (ts_num s 15 2),
   match ts_frac_len p with
   | Some n => dec_value (skipn 18 s) 0 * 10 ^ (9 - Z.of_nat n)
   | None => 0
   end).

(* a time truncated to the written precision *)
Definition ts_trunc (p : Z) (t : Z * Z) : Z * Z :=
  let n := match ts_frac_len p with Some n => n | None => 3%nat end in
  (fst t, snd t - snd t mod 10 ^ (9 - Z.of_nat n)).

(* instants of the years 0000..9999 *)
Definition TS_MIN_SEC : Z := -62167219200.      (* 0000-01-01T00:00:00Z *)
Definition TS_MAX_SEC : Z := 253402300800.      (* 10000-01-01T00:00:00Z *)
Definition ts_in_rangeb (t : Z * Z) : bool :=
  (TS_MIN_SEC <=? fst t) && (fst t <? TS_MAX_SEC) && (0 <=? snd t) && (snd t <? 1000000000).

(* which precision, if any, a text is a timestamp of *)
Definition ts_read_spec (s : bytes) : option ((Z * Z) * Z) :=
  if ts_grammarb 1 s then Some (ts_value 1 s, 1)
  else if ts_grammarb 0 s then Some (ts_value 0 s, 0)
  else if ts_grammarb 2 s then Some (ts_value 2 s, 2)
  else if ts_grammarb 3 s then Some (ts_value 3 s, 3)
  else None.

(* ---- float: optional '-', then digits with at most one '.', at least one digit ("1.", ".5", "-.5" are in,
   "", "-", ".", "-." are out); magnitude below the float64 overflow threshold ---- *)
Definition flt_body (s : bytes) : bytes :=
  match s with c :: r => if c =? MINUS then r else s | [] => [] end.

Definition float_grammarb (s : bytes) : bool :=
  let body := flt_body s in
  match index_byte 46 body with
  | None => negb (Nat.eqb (length body) 0) && all_digits body
  | Some i =>
      let ip := firstn i body in
      let fp := skipn (S i) body in
      all_digits ip && all_digits fp && negb (Nat.eqb (length ip + length fp) 0)
  end.

(* |value| < 2^1024 - 2^970, the smallest magnitude strconv.ParseFloat rounds to infinity (ErrRange) *)
Definition float_in_rangeb (s : bytes) : bool :=
  let body := flt_body s in
  match index_byte 46 body with
  | None => dec_value body 0 <? (2 ^ 1024 - 2 ^ 970)
  | Some i =>
      let ip := firstn i body in
      let fp := skipn (S i) body in
      dec_value (ip ++ fp) 0 <? (2 ^ 1024 - 2 ^ 970) * 10 ^ Z.of_nat (length fp)
  end.

Definition float_spec (s : bytes) : bool := float_grammarb s && float_in_rangeb s.

(* ---- decimal: the rounding rules of the two Write methods, on exact rationals v * 10^e ---- *)
(* round v * 10^e half away from zero to a multiple of 10^(-scale): result coefficient at exponent -scale *)
Definition dec_round_half_away (v e scale : Z) : Z :=
  if - scale <=? e then v * 10 ^ (e + scale)
  else
    let k := 10 ^ (- scale - e) in
    let q := Z.abs v / k in
    let r := Z.abs v mod k in
    let q' := if k <=? 2 * r then q + 1 else q in
    if v <? 0 then - q' else q'.

(* same value? (v1 * 10^e1 = v2 * 10^e2) *)
Definition dec_value_eqb (v1 e1 v2 e2 : Z) : bool :=
  let m := Z.min e1 e2 in v1 * 10 ^ (e1 - m) =? v2 * 10 ^ (e2 - m).

(* truncation towards zero of coef / 10^prec to scale digits: coefficient at precision min prec scale *)
Definition udec_trunc_spec (coef prec scale : Z) : Z :=
  if prec <=? scale then coef else coef / 10 ^ (prec - scale).
