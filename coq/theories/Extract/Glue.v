(* Small executable helpers used only by the OCaml driver (conversions), never by theorems. *)
From Coq Require Import ZArith List.
From QF Require Import Base.Res Base.Bytes.
Import ListNotations.
Open Scope Z_scope.

Module Glue.
(* decimal text -> Z without wrap-around (driver input conversion) *)
Fixpoint z_of_dec_loop (d : bytes) (n : Z) : Z :=
  match d with
  | [] => n
  | c :: r => z_of_dec_loop r (n * 10 + (c - 48))
  end.
Definition z_of_dec (d : bytes) : Z :=
  match d with
  | 45 :: r => - z_of_dec_loop r 0
  | _ => z_of_dec_loop d 0
  end.
Definition nat_of_z : Z -> nat := Z.to_nat.
Definition z_of_nat : nat -> Z := Z.of_nat.
(* forces the extraction of `res` in every area *)
Definition res_is_ok (r : res Z) : bool := is_ok r.
End Glue.
